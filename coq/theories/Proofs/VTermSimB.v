(* C15 - simulation, continued (see Proofs/VTermSim.v).
   C15 - simulation of the reference VT100 (Model/VT100Ref.v) by the emulator model (Model/VTerm.v) fed with
   the byte encoding of the reference's commands: the relation R, one lemma per command, composition. *)
From Coq Require Import ZArith List Bool Lia ZifyBool.
Import ListNotations.
From Urwid Require Import PyBase PyList vterm_csi_gen VTerm VT100Ref VTermRefine VTermListFacts VTermProofs VTermParse VTermSim.
Open Scope Z_scope.

Arguments Z.mul : simpl never.
Arguments Z.add : simpl never.
Arguments Z.sub : simpl never.
Arguments Z.div : simpl never.
Arguments Z.modulo : simpl never.
Arguments Z.ltb : simpl never.
Arguments Z.leb : simpl never.
Arguments Z.eqb : simpl never.
Arguments Z.min : simpl never.
Arguments Z.max : simpl never.
Arguments Z.pow : simpl never.
Arguments Z.to_nat : simpl never.
Arguments Z.of_nat : simpl never.


(* ---------- the relation without the pending-wrap part (holds in the middle of a command) ---------- *)
Record Rg (t : st) (v : vt) : Prop := mkRg {
  g_inv : Inv t;
  g_w : width t = v_w v;
  g_h : height t = v_h v;
  g_grid : grid_rel (term t) (v_g v);
  g_cur : cur t = (v_x v, v_y v);
  g_top : sr_start t = v_top v;
  g_bot : sr_end t = v_bot v;
  g_attr : attr_rel (attrspec t) (v_attr v);
  g_raok : RA_ok (v_attr v);
  g_u8 : u8eat t = None;
  g_modes : modes t = modes0 (v_origin v);
  g_cset : cs_rel (cset t) (v_cs v);
  g_tabs : tabstops t = tabs0 (v_w v);
  g_replies : replies_of (events t) = map render_reply (v_replies v);
  g_sb : v_sbknown v = true -> grid_rel (sb t) (tail_max (v_sb v)) }.

Lemma R0_Rg t v : R0 t v -> Rg t v.
Proof. intros []. constructor; assumption. Qed.

Lemma Rg_R0 t v : Rg t v -> rotten t = v_pend v -> (v_pend v = true -> v_x v = v_w v - 1) -> R0 t v.
Proof. intros [] H1 H2. constructor; assumption. Qed.

Lemma Rg_bounds t v : Rg t v ->
  1 <= v_w v /\ 1 <= v_h v /\ 0 <= v_x v < v_w v /\ 0 <= v_y v < v_h v /\
  0 <= v_top v /\ v_top v <= v_bot v /\ v_bot v < v_h v /\ zlen (v_g v) = v_h v.
Proof.
  intros []. pose proof (Forall2_zlen _ _ _ g_grid0) as L. destruct g_inv0. rewrite g_cur0 in *. cbn [fst snd] in *.
  unfold row, cell, rrow, rcell in *. lia.
Qed.

(* Rg does not read the pending flag of the reference, nor rotten / parser fields of the emulator *)
Lemma Rg_pend t v x y p p' : Rg t (with_xy v x y p) -> Rg t (with_xy v x y p').
Proof. intros []. constructor; assumption. Qed.

Lemma Rg_same t t' v :
  Rg t v -> Inv t' -> same_gfx t t' -> cur t' = cur t -> Rg t' v.
Proof.
  intros [] I' (E1 & E2 & E3 & E4 & E5 & E6 & E7 & E8 & E9 & E10 & E11 & E12) Hc. constructor; try congruence; auto; hist.
Qed.

Lemma Rg_rotten t v b : Rg t v -> Rg (with_rotten t b) v.
Proof.
  intros H. eapply Rg_same; [exact H|eapply K_Inv; apply with_rotten_K; apply H| |reflexivity]. repeat split.
Qed.

(* moving the cursor *)
Lemma constrain_Rg t v x y : Rg t v -> constrain t x y 0 = (clamp x (v_w v), clampy v y).
Proof. intros []. apply constrain_gen; assumption. Qed.

Lemma Rg_org t v : Rg t v -> v_origin v = true -> v_top v <= v_y v <= v_bot v.
Proof.
  intros [] O. pose proof (i_org t g_inv0) as Ho. rewrite g_modes0, g_cur0, g_top0, g_bot0 in Ho. cbn [m_constrain modes0 snd] in Ho.
  apply Ho. exact O.
Qed.

Lemma Rg_move t v x y p :
  Rg t v -> Rg (set_term_cursor t x y) (with_xy v (clamp x (v_w v)) (clampy v y) p).
Proof.
  intros H. pose proof H as [].
  destruct (stc_frame t x y) as ((E1 & E2 & E3 & E4 & E5 & E6 & E7 & E8 & E9 & E10 & E11 & E12) & C & _).
  constructor; cbn [with_xy v_w v_h v_g v_x v_y v_pend v_top v_bot v_attr v_sb v_sbknown v_replies v_cs v_origin]; try congruence; auto; hist.
  - eapply K_Inv. apply set_term_cursor_K. assumption.
  - rewrite C. apply constrain_Rg. exact H.
Qed.

(* ---------- rows ---------- *)
Definition rowz (t : list row) (y : Z) : row := match nthz t y with Some r => r | None => [] end.

Lemma rowz_rel t g y : grid_rel t g -> 0 <= y < zlen t ->
  nthz t y = Some (rowz t y) /\ nthz g y = Some (nth_row g y) /\ Forall2 cell_rel (rowz t y) (nth_row g y).
Proof.
  intros H Hy. destruct (nthz_some t y Hy) as (r & Hr & _). unfold rowz, nth_row.
  destruct (Forall2_nthz _ _ _ _ _ H Hr) as (r' & Hr' & P). unfold row, cell, rrow, rcell in *. rewrite Hr, Hr'. auto.
Qed.

Lemma grid_set_row t g y r r' :
  grid_rel t g -> Forall2 cell_rel r r' ->
  grid_rel (takez y t ++ r :: dropz (y + 1) t) (set_row g y r').
Proof.
  intros H Hr. unfold set_row, grid_rel. apply Forall2_app; [apply Forall2_takez; exact H|].
  constructor; [exact Hr|apply Forall2_dropz; exact H].
Qed.

Lemma blank_rel t n : Forall2 cell_rel (repeatz (empty_char t [32]) n) (blanks n).
Proof. unfold repeatz, blanks. apply Forall2_repeat'. split; [reflexivity|exact Logic.I]. Qed.

Lemma blank_line_rel t v : Rg t v -> Forall2 cell_rel (empty_line t [32]) (blanks (v_w v)).
Proof. intros []. unfold empty_line. rewrite g_w0. apply blank_rel. Qed.

(* replacing the grid *)
Lemma Rg_term t v t1 g1 :
  Rg t v -> Dims (width t) (height t) t1 -> grid_rel t1 g1 -> Rg (with_term t t1) (with_g v g1).
Proof.
  intros H D G. pose proof H as [].
  constructor; cbn [with_g v_w v_h v_g v_x v_y v_pend v_top v_bot v_attr width height term cur sr_start sr_end attrspec
                    u8eat modes cset with_term]; auto.
  eapply K_Inv. apply with_term_K; assumption.
Qed.

Lemma Dims_rel w h t g : grid_rel t g -> zlen g = h -> Forall (fun r : rrow => zlen r = w) g -> Dims w h t.
Proof.
  unfold Dims, grid_rel, row, cell, rrow, rcell. intros G L F.
  split; [pose proof (Forall2_zlen _ _ _ G); lia|]. clear L.
  induction G; constructor.
  - inversion F; subst. pose proof (Forall2_zlen _ _ _ H). lia.
  - inversion F; subst. apply IHG. assumption.
Qed.

Lemma Rg_upd t t' v g1 :
  Rg t v -> Inv t' -> width t' = width t -> height t' = height t -> cur t' = cur t -> sr_start t' = sr_start t ->
  sr_end t' = sr_end t -> attrspec t' = attrspec t -> u8eat t' = u8eat t -> modes t' = modes t -> cset t' = cset t ->
  tabstops t' = tabstops t -> sb t' = sb t -> events t' = events t -> grid_rel (term t') g1 -> Rg t' (with_g v g1).
Proof.
  intros [] I' E1 E2 E3 E4 E5 E6 E7 E8 E9 E10 E11 E12 G.
  constructor; cbn [with_g v_w v_h v_g v_x v_y v_pend v_top v_bot v_attr v_sb v_sbknown v_replies v_cs v_origin]; try congruence; auto; hist.
Qed.

Lemma rowz_len t y : Inv t -> 0 <= y < height t -> zlen (rowz (term t) y) = width t.
Proof.
  intros I Hy. pose proof (i_rows t I) as Hr. pose proof (i_cols t I) as Hc.
  destruct (nthz_some (term t) y) as (r & E & Hin); [lia|]. unfold rowz. rewrite E.
  rewrite Forall_forall in Hc. apply Hc. assumption.
Qed.

Lemma clamp_in x n : 0 <= x < n -> clamp x n = x.
Proof. intros. unfold clamp. split_ifs; lia. Qed.

(* TermCanvas.set_char at the cursor *)
Definition put_term (t : st) (ch : list Z) : list row :=
  let x := fst (cur t) in let y := snd (cur t) in let r := rowz (term t) y in
  takez y (term t) ++ (takez x r ++ (attrspec t, cs_current (cset t), ch) :: dropz (x + 1) r) :: dropz (y + 1) (term t).

Lemma set_char_eq t v ch :
  Rg t v -> set_char t ch (fst (cur t)) (snd (cur t)) = Ok (with_term t (put_term t ch)).
Proof.
  intros H. pose proof (Rg_bounds t v H) as B. pose proof (Rg_org t v H) as Og. pose proof H as [].
  unfold set_char. rewrite (constrain_Rg t v _ _ H).
  rewrite g_cur0. cbn [fst snd]. rewrite clamp_in by lia. rewrite clampy_in by (auto; lia).
  assert (0 <= v_y v < zlen (term t)) as Hy by (rewrite (i_rows t g_inv0), g_h0; lia).
  destruct (rowz_rel (term t) (v_g v) (v_y v) g_grid0 Hy) as (N1 & _ & _).
  assert (0 <= v_y v) as Hy0 by lia. rewrite (get_index_nthz (term t) (v_y v) _ Hy0 N1). cbn [bind].
  pose proof (rowz_len t (v_y v) g_inv0 ltac:(lia)) as Lr.
  rewrite set_index_eq by lia. cbn [bind]. rewrite set_index_eq by lia. cbn [bind].
  unfold put_term. rewrite g_cur0. reflexivity.
Qed.

(* the reference's effect of writing a character at its cursor *)
Definition put_ref (v : vt) (ch : Z) : vt :=
  let r := nth_row (v_g v) (v_y v) in
  with_g v (set_row (v_g v) (v_y v) (takez (v_x v) r ++ (ch, Some (v_attr v, cur_cs v)) :: dropz (v_x v + 1) r)).

Lemma put_grid_rel t v ch : Rg t v -> grid_rel (put_term t [ch]) (v_g (put_ref v ch)).
Proof.
  intros H. pose proof (Rg_bounds t v H) as B. pose proof H as [].
  unfold put_term, put_ref. cbv zeta. rewrite g_cur0. cbn [fst snd with_g v_g].
  assert (0 <= v_y v < zlen (term t)) as Hy by (rewrite (i_rows t g_inv0), g_h0; lia).
  destruct (rowz_rel (term t) (v_g v) (v_y v) g_grid0 Hy) as (_ & _ & Rr).
  apply grid_set_row; [assumption|].
  apply Forall2_app; [apply Forall2_takez; exact Rr|]. constructor; [|apply Forall2_dropz; exact Rr].
  split; [reflexivity|]. cbn [fst snd]. split; [assumption|]. split; [assumption|].
  unfold cs_rel, cur_cs in *. destruct (v_cs v) as [[g0 g1] sh]. destruct g_cset0 as (_ & _ & _ & _ & _ & _ & _ & Ec). exact Ec.
Qed.

Lemma apply_mapping_id c k ch : cs_rel c k -> apply_mapping c ch = (c, ch).
Proof.
  destruct k as [[g0 g1] sh]. intros (E1 & E2 & E3 & E4 & E5 & E6 & E7 & E8). unfold apply_mapping, cs_g. rewrite E1, E6.
  destruct E7 as [-> | [-> Hg]].
  - replace (0 =? 0) with true by reflexivity. rewrite E2. destruct E3 as [-> | ->]; reflexivity.
  - replace (1 =? 0) with false by reflexivity. destruct E4 as [-> | ->]; reflexivity.
Qed.

Lemma apply_mapping_new ch : apply_mapping charset_new ch = (charset_new, ch).
Proof. reflexivity. Qed.

(* TermCanvas.push_char *)
Lemma push_char_Rg t v ch x' y' p :
  Rg t v ->
  exists t', push_char t [ch] x' y' = Ok t' /\
             Rg t' (with_xy (put_ref v ch) (clamp x' (v_w v)) (clampy v y') p) /\
             rotten t' = rotten t /\ inesc t' = inesc t /\ pstate t' = pstate t.
Proof.
  intros H. pose proof H as [].
  unfold push_char. rewrite (apply_mapping_id _ _ [ch] g_cset0).
  set (t0 := with_cset t (cset t)).
  assert (Rg t0 v) as H0.
  { eapply Rg_same; [exact H|eapply K_Inv; apply with_cset_K; assumption| |reflexivity]. repeat split; reflexivity. }
  replace (m_insert (modes t0)) with false by (subst t0; cbn [modes with_cset]; rewrite g_modes0; reflexivity).
  rewrite (set_char_eq t0 v [ch] H0). cbn [bind].
  set (t1 := with_term t0 (put_term t0 [ch])).
  assert (Rg t1 (put_ref v ch)) as H1.
  { pose proof (set_char_Keeps t0 [ch] (fst (cur t0)) (snd (cur t0)) (g_inv t0 v H0)) as Kp.
    rewrite (set_char_eq t0 v [ch] H0) in Kp. apply K_Inv in Kp.
    unfold put_ref. cbv zeta. eapply Rg_upd; [exact H0|exact Kp|..]; try reflexivity.
    apply (put_grid_rel t0 v ch H0). }
  eexists. split; [reflexivity|].
  destruct (stc_frame t1 x' y') as (_ & _ & Fr & Fi & Fp & _).
  split; [|split; [rewrite Fr; reflexivity|split; [rewrite Fi; reflexivity|rewrite Fp; reflexivity]]].
  pose proof (Rg_move t1 (put_ref v ch) x' y' p H1) as M. exact M.
Qed.

(* ---------- scrolling ---------- *)
Lemma tail_max_push (b : list row) (l : list rrow) r r' :
  grid_rel b (tail_max l) -> Forall2 cell_rel r r' -> grid_rel (sb_push b r) (tail_max (l ++ [r'])).
Proof.
  intros Hb Hr. pose proof (Forall2_zlen _ _ _ Hb) as Lb. unfold grid_rel, tail_max, sb_push in *. cbv zeta.
  unfold scrollback_maxlen_gen in *. unfold row, cell, rrow, rcell in *. pose proof (zlen_nonneg l) as Ll.
  assert (zlen (l ++ [r']) = zlen l + 1) as La by (unfold zlen; rewrite app_length; cbn [length]; lia).
  assert (zlen (b ++ [r]) = zlen b + 1) as Lba by (unfold zlen; rewrite app_length; cbn [length]; lia).
  rewrite La, Lba.
  destruct (Z_lt_ge_dec (zlen l) 10000) as [C|C].
  - rewrite (dropz_nonpos l) in * by lia. rewrite (dropz_nonpos (l ++ [r'])) by lia.
    replace (10000 <? zlen b + 1) with false by lia. apply Forall2_app; [exact Hb|]. constructor; [exact Hr|constructor].
  - rewrite zlen_dropz in Lb by lia.
    replace (10000 <? zlen b + 1) with true by lia.
    replace (zlen l + 1 - 10000) with (1 + (zlen l - 10000)) by lia.
    rewrite <- dropz_dropz' by lia. apply Forall2_dropz.
    rewrite dropz_app. rewrite (dropz_nonpos [r']) by lia.
    apply Forall2_app; [exact Hb|]. constructor; [exact Hr|constructor].
Qed.

Lemma scroll_up_Rg t v :
  Rg t v ->
  exists t', scroll t false = Ok t' /\ Rg t' (scroll_up v) /\
             rotten t' = rotten t /\ inesc t' = inesc t /\ pstate t' = pstate t.
Proof.
  intros H. pose proof (Rg_bounds t v H) as B. pose proof H as [].
  pose proof (scroll_Keeps t false g_inv0) as Kp.
  unfold scroll in *. rewrite g_top0 in *.
  assert (zlen (term t) = v_h v) as Lt by (rewrite (i_rows t g_inv0); exact g_h0).
  destruct (rowz_rel (term t) (v_g v) (v_top v) g_grid0 ltac:(lia)) as (N1 & _ & _).
  rewrite (pop_eq (term t) (v_top v) _ ltac:(lia) N1) in *. cbn [bind fst snd] in *.
  set (t1 := sb_append t (rowz (term t) (v_top v))) in *.
  set (T := takez (v_top v) (term t) ++ dropz (v_top v + 1) (term t)) in *.
  assert (zlen T = v_h v - 1) as LT.
  { subst T. rewrite zlen_app, zlen_takez, zlen_dropz by lia. lia. }
  change (sr_end t1) with (sr_end t) in *. rewrite g_bot0 in *.
  rewrite (insert_eq T (v_bot v)) in * by lia.
  eexists. split; [reflexivity|]. split; [|repeat split; reflexivity].
  apply K_Inv in Kp.
  unfold scroll_up.
  destruct (rowz_rel (term t) (v_g v) (v_top v) g_grid0 ltac:(lia)) as (_ & _ & Rtop).
  constructor; cbn [v_w v_h v_g v_x v_y v_pend v_top v_bot v_attr v_sb v_sbknown v_replies v_cs v_origin]; auto.
  2:{ intros Hk. apply andb_prop in Hk. destruct Hk as [Hk1 Hk2]. rewrite Hk2. apply Z.eqb_eq in Hk2.
      cbn [sb with_term]. subst t1. unfold sb_append. cbv zeta. cbn [sb with_sb]. fold (sb_push (sb t) (rowz (term t) (v_top v))).
      apply tail_max_push; [apply g_sb0; exact Hk1|]. rewrite Hk2 in Rtop. rewrite Hk2. exact Rtop. }
  subst T. cbn [term with_term].
  rewrite (scroll_up_list (term t) (v_top v) (v_bot v)) by lia.
  unfold grid_rel, sub. replace (v_bot v + 1 - (v_top v + 1)) with (v_bot v - v_top v) by lia.
  apply Forall2_app; [apply Forall2_takez; exact g_grid0|].
  apply Forall2_app; [apply Forall2_takez; apply Forall2_dropz; exact g_grid0|].
  constructor; [|apply Forall2_dropz; exact g_grid0].
  unfold empty_line. change (width t1) with (width t). rewrite g_w0. apply blank_rel.
Qed.

Lemma scroll_down_Rg t v :
  Rg t v ->
  exists t', scroll t true = Ok t' /\ Rg t' (scroll_down v) /\
             rotten t' = rotten t /\ inesc t' = inesc t /\ pstate t' = pstate t.
Proof.
  intros H. pose proof (Rg_bounds t v H) as B. pose proof H as [].
  pose proof (scroll_Keeps t true g_inv0) as Kp.
  unfold scroll in *. rewrite g_top0, g_bot0 in *.
  assert (zlen (term t) = v_h v) as Lt by (rewrite (i_rows t g_inv0); exact g_h0).
  destruct (rowz_rel (term t) (v_g v) (v_bot v) g_grid0 ltac:(lia)) as (N1 & _ & _).
  rewrite (pop_eq (term t) (v_bot v) _ ltac:(lia) N1) in *. cbn [bind fst snd] in *.
  set (T := takez (v_bot v) (term t) ++ dropz (v_bot v + 1) (term t)) in *.
  assert (zlen T = v_h v - 1) as LT.
  { subst T. rewrite zlen_app, zlen_takez, zlen_dropz by lia. lia. }
  rewrite (insert_eq T (v_top v)) in * by lia.
  eexists. split; [reflexivity|]. split; [|repeat split; reflexivity].
  apply K_Inv in Kp.
  unfold scroll_down.
  eapply Rg_upd; [exact H|exact Kp|..]; try reflexivity.
  subst T. cbn [term with_term].
  rewrite (scroll_down_list (term t) (v_top v) (v_bot v)) by lia.
  unfold grid_rel, sub.
  apply Forall2_app; [apply Forall2_takez; exact g_grid0|].
  constructor; [rewrite <- g_w0; apply blank_rel|].
  apply Forall2_app; [apply Forall2_takez; apply Forall2_dropz; exact g_grid0|apply Forall2_dropz; exact g_grid0].
Qed.

(* ---------- LF, RI ---------- *)
Lemma with_xy_id v : with_xy v (v_x v) (v_y v) (v_pend v) = v.
Proof. destruct v. reflexivity. Qed.

Ltac cy M Og := rewrite clampy_in in M by (first [intros O'; pose proof (Og O'); flia | flia]).

Lemma Rg_stay t v : Rg t v -> Rg (set_term_cursor t (v_x v) (v_y v)) v.
Proof.
  intros H. pose proof (Rg_bounds t v H) as B. pose proof (Rg_org t v H) as Og.
  pose proof (Rg_move t v (v_x v) (v_y v) (v_pend v) H) as M.
  rewrite !clamp_in in M by lia. cy M Og. rewrite with_xy_id in M. exact M.
Qed.

Lemma linefeed_Rg t v :
  Rg t v ->
  exists t', linefeed t false = Ok t' /\ Rg t' (index v) /\
             rotten t' = rotten t /\ inesc t' = inesc t /\ pstate t' = pstate t.
Proof.
  intros H. pose proof (Rg_bounds t v H) as B. pose proof (Rg_org t v H) as Og. pose proof H as [].
  unfold linefeed, index. rewrite g_cur0, g_h0, g_bot0.
  destruct ((v_h v - 1 <=? v_y v) && (v_bot v <? v_h v - 1)) eqn:C1.
  - replace (v_y v =? v_bot v) with false by lia. replace (v_y v <? v_h v - 1) with false by lia.
    eexists. split; [reflexivity|]. split; [apply Rg_stay; assumption|].
    destruct (stc_frame t (v_x v) (v_y v)) as (_ & _ & Fr & Fi & Fp & _). auto.
  - destruct (v_y v =? v_bot v) eqn:C2.
    + destruct (scroll_up_Rg t v H) as (t1 & E1 & H1 & Fr1 & Fi1 & Fp1). rewrite E1. cbn [bind].
      eexists. split; [reflexivity|].
      destruct (stc_frame t1 (v_x v) (v_y v)) as (_ & _ & Fr & Fi & Fp & _).
      split; [|rewrite Fr, Fi, Fp; auto].
      apply (Rg_stay t1 (scroll_up v) H1).
    + replace (v_y v <? v_h v - 1) with true by lia.
      eexists. split; [reflexivity|].
      destruct (stc_frame t (v_x v) (v_y v + 1)) as (_ & _ & Fr & Fi & Fp & _).
      split; [|auto].
      pose proof (Rg_move t v (v_x v) (v_y v + 1) (v_pend v) H) as M. rewrite !clamp_in in M by lia. cy M Og. exact M.
Qed.

Lemma rlinefeed_Rg t v :
  Rg t v ->
  exists t', linefeed t true = Ok t' /\ Rg t' (exec v CRi) /\
             rotten t' = rotten t /\ inesc t' = inesc t /\ pstate t' = pstate t.
Proof.
  intros H. pose proof (Rg_bounds t v H) as B. pose proof (Rg_org t v H) as Og. pose proof H as [].
  unfold linefeed. cbn [exec]. rewrite g_cur0, g_top0.
  destruct ((v_y v <=? 0) && (0 <? v_top v)) eqn:C1.
  - replace (v_y v =? v_top v) with false by lia. replace (0 <? v_y v) with false by lia.
    eexists. split; [reflexivity|]. split; [apply Rg_stay; assumption|].
    destruct (stc_frame t (v_x v) (v_y v)) as (_ & _ & Fr & Fi & Fp & _). auto.
  - destruct (v_y v =? v_top v) eqn:C2.
    + destruct (scroll_down_Rg t v H) as (t1 & E1 & H1 & Fr1 & Fi1 & Fp1). rewrite E1. cbn [bind].
      eexists. split; [reflexivity|].
      destruct (stc_frame t1 (v_x v) (v_y v)) as (_ & _ & Fr & Fi & Fp & _).
      split; [|rewrite Fr, Fi, Fp; auto].
      apply (Rg_stay t1 (scroll_down v) H1).
    + replace (0 <? v_y v) with true by lia.
      eexists. split; [reflexivity|].
      destruct (stc_frame t (v_x v) (v_y v - 1)) as (_ & _ & Fr & Fi & Fp & _).
      split; [|auto].
      pose proof (Rg_move t v (v_x v) (v_y v - 1) (v_pend v) H) as M. rewrite !clamp_in in M by lia. cy M Og. exact M.
Qed.

Lemma pc_lf s : m_display_ctrl (modes s) = false ->
  process_char s [10] = bind (linefeed s false) (fun s' => if m_lfnl (modes s') then Ok (carriage_return s') else Ok s').
Proof. intros Hd. unfold process_char. destruct (cur s). cbv zeta. rewrite Hd. reflexivity. Qed.

Lemma index_pend v : v_pend (index v) = v_pend v /\ (v_pend v = false -> True).
Proof. unfold index, scroll_up. split_ifs; cbn; auto. Qed.

Lemma index_xw v : v_x (index v) = v_x v /\ v_w (index v) = v_w v.
Proof. unfold index, scroll_up. split_ifs; cbn; auto. Qed.

Lemma sim_lf s v : R s v -> ambiguous v CLf = false ->
  exists s', addbytes s (enc_cmd CLf) = Ok s' /\ R s' (exec v CLf).
Proof.
  intros HR Ha. pose proof (R_idle s v HR) as [He Hp Hu Hd Hm]. destruct HR as (H0 & _).
  cbn [enc_cmd exec ambiguous] in *. rewrite addbytes_1. rewrite addbyte_ascii by (auto; lia). rewrite pc_lf by assumption.
  destruct (linefeed_Rg s v (R0_Rg s v H0)) as (s1 & E & H1 & Fr & Fi & Fp). rewrite E. cbn [bind].
  rewrite (g_modes s1 _ H1). cbn [m_lfnl modes0].
  eexists. split; [reflexivity|]. split; [|split; congruence].
  destruct (index_pend v) as [P1 _]. destruct (index_xw v) as [X1 X2].
  apply Rg_R0; [exact H1|rewrite Fr, P1; apply (r_pend s v H0)|rewrite P1, Ha; discriminate].
Qed.

Lemma R_leave2 t v : R0 t v -> R (leave_escape t) v.
Proof.
  intros H. split; [|split; reflexivity]. eapply R0_parser; [eassumption|..]; try reflexivity. repeat split.
Qed.

Lemma sim_ri s v : R s v -> ambiguous v CRi = false ->
  exists s', addbytes s (enc_cmd CRi) = Ok s' /\ R s' (exec v CRi).
Proof.
  intros HR Ha. pose proof (R_idle s v HR) as [He Hp Hu Hd Hm]. destruct HR as (H0 & _).
  cbn [enc_cmd ambiguous] in *. cbn [addbytes].
  rewrite addbyte_ascii by (auto; lia).
  assert (process_char s [27] = Ok (with_inesc s true)) as E1.
  { unfold process_char. destruct (cur s). cbv zeta. rewrite Hp. reflexivity. }
  rewrite E1. cbn [bind]. set (s1 := with_inesc s true).
  assert (R0 s1 v) as H1 by (eapply R0_parser; [exact H0|..]; try reflexivity; repeat split).
  rewrite addbyte_ascii by (auto; lia).
  rewrite process_char_plain by (auto; unfold plain_byte; lia).
  change (inesc s1) with true. cbv iota.
  assert (parse_escape s1 [77] = bind (linefeed s1 true) (fun s' => Ok (leave_escape s'))) as E2.
  { unfold parse_escape. cbv zeta. change (pstate s1) with (pstate s). rewrite Hp. reflexivity. }
  rewrite E2.
  destruct (rlinefeed_Rg s1 v (R0_Rg s1 v H1)) as (s2 & E & H2 & Fr & Fi & Fp). rewrite E. cbn [bind].
  eexists. split; [reflexivity|]. apply R_leave2.
  assert (v_pend (exec v CRi) = v_pend v) as P1 by (cbn [exec]; unfold scroll_down; split_ifs; reflexivity).
  apply Rg_R0; [exact H2|rewrite Fr, P1; apply (r_pend s1 v H1)|rewrite P1, Ha; discriminate].
Qed.

(* ---------- printable characters ---------- *)
Lemma scroll_up_xy v x y p : scroll_up (with_xy v x y p) = with_xy (scroll_up v) x y p.
Proof. destruct v. reflexivity. Qed.

Lemma put_ref_fields v ch :
  v_w (put_ref v ch) = v_w v /\ v_h (put_ref v ch) = v_h v /\ v_x (put_ref v ch) = v_x v /\ v_y (put_ref v ch) = v_y v.
Proof. unfold put_ref. cbv zeta. repeat split; reflexivity. Qed.

Lemma exec_ch v ch :
  exec v (CCh ch) =
  (let v0 := if v_pend v then index (with_xy v 0 (v_y v) false) else v in
   if v_x v0 =? v_w v - 1 then with_xy (put_ref v0 ch) (v_x v0) (v_y v0) true
   else with_xy (put_ref v0 ch) (v_x v0 + 1) (v_y v0) false).
Proof. reflexivity. Qed.

Lemma sim_ch s v ch : R s v -> 32 <= ch <= 126 ->
  exists s', addbytes s (enc_cmd (CCh ch)) = Ok s' /\ R s' (exec v (CCh ch)).
Proof.
  intros HR Hc. pose proof (R_idle s v HR) as [He Hp Hu Hd Hm]. destruct HR as (H0 & _).
  pose proof (R0_bounds s v H0) as B. pose proof (R0_org s v H0) as Og. pose proof H0 as [].
  cbn [enc_cmd]. rewrite addbytes_1. rewrite addbyte_ascii by (auto; lia).
  rewrite process_char_plain by (auto; unfold plain_byte; lia). rewrite He.
  rewrite exec_ch. cbv zeta.
  unfold push_cursor. rewrite r_cur. rewrite r_modes. cbn [m_autowrap modes0]. rewrite r_w, r_pend.
  destruct (v_pend v) eqn:P.
  - (* a pending wrap is performed first *)
    specialize (r_pendx eq_refl).
    cbn [negb]. rewrite andb_false_r. cbv zeta.
    replace ((v_w v <=? v_x v + 1) && true) with true by flia.
    rewrite r_bot, r_h.
    set (v1 := index (with_xy v 0 (v_y v) false)).
    assert (exists t1 y', (do s' <- (if v_y v =? v_bot v then scroll s false else Ok s);
                           Ok (set_term_cursor s' 0 (if v_y v =? v_bot v then v_y v else if v_y v <? v_h v - 1 then v_y v + 1 else v_y v),
                               1, (if v_y v =? v_bot v then v_y v else if v_y v <? v_h v - 1 then v_y v + 1 else v_y v)))
                          = Ok (t1, 1, y') /\ Rg t1 v1 /\ y' = v_y v1 /\ rotten t1 = true /\ inesc t1 = false /\ pstate t1 = 0)
      as (t1 & y' & E1 & H1 & Ey & Fr1 & Fi1 & Fp1).
    { subst v1. unfold index. cbn [with_xy v_y v_bot v_h v_x v_pend].
      destruct (v_y v =? v_bot v) eqn:C2.
      - destruct (scroll_up_Rg s v (R0_Rg s v H0)) as (t0 & E0 & G0 & Fr0 & Fi0 & Fp0). rewrite E0. cbn [bind].
        eexists _, _. split; [reflexivity|].
        destruct (stc_frame t0 0 (v_y v)) as (_ & _ & Fr & Fi & Fp & _).
        rewrite scroll_up_xy. split; [|split; [reflexivity|rewrite Fr, Fi, Fp; repeat split; congruence]].
        pose proof (Rg_move t0 (scroll_up v) 0 (v_y v) false G0) as M.
        change (v_w (scroll_up v)) with (v_w v) in M. change (clampy (scroll_up v) (v_y v)) with (clampy v (v_y v)) in M.
        rewrite !clamp_in in M by flia. cy M Og. exact M.
      - cbn [bind]. destruct (v_y v <? v_h v - 1) eqn:C3.
        + eexists _, _. split; [reflexivity|].
          destruct (stc_frame s 0 (v_y v + 1)) as (_ & _ & Fr & Fi & Fp & _).
          split; [|split; [reflexivity|rewrite Fr, Fi, Fp; repeat split; congruence]].
          pose proof (Rg_move s v 0 (v_y v + 1) false (R0_Rg s v H0)) as M. rewrite !clamp_in in M by flia. cy M Og. exact M.
        + eexists _, _. split; [reflexivity|].
          destruct (stc_frame s 0 (v_y v)) as (_ & _ & Fr & Fi & Fp & _).
          split; [|split; [reflexivity|rewrite Fr, Fi, Fp; repeat split; congruence]].
          pose proof (Rg_move s v 0 (v_y v) false (R0_Rg s v H0)) as M. rewrite !clamp_in in M by flia. cy M Og. exact M. }
    rewrite E1. cbn [bind]. clear E1.
    assert (v_w v1 = v_w v /\ v_h v1 = v_h v /\ v_x v1 = 0 /\ 0 <= v_y v1 < v_h v) as (W1 & Hh1 & X1 & Y1).
    { pose proof (Rg_bounds t1 v1 H1) as B1. subst v1. unfold index, scroll_up in *. cbn [with_xy v_y v_bot v_h v_x v_w] in *.
      split_ifs; cbn [v_w v_h v_x v_y with_xy] in *; repeat split ; flia. }
    destruct (push_char_Rg t1 v1 ch 1 y' (v_w v <=? 1) H1) as (t2 & E2 & H2 & Fr2 & Fi2 & Fp2).
    rewrite E2. cbn [bind]. eexists. split; [reflexivity|].
    change (width t2) with (width t2).
    assert (width t2 = v_w v) as W2.
    { rewrite (g_w t2 _ H2). cbn [with_xy v_w]. destruct (put_ref_fields v1 ch) as (Q & _). rewrite Q. exact W1. }
    rewrite W2. rewrite X1.
    split; [|split; [cbn; congruence|cbn; congruence]].
    apply Rg_R0.
    + apply Rg_rotten.
      rewrite W1 in H2. rewrite Ey in H2. pose proof (Rg_org t1 v1 H1) as Og1.
      rewrite (clampy_in v1 (v_y v1)) in H2 by (first [exact Og1 | flia]).
      unfold clamp in H2.
      destruct (0 =? v_w v - 1) eqn:C4.
      * replace (v_w v <=? 1) with true in H2 by flia. replace (v_w v - 1) with 0 in H2 by flia. exact H2.
      * replace (v_w v <=? 1) with false in H2 by flia. replace (1 <? 0) with false in H2 by reflexivity.
        eapply Rg_pend. exact H2.
    + cbn [rotten with_rotten]. destruct (0 =? v_w v - 1) eqn:C4; cbn [with_xy v_pend] ; flia.
    + destruct (0 =? v_w v - 1) eqn:C4; cbn [with_xy v_pend v_x v_w]; [|discriminate].
      intros _. destruct (put_ref_fields v1 ch) as (Q & _). rewrite Q, W1. flia.
  - (* no pending wrap *)
    cbn [negb]. rewrite andb_true_r, andb_false_r.
    destruct (v_w v <=? v_x v + 1) eqn:C1.
    + (* last column: the character goes there and the wrap becomes pending *)
      replace (v_x v =? v_w v - 1) with true by flia.
      destruct (push_char_Rg (with_rotten s true) v ch (v_x v) (v_y v) true (Rg_rotten s v true (R0_Rg s v H0)))
        as (t2 & E2 & H2 & Fr2 & Fi2 & Fp2).
      rewrite E2. eexists. split; [reflexivity|].
      split; [|split; [rewrite Fi2; exact He|rewrite Fp2; exact Hp]].
      rewrite !clamp_in in H2 by flia. cy H2 Og.
      apply Rg_R0; [exact H2|rewrite Fr2; reflexivity|].
      intros _. cbn [with_xy v_x v_w]. destruct (put_ref_fields v ch) as (Q & _). rewrite Q. flia.
    + replace (v_x v =? v_w v - 1) with false by flia. cbv zeta. cbn [bind].
      destruct (push_char_Rg s v ch (v_x v + 1) (v_y v) false (R0_Rg s v H0)) as (t2 & E2 & H2 & Fr2 & Fi2 & Fp2).
      rewrite E2. cbn [bind]. eexists. split; [reflexivity|].
      split; [|split; [cbn; congruence|cbn; congruence]].
      rewrite !clamp_in in H2 by flia. cy H2 Og.
      assert (width t2 = v_w v) as W2.
      { rewrite (g_w t2 _ H2). cbn [with_xy v_w]. destruct (put_ref_fields v ch) as (Q & _). exact Q. }
      rewrite W2. replace (v_w v <=? v_x v + 1) with false by flia.
      apply Rg_R0; [|reflexivity|discriminate].
      apply Rg_rotten. exact H2.
Qed.

