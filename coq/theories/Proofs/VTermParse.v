(* C15 - the parser of the emulator model on the byte encoding of the reference commands:
   decimal parameters are read back exactly, a CSI sequence ends in csi_dispatch with those parameters. *)
From Coq Require Import ZArith List Bool Lia ZifyBool.
Import ListNotations.
From Urwid Require Import PyBase PyList vterm_csi_gen VTerm VT100Ref VTermRefine VTermListFacts VTermProofs.
Open Scope Z_scope.

Arguments Z.mul : simpl never.
Arguments Z.add : simpl never.
Arguments Z.sub : simpl never.
Arguments Z.div : simpl never.
Arguments Z.modulo : simpl never.
Arguments Z.ltb : simpl never.
Arguments Z.leb : simpl never.
Arguments Z.eqb : simpl never.
Arguments Z.min : simpl never.
Arguments Z.max : simpl never.
Arguments Z.pow : simpl never.
Arguments Z.log2 : simpl never.
Arguments Z.to_nat : simpl never.
Arguments Z.of_nat : simpl never.

(* ---------- decimal numbers ---------- *)
(* a parameter the code can read back: int() refuses more than 4300 digits *)
Definition small (n : Z) : Prop := n < 2 ^ 4000.

Lemma digits_val_snoc a : forall acc d, 48 <= d <= 57 ->
  digits_val (a ++ [d]) acc = match digits_val a acc with Some v => Some (v * 10 + (d - 48)) | None => None end.
Proof.
  induction a; intros acc d Hd; cbn [app digits_val].
  - replace ((48 <=? d) && (d <=? 57)) with true by lia. reflexivity.
  - destruct ((48 <=? a) && (a <=? 57)); [apply IHa; assumption|reflexivity].
Qed.

Lemma dec_digits_val fuel : forall n, 0 <= n < 10 ^ (Z.of_nat fuel + 1) -> digits_val (dec_digits fuel n) 0 = Some n.
Proof.
  induction fuel; intros n Hn.
  - cbn [dec_digits digits_val]. change (10 ^ (Z.of_nat 0 + 1)) with 10 in Hn. rewrite Z.mod_small by lia.
    replace ((48 <=? 48 + n) && (48 + n <=? 57)) with true by lia. f_equal. lia.
  - cbn [dec_digits]. destruct (n <? 10) eqn:C.
    + cbn [digits_val]. replace ((48 <=? 48 + n) && (48 + n <=? 57)) with true by lia. f_equal. lia.
    + pose proof (Z.mod_pos_bound n 10 ltac:(lia)). rewrite digits_val_snoc by lia.
      rewrite IHfuel.
      * f_equal. pose proof (Z.div_mod n 10 ltac:(lia)). lia.
      * split; [apply Z.div_pos; lia|]. apply Z.div_lt_upper_bound; [lia|].
        replace (Z.of_nat (S fuel) + 1) with (Z.succ (Z.of_nat fuel + 1)) in Hn by lia.
        rewrite Z.pow_succ_r in Hn by lia. lia.
Qed.

Lemma dec_digits_all fuel : forall n, 0 <= n -> all_digits (dec_digits fuel n) = true.
Proof.
  induction fuel; intros n Hn; cbn [dec_digits].
  - pose proof (Z.mod_pos_bound n 10 ltac:(lia)). cbn [all_digits]. lia.
  - destruct (n <? 10) eqn:C.
    + cbn [all_digits]. lia.
    + pose proof (Z.mod_pos_bound n 10 ltac:(lia)). rewrite all_digits_app. rewrite IHfuel by (apply Z.div_pos; lia).
      cbn [all_digits]. lia.
Qed.

Lemma dec_digits_len fuel : forall n, 1 <= zlen (dec_digits fuel n) <= Z.of_nat fuel + 1.
Proof.
  induction fuel; intros n; cbn [dec_digits].
  - unfold zlen. cbn [length]. lia.
  - destruct (n <? 10).
    + unfold zlen. cbn [length]. lia.
    + specialize (IHfuel (n / 10)). unfold zlen in *. rewrite app_length. cbn [length]. lia.
Qed.

Lemma pow10_log2 n : 0 <= n -> n < 10 ^ (Z.of_nat (Z.to_nat (Z.log2 n)) + 1).
Proof.
  intros Hn. rewrite Z2Nat.id by (apply Z.log2_nonneg).
  destruct (Z.eq_dec n 0) as [Hz|Hz].
  - rewrite (Z.log2_nonpos n) by lia. change (10 ^ (0 + 1)) with 10. lia.
  - pose proof (Z.log2_spec n ltac:(lia)) as [_ Hl].
    eapply Z.lt_le_trans; [exact Hl|]. rewrite <- Z.add_1_r. apply Z.pow_le_mono_l. lia.
Qed.

Lemma parse_int_dec n : 0 <= n -> small n -> parse_int (dec_str n) = Some n.
Proof.
  intros Hn Hs. unfold dec_str. replace (n <? 0) with false by lia.
  set (fuel := Z.to_nat (Z.log2 n)).
  pose proof (dec_digits_len fuel n) as Hl.
  assert (Z.of_nat fuel < 4000) as Hf.
  { subst fuel. rewrite Z2Nat.id by (apply Z.log2_nonneg).
    destruct (Z.eq_dec n 0) as [Hz|Hz]; [rewrite (Z.log2_nonpos n) by lia; lia|].
    apply Z.log2_lt_pow2; [lia|exact Hs]. }
  unfold parse_int. destruct (dec_digits fuel n) eqn:E; [rewrite zlen_nil in Hl; lia|].
  rewrite <- E in *. replace (4300 <? zlen (dec_digits fuel n)) with false by lia.
  apply dec_digits_val. split; [assumption|]. apply pow10_log2. assumption.
Qed.

Lemma dec_str_all n : 0 <= n -> all_digits (dec_str n) = true.
Proof. intros. unfold dec_str. replace (n <? 0) with false by lia. apply dec_digits_all. assumption. Qed.

(* ---------- parameter lists ---------- *)
Definition p2o (n : Z) : oz := if n <? 0 then None else Some n.

Lemma enc_param_all n : all_digits (enc_param n) = true.
Proof. unfold enc_param. destruct (n <? 0) eqn:C; [reflexivity|apply dec_str_all; lia]. Qed.

Lemma parse_enc_param n : small n -> parse_int (enc_param n) = p2o n.
Proof.
  intros Hs. unfold enc_param, p2o. destruct (n <? 0) eqn:C; [reflexivity|]. apply parse_int_dec; [lia|assumption].
Qed.

Lemma split59_digits a : forall rest acc, all_digits a = true -> split59 (a ++ rest) acc = split59 rest (rev a ++ acc).
Proof.
  induction a; intros rest acc Ha; cbn [app split59 rev]; [reflexivity|].
  cbn [all_digits] in Ha. replace (a =? 59) with false by lia. rewrite IHa by lia.
  rewrite <- app_assoc. reflexivity.
Qed.

Lemma split59_end a : all_digits a = true -> split59 a [] = [a].
Proof.
  intros Ha. rewrite <- (app_nil_r a) at 1. rewrite split59_digits by assumption. cbn [split59].
  rewrite app_nil_r, rev_involutive. reflexivity.
Qed.

Lemma parse_params ps : ps <> [] -> Forall small ps ->
  map parse_int (split59 (enc_params ps) []) = map p2o ps.
Proof.
  induction ps as [|n r IH]; intros Hne Hs; [contradiction|].
  inversion Hs as [|? ? Hn Hr]; subst.
  destruct r as [|m r'].
  - cbn [enc_params map]. rewrite split59_end by apply enc_param_all. cbn [map]. rewrite parse_enc_param by assumption. reflexivity.
  - change (enc_params (n :: m :: r')) with (enc_param n ++ 59 :: enc_params (m :: r')).
    rewrite split59_digits by apply enc_param_all. cbn [split59]. replace (59 =? 59) with true by reflexivity.
    rewrite app_nil_r, rev_involutive. cbn [map]. rewrite parse_enc_param by assumption.
    rewrite IH; [reflexivity|discriminate|assumption].
Qed.

(* the bytes between ESC [ and the final byte *)
Definition param_byte (c : Z) : Prop := 48 <= c <= 57 \/ c = 59.

Lemma all_digits_param a : all_digits a = true -> Forall param_byte a.
Proof.
  induction a; intros Ha; constructor; cbn [all_digits] in Ha.
  - left. lia.
  - apply IHa. lia.
Qed.

Lemma enc_params_bytes ps : Forall param_byte (enc_params ps).
Proof.
  induction ps as [|n r IH]; [constructor|]. destruct r as [|m r'].
  - cbn [enc_params]. apply all_digits_param. apply enc_param_all.
  - change (enc_params (n :: m :: r')) with (enc_param n ++ 59 :: enc_params (m :: r')).
    apply Forall_app. split; [apply all_digits_param; apply enc_param_all|]. constructor; [right; reflexivity|exact IH].
Qed.

Lemma enc_params_no_qmark ps : match enc_params ps with 63 :: _ => true | _ => false end = false.
Proof.
  pose proof (enc_params_bytes ps) as H. destruct (enc_params ps) as [|c r]; [reflexivity|].
  inversion H as [|? ? Hc _]; subst. destruct Hc as [Hc|Hc].
  - destruct (Z.eq_dec c 63); [lia|]. destruct c as [|p|p]; try reflexivity.
    repeat (destruct p as [p|p|]; try reflexivity); lia.
  - subst. reflexivity.
Qed.

(* ---------- bytes through addbyte / process_char / parse_escape ---------- *)
Lemma with_u8eat_id s : u8eat s = None -> with_u8eat s None = s.
Proof. destruct s. cbn. intros ->. reflexivity. Qed.

Lemma addbyte_ascii s b :
  u8eat s = None -> m_main_charset (modes s) = charset_default_gen -> 0 <= b < 128 ->
  addbyte s b = process_char s [b].
Proof.
  intros Hu Hm Hb. unfold addbyte. rewrite Hm, Hu.
  replace (charset_default_gen =? charset_utf8_gen) with false by reflexivity. cbn [orb].
  destruct (enc s =? 0); [|reflexivity].
  replace (192 <=? b) with false by lia. rewrite with_u8eat_id by assumption. reflexivity.
Qed.

(* bytes that process_char handles itself, whatever the escape state *)
Definition plain_byte (b : Z) : Prop :=
  0 <= b < 128 /\ b <> 27 /\ b <> 13 /\ b <> 15 /\ b <> 14 /\ b <> 10 /\ b <> 11 /\ b <> 12 /\ b <> 9 /\ b <> 8
  /\ b <> 7 /\ b <> 24 /\ b <> 26 /\ b <> 0 /\ b <> 127.

Ltac kill_eqb :=
  repeat match goal with
         | |- context [?a =? ?b] => replace (a =? b) with false by lia
         end.

Lemma process_char_plain s b :
  m_display_ctrl (modes s) = false -> plain_byte b ->
  process_char s [b] = if inesc s then parse_escape s [b] else push_cursor s [b].
Proof.
  intros Hd Hp. unfold plain_byte in Hp. unfold process_char. destruct (cur s) as [x y]. cbv zeta. rewrite Hd.
  cbn [negb andb is1 in1 memz orb]. kill_eqb. cbn [andb orb].
  destruct (inesc s); reflexivity.
Qed.

Lemma csi_table_param c : param_byte c -> csi_table c = None.
Proof.
  intros [H|H]; [|subst; reflexivity].
  assert (c = 48 \/ c = 49 \/ c = 50 \/ c = 51 \/ c = 52 \/ c = 53 \/ c = 54 \/ c = 55 \/ c = 56 \/ c = 57) as E by lia.
  repeat (destruct E as [E|E]; [subst; reflexivity|]). subst. reflexivity.
Qed.

Lemma memz_param c : param_byte c -> memz c [48; 49; 50; 51; 52; 53; 54; 55; 56; 57; 59] = true.
Proof.
  intros [H|H]; [|subst; reflexivity].
  assert (c = 48 \/ c = 49 \/ c = 50 \/ c = 51 \/ c = 52 \/ c = 53 \/ c = 54 \/ c = 55 \/ c = 56 \/ c = 57) as E by lia.
  repeat (destruct E as [E|E]; [subst; reflexivity|]). subst. reflexivity.
Qed.

Lemma param_plain c : param_byte c -> plain_byte c.
Proof. unfold param_byte, plain_byte. lia. Qed.

(* inside a CSI sequence *)
Record InCsi (t : st) : Prop := {
  ic_esc : inesc t = true; ic_ps : pstate t = 1; ic_u8 : u8eat t = None;
  ic_dc : m_display_ctrl (modes t) = false; ic_mc : m_main_charset (modes t) = charset_default_gen }.

Lemma addbyte_param t c : InCsi t -> param_byte c -> addbyte t c = Ok (with_escbuf t (escbuf t ++ [c])).
Proof.
  intros [He Hp Hu Hd Hm] Hc. pose proof (param_plain c Hc) as Hpl.
  rewrite addbyte_ascii by (auto; unfold plain_byte in Hpl; lia).
  rewrite process_char_plain by assumption. rewrite He.
  unfold parse_escape. cbv zeta. rewrite Hp. replace (1 =? 1) with true by reflexivity.
  rewrite (csi_table_param c Hc). rewrite (memz_param c Hc). reflexivity.
Qed.

Lemma addbytes_params l : forall t rest, InCsi t -> Forall param_byte l ->
  addbytes t (l ++ rest) = addbytes (with_escbuf t (escbuf t ++ l)) rest.
Proof.
  induction l; intros t rest Ht Hl.
  - rewrite app_nil_r. cbn [app]. destruct t; reflexivity.
  - inversion Hl; subst. cbn [app addbytes]. rewrite addbyte_param by assumption. cbn [bind].
    rewrite IHl; [|destruct Ht; constructor; assumption|assumption].
    change (escbuf (with_escbuf t (escbuf t ++ [a]))) with (escbuf t ++ [a]). rewrite <- app_assoc. reflexivity.
Qed.

(* between sequences *)
Record Idle (s : st) : Prop := {
  id_esc : inesc s = false; id_ps : pstate s = 0; id_u8 : u8eat s = None;
  id_dc : m_display_ctrl (modes s) = false; id_mc : m_main_charset (modes s) = charset_default_gen }.

Definition csi_state (s : st) (l : list Z) : st :=
  with_escbuf (with_pstate (with_escbuf (with_inesc s true) []) 1) l.

Lemma csi_state_in s l : Idle s -> InCsi (csi_state s l).
Proof. intros [H1 H2 H3 H4 H5]. constructor; cbn; auto. Qed.

Lemma feed_csi_intro s rest : Idle s -> addbytes s (27 :: 91 :: rest) = addbytes (csi_state s []) rest.
Proof.
  intros [He Hp Hu Hd Hm]. cbn [addbytes].
  rewrite addbyte_ascii by (auto; lia).
  assert (process_char s [27] = Ok (with_inesc s true)) as E1.
  { unfold process_char. destruct (cur s). cbv zeta. rewrite Hp. reflexivity. }
  rewrite E1. cbn [bind].
  rewrite addbyte_ascii by (auto; lia).
  rewrite process_char_plain by (auto; unfold plain_byte; lia).
  change (inesc (with_inesc s true)) with true. cbv iota.
  unfold parse_escape. cbv zeta. change (pstate (with_inesc s true)) with (pstate s). rewrite Hp.
  cbn [bind]. reflexivity.
Qed.

(* the argument list parse_csi hands to the callback *)
Definition csi_args (ps : list Z) (nargs dflt : Z) : list Z :=
  let nums := match ps with [] => [None] | _ => map p2o ps end in
  map (fun a : oz => match a with None => dflt | Some v => if v =? 0 then dflt else v end)
      (nums ++ repeatz None (nargs - zlen nums)).

Lemma parse_csi_params t ps f nargs dflt tgt :
  escbuf t = enc_params ps -> Forall small ps -> csi_table f = Some (nargs, dflt, tgt) ->
  parse_csi t f = csi_dispatch t tgt (csi_args ps nargs dflt) false.
Proof.
  intros He Hs Hf. unfold parse_csi. cbv zeta. rewrite He, Hf. rewrite enc_params_no_qmark.
  unfold csi_args. cbv zeta. destruct ps as [|p r].
  - reflexivity.
  - rewrite parse_params by (auto; discriminate). reflexivity.
Qed.

Lemma feed_csi s ps f nargs dflt tgt rest :
  Idle s -> Forall small ps -> csi_table f = Some (nargs, dflt, tgt) -> plain_byte f ->
  addbytes s (csi ps f ++ rest) =
  bind (csi_dispatch (csi_state s (enc_params ps)) tgt (csi_args ps nargs dflt) false)
       (fun s' => addbytes (leave_escape (with_pstate s' 0)) rest).
Proof.
  intros Hi Hs Hf Hp. unfold csi. change ([27; 91] ++ enc_params ps ++ [f]) with (27 :: 91 :: enc_params ps ++ [f]).
  cbn [app]. rewrite feed_csi_intro by assumption.
  rewrite <- app_assoc. rewrite addbytes_params; [|apply csi_state_in; assumption|apply enc_params_bytes].
  change (with_escbuf (csi_state s []) (escbuf (csi_state s []) ++ enc_params ps)) with (csi_state s (enc_params ps)).
  pose proof (csi_state_in s (enc_params ps) Hi) as [He Hps Hu Hd Hm].
  cbn [app addbytes]. rewrite addbyte_ascii by (auto; unfold plain_byte in Hp; lia).
  rewrite process_char_plain by assumption. rewrite He.
  unfold parse_escape. cbv zeta. rewrite Hps. replace (1 =? 1) with true by reflexivity. rewrite Hf.
  rewrite (parse_csi_params _ ps f nargs dflt tgt) by (auto; reflexivity).
  destruct (csi_dispatch _ _ _ _); reflexivity.
Qed.
