(* C02, byte level: run-length lists read as one value per byte.
   [rexp r] expands a run-length list; util.rle_subseg is the slice of the expansion, rle_get_at is
   indexing, rle_prepend_modify / rle_append_modify are cons / append, and rle_product is the
   CANONICAL run-length encoding of the zipped expansions (equal neighbours are always merged, so
   two bytes with the same attribute and charset never end up in different runs).
   The run-length functions are those of the C11 model (Model/Width.v). *)
From Coq Require Import ZArith List Bool Lia ZifyBool.
From Urwid Require Import PyBase PyList Width Canvas CanvasFacts.
Import ListNotations.
Open Scope Z_scope.
Arguments Z.add : simpl never.
Arguments Z.sub : simpl never.
Arguments Z.mul : simpl never.
Arguments Z.ltb : simpl never.
Arguments Z.leb : simpl never.
Arguments Z.eqb : simpl never.
Arguments Z.min : simpl never.
Arguments Z.max : simpl never.
Arguments Z.to_nat : simpl never.
Arguments Z.of_nat : simpl never.

Fixpoint rexp {A} (r : list (A * Z)) : list A :=
  match r with [] => [] | (a, n) :: t => repeatz a n ++ rexp t end.

Definition nnr {A} (r : list (A * Z)) : Prop := Forall (fun p => 0 <= snd p) r.
Definition posr {A} (r : list (A * Z)) : Prop := Forall (fun p => 0 < snd p) r.

Lemma posr_nnr {A} (r : list (A * Z)) : posr r -> nnr r.
Proof. unfold posr, nnr. apply Forall_impl. intros; lia. Qed.

Lemma zlen_repeatz {A} (x : A) n : 0 <= n -> zlen (repeatz x n) = n.
Proof. intros. unfold zlen, repeatz. rewrite repeat_length. lia. Qed.

Lemma repeatz_0 {A} (x : A) n : n <= 0 -> repeatz x n = [].
Proof. intros. unfold repeatz. replace (Z.to_nat n) with 0%nat by lia. reflexivity. Qed.

Lemma repeatz_add {A} (x : A) a b : 0 <= a -> 0 <= b -> repeatz x (a + b) = repeatz x a ++ repeatz x b.
Proof. intros. unfold repeatz. replace (Z.to_nat (a + b)) with (Z.to_nat a + Z.to_nat b)%nat by lia. apply repeat_app. Qed.

Lemma repeatz_succ {A} (x : A) n : 0 <= n -> repeatz x (n + 1) = x :: repeatz x n.
Proof. intros. unfold repeatz. replace (Z.to_nat (n + 1)) with (S (Z.to_nat n)) by lia. reflexivity. Qed.

Lemma repeatz_snoc {A} (x : A) n : 0 <= n -> repeatz x (n + 1) = repeatz x n ++ [x].
Proof. intros. rewrite repeatz_add by lia. reflexivity. Qed.

Lemma rexp_app {A} (a b : list (A * Z)) : rexp (a ++ b) = rexp a ++ rexp b.
Proof. induction a as [|[x n] a IH]; [reflexivity|]. cbn [app rexp]. now rewrite IH, app_assoc. Qed.

Lemma zlen_rexp {A} (r : list (A * Z)) : nnr r -> zlen (rexp r) = rle_len r.
Proof.
  induction r as [|[a n] t IH]; intros H; [reflexivity|].
  inversion H as [|p l Hp Ht]; subst. cbn [snd] in Hp. cbn [rexp rle_len].
  rewrite zlen_app, zlen_repeatz, IH by assumption. reflexivity.
Qed.

Lemma nnr_len {A} (r : list (A * Z)) : nnr r -> 0 <= rle_len r.
Proof. intros H. rewrite <- zlen_rexp by exact H. apply zlen_nonneg. Qed.

(* ---------- rle_subseg is the slice of the expansion ---------- *)
Lemma takez_repeatz_app {A} (x : A) n k (l : list A) :
  0 <= k -> takez k (repeatz x n ++ l) = if k <? n then repeatz x k else repeatz x n ++ takez (k - Z.max 0 n) l.
Proof.
  intros Hk. destruct (k <? n) eqn:E.
  - rewrite takez_app_l by (rewrite zlen_repeatz; lia). apply takez_repeatz. lia.
  - destruct (Z_le_gt_dec 0 n).
    + rewrite takez_app_r by (rewrite zlen_repeatz; lia). rewrite zlen_repeatz by lia. now replace (Z.max 0 n) with n by lia.
    + rewrite (repeatz_0 x n) by lia. cbn [app]. now replace (Z.max 0 n) with 0 by lia; replace (k - 0) with k by lia.
Qed.

Lemma rle_subseg_loop_exp {A} (r : list (A * Z)) : forall start x end_,
  nnr r -> 0 <= start ->
  rexp (rle_subseg_loop r start x end_) = takez (end_ - x - start) (dropz start (rexp r)).
Proof.
  induction r as [|[a run] t IH]; intros start x end_ Hn Hs.
  - cbn [rle_subseg_loop rexp]. now rewrite dropz_nil, takez_nil.
  - inversion Hn as [|p l Hp Ht]; subst. cbn [snd] in Hp. cbn [rle_subseg_loop rexp].
    destruct (negb (start =? 0) && (run <=? start)) eqn:E1.
    + rewrite IH by (try assumption; lia).
      rewrite dropz_app_r by (rewrite zlen_repeatz; lia). rewrite zlen_repeatz by lia.
      f_equal. lia.
    + destruct (negb (start =? 0)) eqn:E2.
      * (* the run is entered in the middle *)
        assert (start < run) by lia.
        rewrite dropz_app_l by (rewrite zlen_repeatz; lia). rewrite dropz_repeatz by lia.
        destruct (end_ <=? x + start) eqn:E3.
        { cbn [rexp]. rewrite takez_le0 by lia. reflexivity. }
        rewrite takez_repeatz_app by lia.
        destruct (end_ <? x + start + (run - start)) eqn:E4.
        -- cbn [rexp]. rewrite IH by (try assumption; lia). cbn [dropz]. rewrite dropz_le0 by lia.
           rewrite (takez_le0 (end_ - (x + start + (end_ - (x + start))) - 0)) by lia. rewrite app_nil_r.
           destruct (end_ - x - start <? run - start) eqn:E5; [|lia]. f_equal. lia.
        -- cbn [rexp]. rewrite IH by (try assumption; lia). rewrite dropz_le0 by lia.
           destruct (end_ - x - start <? run - start) eqn:E5; [lia|]. f_equal. f_equal. lia.
      * assert (start = 0) by lia. subst start. rewrite dropz_le0 by lia.
        destruct (end_ <=? x) eqn:E3.
        { cbn [rexp]. rewrite takez_le0 by lia. reflexivity. }
        rewrite takez_repeatz_app by lia.
        destruct (end_ <? x + run) eqn:E4.
        -- cbn [rexp]. rewrite IH by (try assumption; lia). rewrite dropz_le0 by lia.
           rewrite (takez_le0 (end_ - (x + (end_ - x)) - 0)) by lia. rewrite app_nil_r.
           destruct (end_ - x - 0 <? run) eqn:E5; [|lia]. f_equal. lia.
        -- cbn [rexp]. rewrite IH by (try assumption; lia). rewrite dropz_le0 by lia.
           destruct (end_ - x - 0 <? run) eqn:E5; [lia|]. f_equal. f_equal. lia.
Qed.

Theorem rexp_subseg {A} (r : list (A * Z)) s e :
  nnr r -> 0 <= s -> rexp (rle_subseg r s e) = takez (e - s) (dropz s (rexp r)).
Proof. intros. unfold rle_subseg. rewrite rle_subseg_loop_exp by assumption. f_equal. lia. Qed.

(* runs of a sub-segment of positive runs are positive *)
Lemma rle_subseg_loop_pos {A} (r : list (A * Z)) : forall start x end_,
  posr r -> 0 <= start -> posr (rle_subseg_loop r start x end_).
Proof.
  induction r as [|[a run] t IH]; intros start x end_ Hn Hs; [constructor|].
  inversion Hn as [|p l Hp Ht]; subst. cbn [snd] in Hp. cbn [rle_subseg_loop].
  destruct (negb (start =? 0) && (run <=? start)) eqn:E1; [apply IH; [assumption|lia]|].
  destruct (negb (start =? 0)) eqn:E2.
  - destruct (end_ <=? x + start) eqn:E3; [constructor|].
    constructor; [cbn [snd]; destruct (end_ <? x + start + (run - start)) eqn:E4; lia|apply IH; [assumption|lia]].
  - destruct (end_ <=? x) eqn:E3; [constructor|].
    constructor; [cbn [snd]; destruct (end_ <? x + run) eqn:E4; lia|apply IH; [assumption|lia]].
Qed.

Lemma rle_subseg_pos {A} (r : list (A * Z)) s e : posr r -> 0 <= s -> posr (rle_subseg r s e).
Proof. intros. now apply rle_subseg_loop_pos. Qed.

(* ---------- rle_get_at is indexing ---------- *)
Lemma nthz_repeatz_app {A} (x : A) n (l : list A) k :
  0 <= n -> 0 <= k -> nthz (repeatz x n ++ l) k = if k <? n then Some x else nthz l (k - n).
Proof.
  intros Hn Hk. unfold nthz. destruct (k <? 0) eqn:E0; [lia|].
  destruct (k <? n) eqn:E.
  - rewrite nth_error_app1 by (unfold repeatz; rewrite repeat_length; lia).
    unfold repeatz. apply nth_error_repeat. lia.
  - rewrite nth_error_app2 by (unfold repeatz; rewrite repeat_length; lia).
    destruct (k - n <? 0) eqn:E1; [lia|]. f_equal. unfold repeatz. rewrite repeat_length. lia.
Qed.

Lemma rle_get_at_loop_nth (r : rle) : forall x pos a,
  nnr r -> x <= pos -> nthz (rexp r) (pos - x) = Some a -> rle_get_at_loop r x pos = a.
Proof.
  induction r as [|[b run] t IH]; intros x pos a Hn Hx Hnth.
  - cbn [rexp] in Hnth. unfold nthz in Hnth. destruct (pos - x <? 0); [discriminate|].
    destruct (Z.to_nat (pos - x)); discriminate.
  - inversion Hn as [|p l Hp Ht]; subst. cbn [snd] in Hp. cbn [rexp] in Hnth. cbn [rle_get_at_loop].
    rewrite nthz_repeatz_app in Hnth by lia.
    destruct (pos <? x + run) eqn:E.
    + destruct (pos - x <? run) eqn:E1; [|lia]. now inversion Hnth.
    + destruct (pos - x <? run) eqn:E1; [lia|]. apply IH; [assumption|lia|].
      rewrite <- Hnth. f_equal. lia.
Qed.

Theorem rle_get_at_nth (r : rle) pos a : nnr r -> nthz (rexp r) pos = Some a -> rle_get_at r pos = a.
Proof.
  intros Hn H. unfold rle_get_at. destruct (pos <? 0) eqn:E.
  - unfold nthz in H. rewrite E in H. discriminate.
  - apply rle_get_at_loop_nth; [assumption|lia|]. now replace (pos - 0) with pos by lia.
Qed.

(* ---------- rle_prepend_modify / rle_append_modify ---------- *)
Lemma oz_eqb_true a b : oz_eqb a b = true -> a = b.
Proof. destruct a, b; cbn; intros; try discriminate; [f_equal; lia|reflexivity]. Qed.

Lemma rexp_prepend (r : rle) a : nnr r -> rexp (rle_prepend_modify r a 1) = a :: rexp r.
Proof.
  intros Hn. unfold rle_prepend_modify. destruct r as [|[al run] t]; [reflexivity|].
  inversion Hn as [|p l Hp Ht]; subst. cbn [snd] in Hp.
  destruct (oz_eqb a al) eqn:E.
  - apply oz_eqb_true in E. subst al. cbn [rexp]. rewrite repeatz_succ by lia. reflexivity.
  - reflexivity.
Qed.

Lemma posr_prepend (r : rle) a : posr r -> posr (rle_prepend_modify r a 1).
Proof.
  intros Hn. unfold rle_prepend_modify. destruct r as [|[al run] t]; [repeat constructor|].
  inversion Hn as [|p l Hp Ht]; subst. cbn [snd] in Hp.
  destruct (oz_eqb a al).
  - constructor; [cbn [snd]; lia|assumption].
  - constructor; [cbn [snd]; lia|]. constructor; [cbn [snd]; lia|assumption].
Qed.

Section AppendGen.
Context {A : Type} (eqb : A -> A -> bool).
Hypothesis eqb_true : forall a b, eqb a b = true -> a = b.

Lemma rexp_append_core (r : list (A * Z)) a n : nnr r -> 0 <= n ->
  rexp (rle_append_core eqb r a n) = rexp r ++ repeatz a n.
Proof.
  intros Hr Hn. induction r as [|[la lr] t IH]; [cbn; now rewrite app_nil_r|].
  inversion Hr as [|p l Hp Ht]; subst. cbn [snd] in Hp. destruct t as [|y t'].
  - cbn [rle_append_core]. destruct (eqb la a) eqn:E.
    + apply eqb_true in E. subst la. cbn [rexp]. rewrite !app_nil_r. apply repeatz_add; lia.
    + cbn [rexp]. now rewrite !app_nil_r.
  - change (rle_append_core eqb ((la, lr) :: y :: t') a n) with ((la, lr) :: rle_append_core eqb (y :: t') a n).
    cbn [rexp] in *. rewrite IH by exact Ht. now rewrite app_assoc.
Qed.

Lemma rexp_append_gen (r : list (A * Z)) a n : nnr r -> 0 <= n ->
  rexp (rle_append_modify_gen eqb r a n) = rexp r ++ repeatz a n.
Proof.
  intros Hr Hn. unfold rle_append_modify_gen. destruct (n =? 0) eqn:E.
  - rewrite repeatz_0 by lia. now rewrite app_nil_r.
  - now apply rexp_append_core.
Qed.

Lemma posr_append_core (r : list (A * Z)) a n : posr r -> 0 < n -> posr (rle_append_core eqb r a n).
Proof.
  intros Hr Hn. induction r as [|[la lr] t IH]; [repeat constructor; exact Hn|].
  inversion Hr as [|p l Hp Ht]; subst. cbn [snd] in Hp. destruct t as [|y t'].
  - cbn [rle_append_core]. destruct (eqb la a); repeat constructor; cbn [snd]; lia.
  - change (rle_append_core eqb ((la, lr) :: y :: t') a n) with ((la, lr) :: rle_append_core eqb (y :: t') a n).
    constructor; [exact Hp|apply IH, Ht].
Qed.

Lemma posr_append_gen (r : list (A * Z)) a n : posr r -> 0 <= n -> posr (rle_append_modify_gen eqb r a n).
Proof.
  intros Hr Hn. unfold rle_append_modify_gen. destruct (n =? 0) eqn:E; [exact Hr|]. apply posr_append_core; [exact Hr|lia].
Qed.

(* canonical: neighbouring runs carry different values *)
Fixpoint canon (r : list (A * Z)) : Prop :=
  match r with
  | [] => True
  | (a, _) :: t => match t with [] => True | (b, _) :: _ => a <> b end /\ canon t
  end.

Hypothesis eqb_false : forall a b, eqb a b = false -> a <> b.

Lemma canon_append_core (r : list (A * Z)) a n : canon r -> canon (rle_append_core eqb r a n).
Proof.
  induction r as [|[la lr] t IH]; intros Hc; [cbn; tauto|].
  destruct t as [|[yb yn] t'].
  - cbn [rle_append_core]. destruct (eqb la a) eqn:E; [cbn; tauto|]. apply eqb_false in E. cbn. tauto.
  - change (rle_append_core eqb ((la, lr) :: (yb, yn) :: t') a n) with ((la, lr) :: rle_append_core eqb ((yb, yn) :: t') a n).
    destruct Hc as [Hne Hc]. specialize (IH Hc).
    cbn [canon]. split; [|exact IH].
    destruct t' as [|z t'']; cbn [rle_append_core]; [destruct (eqb yb a) eqn:E2|]; try exact Hne.
    apply eqb_true in E2. now subst.
Qed.

Lemma canon_append_gen (r : list (A * Z)) a n : canon r -> canon (rle_append_modify_gen eqb r a n).
Proof. intros. unfold rle_append_modify_gen. destruct (n =? 0); [assumption|now apply canon_append_core]. Qed.

End AppendGen.

Lemma rexp_append (r : rle) a n : nnr r -> 0 <= n -> rexp (rle_append_modify r a n) = rexp r ++ repeatz a n.
Proof. apply rexp_append_gen. exact oz_eqb_true. Qed.

Lemma posr_append (r : rle) a n : posr r -> 0 <= n -> posr (rle_append_modify r a n).
Proof. apply posr_append_gen. Qed.

(* ---------- rle_product: the canonical run-length encoding of the zipped expansions ---------- *)
Lemma oz_eqb_false a b : oz_eqb a b = false -> a <> b.
Proof. destruct a, b; cbn; intros H E; try discriminate; inversion E; subst; lia. Qed.

Lemma pair_eqb_true p q : pair_eqb p q = true -> p = q.
Proof.
  destruct p as [a b], q as [c d]. unfold pair_eqb. cbn [fst snd]. intros H.
  apply andb_true_iff in H. destruct H as [H1 H2]. apply oz_eqb_true in H1, H2. now subst.
Qed.

Lemma pair_eqb_false p q : pair_eqb p q = false -> p <> q.
Proof.
  destruct p as [a b], q as [c d]. unfold pair_eqb. cbn [fst snd]. intros H E. inversion E; subst.
  apply andb_false_iff in H. destruct H as [H|H]; apply oz_eqb_false in H; congruence.
Qed.

Lemma combine_nil_r {A B} (l : list A) : combine l (@nil B) = [].
Proof. destruct l; reflexivity. Qed.

Lemma combine_repeatz_app {A B} (a : A) (b : B) n X Y : 0 <= n ->
  combine (repeatz a n ++ X) (repeatz b n ++ Y) = repeatz (a, b) n ++ combine X Y.
Proof.
  intros Hn. unfold repeatz. induction (Z.to_nat n) as [|k IH]; [reflexivity|].
  cbn [repeat app combine]. now rewrite IH.
Qed.

Definition rem_of {A} (a : A) (r : Z) (t : list (A * Z)) : list A := repeatz a r ++ rexp t.

Definition next_run {A} (a : A) (r : Z) (t : list (A * Z)) : A * Z * list (A * Z) :=
  match (r =? 0), t with true, (a', n) :: t' => (a', n, t') | _, _ => (a, r, t) end.

Lemma rle_product_loop_spec fuel : forall a1 r1 t1 a2 r2 t2 res,
  (length t1 + length t2 < fuel)%nat ->
  0 <= r1 -> (r1 = 0 -> t1 = []) -> posr t1 ->
  0 <= r2 -> (r2 = 0 -> t2 = []) -> posr t2 ->
  posr res -> canon res ->
  exists p, rle_product_loop fuel a1 r1 t1 a2 r2 t2 res = Ok p /\
            rexp p = rexp res ++ combine (rem_of a1 r1 t1) (rem_of a2 r2 t2) /\ posr p /\ canon p.
Proof.
  induction fuel as [|k IH]; intros a1 r1 t1 a2 r2 t2 res Hf H1 E1 P1 H2 E2 P2 Pr Cr; [lia|].
  cbn [rle_product_loop].
  destruct (negb (r1 =? 0) && negb (r2 =? 0)) eqn:L.
  2:{ exists res. split; [reflexivity|]. split; [|tauto].
      assert (r1 = 0 \/ r2 = 0) as [Z1|Z2] by lia.
      - rewrite (E1 Z1), Z1. unfold rem_of. cbn [rexp]. rewrite repeatz_0 by lia. cbn [app combine]. now rewrite app_nil_r.
      - rewrite (E2 Z2), Z2. unfold rem_of at 2. cbn [rexp]. rewrite repeatz_0 by lia. cbn [app]. rewrite combine_nil_r. now rewrite app_nil_r. }
  assert (0 < r1 /\ 0 < r2) as [G1 G2] by lia.
  set (r := Z.min r1 r2). assert (Hr : 0 < r) by (unfold r; lia).
  set (res' := rle_append_modify_gen pair_eqb res (a1, a2) r).
  assert (Pr' : posr res') by (apply posr_append_gen; [exact Pr|lia]).
  assert (Cr' : canon res') by (apply canon_append_gen; [exact pair_eqb_true|exact pair_eqb_false|exact Cr]).
  assert (Xr' : rexp res' = rexp res ++ repeatz (a1, a2) r)
    by (apply rexp_append_gen; [exact pair_eqb_true|apply posr_nnr, Pr|lia]).
  (* the remaining expansions after taking r from both *)
  assert (S1 : rem_of a1 r1 t1 = repeatz a1 r ++ rem_of a1 (r1 - r) t1).
  { unfold rem_of. rewrite app_assoc. f_equal. rewrite <- repeatz_add by (unfold r; lia). f_equal. lia. }
  assert (S2 : rem_of a2 r2 t2 = repeatz a2 r ++ rem_of a2 (r2 - r) t2).
  { unfold rem_of. rewrite app_assoc. f_equal. rewrite <- repeatz_add by (unfold r; lia). f_equal. lia. }
  rewrite S1, S2, combine_repeatz_app by lia. rewrite app_assoc, <- Xr'.
  (* next state of operand 1 *)
  assert (N1 : exists a1' r1' t1',
     next_run a1 (r1 - r) t1 = (a1', r1', t1') /\
     rem_of a1' r1' t1' = rem_of a1 (r1 - r) t1 /\ 0 <= r1' /\ (r1' = 0 -> t1' = []) /\ posr t1' /\
     (length t1' <= length t1)%nat /\ (r1 - r = 0 -> r1' <> 0 -> (length t1' < length t1)%nat)).
  { unfold next_run. destruct (r1 - r =? 0) eqn:Z1.
    - destruct t1 as [|[a n] t].
      + exists a1, (r1 - r), []. repeat split; try reflexivity; try lia; try assumption; try (intros; lia).
      + inversion P1 as [|p l Hp Ht]; subst. cbn [snd] in Hp.
        exists a, n, t. repeat split; try lia; try assumption.
        * unfold rem_of. cbn [rexp]. rewrite (repeatz_0 a1) by lia. reflexivity.
        * cbn [length]. lia.
        * intros; cbn [length]; lia.
    - exists a1, (r1 - r), t1. repeat split; try reflexivity; try (unfold r; lia); try assumption;
        try (intros; unfold r in *; lia). }
  assert (N2 : exists a2' r2' t2',
     next_run a2 (r2 - r) t2 = (a2', r2', t2') /\
     rem_of a2' r2' t2' = rem_of a2 (r2 - r) t2 /\ 0 <= r2' /\ (r2' = 0 -> t2' = []) /\ posr t2' /\
     (length t2' <= length t2)%nat /\ (r2 - r = 0 -> r2' <> 0 -> (length t2' < length t2)%nat)).
  { unfold next_run. destruct (r2 - r =? 0) eqn:Z2.
    - destruct t2 as [|[a n] t].
      + exists a2, (r2 - r), []. repeat split; try reflexivity; try lia; try assumption; try (intros; lia).
      + inversion P2 as [|p l Hp Ht]; subst. cbn [snd] in Hp.
        exists a, n, t. repeat split; try lia; try assumption.
        * unfold rem_of. cbn [rexp]. rewrite (repeatz_0 a2) by lia. reflexivity.
        * cbn [length]. lia.
        * intros; cbn [length]; lia.
    - exists a2, (r2 - r), t2. repeat split; try reflexivity; try (unfold r; lia); try assumption;
        try (intros; unfold r in *; lia). }
  destruct N1 as (a1' & r1' & t1' & EQ1 & R1 & H1' & E1' & P1' & L1 & D1).
  destruct N2 as (a2' & r2' & t2' & EQ2 & R2 & H2' & E2' & P2' & L2 & D2).
  fold r. fold res'.
  change (exists p,
    (let '(x1, y1, z1) := next_run a1 (r1 - r) t1 in
     let '(x2, y2, z2) := next_run a2 (r2 - r) t2 in rle_product_loop k x1 y1 z1 x2 y2 z2 res') = Ok p /\
    rexp p = rexp res' ++ combine (rem_of a1 (r1 - r) t1) (rem_of a2 (r2 - r) t2) /\ posr p /\ canon p).
  rewrite EQ1, EQ2. rewrite <- R1, <- R2.
  (* either the loop stops now, or one operand list got shorter *)
  destruct (Z.eq_dec r1' 0) as [Z1|NZ1].
  { destruct k as [|k'].
    - cbn [rle_product_loop]. replace (negb (r1' =? 0) && negb (r2' =? 0)) with false by lia.
      exists res'. split; [reflexivity|]. split; [|tauto].
      rewrite (E1' Z1), Z1. unfold rem_of at 1. cbn [rexp]. rewrite repeatz_0 by lia. cbn [app combine]. now rewrite app_nil_r.
    - cbn [rle_product_loop]. replace (negb (r1' =? 0) && negb (r2' =? 0)) with false by lia.
      exists res'. split; [reflexivity|]. split; [|tauto].
      rewrite (E1' Z1), Z1. unfold rem_of at 1. cbn [rexp]. rewrite repeatz_0 by lia. cbn [app combine]. now rewrite app_nil_r. }
  destruct (Z.eq_dec r2' 0) as [Z2|NZ2].
  { destruct k as [|k'].
    - cbn [rle_product_loop]. replace (negb (r1' =? 0) && negb (r2' =? 0)) with false by lia.
      exists res'. split; [reflexivity|]. split; [|tauto].
      rewrite (E2' Z2), Z2. unfold rem_of at 2. cbn [rexp]. rewrite repeatz_0 by lia. cbn [app]. rewrite combine_nil_r. now rewrite app_nil_r.
    - cbn [rle_product_loop]. replace (negb (r1' =? 0) && negb (r2' =? 0)) with false by lia.
      exists res'. split; [reflexivity|]. split; [|tauto].
      rewrite (E2' Z2), Z2. unfold rem_of at 2. cbn [rexp]. rewrite repeatz_0 by lia. cbn [app]. rewrite combine_nil_r. now rewrite app_nil_r. }
  apply IH; try assumption.
  assert (r1 - r = 0 \/ r2 - r = 0) as [Q|Q] by (unfold r; lia).
  - specialize (D1 Q NZ1). lia.
  - specialize (D2 Q NZ2). lia.
Qed.

Theorem rle_product_spec (x y : rle) : posr x -> posr y ->
  exists p, rle_product x y = Ok p /\ rexp p = combine (rexp x) (rexp y) /\ posr p /\
            canon p.
Proof.
  intros Px Py. unfold rle_product.
  destruct x as [|[a1 r1] t1].
  { exists []. repeat split; try constructor. }
  destruct y as [|[a2 r2] t2].
  { exists []. split; [reflexivity|]. split; [cbn [rexp]; now rewrite combine_nil_r|]. split; constructor. }
  inversion Px as [|p l Hp Ht]; subst. inversion Py as [|p' l' Hp' Ht']; subst. cbn [snd] in Hp, Hp'.
  destruct (rle_product_loop_spec (S (length ((a1, r1) :: t1) + length ((a2, r2) :: t2))) a1 r1 t1 a2 r2 t2 [])
    as (p & E & X & Pp & Cp); try assumption; try lia; try (cbn [length]; lia); try constructor; try (intros; lia).
  exists p. split; [exact E|]. split; [|tauto]. exact X.
Qed.

Lemma rle_subseg_loop_nn {A} (r : list (A * Z)) : forall start x end_,
  nnr r -> 0 <= start -> nnr (rle_subseg_loop r start x end_).
Proof.
  induction r as [|[a run] t IH]; intros start x end_ Hn Hs; [constructor|].
  inversion Hn as [|p l Hp Ht]; subst. cbn [snd] in Hp. cbn [rle_subseg_loop].
  destruct (negb (start =? 0) && (run <=? start)) eqn:E1; [apply IH; [assumption|lia]|].
  destruct (negb (start =? 0)) eqn:E2.
  - destruct (end_ <=? x + start) eqn:E3; [constructor|].
    constructor; [cbn [snd]; destruct (end_ <? x + start + (run - start)) eqn:E4; lia|apply IH; [assumption|lia]].
  - destruct (end_ <=? x) eqn:E3; [constructor|].
    constructor; [cbn [snd]; destruct (end_ <? x + run) eqn:E4; lia|apply IH; [assumption|lia]].
Qed.

Lemma rle_subseg_nn {A} (r : list (A * Z)) s e : nnr r -> 0 <= s -> nnr (rle_subseg r s e).
Proof. intros. now apply rle_subseg_loop_nn. Qed.
