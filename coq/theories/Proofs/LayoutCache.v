(* The width cache of Columns.column_widths is transparent: over any history of layouts,
   focus moves, contents modifications and packed children changing their size, every layout
   returns what a cache-less computation on the configuration then in force returns.
   (Plain attribute assignments to dividechars / min_width are NOT covered by the code's
   invalidation: they are transparent only when followed by _invalidate(); refuted otherwise.) *)
From Coq Require Import ZArith List Bool Lia ZifyBool.
Import ListNotations.
From Urwid Require Import PyBase layout_gen Layout.
Open Scope Z_scope.

(* the cache-less reference: the same events, every layout recomputed *)
Definition ref_step (st : colstate) (o : colop) : colstate * option (result (list Z)) :=
  match o with
  | OLayout maxcol => (st, Some (cs_compute st maxcol))
  | _ => cs_step st o
  end.

Fixpoint ref_run (st : colstate) (ops : list colop) : list (result (list Z)) :=
  match ops with
  | [] => []
  | o :: r =>
      let '(st', out) := ref_step st o in
      match out with Some x => x :: ref_run st' r | None => ref_run st' r end
  end.

(* same configuration (the caches may differ) *)
Definition same_cfg (a b : colstate) : Prop :=
  cs_cols a = cs_cols b /\ cs_div a = cs_div b /\ cs_minw a = cs_minw b /\ cs_focus a = cs_focus b.

(* the invariant: a usable cache entry holds what the computation would return now *)
Definition cache_ok (st : colstate) : Prop :=
  forall m, cs_cache_maxcol st = Some m -> has_pack (cs_cols st) = false ->
            cs_compute st m = Ok (cs_cache_widths st).

Lemma cs_compute_cfg a b m : same_cfg a b -> cs_compute a m = cs_compute b m.
Proof. intros [H1 [H2 [H3 H4]]]. unfold cs_compute. now rewrite H1, H2, H3, H4. Qed.

Lemma has_pack_cons p l : has_pack (p :: l) = is_pack p || has_pack l.
Proof. reflexivity. Qed.

Lemma has_pack_set_pack l : forall i a, has_pack (set_pack l i a) = has_pack l.
Proof.
  induction l as [|[[k x] fl] r IH]; intros [|i] a; try reflexivity.
  - destruct k; reflexivity.
  - destruct k; cbn [set_pack]; rewrite !has_pack_cons; now rewrite IH.
Qed.

Lemma set_pack_nopack l : forall i a, has_pack l = false -> set_pack l i a = l.
Proof.
  induction l as [|[[k x] fl] r IH]; intros [|i] a H; try reflexivity.
  - destruct k; try reflexivity. cbn in H. discriminate.
  - rewrite has_pack_cons in H. apply orb_false_iff in H. destruct H as [_ H].
    destruct k; cbn [set_pack]; f_equal; now apply IH.
Qed.

(* the events the code's invalidation covers *)
Definition covered (o : colop) : bool :=
  match o with OSetDiv _ | OSetMinw _ => false | _ => true end.

Lemma cs_step_sound st st2 o :
  cache_ok st -> same_cfg st st2 -> covered o = true ->
  cache_ok (fst (cs_step st o)) /\ same_cfg (fst (cs_step st o)) (fst (ref_step st2 o)) /\
  snd (cs_step st o) = snd (ref_step st2 o).
Proof.
  intros Hok Hcfg Hcov. pose proof Hcfg as [H1 [H2 [H3 H4]]].
  destruct o; cbn [covered] in Hcov; try discriminate; cbn [cs_step ref_step].
  - (* layout *)
    unfold cs_layout.
    destruct ((match cs_cache_maxcol st with Some m => m =? maxcol | None => false end) && negb (has_pack (cs_cols st))) eqn:Eh.
    + apply andb_true_iff in Eh. destruct Eh as [Em Ep].
      destruct (cs_cache_maxcol st) as [m|] eqn:Ec; [|discriminate].
      assert (m = maxcol) by lia. subst m. apply negb_true_iff in Ep.
      cbn [fst snd]. repeat split; try assumption.
      rewrite <- (cs_compute_cfg st st2 maxcol Hcfg). now rewrite (Hok maxcol Ec Ep).
    + destruct (cs_compute st maxcol) as [ws|e] eqn:Ecomp; cbn [fst snd].
      * repeat split; try assumption.
        -- intros m Hm Hp. cbn [cs_cache_maxcol cs_cache_widths cs_cols] in *. injection Hm as <-.
           unfold cs_compute in *. cbn [cs_cols cs_div cs_minw cs_focus]. exact Ecomp.
        -- now rewrite <- (cs_compute_cfg st st2 maxcol Hcfg), Ecomp.
      * repeat split; try assumption. now rewrite <- (cs_compute_cfg st st2 maxcol Hcfg), Ecomp.
  - (* focus *)
    rewrite <- H4. destruct (i =? cs_focus st) eqn:Ei; cbn [fst snd].
    + repeat split; assumption.
    + repeat split; cbn; try assumption. intros m Hm. discriminate.
  - (* a packed child changes its size *)
    destruct (i <? 0) eqn:Ei; cbn [fst snd]; [repeat split; assumption|].
    rewrite <- H1. repeat split; cbn [cs_with_cols cs_cols cs_div cs_minw cs_focus]; try assumption.
    intros m Hm Hp. cbn [cs_with_cols cs_cache_maxcol cs_cache_widths cs_cols] in *.
    rewrite has_pack_set_pack in Hp. unfold cs_compute. cbn [cs_cols cs_div cs_minw cs_focus].
    rewrite set_pack_nopack by assumption. exact (Hok m Hm Hp).
  - (* contents[i] = ... *)
    rewrite <- H1. destruct (i <? 0); cbn [fst snd]; repeat split; cbn; try assumption; intros m Hm; discriminate.
  - rewrite <- H1. cbn [fst snd]. repeat split; cbn; try assumption. intros m Hm; discriminate.
  - rewrite <- H1. cbn [fst snd]. repeat split; cbn; try assumption. intros m Hm; discriminate.
  - cbn [fst snd]. repeat split; cbn; try assumption. intros m Hm; discriminate.
Qed.

(* an attribute assignment is covered when _invalidate() follows it directly *)
Fixpoint guarded (ops : list colop) : bool :=
  match ops with
  | [] => true
  | OSetDiv _ :: OInvalidate :: r => guarded r
  | OSetMinw _ :: OInvalidate :: r => guarded r
  | OSetDiv _ :: _ => false
  | OSetMinw _ :: _ => false
  | _ :: r => guarded r
  end.

Lemma attr_then_invalidate_sound st st2 o :
  same_cfg st st2 -> covered o = false ->
  let st' := fst (cs_step (fst (cs_step st o)) OInvalidate) in
  let st2' := fst (ref_step (fst (ref_step st2 o)) OInvalidate) in
  cache_ok st' /\ same_cfg st' st2' /\ snd (cs_step st o) = None /\ snd (ref_step st2 o) = None.
Proof.
  intros [H1 [H2 [H3 H4]]] Hc. destruct o; cbn [covered] in Hc; try discriminate; cbn;
  (repeat split; try assumption; intros mm Hm; discriminate).
Qed.

Lemma cs_run_transparent_gen : forall n ops st st2,
  (length ops <= n)%nat -> cache_ok st -> same_cfg st st2 -> guarded ops = true ->
  cs_run st ops = ref_run st2 ops.
Proof.
  induction n as [|n IH]; intros ops st st2 Hlen Hok Hcfg Hg.
  - destruct ops; [reflexivity|cbn in Hlen; lia].
  - destruct ops as [|o r]; [reflexivity|]. cbn [length] in Hlen.
    destruct (covered o) eqn:Ecov.
    + assert (Hg' : guarded r = true) by (destruct o; cbn in Ecov; try discriminate; exact Hg).
      destruct (cs_step_sound st st2 o Hok Hcfg Ecov) as [Hok' [Hcfg' Hout]].
      cbn [cs_run ref_run]. destruct (cs_step st o) as [st' out]. destruct (ref_step st2 o) as [st2' out2].
      cbn [fst snd] in *. subst out2. rewrite (IH r st' st2' ltac:(lia) Hok' Hcfg' Hg'). reflexivity.
    + destruct r as [|o2 r2]; [destruct o; cbn in Ecov, Hg; discriminate|].
      assert (o2 = OInvalidate /\ guarded r2 = true) as [-> Hg'].
      { destruct o; cbn in Ecov; try discriminate; destruct o2; cbn in Hg; try discriminate; split; congruence. }
      destruct (attr_then_invalidate_sound st st2 o Hcfg Ecov) as [Hok' [Hcfg' [Hn1 Hn2]]].
      cbn [cs_run ref_run].
      destruct (cs_step st o) as [st' out] eqn:E1. destruct (ref_step st2 o) as [st2' out2] eqn:E2.
      cbn [fst snd] in *. subst out out2.
      destruct (cs_step st' OInvalidate) as [st'' out] eqn:E3. destruct (ref_step st2' OInvalidate) as [st2'' out2] eqn:E4.
      cbn [fst snd] in *.
      assert (out = None) by (cbn in E3; congruence). assert (out2 = None) by (cbn in E4; congruence). subst.
      cbn [length] in Hlen. apply (IH r2 st'' st2''); try assumption. lia.
Qed.

(* THE cache-transparency theorem: a freshly constructed Columns, any history *)
Theorem cs_run_transparent cols div minw focus ops :
  guarded ops = true ->
  cs_run (cs_init cols div minw focus) ops = ref_run (cs_init cols div minw focus) ops.
Proof.
  intros Hg. apply (cs_run_transparent_gen (length ops)); [lia| |repeat split|exact Hg].
  intros m Hm. discriminate.
Qed.

(* the reference really is "a fresh layout of the configuration in force": laying out right
   after construction is the stateless function *)
Lemma ref_layout_is_column_widths cols div minw focus maxcol :
  ref_run (cs_init cols div minw focus) [OLayout maxcol] =
    [column_widths (map (resolve_col maxcol) cols) div minw focus maxcol].
Proof. reflexivity. Qed.

(* The cache key the source implements is (maxcol, no PACK column); _invalidate() on focus and
   contents changes covers the rest.  It does NOT cover dividechars / min_width: *)
Lemma attribute_assignment_not_transparent :
  exists cols div minw focus ops,
    cs_run (cs_init cols div minw focus) ops <> ref_run (cs_init cols div minw focus) ops.
Proof.
  exists [((KGiven, 3), false); ((KWeight, 1), false); ((KWeight, 1), false)], 0, 1, 0,
         [OLayout 11; OSetDiv 2; OLayout 11].
  vm_compute. discriminate.
Qed.
