(* C02: basic facts - Z-indexed list helpers, attribute dicts, leaf canvas content. *)
From Coq Require Import ZArith List Bool Lia ZifyBool.
From Urwid Require Import PyBase Canvas.
Import ListNotations.
Open Scope Z_scope.
Arguments Z.add : simpl never.
Arguments Z.sub : simpl never.
Arguments Z.mul : simpl never.
Arguments Z.ltb : simpl never.
Arguments Z.leb : simpl never.
Arguments Z.eqb : simpl never.
Arguments Z.min : simpl never.
Arguments Z.max : simpl never.
Arguments Z.to_nat : simpl never.
Arguments Z.of_nat : simpl never.

(* ------------------------------------------------------------------ takez / dropz / nthz *)
Lemma takez_nil {A} n : takez n (@nil A) = [].
Proof. unfold takez; now rewrite firstn_nil. Qed.
Lemma dropz_nil {A} n : dropz n (@nil A) = [].
Proof. unfold dropz; now rewrite skipn_nil. Qed.
Lemma takez_le0 {A} n (l : list A) : n <= 0 -> takez n l = [].
Proof. intros; unfold takez. replace (Z.to_nat n) with O by lia. reflexivity. Qed.
Lemma dropz_le0 {A} n (l : list A) : n <= 0 -> dropz n l = l.
Proof. intros; unfold dropz. replace (Z.to_nat n) with O by lia. reflexivity. Qed.
Lemma takez_all {A} n (l : list A) : zlen l <= n -> takez n l = l.
Proof. unfold zlen, takez; intros; apply firstn_all2; lia. Qed.
Lemma dropz_all {A} n (l : list A) : zlen l <= n -> dropz n l = [].
Proof. unfold zlen, dropz; intros; apply skipn_all2; lia. Qed.
Lemma takez_dropz {A} n (l : list A) : takez n l ++ dropz n l = l.
Proof. apply firstn_skipn. Qed.
Lemma takez_takez {A} a b (l : list A) : a <= b -> takez a (takez b l) = takez a l.
Proof.
  intros; unfold takez. rewrite firstn_firstn. f_equal. lia.
Qed.
Lemma takez_takez_min {A} a b (l : list A) : takez a (takez b l) = takez (Z.min a b) l.
Proof.
  unfold takez. rewrite firstn_firstn. f_equal. lia.
Qed.
Lemma skipn_skipn' {A} a b (l : list A) : skipn a (skipn b l) = skipn (b + a) l.
Proof.
  revert l; induction b; intros l; cbn [Nat.add skipn]; [reflexivity|].
  destruct l; [now rewrite skipn_nil|apply IHb].
Qed.
Lemma dropz_dropz {A} a b (l : list A) : 0 <= a -> 0 <= b -> dropz a (dropz b l) = dropz (a + b) l.
Proof.
  intros; unfold dropz. rewrite skipn_skipn'. f_equal. lia.
Qed.
Lemma skipn_firstn_add {A} a b (l : list A) : skipn a (firstn (a + b) l) = firstn b (skipn a l).
Proof.
  revert l; induction a; intros l; cbn [Nat.add skipn firstn]; [reflexivity|].
  destruct l; cbn [firstn skipn]; [now rewrite firstn_nil|]. apply IHa.
Qed.
Lemma dropz_takez {A} a b (l : list A) : 0 <= a -> 0 <= b -> dropz a (takez (a + b) l) = takez b (dropz a l).
Proof.
  intros; unfold dropz, takez. replace (Z.to_nat (a + b)) with (Z.to_nat a + Z.to_nat b)%nat by lia.
  apply skipn_firstn_add.
Qed.
Lemma takez_map {A B} (f : A -> B) n l : takez n (map f l) = map f (takez n l).
Proof. unfold takez; apply firstn_map. Qed.
Lemma dropz_map {A B} (f : A -> B) n l : dropz n (map f l) = map f (dropz n l).
Proof. unfold dropz; apply skipn_map. Qed.
Lemma takez_app_l {A} n (a b : list A) : n <= zlen a -> takez n (a ++ b) = takez n a.
Proof.
  unfold takez, zlen; intros. rewrite firstn_app. replace (Z.to_nat n - length a)%nat with O by lia.
  cbn [firstn]. now rewrite app_nil_r.
Qed.
Lemma takez_app_r {A} n (a b : list A) : zlen a <= n -> takez n (a ++ b) = a ++ takez (n - zlen a) b.
Proof.
  unfold takez, zlen; intros. rewrite firstn_app. rewrite firstn_all2 by lia. f_equal. f_equal. lia.
Qed.
Lemma dropz_app_l {A} n (a b : list A) : n <= zlen a -> dropz n (a ++ b) = dropz n a ++ b.
Proof.
  unfold dropz, zlen; intros. rewrite skipn_app. replace (Z.to_nat n - length a)%nat with O by lia. reflexivity.
Qed.
Lemma dropz_app_r {A} n (a b : list A) : zlen a <= n -> dropz n (a ++ b) = dropz (n - zlen a) b.
Proof.
  unfold dropz, zlen; intros. rewrite skipn_app. rewrite skipn_all2 by lia. cbn [app]. f_equal. lia.
Qed.
Lemma zlen_map {A B} (f : A -> B) l : zlen (map f l) = zlen l.
Proof. unfold zlen; now rewrite map_length. Qed.
Lemma zlen_takez_le {A} n (l : list A) : 0 <= n <= zlen l -> zlen (takez n l) = n.
Proof. intros; rewrite zlen_takez by lia; lia. Qed.
Lemma zlen_dropz_le {A} n (l : list A) : 0 <= n <= zlen l -> zlen (dropz n l) = zlen l - n.
Proof. intros; rewrite zlen_dropz by lia; lia. Qed.
Lemma zlen_repeatz {A} (x : A) n : zlen (repeatz x n) = Z.max 0 n.
Proof. unfold zlen, repeatz; rewrite repeat_length; lia. Qed.
Lemma firstn_repeat {A} (x : A) n m : firstn n (repeat x m) = repeat x (Nat.min n m).
Proof.
  revert m; induction n; intros m; [reflexivity|]. destruct m; [reflexivity|].
  cbn [repeat firstn Nat.min]. now rewrite IHn.
Qed.
Lemma skipn_repeat {A} (x : A) n m : skipn n (repeat x m) = repeat x (m - n).
Proof.
  revert m; induction n; intros m; [now rewrite Nat.sub_0_r|]. destruct m; [reflexivity|].
  cbn [repeat skipn Nat.sub]. apply IHn.
Qed.
Lemma takez_repeatz {A} (x : A) n m : 0 <= n <= m -> takez n (repeatz x m) = repeatz x n.
Proof.
  intros; unfold takez, repeatz. rewrite firstn_repeat. f_equal. lia.
Qed.
Lemma dropz_repeatz {A} (x : A) n m : 0 <= n <= m -> dropz n (repeatz x m) = repeatz x (m - n).
Proof.
  intros; unfold dropz, repeatz. rewrite skipn_repeat. f_equal. lia.
Qed.
Lemma map_repeatz {A B} (f : A -> B) x n : map f (repeatz x n) = repeatz (f x) n.
Proof. unfold repeatz. induction (Z.to_nat n); cbn [repeat map]; congruence. Qed.
Lemma repeatz_app {A} (x : A) a b : 0 <= a -> 0 <= b -> repeatz x (a + b) = repeatz x a ++ repeatz x b.
Proof.
  intros; unfold repeatz. replace (Z.to_nat (a + b)) with (Z.to_nat a + Z.to_nat b)%nat by lia. apply repeat_app.
Qed.
Lemma Forall_repeatz {A} (P : A -> Prop) x n : P x -> Forall P (repeatz x n).
Proof. intros; unfold repeatz. induction (Z.to_nat n); cbn [repeat]; constructor; auto. Qed.
Lemma Forall_takez {A} (P : A -> Prop) n l : Forall P l -> Forall P (takez n l).
Proof.
  intros H; rewrite Forall_forall in *; intros x Hx; apply H.
  rewrite <- (takez_dropz n l). apply in_or_app; now left.
Qed.
Lemma Forall_dropz {A} (P : A -> Prop) n l : Forall P l -> Forall P (dropz n l).
Proof.
  intros H; rewrite Forall_forall in *; intros x Hx; apply H.
  rewrite <- (takez_dropz n l). apply in_or_app; now right.
Qed.

Lemma nthz_nth_error {A} (l : list A) i : 0 <= i -> nthz l i = nth_error l (Z.to_nat i).
Proof. intros; unfold nthz. destruct (i <? 0) eqn:E; [lia|reflexivity]. Qed.
Lemma nthz_dropz {A} (l : list A) d k : 0 <= d -> 0 <= k -> nthz (dropz d l) k = nthz l (d + k).
Proof.
  intros. rewrite !nthz_nth_error by lia. unfold dropz.
  replace (Z.to_nat (d + k)) with (Z.to_nat d + Z.to_nat k)%nat by lia.
  generalize (Z.to_nat d) as n, (Z.to_nat k) as m. intros n; revert l; induction n; intros l m; [reflexivity|].
  destruct l; cbn [skipn Nat.add nth_error]; [now destruct m|apply IHn].
Qed.
Lemma nthz_takez {A} (l : list A) n k : k < n -> nthz (takez n l) k = nthz l k.
Proof.
  intros. unfold nthz. destruct (k <? 0) eqn:E; [reflexivity|]. unfold takez.
  assert (Z.to_nat k < Z.to_nat n)%nat by lia.
  revert H0. generalize (Z.to_nat k) as i, (Z.to_nat n) as m. intros i; revert l; induction i; intros l m Hm.
  - destruct m; [lia|]. destruct l; reflexivity.
  - destruct m; [lia|]. destruct l; cbn [firstn nth_error]; [reflexivity|]. apply IHi; lia.
Qed.
Lemma nthz_map {A B} (f : A -> B) l i : nthz (map f l) i = option_map f (nthz l i).
Proof. unfold nthz. destruct (i <? 0); [reflexivity|]. apply nth_error_map. Qed.
Lemma nthz_some_lt {A} (l : list A) i x : nthz l i = Some x -> 0 <= i < zlen l.
Proof.
  unfold nthz, zlen. destruct (i <? 0) eqn:E; [discriminate|]. intros H.
  assert (nth_error l (Z.to_nat i) <> None) by congruence. apply nth_error_Some in H0. lia.
Qed.
Lemma nthz_lt_some {A} (l : list A) i : 0 <= i < zlen l -> exists x, nthz l i = Some x.
Proof.
  unfold nthz, zlen. intros. destruct (i <? 0) eqn:E; [lia|].
  destruct (nth_error l (Z.to_nat i)) eqn:N; [eauto|]. apply nth_error_None in N. lia.
Qed.

(* ------------------------------------------------------------------ dicts *)
Lemma dget_dset k v d x : dget (dset k v d) x = if x =? k then Some v else dget d x.
Proof.
  induction d as [|[k' v'] d IH]; cbn [dset dget].
  - destruct (x =? k); reflexivity.
  - destruct (k <? k') eqn:E1; cbn [dget].
    + destruct (x =? k); reflexivity.
    + destruct (k =? k') eqn:E2; cbn [dget].
      * destruct (x =? k) eqn:E3; [reflexivity|]. destruct (x =? k') eqn:E4; [lia|reflexivity].
      * rewrite IH. destruct (x =? k') eqn:E4; [|reflexivity]. destruct (x =? k) eqn:E3; [lia|reflexivity].
Qed.

(* fill_attr_apply composes attribute maps: looking up in the combined dict is looking up
   in the old map, then in the new mapping *)
Lemma map_attr_combine m old a :
  map_attr (Some (combine_map m old)) a = map_attr (Some m) (map_attr (Some old) a).
Proof.
  induction old as [|[k v] old IH]; cbn [combine_map fold_right map_attr dget fst snd] in *.
  - reflexivity.
  - rewrite dget_dset. destruct (a =? k) eqn:E; [reflexivity|]. exact IH.
Qed.

Lemma cell_map_attr_compose m old c :
  cell_map_attr (Some (combine_map m old)) c = cell_map_attr (Some m) (cell_map_attr (Some old) c).
Proof. unfold cell_map_attr; cbn [ck ca ccs cch]. now rewrite map_attr_combine. Qed.

Lemma cell_map_attr_none c : cell_map_attr None c = c.
Proof. destruct c; reflexivity. Qed.

(* ------------------------------------------------------------------ cutting rows *)
Lemma zlen_fix_left r : zlen (fix_left r) = zlen r.
Proof. destruct r as [|c r]; [reflexivity|]. cbn [fix_left]. destruct (ck c); now rewrite ?zlen_cons. Qed.
Lemma zlen_fix_right r : zlen (fix_right r) = zlen r.
Proof.
  induction r as [|c r IH]; [reflexivity|]. cbn [fix_right]. destruct r as [|c' r'].
  - destruct (ck c); reflexivity.
  - rewrite !zlen_cons in *. now rewrite IH.
Qed.
Lemma zlen_trim_cells r s e : 0 <= s -> s <= e <= zlen r -> zlen (trim_cells r s e) = e - s.
Proof.
  intros. unfold trim_cells. rewrite zlen_fix_right, zlen_fix_left, zlen_takez by lia.
  rewrite zlen_dropz by lia. lia.
Qed.

Lemma fix_left_map_attr m r : fix_left (map (cell_map_attr m) r) = map (cell_map_attr m) (fix_left r).
Proof.
  destruct r as [|c r]; [reflexivity|]. cbn [map fix_left cell_map_attr ck ca]. destruct (ck c); reflexivity.
Qed.
Lemma fix_right_map_attr m r : fix_right (map (cell_map_attr m) r) = map (cell_map_attr m) (fix_right r).
Proof.
  induction r as [|c r IH]; [reflexivity|]. cbn [map fix_right]. destruct r as [|c' r'].
  - cbn [map cell_map_attr ck ca]. destruct (ck c); reflexivity.
  - cbn [map] in *. now rewrite IH.
Qed.

(* ------------------------------------------------------------------ leaf content *)
Definition cview_ok (cv : cview) : Prop := cview_okb cv = true.
Definition rows_of (cv : cview) : list row :=
  match cview_content cv with Ok rs => rs | Err _ => [] end.

(* one row of TextCanvas.content *)
Definition text_row (mc tl cols : Z) (m : amap) (r : row) : row :=
  map (cell_map_attr m) (if negb (tl =? 0) || (cols <? mc) then trim_cells r tl (tl + cols) else r).

Lemma text_content_ok rws mc tl tt cols rows m :
  0 < cols -> 0 < rows -> 0 <= tl -> tl + cols <= mc -> 0 <= tt -> tt + rows <= zlen rws ->
  text_content rws mc tl tt cols rows m = Ok (map (text_row mc tl cols m) (takez rows (dropz tt rws))).
Proof.
  intros. unfold text_content.
  destruct (cols =? 0) eqn:E1; [lia|]. destruct (rows =? 0) eqn:E2; [lia|].
  destruct (negb ((0 <=? tl) && (tl <? mc) && (0 <? cols) && (tl + cols <=? mc))) eqn:E3; [lia|].
  destruct (negb ((0 <=? tt) && (tt <? zlen rws) && (0 <? rows) && (tt + rows <=? zlen rws))) eqn:E4; [lia|].
  f_equal. unfold text_row.
  destruct (negb (tt =? 0) || (rows <? zlen rws)) eqn:E5; [reflexivity|].
  assert (tt = 0) by lia. assert (rows = zlen rws) by lia. subst.
  rewrite dropz_le0 by lia. rewrite takez_all by lia. reflexivity.
Qed.

Lemma cview_ok_pos cv : cview_ok cv -> 0 < ccols cv /\ 0 < crows cv.
Proof. unfold cview_ok, cview_okb. intros H. apply andb_prop in H as [H _]. lia. Qed.

Lemma cview_ok_text cv rws mc :
  cview_ok cv -> cknd (ccanv cv) = LText rws mc ->
  Forall (fun r : row => zlen r = mc /\ row_cleanb r = true) rws /\ 0 <= tl cv /\ tl cv + ccols cv <= mc /\ 0 <= tt cv /\ tt cv + crows cv <= zlen rws.
Proof.
  unfold cview_ok, cview_okb. intros H E. rewrite E in H.
  apply andb_prop in H as [_ H].
  apply andb_prop in H as [H H4]. apply andb_prop in H as [H H3].
  apply andb_prop in H as [H H2]. apply andb_prop in H as [H H1].
  repeat split; try lia.
  apply Forall_forall. intros r Hr. rewrite forallb_forall in H. specialize (H r Hr).
  apply andb_prop in H as [Ha Hb]. split; [lia|assumption].
Qed.

Lemma cview_content_ok cv : cview_ok cv -> cview_content cv = Ok (rows_of cv).
Proof.
  intros H. unfold rows_of, cview_content, canvas_content. destruct (cknd (ccanv cv)) eqn:E; try reflexivity.
  destruct (cview_ok_pos _ H). destruct (cview_ok_text _ _ _ H E) as (? & ? & ? & ? & ?).
  rewrite text_content_ok by lia. reflexivity.
Qed.

Lemma rows_of_text cv rws mc :
  cview_ok cv -> cknd (ccanv cv) = LText rws mc ->
  rows_of cv = map (text_row mc (tl cv) (ccols cv) (cam cv)) (takez (crows cv) (dropz (tt cv) rws)).
Proof.
  intros H E. unfold rows_of, cview_content, canvas_content. rewrite E.
  destruct (cview_ok_pos _ H). destruct (cview_ok_text _ _ _ H E) as (? & ? & ? & ? & ?).
  rewrite text_content_ok by lia. reflexivity.
Qed.
Lemma rows_of_solid cv cs ch c r :
  cknd (ccanv cv) = LSolid cs ch c r -> rows_of cv = solid_content cs ch (ccols cv) (crows cv) (cam cv).
Proof. intros E. unfold rows_of, cview_content, canvas_content. now rewrite E. Qed.
Lemma rows_of_blank cv :
  cknd (ccanv cv) = LBlank -> rows_of cv = solid_content 0 [32] (ccols cv) (crows cv) (cam cv).
Proof. intros E. unfold rows_of, cview_content, canvas_content. now rewrite E. Qed.

Lemma zlen_text_row mc tl cols m r : 0 <= tl -> 0 < cols -> tl + cols <= mc -> zlen r = mc -> zlen (text_row mc tl cols m r) = cols.
Proof.
  intros. unfold text_row. rewrite zlen_map.
  destruct (negb (tl =? 0) || (cols <? mc)) eqn:E.
  - rewrite zlen_trim_cells by lia. lia.
  - lia.
Qed.

Lemma zlen_rows_of cv : cview_ok cv -> zlen (rows_of cv) = crows cv.
Proof.
  intros H. destruct (cview_ok_pos _ H). destruct (cknd (ccanv cv)) eqn:E.
  - destruct (cview_ok_text _ _ _ H E) as (? & ? & ? & ? & ?).
    rewrite (rows_of_text _ _ _ H E), zlen_map, zlen_takez, zlen_dropz by lia. lia.
  - rewrite (rows_of_solid _ _ _ _ _ E). unfold solid_content. rewrite zlen_repeatz. lia.
  - rewrite (rows_of_blank _ E). unfold solid_content. rewrite zlen_repeatz. lia.
Qed.

Lemma rows_of_width cv : cview_ok cv -> Forall (fun r : row => zlen r = ccols cv) (rows_of cv).
Proof.
  intros H. destruct (cview_ok_pos _ H). destruct (cknd (ccanv cv)) eqn:E.
  - destruct (cview_ok_text _ _ _ H E) as (Hw & ? & ? & ? & ?).
    rewrite (rows_of_text _ _ _ H E). apply Forall_forall. intros r Hr. apply in_map_iff in Hr as (r0 & <- & Hr0).
    apply zlen_text_row; try lia.
    assert (Forall (fun r : row => zlen r = maxcol /\ row_cleanb r = true) (takez (crows cv) (dropz (tt cv) rows))) as F
        by (apply Forall_takez, Forall_dropz, Hw).
    rewrite Forall_forall in F. now apply F.
  - rewrite (rows_of_solid _ _ _ _ _ E). unfold solid_content. apply Forall_repeatz. rewrite zlen_repeatz. lia.
  - rewrite (rows_of_blank _ E). unfold solid_content. apply Forall_repeatz. rewrite zlen_repeatz. lia.
Qed.

(* cview_next on a well-formed cview is indexing into its rows *)
Lemma cview_next_ok cv j r : cview_ok cv -> nthz (rows_of cv) j = Some r -> cview_next cv j = Ok r.
Proof. intros H N. unfold cview_next. rewrite (cview_content_ok _ H), N. reflexivity. Qed.

(* ---- the cview_trim_* functions on content ---- *)
Lemma cview_trim_rows_ok cv r : cview_ok cv -> 0 < r <= crows cv -> cview_ok (cview_trim_rows cv r).
Proof.
  intros H Hr. destruct (cview_ok_pos _ H). unfold cview_ok, cview_okb in *. cbn [cview_trim_rows ccols crows ccanv tl tt].
  destruct (cknd (ccanv cv)); lia.
Qed.
Lemma rows_of_trim_rows cv r : cview_ok cv -> 0 < r <= crows cv -> rows_of (cview_trim_rows cv r) = takez r (rows_of cv).
Proof.
  intros H Hr. pose proof (cview_trim_rows_ok _ _ H Hr) as H'. destruct (cknd (ccanv cv)) eqn:E.
  - rewrite (rows_of_text _ _ _ H E). rewrite (rows_of_text _ rows maxcol H') by exact E.
    cbn [cview_trim_rows tl tt ccols crows cam]. rewrite takez_map, takez_takez by lia. reflexivity.
  - rewrite (rows_of_solid _ _ _ _ _ E). rewrite (rows_of_solid _ cs ch cols rows) by exact E.
    cbn [cview_trim_rows tl tt ccols crows cam]. unfold solid_content. rewrite takez_repeatz by lia. reflexivity.
  - rewrite (rows_of_blank _ E). rewrite rows_of_blank by exact E.
    cbn [cview_trim_rows tl tt ccols crows cam]. unfold solid_content. rewrite takez_repeatz by lia. reflexivity.
Qed.

Lemma cview_trim_top_ok cv t : cview_ok cv -> 0 <= t < crows cv -> cview_ok (cview_trim_top cv t).
Proof.
  intros H Ht. destruct (cview_ok_pos _ H). unfold cview_ok, cview_okb in *. cbn [cview_trim_top ccols crows ccanv tl tt].
  destruct (cknd (ccanv cv)); lia.
Qed.
Lemma rows_of_trim_top cv t : cview_ok cv -> 0 <= t < crows cv -> rows_of (cview_trim_top cv t) = dropz t (rows_of cv).
Proof.
  intros H Ht. pose proof (cview_trim_top_ok _ _ H Ht) as H'. destruct (cknd (ccanv cv)) eqn:E.
  - destruct (cview_ok_text _ _ _ H E) as (? & ? & ? & ? & ?).
    rewrite (rows_of_text _ _ _ H E). rewrite (rows_of_text _ rows maxcol H') by exact E.
    cbn [cview_trim_top tl tt ccols crows cam]. rewrite dropz_map. f_equal.
    replace (crows cv) with (t + (crows cv - t)) at 2 by lia.
    rewrite dropz_takez by lia. rewrite dropz_dropz by lia. reflexivity.
  - rewrite (rows_of_solid _ _ _ _ _ E). rewrite (rows_of_solid _ cs ch cols rows) by exact E.
    cbn [cview_trim_top tl tt ccols crows cam]. unfold solid_content. rewrite dropz_repeatz by lia. reflexivity.
  - rewrite (rows_of_blank _ E). rewrite rows_of_blank by exact E.
    cbn [cview_trim_top tl tt ccols crows cam]. unfold solid_content. rewrite dropz_repeatz by lia. reflexivity.
Qed.

(* fill_attr_apply on one cview *)
Lemma cview_fill_attr_ok m cv : cview_ok cv -> cview_ok (cview_fill_attr m cv).
Proof. unfold cview_ok, cview_okb, cview_fill_attr. destruct (cam cv); cbn [ccols crows ccanv tl tt]; auto. Qed.

Lemma text_row_map_attr mc tl cols m r :
  text_row mc tl cols m r = map (cell_map_attr m) (text_row mc tl cols None r).
Proof.
  unfold text_row. f_equal. rewrite map_ext with (g := fun c => c) by apply cell_map_attr_none. now rewrite map_id.
Qed.

Lemma rows_of_map_attr cv :
  cview_ok cv ->
  rows_of cv = map (map (cell_map_attr (cam cv))) (rows_of (CV (tl cv) (tt cv) (ccols cv) (crows cv) None (ccanv cv))).
Proof.
  intros H.
  assert (cview_ok (CV (tl cv) (tt cv) (ccols cv) (crows cv) None (ccanv cv))) as H' by exact H.
  destruct (cknd (ccanv cv)) eqn:E.
  - rewrite (rows_of_text _ _ _ H E). rewrite (rows_of_text _ rows maxcol H') by exact E.
    cbn [tl tt ccols crows cam]. rewrite map_map. apply map_ext. intros r. apply text_row_map_attr.
  - rewrite (rows_of_solid _ _ _ _ _ E). rewrite (rows_of_solid _ cs ch cols rows) by exact E.
    cbn [tl tt ccols crows cam]. unfold solid_content. rewrite !map_repeatz. reflexivity.
  - rewrite (rows_of_blank _ E). rewrite rows_of_blank by exact E.
    cbn [tl tt ccols crows cam]. unfold solid_content. rewrite !map_repeatz. reflexivity.
Qed.

Lemma rows_of_fill_attr m cv :
  cview_ok cv -> rows_of (cview_fill_attr m cv) = map (map (cell_map_attr (Some m))) (rows_of cv).
Proof.
  intros H. pose proof (cview_fill_attr_ok m _ H) as H'.
  rewrite (rows_of_map_attr _ H'). rewrite (rows_of_map_attr _ H).
  unfold cview_fill_attr. destruct (cam cv) as [old|]; cbn [tl tt ccols crows cam ccanv].
  - rewrite map_map. apply map_ext. intros r. rewrite map_map. apply map_ext. intros c. apply cell_map_attr_compose.
  - rewrite map_map. apply map_ext. intros r. rewrite map_map. apply map_ext. intros c. now rewrite cell_map_attr_none.
Qed.

(* ------------------------------------------------------------------ clean rows and windows *)
Lemma fix_left_clean r : first_okb r = true -> fix_left r = r.
Proof. destruct r as [|c r]; [reflexivity|]. cbn [first_okb fix_left]. destruct (ck c); [reflexivity|reflexivity|discriminate]. Qed.
Lemma fix_right_clean r : last_okb r = true -> fix_right r = r.
Proof.
  induction r as [|c r IH]; [reflexivity|]. cbn [last_okb fix_right]. destruct r as [|c' r'].
  - destruct (ck c); [reflexivity|discriminate|reflexivity].
  - intros H. now rewrite IH.
Qed.
Lemma first_okb_fix_left r : first_okb (fix_left r) = true.
Proof. destruct r as [|c r]; [reflexivity|]. cbn [fix_left]. destruct (ck c) eqn:E; cbn [first_okb space ck]; now rewrite ?E. Qed.
Lemma fix_right_cons c r : exists c0 r0, fix_right (c :: r) = c0 :: r0.
Proof. cbn [fix_right]. destruct r; [destruct (ck c)|]; eauto. Qed.
Lemma last_okb_fix_right r : last_okb (fix_right r) = true.
Proof.
  induction r as [|c r IH]; [reflexivity|]. destruct r as [|c' r'].
  - cbn [fix_right]. destruct (ck c) eqn:E; cbn [last_okb space ck]; now rewrite ?E.
  - change (fix_right (c :: c' :: r')) with (c :: fix_right (c' :: r')).
    destruct (fix_right_cons c' r') as (c0 & r0 & E0). rewrite E0 in *. exact IH.
Qed.
Lemma first_okb_fix_right r : first_okb r = true -> first_okb (fix_right r) = true.
Proof.
  destruct r as [|c r]; [reflexivity|]. cbn [fix_right]. destruct r as [|c' r']; [|auto].
  cbn [first_okb]. destruct (ck c) eqn:E; cbn [first_okb space ck]; rewrite ?E; auto.
Qed.
Lemma row_clean_trim_cells r s e : row_cleanb (trim_cells r s e) = true.
Proof.
  unfold row_cleanb, trim_cells. rewrite first_okb_fix_right by apply first_okb_fix_left. now rewrite last_okb_fix_right.
Qed.
Lemma first_okb_map_attr m r : first_okb (map (cell_map_attr m) r) = first_okb r.
Proof. destruct r as [|c r]; reflexivity. Qed.
Lemma last_okb_map_attr m r : last_okb (map (cell_map_attr m) r) = last_okb r.
Proof.
  induction r as [|c r IH]; [reflexivity|]. cbn [map last_okb]. destruct r as [|c' r']; [reflexivity|]. cbn [map] in *. exact IH.
Qed.
Lemma row_clean_map_attr m r : row_cleanb (map (cell_map_attr m) r) = row_cleanb r.
Proof. unfold row_cleanb. now rewrite first_okb_map_attr, last_okb_map_attr. Qed.

Lemma fix_left_idem r : fix_left (fix_left r) = fix_left r.
Proof. apply fix_left_clean, first_okb_fix_left. Qed.
Lemma fix_right_idem r : fix_right (fix_right r) = fix_right r.
Proof. apply fix_right_clean, last_okb_fix_right. Qed.
Lemma fix_comm r : fix_left (fix_right r) = fix_right (fix_left r).
Proof.
  destruct r as [|c r]; [reflexivity|]. destruct r as [|c' r'].
  - cbn [fix_left fix_right]. destruct (ck c) eqn:E; cbn [fix_left fix_right space ck]; rewrite ?E; reflexivity.
  - cbn [fix_right]. cbn [fix_left]. destruct (ck c); reflexivity.
Qed.

Lemma takez_fix_left d x : 0 < d -> takez d (fix_left x) = fix_left (takez d x).
Proof.
  intros. unfold takez. destruct (Z.to_nat d) eqn:E; [lia|]. destruct x as [|c x]; [reflexivity|].
  cbn [fix_left firstn]. destruct (ck c); reflexivity.
Qed.
Lemma dropz_fix_left c x : 0 < c -> dropz c (fix_left x) = dropz c x.
Proof.
  intros. unfold dropz. destruct (Z.to_nat c) eqn:E; [lia|]. destruct x as [|c0 x]; [reflexivity|].
  cbn [fix_left]. destruct (ck c0); reflexivity.
Qed.
Lemma skipn_fix_right n x : (n < length x)%nat -> skipn n (fix_right x) = fix_right (skipn n x).
Proof.
  revert x; induction n as [|n IH]; intros x H; [reflexivity|]. destruct x as [|c x]; [cbn in H; lia|].
  destruct x as [|c' x']; [cbn in H; lia|]. change (fix_right (c :: c' :: x')) with (c :: fix_right (c' :: x')).
  cbn [skipn]. apply IH. cbn [length] in *. lia.
Qed.
Lemma dropz_fix_right c x : c < zlen x -> dropz c (fix_right x) = fix_right (dropz c x).
Proof.
  intros. unfold dropz. destruct (Z.to_nat c) eqn:E; [reflexivity|]. rewrite <- E.
  apply skipn_fix_right. unfold zlen in *. lia.
Qed.
Lemma firstn_fix_right n x : (n < length x)%nat -> firstn n (fix_right x) = firstn n x.
Proof.
  revert x; induction n as [|n IH]; intros x H; [reflexivity|]. destruct x as [|c x]; [cbn in H; lia|].
  destruct x as [|c' x']; [cbn in H; lia|]. change (fix_right (c :: c' :: x')) with (c :: fix_right (c' :: x')).
  cbn [firstn]. f_equal. apply IH. cbn [length] in *. lia.
Qed.
Lemma takez_fix_right d x : d < zlen x -> takez d (fix_right x) = takez d x.
Proof.
  intros. unfold takez. destruct (Z_lt_le_dec d 0).
  - replace (Z.to_nat d) with O by lia. reflexivity.
  - apply firstn_fix_right. unfold zlen in *. lia.
Qed.

(* a window of a window is a window *)
Lemma trim_cells_trim_cells r a b c d :
  0 <= a -> b <= zlen r -> 0 <= c -> c < d -> d <= b - a ->
  trim_cells (trim_cells r a b) c d = trim_cells r (a + c) (a + d).
Proof.
  intros. unfold trim_cells at 1 3.
  set (w1 := takez (b - a) (dropz a r)).
  assert (zlen w1 = b - a) as Hw1 by (subst w1; rewrite zlen_takez, zlen_dropz by lia; lia).
  assert (takez (d - c) (dropz c w1) = takez (a + d - (a + c)) (dropz (a + c) r)) as Raw.
  { subst w1. replace (b - a) with (c + (b - a - c)) by lia. rewrite dropz_takez by lia.
    rewrite takez_takez by lia. rewrite dropz_dropz by lia. f_equal; [lia|f_equal; lia]. }
  unfold trim_cells. fold w1.
  assert (zlen (fix_left w1) = b - a) as Hl by (now rewrite zlen_fix_left).
  destruct (Z.eq_dec c 0) as [->|Hc].
  - rewrite dropz_le0 by lia. rewrite Z.sub_0_r in *. rewrite dropz_le0 in Raw by lia.
    destruct (Z.eq_dec d (b - a)) as [->|Hd].
    + rewrite takez_all by (rewrite zlen_fix_right; lia). rewrite fix_comm, fix_right_idem, fix_left_idem.
      rewrite <- Raw. rewrite takez_all by lia. reflexivity.
    + rewrite takez_fix_right by lia. rewrite takez_fix_left by lia. rewrite fix_left_idem. now rewrite Raw.
  - rewrite dropz_fix_right by lia. rewrite dropz_fix_left by lia.
    assert (zlen (dropz c w1) = b - a - c) as Hw2 by (rewrite zlen_dropz by lia; lia).
    destruct (Z.eq_dec d (b - a)) as [->|Hd].
    + rewrite takez_all by (rewrite zlen_fix_right; lia). rewrite fix_comm, fix_right_idem.
      rewrite <- Raw. rewrite takez_all by lia. reflexivity.
    + rewrite takez_fix_right by lia. now rewrite Raw.
Qed.

Lemma trim_cells_map_attr m r s e : trim_cells (map (cell_map_attr m) r) s e = map (cell_map_attr m) (trim_cells r s e).
Proof. unfold trim_cells. now rewrite dropz_map, takez_map, fix_left_map_attr, fix_right_map_attr. Qed.

Lemma trim_cells_all r : row_cleanb r = true -> trim_cells r 0 (zlen r) = r.
Proof.
  unfold row_cleanb, trim_cells. intros H. apply andb_prop in H as [H1 H2].
  rewrite dropz_le0 by lia. rewrite takez_all by lia. now rewrite fix_left_clean, fix_right_clean.
Qed.

(* with clean leaf rows, every row of TextCanvas.content is a window of the leaf row *)
Lemma text_row_window mc tl cols m r :
  zlen r = mc -> row_cleanb r = true -> text_row mc tl cols m r = map (cell_map_attr m) (trim_cells r tl (tl + cols)).
Proof.
  intros Hl Hc. unfold text_row. destruct (negb (tl =? 0) || (cols <? mc)) eqn:E; [reflexivity|].
  assert (tl = 0) by lia. assert (cols >= mc) by lia. subst tl. f_equal.
  unfold row_cleanb in Hc. apply andb_prop in Hc as [H1 H2]. unfold trim_cells.
  rewrite dropz_le0 by lia. rewrite takez_all by lia. now rewrite fix_left_clean, fix_right_clean.
Qed.

Lemma rows_of_clean cv : cview_ok cv -> Forall (fun r : row => row_cleanb r = true) (rows_of cv).
Proof.
  intros H. destruct (cknd (ccanv cv)) eqn:E.
  - destruct (cview_ok_text _ _ _ H E) as (Hw & ? & ? & ? & ?).
    rewrite (rows_of_text _ _ _ H E). apply Forall_forall. intros r Hr. apply in_map_iff in Hr as (r0 & <- & Hr0).
    assert (Forall (fun r : row => zlen r = maxcol /\ row_cleanb r = true) (takez (crows cv) (dropz (tt cv) rows))) as F
        by (apply Forall_takez, Forall_dropz, Hw).
    rewrite Forall_forall in F. destruct (F _ Hr0). rewrite text_row_window by assumption.
    rewrite row_clean_map_attr. apply row_clean_trim_cells.
  - rewrite (rows_of_solid _ _ _ _ _ E). unfold solid_content. apply Forall_repeatz.
    unfold repeatz. destruct (Z.to_nat (ccols cv)) as [|n]; [reflexivity|]. cbn [repeat].
    unfold row_cleanb. cbn [first_okb ck]. cbn [andb]. induction n; [reflexivity|]. cbn [repeat last_okb] in *. exact IHn.
  - rewrite (rows_of_blank _ E). unfold solid_content. apply Forall_repeatz.
    unfold repeatz. destruct (Z.to_nat (ccols cv)) as [|n]; [reflexivity|]. cbn [repeat].
    unfold row_cleanb. cbn [first_okb ck]. cbn [andb]. induction n; [reflexivity|]. cbn [repeat last_okb] in *. exact IHn.
Qed.

(* cview_trim_left followed by cview_trim_cols = a window of every row *)
Definition cview_window (cv : cview) (k c : Z) : cview :=
  CV (tl cv + k) (tt cv) c (crows cv) (cam cv) (ccanv cv).

Lemma cview_window_ok cv k c : cview_ok cv -> 0 <= k -> 0 < c -> k + c <= ccols cv -> cview_ok (cview_window cv k c).
Proof.
  intros H Hk Hc Hkc. unfold cview_ok, cview_okb in *. cbn [cview_window ccols crows ccanv tl tt].
  destruct (cknd (ccanv cv)); lia.
Qed.

Lemma solid_window x k c w : 0 <= k -> 0 < c -> k + c <= w -> ck x = KN ->
  trim_cells (repeatz x w) k (k + c) = repeatz x c.
Proof.
  intros. unfold trim_cells. rewrite dropz_repeatz by lia. replace (k + c - k) with c by lia. rewrite takez_repeatz by lia.
  unfold repeatz. destruct (Z.to_nat c) as [|n] eqn:E; [lia|]. cbn [repeat fix_left]. rewrite H2.
  clear E. induction n as [|n IHn]; [cbn [repeat fix_right]; now rewrite H2|].
  change (repeat x (S n)) with (x :: repeat x n). change (fix_right (x :: x :: repeat x n)) with (x :: fix_right (x :: repeat x n)).
  now rewrite IHn.
Qed.

Lemma rows_of_window cv k c :
  cview_ok cv -> 0 <= k -> 0 < c -> k + c <= ccols cv ->
  rows_of (cview_window cv k c) = map (fun r : row => trim_cells r k (k + c)) (rows_of cv).
Proof.
  intros H Hk Hc Hkc. pose proof (cview_window_ok _ _ _ H Hk Hc Hkc) as H'. destruct (cview_ok_pos _ H).
  destruct (cknd (ccanv cv)) eqn:E.
  - destruct (cview_ok_text _ _ _ H E) as (Hw & ? & ? & ? & ?).
    rewrite (rows_of_text _ _ _ H E). rewrite (rows_of_text _ rows maxcol H') by exact E.
    cbn [cview_window tl tt ccols crows cam]. rewrite map_map. apply map_ext_in. intros r Hr.
    assert (Forall (fun r : row => zlen r = maxcol /\ row_cleanb r = true) (takez (crows cv) (dropz (tt cv) rows))) as F
        by (apply Forall_takez, Forall_dropz, Hw).
    rewrite Forall_forall in F. destruct (F _ Hr). rewrite !text_row_window by assumption.
    rewrite trim_cells_map_attr. f_equal. rewrite trim_cells_trim_cells by lia. f_equal; lia.
  - rewrite (rows_of_solid _ _ _ _ _ E). rewrite (rows_of_solid _ cs ch cols rows) by exact E.
    cbn [cview_window tl tt ccols crows cam]. unfold solid_content. rewrite map_repeatz. f_equal.
    symmetry. apply solid_window; try lia. reflexivity.
  - rewrite (rows_of_blank _ E). rewrite rows_of_blank by exact E.
    cbn [cview_window tl tt ccols crows cam]. unfold solid_content. rewrite map_repeatz. f_equal.
    symmetry. apply solid_window; try lia. reflexivity.
Qed.
