(* C18 - the theorems on raw strings: what foreground / background report as STRINGS lexes back to the
   reported descriptions, so the description-level theorems hold for the string-level constructor and
   describers, for every string. *)
From Coq Require Import ZArith List Bool Lia ZifyBool.
Import ListNotations.
From Urwid Require Import PyBase PyList ColourBase ColourStr colours_gen Colours
     ColoursTables ColoursBits ColoursSpec ColoursRound ColoursMore ColoursRgb ColoursStrFacts ColoursLex.
Open Scope Z_scope.

(* ------------------------------------------------------------------ rejection on strings *)
Theorem reject_on_strings fg bg D e w :
  attrspec_new_s fg bg D = RErr e w -> e = AttrSpecError /\ 1 <= w <= 6.
Proof.
  rewrite attrspec_new_lex. intros E.
  pose proof (lex_fg_wf (mode_of D) fg) as W. pose proof (lex_color_wf (mode_of D) bg) as Wb.
  split; [exact (reject_only_attrspecerror _ _ _ _ _ W Wb E)|exact (reject_reasons _ _ _ _ _ W Wb E)].
Qed.

(* ------------------------------------------------------------------ a reported string reads back as the reported description *)
Definition desc_eqb (a b : desc) : bool :=
  match a, b with
  | DDefault, DDefault | DBad, DBad => true
  | DBasic x, DBasic y | DH x, DH y | DCube x, DCube y | DGrayDec x, DGrayDec y | DGrayHex x, DGrayHex y
  | DTrue x, DTrue y => x =? y
  | _, _ => false
  end.
Lemma desc_eqb_eq a b : desc_eqb a b = true -> a = b.
Proof. destruct a, b; cbn; try discriminate; intros; try reflexivity; f_equal; lia. Qed.

Definition is_none {A} (o : option A) : bool := match o with None => true | Some _ => false end.
(* no comma, not empty, nothing to strip, not a setting name *)
Definition clean_b (s : str) : bool :=
  no_comma s && negb (str_eqb s []) && str_eqb (strip s) s && is_none (find_setting ATTRIBUTE_NAMES s).
Definition good (md : mode) (s : str) (d : desc) : Prop :=
  lex_color md s = d /\ no_comma s = true /\ strip s = s /\ find_setting ATTRIBUTE_NAMES s = None.

Lemma str_eqb_eq a : forall b, str_eqb a b = true -> a = b.
Proof.
  induction a as [|x a IH]; intros [|y b]; cbn; try discriminate; [reflexivity|].
  intros H. apply andb_true_iff in H. destruct H as [H1 H2]. f_equal; [lia|now apply IH].
Qed.

Definition good_b (md : mode) (s : str) (d : desc) : bool := desc_eqb (lex_color md s) d && clean_b s.
Lemma good_b_ok md s d : good_b md s d = true -> good md s d.
Proof.
  unfold good_b, clean_b, good. rewrite !andb_true_iff. intros [E [[[A _] C] F]].
  split; [now apply desc_eqb_eq|]. split; [exact A|]. split; [now apply str_eqb_eq|].
  destruct (find_setting ATTRIBUTE_NAMES s); [discriminate|reflexivity].
Qed.

Definition all_modes : list mode := [M88; MTrue; M256].
Definition pair_ok (md : mode) (rd : result desc) (rs : result str) : bool :=
  match rd, rs with Ok d, Ok s => good_b md s d | _, _ => false end.

Lemma default_good : forallb (fun md => good_b md S_default DDefault) all_modes = true.
Proof. vm_compute. reflexivity. Qed.
Lemma basic_good_sweep :
  forallb (fun md => forallb (fun n => pair_ok md (basic_name n) (basic_name_s n)) (upto 16)) all_modes = true.
Proof. vm_compute. reflexivity. Qed.
Lemma desc_88_good_sweep : forallb (fun n => pair_ok M88 (color_desc_88 n) (color_desc_88_s n)) (upto 88) = true.
Proof. vm_compute. reflexivity. Qed.
Lemma desc_256_good_sweep : forallb (fun n => pair_ok M256 (color_desc_256 n) (color_desc_256_s n)) (upto 256) = true.
Proof. vm_compute. reflexivity. Qed.

Lemma pair_ok_spec md rd rs : pair_ok md rd rs = true -> exists d s, rd = Ok d /\ rs = Ok s /\ good md s d.
Proof.
  unfold pair_ok. destruct rd as [d|]; [|discriminate]. destruct rs as [s|]; [|discriminate].
  intros H. exists d, s. repeat split; try reflexivity; now apply (good_b_ok md s d).
Qed.

Lemma startswith_hd c t : startswith (c :: t) [c] = true.
Proof. change (startswith (c :: t) [c]) with ((c =? c) && startswith t []). rewrite Z.eqb_refl. destruct t; reflexivity. Qed.

Lemma lex_color_hash md t : lex_color md (35 :: t) = lex_mode md (35 :: t).
Proof. reflexivity. Qed.

(* '#rrggbb' : by arithmetic *)
Lemma true_good n : 0 <= n < 16777216 -> good MTrue ([35] ++ fmt_x_pad 6 n) (DTrue n).
Proof.
  intros Hn. destruct (fmt_x_pad6 n Hn) as [L [P C]]. cbv zeta in L, P, C.
  set (t := fmt_x_pad 6 n) in *. cbn [app].
  assert (Z7 : zlen (35 :: t) = 7) by (rewrite zlen_cons; lia).
  assert (NC : no_comma (35 :: t) = true).
  { unfold no_comma. cbn [forallb]. change (negb (35 =? 44)) with true. cbn [andb].
    rewrite forallb_forall in C |- *. intros c Hc. specialize (C c Hc). lia. }
  split; [|split; [exact NC|split]].
  - rewrite (lex_color_hash MTrue t).
    cbn [lex_mode]. unfold lex_true, lex_plain. replace (4 <? zlen (35 :: t)) with true by lia.
    unfold lex_true_fallback. rewrite (startswith_hd 35 t). cbn [negb].
    replace (zlen (35 :: t) =? 7) with true by lia.
    change (str_from (35 :: t) 1) with t. now rewrite P.
  - apply strip_all_nonspace; [discriminate|]. cbn [forallb]. change (negb (uni_isspace 35)) with true. cbn [andb].
    rewrite forallb_forall in C |- *. intros c Hc. specialize (C c Hc). lia.
  - reflexivity.
Qed.

(* ------------------------------------------------------------------ the string describers on a packed value *)
Section DescribeS.
Variables (md : mode) (fn bn : Z) (ss : sset) (k bk : kind).
Hypothesis Hfn : low24 fn.
Hypothesis Hbn : low24 bn.
Let v := pack (marker md) fn (F ss k) bn (bgflag bk).

Definition high_desc_s (cs n : Z) : result str :=
  if cs =? 88 then color_desc_88_s n else if cs =? TRUE_DEPTH then color_desc_true_s n else color_desc_256_s n.

Lemma foreground_color_pack_s :
  foreground_color_s v =
  match k with KNone => Ok S_default | KBasic => basic_name_s fn | _ => high_desc_s (colors_spec md k bk) fn end.
Proof.
  destruct (fg_kind_pack md fn bn ss k bk Hfn Hbn) as [E1 [E2 E3]]. unfold foreground_color_s, high_desc_s.
  fold v in E1, E2, E3. rewrite E1, E2, E3. unfold v. rewrite !colors_pack by assumption.
  rewrite !(acc_fgnum _ _ _ _ _ (OKv md fn bn ss k bk Hfn Hbn)).
  destruct k; reflexivity.
Qed.

Lemma background_pack_s :
  background_s v =
  match bk with KNone => Ok S_default | KBasic => basic_name_s bn | _ => high_desc_s (colors_spec md k bk) bn end.
Proof.
  destruct (bg_kind_pack md fn bn ss k bk Hfn Hbn) as [E1 [E2 E3]]. destruct masks_in_RM as [M1 _].
  unfold background_s, high_desc_s. fold v in E1, E2, E3. rewrite E1, E2, E3. unfold v.
  rewrite !colors_pack by assumption.
  rewrite !(acc_bgnum _ _ _ _ _ (OKv md fn bn ss k bk Hfn Hbn)), (acc_m _ _ _ _ _ (OKv md fn bn ss k bk Hfn Hbn) _ M1), marker_88.
  destruct bk, md, k; reflexivity.
Qed.
End DescribeS.

Definition side_desc_s (cs : Z) (k : kind) (n : Z) : result str :=
  match k with KNone => Ok S_default | KBasic => basic_name_s n | _ => high_desc_s cs n end.

(* the string reported for a side reads back, in the mode of the declared depth and (for 'default' and
   basic colours) in every mode, as the description reported for that side *)
Lemma side_desc_good md k n cs d :
  side_ok md k n ->
  (match k with KHigh | KTrue => cs = mode_depth md | _ => True end) ->
  side_desc cs k n = Ok d ->
  exists s, side_desc_s cs k n = Ok s /\
    forall md2, (is_high k || is_true k = true -> md2 = md) -> good md2 s d.
Proof.
  intros Hs Hcs Ed. destruct k; cbn [side_desc side_desc_s] in *.
  - injection Ed as <-. exists S_default. split; [reflexivity|]. intros md2 _.
    pose proof default_good as G. cbn [forallb all_modes] in G. rewrite !andb_true_iff in G.
    destruct G as [G1 [G2 [G3 _]]]. destruct md2; now apply good_b_ok.
  - cbn in Hs. pose proof basic_good_sweep as G. cbn [forallb all_modes] in G. rewrite !andb_true_iff in G.
    destruct G as [G1 [G2 [G3 _]]].
    assert (X : forall md2, exists d' s, basic_name n = Ok d' /\ basic_name_s n = Ok s /\ good md2 s d').
    { intros md2. apply pair_ok_spec. destruct md2;
        [exact (sweep 16 _ G1 n ltac:(lia))|exact (sweep 16 _ G2 n ltac:(lia))|exact (sweep 16 _ G3 n ltac:(lia))]. }
    destruct (X M256) as [d0 [s [A [B _]]]]. exists s. split; [exact B|]. intros md2 _.
    destruct (X md2) as [d' [s' [A' [B' G']]]]. rewrite Ed in A'. injection A' as <-. rewrite B in B'. injection B' as <-.
    exact G'.
  - destruct Hs as [Hk Hn]. subst cs. destruct md; cbn in Hk; try discriminate; cbn in Hn; cbn [mode_depth] in *.
    + unfold high_desc_s. rewrite Z.eqb_refl in Ed |- *.
      destruct (pair_ok_spec _ _ _ (sweep 88 _ desc_88_good_sweep n Hn)) as [d' [s [A [B G]]]].
      rewrite Ed in A. injection A as <-. exists s. split; [exact B|]. intros md2 H. now rewrite (H eq_refl).
    + unfold high_desc_s. change (256 =? 88) with false in *. change (256 =? TRUE_DEPTH) with false in *. cbn iota in *.
      destruct (pair_ok_spec _ _ _ (sweep 256 _ desc_256_good_sweep n Hn)) as [d' [s [A [B G]]]].
      rewrite Ed in A. injection A as <-. exists s. split; [exact B|]. intros md2 H. now rewrite (H eq_refl).
  - destruct Hs as [Hk Hn]. subst cs. destruct md; cbn in Hk; try discriminate; cbn in Hn; cbn [mode_depth] in *.
    unfold high_desc_s. change (TRUE_DEPTH =? 88) with false in *. rewrite Z.eqb_refl in Ed |- *. cbn iota in *.
    injection Ed as <-. exists ([35] ++ fmt_x_pad 6 n). split; [reflexivity|].
    intros md2 H. rewrite (H eq_refl). now apply true_good.
Qed.

(* ------------------------------------------------------------------ splitting "colour,bold,..." again *)
Definition suffix_of (bs : list bool) : str :=
  match bs with
  | [b1; b2; b3; b4; b5; b6] =>
      times S_bold b1 ++ times S_italics b2 ++ times S_standout b3 ++ times S_blink b4 ++ times S_underline b5
      ++ times S_strikethrough b6
  | _ => []
  end.
Lemma settings_suffix_of v : settings_suffix v = suffix_of (settings_of v).
Proof. reflexivity. Qed.

Lemma suffix_parts_sweep :
  forallb (fun b1 => forallb (fun b2 => forallb (fun b3 => forallb (fun b4 => forallb (fun b5 => forallb (fun b6 =>
    let bs := [b1; b2; b3; b4; b5; b6] in
    match split_on 44 (suffix_of bs) with
    | [] :: names =>
        forallb (fun md =>
          match map (lex_part md) (map strip names), parts_of_settings setting_order bs with
          | a, b => (length a =? length b)%nat
                    && forallb (fun pq => match pq with
                                          | (PSet s, PSet t) => setting_eqb s t
                                          | _ => false end) (combine a b)
          end) all_modes
    | _ => false
    end) [true; false]) [true; false]) [true; false]) [true; false]) [true; false]) [true; false] = true.
Proof. vm_compute. reflexivity. Qed.

Lemma parts_eq_of_check (a b : list part) :
  (length a =? length b)%nat && forallb (fun pq => match pq with (PSet s, PSet t) => setting_eqb s t | _ => false end)
                                        (combine a b) = true -> a = b.
Proof.
  revert b. induction a as [|x a IH]; intros [|y b]; cbn; try discriminate; [reflexivity|].
  intros H. rewrite !andb_true_iff in H. destruct H as [L [H1 H2]].
  destruct x as [s|]; [|discriminate]. destruct y as [t|]; [|discriminate].
  apply setting_eqb_eq in H1. subst t. f_equal. apply IH. now rewrite L, H2.
Qed.

Lemma suffix_parts md bs : length bs = 6%nat ->
  exists names, split_on 44 (suffix_of bs) = [] :: names /\
    map (lex_part md) (map strip names) = parts_of_settings setting_order bs.
Proof.
  intros L. destruct bs as [|b1 [|b2 [|b3 [|b4 [|b5 [|b6 [|]]]]]]]; try discriminate.
  pose proof suffix_parts_sweep as S.
  assert (In6 : forall b : bool, In b [true; false]) by (intros []; cbn; tauto).
  rewrite forallb_forall in S. specialize (S b1 (In6 b1)).
  rewrite forallb_forall in S. specialize (S b2 (In6 b2)).
  rewrite forallb_forall in S. specialize (S b3 (In6 b3)).
  rewrite forallb_forall in S. specialize (S b4 (In6 b4)).
  rewrite forallb_forall in S. specialize (S b5 (In6 b5)).
  rewrite forallb_forall in S. specialize (S b6 (In6 b6)). cbv zeta in S.
  destruct (split_on 44 (suffix_of [b1; b2; b3; b4; b5; b6])) as [|[|] names]; try discriminate.
  exists names. split; [reflexivity|]. rewrite forallb_forall in S.
  apply parts_eq_of_check. apply S. destruct md; cbn; tauto.
Qed.

Theorem lex_fg_of_report md fc d bs : good md fc d -> length bs = 6%nat ->
  lex_fg md (fc ++ suffix_of bs) = PCol d :: parts_of_settings setting_order bs.
Proof.
  intros [EL [NC [ST FS]]] L. destruct (suffix_parts md bs L) as [names [ES EP]].
  unfold lex_fg, fg_parts. rewrite (split_app_nocomma fc _ NC), ES, app_nil_r.
  cbn [map]. rewrite ST, EP. unfold lex_part. now rewrite FS, EL.
Qed.

(* ------------------------------------------------------------------ the round trip on strings *)
Lemma settings_of_length v : length (settings_of v) = 6%nat.
Proof. reflexivity. Qed.

Theorem string_report D fg bg v :
  attrspec_new_s fg bg D = ROk v ->
  exists fd bd fc bs,
    foreground v = Ok (fd, settings_of v) /\ background v = Ok bd /\
    foreground_s v = Ok (fc ++ settings_suffix v) /\ background_s v = Ok bs /\
    forall md2, (md2 = mode_of D \/ mode_of (attr_colors v) = md2) -> good md2 fc fd /\ good md2 bs bd.
Proof.
  rewrite attrspec_new_lex. intros E.
  pose proof (lex_fg_wf (mode_of D) fg) as W. pose proof (lex_color_wf (mode_of D) bg) as Wb.
  destruct (describe_fields D _ _ v W Wb E) as [fcol [ss [k [bn [fd [bd H]]]]]]. cbv zeta in H.
  destruct H as [EV [Hfn [Hbn [S1 [S2 [EC [Efd [Ebd [EF [EB [ES RB]]]]]]]]]]].
  set (md := mode_of D) in *. set (bk := part_kind md (lex_color md bg)) in *. set (fn := dflt fcol) in *.
  destruct (colors_of_high md k bk fn bn S1 S2) as [C1 C2].
  destruct (side_desc_good md k fn (colors_spec md k bk) fd S1) as [fc [Efc Gf]]; [destruct k; try exact I; apply C1; reflexivity|exact Efd|].
  destruct (side_desc_good md bk bn (colors_spec md k bk) bd S2) as [bs [Ebs Gb]]; [destruct bk; try exact I; apply C2; reflexivity|exact Ebd|].
  exists fd, bd, fc, bs.
  assert (MO : mode_of (attr_colors v) = out_mode md k bk).
  { rewrite EC.
    assert (K1 : is_high k || is_true k = true -> k = high_kind md)
      by (destruct k; cbn in S1 |- *; try discriminate; intros; apply S1).
    assert (K2 : is_high bk || is_true bk = true -> bk = high_kind md)
      by (destruct bk; cbn in S2 |- *; try discriminate; intros; apply S2).
    clear -K1 K2. destruct md, k, bk; cbn in K1, K2 |- *; try reflexivity;
      first [specialize (K1 eq_refl); discriminate | specialize (K2 eq_refl); discriminate]. }
  split; [exact EF|]. split; [exact EB|].
  split.
  { unfold foreground_s. subst v. rewrite foreground_color_pack_s by assumption.
    rewrite colors_spec_out. unfold side_desc_s in Efc. rewrite Efc. reflexivity. }
  split.
  { subst v. rewrite background_pack_s by assumption. rewrite colors_spec_out. exact Ebs. }
  intros md2 Hmd2.
  assert (Hmd2' : md2 = md \/ md2 = out_mode md k bk)
    by (destruct Hmd2 as [Hx|Hx]; [left; exact Hx|right; rewrite <- MO; symmetry; exact Hx]).
  assert (K1 : is_high k || is_true k = true -> k = high_kind md)
    by (destruct k; cbn in S1 |- *; try discriminate; intros; apply S1).
  assert (K2 : is_high bk || is_true bk = true -> bk = high_kind md)
    by (destruct bk; cbn in S2 |- *; try discriminate; intros; apply S2).
  split; [apply Gf|apply Gb]; intros Hh; destruct Hmd2' as [->| ->]; try reflexivity.
  - specialize (K1 Hh). clear -K1 Hh. destruct md, k, bk; cbn in *; try discriminate; reflexivity.
  - specialize (K2 Hh). clear -K2 Hh. destruct md, k, bk; cbn in *; try discriminate; try reflexivity;
      rewrite ?orb_true_r; reflexivity.
Qed.

Theorem string_roundtrip D fg bg v :
  attrspec_new_s fg bg D = ROk v ->
  exists fs bs, foreground_s v = Ok fs /\ background_s v = Ok bs /\
    attrspec_new_s fs bs D = ROk v /\ attrspec_new_s fs bs (attr_colors v) = ROk v.
Proof.
  intros E. destruct (string_report D fg bg v E) as [fd [bd [fc [bs [EF [EB [EFs [EBs G]]]]]]]].
  exists (fc ++ settings_suffix v), bs. split; [exact EFs|]. split; [exact EBs|].
  rewrite attrspec_new_lex in E.
  pose proof (lex_fg_wf (mode_of D) fg) as W. pose proof (lex_color_wf (mode_of D) bg) as Wb.
  split.
  - destruct (G (mode_of D) (or_introl eq_refl)) as [Gf Gb].
    rewrite attrspec_new_lex, settings_suffix_of, (lex_fg_of_report _ fc fd _ Gf (settings_of_length v)).
    destruct Gb as [-> _].
    destruct (roundtrip D _ _ v W Wb E) as [f [b [Ef [Eb [_ [_ R]]]]]].
    rewrite EF in Ef. injection Ef as <-. rewrite EB in Eb. injection Eb as <-. exact R.
  - destruct (G (mode_of (attr_colors v)) (or_intror eq_refl)) as [Gf Gb].
    rewrite attrspec_new_lex, settings_suffix_of, (lex_fg_of_report _ fc fd _ Gf (settings_of_length v)).
    destruct Gb as [-> _].
    destruct (rebuild_at_reported_depth D _ _ v W Wb E) as [f [b [Ef [Eb R]]]].
    rewrite EF in Ef. injection Ef as <-. rewrite EB in Eb. injection Eb as <-. exact R.
Qed.

(* the reported depth on strings *)
Theorem string_colors D fg bg v :
  attrspec_new_s fg bg D = ROk v ->
  attr_colors v <= D /\ forall d fg' bg', d < attr_colors v -> attrspec_new_s fg' bg' d <> ROk v.
Proof.
  rewrite attrspec_new_lex. intros E. split; [apply (colors_le_declared _ _ _ _ E)|].
  intros d fg' bg' Hd E'. rewrite attrspec_new_lex in E'. apply colors_le_declared in E'. lia.
Qed.

(* get_rgb_values against the xterm tables, in terms of the reported strings *)
Theorem string_rgb D fg bg v :
  attrspec_new_s fg bg D = ROk v ->
  exists fc bs,
    foreground_s v = Ok (fc ++ settings_suffix v) /\ background_s v = Ok bs /\
    get_rgb_values v = Ok (expected_rgb (attr_colors v) (lex_color (mode_of D) fc),
                           expected_rgb (attr_colors v) (lex_color (mode_of D) bs)).
Proof.
  intros E. destruct (string_report D fg bg v E) as [fd [bd [fc [bs [EF [EB [EFs [EBs G]]]]]]]].
  exists fc, bs. split; [exact EFs|]. split; [exact EBs|].
  destruct (G (mode_of D) (or_introl eq_refl)) as [[-> _] [-> _]].
  rewrite attrspec_new_lex in E.
  exact (rgb_matches_xterm D _ _ v _ _ _ (lex_fg_wf _ fg) (lex_color_wf _ bg) E EF EB).
Qed.

(* ------------------------------------------------------------------ parse (describe n) = n on strings, per parser *)
Lemma rt_88_s_sweep : forallb (rt_s_ok color_desc_88_s parse_color_88_s) (upto 88) = true.
Proof. vm_compute. reflexivity. Qed.

Lemma rt_s_spec desc_f parse (k : nat) : forallb (rt_s_ok desc_f parse) (upto k) = true ->
  forall c, 0 <= c < Z.of_nat k -> exists s, desc_f c = Ok s /\ parse s = Ok (Some c).
Proof.
  intros S c Hc. pose proof (sweep k _ S c Hc) as P. unfold rt_s_ok in P.
  destruct (desc_f c) as [[|x r]|]; try discriminate. exists (x :: r). split; [reflexivity|].
  destruct (parse (x :: r)) as [[c'|]|]; try discriminate. f_equal. f_equal. lia.
Qed.

Theorem string_parse_describe_true n : 0 <= n < 16777216 ->
  exists s, color_desc_true_s n = Ok s /\ parse_color_true_s s = Ok (Some n).
Proof.
  intros Hn. exists ([35] ++ fmt_x_pad 6 n). split; [reflexivity|].
  rewrite parse_true_lex. destruct (true_good n Hn) as [EL _].
  change (lex_true ([35] ++ fmt_x_pad 6 n) = DTrue n) in EL. rewrite EL.
  apply true_roundtrip. exact Hn.
Qed.
