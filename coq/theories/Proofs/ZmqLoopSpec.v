(* C13 - the part of the event-loop contract that ZMQEventLoop (Model/ZmqLoop.v) satisfies, in the
   vocabulary of SelectLoopSpec.v.  Alarm, idle and select clauses are those of the select loop;
   the watch clauses differ: a watch callback runs only with the callback CURRENTLY registered for
   its descriptor and only for a descriptor the last poll reported; a reported descriptor is served
   unless its callback was removed; nothing is claimed about which descriptors the poller holds (a
   descriptor registered twice through two file objects stays in the poller after one removal) nor
   about the value returned by remove_watch_file. *)
From Coq Require Import ZArith List Bool.
Import ListNotations.
From Urwid Require Import PyBase SelectLoop SelectLoopSpec.
Open Scope Z_scope.

(* the callback in self._queue_callbacks[fd] according to the history: remove_watch_file pops it
   whatever it returns *)
Fixpoint zwatched (fd : Z) (tr : list event) : option Z :=
  match tr with
  | [] => None
  | EWatchSet f id :: r => if f =? fd then Some id else zwatched fd r
  | ERmWatch f _ :: r => if f =? fd then None else zwatched fd r
  | _ :: r => zwatched fd r
  end.

(* fd was reported readable by the most recent poll *)
Definition zready_in (fd : Z) (tr : list event) : Prop :=
  match last_select tr with
  | Some (_, _, _, ready) => In fd ready
  | None => False
  end.

(* every descriptor reported readable by the most recent poll has had its callback called since,
   unless its callback was removed since or it had no callback when the poll was made (a descriptor
   registered twice stays in the poller after one removal) *)
Definition zbatch_done (tr : list event) : Prop :=
  match last_select tr with
  | Some (_, _, _, ready) =>
      forall fd, In fd ready ->
        (exists id t, In (EWatchCall fd id t) (last_batch tr)) \/
        (exists ok, In (ERmWatch fd ok) (last_batch tr)) \/
        zwatched fd (before_select tr) = None
  | None => True
  end.

Definition zsel_ok (to : option Z) (t : Z) (older : list event) : Prop :=
  match to with
  | None => forall k d i, ~ pending k d i older
  | Some d => 0 <= d /\ (0 < d -> forall k due i, pending k due i older -> t + d <= due)
  end /\
  (quiescent to -> idle_done older) /\
  zbatch_done older.

Definition zev_ok (e : event) (older : list event) : Prop :=
  match e with
  | EWatchSet _ _ => True
  | ERmWatch _ _ => True
  | EWatchCall fd id t => zwatched fd older = Some id /\ zready_in fd older
  | ESelect to regs t ready => zsel_ok to t older
  | _ => ev_ok e older
  end.
