(* C13 - the part of the event-loop contract that ZMQEventLoop (Model/ZmqLoop.v) satisfies, in the
   vocabulary of SelectLoopSpec.v.  Alarm, idle and select clauses are those of the select loop;
   the watch clauses are weaker: a watch callback runs only with the callback CURRENTLY registered
   for its descriptor; nothing is claimed about which descriptors the poller holds (a descriptor
   registered twice stays in the poller after one removal) nor that a ready batch is served
   (run() dies with KeyError instead, see zmq_watch_batch_refuted in Properties/C13.v). *)
From Coq Require Import ZArith List Bool.
Import ListNotations.
From Urwid Require Import PyBase SelectLoop SelectLoopSpec.
Open Scope Z_scope.

(* the callback in self._queue_callbacks[fd] according to the history: remove_watch_file pops it
   whatever it returns *)
Fixpoint zwatched (fd : Z) (tr : list event) : option Z :=
  match tr with
  | [] => None
  | EWatchSet f id :: r => if f =? fd then Some id else zwatched fd r
  | ERmWatch f _ :: r => if f =? fd then None else zwatched fd r
  | _ :: r => zwatched fd r
  end.

Definition zsel_ok (to : option Z) (t : Z) (older : list event) : Prop :=
  match to with
  | None => forall k d i, ~ pending k d i older
  | Some d => 0 <= d /\ (0 < d -> forall k due i, pending k due i older -> t + d <= due)
  end /\
  (quiescent to -> idle_done older).

Definition zev_ok (e : event) (older : list event) : Prop :=
  match e with
  | EWatchSet _ _ => True
  | ERmWatch _ _ => True
  | EWatchCall fd id t => zwatched fd older = Some id
  | ESelect to regs t ready => zsel_ok to t older
  | _ => ev_ok e older
  end.
