(* C20 - proofs about ScrollBar.render / mouse_event over a Scrollable (Model/Scrollable.v),
   combining the position facts (ScrollableProofs.v) with the thumb arithmetic facts (ScrollFloatProofs.v). *)
From Coq Require Import ZArith QArith List Bool Lia ZifyBool.
From Urwid Require Import PyBase ScrollBase scrollable_gen ScrollFloat Scrollable ScrollableProofs ScrollFloatProofs.
Import ListNotations.
Open Scope Z_scope.
Arguments Z.add : simpl never. Arguments Z.sub : simpl never. Arguments Z.mul : simpl never.
Arguments Z.ltb : simpl never. Arguments Z.leb : simpl never. Arguments Z.eqb : simpl never.
Arguments Z.min : simpl never. Arguments Z.max : simpl never.

(* The wrapped widget behaves like a widget: what it reports through rows()/pack() at the width it is
   rendered at is the height of the canvas it renders, and giving it fewer columns never needs fewer rows *)
Definition bobs_ok (ob : bobs) : Prop :=
  ob_ok (o_canvas ob) /\ c_rows (o_canvas ob) = o_rows_w ob /\ o_rows_full ob <= o_rows_w ob.

(* no scrollbar: the wrapped widget is rendered at the full size *)
Lemma b_render_no_bar bs maxcol maxrow ob :
  1 <= maxrow -> ob_ok (o_canvas ob) -> o_rows_full ob <= maxrow ->
  exists bs' v,
    b_render bs maxcol maxrow ob = Ok (bs', (maxcol, None, v)) /\
    s_render (s_rows_max (inner bs) (o_rows_full ob)) maxcol maxrow (o_canvas ob) = Ok (inner bs', v) /\
    ow_size bs' = (maxcol, maxrow).
Proof.
  intros Hm Hob Hr. unfold b_render.
  destruct (maxrow <? o_rows_full ob) eqn:E; [lia|].
  destruct (s_render_total (s_rows_max (inner bs) (o_rows_full ob)) maxcol maxrow (o_canvas ob) Hm Hob)
    as (st' & v & Es & _).
  rewrite Es. eexists. eexists. split; [reflexivity|]. split; reflexivity.
Qed.

(* scrollbar drawn: never an exception; the wrapped widget gets maxcol - bar width; the reported position is in
   range and is the window shown; the three parts are non-negative and fill the height; the thumb is off the
   top exactly when the position is positive (given room) *)
Lemma b_render_bar bs maxcol maxrow ob :
  1 <= maxrow < 2 ^ 53 -> o_rows_w ob < 2 ^ 53 -> bobs_ok ob -> maxrow < o_rows_full ob ->
  exists bs' b v,
    b_render bs maxcol maxrow ob = Ok (bs', (Z.max 0 (maxcol - bar_width_raw bs), Some b, v)) /\
    b_width b = maxcol - Z.max 0 (maxcol - bar_width_raw bs) /\
    ow_size bs' = (Z.max 0 (maxcol - bar_width_raw bs), maxrow) /\
    v_top v = trim_top (inner bs') /\
    0 <= trim_top (inner bs') <= c_rows (o_canvas ob) - maxrow /\
    v_shown v = maxrow /\ v_blank v = 0 /\
    0 <= b_top b /\ 1 <= b_thumb b <= maxrow /\ 0 <= b_bottom b /\
    b_top b + b_thumb b + b_bottom b = maxrow /\
    (0 < b_top b <-> 0 < trim_top (inner bs') /\ b_thumb b < maxrow) /\
    (b_top b, b_thumb b, b_bottom b) =
      thumb_geom maxrow (trim_top (inner bs')) (o_rows_w ob - maxrow) (thumb_weight_of maxrow (o_rows_w ob)).
Proof.
  intros Hm Hw (Hob & Hrw & Hfw) Hov. unfold b_render.
  destruct (maxrow <? o_rows_full ob) eqn:E; [|lia].
  set (oww := Z.max 0 (maxcol - bar_width_raw bs)).
  assert (Hfit : fits (o_canvas ob) oww maxrow = false).
  { unfold fits. destruct (c_rows (o_canvas ob) <=? maxrow) eqn:?; [lia|]. apply andb_false_r. }
  destruct (s_render_trims (s_rows_max (inner bs) (o_rows_full ob)) oww maxrow (o_canvas ob)
              ltac:(lia) Hob Hfit) as (st' & v & Es & R & _ & _ & T & S & B & _).
  rewrite Es. cbn [s_rows_max trim_top].
  set (pos := trim_top st') in *. set (pm := o_rows_w ob - maxrow).
  set (tw := thumb_weight_of maxrow (o_rows_w ob)).
  assert (Htw : (0 <= tw <= 1)%Q) by (apply thumb_weight_range; lia).
  assert (Hpos : 0 <= pos <= Z.max 1 pm) by (subst pm; lia).
  assert (Hpm : Z.max 1 pm < 2 ^ 53) by (subst pm; lia).
  pose proof (thumb_parts maxrow pos pm tw Hm Htw Hpos Hpm) as P.
  pose proof (thumb_top_iff maxrow pos pm tw Hm Htw Hpos Hpm) as I.
  destruct (thumb_geom maxrow pos pm tw) as [[top th] bot] eqn:G.
  destruct P as (P1 & P2 & P3 & P4).
  destruct ((top <? 0) || (th <? 0) || (bot <? 0)) eqn:N; [lia|].
  eexists. eexists. eexists. split; [reflexivity|].
  unfold s_rows_max. cbn [b_width b_top b_thumb b_bottom ow_size inner trim_top]. fold pos.
  repeat match goal with |- _ /\ _ => split end; try lia; try assumption; try reflexivity.
  symmetry. exact G.
Qed.

(* the thumb of a view of two or more rows can always move *)
Lemma bar_thumb_has_room maxrow rows pos :
  2 <= maxrow <= 2 ^ 49 -> maxrow < rows ->
  snd (fst (thumb_geom maxrow pos (rows - maxrow) (thumb_weight_of maxrow rows))) < maxrow.
Proof.
  intros Hm Hr. rewrite thumb_geom_eq. cbn [fst snd]. apply thumb_has_room; assumption.
Qed.

(* same view, same content, larger position: the thumb is not higher *)
Lemma bar_top_monotone maxrow rows p1 p2 :
  1 <= maxrow < 2 ^ 53 -> rows < 2 ^ 53 -> 0 <= p1 <= p2 -> p2 <= Z.max 1 (rows - maxrow) ->
  fst (fst (thumb_geom maxrow p1 (rows - maxrow) (thumb_weight_of maxrow rows))) <=
  fst (fst (thumb_geom maxrow p2 (rows - maxrow) (thumb_weight_of maxrow rows))).
Proof.
  intros Hm Hr Hp H2. apply thumb_top_mono; try assumption; try lia. apply thumb_weight_range. lia.
Qed.

(* ---------- histories ---------- *)

Definition w_inner (w : wstate) : sstate := inner (bs w).

Fixpoint run_state (w : wstate) (ops : list op) : wstate :=
  match ops with
  | [] => w
  | o :: r => run_state (fst (step w o)) r
  end.

Lemma step_has_bar w o : has_bar (fst (step w o)) = has_bar w.
Proof.
  destruct w as [hb fo fx b]. destruct o; unfold step; cbn [has_bar force fixed_child bs]; destruct hb.
  - destruct (b_render _ _ _ _) as [[? [[? ?] ?]]|]; reflexivity.
  - destruct (s_render _ _ _ _) as [[? ?]|]; reflexivity.
  - destruct (s_keypress _ _ _ _); reflexivity.
  - destruct (s_keypress _ _ _ _); reflexivity.
  - destruct (b_mouse _ _ _ _ _) as [? [? ?]]; reflexivity.
  - destruct (s_mouse _ _ _ _); reflexivity.
  - reflexivity.
  - reflexivity.
Qed.

Lemma run_state_has_bar ops : forall w, has_bar (run_state w ops) = has_bar w.
Proof.
  induction ops as [|o r IH]; intros w; [reflexivity|]. cbn [run_state]. rewrite IH. apply step_has_bar.
Qed.

(* whatever happened before (keys, wheel, set_scrollpos with any integer, resizes, content changes of the
   wrapped widget), the next render of a bare Scrollable is right *)
Lemma history_then_render w ops maxcol maxrow ob :
  has_bar w = false -> 1 <= maxrow -> ob_ok (o_canvas ob) ->
  let w1 := run_state w ops in
  exists st' v,
    s_render (w_inner w1) maxcol maxrow (o_canvas ob) = Ok (st', v) /\
    w_inner (fst (step w1 (ORender maxcol maxrow ob))) = st' /\
    0 <= v_top v <= Z.max 0 (c_rows (o_canvas ob) - maxrow) /\
    v_shown v = Z.min maxrow (c_rows (o_canvas ob) - v_top v) /\
    v_blank v = Z.max 0 (maxrow - c_rows (o_canvas ob)) /\
    trim_top st' = v_top v /\ action st' = ANone.
Proof.
  intros Hb Hm Hob w1.
  assert (Hb1 : has_bar w1 = false) by (subst w1; rewrite run_state_has_bar; exact Hb).
  destruct (s_render_total (w_inner w1) maxcol maxrow (o_canvas ob) Hm Hob)
    as (st' & v & E & R & S & B & _ & _ & T & A & _).
  exists st', v. split; [exact E|]. split.
  - cbn [step]. rewrite Hb1. unfold w_inner in E. rewrite E. reflexivity.
  - repeat split; try lia; assumption.
Qed.
