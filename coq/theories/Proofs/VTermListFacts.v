(* C15 - facts about the CPython list operations of Base/PyList.v at in-range indexes, as used on the
   terminal grid (rows of cells): results are Ok, lengths and per-element predicates are kept. *)
From Coq Require Import ZArith List Bool Lia ZifyBool.
Import ListNotations.
From Urwid Require Import PyBase PyList.
Open Scope Z_scope.

Arguments Z.mul : simpl never.
Arguments Z.add : simpl never.
Arguments Z.sub : simpl never.
Arguments Z.div : simpl never.
Arguments Z.modulo : simpl never.
Arguments Z.ltb : simpl never.
Arguments Z.leb : simpl never.
Arguments Z.eqb : simpl never.
Arguments Z.min : simpl never.
Arguments Z.max : simpl never.

Lemma nthz_some {A} (l : list A) i : 0 <= i < zlen l -> exists x, nthz l i = Some x /\ In x l.
Proof.
  intros H. unfold nthz. destruct (i <? 0) eqn:E; [lia|].
  destruct (nth_error l (Z.to_nat i)) eqn:N.
  - exists a. split; [reflexivity|]. eapply nth_error_In; eauto.
  - apply nth_error_None in N. unfold zlen in H. lia.
Qed.

Lemma Forall_takez {A} (P : A -> Prop) n l : Forall P l -> Forall P (takez n l).
Proof.
  intros H. unfold takez. generalize (Z.to_nat n) as k. induction H; intros [|k]; cbn; constructor; auto.
Qed.

Lemma Forall_dropz {A} (P : A -> Prop) n l : Forall P l -> Forall P (dropz n l).
Proof.
  intros H. unfold dropz. generalize (Z.to_nat n) as k. induction H; intros [|k]; cbn; auto.
Qed.

Lemma zlen_repeat {A} (x : A) n : zlen (repeat x n) = Z.of_nat n.
Proof. unfold zlen. now rewrite repeat_length. Qed.

Lemma Forall_repeat {A} (P : A -> Prop) x n : P x -> Forall P (repeat x n).
Proof. intros. induction n; cbn; constructor; auto. Qed.

Lemma norm_index_in (len i : Z) : 0 <= i -> norm_index len i = i.
Proof. intros. unfold norm_index. destruct (i <? 0) eqn:E; lia. Qed.

Lemma index_ok_in (len i : Z) : 0 <= i < len -> index_ok len i = true.
Proof. intros. unfold index_ok. lia. Qed.

Lemma get_index_ok {A} (l : list A) i : 0 <= i < zlen l -> exists x, get_index l i = Ok x /\ In x l.
Proof.
  intros H. unfold get_index. rewrite norm_index_in by lia.
  destruct (nthz_some l i H) as (x & Hx & Hin). rewrite Hx. eauto.
Qed.

Lemma get_index_last_ok {A} (l : list A) : 0 < zlen l -> exists x, get_index l (-1) = Ok x /\ In x l.
Proof.
  intros H. unfold get_index, norm_index. replace (-1 <? 0) with true by lia.
  destruct (nthz_some l (-1 + zlen l)) as (x & Hx & Hin); [lia|]. rewrite Hx. eauto.
Qed.

Lemma set_index_ok {A} (l : list A) i x : 0 <= i < zlen l ->
  exists l', set_index l i x = Ok l' /\ zlen l' = zlen l /\ (forall P : A -> Prop, Forall P l -> P x -> Forall P l').
Proof.
  intros H. unfold set_index. rewrite norm_index_in by lia. rewrite index_ok_in by lia.
  eexists. split; [reflexivity|]. split.
  - rewrite zlen_app, zlen_cons, zlen_takez, zlen_dropz by lia. lia.
  - intros P Hl Hx. apply Forall_app. split; [now apply Forall_takez|]. constructor; [assumption|now apply Forall_dropz].
Qed.

Lemma pop_ok {A} (l : list A) i : 0 <= i < zlen l ->
  exists x l', pop l i = Ok (x, l') /\ zlen l' = zlen l - 1 /\ nthz l i = Some x /\ In x l
               /\ (forall P : A -> Prop, Forall P l -> Forall P l').
Proof.
  intros H. unfold pop. rewrite norm_index_in by lia. rewrite index_ok_in by lia.
  destruct (nthz_some l i H) as (x & Hx & Hin). rewrite Hx.
  eexists _, _. split; [reflexivity|]. split; [|split; [reflexivity|split; [assumption|]]].
  - rewrite zlen_app, zlen_takez, zlen_dropz by lia. lia.
  - intros P Hl. apply Forall_app. split; [now apply Forall_takez|now apply Forall_dropz].
Qed.

Lemma pop_last_ok {A} (l : list A) : 0 < zlen l ->
  exists x l', pop l (-1) = Ok (x, l') /\ zlen l' = zlen l - 1 /\ (forall P : A -> Prop, Forall P l -> Forall P l').
Proof.
  intros H. unfold pop, norm_index. replace (-1 <? 0) with true by lia.
  rewrite index_ok_in by lia.
  destruct (nthz_some l (-1 + zlen l)) as (x & Hx & Hin); [lia|]. rewrite Hx.
  eexists _, _. split; [reflexivity|]. split.
  - rewrite zlen_app, zlen_takez, zlen_dropz by lia. lia.
  - intros P Hl. apply Forall_app. split; [now apply Forall_takez|now apply Forall_dropz].
Qed.

Lemma zlen_insert {A} (l : list A) i x : zlen (insert l i x) = zlen l + 1.
Proof.
  unfold insert, insert_pos. pose proof (zlen_nonneg l).
  destruct (i <? 0) eqn:E; rewrite zlen_app, zlen_cons, zlen_takez, zlen_dropz by lia; lia.
Qed.

Lemma Forall_insert {A} (P : A -> Prop) (l : list A) i x : Forall P l -> P x -> Forall P (insert l i x).
Proof.
  intros Hl Hx. unfold insert. apply Forall_app. split; [now apply Forall_takez|].
  constructor; [assumption|now apply Forall_dropz].
Qed.

Lemma Forall_map_same {A} (P : A -> Prop) (f : A -> A) l : (forall x, P x -> P (f x)) -> Forall P l -> Forall P (map f l).
Proof. intros Hf H. induction H; cbn; constructor; auto. Qed.

Lemma zlen_map {A B} (f : A -> B) l : zlen (map f l) = zlen l.
Proof. unfold zlen. now rewrite map_length. Qed.

Lemma takez_dropz {A} (l : list A) n : takez n l ++ dropz n l = l.
Proof. unfold takez, dropz. apply firstn_skipn. Qed.

Lemma takez_all' {A} (l : list A) n : zlen l <= n -> takez n l = l.
Proof. intros. unfold takez. apply firstn_all2. unfold zlen in *. lia. Qed.

Lemma dropz_all' {A} (l : list A) n : zlen l <= n -> dropz n l = [].
Proof. intros. unfold dropz. apply skipn_all2. unfold zlen in *. lia. Qed.

(* ---------- takez / dropz over append, Forall2 ---------- *)
Lemma takez_app {A} (a b : list A) n : takez n (a ++ b) = takez n a ++ takez (n - zlen a) b.
Proof.
  unfold takez, zlen. rewrite firstn_app. f_equal. f_equal. lia.
Qed.

Lemma dropz_app {A} (a b : list A) n : dropz n (a ++ b) = dropz n a ++ dropz (n - zlen a) b.
Proof.
  unfold dropz, zlen. rewrite skipn_app. f_equal. f_equal. lia.
Qed.

Lemma takez_nonpos {A} (l : list A) n : n <= 0 -> takez n l = [].
Proof. intros. unfold takez. replace (Z.to_nat n) with 0%nat by lia. reflexivity. Qed.

Lemma dropz_nonpos {A} (l : list A) n : n <= 0 -> dropz n l = l.
Proof. intros. unfold dropz. replace (Z.to_nat n) with 0%nat by lia. reflexivity. Qed.

Lemma dropz_dropz' {A} (l : list A) a b : 0 <= a -> 0 <= b -> dropz a (dropz b l) = dropz (a + b) l.
Proof.
  intros. unfold dropz. replace (Z.to_nat (a + b)) with (Z.to_nat b + Z.to_nat a)%nat by lia.
  generalize (Z.to_nat a) as n. generalize (Z.to_nat b) as m. clear. intros m. revert l.
  induction m; intros l n; cbn [skipn Nat.add]; [reflexivity|]. destruct l; [destruct n; reflexivity|]. apply IHm.
Qed.

Lemma takez_takez {A} (l : list A) a b : 0 <= a <= b -> takez a (takez b l) = takez a l.
Proof.
  intros. unfold takez. assert (Z.to_nat a <= Z.to_nat b)%nat as H0 by lia.
  revert H0. generalize (Z.to_nat a) as n. generalize (Z.to_nat b) as m. clear. intros m n. revert l m.
  induction n; intros l m Hm; [reflexivity|]. destruct m; [lia|]. destruct l; [reflexivity|]. cbn [firstn]. f_equal. apply IHn. lia.
Qed.

Lemma Forall2_zlen {A B} (P : A -> B -> Prop) l m : Forall2 P l m -> zlen l = zlen m.
Proof. intros H. unfold zlen. induction H; cbn [length]; lia. Qed.

Lemma Forall2_takez {A B} (P : A -> B -> Prop) n l m : Forall2 P l m -> Forall2 P (takez n l) (takez n m).
Proof.
  intros H. unfold takez. generalize (Z.to_nat n) as k. induction H; intros [|k]; cbn [firstn]; constructor; auto.
Qed.

Lemma Forall2_dropz {A B} (P : A -> B -> Prop) n l m : Forall2 P l m -> Forall2 P (dropz n l) (dropz n m).
Proof.
  intros H. unfold dropz. generalize (Z.to_nat n) as k. induction H; intros [|k]; cbn [skipn]; auto.
Qed.

Lemma Forall2_nthz {A B} (P : A -> B -> Prop) l m i a :
  Forall2 P l m -> nthz l i = Some a -> exists b, nthz m i = Some b /\ P a b.
Proof.
  intros H. unfold nthz. destruct (i <? 0); [discriminate|]. generalize (Z.to_nat i) as k.
  induction H; intros [|k] Hn; cbn [nth_error] in *; try discriminate.
  - inversion Hn; subst. eauto.
  - eauto.
Qed.

Lemma Forall2_repeat' {A B} (P : A -> B -> Prop) a b n : P a b -> Forall2 P (repeat a n) (repeat b n).
Proof. intros. induction n; cbn; constructor; auto. Qed.

Lemma get_index_nthz {A} (l : list A) i x : 0 <= i -> nthz l i = Some x -> get_index l i = Ok x.
Proof. intros Hi H. unfold get_index. rewrite norm_index_in by lia. rewrite H. reflexivity. Qed.

Lemma set_index_eq {A} (l : list A) i x : 0 <= i < zlen l -> set_index l i x = Ok (takez i l ++ x :: dropz (i + 1) l).
Proof. intros H. unfold set_index. rewrite norm_index_in by lia. rewrite index_ok_in by lia. reflexivity. Qed.

Lemma pop_eq {A} (l : list A) i x : 0 <= i < zlen l -> nthz l i = Some x -> pop l i = Ok (x, takez i l ++ dropz (i + 1) l).
Proof. intros H Hx. unfold pop. rewrite norm_index_in by lia. rewrite index_ok_in by lia. rewrite Hx. reflexivity. Qed.

Lemma insert_eq {A} (l : list A) i x : 0 <= i <= zlen l -> insert l i x = takez i l ++ x :: dropz i l.
Proof.
  intros H. unfold insert, insert_pos. replace (i <? 0) with false by lia. replace (Z.min i (zlen l)) with i by lia. reflexivity.
Qed.

Lemma dropz_takez {A} (l : list A) a b : 0 <= a -> dropz a (takez b l) = takez (b - a) (dropz a l).
Proof.
  intros Ha. unfold dropz, takez.
  destruct (Z_le_gt_dec a b) as [Hab|Hab].
  - replace (Z.to_nat b) with (Z.to_nat a + Z.to_nat (b - a))%nat by lia.
    generalize (Z.to_nat (b - a)) as m. generalize (Z.to_nat a) as n. clear. intros n. revert l.
    induction n; intros l m; cbn [Nat.add skipn]; [reflexivity|]. destruct l; [destruct m; reflexivity|]. cbn [firstn skipn]. apply IHn.
  - replace (Z.to_nat (b - a)) with 0%nat by lia. cbn [firstn].
    apply skipn_all2. rewrite firstn_length. lia.
Qed.

(* one line leaves at [top], a new one enters at [bot] (and the other way round) *)
Lemma scroll_up_list {A} (l : list A) top bot x : 0 <= top <= bot -> bot < zlen l ->
  let T := takez top l ++ dropz (top + 1) l in
  takez bot T ++ x :: dropz bot T = takez top l ++ takez (bot - top) (dropz (top + 1) l) ++ x :: dropz (bot + 1) l.
Proof.
  intros H1 H2. cbv zeta. rewrite takez_app, dropz_app. rewrite zlen_takez by lia.
  replace (Z.min top (zlen l)) with top by lia.
  rewrite (takez_all' (takez top l)) by (rewrite zlen_takez; lia).
  rewrite (dropz_all' (takez top l)) by (rewrite zlen_takez; lia).
  rewrite dropz_dropz' by lia. replace (bot - top + (top + 1)) with (bot + 1) by lia.
  cbn [app]. rewrite <- app_assoc. reflexivity.
Qed.

Lemma scroll_down_list {A} (l : list A) top bot x : 0 <= top <= bot -> bot < zlen l ->
  let T := takez bot l ++ dropz (bot + 1) l in
  takez top T ++ x :: dropz top T = takez top l ++ x :: takez (bot - top) (dropz top l) ++ dropz (bot + 1) l.
Proof.
  intros H1 H2. cbv zeta. rewrite takez_app, dropz_app. rewrite zlen_takez by lia.
  replace (Z.min bot (zlen l)) with bot by lia.
  rewrite (takez_takez l top bot) by lia. rewrite (takez_nonpos _ (top - bot)) by lia.
  rewrite (dropz_nonpos _ (top - bot)) by lia. rewrite dropz_takez by lia.
  rewrite app_nil_r. reflexivity.
Qed.

(* ---------- replacing one element ---------- *)
Lemma takez_upd {A} (l : list A) i x : 0 <= i < zlen l ->
  takez (i + 1) (takez i l ++ x :: dropz (i + 1) l) = takez i l ++ [x].
Proof.
  intros H. rewrite takez_app. rewrite zlen_takez by lia. replace (Z.min i (zlen l)) with i by lia.
  rewrite (takez_all' (takez i l)) by (rewrite zlen_takez; lia).
  replace (i + 1 - i) with 1 by lia. reflexivity.
Qed.

Lemma dropz_cons {A} (x : A) l k : 0 <= k -> dropz (k + 1) (x :: l) = dropz k l.
Proof. intros. unfold dropz. replace (Z.to_nat (k + 1)) with (S (Z.to_nat k)) by lia. reflexivity. Qed.

Lemma dropz_upd {A} (l : list A) i x k : 0 <= i < zlen l -> 0 <= k ->
  dropz (i + 1 + k) (takez i l ++ x :: dropz (i + 1) l) = dropz (i + 1 + k) l.
Proof.
  intros H Hk. rewrite dropz_app. rewrite zlen_takez by lia. replace (Z.min i (zlen l)) with i by lia.
  rewrite (dropz_all' (takez i l)) by (rewrite zlen_takez; lia).
  replace (i + 1 + k - i) with (k + 1) by lia. rewrite dropz_cons by lia. rewrite dropz_dropz' by lia.
  cbn [app]. f_equal. lia.
Qed.

Lemma takez_upd_lt {A} (l : list A) i x : 0 <= i < zlen l ->
  takez i (takez i l ++ x :: dropz (i + 1) l) = takez i l.
Proof.
  intros H. rewrite takez_app. rewrite zlen_takez by lia. replace (Z.min i (zlen l)) with i by lia.
  rewrite (takez_all' (takez i l)) by (rewrite zlen_takez; lia).
  rewrite (takez_nonpos _ (i - i)) by lia. apply app_nil_r.
Qed.

Lemma nthz_upd {A} (l : list A) i x : 0 <= i < zlen l -> nthz (takez i l ++ x :: dropz (i + 1) l) i = Some x.
Proof.
  intros H. unfold nthz. replace (i <? 0) with false by lia. unfold takez.
  rewrite nth_error_app2; rewrite firstn_length; unfold zlen in H; [|lia].
  replace (Z.to_nat i - Nat.min (Z.to_nat i) (length l))%nat with 0%nat by lia. reflexivity.
Qed.

Lemma Forall2_repeat_r {A B} (P : A -> B -> Prop) l b : Forall (fun a => P a b) l -> Forall2 P l (repeat b (length l)).
Proof. intros H. induction H; cbn [length repeat]; constructor; auto. Qed.

Lemma zlen_upd {A} (l : list A) i x : 0 <= i < zlen l -> zlen (takez i l ++ x :: dropz (i + 1) l) = zlen l.
Proof. intros H. rewrite zlen_app, zlen_cons, zlen_takez, zlen_dropz by lia. lia. Qed.

(* ---------- shifting a segment: insert at the front / delete at the front ---------- *)
Definition shr {A} (e : A) (l : list A) : list A := e :: takez (zlen l - 1) l.
Definition shl {A} (e : A) (l : list A) : list A := dropz 1 l ++ [e].

Lemma takez_cons {A} (x : A) l k : 0 <= k -> takez (k + 1) (x :: l) = x :: takez k l.
Proof. intros. unfold takez. replace (Z.to_nat (k + 1)) with (S (Z.to_nat k)) by lia. reflexivity. Qed.

Lemma takez_repeat {A} (e : A) n j : 0 <= j -> takez j (repeat e n) = repeat e (Nat.min (Z.to_nat j) n).
Proof.
  intros. unfold takez. generalize (Z.to_nat j) as k. clear. intros k. revert k.
  induction n; intros [|k]; cbn [repeat firstn Nat.min]; try reflexivity. f_equal. apply IHn.
Qed.

Lemma zlen_shr {A} (e : A) l : 0 < zlen l -> zlen (shr e l) = zlen l.
Proof. intros. unfold shr. rewrite zlen_cons, zlen_takez by lia. lia. Qed.

Lemma zlen_shl {A} (e : A) l : 0 < zlen l -> zlen (shl e l) = zlen l.
Proof. intros. unfold shl. rewrite zlen_app, zlen_dropz, zlen_cons by lia. unfold zlen at 2. cbn [length]. lia. Qed.

Lemma repeat_snoc {A} (e : A) n : repeat e n ++ [e] = e :: repeat e n.
Proof. induction n; cbn [repeat app]; [reflexivity|]. rewrite IHn. reflexivity. Qed.

Lemma shr_iter {A} (e : A) k : forall l, 0 < zlen l ->
  Nat.iter k (shr e) l = repeat e (Nat.min k (Z.to_nat (zlen l))) ++ takez (zlen l - Z.of_nat (Nat.min k (Z.to_nat (zlen l)))) l.
Proof.
  induction k; intros l Hl.
  - change (Nat.iter 0 (shr e) l) with l. cbn [Nat.min repeat app]. rewrite takez_all' by lia. reflexivity.
  - change (Nat.iter (S k) (shr e) l) with (shr e (Nat.iter k (shr e) l)). rewrite IHk by assumption.
    set (m := zlen l) in *. set (j := Nat.min k (Z.to_nat m)).
    assert (zlen (repeat e j ++ takez (m - Z.of_nat j) l) = m) as Lm.
    { rewrite zlen_app, zlen_repeat, zlen_takez by lia. fold m. lia. }
    unfold shr. rewrite Lm. rewrite takez_app. rewrite zlen_repeat.
    rewrite takez_repeat by lia.
    destruct (Nat.lt_ge_cases k (Z.to_nat m)) as [Hk|Hk].
    + replace (Nat.min (S k) (Z.to_nat m)) with (S j) by lia.
      replace (Nat.min (Z.to_nat (m - 1)) j) with j by lia.
      rewrite takez_takez by lia. cbn [repeat app]. f_equal. f_equal. f_equal. lia.
    + replace (Nat.min (S k) (Z.to_nat m)) with (Z.to_nat m) by lia.
      replace j with (Z.to_nat m) by lia.
      replace (Nat.min (Z.to_nat (m - 1)) (Z.to_nat m)) with (Z.to_nat (m - 1)) by lia.
      rewrite (takez_nonpos _ (m - 1 - Z.of_nat (Z.to_nat m))) by lia.
      rewrite (takez_nonpos _ (m - Z.of_nat (Z.to_nat m))) by lia. rewrite !app_nil_r.
      replace (Z.to_nat m) with (S (Z.to_nat (m - 1))) by lia. reflexivity.
Qed.

Lemma shl_iter {A} (e : A) k : forall l, 0 < zlen l ->
  Nat.iter k (shl e) l = dropz (Z.of_nat (Nat.min k (Z.to_nat (zlen l)))) l ++ repeat e (Nat.min k (Z.to_nat (zlen l))).
Proof.
  induction k; intros l Hl.
  - change (Nat.iter 0 (shl e) l) with l. cbn [Nat.min repeat]. rewrite app_nil_r. reflexivity.
  - change (Nat.iter (S k) (shl e) l) with (shl e (Nat.iter k (shl e) l)). rewrite IHk by assumption.
    set (m := zlen l) in *. set (j := Nat.min k (Z.to_nat m)).
    unfold shl. rewrite dropz_app. rewrite zlen_dropz by lia. fold m.
    destruct (Nat.lt_ge_cases k (Z.to_nat m)) as [Hk|Hk].
    + replace (Nat.min (S k) (Z.to_nat m)) with (S j) by lia.
      rewrite dropz_dropz' by lia. rewrite (dropz_nonpos _ (1 - Z.max 0 (m - Z.of_nat j))) by lia.
      rewrite <- app_assoc. rewrite repeat_snoc. cbn [repeat]. f_equal. f_equal. lia.
    + replace (Nat.min (S k) (Z.to_nat m)) with (Z.to_nat m) by lia. replace j with (Z.to_nat m) by lia.
      rewrite (dropz_all' l (Z.of_nat (Z.to_nat m))) by lia. cbn [app].
      rewrite (dropz_all' (@nil A)) by (rewrite zlen_nil; lia). cbn [app].
      replace (1 - Z.max 0 (m - Z.of_nat (Z.to_nat m))) with 1 by lia.
      destruct (Z.to_nat m) eqn:Em; [lia|]. cbn [repeat]. change (dropz 1 (e :: repeat e n)) with (repeat e n). rewrite repeat_snoc. reflexivity.
Qed.

(* ---------- lists of the shape A ++ seg ++ C ---------- *)
Lemma takez_app_l {A} (a b : list A) n : 0 <= n <= zlen a -> takez n (a ++ b) = takez n a.
Proof. intros. rewrite takez_app. rewrite (takez_nonpos _ (n - zlen a)) by lia. apply app_nil_r. Qed.

Lemma takez_app_r {A} (a b : list A) n : zlen a <= n -> takez n (a ++ b) = a ++ takez (n - zlen a) b.
Proof. intros. rewrite takez_app. rewrite (takez_all' a) by lia. reflexivity. Qed.

Lemma dropz_app_r {A} (a b : list A) n : zlen a <= n -> dropz n (a ++ b) = dropz (n - zlen a) b.
Proof. intros. rewrite dropz_app. rewrite (dropz_all' a) by lia. reflexivity. Qed.

Lemma dropz_0 {A} (l : list A) : dropz 0 l = l.
Proof. reflexivity. Qed.

Lemma nthz_mid {A} (a c : list A) x : nthz (a ++ x :: c) (zlen a) = Some x.
Proof.
  pose proof (zlen_nonneg a). unfold nthz. replace (zlen a <? 0) with false by lia.
  rewrite nth_error_app2 by (unfold zlen; lia). unfold zlen. rewrite Nat2Z.id. rewrite Nat.sub_diag. reflexivity.
Qed.

Lemma takez_mid {A} (a c : list A) x : takez (zlen a) (a ++ x :: c) = a.
Proof. pose proof (zlen_nonneg a). rewrite takez_app_l by lia. apply takez_all'. lia. Qed.

Lemma dropz_mid {A} (a c : list A) x : dropz (zlen a + 1) (a ++ x :: c) = c.
Proof.
  pose proof (zlen_nonneg a). rewrite dropz_app_r by lia. replace (zlen a + 1 - zlen a) with (0 + 1) by lia.
  rewrite dropz_cons by lia. reflexivity.
Qed.

Lemma get_mid {A} (a c : list A) x : get_index (a ++ x :: c) (zlen a) = Ok x.
Proof. apply get_index_nthz; [apply zlen_nonneg|apply nthz_mid]. Qed.

Lemma set_mid {A} (a c : list A) x x' : set_index (a ++ x :: c) (zlen a) x' = Ok (a ++ x' :: c).
Proof.
  pose proof (zlen_nonneg a). pose proof (zlen_nonneg c).
  rewrite set_index_eq by (rewrite zlen_app, zlen_cons; lia). rewrite takez_mid, dropz_mid. reflexivity.
Qed.

Lemma split_at {A} (l : list A) y r : nthz l y = Some r -> l = takez y l ++ r :: dropz (y + 1) l.
Proof.
  unfold nthz, takez, dropz. destruct (y <? 0) eqn:C; [discriminate|].
  replace (Z.to_nat (y + 1)) with (S (Z.to_nat y)) by lia. generalize (Z.to_nat y) as n. clear. intros n. revert l.
  induction n; intros [|a l] H; cbn [nth_error] in H; try discriminate.
  - inversion H. reflexivity.
  - cbn [firstn skipn app]. f_equal. apply IHn. exact H.
Qed.

Lemma pop_last_eq {A} (l : list A) : 0 < zlen l -> exists x, pop l (-1) = Ok (x, takez (zlen l - 1) l).
Proof.
  intros H. unfold pop, norm_index. replace (-1 <? 0) with true by lia. rewrite index_ok_in by lia.
  destruct (nthz_some l (-1 + zlen l)) as (x & Hx & _); [lia|]. rewrite Hx. exists x.
  replace (-1 + zlen l + 1) with (zlen l) by lia. rewrite (dropz_all' l) by lia. rewrite app_nil_r.
  replace (-1 + zlen l) with (zlen l - 1) by lia. reflexivity.
Qed.

(* insert at the front of the segment, the last element of the segment leaves: rows (ICH) *)
Lemma ich_step {A} (p s : list A) e : 0 < zlen s ->
  exists x, pop (insert (p ++ s) (zlen p) e) (-1) = Ok (x, p ++ shr e s).
Proof.
  intros Hs. pose proof (zlen_nonneg p).
  rewrite insert_eq by (rewrite zlen_app; lia).
  rewrite takez_app_l by lia. rewrite (takez_all' p) by lia.
  rewrite dropz_app_r by lia. replace (zlen p - zlen p) with 0 by lia. rewrite dropz_0.
  destruct (pop_last_eq (p ++ e :: s)) as (x & E); [rewrite zlen_app, zlen_cons; lia|].
  exists x. rewrite E. f_equal. f_equal. rewrite zlen_app, zlen_cons.
  rewrite takez_app_r by lia. unfold shr. f_equal.
  replace (zlen p + (1 + zlen s) - 1 - zlen p) with (zlen s - 1 + 1) by lia. rewrite takez_cons by lia. reflexivity.
Qed.

(* delete at the front of the segment, a new element enters at its end: rows (DCH) *)
Lemma dch_step {A} (p s : list A) : 0 < zlen s ->
  exists x, pop (p ++ s) (zlen p) = Ok (x, p ++ dropz 1 s).
Proof.
  intros Hs. pose proof (zlen_nonneg p). destruct s as [|s0 s']; [exfalso; unfold zlen in Hs; cbn [length] in Hs; lia|].
  exists s0. rewrite (pop_eq (p ++ s0 :: s') (zlen p) s0); [|rewrite zlen_app; lia|apply nthz_mid].
  rewrite takez_mid, dropz_mid. reflexivity.
Qed.

(* the same on a segment in the middle: lines (IL, DL) *)
Lemma il_step {A} (a s c : list A) e : 0 < zlen s ->
  exists x, pop (a ++ s ++ c) (zlen a + zlen s - 1) = Ok (x, a ++ takez (zlen s - 1) s ++ c) /\
            insert (a ++ takez (zlen s - 1) s ++ c) (zlen a) e = a ++ shr e s ++ c.
Proof.
  intros Hs. pose proof (zlen_nonneg a). pose proof (zlen_nonneg c).
  destruct (nthz_some (a ++ s ++ c) (zlen a + zlen s - 1)) as (x & Hx & _); [rewrite !zlen_app; lia|].
  exists x. split.
  - rewrite (pop_eq _ _ x) by (auto; rewrite !zlen_app; lia). f_equal. f_equal.
    rewrite takez_app_r by lia. rewrite dropz_app_r by lia.
    replace (zlen a + zlen s - 1 - zlen a) with (zlen s - 1) by lia.
    replace (zlen a + zlen s - 1 + 1 - zlen a) with (zlen s) by lia.
    rewrite takez_app_l by lia. rewrite dropz_app_r by lia. replace (zlen s - zlen s) with 0 by lia. rewrite dropz_0.
    rewrite app_assoc. reflexivity.
  - pose proof (zlen_nonneg (takez (zlen s - 1) s)).
    rewrite insert_eq by (rewrite !zlen_app; lia).
    rewrite takez_app_l by lia. rewrite (takez_all' a) by lia.
    rewrite dropz_app_r by lia. replace (zlen a - zlen a) with 0 by lia. rewrite dropz_0. reflexivity.
Qed.

Lemma dl_step {A} (a s c : list A) e : 0 < zlen s ->
  exists x, pop (a ++ s ++ c) (zlen a) = Ok (x, a ++ dropz 1 s ++ c) /\
            insert (a ++ dropz 1 s ++ c) (zlen a + zlen s - 1) e = a ++ shl e s ++ c.
Proof.
  intros Hs. pose proof (zlen_nonneg a). pose proof (zlen_nonneg c).
  destruct s as [|s0 s']; [exfalso; unfold zlen in Hs; cbn [length] in Hs; lia|]. exists s0. split.
  - rewrite (pop_eq (a ++ (s0 :: s') ++ c) (zlen a) s0); [|rewrite !zlen_app; lia|apply nthz_mid].
    cbn [app]. rewrite takez_mid, dropz_mid. reflexivity.
  - change (dropz 1 (s0 :: s')) with s'. rewrite zlen_cons. pose proof (zlen_nonneg s').
    rewrite insert_eq by (rewrite !zlen_app; lia).
    rewrite takez_app_r by lia. rewrite dropz_app_r by lia.
    replace (zlen a + (1 + zlen s') - 1 - zlen a) with (zlen s') by lia.
    rewrite takez_app_l by lia. rewrite (takez_all' s') by lia.
    rewrite dropz_app_r by lia. replace (zlen s' - zlen s') with 0 by lia. rewrite dropz_0.
    unfold shl. change (dropz 1 (s0 :: s')) with s'. rewrite <- !app_assoc. reflexivity.
Qed.
