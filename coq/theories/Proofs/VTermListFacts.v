(* C15 - facts about the CPython list operations of Base/PyList.v at in-range indexes, as used on the
   terminal grid (rows of cells): results are Ok, lengths and per-element predicates are kept. *)
From Coq Require Import ZArith List Bool Lia ZifyBool.
Import ListNotations.
From Urwid Require Import PyBase PyList.
Open Scope Z_scope.

Arguments Z.mul : simpl never.
Arguments Z.add : simpl never.
Arguments Z.sub : simpl never.
Arguments Z.div : simpl never.
Arguments Z.modulo : simpl never.
Arguments Z.ltb : simpl never.
Arguments Z.leb : simpl never.
Arguments Z.eqb : simpl never.
Arguments Z.min : simpl never.
Arguments Z.max : simpl never.

Lemma nthz_some {A} (l : list A) i : 0 <= i < zlen l -> exists x, nthz l i = Some x /\ In x l.
Proof.
  intros H. unfold nthz. destruct (i <? 0) eqn:E; [lia|].
  destruct (nth_error l (Z.to_nat i)) eqn:N.
  - exists a. split; [reflexivity|]. eapply nth_error_In; eauto.
  - apply nth_error_None in N. unfold zlen in H. lia.
Qed.

Lemma Forall_takez {A} (P : A -> Prop) n l : Forall P l -> Forall P (takez n l).
Proof.
  intros H. unfold takez. generalize (Z.to_nat n) as k. induction H; intros [|k]; cbn; constructor; auto.
Qed.

Lemma Forall_dropz {A} (P : A -> Prop) n l : Forall P l -> Forall P (dropz n l).
Proof.
  intros H. unfold dropz. generalize (Z.to_nat n) as k. induction H; intros [|k]; cbn; auto.
Qed.

Lemma zlen_repeat {A} (x : A) n : zlen (repeat x n) = Z.of_nat n.
Proof. unfold zlen. now rewrite repeat_length. Qed.

Lemma Forall_repeat {A} (P : A -> Prop) x n : P x -> Forall P (repeat x n).
Proof. intros. induction n; cbn; constructor; auto. Qed.

Lemma norm_index_in (len i : Z) : 0 <= i -> norm_index len i = i.
Proof. intros. unfold norm_index. destruct (i <? 0) eqn:E; lia. Qed.

Lemma index_ok_in (len i : Z) : 0 <= i < len -> index_ok len i = true.
Proof. intros. unfold index_ok. lia. Qed.

Lemma get_index_ok {A} (l : list A) i : 0 <= i < zlen l -> exists x, get_index l i = Ok x /\ In x l.
Proof.
  intros H. unfold get_index. rewrite norm_index_in by lia.
  destruct (nthz_some l i H) as (x & Hx & Hin). rewrite Hx. eauto.
Qed.

Lemma get_index_last_ok {A} (l : list A) : 0 < zlen l -> exists x, get_index l (-1) = Ok x /\ In x l.
Proof.
  intros H. unfold get_index, norm_index. replace (-1 <? 0) with true by lia.
  destruct (nthz_some l (-1 + zlen l)) as (x & Hx & Hin); [lia|]. rewrite Hx. eauto.
Qed.

Lemma set_index_ok {A} (l : list A) i x : 0 <= i < zlen l ->
  exists l', set_index l i x = Ok l' /\ zlen l' = zlen l /\ (forall P : A -> Prop, Forall P l -> P x -> Forall P l').
Proof.
  intros H. unfold set_index. rewrite norm_index_in by lia. rewrite index_ok_in by lia.
  eexists. split; [reflexivity|]. split.
  - rewrite zlen_app, zlen_cons, zlen_takez, zlen_dropz by lia. lia.
  - intros P Hl Hx. apply Forall_app. split; [now apply Forall_takez|]. constructor; [assumption|now apply Forall_dropz].
Qed.

Lemma pop_ok {A} (l : list A) i : 0 <= i < zlen l ->
  exists x l', pop l i = Ok (x, l') /\ zlen l' = zlen l - 1 /\ nthz l i = Some x /\ In x l
               /\ (forall P : A -> Prop, Forall P l -> Forall P l').
Proof.
  intros H. unfold pop. rewrite norm_index_in by lia. rewrite index_ok_in by lia.
  destruct (nthz_some l i H) as (x & Hx & Hin). rewrite Hx.
  eexists _, _. split; [reflexivity|]. split; [|split; [reflexivity|split; [assumption|]]].
  - rewrite zlen_app, zlen_takez, zlen_dropz by lia. lia.
  - intros P Hl. apply Forall_app. split; [now apply Forall_takez|now apply Forall_dropz].
Qed.

Lemma pop_last_ok {A} (l : list A) : 0 < zlen l ->
  exists x l', pop l (-1) = Ok (x, l') /\ zlen l' = zlen l - 1 /\ (forall P : A -> Prop, Forall P l -> Forall P l').
Proof.
  intros H. unfold pop, norm_index. replace (-1 <? 0) with true by lia.
  rewrite index_ok_in by lia.
  destruct (nthz_some l (-1 + zlen l)) as (x & Hx & Hin); [lia|]. rewrite Hx.
  eexists _, _. split; [reflexivity|]. split.
  - rewrite zlen_app, zlen_takez, zlen_dropz by lia. lia.
  - intros P Hl. apply Forall_app. split; [now apply Forall_takez|now apply Forall_dropz].
Qed.

Lemma zlen_insert {A} (l : list A) i x : zlen (insert l i x) = zlen l + 1.
Proof.
  unfold insert, insert_pos. pose proof (zlen_nonneg l).
  destruct (i <? 0) eqn:E; rewrite zlen_app, zlen_cons, zlen_takez, zlen_dropz by lia; lia.
Qed.

Lemma Forall_insert {A} (P : A -> Prop) (l : list A) i x : Forall P l -> P x -> Forall P (insert l i x).
Proof.
  intros Hl Hx. unfold insert. apply Forall_app. split; [now apply Forall_takez|].
  constructor; [assumption|now apply Forall_dropz].
Qed.

Lemma Forall_map_same {A} (P : A -> Prop) (f : A -> A) l : (forall x, P x -> P (f x)) -> Forall P l -> Forall P (map f l).
Proof. intros Hf H. induction H; cbn; constructor; auto. Qed.

Lemma zlen_map {A B} (f : A -> B) l : zlen (map f l) = zlen l.
Proof. unfold zlen. now rewrite map_length. Qed.

Lemma takez_dropz {A} (l : list A) n : takez n l ++ dropz n l = l.
Proof. unfold takez, dropz. apply firstn_skipn. Qed.

Lemma takez_all' {A} (l : list A) n : zlen l <= n -> takez n l = l.
Proof. intros. unfold takez. apply firstn_all2. unfold zlen in *. lia. Qed.

Lemma dropz_all' {A} (l : list A) n : zlen l <= n -> dropz n l = [].
Proof. intros. unfold dropz. apply skipn_all2. unfold zlen in *. lia. Qed.
