(* C13 - proofs about the SelectEventLoop model: an invariant tying the loop state to the
   observable history, preserved by every public method, by callbacks that call back into
   the loop, and by every iteration of _loop, for all behaviours and all environments. *)
From Coq Require Import ZArith List Bool Lia Sorted.
Import ListNotations.
From Urwid Require Import PyBase SelectLoop SelectLoopFacts SelectLoopSpec.
Open Scope Z_scope.
Arguments Z.add : simpl never.
Arguments Z.sub : simpl never.
Arguments Z.ltb : simpl never.
Arguments Z.leb : simpl never.
Arguments Z.eqb : simpl never.
Arguments Z.min : simpl never.
Arguments Z.max : simpl never.

(* ---------- which events matter to which part of the state ---------- *)
Definition a_irrel (e : event) : bool :=
  match e with EAlarmSet _ _ _ | EAlarmCall _ _ _ | ERmAlarm _ true => false | _ => true end.
Definition w_irrel (e : event) : bool :=
  match e with EWatchSet _ _ | ERmWatch _ true => false | _ => true end.
Definition i_irrel (e : event) : bool :=
  match e with EIdleSet _ _ | ERmIdle _ true => false | _ => true end.

Lemma aset_irrel : forall e tr k d i, a_irrel e = true -> (aset k d i (e :: tr) <-> aset k d i tr).
Proof. unfold aset; intros; cbn; split; [intros [X|X]; [subst; discriminate|exact X]|now right]. Qed.
Lemma acalled_irrel : forall e tr k, a_irrel e = true -> (acalled k (e :: tr) <-> acalled k tr).
Proof.
  unfold acalled; intros; split; intros [id [t X]]; exists id, t.
  - destruct X as [X|X]; [subst; discriminate|exact X]. - now right.
Qed.
Lemma aremoved_irrel : forall e tr k, a_irrel e = true -> (aremoved k (e :: tr) <-> aremoved k tr).
Proof. unfold aremoved; intros; cbn; split; [intros [X|X]; [subst; discriminate|exact X]|now right]. Qed.
Lemma pending_irrel : forall e tr k d i, a_irrel e = true -> (pending k d i (e :: tr) <-> pending k d i tr).
Proof.
  intros; unfold pending. rewrite aset_irrel, acalled_irrel, aremoved_irrel by assumption. tauto.
Qed.

Lemma watched_irrel : forall e tr fd, w_irrel e = true -> watched fd (e :: tr) = watched fd tr.
Proof. intros e tr fd H; destruct e; try reflexivity; try discriminate. destruct ok; [discriminate|reflexivity]. Qed.

Lemma iset_irrel : forall e tr h id, i_irrel e = true -> (iset h id (e :: tr) <-> iset h id tr).
Proof. unfold iset; intros; cbn; split; [intros [X|X]; [subst; discriminate|exact X]|now right]. Qed.
Lemma iremoved_irrel : forall e tr h, i_irrel e = true -> (iremoved h (e :: tr) <-> iremoved h tr).
Proof. unfold iremoved; intros; cbn; split; [intros [X|X]; [subst; discriminate|exact X]|now right]. Qed.

(* ---------- the invariant ---------- *)
Record AInv (al : list alarm_t) (tk : Z) (tr : list event) : Prop := {
  a_sorted : StronglySorted alt al;
  a_ties : NoDup (map a_tie al);
  a_pend : forall d k i, In (mkAlarm d k i) al <-> pending k d i tr;
  a_fresh : forall k d i, aset k d i tr -> k < tk
}.
Record WInv (w : list (Z * Z)) (tr : list event) : Prop := {
  w_keys : NoDup (map fst w);
  w_look : forall fd, lookup fd w = watched fd tr
}.
Record IInv (il : list (Z * Z)) (ih : Z) (tr : list event) : Prop := {
  i_keys : NoDup (map fst il);
  i_in : forall h id, In (h, id) il <-> (iset h id tr /\ ~ iremoved h tr);
  i_fresh : forall h id, iset h id tr -> h <= ih
}.
Record Inv (s : state) : Prop := {
  inv_a : AInv (alarms s) (tie s) (rtrace s);
  inv_w : WInv (watch s) (rtrace s);
  inv_i : IInv (idles s) (idle_handle s) (rtrace s);
  inv_h : hist_ok ev_ok (rtrace s)
}.

Lemma AInv_irrel : forall e al tk tr, a_irrel e = true -> AInv al tk tr -> AInv al tk (e :: tr).
Proof.
  intros e al tk tr He [S T P F]. constructor; auto.
  - intros. rewrite pending_irrel by assumption. apply P.
  - intros k d i X. apply aset_irrel in X; eauto.
Qed.
Lemma WInv_irrel : forall e w tr, w_irrel e = true -> WInv w tr -> WInv w (e :: tr).
Proof. intros e w tr He [K L]. constructor; auto. intros. rewrite watched_irrel by assumption. apply L. Qed.
Lemma IInv_irrel : forall e il ih tr, i_irrel e = true -> IInv il ih tr -> IInv il ih (e :: tr).
Proof.
  intros e il ih tr He [K I F]. constructor; auto.
  - intros. rewrite iset_irrel, iremoved_irrel by assumption. apply I.
  - intros h id X. apply iset_irrel in X; eauto.
Qed.

(* ---------- consequences of the history contract ---------- *)
Lemma hist_called_set : forall tr k, hist_ok ev_ok tr -> acalled k tr -> exists d i, aset k d i tr.
Proof.
  induction tr as [|e r IH]; intros k H [id [t X]]; [destruct X|].
  destruct H as [He Hr]. destruct X as [X|X].
  - subst. cbn in He. destruct He as [due [[P _] _]]. exists due, id. now right.
  - destruct (IH k Hr) as [d [i Y]]; [now exists id, t|]. exists d, i. now right.
Qed.
Lemma hist_removed_set : forall tr k, hist_ok ev_ok tr -> aremoved k tr -> exists d i, aset k d i tr.
Proof.
  induction tr as [|e r IH]; intros k H X; [destruct X|].
  destruct H as [He Hr]. destruct X as [X|X].
  - subst. cbn in He. destruct He as [He _]. destruct (He eq_refl) as [d [i [P _]]]. exists d, i. now right.
  - destruct (IH k Hr X) as [d [i Y]]. exists d, i. now right.
Qed.
Lemma hist_aset_unique : forall tr k d i d' i', hist_ok ev_ok tr -> aset k d i tr -> aset k d' i' tr -> d = d' /\ i = i'.
Proof.
  induction tr as [|e r IH]; intros k d i d' i' H X Y; [destruct X|].
  destruct H as [He Hr]. destruct X as [X|X]; destruct Y as [Y|Y].
  - subst. inversion Y. auto.
  - subst. cbn in He. exfalso. eapply He; eauto.
  - subst. cbn in He. exfalso. eapply He; eauto.
  - eauto.
Qed.
Lemma hist_iset_unique : forall tr h i i', hist_ok ev_ok tr -> iset h i tr -> iset h i' tr -> i = i'.
Proof.
  induction tr as [|e r IH]; intros h i i' H X Y; [destruct X|].
  destruct H as [He Hr]. destruct X as [X|X]; destruct Y as [Y|Y].
  - subst. now inversion Y.
  - subst. cbn in He. exfalso. eapply He; eauto.
  - subst. cbn in He. exfalso. eapply He; eauto.
  - eauto.
Qed.

(* ---------- each public method preserves the invariant ---------- *)
Lemma alarm_eta : forall a, a = mkAlarm (a_due a) (a_tie a) (a_cb a).
Proof. now destruct a. Qed.

Lemma Inv_alarm : forall dt id s, Inv s -> Inv (op_alarm dt id s).
Proof.
  intros dt id s [[S T P F] W I H]. unfold op_alarm.
  assert (Hnew : forall d i, ~ aset (tie s) d i (rtrace s)) by (intros d i X; apply F in X; lia).
  assert (Hnc : ~ acalled (tie s) (rtrace s)).
  { intros X. destruct (hist_called_set _ _ H X) as [d [i Y]]. eapply Hnew; eauto. }
  assert (Hnr : ~ aremoved (tie s) (rtrace s)).
  { intros X. destruct (hist_removed_set _ _ H X) as [d [i Y]]. eapply Hnew; eauto. }
  assert (Hties : forall b, In b (alarms s) -> a_tie b <> tie s).
  { intros b Hb E. rewrite (alarm_eta b) in Hb. apply P in Hb. destruct Hb as [X _]. rewrite E in X. eapply Hnew; eauto. }
  constructor; cbn.
  - constructor.
    + apply sorted_heap_insert; auto.
    + apply nodup_ties_insert; auto.
    + intros d k i. rewrite in_heap_insert. unfold pending, aset, acalled, aremoved in *. cbn. split.
      * intros [X|X].
        -- inversion X; subst. split; [now left|]. split.
           ++ intros [id' [t [Y|Y]]]; [discriminate|]. apply Hnc. now exists id', t.
           ++ intros [Y|Y]; [discriminate|]. auto.
        -- apply P in X. destruct X as [X1 [X2 X3]]. split; [now right|]. split.
           ++ intros [id' [t [Y|Y]]]; [discriminate|]. apply X2. now exists id', t.
           ++ intros [Y|Y]; [discriminate|]. auto.
      * intros [[X|X] [X2 X3]].
        -- inversion X; subst. now left.
        -- right. apply P. split; [exact X|]. split.
           ++ intros [id' [t Y]]. apply X2. exists id', t. now right.
           ++ intros Y. apply X3. now right.
    + intros k d i [X|X]; [inversion X; lia|]. apply F in X. lia.
  - apply WInv_irrel; auto.
  - apply IInv_irrel; auto.
  - split; [|exact H]. cbn. exact Hnew.
Qed.

Lemma Inv_remove_alarm : forall k s, Inv s -> Inv (op_remove_alarm k s).
Proof.
  intros k s [[S T P F] W I H]. unfold op_remove_alarm.
  destruct (has_tie k (alarms s)) eqn:E.
  - assert (Hp : exists d i, pending k d i (rtrace s)).
    { apply has_tie_true in E. destruct E as [a [Ha Hk]]. rewrite (alarm_eta a) in Ha. apply P in Ha.
      rewrite Hk in Ha. eauto. }
    constructor; cbn.
    + constructor.
      * now apply sorted_remove_tie.
      * now apply nodup_ties_remove.
      * intros d k' i. rewrite in_remove_tie by assumption. cbn [a_tie]. rewrite P.
        unfold pending, aset, acalled, aremoved. cbn. split.
        -- intros [[X1 [X2 X3]] Hn]. split; [now right|]. split.
           ++ intros [id' [t [Y|Y]]]; [discriminate|]. apply X2. now exists id', t.
           ++ intros [Y|Y]; [inversion Y; congruence|auto].
        -- intros [[X|X] [X2 X3]]; [discriminate|]. split; [split; [exact X|split]|].
           ++ intros [id' [t Y]]. apply X2. exists id', t. now right.
           ++ intros Y. apply X3. now right.
           ++ intros ->. apply X3. now left.
      * intros k' d i [X|X]; [discriminate|]. eauto.
    + apply WInv_irrel; auto.
    + apply IInv_irrel; auto.
    + split; [|exact H]. cbn. split; auto.
  - constructor; cbn; auto.
    + apply AInv_irrel; auto. constructor; auto.
    + apply WInv_irrel; auto.
    + apply IInv_irrel; auto.
    + split; [|exact H]. cbn. split; [discriminate|]. intros [d [i Hp]]. exfalso.
      apply P in Hp. assert (has_tie k (alarms s) = true) by (apply has_tie_true; eexists; split; [exact Hp|reflexivity]).
      congruence.
Qed.

Lemma Inv_watch : forall fd id s, Inv s -> Inv (op_watch fd id s).
Proof.
  intros fd id s [A [K L] I H]. unfold op_watch. constructor; cbn.
  - apply AInv_irrel; auto.
  - constructor.
    + now apply keys_dict_set.
    + intros fd'. rewrite lookup_dict_set. cbn. destruct (fd =? fd'); auto.
  - apply IInv_irrel; auto.
  - split; [exact Logic.I|exact H].
Qed.

Lemma Inv_remove_watch : forall fd s, Inv s -> Inv (op_remove_watch fd s).
Proof.
  intros fd s [A [K L] I H]. unfold op_remove_watch. destruct (mem fd (watch s)) eqn:E.
  - apply mem_true in E. destruct E as [v E]. constructor; cbn.
    + apply AInv_irrel; auto.
    + constructor.
      * now apply keys_dict_del.
      * intros fd'. rewrite lookup_dict_del by assumption. cbn. destruct (fd =? fd'); auto.
    + apply IInv_irrel; auto.
    + split; [|exact H]. cbn. split; auto. intros _. rewrite <- L, E. discriminate.
  - apply mem_false in E. constructor; cbn.
    + apply AInv_irrel; auto.
    + apply WInv_irrel; auto. constructor; auto.
    + apply IInv_irrel; auto.
    + split; [|exact H]. cbn. split; [discriminate|]. rewrite <- L, E. congruence.
Qed.

Lemma Inv_idle : forall id s, Inv s -> Inv (op_idle id s).
Proof.
  intros id s [A W [K I F] H]. unfold op_idle.
  assert (Hnew : forall i, ~ iset (idle_handle s + 1) i (rtrace s)) by (intros i X; apply F in X; lia).
  constructor; cbn.
  - apply AInv_irrel; auto.
  - apply WInv_irrel; auto.
  - constructor.
    + rewrite map_app. cbn. apply nodup_snoc; auto. intros X. apply in_map_iff in X.
      destruct X as [[h v] [X1 X2]]. cbn in X1; subst. apply I in X2. destruct X2 as [X2 _]. eapply Hnew; eauto.
    + intros h i. rewrite in_app_iff. unfold iset, iremoved. cbn. split.
      * intros [X|[X|[]]].
        -- apply I in X. destruct X as [X1 X2]. split; [now right|]. intros [Y|Y]; [discriminate|auto].
        -- inversion X; subst. split; [now left|]. intros [Y|Y]; [discriminate|].
           (* a removed handle was set before *)
           clear - H Hnew Y. induction (rtrace s) as [|e r IH]; [destruct Y|].
           destruct H as [He Hr]. destruct Y as [Y|Y].
           ++ subst. cbn in He. destruct He as [He _]. destruct (He eq_refl) as [[i' X] _]. eapply Hnew. right. exact X.
           ++ apply IH; auto. intros i' X. eapply Hnew. right. exact X.
      * intros [[X|X] Y].
        -- inversion X; subst. right. now left.
        -- left. apply I. split; [exact X|]. intros Z. apply Y. now right.
    + intros h i [X|X]; [inversion X; lia|]. apply F in X. lia.
  - split; [|exact H]. cbn. exact Hnew.
Qed.

Lemma Inv_remove_idle : forall h s, Inv s -> Inv (op_remove_idle h s).
Proof.
  intros h s [A W [K I F] H]. unfold op_remove_idle. destruct (mem h (idles s)) eqn:E.
  - apply mem_true in E. destruct E as [v E]. apply lookup_in in E.
    constructor; cbn.
    + apply AInv_irrel; auto.
    + apply WInv_irrel; auto.
    + constructor.
      * now apply keys_dict_del.
      * intros h' i. rewrite in_dict_del by assumption. rewrite I. unfold iset, iremoved. cbn. split.
        -- intros [[X1 X2] Hn]. split; [now right|]. intros [Y|Y]; [inversion Y; congruence|auto].
        -- intros [[X|X] Y]; [discriminate|]. split; [split; [exact X|]|].
           ++ intros Z. apply Y. now right.
           ++ intros ->. apply Y. now left.
      * intros h' i [X|X]; [discriminate|]. eauto.
    + split; [|exact H]. cbn. split; auto. intros _. apply I in E. destruct E; split; eauto.
  - apply mem_false in E. constructor; cbn.
    + apply AInv_irrel; auto.
    + apply WInv_irrel; auto.
    + apply IInv_irrel; auto. constructor; auto.
    + split; [|exact H]. cbn. split; [discriminate|]. intros [[i X] Y]. exfalso.
      eapply lookup_none_notin; [exact E|]. apply I. split; eauto.
Qed.

Lemma Inv_set_now : forall v s, Inv s -> Inv (set_now v s).
Proof. intros v s [A W I H]. constructor; auto. Qed.
Lemma Inv_set_did : forall v s, Inv s -> Inv (set_did v s).
Proof. intros v s [A W I H]. constructor; auto. Qed.

(* logging an event that touches no part of the state *)
Lemma Inv_log : forall e s, a_irrel e = true -> w_irrel e = true -> i_irrel e = true ->
  ev_ok e (rtrace s) -> Inv s -> Inv (log e s).
Proof.
  intros e s Ha Hw Hi He [A W I H]. constructor; cbn.
  - now apply AInv_irrel. - now apply WInv_irrel. - now apply IInv_irrel. - split; assumption.
Qed.

Lemma Inv_exec_action : forall a s s' sig, Inv s -> exec_action a s = (s', sig) -> Inv s'.
Proof.
  intros a s s' sig H E. destruct a; cbn in E; inversion E; subst; clear E; auto.
  - now apply Inv_alarm. - now apply Inv_remove_alarm. - now apply Inv_watch. - now apply Inv_remove_watch.
  - now apply Inv_idle. - now apply Inv_remove_idle. - now apply Inv_set_now.
  - apply Inv_log; auto. exact Logic.I.
  - apply Inv_log; auto. exact Logic.I.
Qed.

Lemma Inv_run_actions : forall acts s s' sig, Inv s -> run_actions acts s = (s', sig) -> Inv s'.
Proof.
  induction acts as [|a r IH]; cbn; intros s s' sig H E.
  - inversion E; subst; auto.
  - destruct (exec_action a s) as [s1 sg] eqn:E1. pose proof (Inv_exec_action _ _ _ _ H E1).
    destruct sg; [eauto|inversion E; subst; auto|inversion E; subst; auto].
Qed.

(* ---------- how the history grows ---------- *)
Definition p_act (e : event) : bool :=
  match e with ESelect _ _ _ _ | EAlarmCall _ _ _ | EWatchCall _ _ _ | EIdleCall _ _ _ => false | _ => true end.
Definition p_idle (e : event) : bool := match e with EIdleCall _ _ _ => true | _ => p_act e end.
Definition p_watch (e : event) : bool := match e with EWatchCall _ _ _ => true | _ => p_act e end.
Definition p_nosel (e : event) : bool := negb (is_select e).

Definition ext (P : event -> bool) (s s' : state) : Prop :=
  exists new, rtrace s' = new ++ rtrace s /\ forall e, In e new -> P e = true.

Lemma ext_refl : forall P s, ext P s s.
Proof. intros; exists []; split; [reflexivity|intros e []]. Qed.
Lemma ext_trans : forall P s1 s2 s3, ext P s1 s2 -> ext P s2 s3 -> ext P s1 s3.
Proof.
  intros P s1 s2 s3 [n1 [E1 H1]] [n2 [E2 H2]]. exists (n2 ++ n1). split.
  - rewrite E2, E1. now rewrite app_assoc.
  - intros e X. apply in_app_iff in X. destruct X; auto.
Qed.
Lemma ext_weaken : forall (P Q : event -> bool) s s', (forall e, P e = true -> Q e = true) -> ext P s s' -> ext Q s s'.
Proof. intros P Q s s' H [n [E X]]. exists n; split; auto. Qed.
Lemma ext_log : forall (P : event -> bool) e s, P e = true -> ext P s (log e s).
Proof. intros. exists [e]. split; [reflexivity|]. intros e' [<-|[]]. assumption. Qed.
Lemma ext_log' : forall (P : event -> bool) e s s0, rtrace s0 = rtrace s -> P e = true -> ext P s (log e s0).
Proof. intros P e s s0 E H. exists [e]. split; [cbn; now rewrite E|]. intros e' [<-|[]]. assumption. Qed.
Lemma ext_same : forall P s s', rtrace s' = rtrace s -> ext P s s'.
Proof. intros P s s' E. exists []. split; [exact E|intros e []]. Qed.

Lemma p_act_idle : forall e, p_act e = true -> p_idle e = true.
Proof. now destruct e. Qed.
Lemma p_act_watch : forall e, p_act e = true -> p_watch e = true.
Proof. now destruct e. Qed.
Lemma p_idle_nosel : forall e, p_idle e = true -> p_nosel e = true.
Proof. now destruct e. Qed.
Lemma p_watch_nosel : forall e, p_watch e = true -> p_nosel e = true.
Proof. now destruct e. Qed.
Lemma p_act_nosel : forall e, p_act e = true -> p_nosel e = true.
Proof. now destruct e. Qed.

Lemma ext_exec_action : forall a s s' sig, exec_action a s = (s', sig) -> ext p_act s s' /\ did s' = did s.
Proof.
  intros a s s' sig E. destruct a; cbn in E; inversion E; subst; clear E;
    unfold op_alarm, op_remove_alarm, op_watch, op_remove_watch, op_idle, op_remove_idle;
    repeat match goal with |- context [if ?c then _ else _] => destruct c end;
    (split; [first [apply ext_refl | apply ext_log'; reflexivity | apply ext_same; reflexivity] | reflexivity]).
Qed.

Lemma ext_run_actions : forall acts s s' sig, run_actions acts s = (s', sig) -> ext p_act s s' /\ did s' = did s.
Proof.
  induction acts as [|a r IH]; cbn; intros s s' sig E.
  - inversion E; subst. split; [apply ext_refl|reflexivity].
  - destruct (exec_action a s) as [s1 sg] eqn:E1. destruct (ext_exec_action _ _ _ _ E1) as [X1 D1].
    destruct sg; [|inversion E; subst; auto|inversion E; subst; auto].
    destruct (IH _ _ _ E) as [X2 D2]. split; [eapply ext_trans; eauto|congruence].
Qed.

(* ---------- a callback ---------- *)
Lemma Inv_run_cb : forall beh e id s s' sig,
  a_irrel e = true \/ True -> Inv (log e s) -> run_cb beh e id s = (s', sig) -> Inv s'.
Proof. intros beh e id s s' sig _ H E. unfold run_cb in E. eapply Inv_run_actions; eauto. Qed.

Lemma ext_run_cb : forall beh e id s s' sig,
  run_cb beh e id s = (s', sig) ->
  exists m, rtrace s' = m ++ e :: rtrace s /\ (forall x, In x m -> p_act x = true) /\ did s' = did s.
Proof.
  intros beh e id s s' sig E. unfold run_cb in E. destruct (ext_run_actions _ _ _ _ E) as [[m [Em Hm]] D].
  exists m. auto.
Qed.

Lemma ext_run_cb' : forall (P : event -> bool) beh e id s s' sig,
  P e = true -> (forall x, p_act x = true -> P x = true) ->
  run_cb beh e id s = (s', sig) ->
  exists n, rtrace s' = n ++ rtrace s /\ (forall x, In x n -> P x = true) /\ In e n /\ did s' = did s.
Proof.
  intros P beh e id s s' sig He HP E. destruct (ext_run_cb _ _ _ _ _ _ E) as [m [Em [Hm D]]].
  exists (m ++ [e]). split; [|split; [|split]].
  - rewrite Em. now rewrite <- app_assoc.
  - intros x X. apply in_app_iff in X. destruct X as [X|[<-|[]]]; auto.
  - apply in_app_iff. right. now left.
  - exact D.
Qed.

(* ---------- facts about the most recent select ---------- *)
Lemma nosel_app : forall new tr, (forall e, In e new -> p_nosel e = true) ->
  last_select (new ++ tr) = last_select tr /\ before_select (new ++ tr) = before_select tr /\
  last_batch (new ++ tr) = new ++ last_batch tr.
Proof.
  induction new as [|e r IH]; intros tr H; [auto|].
  assert (He : p_nosel e = true) by (apply H; now left).
  destruct (IH tr) as [A [B C]]; [intros; apply H; now right|].
  cbn. unfold p_nosel in He. destruct e; cbn in *; try discriminate; rewrite ?A, ?B, ?C; auto.
Qed.

Lemma split_at_select : forall tr to regs t rdy, last_select tr = Some (to, regs, t, rdy) ->
  tr = last_batch tr ++ ESelect to regs t rdy :: before_select tr.
Proof.
  induction tr as [|e r IH]; intros to regs t rdy H; [discriminate|].
  destruct e; cbn in *; try (f_equal; now apply IH). now inversion H.
Qed.

Lemma last_batch_nosel : forall tr e, In e (last_batch tr) -> is_select e = false.
Proof.
  induction tr as [|x r IH]; cbn; intros e H; [destruct H|].
  destruct (is_select x) eqn:E; [destruct H|]. destruct H as [<-|H]; auto.
Qed.

Lemma watched_lost : forall b r fd, watched fd (b ++ r) = None -> watched fd r <> None -> In (ERmWatch fd true) b.
Proof.
  induction b as [|e b IH]; cbn; intros r fd H Hn; [contradiction|].
  destruct e; try (right; eapply IH; eauto; fail).
  - destruct (fd0 =? fd); [discriminate|]. right; eapply IH; eauto.
  - destruct ok; [|right; eapply IH; eauto]. destruct (fd0 =? fd) eqn:E.
    + apply Z.eqb_eq in E; subst. now left.
    + right; eapply IH; eauto.
Qed.

(* idle_done survives anything that is not an alarm / watch callback *)
Lemma idle_done_cons : forall e tr, is_aw_call e = false -> idle_done tr -> idle_done (e :: tr).
Proof.
  intros e tr He [batch [regs [t [rest [E [Hb Hc]]]]]]. exists (e :: batch), regs, t, rest. split; [|split].
  - now rewrite E.
  - intros x [<-|X]; auto.
  - intros h id X Y. destruct (Hc h id X) as [t' Z].
    + intros R. apply Y. now right.
    + exists t'. now right.
Qed.
Lemma idle_done_app : forall new tr, (forall e, In e new -> is_aw_call e = false) -> idle_done tr -> idle_done (new ++ tr).
Proof.
  induction new as [|e r IH]; intros tr H D; [exact D|]. cbn. apply idle_done_cons.
  - apply H; now left. - apply IH; auto. intros; apply H; now right.
Qed.

(* ---------- _entering_idle ---------- *)
Lemma Inv_idle_call : forall h id s, Inv s -> mem h (idles s) = true -> In (h, id) (idles s) ->
  Inv (log (EIdleCall h id (now s)) s).
Proof.
  intros h id s H M X. apply Inv_log; auto. cbn. destruct H as [_ _ [K I F] _]. now apply I.
Qed.

Lemma idle_round_spec : forall beh snap s s' sig,
  Inv s -> (forall h id, In (h, id) snap -> iset h id (rtrace s)) ->
  idle_round beh snap s = (s', sig) ->
  Inv s' /\ did s' = did s /\
  exists new, rtrace s' = new ++ rtrace s /\ (forall e, In e new -> p_idle e = true) /\
    (sig = SCont -> forall h id, In (h, id) snap -> ~ iremoved h (rtrace s') -> exists t, In (EIdleCall h id t) new).
Proof.
  induction snap as [|[h id] r IH]; intros s s' sig HI Hset E; cbn in E.
  - inversion E; subst. split; [auto|split; [reflexivity|]]. exists []. split; [reflexivity|split; [intros e []|]].
    intros _ h id [].
  - destruct (mem h (idles s)) eqn:M.
    + destruct (run_cb beh (EIdleCall h id (now s)) id s) as [s1 sg] eqn:C.
      assert (Hin : In (h, id) (idles s)).
      { destruct HI as [_ _ [K I F] Hh]. apply mem_true in M. destruct M as [v M]. apply lookup_in in M.
        pose proof (proj1 (I _ _) M) as [Y _]. assert (v = id) by (eapply hist_iset_unique; eauto; apply Hset; now left).
        now subst. }
      assert (HI1 : Inv s1).
      { eapply Inv_run_cb; eauto. now apply Inv_idle_call. }
      destruct (ext_run_cb' p_idle _ _ _ _ _ _ (eq_refl : p_idle (EIdleCall h id (now s)) = true) p_act_idle C) as [n1 [E1 [P1 [In1 D1]]]].
      destruct sg.
      * destruct (IH s1 s' sig HI1) as [HI' [D' [n2 [E2 [P2 C2]]]]]; auto.
        { intros h' id' X. unfold iset. rewrite E1. apply in_app_iff. right. apply Hset. now right. }
        split; [auto|split; [congruence|]]. exists (n2 ++ n1). split; [|split].
        -- rewrite E2, E1. now rewrite app_assoc.
        -- intros e X. apply in_app_iff in X. destruct X; auto.
        -- intros Hs h' id' [X|X] Hr.
           ++ inversion X; subst. exists (now s). apply in_app_iff. now right.
           ++ destruct (C2 Hs h' id' X Hr) as [t Y]. exists t. apply in_app_iff. now left.
      * inversion E; subst. split; [auto|split; [auto|]]. exists n1. split; [auto|split; [auto|discriminate]].
      * inversion E; subst. split; [auto|split; [auto|]]. exists n1. split; [auto|split; [auto|discriminate]].
    + destruct (IH s s' sig HI) as [HI' [D' [n2 [E2 [P2 C2]]]]]; auto.
      { intros; apply Hset; now right. }
      split; [auto|split; [auto|]]. exists n2. split; [auto|split; [auto|]].
      intros Hs h' id' [X|X] Hr; [|eauto]. inversion X; subst. exfalso.
      apply mem_false in M. eapply lookup_none_notin; [exact M|]. destruct HI as [_ _ [K I F] _]. apply I. split.
      * apply Hset. now left.
      * intros Y. apply Hr. unfold iremoved. rewrite E2. apply in_app_iff. now right.
Qed.

(* ---------- the ready batch ---------- *)
Definition handled (fd : Z) (b : list event) : Prop :=
  (exists id t, In (EWatchCall fd id t) b) \/ In (ERmWatch fd true) b.

Lemma handled_app : forall fd n b, handled fd b -> handled fd (n ++ b).
Proof.
  intros fd n b [[id [t H]]|H]; [left; exists id, t|right]; apply in_app_iff; now right.
Qed.

Lemma process_ready_spec : forall beh ready s s' sig to regs t rdy,
  Inv s -> last_select (rtrace s) = Some (to, regs, t, rdy) ->
  (forall fd id, In (fd, id) ready -> In fd rdy /\ watched fd (before_select (rtrace s)) = Some id) ->
  process_ready beh ready s = (s', sig) ->
  Inv s' /\
  exists new, rtrace s' = new ++ rtrace s /\ (forall e, In e new -> p_watch e = true) /\
    (sig = SCont -> (did s' = true \/ (new = [] /\ did s' = did s)) /\
       forall fd id, In (fd, id) ready -> handled fd (last_batch (rtrace s'))).
Proof.
  induction ready as [|[fd id] r IH]; intros s s' sig to regs t rdy HI LS Hr E; cbn in E.
  - inversion E; subst. split; [auto|]. exists []. split; [reflexivity|split; [intros e []|]].
    intros _. split; [now right|]. intros fd id [].
  - destruct (mem fd (watch s)) eqn:M.
    + destruct (run_cb beh (EWatchCall fd id (now s)) id s) as [s1 sg] eqn:C.
      assert (HI0 : Inv (log (EWatchCall fd id (now s)) s)).
      { apply Inv_log; auto. cbn. split.
        - destruct HI as [_ [K L] _ _]. rewrite <- L. apply mem_true in M. destruct M as [v M]. rewrite M. discriminate.
        - unfold ready_reg. rewrite LS. apply Hr. now left. }
      assert (HI1 : Inv s1) by (eapply Inv_run_cb; eauto).
      destruct (ext_run_cb' p_watch _ _ _ _ _ _ (eq_refl : p_watch (EWatchCall fd id (now s)) = true) p_act_watch C)
        as [n1 [E1 [P1 [In1 D1]]]].
      destruct (nosel_app n1 (rtrace s)) as [A1 [B1 C1]]; [intros; apply p_watch_nosel; auto|].
      destruct sg.
      * destruct (IH (set_did true s1) s' sig to regs t rdy) as [HI' [n2 [E2 [P2 C2]]]]; auto.
        { now apply Inv_set_did. }
        { cbn. rewrite E1, A1. exact LS. }
        { cbn. rewrite E1, B1. intros; apply Hr; now right. }
        cbn in E2. split; [auto|]. exists (n2 ++ n1). split; [|split].
        -- rewrite E2, E1. now rewrite app_assoc.
        -- intros e X. apply in_app_iff in X. destruct X; auto.
        -- intros Hs. destruct (C2 Hs) as [D2 H2]. split.
           ++ left. destruct D2 as [D2|[_ D2]]; [exact D2|]. rewrite D2. reflexivity.
           ++ intros fd' id' [X|X]; [|eauto].
              inversion X; subst. rewrite E2.
              destruct (nosel_app n2 (rtrace s1)) as [_ [_ C2']]; [intros; apply p_watch_nosel; auto|].
              rewrite C2'. apply handled_app. rewrite E1, C1. left. exists id', (now s).
              apply in_app_iff. now left.
      * inversion E; subst. split; [auto|]. exists n1. split; [auto|split; [auto|discriminate]].
      * inversion E; subst. split; [auto|]. exists n1. split; [auto|split; [auto|discriminate]].
    + destruct (IH s s' sig to regs t rdy) as [HI' [n2 [E2 [P2 C2]]]]; auto.
      { intros; apply Hr; now right. }
      split; [auto|]. exists n2. split; [auto|split; [auto|]].
      intros Hs. destruct (C2 Hs) as [D2 H2]. split; [exact D2|].
      intros fd' id' [X|X]; [|eauto]. inversion X; subst.
      destruct (nosel_app n2 (rtrace s)) as [_ [_ C2']]; [intros; apply p_watch_nosel; auto|].
      rewrite E2, C2'. apply handled_app. right.
      (* the watch was registered at the select and is not registered now: it was removed in this batch *)
      destruct HI as [_ [K L] _ _]. apply mem_false in M. rewrite L in M.
      destruct (Hr fd' id' (or_introl eq_refl)) as [_ W0].
      pose proof (split_at_select _ _ _ _ _ LS) as Sp. rewrite Sp in M.
      change (last_batch (rtrace s) ++ ESelect to regs t rdy :: before_select (rtrace s))
        with (last_batch (rtrace s) ++ [ESelect to regs t rdy] ++ before_select (rtrace s)) in M.
      rewrite app_assoc in M. apply watched_lost in M; [|rewrite W0; discriminate].
      apply in_app_iff in M. destruct M as [M|[M|[]]]; [exact M|discriminate].
Qed.

(* ---------- popping the earliest alarm ---------- *)
Lemma Inv_alarm_call : forall a rest s, Inv s -> alarms s = a :: rest -> a_due a <= now s ->
  Inv (log (EAlarmCall (a_tie a) (a_cb a) (now s)) (set_alarms rest s)).
Proof.
  intros a rest s [[S T P F] W I H] Ea Hdue. rewrite Ea in *.
  inversion S as [|? ? S' FA]; subst. inversion T as [|? ? Tn T']; subst.
  assert (Pa : pending (a_tie a) (a_due a) (a_cb a) (rtrace s)) by (apply P; left; apply alarm_eta).
  constructor; cbn.
  - constructor; auto.
    + intros d k i. unfold pending, aset, acalled, aremoved. cbn. split.
      * intros X. assert (k <> a_tie a).
        { intros ->. apply Tn. change (a_tie a) with (a_tie (mkAlarm d (a_tie a) i)). now apply in_map. }
        assert (Y : pending k d i (rtrace s)) by (apply P; now right). destruct Y as [Y1 [Y2 Y3]].
        split; [now right|]. split.
        -- intros [id' [t [Z|Z]]]; [inversion Z; congruence|]. apply Y2. now exists id', t.
        -- intros [Z|Z]; [discriminate|auto].
      * intros [[X|X] [X2 X3]]; [discriminate|].
        assert (Y : In (mkAlarm d k i) (a :: rest)).
        { apply P. split; [exact X|]. split.
          - intros [id' [t Z]]. apply X2. exists id', t. now right.
          - intros Z. apply X3. now right. }
        destruct Y as [Y|Y]; [|exact Y]. exfalso. apply X2. exists (a_cb a), (now s). left. subst a. reflexivity.
    + intros k d i [X|X]; [discriminate|eauto].
  - apply WInv_irrel; auto.
  - apply IInv_irrel; auto.
  - split; [|exact H]. cbn. exists (a_due a). split; [exact Pa|]. split; [exact Hdue|].
    intros k' d' i' Pk. apply P in Pk. destruct Pk as [<-|Pk].
    + apply alarm_lt_false. cbn. lia.
    + rewrite Forall_forall in FA. specialize (FA _ Pk). unfold alt in FA. apply alarm_lt_spec in FA.
      apply alarm_lt_false. cbn in *. lia.
Qed.

(* ---------- the part of _loop before select() ---------- *)
Lemma plan_cases : forall s to tm, plan s = Some (to, tm) ->
  (to = None /\ tm = TmNone /\ alarms s = [] /\ did s = false) \/
  (to = Some 0 /\ tm = TmIdle /\ did s = true) \/
  (exists a rest, alarms s = a :: rest /\ to = Some (Z.max 0 (a_due a - now s)) /\ tm = TmAlarm /\
     (did s = false \/ Z.max 0 (a_due a - now s) = 0)).
Proof.
  intros s to tm. unfold plan. destruct (alarms s) as [|a rest] eqn:Ea; destruct (did s) eqn:Ed; cbn.
  - intros H; inversion H; subst. right; left; auto.
  - destruct (watch s); intros H; inversion H; subst. left; auto.
  - destruct (0 <? Z.max 0 (a_due a - now s)) eqn:El; intros H; inversion H; subst.
    + right; left; auto.
    + right; right. exists a, rest. repeat split; auto. right. apply Z.ltb_ge in El. lia.
  - intros H; inversion H; subst. right; right. exists a, rest. repeat split; auto.
Qed.

Definition LoopInv (s : state) : Prop :=
  Inv s /\ batch_done (rtrace s) /\ (did s = false -> idle_done (rtrace s)).

Lemma sel_ok_plan : forall s to tm rdy, LoopInv s -> plan s = Some (to, tm) ->
  (forall fd, In fd rdy -> In fd (map fst (watch s))) ->
  sel_ok to (map fst (watch s)) (now s) rdy (rtrace s).
Proof.
  intros s to tm rdy [[[S T P F] [K L] I H] [BD ID]] Pl Hr. unfold sel_ok. split; [|split; [exact Hr|split; [|split; [|exact BD]]]].
  - intros fd. rewrite <- L. rewrite <- lookup_some_key. split.
    + intros [v X]. rewrite X. discriminate.
    + destruct (lookup fd (watch s)); [eauto|congruence].
  - destruct (plan_cases _ _ _ Pl) as [[-> [_ [Ea _]]]|[[-> _]|[a [rest [Ea [-> [_ _]]]]]]].
    + intros k d i X. apply P in X. rewrite Ea in X. destruct X.
    + split; lia.
    + split; [lia|]. intros Hpos k due i X. apply P in X. rewrite Ea in *. inversion S as [|? ? _ FA]; subst.
      destruct X as [Xa|X]; [subst a; cbn in *; lia|].
      rewrite Forall_forall in FA. specialize (FA _ X). unfold alt in FA. apply alarm_lt_spec in FA. cbn in FA. lia.
  - intros Q. apply ID.
    destruct (plan_cases _ _ _ Pl) as [[-> [_ [_ Ed]]]|[[-> _]|[a [rest [_ [-> [_ [Ed|Ez]]]]]]]]; auto.
    + cbn in Q. lia.
    + cbn in Q. lia.
Qed.

(* ---------- select() ---------- *)
Lemma do_select_spec : forall to st s s1 r, do_select to (watch s) st s = (s1, r) ->
  exists pairs v,
    (forall fd id, In (fd, id) pairs -> lookup fd (watch s) = Some id) /\
    s1 = set_now v (log (ESelect to (map fst (watch s)) (now s) (map fst pairs)) s) /\
    match r with
    | None => to = None /\ pairs = []
    | Some rd => rd = pairs /\ (pairs = [] -> exists t0, to = Some t0 /\ v = now s + t0 + Z.max 0 (s_dt st))
    end.
Proof.
  intros to st s s1 r E. unfold do_select in E.
  set (pairs := flat_map (fun fd => match lookup fd (watch s) with Some id => [(fd, id)] | None => [] end) (s_fds st)) in *.
  assert (Hp : forall fd id, In (fd, id) pairs -> lookup fd (watch s) = Some id).
  { intros fd id X. unfold pairs in X. apply in_flat_map in X. destruct X as [x [_ X]].
    destruct (lookup x (watch s)) eqn:L; [|destruct X]. destruct X as [X|[]]. inversion X; subst. exact L. }
  exists pairs. destruct pairs as [|p ps] eqn:Ep; destruct to as [t0|]; inversion E; subst; clear E.
  - eexists. split; [exact Hp|]. split; [reflexivity|]. split; [reflexivity|]. intros _. eauto.
  - exists (now s). split; [exact Hp|]. split; [reflexivity|]. auto.
  - eexists. split; [exact Hp|]. split; [reflexivity|]. split; [reflexivity|]. discriminate.
  - eexists. split; [exact Hp|]. split; [reflexivity|]. split; [reflexivity|]. discriminate.
Qed.

Lemma pairs_regs : forall (pairs w : list (Z * Z)), (forall fd id, In (fd, id) pairs -> lookup fd w = Some id) ->
  forall fd, In fd (map fst pairs) -> In fd (map fst w).
Proof.
  intros pairs w H fd X. apply in_map_iff in X. destruct X as [[f i] [X1 X2]]. cbn in X1; subst.
  apply lookup_some_key. exists i. auto.
Qed.

Lemma Inv_select : forall s to tm pairs v, LoopInv s -> plan s = Some (to, tm) ->
  (forall fd id, In (fd, id) pairs -> lookup fd (watch s) = Some id) ->
  Inv (set_now v (log (ESelect to (map fst (watch s)) (now s) (map fst pairs)) s)).
Proof.
  intros s to tm pairs v L Pl Hp. apply Inv_set_now. apply Inv_log; auto; [|apply L].
  cbn. eapply sel_ok_plan; eauto. now apply pairs_regs.
Qed.

(* ---------- one iteration of _loop ---------- *)
Lemma p_idle_not_aw : forall e, p_idle e = true -> is_aw_call e = false.
Proof. now destruct e. Qed.

Lemma iteration_spec : forall beh s st to tm s1 ready s2 sig,
  LoopInv s -> plan s = Some (to, tm) ->
  do_select to (watch s) st s = (s1, Some ready) ->
  after_select beh tm ready s1 = (s2, sig) ->
  Inv s2 /\ (sig = SCont -> LoopInv s2).
Proof.
  intros beh s st to tm s1 ready s2 sig L Pl Ds As.
  destruct (do_select_spec _ _ _ _ _ Ds) as [pairs [v [Hp [Es1 [Er Hv]]]]]. subst ready.
  pose proof (Inv_select s to tm pairs v L Pl Hp) as HI1. rewrite <- Es1 in HI1.
  assert (Tr1 : rtrace s1 = ESelect to (map fst (watch s)) (now s) (map fst pairs) :: rtrace s) by (subst s1; reflexivity).
  assert (Ls1 : last_select (rtrace s1) = Some (to, map fst (watch s), now s, map fst pairs)) by (rewrite Tr1; reflexivity).
  assert (Bs1 : before_select (rtrace s1) = rtrace s) by (rewrite Tr1; reflexivity).
  unfold after_select in As. destruct pairs as [|p ps].
  - (* nothing readable *)
    destruct (Hv eq_refl) as [t0 [-> Ev]].
    assert (Hfin : forall s' , Inv s' -> (exists new, rtrace s' = new ++ rtrace s1 /\ forall e, In e new -> p_nosel e = true) ->
                     batch_done (rtrace s')).
    { intros s' _ [new [En Hn]]. unfold batch_done. rewrite En. destruct (nosel_app new (rtrace s1) Hn) as [A _].
      rewrite A, Ls1. cbn. intros fd []. }
    destruct tm.
    + (* TmNone *)
      cbn in As. inversion As; subst s2 sig. split; [exact HI1|]. intros _. split; [exact HI1|split].
      * apply Hfin; auto. exists []. split; [reflexivity|intros e []].
      * rewrite Tr1. intros D. apply idle_done_cons; [reflexivity|]. apply L. subst s1. exact D.
    + (* TmIdle *)
      destruct (idle_round beh (idles s1) s1) as [s' sg] eqn:Ir.
      destruct (idle_round_spec beh (idles s1) s1 s' sg HI1) as [HI' [Dd [new [En [Pn Cn]]]]]; auto.
      { intros h id X. destruct HI1 as [_ _ [K I F] _]. now apply I. }
      destruct sg.
      * cbn in As. inversion As; subst s2 sig. split; [now apply Inv_set_did|]. intros _.
        split; [now apply Inv_set_did|split].
        -- apply (Hfin (set_did false s')); [now apply Inv_set_did|]. exists new. split; [exact En|].
           intros; apply p_idle_nosel; auto.
        -- intros _. cbn. rewrite En, Tr1.
           destruct (plan_cases _ _ _ Pl) as [[_ [X _]]|[[X _]|[a [rest [_ [_ [X _]]]]]]]; try discriminate.
           inversion X; subst t0.
           exists new, (map fst (watch s)), (now s), (rtrace s). split; [reflexivity|split].
           ++ intros e X'. apply p_idle_not_aw. auto.
           ++ intros h id Hs Hr. apply (Cn eq_refl).
              ** destruct HI1 as [_ _ [K I F] _]. apply I. rewrite Tr1. split; [now right|].
                 intros Y. apply Hr. unfold iremoved in *. apply in_app_iff. right. exact Y.
              ** rewrite En, Tr1. exact Hr.
      * inversion As; subst. split; [auto|discriminate].
      * inversion As; subst. split; [auto|discriminate].
    + (* TmAlarm *)
      destruct (plan_cases _ _ _ Pl) as [[X _]|[[_ [X _]]|[a [rest [Ea [Et _]]]]]]; try discriminate.
      inversion Et; subst t0.
      assert (Ea1 : alarms s1 = a :: rest) by (subst s1; exact Ea).
      rewrite Ea1 in As.
      destruct (run_cb beh (EAlarmCall (a_tie a) (a_cb a) (now s1)) (a_cb a) (set_alarms rest s1)) as [s' sg] eqn:C.
      assert (HIc : Inv (log (EAlarmCall (a_tie a) (a_cb a) (now s1)) (set_alarms rest s1))).
      { apply Inv_alarm_call; auto. subst s1. cbn. lia. }
      assert (HI' : Inv s') by (eapply Inv_run_cb; eauto).
      destruct (ext_run_cb _ _ _ _ _ _ C) as [m [Em [Hm _]]]. cbn in Em.
      destruct sg.
      * cbn in As. inversion As; subst s2 sig. split; [now apply Inv_set_did|]. intros _.
        split; [now apply Inv_set_did|split; [|discriminate]].
        apply (Hfin (set_did true s')); [now apply Inv_set_did|].
        exists (m ++ [EAlarmCall (a_tie a) (a_cb a) (now s1)]). split.
        -- cbn. rewrite Em. now rewrite <- app_assoc.
        -- intros e X. apply in_app_iff in X. destruct X as [X|[<-|[]]]; [apply p_act_nosel; auto|reflexivity].
      * inversion As; subst. split; [auto|discriminate].
      * inversion As; subst. split; [auto|discriminate].
  - (* a ready batch *)
    cbn in As.
    destruct (process_ready_spec beh (p :: ps) s1 s2 sig _ _ _ _ HI1 Ls1) as [HI2 [new [En [Pn Cn]]]]; auto.
    { rewrite Bs1. intros fd id X. split.
      - apply in_map_iff. exists (fd, id). auto.
      - destruct L as [[_ [K Lk] _ _] _]. rewrite <- Lk. auto. }
    split; [exact HI2|]. intros Hs. destruct (Cn Hs) as [Dd Hh]. split; [exact HI2|split].
    + unfold batch_done. rewrite En.
      destruct (nosel_app new (rtrace s1)) as [A [B C]]; [intros; apply p_watch_nosel; auto|].
      rewrite A, Ls1. intros fd X. apply in_map_iff in X. destruct X as [[f i] [X1 X2]]. cbn in X1; subst f.
      specialize (Hh _ _ X2). rewrite En in Hh. exact Hh.
    + intros D. destruct Dd as [Dd|[Dn Dd]]; [congruence|]. subst new. cbn in En. rewrite En, Tr1.
      apply idle_done_cons; [reflexivity|]. apply L. rewrite Dd in D. subst s1. exact D.
Qed.

(* ---------- run() : all iterations, any environment ---------- *)
Lemma run_loop_inv : forall beh env s s' o, LoopInv s -> run_loop beh env s = (s', o) -> Inv s'.
Proof.
  induction env as [|st env IH]; intros s s' o L E; cbn in E.
  - destruct (plan s) as [[to tm]|] eqn:Pl; inversion E; subst; [|apply L].
    change (log (ESelect to (map fst (watch s)) (now s) []) s)
      with (set_now (now s) (log (ESelect to (map fst (watch s)) (now s) (map fst (@nil (Z * Z)))) s)).
    eapply Inv_select; eauto. intros fd id [].
  - destruct (plan s) as [[to tm]|] eqn:Pl; [|inversion E; subst; apply L].
    destruct (do_select to (watch s) st s) as [s1 [ready|]] eqn:Ds.
    + destruct (after_select beh tm ready s1) as [s2 sg] eqn:As.
      destruct (iteration_spec _ _ _ _ _ _ _ _ _ L Pl Ds As) as [HI HL].
      destruct sg; [exact (IH s2 s' o (HL eq_refl) E)|inversion E; subst; auto|inversion E; subst; auto].
    + inversion E; subst. destruct (do_select_spec _ _ _ _ _ Ds) as [pairs [v [Hp [-> _]]]].
      eapply Inv_select; eauto.
Qed.

Lemma Inv_init : Inv init.
Proof.
  constructor; cbn.
  - constructor; cbn; [constructor|constructor| |].
    + intros d k i. split; [intros []|intros [[] _]].
    + intros k d i [].
  - constructor; cbn; [constructor|reflexivity].
  - constructor; cbn; [constructor| |].
    + intros h id. split; [intros []|intros [[] _]].
    + intros h id [].
  - exact Logic.I.
Qed.

Lemma LoopInv_start : forall s, Inv s -> last_select (rtrace s) = None -> LoopInv (set_did true s).
Proof.
  intros s H Ls. split; [now apply Inv_set_did|split].
  - unfold batch_done. cbn. now rewrite Ls.
  - discriminate.
Qed.

Lemma setup_state : forall setup s0 sig, run_actions setup init = (s0, sig) -> Inv s0 /\ last_select (rtrace s0) = None.
Proof.
  intros setup s0 sig E. split; [eapply Inv_run_actions; eauto; apply Inv_init|].
  destruct (ext_run_actions _ _ _ _ E) as [[n [En Hn]] _]. rewrite En. cbn. rewrite app_nil_r.
  destruct (nosel_app n [] ) as [A _]; [intros; apply p_act_nosel; auto|]. rewrite app_nil_r in A. exact A.
Qed.

(* the whole contract holds of the history of any scenario *)
Theorem scenario_hist_ok : forall setup beh env, hist_ok ev_ok (rtrace (fst (scenario setup beh env))).
Proof.
  intros. unfold scenario, run. destruct (run_actions setup init) as [s0 sg] eqn:E. cbn.
  destruct (setup_state _ _ _ E) as [HI Ls].
  destruct (run_loop beh env (set_did true s0)) as [s' o] eqn:R. cbn.
  apply (run_loop_inv _ _ _ _ _ (LoopInv_start _ HI Ls) R).
Qed.

Theorem scenario_inv : forall setup beh env, Inv (fst (scenario setup beh env)).
Proof.
  intros. unfold scenario, run. destruct (run_actions setup init) as [s0 sg] eqn:E. cbn.
  destruct (setup_state _ _ _ E) as [HI Ls].
  destruct (run_loop beh env (set_did true s0)) as [s' o] eqn:R. cbn.
  apply (run_loop_inv _ _ _ _ _ (LoopInv_start _ HI Ls) R).
Qed.

(* ---------- exceptions ---------- *)
Definition exc_post (s : state) (sig : signal) : Prop :=
  match sig with
  | SCont => no_raise (rtrace s)
  | SExit => exists r, rtrace s = ERaise true :: r /\ no_raise r
  | SOther => exists r, rtrace s = ERaise false :: r /\ no_raise r
  end.

Lemma no_raise_cons : forall e tr, (forall b, e <> ERaise b) -> no_raise tr -> no_raise (e :: tr).
Proof. intros e tr He H b [X|X]; [eapply He; eauto|eapply H; eauto]. Qed.

Lemma exc_exec_action : forall a s s' sig, no_raise (rtrace s) -> exec_action a s = (s', sig) -> exc_post s' sig.
Proof.
  intros a s s' sig H E. destruct a; cbn in E; inversion E; subst; clear E; cbn; auto;
    unfold op_alarm, op_remove_alarm, op_watch, op_remove_watch, op_idle, op_remove_idle;
    repeat match goal with |- context [if ?c then _ else _] => destruct c end; cbn;
    try (apply no_raise_cons; [intros b; discriminate|exact H]); eauto.
Qed.

Lemma exc_run_actions : forall acts s s' sig, no_raise (rtrace s) -> run_actions acts s = (s', sig) -> exc_post s' sig.
Proof.
  induction acts as [|a r IH]; cbn; intros s s' sig H E.
  - inversion E; subst. exact H.
  - destruct (exec_action a s) as [s1 sg] eqn:E1. pose proof (exc_exec_action _ _ _ _ H E1) as X.
    destruct sg; [eapply IH; eauto|inversion E; subst; exact X|inversion E; subst; exact X].
Qed.

Lemma exc_run_cb : forall beh e id s s' sig, (forall b, e <> ERaise b) -> no_raise (rtrace s) ->
  run_cb beh e id s = (s', sig) -> exc_post s' sig.
Proof. intros beh e id s s' sig He H E. unfold run_cb in E. eapply exc_run_actions; [|exact E]. cbn. now apply no_raise_cons. Qed.

Lemma exc_idle_round : forall beh snap s s' sig, no_raise (rtrace s) -> idle_round beh snap s = (s', sig) -> exc_post s' sig.
Proof.
  induction snap as [|[h id] r IH]; cbn; intros s s' sig H E.
  - inversion E; subst. exact H.
  - destruct (mem h (idles s)); [|eauto].
    destruct (run_cb beh (EIdleCall h id (now s)) id s) as [s1 sg] eqn:C.
    assert (X : exc_post s1 sg) by (eapply exc_run_cb; [| |exact C]; [intros b; discriminate|exact H]).
    destruct sg; [eapply IH; eauto|inversion E; subst; exact X|inversion E; subst; exact X].
Qed.

Lemma exc_process_ready : forall beh ready s s' sig, no_raise (rtrace s) -> process_ready beh ready s = (s', sig) -> exc_post s' sig.
Proof.
  induction ready as [|[fd id] r IH]; cbn; intros s s' sig H E.
  - inversion E; subst. exact H.
  - destruct (mem fd (watch s)); [|eauto].
    destruct (run_cb beh (EWatchCall fd id (now s)) id s) as [s1 sg] eqn:C.
    assert (X : exc_post s1 sg) by (eapply exc_run_cb; [| |exact C]; [intros b; discriminate|exact H]).
    destruct sg; [eapply IH; [|exact E]; exact X|inversion E; subst; exact X|inversion E; subst; exact X].
Qed.

Lemma exc_after_select : forall beh tm ready s s' sig, no_raise (rtrace s) -> after_select beh tm ready s = (s', sig) -> exc_post s' sig.
Proof.
  intros beh tm ready s s' sig H E. unfold after_select in E.
  destruct ready as [|p ps].
  - destruct tm.
    + cbn in E. inversion E; subst. exact H.
    + destruct (idle_round beh (idles s) s) as [s1 sg] eqn:Ir. pose proof (exc_idle_round _ _ _ _ _ H Ir) as X.
      destruct sg; cbn in E; inversion E; subst; exact X.
    + destruct (alarms s) as [|a rest] eqn:Ea.
      * cbn in E. inversion E; subst. exact H.
      * destruct (run_cb beh (EAlarmCall (a_tie a) (a_cb a) (now s)) (a_cb a) (set_alarms rest s)) as [s1 sg] eqn:C.
        assert (X : exc_post s1 sg) by (eapply exc_run_cb; [| |exact C]; [intros b; discriminate|exact H]).
        destruct sg; cbn in E; inversion E; subst; exact X.
  - eapply exc_process_ready; eauto.
Qed.

Definition exc_outcome (s : state) (o : outcome) : Prop :=
  match o with
  | OReturned => exists r, rtrace s = ERaise true :: r /\ no_raise r
  | ORaised => exists r, rtrace s = ERaise false :: r /\ no_raise r
  | _ => no_raise (rtrace s)
  end.

Lemma exc_run_loop : forall beh env s s' o, no_raise (rtrace s) -> run_loop beh env s = (s', o) -> exc_outcome s' o.
Proof.
  induction env as [|st env IH]; intros s s' o H E; cbn in E.
  - destruct (plan s) as [[to tm]|]; inversion E; subst; cbn; [|exact H].
    apply no_raise_cons; [intros b; discriminate|exact H].
  - destruct (plan s) as [[to tm]|]; [|inversion E; subst; exact H].
    destruct (do_select to (watch s) st s) as [s1 r] eqn:Ds.
    destruct (do_select_spec _ _ _ _ _ Ds) as [pairs [v [_ [Es1 _]]]].
    assert (H1 : no_raise (rtrace s1)) by (subst s1; cbn; apply no_raise_cons; [intros b; discriminate|exact H]).
    destruct r as [ready|]; [|inversion E; subst; exact H1].
    destruct (after_select beh tm ready s1) as [s2 sg] eqn:As.
    pose proof (exc_after_select _ _ _ _ _ _ H1 As) as X.
    destruct sg; [eapply IH; eauto|inversion E; subst; exact X|inversion E; subst; exact X].
Qed.

Lemma setup_no_raise : forall setup s, no_raise (rtrace s) -> (forall a, In a setup -> action_raises a = false) ->
  exists s', run_actions setup s = (s', SCont) /\ no_raise (rtrace s').
Proof.
  induction setup as [|a r IH]; cbn; intros s H Hs.
  - eauto.
  - destruct (exec_action a s) as [s1 sg] eqn:E1. pose proof (exc_exec_action _ _ _ _ H E1) as X.
    assert (Ha : action_raises a = false) by (apply Hs; now left).
    assert (sg = SCont) by (destruct a; cbn in E1; inversion E1; subst; auto; discriminate). subst sg.
    apply IH; auto.
Qed.

Theorem scenario_exceptions : forall setup beh env,
  (forall a, In a setup -> action_raises a = false) ->
  exc_outcome (fst (scenario setup beh env)) (snd (scenario setup beh env)).
Proof.
  intros setup beh env Hs. unfold scenario, run.
  destruct (setup_no_raise setup init) as [s0 [E H0]]; [intros b []|exact Hs|]. rewrite E. cbn.
  destruct (run_loop beh env (set_did true s0)) as [s' o] eqn:R. cbn.
  eapply exc_run_loop; [|exact R]. exact H0.
Qed.

(* ---------- reading the contract off a history ---------- *)
Lemma hist_ok_split : forall P tr, hist_ok P tr <-> (forall newer e older, tr = newer ++ e :: older -> P e older).
Proof.
  induction tr as [|x r IH]; cbn.
  - split; [intros _ [|? ?] e0 older H; discriminate|auto].
  - split.
    + intros [Hx Hr] [|y newer] e0 older H; cbn in H; inversion H; subst; [exact Hx|].
      eapply IH; eauto.
    + intros H. split; [apply (H [] x r eq_refl)|]. apply IH. intros newer e older ->. apply (H (x :: newer) e older eq_refl).
Qed.

Lemma hist_ok_suffix : forall P newer older, hist_ok P (newer ++ older) -> hist_ok P older.
Proof. induction newer; cbn; intros older H; [exact H|]. destruct H; auto. Qed.

Lemma acalled_dec : forall k tr, acalled k tr \/ ~ acalled k tr.
Proof.
  induction tr as [|e r IH].
  - right. intros [id [t []]].
  - destruct IH as [[id [t H]]|H]; [left; exists id, t; now right|].
    destruct e; try (right; intros [id' [t' [X|X]]]; [discriminate|apply H; now exists id', t']).
    destruct (Z.eq_dec tie k) as [->|Hn].
    + left. exists id, t. now left.
    + right. intros [id' [t' [X|X]]]; [inversion X; congruence|apply H; now exists id', t'].
Qed.

Lemma aremoved_dec : forall k tr, aremoved k tr \/ ~ aremoved k tr.
Proof.
  induction tr as [|e r IH].
  - right. intros [].
  - destruct IH as [H|H]; [left; now right|].
    destruct e; try (right; intros [X|X]; [discriminate|auto]).
    destruct ok; [|right; intros [X|X]; [discriminate|auto]].
    destruct (Z.eq_dec tie k) as [->|Hn]; [left; now left|].
    right; intros [X|X]; [inversion X; congruence|auto].
Qed.

(* an alarm callback: set before with this callback, not early, not called or removed before,
   no other pending alarm is earlier; and it is never called again later *)
Lemma alarm_call_facts : forall tr newer k id t older, hist_ok ev_ok tr -> tr = newer ++ EAlarmCall k id t :: older ->
  (exists due, aset k due id older /\ due <= t /\ ~ acalled k older /\ ~ aremoved k older /\
     (forall k' d' i', pending k' d' i' older -> due < d' \/ (due = d' /\ k <= k')) /\
     (forall k' d' i', aset k' d' i' older -> d' < due \/ (d' = due /\ k' < k) -> acalled k' older \/ aremoved k' older)) /\
  ~ acalled k newer /\ ~ aremoved k newer.
Proof.
  intros tr newer k id t older H E. pose proof (proj1 (hist_ok_split _ _) H) as Hs.
  pose proof (Hs _ _ _ E) as He. cbn in He. destruct He as [due [[P1 [P2 P3]] [Hd Hmin]]].
  split; [exists due; repeat split; auto|split].
  - intros k' d' i' Pk. specialize (Hmin _ _ _ Pk). apply alarm_lt_false in Hmin. cbn in Hmin. lia.
  - intros k' d' i' As Hlt. destruct (acalled_dec k' older) as [C|C]; [now left|].
    destruct (aremoved_dec k' older) as [R|R]; [now right|]. exfalso.
    assert (Pk : pending k' d' i' older) by (split; auto).
    specialize (Hmin _ _ _ Pk). apply alarm_lt_false in Hmin. cbn in Hmin. lia.
  - intros [id' [t' X]]. apply in_split in X. destruct X as [n2 [n1 X]]. subst newer.
    rewrite <- app_assoc in E. cbn in E. specialize (Hs _ _ _ E). cbn in Hs.
    destruct Hs as [due' [[_ [Q _]] _]]. apply Q. exists id, t. apply in_app_iff. right. now left.
  - intros X. apply in_split in X. destruct X as [n2 [n1 X]]. subst newer.
    rewrite <- app_assoc in E. cbn in E. specialize (Hs _ _ _ E). cbn in Hs.
    destruct Hs as [Hs _]. destruct (Hs eq_refl) as [d [i [_ [Q _]]]]. apply Q. exists id, t. apply in_app_iff. right. now left.
Qed.

(* a successful removal: the alarm never runs afterwards and every later removal reports failure *)
Lemma alarm_removed_facts : forall tr newer k older, hist_ok ev_ok tr -> tr = newer ++ ERmAlarm k true :: older ->
  (exists d i, pending k d i older) /\ ~ acalled k newer /\ (forall ok, In (ERmAlarm k ok) newer -> ok = false).
Proof.
  intros tr newer k older H E. pose proof (proj1 (hist_ok_split _ _) H) as Hs.
  pose proof (Hs _ _ _ E) as He. cbn in He. split; [now apply He|split].
  - intros [id' [t' X]]. apply in_split in X. destruct X as [n2 [n1 X]]. subst newer.
    rewrite <- app_assoc in E. cbn in E. specialize (Hs _ _ _ E). cbn in Hs.
    destruct Hs as [due' [[_ [_ Q]] _]]. apply Q. unfold aremoved. apply in_app_iff. right. now left.
  - intros ok X. destruct ok; [|reflexivity]. exfalso. apply in_split in X. destruct X as [n2 [n1 X]]. subst newer.
    rewrite <- app_assoc in E. cbn in E. specialize (Hs _ _ _ E). cbn in Hs.
    destruct Hs as [Hs _]. destruct (Hs eq_refl) as [d [i [_ [_ Q]]]]. apply Q. unfold aremoved. apply in_app_iff. right. now left.
Qed.

(* a successfully removed idle callback is not called again *)
Lemma idle_removed_facts : forall tr newer h older, hist_ok ev_ok tr -> tr = newer ++ ERmIdle h true :: older ->
  (forall id t, ~ In (EIdleCall h id t) newer) /\ (forall ok, In (ERmIdle h ok) newer -> ok = false).
Proof.
  intros tr newer h older H E. pose proof (proj1 (hist_ok_split _ _) H) as Hs. split.
  - intros id t X. apply in_split in X. destruct X as [n2 [n1 X]]. subst newer.
    rewrite <- app_assoc in E. cbn in E. specialize (Hs _ _ _ E). cbn in Hs.
    destruct Hs as [_ Q]. apply Q. unfold iremoved. apply in_app_iff. right. now left.
  - intros ok X. destruct ok; [|reflexivity]. exfalso. apply in_split in X. destruct X as [n2 [n1 X]]. subst newer.
    rewrite <- app_assoc in E. cbn in E. specialize (Hs _ _ _ E). cbn in Hs.
    destruct Hs as [Hs _]. destruct (Hs eq_refl) as [_ Q]. apply Q. unfold iremoved. apply in_app_iff. right. now left.
Qed.

(* after a successful remove_watch_file(fd) no callback of fd runs until fd is registered again *)
Lemma watched_none_until_set : forall newer fd older,
  (forall id, ~ In (EWatchSet fd id) newer) -> watched fd (newer ++ ERmWatch fd true :: older) = None.
Proof.
  induction newer as [|e r IH]; intros fd older Hn; cbn.
  - now rewrite Z.eqb_refl.
  - assert (Hr : forall id, ~ In (EWatchSet fd id) r) by (intros id X; apply (Hn id); now right).
    destruct e; try (apply IH; exact Hr).
    + destruct (fd0 =? fd) eqn:E; [|apply IH; exact Hr]. apply Z.eqb_eq in E; subst. exfalso. apply (Hn id). now left.
    + destruct ok; [|apply IH; exact Hr]. destruct (fd0 =? fd); [reflexivity|apply IH; exact Hr].
Qed.

Lemma watch_removed_facts : forall tr newer fd older, hist_ok ev_ok tr -> tr = newer ++ ERmWatch fd true :: older ->
  forall n2 id t n1, newer = n2 ++ EWatchCall fd id t :: n1 -> exists id', In (EWatchSet fd id') n1.
Proof.
  intros tr newer fd older H E n2 id t n1 En. pose proof (proj1 (hist_ok_split _ _) H) as Hs.
  subst newer. rewrite <- app_assoc in E. cbn in E. specialize (Hs _ _ _ E). cbn in Hs. destruct Hs as [Hw _].
  (* decide whether a registration occurs in n1 *)
  assert (D : (exists id', In (EWatchSet fd id') n1) \/ (forall id', ~ In (EWatchSet fd id') n1)).
  { clear. induction n1 as [|e r IH]; [right; intros id' []|].
    destruct IH as [[id' X]|X]; [left; exists id'; now right|].
    destruct e; try (right; intros id' [Y|Y]; [discriminate|eapply X; eauto]).
    destruct (Z.eq_dec fd0 fd) as [->|Hn]; [left; exists id; now left|].
    right; intros id' [Y|Y]; [inversion Y; congruence|eapply X; eauto]. }
  destruct D as [D|D]; [exact D|]. exfalso. apply Hw. now apply watched_none_until_set.
Qed.

(* explicit form of "the most recent select" *)
Lemma last_parts : forall batch to regs t rdy rest,
  (forall e, In e batch -> is_select e = false) ->
  last_select (batch ++ ESelect to regs t rdy :: rest) = Some (to, regs, t, rdy) /\
  last_batch (batch ++ ESelect to regs t rdy :: rest) = batch /\
  before_select (batch ++ ESelect to regs t rdy :: rest) = rest.
Proof.
  intros batch to regs t rdy rest H.
  destruct (nosel_app batch (ESelect to regs t rdy :: rest)) as [A [B C]].
  { intros e X. unfold p_nosel. now rewrite (H e X). }
  rewrite A, B, C. cbn. now rewrite app_nil_r.
Qed.

Lemma ready_reg_explicit : forall fd id tr, ready_reg fd id tr ->
  exists batch to regs t rdy rest, tr = batch ++ ESelect to regs t rdy :: rest /\
    (forall e, In e batch -> is_select e = false) /\ In fd rdy /\ watched fd rest = Some id.
Proof.
  intros fd id tr H. unfold ready_reg in H. destruct (last_select tr) as [[[[to regs] t] rdy]|] eqn:L; [|destruct H].
  exists (last_batch tr), to, regs, t, rdy, (before_select tr). split; [now apply split_at_select|].
  split; [apply last_batch_nosel|exact H].
Qed.

Lemma batch_done_explicit : forall tr batch to regs t rdy rest, batch_done tr ->
  tr = batch ++ ESelect to regs t rdy :: rest -> (forall e, In e batch -> is_select e = false) ->
  forall fd, In fd rdy -> (exists id t', In (EWatchCall fd id t') batch) \/ In (ERmWatch fd true) batch.
Proof.
  intros tr batch to regs t rdy rest H E Hb. unfold batch_done in H. subst tr.
  destruct (last_parts batch to regs t rdy rest Hb) as [A [B _]]. rewrite A, B in H. exact H.
Qed.
