(* C13 - proofs about the SelectEventLoop model: an invariant tying the loop state to the
   observable history, preserved by every public method, by callbacks that call back into
   the loop, and by every iteration of _loop, for all behaviours and all environments. *)
From Coq Require Import ZArith List Bool Lia Sorted.
Import ListNotations.
From Urwid Require Import PyBase SelectLoop SelectLoopFacts SelectLoopSpec.
Open Scope Z_scope.
Arguments Z.add : simpl never.
Arguments Z.sub : simpl never.
Arguments Z.ltb : simpl never.
Arguments Z.leb : simpl never.
Arguments Z.eqb : simpl never.
Arguments Z.min : simpl never.
Arguments Z.max : simpl never.

(* ---------- which events matter to which part of the state ---------- *)
Definition a_irrel (e : event) : bool :=
  match e with EAlarmSet _ _ _ | EAlarmCall _ _ _ | ERmAlarm _ true => false | _ => true end.
Definition w_irrel (e : event) : bool :=
  match e with EWatchSet _ _ | ERmWatch _ true => false | _ => true end.
Definition i_irrel (e : event) : bool :=
  match e with EIdleSet _ _ | ERmIdle _ true => false | _ => true end.

Lemma aset_irrel : forall e tr k d i, a_irrel e = true -> (aset k d i (e :: tr) <-> aset k d i tr).
Proof. unfold aset; intros; cbn; split; [intros [X|X]; [subst; discriminate|exact X]|now right]. Qed.
Lemma acalled_irrel : forall e tr k, a_irrel e = true -> (acalled k (e :: tr) <-> acalled k tr).
Proof.
  unfold acalled; intros; split; intros [id [t X]]; exists id, t.
  - destruct X as [X|X]; [subst; discriminate|exact X]. - now right.
Qed.
Lemma aremoved_irrel : forall e tr k, a_irrel e = true -> (aremoved k (e :: tr) <-> aremoved k tr).
Proof. unfold aremoved; intros; cbn; split; [intros [X|X]; [subst; discriminate|exact X]|now right]. Qed.
Lemma pending_irrel : forall e tr k d i, a_irrel e = true -> (pending k d i (e :: tr) <-> pending k d i tr).
Proof.
  intros; unfold pending. rewrite aset_irrel, acalled_irrel, aremoved_irrel by assumption. tauto.
Qed.

Lemma watched_irrel : forall e tr fd, w_irrel e = true -> watched fd (e :: tr) = watched fd tr.
Proof. intros e tr fd H; destruct e; try reflexivity; try discriminate. destruct ok; [discriminate|reflexivity]. Qed.

Lemma iset_irrel : forall e tr h id, i_irrel e = true -> (iset h id (e :: tr) <-> iset h id tr).
Proof. unfold iset; intros; cbn; split; [intros [X|X]; [subst; discriminate|exact X]|now right]. Qed.
Lemma iremoved_irrel : forall e tr h, i_irrel e = true -> (iremoved h (e :: tr) <-> iremoved h tr).
Proof. unfold iremoved; intros; cbn; split; [intros [X|X]; [subst; discriminate|exact X]|now right]. Qed.

(* ---------- the invariant ---------- *)
Record AInv (al : list alarm_t) (tk : Z) (tr : list event) : Prop := {
  a_sorted : StronglySorted alt al;
  a_ties : NoDup (map a_tie al);
  a_pend : forall d k i, In (mkAlarm d k i) al <-> pending k d i tr;
  a_fresh : forall k d i, aset k d i tr -> k < tk
}.
Record WInv (w : list (Z * Z)) (tr : list event) : Prop := {
  w_keys : NoDup (map fst w);
  w_look : forall fd, lookup fd w = watched fd tr
}.
Record IInv (il : list (Z * Z)) (ih : Z) (tr : list event) : Prop := {
  i_keys : NoDup (map fst il);
  i_in : forall h id, In (h, id) il <-> (iset h id tr /\ ~ iremoved h tr);
  i_fresh : forall h id, iset h id tr -> h <= ih
}.
Record Inv (s : state) : Prop := {
  inv_a : AInv (alarms s) (tie s) (rtrace s);
  inv_w : WInv (watch s) (rtrace s);
  inv_i : IInv (idles s) (idle_handle s) (rtrace s);
  inv_h : hist_ok ev_ok (rtrace s)
}.

Lemma AInv_irrel : forall e al tk tr, a_irrel e = true -> AInv al tk tr -> AInv al tk (e :: tr).
Proof.
  intros e al tk tr He [S T P F]. constructor; auto.
  - intros. rewrite pending_irrel by assumption. apply P.
  - intros k d i X. apply aset_irrel in X; eauto.
Qed.
Lemma WInv_irrel : forall e w tr, w_irrel e = true -> WInv w tr -> WInv w (e :: tr).
Proof. intros e w tr He [K L]. constructor; auto. intros. rewrite watched_irrel by assumption. apply L. Qed.
Lemma IInv_irrel : forall e il ih tr, i_irrel e = true -> IInv il ih tr -> IInv il ih (e :: tr).
Proof.
  intros e il ih tr He [K I F]. constructor; auto.
  - intros. rewrite iset_irrel, iremoved_irrel by assumption. apply I.
  - intros h id X. apply iset_irrel in X; eauto.
Qed.

(* ---------- consequences of the history contract ---------- *)
Lemma hist_called_set : forall tr k, hist_ok ev_ok tr -> acalled k tr -> exists d i, aset k d i tr.
Proof.
  induction tr as [|e r IH]; intros k H [id [t X]]; [destruct X|].
  destruct H as [He Hr]. destruct X as [X|X].
  - subst. cbn in He. destruct He as [due [[P _] _]]. exists due, id. now right.
  - destruct (IH k Hr) as [d [i Y]]; [now exists id, t|]. exists d, i. now right.
Qed.
Lemma hist_removed_set : forall tr k, hist_ok ev_ok tr -> aremoved k tr -> exists d i, aset k d i tr.
Proof.
  induction tr as [|e r IH]; intros k H X; [destruct X|].
  destruct H as [He Hr]. destruct X as [X|X].
  - subst. cbn in He. destruct He as [He _]. destruct (He eq_refl) as [d [i [P _]]]. exists d, i. now right.
  - destruct (IH k Hr X) as [d [i Y]]. exists d, i. now right.
Qed.
Lemma hist_aset_unique : forall tr k d i d' i', hist_ok ev_ok tr -> aset k d i tr -> aset k d' i' tr -> d = d' /\ i = i'.
Proof.
  induction tr as [|e r IH]; intros k d i d' i' H X Y; [destruct X|].
  destruct H as [He Hr]. destruct X as [X|X]; destruct Y as [Y|Y].
  - subst. inversion Y. auto.
  - subst. cbn in He. exfalso. eapply He; eauto.
  - subst. cbn in He. exfalso. eapply He; eauto.
  - eauto.
Qed.
Lemma hist_iset_unique : forall tr h i i', hist_ok ev_ok tr -> iset h i tr -> iset h i' tr -> i = i'.
Proof.
  induction tr as [|e r IH]; intros h i i' H X Y; [destruct X|].
  destruct H as [He Hr]. destruct X as [X|X]; destruct Y as [Y|Y].
  - subst. now inversion Y.
  - subst. cbn in He. exfalso. eapply He; eauto.
  - subst. cbn in He. exfalso. eapply He; eauto.
  - eauto.
Qed.

(* ---------- each public method preserves the invariant ---------- *)
Lemma alarm_eta : forall a, a = mkAlarm (a_due a) (a_tie a) (a_cb a).
Proof. now destruct a. Qed.

Lemma Inv_alarm : forall dt id s, Inv s -> Inv (op_alarm dt id s).
Proof.
  intros dt id s [[S T P F] W I H]. unfold op_alarm.
  assert (Hnew : forall d i, ~ aset (tie s) d i (rtrace s)) by (intros d i X; apply F in X; lia).
  assert (Hnc : ~ acalled (tie s) (rtrace s)).
  { intros X. destruct (hist_called_set _ _ H X) as [d [i Y]]. eapply Hnew; eauto. }
  assert (Hnr : ~ aremoved (tie s) (rtrace s)).
  { intros X. destruct (hist_removed_set _ _ H X) as [d [i Y]]. eapply Hnew; eauto. }
  assert (Hties : forall b, In b (alarms s) -> a_tie b <> tie s).
  { intros b Hb E. rewrite (alarm_eta b) in Hb. apply P in Hb. destruct Hb as [X _]. rewrite E in X. eapply Hnew; eauto. }
  constructor; cbn.
  - constructor.
    + apply sorted_heap_insert; auto.
    + apply nodup_ties_insert; auto.
    + intros d k i. rewrite in_heap_insert. unfold pending, aset, acalled, aremoved in *. cbn. split.
      * intros [X|X].
        -- inversion X; subst. split; [now left|]. split.
           ++ intros [id' [t [Y|Y]]]; [discriminate|]. apply Hnc. now exists id', t.
           ++ intros [Y|Y]; [discriminate|]. auto.
        -- apply P in X. destruct X as [X1 [X2 X3]]. split; [now right|]. split.
           ++ intros [id' [t [Y|Y]]]; [discriminate|]. apply X2. now exists id', t.
           ++ intros [Y|Y]; [discriminate|]. auto.
      * intros [[X|X] [X2 X3]].
        -- inversion X; subst. now left.
        -- right. apply P. split; [exact X|]. split.
           ++ intros [id' [t Y]]. apply X2. exists id', t. now right.
           ++ intros Y. apply X3. now right.
    + intros k d i [X|X]; [inversion X; lia|]. apply F in X. lia.
  - apply WInv_irrel; auto.
  - apply IInv_irrel; auto.
  - split; [|exact H]. cbn. exact Hnew.
Qed.

Lemma Inv_remove_alarm : forall k s, Inv s -> Inv (op_remove_alarm k s).
Proof.
  intros k s [[S T P F] W I H]. unfold op_remove_alarm.
  destruct (has_tie k (alarms s)) eqn:E.
  - assert (Hp : exists d i, pending k d i (rtrace s)).
    { apply has_tie_true in E. destruct E as [a [Ha Hk]]. rewrite (alarm_eta a) in Ha. apply P in Ha.
      rewrite Hk in Ha. eauto. }
    constructor; cbn.
    + constructor.
      * now apply sorted_remove_tie.
      * now apply nodup_ties_remove.
      * intros d k' i. rewrite in_remove_tie by assumption. cbn [a_tie]. rewrite P.
        unfold pending, aset, acalled, aremoved. cbn. split.
        -- intros [[X1 [X2 X3]] Hn]. split; [now right|]. split.
           ++ intros [id' [t [Y|Y]]]; [discriminate|]. apply X2. now exists id', t.
           ++ intros [Y|Y]; [inversion Y; congruence|auto].
        -- intros [[X|X] [X2 X3]]; [discriminate|]. split; [split; [exact X|split]|].
           ++ intros [id' [t Y]]. apply X2. exists id', t. now right.
           ++ intros Y. apply X3. now right.
           ++ intros ->. apply X3. now left.
      * intros k' d i [X|X]; [discriminate|]. eauto.
    + apply WInv_irrel; auto.
    + apply IInv_irrel; auto.
    + split; [|exact H]. cbn. split; auto.
  - constructor; cbn; auto.
    + apply AInv_irrel; auto. constructor; auto.
    + apply WInv_irrel; auto.
    + apply IInv_irrel; auto.
    + split; [|exact H]. cbn. split; [discriminate|]. intros [d [i Hp]]. exfalso.
      apply P in Hp. assert (has_tie k (alarms s) = true) by (apply has_tie_true; eexists; split; [exact Hp|reflexivity]).
      congruence.
Qed.

Lemma Inv_watch : forall fd id s, Inv s -> Inv (op_watch fd id s).
Proof.
  intros fd id s [A [K L] I H]. unfold op_watch. constructor; cbn.
  - apply AInv_irrel; auto.
  - constructor.
    + now apply keys_dict_set.
    + intros fd'. rewrite lookup_dict_set. cbn. destruct (fd =? fd'); auto.
  - apply IInv_irrel; auto.
  - split; [exact Logic.I|exact H].
Qed.

Lemma Inv_remove_watch : forall fd s, Inv s -> Inv (op_remove_watch fd s).
Proof.
  intros fd s [A [K L] I H]. unfold op_remove_watch. destruct (mem fd (watch s)) eqn:E.
  - apply mem_true in E. destruct E as [v E]. constructor; cbn.
    + apply AInv_irrel; auto.
    + constructor.
      * now apply keys_dict_del.
      * intros fd'. rewrite lookup_dict_del by assumption. cbn. destruct (fd =? fd'); auto.
    + apply IInv_irrel; auto.
    + split; [|exact H]. cbn. split; auto. intros _. rewrite <- L, E. discriminate.
  - apply mem_false in E. constructor; cbn.
    + apply AInv_irrel; auto.
    + apply WInv_irrel; auto. constructor; auto.
    + apply IInv_irrel; auto.
    + split; [|exact H]. cbn. split; [discriminate|]. rewrite <- L, E. congruence.
Qed.

Lemma Inv_idle : forall id s, Inv s -> Inv (op_idle id s).
Proof.
  intros id s [A W [K I F] H]. unfold op_idle.
  assert (Hnew : forall i, ~ iset (idle_handle s + 1) i (rtrace s)) by (intros i X; apply F in X; lia).
  constructor; cbn.
  - apply AInv_irrel; auto.
  - apply WInv_irrel; auto.
  - constructor.
    + rewrite map_app. cbn. apply nodup_snoc; auto. intros X. apply in_map_iff in X.
      destruct X as [[h v] [X1 X2]]. cbn in X1; subst. apply I in X2. destruct X2 as [X2 _]. eapply Hnew; eauto.
    + intros h i. rewrite in_app_iff. unfold iset, iremoved. cbn. split.
      * intros [X|[X|[]]].
        -- apply I in X. destruct X as [X1 X2]. split; [now right|]. intros [Y|Y]; [discriminate|auto].
        -- inversion X; subst. split; [now left|]. intros [Y|Y]; [discriminate|].
           (* a removed handle was set before *)
           clear - H Hnew Y. induction (rtrace s) as [|e r IH]; [destruct Y|].
           destruct H as [He Hr]. destruct Y as [Y|Y].
           ++ subst. cbn in He. destruct He as [He _]. destruct (He eq_refl) as [[i' X] _]. eapply Hnew. right. exact X.
           ++ apply IH; auto. intros i' X. eapply Hnew. right. exact X.
      * intros [[X|X] Y].
        -- inversion X; subst. right. now left.
        -- left. apply I. split; [exact X|]. intros Z. apply Y. now right.
    + intros h i [X|X]; [inversion X; lia|]. apply F in X. lia.
  - split; [|exact H]. cbn. exact Hnew.
Qed.

Lemma Inv_remove_idle : forall h s, Inv s -> Inv (op_remove_idle h s).
Proof.
  intros h s [A W [K I F] H]. unfold op_remove_idle. destruct (mem h (idles s)) eqn:E.
  - apply mem_true in E. destruct E as [v E]. apply lookup_in in E.
    constructor; cbn.
    + apply AInv_irrel; auto.
    + apply WInv_irrel; auto.
    + constructor.
      * now apply keys_dict_del.
      * intros h' i. rewrite in_dict_del by assumption. rewrite I. unfold iset, iremoved. cbn. split.
        -- intros [[X1 X2] Hn]. split; [now right|]. intros [Y|Y]; [inversion Y; congruence|auto].
        -- intros [[X|X] Y]; [discriminate|]. split; [split; [exact X|]|].
           ++ intros Z. apply Y. now right.
           ++ intros ->. apply Y. now left.
      * intros h' i [X|X]; [discriminate|]. eauto.
    + split; [|exact H]. cbn. split; auto. intros _. apply I in E. destruct E; split; eauto.
  - apply mem_false in E. constructor; cbn.
    + apply AInv_irrel; auto.
    + apply WInv_irrel; auto.
    + apply IInv_irrel; auto. constructor; auto.
    + split; [|exact H]. cbn. split; [discriminate|]. intros [[i X] Y]. exfalso.
      eapply lookup_none_notin; [exact E|]. apply I. split; eauto.
Qed.

Lemma Inv_set_now : forall v s, Inv s -> Inv (set_now v s).
Proof. intros v s [A W I H]. constructor; auto. Qed.
Lemma Inv_set_did : forall v s, Inv s -> Inv (set_did v s).
Proof. intros v s [A W I H]. constructor; auto. Qed.

(* logging an event that touches no part of the state *)
Lemma Inv_log : forall e s, a_irrel e = true -> w_irrel e = true -> i_irrel e = true ->
  ev_ok e (rtrace s) -> Inv s -> Inv (log e s).
Proof.
  intros e s Ha Hw Hi He [A W I H]. constructor; cbn.
  - now apply AInv_irrel. - now apply WInv_irrel. - now apply IInv_irrel. - split; assumption.
Qed.

Lemma Inv_exec_action : forall a s s' sig, Inv s -> exec_action a s = (s', sig) -> Inv s'.
Proof.
  intros a s s' sig H E. destruct a; cbn in E; inversion E; subst; clear E; auto.
  - now apply Inv_alarm. - now apply Inv_remove_alarm. - now apply Inv_watch. - now apply Inv_remove_watch.
  - now apply Inv_idle. - now apply Inv_remove_idle. - now apply Inv_set_now.
  - apply Inv_log; auto. exact Logic.I.
  - apply Inv_log; auto. exact Logic.I.
Qed.

Lemma Inv_run_actions : forall acts s s' sig, Inv s -> run_actions acts s = (s', sig) -> Inv s'.
Proof.
  induction acts as [|a r IH]; cbn; intros s s' sig H E.
  - inversion E; subst; auto.
  - destruct (exec_action a s) as [s1 sg] eqn:E1. pose proof (Inv_exec_action _ _ _ _ H E1).
    destruct sg; [eauto|inversion E; subst; auto|inversion E; subst; auto].
Qed.

(* ---------- how the history grows ---------- *)
Definition p_act (e : event) : bool :=
  match e with ESelect _ _ _ _ | EAlarmCall _ _ _ | EWatchCall _ _ _ | EIdleCall _ _ _ => false | _ => true end.
Definition p_idle (e : event) : bool := match e with EIdleCall _ _ _ => true | _ => p_act e end.
Definition p_watch (e : event) : bool := match e with EWatchCall _ _ _ => true | _ => p_act e end.
Definition p_nosel (e : event) : bool := negb (is_select e).

Definition ext (P : event -> bool) (s s' : state) : Prop :=
  exists new, rtrace s' = new ++ rtrace s /\ forall e, In e new -> P e = true.

Lemma ext_refl : forall P s, ext P s s.
Proof. intros; exists []; split; [reflexivity|intros e []]. Qed.
Lemma ext_trans : forall P s1 s2 s3, ext P s1 s2 -> ext P s2 s3 -> ext P s1 s3.
Proof.
  intros P s1 s2 s3 [n1 [E1 H1]] [n2 [E2 H2]]. exists (n2 ++ n1). split.
  - rewrite E2, E1. now rewrite app_assoc.
  - intros e X. apply in_app_iff in X. destruct X; auto.
Qed.
Lemma ext_weaken : forall (P Q : event -> bool) s s', (forall e, P e = true -> Q e = true) -> ext P s s' -> ext Q s s'.
Proof. intros P Q s s' H [n [E X]]. exists n; split; auto. Qed.
Lemma ext_log : forall (P : event -> bool) e s, P e = true -> ext P s (log e s).
Proof. intros. exists [e]. split; [reflexivity|]. intros e' [<-|[]]. assumption. Qed.
Lemma ext_log' : forall (P : event -> bool) e s s0, rtrace s0 = rtrace s -> P e = true -> ext P s (log e s0).
Proof. intros P e s s0 E H. exists [e]. split; [cbn; now rewrite E|]. intros e' [<-|[]]. assumption. Qed.
Lemma ext_same : forall P s s', rtrace s' = rtrace s -> ext P s s'.
Proof. intros P s s' E. exists []. split; [exact E|intros e []]. Qed.

Lemma p_act_idle : forall e, p_act e = true -> p_idle e = true.
Proof. now destruct e. Qed.
Lemma p_act_watch : forall e, p_act e = true -> p_watch e = true.
Proof. now destruct e. Qed.
Lemma p_idle_nosel : forall e, p_idle e = true -> p_nosel e = true.
Proof. now destruct e. Qed.
Lemma p_watch_nosel : forall e, p_watch e = true -> p_nosel e = true.
Proof. now destruct e. Qed.
Lemma p_act_nosel : forall e, p_act e = true -> p_nosel e = true.
Proof. now destruct e. Qed.

Lemma ext_exec_action : forall a s s' sig, exec_action a s = (s', sig) -> ext p_act s s' /\ did s' = did s.
Proof.
  intros a s s' sig E. destruct a; cbn in E; inversion E; subst; clear E;
    unfold op_alarm, op_remove_alarm, op_watch, op_remove_watch, op_idle, op_remove_idle;
    repeat match goal with |- context [if ?c then _ else _] => destruct c end;
    (split; [first [apply ext_refl | apply ext_log'; reflexivity | apply ext_same; reflexivity] | reflexivity]).
Qed.

Lemma ext_run_actions : forall acts s s' sig, run_actions acts s = (s', sig) -> ext p_act s s' /\ did s' = did s.
Proof.
  induction acts as [|a r IH]; cbn; intros s s' sig E.
  - inversion E; subst. split; [apply ext_refl|reflexivity].
  - destruct (exec_action a s) as [s1 sg] eqn:E1. destruct (ext_exec_action _ _ _ _ E1) as [X1 D1].
    destruct sg; [|inversion E; subst; auto|inversion E; subst; auto].
    destruct (IH _ _ _ E) as [X2 D2]. split; [eapply ext_trans; eauto|congruence].
Qed.

(* ---------- a callback ---------- *)
Lemma Inv_run_cb : forall beh e id s s' sig,
  a_irrel e = true \/ True -> Inv (log e s) -> run_cb beh e id s = (s', sig) -> Inv s'.
Proof. intros beh e id s s' sig _ H E. unfold run_cb in E. eapply Inv_run_actions; eauto. Qed.

Lemma ext_run_cb : forall beh e id s s' sig,
  run_cb beh e id s = (s', sig) ->
  exists m, rtrace s' = m ++ e :: rtrace s /\ (forall x, In x m -> p_act x = true) /\ did s' = did s.
Proof.
  intros beh e id s s' sig E. unfold run_cb in E. destruct (ext_run_actions _ _ _ _ E) as [[m [Em Hm]] D].
  exists m. auto.
Qed.

Lemma ext_run_cb' : forall (P : event -> bool) beh e id s s' sig,
  P e = true -> (forall x, p_act x = true -> P x = true) ->
  run_cb beh e id s = (s', sig) ->
  exists n, rtrace s' = n ++ rtrace s /\ (forall x, In x n -> P x = true) /\ In e n /\ did s' = did s.
Proof.
  intros P beh e id s s' sig He HP E. destruct (ext_run_cb _ _ _ _ _ _ E) as [m [Em [Hm D]]].
  exists (m ++ [e]). split; [|split; [|split]].
  - rewrite Em. now rewrite <- app_assoc.
  - intros x X. apply in_app_iff in X. destruct X as [X|[<-|[]]]; auto.
  - apply in_app_iff. right. now left.
  - exact D.
Qed.

(* ---------- facts about the most recent select ---------- *)
Lemma nosel_app : forall new tr, (forall e, In e new -> p_nosel e = true) ->
  last_select (new ++ tr) = last_select tr /\ before_select (new ++ tr) = before_select tr /\
  last_batch (new ++ tr) = new ++ last_batch tr.
Proof.
  induction new as [|e r IH]; intros tr H; [auto|].
  assert (He : p_nosel e = true) by (apply H; now left).
  destruct (IH tr) as [A [B C]]; [intros; apply H; now right|].
  cbn. unfold p_nosel in He. destruct e; cbn in *; try discriminate; rewrite ?A, ?B, ?C; auto.
Qed.

Lemma split_at_select : forall tr to regs t rdy, last_select tr = Some (to, regs, t, rdy) ->
  tr = last_batch tr ++ ESelect to regs t rdy :: before_select tr.
Proof.
  induction tr as [|e r IH]; intros to regs t rdy H; [discriminate|].
  destruct e; cbn in *; try (f_equal; now apply IH). now inversion H.
Qed.

Lemma last_batch_nosel : forall tr e, In e (last_batch tr) -> is_select e = false.
Proof.
  induction tr as [|x r IH]; cbn; intros e H; [destruct H|].
  destruct (is_select x) eqn:E; [destruct H|]. destruct H as [<-|H]; auto.
Qed.

Lemma watched_lost : forall b r fd, watched fd (b ++ r) = None -> watched fd r <> None -> In (ERmWatch fd true) b.
Proof.
  induction b as [|e b IH]; cbn; intros r fd H Hn; [contradiction|].
  destruct e; try (right; eapply IH; eauto; fail).
  - destruct (fd0 =? fd); [discriminate|]. right; eapply IH; eauto.
  - destruct ok; [|right; eapply IH; eauto]. destruct (fd0 =? fd) eqn:E.
    + apply Z.eqb_eq in E; subst. now left.
    + right; eapply IH; eauto.
Qed.

(* idle_done survives anything that is not an alarm / watch callback *)
Lemma idle_done_cons : forall e tr, is_aw_call e = false -> idle_done tr -> idle_done (e :: tr).
Proof.
  intros e tr He [batch [regs [t [rest [E [Hb Hc]]]]]]. exists (e :: batch), regs, t, rest. split; [|split].
  - now rewrite E.
  - intros x [<-|X]; auto.
  - intros h id X Y. destruct (Hc h id X) as [t' Z].
    + intros R. apply Y. now right.
    + exists t'. now right.
Qed.
Lemma idle_done_app : forall new tr, (forall e, In e new -> is_aw_call e = false) -> idle_done tr -> idle_done (new ++ tr).
Proof.
  induction new as [|e r IH]; intros tr H D; [exact D|]. cbn. apply idle_done_cons.
  - apply H; now left. - apply IH; auto. intros; apply H; now right.
Qed.

(* ---------- _entering_idle ---------- *)
Lemma Inv_idle_call : forall h id s, Inv s -> mem h (idles s) = true -> In (h, id) (idles s) ->
  Inv (log (EIdleCall h id (now s)) s).
Proof.
  intros h id s H M X. apply Inv_log; auto. cbn. destruct H as [_ _ [K I F] _]. now apply I.
Qed.

Lemma idle_round_spec : forall beh snap s s' sig,
  Inv s -> (forall h id, In (h, id) snap -> iset h id (rtrace s)) ->
  idle_round beh snap s = (s', sig) ->
  Inv s' /\ did s' = did s /\
  exists new, rtrace s' = new ++ rtrace s /\ (forall e, In e new -> p_idle e = true) /\
    (sig = SCont -> forall h id, In (h, id) snap -> ~ iremoved h (rtrace s') -> exists t, In (EIdleCall h id t) new).
Proof.
  induction snap as [|[h id] r IH]; intros s s' sig HI Hset E; cbn in E.
  - inversion E; subst. split; [auto|split; [reflexivity|]]. exists []. split; [reflexivity|split; [intros e []|]].
    intros _ h id [].
  - destruct (mem h (idles s)) eqn:M.
    + destruct (run_cb beh (EIdleCall h id (now s)) id s) as [s1 sg] eqn:C.
      assert (Hin : In (h, id) (idles s)).
      { destruct HI as [_ _ [K I F] Hh]. apply mem_true in M. destruct M as [v M]. apply lookup_in in M.
        pose proof (proj1 (I _ _) M) as [Y _]. assert (v = id) by (eapply hist_iset_unique; eauto; apply Hset; now left).
        now subst. }
      assert (HI1 : Inv s1).
      { eapply Inv_run_cb; eauto. now apply Inv_idle_call. }
      destruct (ext_run_cb' p_idle _ _ _ _ _ _ (eq_refl : p_idle (EIdleCall h id (now s)) = true) p_act_idle C) as [n1 [E1 [P1 [In1 D1]]]].
      destruct sg.
      * destruct (IH s1 s' sig HI1) as [HI' [D' [n2 [E2 [P2 C2]]]]]; auto.
        { intros h' id' X. unfold iset. rewrite E1. apply in_app_iff. right. apply Hset. now right. }
        split; [auto|split; [congruence|]]. exists (n2 ++ n1). split; [|split].
        -- rewrite E2, E1. now rewrite app_assoc.
        -- intros e X. apply in_app_iff in X. destruct X; auto.
        -- intros Hs h' id' [X|X] Hr.
           ++ inversion X; subst. exists (now s). apply in_app_iff. now right.
           ++ destruct (C2 Hs h' id' X Hr) as [t Y]. exists t. apply in_app_iff. now left.
      * inversion E; subst. split; [auto|split; [auto|]]. exists n1. split; [auto|split; [auto|discriminate]].
      * inversion E; subst. split; [auto|split; [auto|]]. exists n1. split; [auto|split; [auto|discriminate]].
    + destruct (IH s s' sig HI) as [HI' [D' [n2 [E2 [P2 C2]]]]]; auto.
      { intros; apply Hset; now right. }
      split; [auto|split; [auto|]]. exists n2. split; [auto|split; [auto|]].
      intros Hs h' id' [X|X] Hr; [|eauto]. inversion X; subst. exfalso.
      apply mem_false in M. eapply lookup_none_notin; [exact M|]. destruct HI as [_ _ [K I F] _]. apply I. split.
      * apply Hset. now left.
      * intros Y. apply Hr. unfold iremoved. rewrite E2. apply in_app_iff. now right.
Qed.

(* ---------- the ready batch ---------- *)
Definition handled (fd : Z) (b : list event) : Prop :=
  (exists id t, In (EWatchCall fd id t) b) \/ In (ERmWatch fd true) b.

Lemma handled_app : forall fd n b, handled fd b -> handled fd (n ++ b).
Proof.
  intros fd n b [[id [t H]]|H]; [left; exists id, t|right]; apply in_app_iff; now right.
Qed.

Lemma process_ready_spec : forall beh ready s s' sig to regs t rdy,
  Inv s -> last_select (rtrace s) = Some (to, regs, t, rdy) ->
  (forall fd id, In (fd, id) ready -> In fd rdy /\ watched fd (before_select (rtrace s)) = Some id) ->
  process_ready beh ready s = (s', sig) ->
  Inv s' /\
  exists new, rtrace s' = new ++ rtrace s /\ (forall e, In e new -> p_watch e = true) /\
    (sig = SCont -> (did s' = true \/ (new = [] /\ did s' = did s)) /\
       forall fd id, In (fd, id) ready -> handled fd (last_batch (rtrace s'))).
Proof.
  induction ready as [|[fd id] r IH]; intros s s' sig to regs t rdy HI LS Hr E; cbn in E.
  - inversion E; subst. split; [auto|]. exists []. split; [reflexivity|split; [intros e []|]].
    intros _. split; [now right|]. intros fd id [].
  - destruct (mem fd (watch s)) eqn:M.
    + destruct (run_cb beh (EWatchCall fd id (now s)) id s) as [s1 sg] eqn:C.
      assert (HI0 : Inv (log (EWatchCall fd id (now s)) s)).
      { apply Inv_log; auto. cbn. split.
        - destruct HI as [_ [K L] _ _]. rewrite <- L. apply mem_true in M. destruct M as [v M]. rewrite M. discriminate.
        - unfold ready_reg. rewrite LS. apply Hr. now left. }
      assert (HI1 : Inv s1) by (eapply Inv_run_cb; eauto).
      destruct (ext_run_cb' p_watch _ _ _ _ _ _ (eq_refl : p_watch (EWatchCall fd id (now s)) = true) p_act_watch C)
        as [n1 [E1 [P1 [In1 D1]]]].
      destruct (nosel_app n1 (rtrace s)) as [A1 [B1 C1]]; [intros; apply p_watch_nosel; auto|].
      destruct sg.
      * destruct (IH (set_did true s1) s' sig to regs t rdy) as [HI' [n2 [E2 [P2 C2]]]]; auto.
        { now apply Inv_set_did. }
        { cbn. rewrite E1, A1. exact LS. }
        { cbn. rewrite E1, B1. intros; apply Hr; now right. }
        cbn in E2. split; [auto|]. exists (n2 ++ n1). split; [|split].
        -- rewrite E2, E1. now rewrite app_assoc.
        -- intros e X. apply in_app_iff in X. destruct X; auto.
        -- intros Hs. destruct (C2 Hs) as [D2 H2]. split.
           ++ left. destruct D2 as [D2|[_ D2]]; [exact D2|]. rewrite D2. reflexivity.
           ++ intros fd' id' [X|X]; [|eauto].
              inversion X; subst. rewrite E2.
              destruct (nosel_app n2 (rtrace s1)) as [_ [_ C2']]; [intros; apply p_watch_nosel; auto|].
              rewrite C2'. apply handled_app. rewrite E1, C1. left. exists id', (now s).
              apply in_app_iff. now left.
      * inversion E; subst. split; [auto|]. exists n1. split; [auto|split; [auto|discriminate]].
      * inversion E; subst. split; [auto|]. exists n1. split; [auto|split; [auto|discriminate]].
    + destruct (IH s s' sig to regs t rdy) as [HI' [n2 [E2 [P2 C2]]]]; auto.
      { intros; apply Hr; now right. }
      split; [auto|]. exists n2. split; [auto|split; [auto|]].
      intros Hs. destruct (C2 Hs) as [D2 H2]. split; [exact D2|].
      intros fd' id' [X|X]; [|eauto]. inversion X; subst.
      destruct (nosel_app n2 (rtrace s)) as [_ [_ C2']]; [intros; apply p_watch_nosel; auto|].
      rewrite E2, C2'. apply handled_app. right.
      (* the watch was registered at the select and is not registered now: it was removed in this batch *)
      destruct HI as [_ [K L] _ _]. apply mem_false in M. rewrite L in M.
      destruct (Hr fd' id' (or_introl eq_refl)) as [_ W0].
      pose proof (split_at_select _ _ _ _ _ LS) as Sp. rewrite Sp in M.
      change (last_batch (rtrace s) ++ ESelect to regs t rdy :: before_select (rtrace s))
        with (last_batch (rtrace s) ++ [ESelect to regs t rdy] ++ before_select (rtrace s)) in M.
      rewrite app_assoc in M. apply watched_lost in M; [|rewrite W0; discriminate].
      apply in_app_iff in M. destruct M as [M|[M|[]]]; [exact M|discriminate].
Qed.

(* ---------- popping the earliest alarm ---------- *)
Lemma Inv_alarm_call : forall a rest s, Inv s -> alarms s = a :: rest -> a_due a <= now s ->
  Inv (log (EAlarmCall (a_tie a) (a_cb a) (now s)) (set_alarms rest s)).
Proof.
  intros a rest s [[S T P F] W I H] Ea Hdue. rewrite Ea in *.
  inversion S as [|? ? S' FA]; subst. inversion T as [|? ? Tn T']; subst.
  assert (Pa : pending (a_tie a) (a_due a) (a_cb a) (rtrace s)) by (apply P; left; apply alarm_eta).
  constructor; cbn.
  - constructor; auto.
    + intros d k i. unfold pending, aset, acalled, aremoved. cbn. split.
      * intros X. assert (k <> a_tie a).
        { intros ->. apply Tn. change (a_tie a) with (a_tie (mkAlarm d (a_tie a) i)). now apply in_map. }
        assert (Y : pending k d i (rtrace s)) by (apply P; now right). destruct Y as [Y1 [Y2 Y3]].
        split; [now right|]. split.
        -- intros [id' [t [Z|Z]]]; [inversion Z; congruence|]. apply Y2. now exists id', t.
        -- intros [Z|Z]; [discriminate|auto].
      * intros [[X|X] [X2 X3]]; [discriminate|].
        assert (Y : In (mkAlarm d k i) (a :: rest)).
        { apply P. split; [exact X|]. split.
          - intros [id' [t Z]]. apply X2. exists id', t. now right.
          - intros Z. apply X3. now right. }
        destruct Y as [Y|Y]; [|exact Y]. exfalso. apply X2. exists (a_cb a), (now s). left. subst a. reflexivity.
    + intros k d i [X|X]; [discriminate|eauto].
  - apply WInv_irrel; auto.
  - apply IInv_irrel; auto.
  - split; [|exact H]. cbn. exists (a_due a). split; [exact Pa|]. split; [exact Hdue|].
    intros k' d' i' Pk. apply P in Pk. destruct Pk as [<-|Pk].
    + apply alarm_lt_false. cbn. lia.
    + rewrite Forall_forall in FA. specialize (FA _ Pk). unfold alt in FA. apply alarm_lt_spec in FA.
      apply alarm_lt_false. cbn in *. lia.
Qed.

(* ---------- the part of _loop before select() ---------- *)
Lemma plan_cases : forall s to tm, plan s = Some (to, tm) ->
  (to = None /\ tm = TmNone /\ alarms s = [] /\ did s = false) \/
  (to = Some 0 /\ tm = TmIdle /\ did s = true) \/
  (exists a rest, alarms s = a :: rest /\ to = Some (Z.max 0 (a_due a - now s)) /\ tm = TmAlarm /\
     (did s = false \/ Z.max 0 (a_due a - now s) = 0)).
Proof.
  intros s to tm. unfold plan. destruct (alarms s) as [|a rest] eqn:Ea; destruct (did s) eqn:Ed; cbn.
  - intros H; inversion H; subst. right; left; auto.
  - destruct (watch s); intros H; inversion H; subst. left; auto.
  - destruct (0 <? Z.max 0 (a_due a - now s)) eqn:El; intros H; inversion H; subst.
    + right; left; auto.
    + right; right. exists a, rest. repeat split; auto. right. apply Z.ltb_ge in El. lia.
  - intros H; inversion H; subst. right; right. exists a, rest. repeat split; auto.
Qed.

Definition LoopInv (s : state) : Prop :=
  Inv s /\ batch_done (rtrace s) /\ (did s = false -> idle_done (rtrace s)).

Lemma sel_ok_plan : forall s to tm rdy, LoopInv s -> plan s = Some (to, tm) ->
  (forall fd, In fd rdy -> In fd (map fst (watch s))) ->
  sel_ok to (map fst (watch s)) (now s) rdy (rtrace s).
Proof.
  intros s to tm rdy [[[S T P F] [K L] I H] [BD ID]] Pl Hr. unfold sel_ok. split; [|split; [exact Hr|split; [|split; [|exact BD]]]].
  - intros fd. rewrite <- L. rewrite <- lookup_some_key. split.
    + intros [v X]. rewrite X. discriminate.
    + destruct (lookup fd (watch s)); [eauto|congruence].
  - destruct (plan_cases _ _ _ Pl) as [[-> [_ [Ea _]]]|[[-> _]|[a [rest [Ea [-> [_ _]]]]]]].
    + intros k d i X. apply P in X. rewrite Ea in X. destruct X.
    + split; lia.
    + split; [lia|]. intros Hpos k due i X. apply P in X. rewrite Ea in *. inversion S as [|? ? _ FA]; subst.
      destruct X as [<-|X]; [cbn; lia|].
      rewrite Forall_forall in FA. specialize (FA _ X). unfold alt in FA. apply alarm_lt_spec in FA. cbn in FA. lia.
  - intros Q. apply ID.
    destruct (plan_cases _ _ _ Pl) as [[-> [_ [_ Ed]]]|[[-> _]|[a [rest [_ [-> [_ [Ed|Ez]]]]]]]]; auto.
    + cbn in Q. lia.
    + cbn in Q. lia.
Qed.
