(* C01 - FIXED sizing of Pile: render(()) has the size pack(()) reports, when every 'pack' item is a flow
   widget (a fixed-only 'pack' item is the known finding "Pile does not pad fixed-only children"). *)
From Coq Require Import ZArith List Bool Lia ZifyBool.
Import ListNotations.
From Urwid Require Import WidgetDims WidgetDimsProofs WidgetDimsColsArith WidgetDimsCols WidgetDimsFixed.
Open Scope Z_scope.

Arguments Z.add : simpl never.
Arguments Z.sub : simpl never.
Arguments Z.mul : simpl never.
Arguments Z.quot : simpl never.
Arguments Z.ltb : simpl never.
Arguments Z.leb : simpl never.
Arguments Z.eqb : simpl never.
Arguments Z.max : simpl never.
Arguments Z.min : simpl never.

(* pack(()) of a child that claims FIXED sizing: positive size or starved *)
Definition fpack_pos (s : sem) : Prop :=
  s_fixed (m_sizing s) = true ->
  forall f, match m_pack s SFixed f with Ok (w, h) => 1 <= w /\ 1 <= h | Err e => soft e end.

Definition pfx_ok (it : pitem) : Prop :=
  Good (pi_sem it) /\ fpack_pos (pi_sem it)
  /\ match pi_kind it with
     | KGiven => 1 <= pi_amount it /\ s_box (m_sizing (pi_sem it)) = true
     | KPack => s_flow (m_sizing (pi_sem it)) = true
     | KWeight => 1 <= pi_amount it
                  /\ (s_flow (m_sizing (pi_sem it)) = true
                      \/ (s_fixed (m_sizing (pi_sem it)) = true /\ s_box (m_sizing (pi_sem it)) = true))
     end.

Definition planrel (it : pitem) (p : fplan) : Prop :=
  let cs := m_sizing (pi_sem it) in
  match p with
  | FPFixed w h true => 1 <= w /\ s_flow cs = true
  | FPFlow => s_flow cs = true
  | FPGivenBox h => 1 <= h /\ s_box cs = true
  | FPWeightBox w h weight => 1 <= w /\ s_box cs = true
  | FPWeightFlow w => 1 <= w /\ s_flow cs = true
  | _ => False
  end.

Lemma fixed_plan_ok f fp : forall l i, Forall pfx_ok l ->
  match pile_fixed_plan l f fp i with
  | Ok ps => Forall2 planrel l ps
  | Err e => soft e
  end.
Proof.
  induction l as [|it l IH]; intros i H; cbn [pile_fixed_plan]; [constructor|].
  inversion H as [|? ? [G [FP K]] H']; subst. specialize (IH (i + 1) H').
  assert (P : match (match pi_kind it with
                     | KPack =>
                         let* a := (if s_fixed (m_sizing (pi_sem it))
                                    then (let* wh := m_pack (pi_sem it) SFixed (item_focus f fp i) in Ok (Some wh))
                                    else Ok None) in
                         if negb (s_fixed (m_sizing (pi_sem it)) || s_flow (m_sizing (pi_sem it))) then Err EWidget
                         else match a with Some (w, h) => Ok (FPFixed w h (s_flow (m_sizing (pi_sem it)))) | None => Ok FPFlow end
                     | KGiven => if s_box (m_sizing (pi_sem it)) then Ok (FPGivenBox (pi_amount it)) else Err EWidget
                     | KWeight =>
                         if pi_amount it <=? 0 then Ok (FPZero (s_flow (m_sizing (pi_sem it))))
                         else if s_fixed (m_sizing (pi_sem it)) && (s_box (m_sizing (pi_sem it)) || s_flow (m_sizing (pi_sem it))) then
                           let* wh := m_pack (pi_sem it) SFixed (item_focus f fp i) in
                           if s_box (m_sizing (pi_sem it)) then Ok (FPWeightBox (fst wh) (snd wh) (pi_amount it))
                           else Ok (FPWeightFlow (fst wh))
                         else if s_flow (m_sizing (pi_sem it)) then Ok FPFlow
                         else Err EWidget
                     end) with
              | Ok p => planrel it p
              | Err e => soft e end).
  { unfold planrel, fpack_pos in *. destruct (pi_kind it).
    - destruct K as [K1 K2]. rewrite K2. cbn. auto.
    - rewrite K. rewrite orb_true_r. cbn [negb].
      destruct (s_fixed (m_sizing (pi_sem it))) eqn:EF.
      + specialize (FP eq_refl (item_focus f fp i)).
        destruct (m_pack (pi_sem it) SFixed (item_focus f fp i)) as [[w h]|e]; cbn; [|exact FP]. lia.
      + cbn. reflexivity.
    - destruct K as [K1 K2]. replace (pi_amount it <=? 0) with false by lia.
      destruct (s_fixed (m_sizing (pi_sem it))) eqn:EF.
      + assert (EB : s_box (m_sizing (pi_sem it)) || s_flow (m_sizing (pi_sem it)) = true).
        { destruct K2 as [K2|[_ K2]]; rewrite K2; [apply orb_true_r|reflexivity]. }
        rewrite EB. cbn [andb].
        specialize (FP eq_refl (item_focus f fp i)).
        destruct (m_pack (pi_sem it) SFixed (item_focus f fp i)) as [[w h]|e]; cbn; [|exact FP].
        destruct (s_box (m_sizing (pi_sem it))) eqn:EBx; cbn.
        * split; [lia|reflexivity].
        * split; [lia|]. destruct K2 as [K2|[_ K2]]; congruence.
      + cbn [andb]. destruct K2 as [K2|[K2 _]]; [|congruence]. rewrite K2. cbn. auto. }
  match goal with |- context [let* p := ?m in _] => destruct m as [p|e]; cbn [bind]; [|exact P] end.
  destruct (pile_fixed_plan l f fp (i + 1)) as [ps|e]; cbn [bind]; [|exact IH].
  constructor; auto.
Qed.

Definition is_wb (p : fplan) : Prop := match p with FPWeightBox _ _ _ => True | _ => False end.

Lemma best_coef_some : forall ps b, (b <> None \/ Exists is_wb ps) -> best_coef ps b <> None.
Proof.
  induction ps as [|p ps IH]; intros b H; cbn [best_coef].
  - destruct H as [H|H]; [exact H|inversion H].
  - destruct p; try (apply IH; destruct H as [H|H]; [left; exact H|inversion H; subst; [contradiction|right; assumption]]).
    apply IH. left. destruct b as [[bh bw]|]; [destruct (bh * weight <? h * bw)|]; discriminate.
Qed.

(* the entries computed by _get_fixed_rows_sizes *)
Fixpoint fentries (f : bool) (fp maxw : Z) (l : list pitem) (t : list (Z * Z * size)) (i : Z) : Prop :=
  match l, t with
  | [], [] => True
  | it :: r, (w, h, sz) :: tr =>
      (w = maxw /\ 1 <= h
       /\ ((sz = SFlow maxw /\ s_flow (m_sizing (pi_sem it)) = true /\ m_rows (pi_sem it) maxw (item_focus f fp i) = Ok h)
           \/ (sz = SBox maxw h /\ s_box (m_sizing (pi_sem it)) = true)))
      /\ fentries f fp maxw r tr (i + 1)
  | _, _ => False
  end.

Lemma fixed_finish_ok f fp maxw coef : 1 <= maxw -> forall l ps i,
  Forall pfx_ok l -> Forall2 planrel l ps -> (Exists is_wb ps -> coef <> None) ->
  match pile_fixed_finish l ps maxw coef f fp i with
  | Ok t => fentries f fp maxw l t i
  | Err e => soft e
  end.
Proof.
  intros Hm. induction l as [|it l IH]; intros ps i H HP HC.
  - inversion HP; subst. cbn. exact I.
  - inversion HP as [|? p ? ps' R HP']; subst. inversion H as [|? ? [G [FP K]] H']; subst.
    cbn [pile_fixed_finish].
    specialize (IH ps' (i + 1) H' HP' ltac:(intros X; apply HC; right; exact X)).
    assert (FL : s_flow (m_sizing (pi_sem it)) = true ->
                 match (let* h := m_rows (pi_sem it) maxw (item_focus f fp i) in Ok (maxw, h, SFlow maxw)) with
                 | Ok (w, h, sz) => w = maxw /\ 1 <= h /\
                      ((sz = SFlow maxw /\ s_flow (m_sizing (pi_sem it)) = true /\ m_rows (pi_sem it) maxw (item_focus f fp i) = Ok h)
                       \/ (sz = SBox maxw h /\ s_box (m_sizing (pi_sem it)) = true))
                 | Err e => soft e end).
    { intros Hfl. pose proof (g_rows _ G maxw (item_focus f fp i) Hfl Hm) as R0.
      destruct (m_rows (pi_sem it) maxw (item_focus f fp i)) as [h|e] eqn:ER; cbn; [|exact R0].
      repeat split; auto. }
    unfold planrel in R.
    destruct p as [w h [|]| |h|b|w h weight|w]; try contradiction.
    + destruct R as [R1 R2]. specialize (FL R2).
      destruct (let* h0 := m_rows (pi_sem it) maxw (item_focus f fp i) in Ok (maxw, h0, SFlow maxw)) as [[[w1 h1] s1]|e]; cbn [bind]; [|exact FL].
      destruct (pile_fixed_finish l ps' maxw coef f fp (i + 1)) as [t|e]; cbn [bind]; [|exact IH].
      cbn [fentries]. split; auto.
    + specialize (FL R).
      destruct (let* h0 := m_rows (pi_sem it) maxw (item_focus f fp i) in Ok (maxw, h0, SFlow maxw)) as [[[w1 h1] s1]|e]; cbn [bind]; [|exact FL].
      destruct (pile_fixed_finish l ps' maxw coef f fp (i + 1)) as [t|e]; cbn [bind]; [|exact IH].
      cbn [fentries]. split; auto.
    + destruct R as [R1 R2]. cbn [bind].
      destruct (pile_fixed_finish l ps' maxw coef f fp (i + 1)) as [t|e]; cbn [bind]; [|exact IH].
      cbn [fentries]. split; [|exact IH]. repeat split; auto.
    + destruct R as [R1 R2].
      assert (HCo : coef <> None) by (apply HC; left; exact I).
      destruct coef as [[bh bw]|]; [|congruence]. cbn [bind].
      destruct (pile_fixed_finish l ps' maxw (Some (bh, bw)) f fp (i + 1)) as [t|e]; cbn [bind]; [|exact IH].
      cbn [fentries]. split; [|exact IH]. repeat split; auto. lia.
    + destruct R as [R1 R2]. specialize (FL R2).
      destruct (let* h0 := m_rows (pi_sem it) maxw (item_focus f fp i) in Ok (maxw, h0, SFlow maxw)) as [[[w1 h1] s1]|e]; cbn [bind]; [|exact FL].
      destruct (pile_fixed_finish l ps' maxw coef f fp (i + 1)) as [t|e]; cbn [bind]; [|exact IH].
      cbn [fentries]. split; auto.
Qed.

Lemma fixed_render_ok f fp maxw : 1 <= maxw -> forall l t i,
  Forall pfx_ok l -> fentries f fp maxw l t i ->
  match pile_render_items l (map (fun x : Z * Z * size => (snd (fst x), snd x)) t) f fp i with
  | Ok cvs => all_width maxw cvs
              /\ fold_right (fun d a => cr d + a) 0 cvs = fold_right Z.add 0 (map (fun x : Z * Z * size => snd (fst x)) t)
              /\ length cvs = length l
  | Err e => soft e
  end.
Proof.
  intros Hm. induction l as [|it l IH]; intros t i H HE.
  - destruct t; [|contradiction]. cbn. repeat split; auto. constructor.
  - destruct t as [|[[w h] sz] t]; [contradiction|]. cbn [fentries] in HE. destruct HE as [[E1 [E2 E3]] HE'].
    inversion H as [|? ? [G _] H']; subst.
    cbn [map pile_render_items fst snd]. replace (0 <? h) with true by lia.
    specialize (IH t (i + 1) H' HE').
    assert (R : match m_render (pi_sem it) sz (item_focus f fp i) with
                | Ok d => cc d = maxw /\ cr d = h /\ rect d = true /\ inside d
                | Err e => soft e end).
    { destruct E3 as [[-> [Hfl Hrows]]|[-> Hbx]].
      - pose proof (g_flow _ G maxw (item_focus f fp i) Hfl Hm) as F.
        destruct (m_render (pi_sem it) (SFlow maxw) (item_focus f fp i)); [|exact F].
        destruct F as [[F1 F2] [F3 F4]]. rewrite Hrows in F2. inversion F2. auto.
      - pose proof (g_box _ G maxw h (item_focus f fp i) Hbx Hm E2) as B.
        destruct (m_render (pi_sem it) (SBox maxw h) (item_focus f fp i)); [|exact B].
        destruct B as [[B1 B2] [B3 B4]]. auto. }
    destruct (m_render (pi_sem it) sz (item_focus f fp i)) as [d|e]; cbn [bind]; [|exact R].
    destruct (pile_render_items l (map (fun x : Z * Z * size => (snd (fst x), snd x)) t) f fp (i + 1)) as [cvs|e]; cbn [bind]; [|exact IH].
    destruct IH as [A [B C]]. destruct R as [R1 [R2 [R3 R4]]]. repeat split.
    + constructor; auto. repeat split; auto. lia.
    + cbn. lia.
    + cbn. lia.
Qed.

(* a Pile that claims FIXED sizing has an item that provides a width *)
Definition pflag_fx (it : pitem) : bool :=
  match pile_flag (pi_kind it) (m_sizing (pi_sem it)) with (_, _, fx) => fx end.

Lemma sizing_loop_fixed : forall l a b c s,
  pile_sizing_loop l a b c = Some s -> s_fixed s = true -> c = true \/ Exists (fun it => pflag_fx it = true) l.
Proof.
  induction l as [|it l IH]; intros a b c s E Hs; cbn [pile_sizing_loop] in E.
  - inversion E; subst. cbn in Hs. left. exact Hs.
  - unfold pflag_fx at 1.
    destruct (pile_flag (pi_kind it) (m_sizing (pi_sem it))) as [[bx fl] fx] eqn:EF.
    destruct (negb (bx || fl || fx)); [discriminate|].
    destruct (bx && negb (fl || fx)).
    + inversion E; subst. cbn in Hs. discriminate.
    + destruct (IH _ _ _ _ E Hs) as [H|H].
      * destruct c; [left; reflexivity|]. cbn in H. right. left. unfold pflag_fx. rewrite EF. exact H.
      * right. right. exact H.
Qed.

Lemma pile_sizing_fixed l : s_fixed (pile_sizing l) = true -> Exists (fun it => pflag_fx it = true) l.
Proof.
  unfold pile_sizing. destruct l as [|it l]; [discriminate|].
  destruct (pile_sizing_loop (it :: l) false false false) as [s|] eqn:E; [|discriminate].
  intros Hs. destruct (sizing_loop_fixed _ _ _ _ _ E Hs) as [H|H]; [discriminate|exact H].
Qed.

Lemma fixed_plan_width f fp : forall l i ps,
  Forall pfx_ok l -> pile_fixed_plan l f fp i = Ok ps ->
  Exists (fun it => pflag_fx it = true) l -> plan_widths ps <> [].
Proof.
  induction l as [|it l IH]; intros i ps H E X; [inversion X|].
  inversion H as [|? ? [G [FP K]] H']; subst.
  cbn [pile_fixed_plan] in E.
  match type of E with (let* p := ?m in _) = _ => destruct m as [p|e] eqn:EP; cbn [bind] in E; [|discriminate] end.
  destruct (pile_fixed_plan l f fp (i + 1)) as [ps'|e] eqn:ER; cbn [bind] in E; [|discriminate].
  inversion E; subst ps. clear E.
  unfold plan_widths. cbn [flat_map].
  inversion X as [? ? Hx|? ? Hx]; subst.
  - (* this item provides the width *)
    assert (W : plan_width p <> None).
    { unfold pflag_fx, pile_flag in Hx. destruct (pi_kind it) eqn:EK.
      - discriminate.
      - rewrite Hx in EP. cbn in EP.
        destruct (m_pack (pi_sem it) SFixed (item_focus f fp i)) as [[w h]|e]; cbn in EP; [|discriminate].
        inversion EP; subst. cbn. discriminate.
      - destruct K as [K1 K2]. replace (pi_amount it <=? 0) with false in EP by lia.
        rewrite Hx in EP.
        destruct (m_pack (pi_sem it) SFixed (item_focus f fp i)) as [[w h]|e]; cbn in EP; [|discriminate].
        destruct (s_box (m_sizing (pi_sem it))); inversion EP; subst; cbn; discriminate. }
    destruct (plan_width p); [discriminate|congruence].
  - specialize (IH (i + 1) ps' H' ER Hx). unfold plan_widths in IH.
    destruct (plan_width p); [discriminate|exact IH].
Qed.

Lemma fentries_widths f fp maxw : forall l t i, fentries f fp maxw l t i ->
  Forall (fun x => x = maxw) (map (fun x : Z * Z * size => fst (fst x)) t)
  /\ Forall (fun h => 1 <= h) (map (fun x : Z * Z * size => snd (fst x)) t)
  /\ length t = length l.
Proof.
  induction l as [|it l IH]; intros t i H.
  - destruct t; [|contradiction]. cbn. repeat split; constructor.
  - destruct t as [|[[w h] sz] t]; [contradiction|]. destruct H as [[E1 [E2 _]] H'].
    destruct (IH t (i + 1) H') as [A [B C]]. cbn. repeat split; try constructor; auto.
Qed.

Lemma sum_pos (l : list Z) : l <> [] -> Forall (fun h => 1 <= h) l -> 1 <= fold_right Z.add 0 l.
Proof.
  intros Hne H. destruct H as [|x l Hx Hl]; [congruence|]. cbn.
  assert (0 <= fold_right Z.add 0 l) by (clear -Hl; induction Hl; cbn; lia). lia.
Qed.

Lemma pile_fx l fp :
  l <> [] -> Forall pfx_ok l -> GoodFx (pile_sem l fp).
Proof.
  intros Hne H. constructor; cbn [pile_sem mk_node m_sizing m_pack m_render degenerate]; intros Hs f.
  - (* pack(()) *)
    unfold pile_pack_fixed, pile_fixed_sizes. destruct l as [|it0 l0] eqn:EL; [congruence|]. rewrite <- EL in *.
    pose proof (fixed_plan_ok f fp l 0 H) as P.
    destruct (pile_fixed_plan l f fp 0) as [ps|e] eqn:EP; cbn [bind]; [|exact P].
    pose proof (fixed_plan_width f fp l 0 ps H EP (pile_sizing_fixed l Hs)) as W.
    destruct (plan_widths ps) as [|w0 ws] eqn:EW; [congruence|]. rewrite <- EW in *.
    assert (M1 : 1 <= maxz (plan_widths ps)).
    { destruct (maxz_facts (plan_widths ps) W) as [_ Hin].
      clear -Hin P. revert Hin. generalize (maxz (plan_widths ps)) as m. intros m.
      unfold plan_widths. induction P as [|it p l ps R P IH]; cbn [flat_map]; [intros []|].
      intros Hin. apply in_app_or in Hin. destruct Hin as [Hin|Hin]; [|auto].
      unfold planrel in R. destruct p as [w h [|]| |h|b|w h weight|w]; cbn in Hin; try contradiction;
        destruct Hin as [<-|[]]; lia. }
    pose proof (fixed_finish_ok f fp (maxz (plan_widths ps)) (best_coef ps None) M1 l ps 0 H P
                  ltac:(intros X; apply best_coef_some; right; exact X)) as F.
    destruct (pile_fixed_finish l ps (maxz (plan_widths ps)) (best_coef ps None) f fp 0) as [t|e]; cbn [bind]; [|exact F].
    destruct (fentries_widths f fp _ l t 0 F) as [A [B C]].
    destruct t as [|t0 t']; [cbn in C; rewrite EL in C; discriminate|].
    rewrite sumz_fold.
    rewrite (maxz_is _ (maxz (plan_widths ps))).
    + split; [exact M1|]. apply sum_pos; [discriminate|exact B].
    + discriminate.
    + intros x Hx. pose proof (proj1 (Forall_forall _ _) A x Hx) as HH. cbn beta in HH. lia.
    + inversion A; subst. left. auto.
  - (* render(()) *)
    unfold wrap_render. cbn [degenerate]. unfold pile_render, pile_sizes, meets.
    cbn [pile_sem mk_node m_pack degenerate]. unfold pile_pack_fixed, pile_fixed_sizes.
    destruct l as [|it0 l0] eqn:EL; [congruence|]. rewrite <- EL in *.
    pose proof (fixed_plan_ok f fp l 0 H) as P.
    destruct (pile_fixed_plan l f fp 0) as [ps|e] eqn:EP; cbn [bind]; [|exact P].
    pose proof (fixed_plan_width f fp l 0 ps H EP (pile_sizing_fixed l Hs)) as W.
    destruct (plan_widths ps) as [|w0 ws] eqn:EW; [congruence|]. rewrite <- EW in *.
    assert (M1 : 1 <= maxz (plan_widths ps)).
    { destruct (maxz_facts (plan_widths ps) W) as [_ Hin].
      clear -Hin P. revert Hin. generalize (maxz (plan_widths ps)) as m. intros m.
      unfold plan_widths. induction P as [|it p l ps R P IH]; cbn [flat_map]; [intros []|].
      intros Hin. apply in_app_or in Hin. destruct Hin as [Hin|Hin]; [|auto].
      unfold planrel in R. destruct p as [w h [|]| |h|b|w h weight|w]; cbn in Hin; try contradiction;
        destruct Hin as [<-|[]]; lia. }
    pose proof (fixed_finish_ok f fp (maxz (plan_widths ps)) (best_coef ps None) M1 l ps 0 H P
                  ltac:(intros X; apply best_coef_some; right; exact X)) as F.
    destruct (pile_fixed_finish l ps (maxz (plan_widths ps)) (best_coef ps None) f fp 0) as [t|e]; cbn [bind]; [|exact F].
    destruct (fentries_widths f fp _ l t 0 F) as [A [B C]].
    pose proof (fixed_render_ok f fp (maxz (plan_widths ps)) M1 l t 0 H F) as R.
    destruct (pile_render_items l (map (fun x : Z * Z * size => (snd (fst x), snd x)) t) f fp 0) as [cvs|e]; cbn [bind]; [|exact R].
    destruct R as [R1 [R2 R3]].
    destruct cvs as [|d cvs]; [cbn in R3; rewrite EL in R3; discriminate|].
    destruct (combine_spec _ (d :: cvs) ltac:(discriminate) R1) as [C1 [C2 [C3 C4]]].
    destruct t as [|t0 t']; [cbn in C; rewrite EL in C; discriminate|].
    cbn [validate bind]. repeat split; auto.
    rewrite sumz_fold, C1, C2, R2.
    rewrite (maxz_is _ (maxz (plan_widths ps))); [reflexivity|discriminate| |].
    + intros x Hx. pose proof (proj1 (Forall_forall _ _) A x Hx) as HH. cbn beta in HH. lia.
    + inversion A; subst. left. auto.
Qed.
