(* C13, adapters - proofs for the TornadoEventLoop wrapper model (Model/TornadoLoop.v): for ANY host, whenever
   the log of the host's answers satisfies [host_ok], the observable history satisfies [taev_ok] and run()
   ends as it must.  The structure follows Proofs/AdapterLoopProofs.v (whose host-log lemmas are reused);
   the differences are the table of pending alarms, the watch-handle table and the order of the clean-up
   in handle_exit. *)
From Coq Require Import ZArith List Bool Lia.
Import ListNotations.
From Urwid Require Import PyBase SelectLoop AdapterLoop TornadoLoop SelectLoopFacts SelectLoopSpec SelectLoopProofs AdapterLoopSpec AdapterLoopProofs TornadoLoopSpec.
Open Scope Z_scope.
Arguments Z.add : simpl never.
Arguments Z.sub : simpl never.
Arguments Z.ltb : simpl never.
Arguments Z.leb : simpl never.
Arguments Z.eqb : simpl never.
Arguments Z.min : simpl never.
Arguments Z.max : simpl never.

Section TWrapperProofs.
Variable H : Type.
Variable hst : host H.
Notation ast := (tstate H).

(* ---------- the invariant tying wrapper state, history and host log ---------- *)
Record AJ (s : ast) : Prop := {
  j_handles : forall k hd, lookup k (t_handles H s) = Some hd <-> exists id w, halarm k id hd w (t_hlog H s);
  j_nalarm : forall k hd, lookup k (t_handles H s) = Some hd -> k < t_nalarm H s;
  j_aset : forall k w id, aset k w id (t_trace H s) <-> exists hd, halarm k id hd w (t_hlog H s);
  j_called : forall k, acalled k (t_trace H s) <-> exists hd id w, halarm k id hd w (t_hlog H s) /\ hfired hd (t_hlog H s);
  (* remove_timeout() is also called for an alarm that has already run: a cancelled handle means removed OR run *)
  j_removed : forall k, (aremoved k (t_trace H s) -> exists hd id w, halarm k id hd w (t_hlog H s) /\ hcancelled hd (t_hlog H s)) /\
                        (forall hd id w, halarm k id hd w (t_hlog H s) -> hcancelled hd (t_hlog H s) ->
                           aremoved k (t_trace H s) \/ acalled k (t_trace H s));
  j_ccreated : forall h, hcancelled h (t_hlog H s) -> exists c w, hlater h c w (t_hlog H s);
  j_watch : forall fd, watched fd (t_trace H s) = hreader fd (t_hlog H s);
  j_idles : IInv (t_idles H s) (t_idle_handle H s) (t_trace H s);
  j_hist : hist_ok taev_ok (t_trace H s)
}.

Lemma halarm_later : forall k id hd w hl, halarm k id hd w hl -> hlater hd (TAlarm k id) w hl.
Proof. intros k id hd w hl [t [d X]]. now exists t, d. Qed.

(* two alarms sharing a host handle are the same alarm *)
Lemma halarm_same_handle : forall hl k id w k' id' w' hd, host_ok hl ->
  halarm k id hd w hl -> halarm k' id' hd w' hl -> k = k' /\ id = id' /\ w = w'.
Proof.
  intros hl k id w k' id' w' hd Hok A B.
  destruct (hlater_unique hl hd _ _ _ _ Hok (halarm_later _ _ _ _ _ A) (halarm_later _ _ _ _ _ B)) as [E1 E2].
  inversion E1. auto.
Qed.

Lemma AJ_alarm : forall dt id s, host_ok (t_hlog H (top_alarm H hst dt id s)) -> AJ s -> AJ (top_alarm H hst dt id s).
Proof.
  intros dt id s Hok [JH JN JA JC JR JK JW JI JHi]. unfold top_alarm in *. revert Hok.
  destruct (h_call_later hst (Z.max 0 dt) (TAlarm (t_nalarm H s) id) (th H s)) as [[h' hd] w] eqn:E. intros Hok. cbn in Hok.
  destruct Hok as [[_ [Fresh _]] Hok]. set (k := t_nalarm H s) in *. set (dd := Z.max 0 dt) in *.
  assert (Hnk : forall id' hd' w', ~ halarm k id' hd' w' (t_hlog H s)).
  { intros id' hd' w' X. assert (L : lookup k (t_handles H s) = Some hd') by (apply JH; eauto).
    apply JN in L. unfold k in L. lia. }
  assert (Hnf : ~ hfired hd (t_hlog H s)).
  { intros X. destruct (hfired_later _ _ Hok X) as [c [w' L]]. eapply Fresh; eauto. }
  assert (Hnc : ~ hcancelled hd (t_hlog H s)).
  { intros X. destruct (JK _ X) as [c [w' L]]. eapply Fresh; eauto. }
  assert (Hal : forall k' id' hd' w', halarm k' id' hd' w' (CLater (h_time hst (th H s)) dd (TAlarm k id) hd w :: t_hlog H s) <->
                  (k' = k /\ id' = id /\ hd' = hd /\ w' = w) \/ halarm k' id' hd' w' (t_hlog H s)).
  { intros. unfold halarm. split.
    - intros [t [d [X|X]]]; [inversion X; subst; left; auto|right; eauto].
    - intros [[-> [-> [-> ->]]]|[t [d X]]]; [exists (h_time hst (th H s)), dd; now left|exists t, d; now right]. }
  constructor; cbn [t_handles t_nalarm t_trace t_hlog t_idles t_idle_handle lookup].
  - intros k' hd'. destruct (k =? k') eqn:Ek.
    + apply Z.eqb_eq in Ek. subst k'. split.
      * intros X. inversion X; subst. exists id, w. apply Hal. left; auto.
      * intros [id' [w' X]]. apply Hal in X. destruct X as [[_ [_ [-> _]]]|X]; [reflexivity|exfalso; eapply Hnk; eauto].
    + apply Z.eqb_neq in Ek. rewrite JH. split; intros [id' [w' X]]; exists id', w'.
      * apply Hal. now right.
      * apply Hal in X. destruct X as [[-> _]|X]; [congruence|exact X].
  - intros k' hd'. destruct (k =? k') eqn:Ek.
    + apply Z.eqb_eq in Ek. subst k'. intros _. lia.
    + intros X. apply JN in X. unfold k. lia.
  - intros k' w' id'. unfold aset. cbn. split.
    + intros [X|X]; [inversion X; subst; exists hd; apply Hal; left; auto|].
      apply JA in X. destruct X as [hd' X]. exists hd'. apply Hal. now right.
    + intros [hd' X]. apply Hal in X. destruct X as [[-> [-> [_ ->]]]|X]; [now left|right; apply JA; eauto].
  - intros k'. rewrite acalled_noncall by exact I. rewrite JC. split; intros [hd' [id' [w' [A F]]]]; exists hd', id', w'.
    + split; [apply Hal; now right|apply hfired_irrel; auto].
    + apply hfired_irrel in F; [|reflexivity]. apply Hal in A. destruct A as [[_ [_ [-> _]]]|A]; [contradiction|auto].
  - intros k'. destruct (JR k') as [JR1 JR2]. split.
    + intros X. apply aremoved_nonrm in X; [|exact I]. destruct (JR1 X) as [hd' [id' [w' [A F]]]]. exists hd', id', w'. split; [apply Hal; now right|apply hcancelled_irrel; auto].
    + intros hd' id' w' A F. apply hcancelled_irrel in F; [|reflexivity]. apply Hal in A.
      destruct A as [[_ [_ [-> _]]]|A]; [contradiction|].
      destruct (JR2 _ _ _ A F); [left; apply aremoved_nonrm; [exact I|assumption]|right; apply acalled_noncall; [exact I|assumption]].
  - intros h X. apply hcancelled_irrel in X; [|reflexivity]. destruct (JK _ X) as [c [w' [t [d L]]]]. exists c, w', t, d. now right.
  - intros fd. cbn [watched hreader]. apply JW.
  - apply IInv_irrel; auto.
  - split; [|exact JHi]. cbn. intros d i X. apply JA in X. destruct X as [hd' X]. eapply Hnk; eauto.
Qed.

Definition same_core (s s' : ast) : Prop :=
  t_handles H s' = t_handles H s /\ t_nalarm H s' = t_nalarm H s /\
  t_idles H s' = t_idles H s /\ t_idle_handle H s' = t_idle_handle H s.

(* ---------- the tables TornadoEventLoop keeps itself ---------- *)
Record WB (lv wt : list (Z * Z)) (wm : Z) (tr : list event) : Prop := {
  wb_lkeys : NoDup (map fst lv);
  wb_wkeys : NoDup (map fst wt);
  wb_bound : forall h fd, In (h, fd) wt -> h <= wm;
  wb_live : forall fd, mem fd lv = true <-> watched fd tr <> None;
  wb_table : forall fd h, lookup fd lv = Some h -> lookup h wt = Some fd
}.
Record TJ (s : ast) : Prop := {
  j_pend : forall k, zmem k (t_pend H s) = true <-> exists d i, pending k d i (t_trace H s);
  j_wb : WB (t_live H s) (t_wtable H s) (t_wmax H s) (t_trace H s)
}.

Lemma zmem_true : forall k l, zmem k l = true <-> In k l.
Proof.
  intros k l. unfold zmem. rewrite existsb_exists. split; [intros [x [X Hx]]; apply Z.eqb_eq in Hx; now subst|].
  intros X. exists k. split; [exact X|apply Z.eqb_refl].
Qed.
Lemma zmem_zdel : forall k k' l, zmem k' (zdel k l) = true <-> zmem k' l = true /\ k' <> k.
Proof.
  intros k k' l. rewrite !zmem_true. unfold zdel. rewrite filter_In. rewrite negb_true_iff, Z.eqb_neq. tauto.
Qed.

Lemma WB_irrel : forall e lv wt wm tr, w_irrel e = true -> WB lv wt wm tr -> WB lv wt wm (e :: tr).
Proof. intros e lv wt wm tr He [A B C D E]. constructor; auto. intros fd. rewrite watched_irrel by assumption. apply D. Qed.

Definition same_tj (s s' : ast) : Prop :=
  t_pend H s' = t_pend H s /\ t_live H s' = t_live H s /\ t_wtable H s' = t_wtable H s /\ t_wmax H s' = t_wmax H s.

(* the tables are untouched and the history grows by events that concern neither alarms nor watches *)
Lemma TJ_frame : forall s s' nt, same_tj s s' -> t_trace H s' = nt ++ t_trace H s ->
  (forall e, In e nt -> a_irrel e = true /\ w_irrel e = true) -> TJ s -> TJ s'.
Proof.
  intros s s' nt [E1 [E2 [E3 E4]]] Et Hn [P W]. constructor; rewrite ?E1, ?E2, ?E3, ?E4, Et.
  - intros k. rewrite P. clear - Hn. induction nt as [|e r IH]; [reflexivity|]. cbn [app].
    assert (Hr : forall e0, In e0 r -> a_irrel e0 = true /\ w_irrel e0 = true) by (intros; apply Hn; now right).
    rewrite (IH Hr). split; intros [d [i X]]; exists d, i; [apply pending_irrel|apply pending_irrel in X]; auto; apply Hn; now left.
  - clear - Hn W. induction nt as [|e r IH]; [exact W|]. cbn [app]. apply WB_irrel; [apply Hn; now left|].
    apply IH. intros; apply Hn; now right.
Qed.

(* a host-log entry that touches neither timers nor readers *)
Lemma AJ_hcons : forall c s s', same_core s s' -> t_trace H s' = t_trace H s -> t_hlog H s' = c :: t_hlog H s ->
  l_irrel c = true -> c_irrel c = true -> f_irrel c = true -> r_irrel c = true -> AJ s -> AJ s'.
Proof.
  intros c s s' [E1 [E2 [E3 E4]]] Et El Hl Hc Hf Hr [JH JN JA JC JR JK JW JI JHi].
  constructor; rewrite ?E1, ?E2, ?E3, ?E4, ?Et, ?El; auto.
  - intros k hd. rewrite JH. split; intros [id [w X]]; exists id, w; [apply halarm_irrel|apply halarm_irrel in X]; auto.
  - intros k w id. rewrite JA. split; intros [hd X]; exists hd; [apply halarm_irrel|apply halarm_irrel in X]; auto.
  - intros k. rewrite JC. split; intros [hd [id [w [A F]]]]; exists hd, id, w.
    + split; [apply halarm_irrel|apply hfired_irrel]; auto.
    + apply halarm_irrel in A; auto. apply hfired_irrel in F; auto.
  - intros k. destruct (JR k) as [JR1 JR2]. split.
    + intros X. destruct (JR1 X) as [hd [id [w [A F]]]]. exists hd, id, w. split; [apply halarm_irrel|apply hcancelled_irrel]; auto.
    + intros hd id w A F. apply halarm_irrel in A; auto. apply hcancelled_irrel in F; auto. eauto.
  - intros h X. apply hcancelled_irrel in X; auto. destruct (JK _ X) as [cb [w L]]. exists cb, w. apply hlater_irrel; auto.
  - intros fd. rewrite hreader_irrel by assumption. apply JW.
Qed.

(* an event that touches no part of the wrapper state *)
Lemma AJ_tcons : forall e s s', same_core s s' -> t_trace H s' = e :: t_trace H s -> t_hlog H s' = t_hlog H s ->
  a_irrel e = true -> w_irrel e = true -> i_irrel e = true -> taev_ok e (t_trace H s) -> AJ s -> AJ s'.
Proof.
  intros e s s' [E1 [E2 [E3 E4]]] Et El Ha Hw Hi He [JH JN JA JC JR JK JW JI JHi].
  constructor; rewrite ?E1, ?E2, ?E3, ?E4, ?Et, ?El; auto.
  - intros k w id. rewrite aset_irrel by assumption. apply JA.
  - intros k. rewrite acalled_irrel by assumption. apply JC.
  - intros k. destruct (JR k) as [JR1 JR2]. split.
    + intros X. apply aremoved_irrel in X; auto.
    + intros hd id w A F. destruct (JR2 _ _ _ A F); [left; apply aremoved_irrel; auto|right; apply acalled_irrel; auto].
  - intros fd. rewrite watched_irrel by assumption. apply JW.
  - apply IInv_irrel; auto.
  - split; assumption.
Qed.

Lemma AJ_remove_alarm : forall k s, host_ok (t_hlog H (top_remove_alarm H hst k s)) -> AJ s -> TJ s -> AJ (top_remove_alarm H hst k s).
Proof.
  intros k s Hok J T. unfold top_remove_alarm in *. destruct (lookup k (t_handles H s)) as [hd|] eqn:L.
  - cbn in Hok. destruct Hok as [_ Hok].
    destruct J as [JH JN JA JC JR JK JW JI JHi].
    set (ok := zmem k (t_pend H s)) in *.
    assert (Hokp : ok = true <-> exists d i, pending k d i (t_trace H s)) by (apply (j_pend _ T)).
    destruct (proj1 (JH k hd) L) as [id [w Ak]].
    assert (Hsame : forall k' id' w', halarm k' id' hd w' (t_hlog H s) -> k' = k).
    { intros k' id' w' X. destruct (halarm_same_handle _ _ _ _ _ _ _ _ Hok X Ak) as [E _]. exact E. }
    assert (As : aset k w id (t_trace H s)) by (apply JA; eauto).
    constructor; cbn [t_handles t_nalarm t_trace t_hlog t_idles t_idle_handle t_log t_host t_with_pend].
    + intros k' hd'. rewrite JH. split; intros [id' [w' X]]; exists id', w'; [apply halarm_irrel; [reflexivity|]|apply halarm_irrel in X; [|reflexivity]]; exact X.
    + exact JN.
    + intros k' w' id'. rewrite aset_nonset by exact I. rewrite JA.
      split; intros [hd' X]; exists hd'; [apply halarm_irrel; [reflexivity|]|apply halarm_irrel in X; [|reflexivity]]; exact X.
    + intros k'. rewrite acalled_noncall by exact I. rewrite JC. split; intros [hd' [id' [w' [A F]]]]; exists hd', id', w'.
      * split; [apply halarm_irrel; [reflexivity|]; exact A|apply hfired_irrel; [reflexivity|]; exact F].
      * apply halarm_irrel in A; [|reflexivity]. apply hfired_irrel in F; [|reflexivity]. auto.
    + intros k'. destruct (JR k') as [JR1 JR2]. split.
      * intros [X|X].
        -- inversion X; subst. exists hd, id, w. split; [apply halarm_irrel; [reflexivity|]; exact Ak|now left].
        -- destruct (JR1 X) as [hd' [id' [w' [A C]]]]. exists hd', id', w'.
           split; [apply halarm_irrel; [reflexivity|]; exact A|right; exact C].
      * intros hd' id' w' A C. apply halarm_irrel in A; [|reflexivity]. destruct C as [C|C].
        -- inversion C; subst hd'. assert (k' = k) by (eapply Hsame; eauto). subst k'.
           destruct ok eqn:Eo; [left; now left|].
           (* not pending although set: it has run or was removed before *)
           destruct (acalled_dec k (t_trace H s)) as [Cd|Cd]; [right; apply acalled_noncall; [exact I|exact Cd]|].
           destruct (aremoved_dec k (t_trace H s)) as [Rd|Rd]; [left; right; exact Rd|].
           exfalso. assert (Y : false = true) by (apply Hokp; exists w, id; repeat split; assumption). discriminate.
        -- destruct (JR2 _ _ _ A C) as [Y|Y]; [left; right; exact Y|right; apply acalled_noncall; [exact I|exact Y]].
    + intros h [X|X]; [inversion X; subst h|].
      * exists (TAlarm k id), w. apply hlater_irrel; [reflexivity|]. now apply halarm_later.
      * destruct (JK _ X) as [cb [w' Lt]]. exists cb, w'. apply hlater_irrel; [reflexivity|]. exact Lt.
    + intros fd. cbn [watched hreader]. apply JW.
    + apply IInv_irrel; auto.
    + split; [|exact JHi]. cbn. exact Hokp.
  - eapply (AJ_tcons _ s); try reflexivity; [repeat split|idtac|exact J]. cbn. split; [discriminate|].
    intros [d [i [X _]]]. exfalso. destruct J as [JH _ JA _ _ _ _ _ _]. apply JA in X. destruct X as [hd X].
    assert (lookup k (t_handles H s) = Some hd) by (apply JH; eauto). congruence.
Qed.

(* the table of pending alarms under alarm() and remove_alarm() *)
Lemma TJ_alarm : forall dt id s, host_ok (t_hlog H (top_alarm H hst dt id s)) -> AJ s -> TJ s -> TJ (top_alarm H hst dt id s).
Proof.
  intros dt id s Hok J [P W]. pose proof (AJ_alarm dt id s Hok J) as J'. unfold top_alarm in *.
  destruct (h_call_later hst (Z.max 0 dt) (TAlarm (t_nalarm H s) id) (th H s)) as [[h' hd] w] eqn:E.
  set (k := t_nalarm H s) in *.
  destruct J' as [_ _ _ JC' JR' _ _ _ [Hfresh _]]. cbn [t_trace] in *. cbn in Hfresh.
  constructor; cbn [t_pend t_trace t_live t_wtable t_wmax].
  - intros k'. cbn [zmem existsb]. rewrite orb_true_iff. unfold pending. split.
    + intros [X|X].
      * apply Z.eqb_eq in X. subst k'. exists w, id. split; [now left|split].
        -- intros [i' [t' [Y|Y]]]; [discriminate|]. destruct J as [JH JN JA JC JR _ _ _ _].
           assert (Yc : acalled k (t_trace H s)) by (now exists i', t'). apply JC in Yc. destruct Yc as [hd' [id' [w' [A _]]]].
           assert (lookup k (t_handles H s) = Some hd') by (apply JH; eauto). apply JN in H0. unfold k in H0. lia.
        -- intros [Y|Y]; [discriminate|]. destruct J as [JH JN JA JC JR _ _ _ _]. destruct (JR k) as [JR1 _].
           destruct (JR1 Y) as [hd' [id' [w' [A _]]]].
           assert (lookup k (t_handles H s) = Some hd') by (apply JH; eauto). apply JN in H0. unfold k in H0. lia.
      * apply P in X. destruct X as [d [i [X1 [X2 X3]]]]. exists d, i. split; [now right|split].
        -- intros [i' [t' [Y|Y]]]; [discriminate|]. apply X2. now exists i', t'.
        -- intros [Y|Y]; [discriminate|]. auto.
    + intros [d [i [[X|X] [X2 X3]]]].
      * inversion X; subst. left. apply Z.eqb_refl.
      * right. apply P. exists d, i. split; [exact X|split].
        -- intros [i' [t' Y]]. apply X2. exists i', t'. now right.
        -- intros Y. apply X3. now right.
  - apply WB_irrel; auto.
Qed.

Lemma TJ_remove_alarm : forall k s, TJ s -> TJ (top_remove_alarm H hst k s).
Proof.
  intros k s [P W]. unfold top_remove_alarm. destruct (lookup k (t_handles H s)) as [hd|].
  - constructor; cbn [t_pend t_trace t_live t_wtable t_wmax t_log t_with_pend t_host].
    + intros k'. rewrite zmem_zdel. destruct (zmem k (t_pend H s)) eqn:Em.
      * (* removed now *)
        rewrite P. unfold pending, aset, acalled, aremoved. cbn. split.
        -- intros [[d [i [X1 [X2 X3]]]] Hn]. exists d, i. split; [now right|split].
           ++ intros [i' [t' [Y|Y]]]; [discriminate|]. apply X2. now exists i', t'.
           ++ intros [Y|Y]; [inversion Y; congruence|auto].
        -- intros [d [i [[X|X] [X2 X3]]]]; [discriminate|]. split.
           ++ exists d, i. split; [exact X|split]; [intros [i' [t' Y]]; apply X2; exists i', t'; now right|intros Y; apply X3; now right].
           ++ intros ->. apply X3. now left.
      * (* it was not pending: nothing changes *)
        split.
        -- intros [X _]. apply P in X. destruct X as [d [i X]]. exists d, i. apply pending_irrel; auto.
        -- intros [d [i X]]. apply pending_irrel in X; [|reflexivity].
           assert (Y : zmem k' (t_pend H s) = true) by (apply P; eauto). split; [exact Y|]. intros ->. congruence.
    + apply WB_irrel; [now destruct (zmem k (t_pend H s))|exact W].
  - eapply (TJ_frame s _ [ERmAlarm k false]); try reflexivity; [repeat split; reflexivity| |constructor; assumption].
    intros e [<-|[]]. split; reflexivity.
Qed.

(* adding a log entry / an event that concern only the readers *)
Lemma AJ_reader_step : forall c e s s', same_core s s' -> t_trace H s' = e :: t_trace H s -> t_hlog H s' = c :: t_hlog H s ->
  l_irrel c = true -> c_irrel c = true -> f_irrel c = true ->
  a_irrel e = true -> i_irrel e = true -> taev_ok e (t_trace H s) ->
  (forall fd, watched fd (e :: t_trace H s) = hreader fd (c :: t_hlog H s)) -> AJ s -> AJ s'.
Proof.
  intros c e s s' [E1 [E2 [E3 E4]]] Et El Hl Hc Hf Ha Hi He Hw [JH JN JA JC JR JK JW JI JHi].
  constructor; rewrite ?E1, ?E2, ?E3, ?E4, ?Et, ?El; auto.
  - intros k hd. rewrite JH. split; intros [id [w X]]; exists id, w; [apply halarm_irrel|apply halarm_irrel in X]; auto.
  - intros k w id. rewrite aset_irrel by assumption. rewrite JA. split; intros [hd X]; exists hd; [apply halarm_irrel|apply halarm_irrel in X]; auto.
  - intros k. rewrite acalled_irrel by assumption. rewrite JC. split; intros [hd [id [w [A F]]]]; exists hd, id, w.
    + split; [apply halarm_irrel|apply hfired_irrel]; auto.
    + apply halarm_irrel in A; auto. apply hfired_irrel in F; auto.
  - intros k. destruct (JR k) as [JR1 JR2]. split.
    + intros X. apply aremoved_irrel in X; auto. destruct (JR1 X) as [hd [id [w [A F]]]]. exists hd, id, w.
      split; [apply halarm_irrel|apply hcancelled_irrel]; auto.
    + intros hd id w A F. apply halarm_irrel in A; auto. apply hcancelled_irrel in F; auto.
      destruct (JR2 _ _ _ A F); [left; apply aremoved_irrel; auto|right; apply acalled_irrel; auto].
  - intros h X. apply hcancelled_irrel in X; auto. destruct (JK _ X) as [cb [w L]]. exists cb, w. apply hlater_irrel; auto.
  - apply IInv_irrel; auto.
  - split; assumption.
Qed.

Lemma watched_dec : forall fd tr, watched fd tr = None \/ watched fd tr <> None.
Proof. intros. destruct (watched fd tr); [right; discriminate|now left]. Qed.

Lemma AJ_watch : forall fd id s, AJ s -> AJ (top_watch H hst fd id s).
Proof.
  intros fd id s J. unfold top_watch. destruct (mem fd (t_live H s)); [exact J|].
  eapply (AJ_reader_step (CAddReader fd id) (EWatchSet fd id) s); try reflexivity; try exact J;
    try exact I; try (repeat split; reflexivity).
  intros fd'. cbn [watched hreader]. destruct J as [_ _ _ _ _ _ JW _ _]. rewrite JW. reflexivity.
Qed.

Lemma AJ_remove_watch : forall fd s, host_ok (t_hlog H (top_remove_watch H hst fd s)) -> AJ s -> TJ s -> AJ (top_remove_watch H hst fd s).
Proof.
  intros fd s Hok J [_ [LK WK WBd WL WT]]. unfold top_remove_watch in *. pose proof (j_watch _ J) as JW.
  destruct (lookup fd (t_live H s)) as [h|] eqn:Ll.
  - rewrite (WT _ _ Ll) in *. revert Hok.
    destruct (h_remove_reader hst fd (th H s)) as [h' okh] eqn:E. intros Hok. cbn in Hok. destruct Hok as [Hq _].
    assert (Hw : watched fd (t_trace H s) <> None) by (apply WL; apply mem_true; eauto).
    assert (okh = true) by (apply Hq; rewrite <- JW; exact Hw). subst okh.
    eapply (AJ_reader_step (CRemoveReader fd true) (ERmWatch fd true) s); try reflexivity; try exact J;
      try (repeat split; reflexivity).
    + cbn. split; auto.
    + intros fd'. cbn [watched hreader]. rewrite JW. reflexivity.
  - eapply (AJ_tcons _ s); try reflexivity; try exact J; [repeat split; reflexivity|].
    cbn. split; [discriminate|]. intros X. exfalso. apply WL in X. apply mem_true in X. destruct X as [v X]. congruence.
Qed.

Lemma lookup_app_l : forall k v (a b : list (Z * Z)), lookup k a = Some v -> lookup k (a ++ b) = Some v.
Proof.
  induction a as [|[k0 v0] r IH]; cbn; intros b X; [discriminate|]. destruct (k0 =? k); [exact X|auto].
Qed.
Lemma lookup_app_r : forall k (a b : list (Z * Z)), ~ In k (map fst a) -> lookup k (a ++ b) = lookup k b.
Proof.
  induction a as [|[k0 v0] r IH]; cbn; intros b X; [reflexivity|].
  destruct (k0 =? k) eqn:E; [apply Z.eqb_eq in E; exfalso; apply X; now left|]. apply IH. intros Y. apply X. now right.
Qed.

Lemma TJ_watch : forall fd id s, TJ s -> TJ (top_watch H hst fd id s).
Proof.
  intros fd id s [P [LK WK WBd WL WT]]. unfold top_watch. destruct (mem fd (t_live H s)) eqn:M; [constructor; [exact P|constructor; assumption]|].
  set (h := t_wmax H s + 1).
  assert (Hnk : ~ In h (map fst (t_wtable H s))).
  { intros X. apply in_map_iff in X. destruct X as [[h0 f0] [X1 X2]]. cbn in X1. subst h0. apply WBd in X2. unfold h in X2. lia. }
  constructor; cbn [t_pend t_trace t_live t_wtable t_wmax t_log t_with_watch t_host].
  - intros k. rewrite P. split; intros [d [i X]]; exists d, i; [apply pending_irrel|apply pending_irrel in X]; auto.
  - constructor.
    + now apply keys_dict_set.
    + rewrite map_app. cbn. apply nodup_snoc; assumption.
    + intros h0 f0 X. apply in_app_iff in X. destruct X as [X|[X|[]]]; [apply WBd in X; unfold h; lia|inversion X; lia].
    + intros fd'. rewrite mem_true. cbn [watched]. split.
      * intros [v X]. rewrite lookup_dict_set in X. destruct (fd =? fd') eqn:E; [discriminate|].
        apply WL. apply mem_true. eauto.
      * intros X. rewrite lookup_dict_set. destruct (fd =? fd') eqn:E; [eauto|]. apply WL in X. apply mem_true in X. exact X.
    + intros fd' h' X. rewrite lookup_dict_set in X. destruct (fd =? fd') eqn:E.
      * inversion X; subst h'. apply Z.eqb_eq in E. subst fd'. rewrite lookup_app_r by assumption. cbn. now rewrite Z.eqb_refl.
      * apply lookup_app_l. now apply WT.
Qed.

Lemma TJ_remove_watch : forall fd s, TJ s -> TJ (top_remove_watch H hst fd s).
Proof.
  intros fd s [P [LK WK WBd WL WT]]. unfold top_remove_watch.
  destruct (lookup fd (t_live H s)) as [h|] eqn:Ll.
  - rewrite (WT _ _ Ll). destruct (h_remove_reader hst fd (th H s)) as [h' okh].
    constructor; cbn [t_pend t_trace t_live t_wtable t_wmax t_log t_with_watch t_host].
    + intros k. rewrite P. split; intros [d [i X]]; exists d, i; [apply pending_irrel|apply pending_irrel in X]; auto.
    + constructor.
      * now apply keys_dict_del.
      * now apply keys_dict_del.
      * intros h0 f0 X. apply dict_del_incl in X. eauto.
      * intros fd'. rewrite mem_true. cbn [watched]. split.
        -- intros [v X]. rewrite lookup_dict_del in X by assumption. destruct (fd =? fd') eqn:E; [discriminate|].
           apply WL. apply mem_true. eauto.
        -- intros X. rewrite lookup_dict_del by assumption. destruct (fd =? fd') eqn:E; [contradiction|].
           apply WL in X. apply mem_true in X. exact X.
      * intros fd' h0 X. rewrite lookup_dict_del in X by assumption. destruct (fd =? fd') eqn:E; [discriminate|].
        pose proof (WT _ _ X) as Y. rewrite lookup_dict_del by assumption. destruct (h =? h0) eqn:Eh; [|exact Y].
        apply Z.eqb_eq in Eh. subst h0. rewrite (WT _ _ Ll) in Y. inversion Y. subst fd'. rewrite Z.eqb_refl in E. discriminate.
  - eapply (TJ_frame s _ [ERmWatch fd false]); try reflexivity; [repeat split; reflexivity| |constructor; [exact P|constructor; assumption]].
    intros e [<-|[]]. split; reflexivity.
Qed.

Lemma AJ_idle : forall id s, AJ s -> AJ (top_idle H id s).
Proof.
  intros id s [JH JN JA JC JR JK JW [K I F] JHi]. unfold top_idle.
  assert (Hnew : forall i, ~ iset (t_idle_handle H s + 1) i (t_trace H s)) by (intros i X; apply F in X; lia).
  constructor; cbn [t_handles t_nalarm t_trace t_hlog t_idles t_idle_handle t_log t_with_idles]; auto.
  - intros k w i. rewrite aset_irrel by reflexivity. apply JA.
  - intros k. rewrite acalled_irrel by reflexivity. apply JC.
  - intros k. destruct (JR k) as [JR1 JR2]. split.
    + intros X. apply aremoved_irrel in X; auto.
    + intros hd0 id0 w0 A0 F0. destruct (JR2 _ _ _ A0 F0); [left; apply aremoved_irrel; auto|right; apply acalled_irrel; auto].
  - constructor.
    + rewrite map_app. cbn. apply nodup_snoc; auto. intros X. apply in_map_iff in X.
      destruct X as [[h v] [X1 X2]]. cbn in X1; subst. apply I in X2. destruct X2 as [X2 _]. eapply Hnew; eauto.
    + intros h i. rewrite in_app_iff. unfold iset, iremoved. cbn. split.
      * intros [X|[X|[]]].
        -- apply I in X. destruct X as [X1 X2]. split; [now right|]. intros [Y|Y]; [discriminate|auto].
        -- inversion X; subst. split; [now left|]. intros [Y|Y]; [discriminate|].
           clear - JHi Hnew Y. induction (t_trace H s) as [|e r IH]; [destruct Y|].
           destruct JHi as [He Hr]. destruct Y as [Y|Y].
           ++ subst. cbn in He. destruct He as [He _]. destruct (He eq_refl) as [[i' X] _]. eapply Hnew. right. exact X.
           ++ apply IH; auto. intros i' X. eapply Hnew. right. exact X.
      * intros [[X|X] Y].
        -- inversion X; subst. right. now left.
        -- left. apply I. split; [exact X|]. intros Z. apply Y. now right.
    + intros h i [X|X]; [inversion X; lia|]. apply F in X. lia.
  - split; [|exact JHi]. cbn. exact Hnew.
Qed.

Lemma AJ_remove_idle : forall h s, AJ s -> AJ (top_remove_idle H h s).
Proof.
  intros h s J. unfold top_remove_idle. destruct (mem h (t_idles H s)) eqn:E.
  - destruct J as [JH JN JA JC JR JK JW [K I F] JHi].
    apply mem_true in E. destruct E as [v E]. apply lookup_in in E.
    constructor; cbn [t_handles t_nalarm t_trace t_hlog t_idles t_idle_handle t_log t_with_idles]; auto.
    + intros k w i. rewrite aset_irrel by reflexivity. apply JA.
    + intros k. rewrite acalled_irrel by reflexivity. apply JC.
    + intros k. destruct (JR k) as [JR1 JR2]. split.
      * intros X. apply aremoved_irrel in X; auto.
      * intros hd0 id0 w0 A0 F0. destruct (JR2 _ _ _ A0 F0); [left; apply aremoved_irrel; auto|right; apply acalled_irrel; auto].
    + constructor.
      * now apply keys_dict_del.
      * intros h' i. rewrite in_dict_del by assumption. rewrite I. unfold iset, iremoved. cbn. split.
        -- intros [[X1 X2] Hn]. split; [now right|]. intros [Y|Y]; [inversion Y; congruence|auto].
        -- intros [[X|X] Y]; [discriminate|]. split; [split; [exact X|]|].
           ++ intros Z. apply Y. now right.
           ++ intros ->. apply Y. now left.
      * intros h' i [X|X]; [discriminate|]. eauto.
    + split; [|exact JHi]. cbn. split; auto. intros _. apply I in E. destruct E; split; eauto.
  - apply mem_false in E.
    eapply (AJ_tcons _ s); try reflexivity; [repeat split| |exact J].
    cbn. split; [discriminate|]. intros [[i X] Y]. exfalso.
    eapply lookup_none_notin; [exact E|]. destruct J as [_ _ _ _ _ _ _ [K I F] _]. apply I. split; eauto.
Qed.

(* ---------- running callback scripts ---------- *)
Definition h_act (c : hcall) : bool := match c with CNext _ _ | CStop => false | _ => true end.
Definition is_raise (e : event) : bool := match e with ERaise _ => true | _ => false end.

(* shape of what a script adds to the history, according to how it ended *)
Definition raise_shape (sig : signal) (nt : list event) : Prop :=
  match sig with
  | SCont => forall e, In e nt -> is_raise e = false
  | SExit => exists nt', nt = ERaise true :: nt' /\ forall e, In e nt' -> is_raise e = false
  | SOther => exists nt', nt = ERaise false :: nt' /\ forall e, In e nt' -> is_raise e = false
  end.

Definition act_ext (s s' : ast) (sig : signal) : Prop :=
  t_idleh H s' = t_idleh H s /\ t_exc H s' = t_exc H s /\
  exists nt nh, t_trace H s' = nt ++ t_trace H s /\ t_hlog H s' = nh ++ t_hlog H s /\
    (forall e, In e nt -> p_act e = true) /\ (forall c, In c nh -> h_act c = true) /\ raise_shape sig nt.

Ltac in_fin :=
  try (let x := fresh in let Hin := fresh in
       intros x Hin; cbn in Hin; repeat (destruct Hin as [<-|Hin]; [reflexivity|]); now destruct Hin).
Ltac ext_fin := cbn; repeat split; auto; in_fin.

Lemma act_ext_exec : forall a s s' sig, texec_action H hst a s = (s', sig) -> act_ext s s' sig.
Proof.
  intros a s s' sig E. unfold act_ext.
  destruct a; cbn in E; inversion E; subst; clear E.
  - split; [reflexivity|split; [reflexivity|]]. exists [], []. ext_fin.
  - unfold top_alarm. destruct (h_call_later hst (Z.max 0 dt) (TAlarm (t_nalarm H s) id) (th H s)) as [[h' hd] w].
    split; [reflexivity|split; [reflexivity|]]. eexists [_], [_]. ext_fin.
  - unfold top_remove_alarm. destruct (lookup h (t_handles H s)).
    + split; [reflexivity|split; [reflexivity|]]. eexists [_], [_]. ext_fin.
    + split; [reflexivity|split; [reflexivity|]]. eexists [_], []. ext_fin.
  - unfold top_watch. destruct (mem fd (t_live H s)).
    + split; [reflexivity|split; [reflexivity|]]. exists [], []. ext_fin.
    + split; [reflexivity|split; [reflexivity|]]. eexists [_], [_]. ext_fin.
  - unfold top_remove_watch. destruct (lookup fd (t_live H s)) as [hw|].
    + destruct (lookup hw (t_wtable H s)) as [fd'|].
      * destruct (h_remove_reader hst fd' (th H s)) as [h' ok].
        split; [reflexivity|split; [reflexivity|]]. eexists [_], [_]. ext_fin.
      * split; [reflexivity|split; [reflexivity|]]. eexists [_], []. ext_fin.
    + split; [reflexivity|split; [reflexivity|]]. eexists [_], []. ext_fin.
  - split; [reflexivity|split; [reflexivity|]]. eexists [_], []. ext_fin.
  - unfold top_remove_idle. destruct (mem h (t_idles H s));
      (split; [reflexivity|split; [reflexivity|]]; eexists [_], []; ext_fin).
  - split; [reflexivity|split; [reflexivity|]]. eexists [], [_]. ext_fin.
  - split; [reflexivity|split; [reflexivity|]]. eexists [_], []. ext_fin. exists []. split; [reflexivity|intros ? []].
  - split; [reflexivity|split; [reflexivity|]]. eexists [_], []. ext_fin. exists []. split; [reflexivity|intros ? []].
Qed.

Lemma raise_shape_app : forall sig nt1 nt2, raise_shape SCont nt1 -> raise_shape sig nt2 -> raise_shape sig (nt2 ++ nt1).
Proof.
  intros sig nt1 nt2 H1 H2. destruct sig; cbn in *.
  - intros e X. apply in_app_iff in X. destruct X; auto.
  - destruct H2 as [nt' [-> Hn]]. exists (nt' ++ nt1). split; [reflexivity|]. intros e X. apply in_app_iff in X. destruct X; auto.
  - destruct H2 as [nt' [-> Hn]]. exists (nt' ++ nt1). split; [reflexivity|]. intros e X. apply in_app_iff in X. destruct X; auto.
Qed.

Lemma act_ext_trans : forall s s1 s' sig, act_ext s s1 SCont -> act_ext s1 s' sig -> act_ext s s' sig.
Proof.
  intros s s1 s' sig [I1 [X1 [nt1 [nh1 [T1 [L1 [P1 [Q1 R1]]]]]]]] [I2 [X2 [nt2 [nh2 [T2 [L2 [P2 [Q2 R2]]]]]]]].
  split; [congruence|split; [congruence|]]. exists (nt2 ++ nt1), (nh2 ++ nh1).
  split; [rewrite T2, T1; now rewrite app_assoc|split; [rewrite L2, L1; now rewrite app_assoc|]].
  split; [intros e X; apply in_app_iff in X; destruct X; auto|split; [intros c X; apply in_app_iff in X; destruct X; auto|]].
  now apply raise_shape_app.
Qed.

Lemma act_ext_refl : forall s, act_ext s s SCont.
Proof. intros s. split; [reflexivity|split; [reflexivity|]]. exists [], []. ext_fin. Qed.

Lemma act_ext_actions : forall acts s s' sig, trun_actions H hst acts s = (s', sig) -> act_ext s s' sig.
Proof.
  induction acts as [|a r IH]; cbn; intros s s' sig E.
  - inversion E; subst. apply act_ext_refl.
  - destruct (texec_action H hst a s) as [s1 sg] eqn:E1. pose proof (act_ext_exec _ _ _ _ E1) as X1.
    destruct sg; [|inversion E; subst; exact X1|inversion E; subst; exact X1].
    eapply act_ext_trans; eauto.
Qed.

Lemma act_ext_hlog : forall s s' sig, act_ext s s' sig -> exists nh, t_hlog H s' = nh ++ t_hlog H s.
Proof. intros s s' sig [_ [_ [nt [nh [_ [L _]]]]]]. eauto. Qed.

Lemma AJ_exec : forall a s s' sig, texec_action H hst a s = (s', sig) -> host_ok (t_hlog H s') -> AJ s -> TJ s -> AJ s' /\ TJ s'.
Proof.
  intros a s s' sig E Hok J T. destruct a; cbn in E; inversion E; subst; clear E; auto.
  - split; [now apply AJ_alarm|now apply TJ_alarm].
  - split; [now apply AJ_remove_alarm|now apply TJ_remove_alarm].
  - split; [now apply AJ_watch|now apply TJ_watch].
  - split; [now apply AJ_remove_watch|now apply TJ_remove_watch].
  - split; [now apply AJ_idle|]. eapply (TJ_frame s _ [EIdleSet (t_idle_handle H s + 1) id]); try reflexivity; try exact T; [repeat split; reflexivity|].
    intros e [<-|[]]. split; reflexivity.
  - split; [now apply AJ_remove_idle|]. unfold top_remove_idle. destruct (mem h (t_idles H s)).
    + eapply (TJ_frame s _ [ERmIdle h true]); try reflexivity; try exact T; [repeat split; reflexivity|]. intros e [<-|[]]. split; reflexivity.
    + eapply (TJ_frame s _ [ERmIdle h false]); try reflexivity; try exact T; [repeat split; reflexivity|]. intros e [<-|[]]. split; reflexivity.
  - split; [eapply (AJ_hcons (CSleep (Z.max 0 d)) s); try reflexivity; try exact J; repeat split; reflexivity|].
    eapply (TJ_frame s _ []); try reflexivity; try exact T; [repeat split; reflexivity|intros e []].
  - split; [eapply (AJ_tcons (ERaise true) s); try reflexivity; try exact J; try exact I; repeat split; reflexivity|].
    eapply (TJ_frame s _ [ERaise true]); try reflexivity; try exact T; [repeat split; reflexivity|]. intros e [<-|[]]. split; reflexivity.
  - split; [eapply (AJ_tcons (ERaise false) s); try reflexivity; try exact J; try exact I; repeat split; reflexivity|].
    eapply (TJ_frame s _ [ERaise false]); try reflexivity; try exact T; [repeat split; reflexivity|]. intros e [<-|[]]. split; reflexivity.
Qed.

Lemma AJ_actions : forall acts s s' sig, trun_actions H hst acts s = (s', sig) -> host_ok (t_hlog H s') -> AJ s -> TJ s -> AJ s' /\ TJ s'.
Proof.
  induction acts as [|a r IH]; cbn; intros s s' sig E Hok J T.
  - inversion E; subst. auto.
  - destruct (texec_action H hst a s) as [s1 sg] eqn:E1.
    destruct sg; [|inversion E; subst; eapply AJ_exec; eauto|inversion E; subst; eapply AJ_exec; eauto].
    destruct (act_ext_hlog _ _ _ (act_ext_actions _ _ _ _ E)) as [nh L].
    destruct (AJ_exec _ _ _ _ E1) as [J1 T1]; auto. { rewrite L in Hok. eapply host_ok_app; eauto. }
    eapply IH; eauto.
Qed.

Lemma halarm_mono : forall n hl k id hd w, halarm k id hd w hl -> halarm k id hd w (n ++ hl).
Proof. intros n hl k id hd w [t [d X]]. exists t, d. apply in_app_iff. now right. Qed.

(* scripts cancel alarm handles only *)
Definition cancel_src (s s' : ast) : Prop :=
  forall h, hcancelled h (t_hlog H s') -> hcancelled h (t_hlog H s) \/ exists k id w, halarm k id h w (t_hlog H s').

Lemma cancel_src_exec : forall a s s' sig, texec_action H hst a s = (s', sig) -> AJ s -> cancel_src s s'.
Proof.
  intros a s s' sig E J h X. unfold hcancelled in *.
  destruct a; cbn in E; inversion E; subst; clear E; cbn in X; auto.
  - unfold top_alarm in X. destruct (h_call_later hst (Z.max 0 dt) (TAlarm (t_nalarm H s) id) (th H s)) as [[h' hd] w]. cbn in X.
    destruct X as [X|X]; [discriminate|auto].
  - unfold top_remove_alarm in *. destruct (lookup h0 (t_handles H s)) as [hd|] eqn:Lk; cbn in X; [|auto].
    destruct X as [X|X]; [|auto]. inversion X; subst h.
    destruct (proj1 (j_handles _ J h0 hd) Lk) as [id [w A]]. right. exists h0, id, w. cbn.
    apply (halarm_mono [_]). exact A.
  - unfold top_watch in X. destruct (mem fd (t_live H s)); cbn in X; [auto|]. destruct X as [X|X]; [discriminate|auto].
  - unfold top_remove_watch in X. destruct (lookup fd (t_live H s)) as [hw|]; [|cbn in X; auto].
    destruct (lookup hw (t_wtable H s)) as [fd'|]; [|cbn in X; auto].
    destruct (h_remove_reader hst fd' (th H s)) as [h' ok]. cbn in X. destruct X as [X|X]; [discriminate|auto].
  - unfold top_remove_idle in X. destruct (mem h0 (t_idles H s)); cbn in X; auto.
  - destruct X as [X|X]; [discriminate|auto].
Qed.

Lemma cancel_src_actions : forall acts s s' sig, trun_actions H hst acts s = (s', sig) -> host_ok (t_hlog H s') -> AJ s -> TJ s -> cancel_src s s'.
Proof.
  induction acts as [|a r IH]; cbn; intros s s' sig E Hok J T.
  - inversion E; subst. intros h X. now left.
  - destruct (texec_action H hst a s) as [s1 sg] eqn:E1.
    destruct sg; [|inversion E; subst; eapply cancel_src_exec; eauto|inversion E; subst; eapply cancel_src_exec; eauto].
    destruct (act_ext_hlog _ _ _ (act_ext_actions _ _ _ _ E)) as [nh L].
    destruct (AJ_exec _ _ _ _ E1) as [J1 T1]; auto. { rewrite L in Hok. eapply host_ok_app; eauto. }
    intros h X. destruct (IH _ _ _ E Hok J1 T1 h X) as [Y|Y]; [|now right].
    destruct (cancel_src_exec _ _ _ _ E1 J h Y) as [Z|[k [id [w Z]]]]; [now left|].
    right. exists k, id, w. rewrite L. now apply halarm_mono.
Qed.

(* ---------- callbacks ---------- *)
(* generic shape of an extension: the events satisfy P, the host calls are script calls *)
Definition gen_ext (P : event -> bool) (s s' : ast) (sig : signal) : Prop :=
  t_idleh H s' = t_idleh H s /\ t_exc H s' = t_exc H s /\
  exists nt nh, t_trace H s' = nt ++ t_trace H s /\ t_hlog H s' = nh ++ t_hlog H s /\
    (forall e, In e nt -> P e = true) /\ (forall c, In c nh -> h_act c = true) /\ raise_shape sig nt.

Lemma act_gen : forall (P : event -> bool) s s' sig, (forall e, p_act e = true -> P e = true) -> act_ext s s' sig -> gen_ext P s s' sig.
Proof.
  intros P s s' sig HP [I1 [X1 [nt [nh [T [L [Pn [Q R]]]]]]]]. split; [exact I1|split; [exact X1|]].
  exists nt, nh. repeat split; auto.
Qed.

Lemma gen_ext_trans : forall P s s1 s' sig, (forall e, P e = true -> is_raise e = false \/ True) ->
  gen_ext P s s1 SCont -> gen_ext P s1 s' sig -> gen_ext P s s' sig.
Proof.
  intros P s s1 s' sig _ [I1 [X1 [nt1 [nh1 [T1 [L1 [P1 [Q1 R1]]]]]]]] [I2 [X2 [nt2 [nh2 [T2 [L2 [P2 [Q2 R2]]]]]]]].
  split; [congruence|split; [congruence|]]. exists (nt2 ++ nt1), (nh2 ++ nh1).
  split; [rewrite T2, T1; now rewrite app_assoc|split; [rewrite L2, L1; now rewrite app_assoc|]].
  split; [intros e X; apply in_app_iff in X; destruct X; auto|split; [intros c X; apply in_app_iff in X; destruct X; auto|]].
  now apply raise_shape_app.
Qed.

Lemma gen_ext_hlog : forall P s s' sig, gen_ext P s s' sig -> exists nh, t_hlog H s' = nh ++ t_hlog H s.
Proof. intros P s s' sig [_ [_ [nt [nh [_ [L _]]]]]]. eauto. Qed.

(* a callback: its call event e (not a raise), then its script *)
Lemma cb_gen : forall (P : event -> bool) beh e id s s' sig, P e = true -> is_raise e = false ->
  (forall x, p_act x = true -> P x = true) ->
  trun_cb H hst beh e id s = (s', sig) -> gen_ext P s s' sig /\ exists nt, t_trace H s' = nt ++ t_trace H s /\ In e nt.
Proof.
  intros P beh e id s s' sig He Hr HP E. unfold trun_cb in E.
  destruct (act_ext_actions _ _ _ _ E) as [I1 [X1 [nt [nh [T [L [Pn [Q R]]]]]]]]. cbn in I1, X1, T, L. split.
  - split; [exact I1|split; [exact X1|]]. exists (nt ++ [e]), nh.
    split; [rewrite T; now rewrite <- app_assoc|split; [exact L|]].
    split; [intros x X; apply in_app_iff in X; destruct X as [X|[<-|[]]]; auto|split; [exact Q|]].
    apply (raise_shape_app sig [e] nt); [|exact R]. intros x [<-|[]]. exact Hr.
  - exists (nt ++ [e]). split; [rewrite T; now rewrite <- app_assoc|]. apply in_app_iff. right. now left.
Qed.

Lemma AJ_cb : forall beh e id s s' sig, trun_cb H hst beh e id s = (s', sig) -> host_ok (t_hlog H s') ->
  AJ (t_log H e s) -> TJ (t_log H e s) -> AJ s' /\ TJ s' /\ cancel_src (t_log H e s) s'.
Proof.
  intros beh e id s s' sig E Hok J T. unfold trun_cb in E.
  destruct (AJ_actions _ _ _ _ E Hok J T) as [J' T']. split; [exact J'|split; [exact T'|eapply cancel_src_actions; eauto]].
Qed.

Lemma TJ_same : forall s s', same_tj s s' -> t_trace H s' = t_trace H s -> TJ s -> TJ s'.
Proof. intros s s' E Et T. eapply (TJ_frame s s' []); [exact E|exact Et|intros e []|exact T]. Qed.

(* logging an event that concerns neither alarms nor watches *)
Lemma TJ_log : forall e s, a_irrel e = true -> w_irrel e = true -> TJ s -> TJ (t_log H e s).
Proof.
  intros e s Ha Hw T. eapply (TJ_frame s _ [e]); try reflexivity; try exact T; [repeat split; reflexivity|].
  intros x [<-|[]]. auto.
Qed.

(* the idle timer stays pending while scripts run *)
Lemma idle_pending_kept : forall s s' hd w nh, host_ok (t_hlog H s') -> t_hlog H s' = nh ++ t_hlog H s ->
  (forall c, In c nh -> h_act c = true) -> cancel_src s s' ->
  hpending hd TIdle w (t_hlog H s) -> hpending hd TIdle w (t_hlog H s').
Proof.
  intros s s' hd w nh Hok L Q CS [[t [d La]] [Nc Nf]]. split; [|split].
  - exists t, d. rewrite L. apply in_app_iff. now right.
  - intros X. destruct (CS _ X) as [Y|[k [id [w' A]]]]; [contradiction|].
    assert (Lt : hlater hd TIdle w (t_hlog H s')) by (exists t, d; rewrite L; apply in_app_iff; now right).
    destruct (hlater_unique _ _ _ _ _ _ Hok Lt (halarm_later _ _ _ _ _ A)) as [Ec _]. discriminate.
  - intros [t' [c X]]. rewrite L in X. apply in_app_iff in X. destruct X as [X|X].
    + apply Q in X. discriminate.
    + apply Nf. now exists t', c.
Qed.

Lemma stop_pending_app : forall nh hl, (forall c, In c nh -> h_act c = true) -> stop_pending (nh ++ hl) = stop_pending hl.
Proof.
  induction nh as [|c r IH]; intros hl Q; [reflexivity|]. cbn [app].
  rewrite stop_pending_irrel; [apply IH; intros; apply Q; now right|].
  assert (X : h_act c = true) by (apply Q; now left). destruct c; try reflexivity; discriminate.
Qed.

(* ---------- host decisions ---------- *)
Lemma halarm_cons_other : forall c hl k id hd w,
  match c with CLater _ _ (TAlarm _ _) _ _ => False | _ => True end ->
  (halarm k id hd w (c :: hl) <-> halarm k id hd w hl).
Proof.
  unfold halarm; intros c hl k id hd w Hc; split; intros [t [d X]]; exists t, d.
  - destruct X as [X|X]; [subst; contradiction|exact X]. - now right.
Qed.

(* the timer of alarm k fires: log entry + call event *)
Lemma AJ_timer_fire : forall h' t hd0 k id s,
  host_ok (CNext t (HTimer hd0 (TAlarm k id)) :: t_hlog H s) -> AJ s ->
  AJ (t_log H (EAlarmCall k id t) (t_host H h' (CNext t (HTimer hd0 (TAlarm k id))) s)).
Proof.
  intros h' t hd0 k id s Hok [JH JN JA JC JR JK JW JI JHi].
  destruct Hok as [[_ [w [[La [Nc Nf]] Hw]]] Hok].
  assert (Ak : halarm k id hd0 w (t_hlog H s)) by exact La.
  assert (Lk : lookup k (t_handles H s) = Some hd0) by (apply JH; eauto).
  assert (Hsame : forall k' id' w', halarm k' id' hd0 w' (t_hlog H s) -> k' = k).
  { intros k' id' w' X. destruct (halarm_same_handle _ _ _ _ _ _ _ _ Hok X Ak) as [E _]. exact E. }
  constructor; cbn [t_handles t_nalarm t_trace t_hlog t_idles t_idle_handle t_log t_host].
  - intros k' hd'. rewrite JH. split; intros [id' [w' X]]; exists id', w'; [apply halarm_irrel|apply halarm_irrel in X]; auto.
  - exact JN.
  - intros k' w' id'. rewrite aset_nonset by exact I. rewrite JA.
    split; intros [hd' X]; exists hd'; [apply halarm_irrel|apply halarm_irrel in X]; auto.
  - intros k'. split.
    + intros [id' [t' [X|X]]].
      * inversion X; subst. eexists hd0, _, w. split; [apply halarm_irrel; [reflexivity|exact Ak]|]. eexists _, _. left. reflexivity.
      * destruct (proj1 (JC k') (ex_intro _ id' (ex_intro _ t' X))) as [hd' [i' [w' [A [t2 [c2 F]]]]]].
        exists hd', i', w'. split; [apply halarm_irrel; auto|]. exists t2, c2. now right.
    + intros [hd' [id' [w' [A [t2 [c2 F]]]]]]. apply halarm_irrel in A; [|reflexivity]. destruct F as [F|F].
      * inversion F as [[Ft Fh]]. subst hd'. assert (k' = k) by (eapply Hsame; eauto). subst k'. eexists _, _. left. reflexivity.
      * assert (Y : acalled k' (t_trace H s)) by (apply JC; exists hd', id', w'; split; [exact A|now exists t2, c2]).
        destruct Y as [i2 [t3 Y]]. exists i2, t3. now right.
  - intros k'. destruct (JR k') as [JR1 JR2]. split.
    + intros X. apply aremoved_nonrm in X; [|exact I]. destruct (JR1 X) as [hd' [id' [w' [A F]]]]. exists hd', id', w'.
      split; [apply halarm_irrel|apply hcancelled_irrel]; auto.
    + intros hd' id' w' A F. apply halarm_irrel in A; auto. apply hcancelled_irrel in F; auto.
      destruct (JR2 _ _ _ A F) as [Y|[i2 [t3 Y]]]; [left; apply aremoved_nonrm; [exact I|exact Y]|right; exists i2, t3; now right].
  - intros h X. apply hcancelled_irrel in X; [|reflexivity]. destruct (JK _ X) as [cb [w' L]]. exists cb, w'. apply hlater_irrel; auto.
  - intros fd. cbn [watched hreader]. apply JW.
  - apply IInv_irrel; auto.
  - split; [|exact JHi]. cbn. exists w. split; [|exact Hw]. split; [apply JA; eauto|split].
    + intros C. apply JC in C. destruct C as [hd' [i' [w' [A F]]]].
      assert (lookup k (t_handles H s) = Some hd') by (apply JH; eauto). assert (hd' = hd0) by congruence. subst hd'. contradiction.
    + intros C. destruct (JR k) as [JR1 _]. apply JR1 in C. destruct C as [hd' [i' [w' [A F]]]].
      assert (lookup k (t_handles H s) = Some hd') by (apply JH; eauto). assert (hd' = hd0) by congruence. subst hd'. contradiction.
Qed.

(* a host-log entry about an idle timer (created / fired / cancelled): alarms are not concerned *)
Lemma AJ_idle_timer_entry : forall c hd w s s', same_core s s' -> t_trace H s' = t_trace H s -> t_hlog H s' = c :: t_hlog H s ->
  host_ok (t_hlog H s') ->
  (c = CCancel hd \/ (exists t, c = CNext t (HTimer hd TIdle)) \/ (exists t d, c = CLater t d TIdle hd w)) ->
  hlater hd TIdle w (t_hlog H s') -> AJ s -> AJ s'.
Proof.
  intros c hd w s s' [E1 [E2 [E3 E4]]] Et El Hok Hc Lt [JH JN JA JC JR JK JW JI JHi].
  assert (Hal : forall k id h w', halarm k id h w' (c :: t_hlog H s) <-> halarm k id h w' (t_hlog H s)).
  { intros. apply halarm_cons_other. destruct Hc as [->|[[t ->]|[t [d ->]]]]; exact I. }
  assert (Hna : forall k id w', ~ halarm k id hd w' (c :: t_hlog H s)).
  { intros k id w' A. rewrite <- El in A. destruct (hlater_unique _ _ _ _ _ _ Hok Lt (halarm_later _ _ _ _ _ A)) as [X _]. discriminate. }
  assert (Hr : forall fd, hreader fd (c :: t_hlog H s) = hreader fd (t_hlog H s)).
  { intros. apply hreader_irrel. destruct Hc as [->|[[t ->]|[t [d ->]]]]; reflexivity. }
  constructor; rewrite ?E1, ?E2, ?E3, ?E4, ?Et, ?El; auto.
  - intros k h. rewrite JH. split; intros [id [w' X]]; exists id, w'; apply Hal; exact X.
  - intros k w' id. rewrite JA. split; intros [h X]; exists h; apply Hal; exact X.
  - intros k. rewrite JC. split; intros [h [id [w' [A [t2 [c2 F]]]]]]; exists h, id, w'.
    + split; [apply Hal; exact A|exists t2, c2; now right].
    + split; [apply Hal; exact A|]. destruct F as [F|F]; [|now exists t2, c2].
      exfalso. destruct Hc as [->|[[t ->]|[t [d ->]]]]; try discriminate. inversion F; subst. eapply Hna; eauto.
  - intros k. destruct (JR k) as [JR1 JR2]. split.
    + intros X. destruct (JR1 X) as [h [id [w' [A F]]]]. exists h, id, w'. split; [apply Hal; exact A|now right].
    + intros h id w' A F. destruct F as [F|F]; [|apply (JR2 h id w'); [apply Hal; exact A|exact F]].
      exfalso. destruct Hc as [->|[[t ->]|[t [d ->]]]]; try discriminate. inversion F; subst. eapply Hna; eauto.
  - intros h [X|X].
    + destruct Hc as [->|[[t ->]|[t [d ->]]]]; try discriminate. inversion X; subst. exists TIdle, w. rewrite <- El. exact Lt.
    + destruct (JK _ X) as [cb [w' [t [d L]]]]. exists cb, w', t, d. now right.
  - intros fd. rewrite Hr. apply JW.
Qed.

Lemma cancel_src_refl : forall s, cancel_src s s.
Proof. intros s h X. now left. Qed.

Lemma cancel_src_trans : forall s s1 s' nh, t_hlog H s' = nh ++ t_hlog H s1 -> cancel_src s s1 -> cancel_src s1 s' -> cancel_src s s'.
Proof.
  intros s s1 s' nh L C1 C2 h X. destruct (C2 h X) as [Y|Y]; [|now right].
  destruct (C1 h Y) as [Z|[k [id [w Z]]]]; [now left|]. right. exists k, id, w. rewrite L. now apply halarm_mono.
Qed.

Lemma cancel_src_log : forall e s, cancel_src s (t_log H e s).
Proof. intros e s h X. now left. Qed.


(* ---------- _entering_idle ---------- *)
Lemma aidle_gen : forall beh snap s s' sig, tidle_round H hst beh snap s = (s', sig) -> gen_ext p_idle s s' sig.
Proof.
  induction snap as [|[h id] r IH]; intros s s' sig E; cbn in E.
  - inversion E; subst. apply (act_gen p_idle); [apply p_act_idle|apply act_ext_refl].
  - destruct (mem h (t_idles H s)); [|eauto].
    destruct (trun_cb H hst beh (EIdleCall h id (h_time hst (th H s))) id s) as [s1 sg] eqn:C.
    destruct (cb_gen p_idle _ _ _ _ _ _ (eq_refl : p_idle (EIdleCall h id (h_time hst (th H s))) = true) eq_refl p_act_idle C) as [G1 _].
    destruct sg; [|inversion E; subst; exact G1|inversion E; subst; exact G1].
    eapply gen_ext_trans; [intros; now right|exact G1|eauto].
Qed.

Lemma aidle_round_spec : forall beh snap s s' sig,
  tidle_round H hst beh snap s = (s', sig) -> host_ok (t_hlog H s') -> AJ s -> TJ s ->
  (forall h id, In (h, id) snap -> iset h id (t_trace H s)) ->
  AJ s' /\ TJ s' /\ cancel_src s s' /\
  (sig = SCont -> forall h id, In (h, id) snap -> ~ iremoved h (t_trace H s') ->
     exists nt t, t_trace H s' = nt ++ t_trace H s /\ In (EIdleCall h id t) nt).
Proof.
  induction snap as [|[h id] r IH]; intros s s' sig E Hok J T Hset; cbn in E.
  - inversion E; subst. split; [exact J|split; [exact T|split; [apply cancel_src_refl|]]]. intros _ h id [].
  - destruct (mem h (t_idles H s)) eqn:M.
    + destruct (trun_cb H hst beh (EIdleCall h id (h_time hst (th H s))) id s) as [s1 sg] eqn:C.
      destruct (cb_gen p_idle _ _ _ _ _ _ (eq_refl : p_idle (EIdleCall h id (h_time hst (th H s))) = true) eq_refl p_act_idle C) as [G1 [nt1 [T1 In1]]].
      assert (J0 : AJ (t_log H (EIdleCall h id (h_time hst (th H s))) s)).
      { assert (Hin : In (h, id) (t_idles H s)).
        { destruct J as [_ _ _ _ _ _ _ [K I F] Hh]. apply mem_true in M. destruct M as [v M]. apply lookup_in in M.
          pose proof (proj1 (I _ _) M) as [Y _]. assert (Hs : iset h id (t_trace H s)) by (apply Hset; now left).
          assert (v = id).
          { clear - Hh Y Hs. unfold iset in *. induction (t_trace H s) as [|e tr IHt]; [destruct Y|]. destruct Hh as [He Hr].
            destruct Y as [Y|Y]; destruct Hs as [Z|Z].
            - subst. now inversion Z.
            - subst. cbn in He. exfalso. eapply He; eauto.
            - subst. cbn in He. exfalso. eapply He; eauto.
            - auto. }
          now subst. }
        eapply (AJ_tcons _ s); try reflexivity; try exact J; [repeat split; reflexivity|].
        cbn. destruct J as [_ _ _ _ _ _ _ [K I F] _]. now apply I. }
      assert (T0 : TJ (t_log H (EIdleCall h id (h_time hst (th H s))) s)) by (apply TJ_log; auto).
      destruct (gen_ext_hlog _ _ _ _ G1) as [nh1 L1].
      destruct sg.
      * pose proof (aidle_gen _ _ _ _ _ E) as G2. destruct (gen_ext_hlog _ _ _ _ G2) as [nh2 L2].
        assert (Hok1 : host_ok (t_hlog H s1)) by (rewrite L2 in Hok; eapply host_ok_app; eauto).
        destruct (AJ_cb _ _ _ _ _ _ C Hok1 J0 T0) as [J1 [TT1 CS1]].
        destruct (IH s1 s' sig E Hok J1 TT1) as [J' [T' [CS2 C2]]].
        { intros h' id' X. unfold iset. rewrite T1. apply in_app_iff. right. apply Hset. now right. }
        split; [exact J'|split; [exact T'|split]].
        -- eapply cancel_src_trans; [exact L2| |exact CS2]. intros h0 X. destruct (CS1 h0 X) as [Y|Y]; [left; exact Y|now right].
        -- intros Hs h' id' [X|X] Hr.
           ++ inversion X; subst h' id'. destruct G2 as [_ [_ [nt2 [nh2' [T2 _]]]]].
              exists (nt2 ++ nt1), (h_time hst (th H s)). split; [rewrite T2, T1; now rewrite app_assoc|].
              apply in_app_iff. right. exact In1.
           ++ destruct (C2 Hs h' id' X Hr) as [nt2 [t [T2 Y]]]. exists (nt2 ++ nt1), t. split; [rewrite T2, T1; now rewrite app_assoc|].
              apply in_app_iff. now left.
      * inversion E; subst s' sig. destruct (AJ_cb _ _ _ _ _ _ C Hok J0 T0) as [J1 [TT1 CS1]].
        split; [exact J1|split; [exact TT1|split; [|discriminate]]]. intros h0 X. destruct (CS1 h0 X) as [Y|Y]; [left; exact Y|now right].
      * inversion E; subst s' sig. destruct (AJ_cb _ _ _ _ _ _ C Hok J0 T0) as [J1 [TT1 CS1]].
        split; [exact J1|split; [exact TT1|split; [|discriminate]]]. intros h0 X. destruct (CS1 h0 X) as [Y|Y]; [left; exact Y|now right].
    + destruct (IH s s' sig E Hok J T) as [J' [T' [CS2 C2]]]; [intros; apply Hset; now right|].
      split; [exact J'|split; [exact T'|split; [exact CS2|]]].
      intros Hs h' id' [X|X] Hr; [|eauto]. inversion X; subst h' id'. exfalso.
      apply mem_false in M. eapply lookup_none_notin; [exact M|]. destruct J as [_ _ _ _ _ _ _ [K I F] _]. apply I. split.
      * apply Hset. now left.
      * intros Y. apply Hr. destruct (aidle_gen _ _ _ _ _ E) as [_ [_ [nt [nh [Tt _]]]]]. unfold iremoved. rewrite Tt. apply in_app_iff. now right.
Qed.


(* ---------- between two host decisions ---------- *)
(* the idle timer was created with delay 0 *)
Definition idle0 (hd w : Z) (hl : list hcall) : Prop := exists t, In (CLater t 0 TIdle hd w) hl.
Lemma idle0_mono : forall n hl hd w, idle0 hd w hl -> idle0 hd w (n ++ hl).
Proof. intros n hl hd w [t X]. exists t. apply in_app_iff. now right. Qed.

Definition idle_ok (s : ast) : Prop :=
  match t_idleh H s with
  | Some hd => exists w, hpending hd TIdle w (t_hlog H s) /\ idle0 hd w (t_hlog H s)
  | None => idle_done_a (t_trace H s) \/ stop_pending (t_hlog H s) = true
  end.
Definition raise_ok (s : ast) : Prop :=
  ((exists b, In (ERaise b) (t_trace H s)) <-> stop_pending (t_hlog H s) = true) /\
  (t_exc H s = true <-> In (ERaise false) (t_trace H s)).
Definition DJ (s : ast) : Prop := AJ s /\ TJ s /\ idle_ok s /\ raise_ok s.

Lemma in_raise_nt : forall nt tr b, (forall e, In e nt -> is_raise e = false) -> (In (ERaise b) (nt ++ tr) <-> In (ERaise b) tr).
Proof.
  intros nt tr b Hn. rewrite in_app_iff. split; [intros [X|X]; [apply Hn in X; discriminate|exact X]|now right].
Qed.

(* the state reached when a handle's callback has run and Handle._run has called the exception handler *)
Lemma after_script : forall acts s2 s3 sig hd w,
  trun_actions H hst acts s2 = (s3, sig) -> host_ok (t_hlog H (thandle_exit H hst sig s3)) ->
  AJ s2 -> TJ s2 -> t_idleh H s2 = Some hd -> hpending hd TIdle w (t_hlog H s2) -> idle0 hd w (t_hlog H s2) -> raise_ok s2 ->
  DJ (thandle_exit H hst sig s3).
Proof.
  intros acts s2 s3 sig hd w E Hok J2 T2 Ih Hp Hz [R1 R2].
  destruct (act_ext_actions _ _ _ _ E) as [I3 [X3 [nt [nh [T [L [Pn [Q Rs]]]]]]]].
  rewrite Ih in I3.
  assert (Hok3 : host_ok (t_hlog H s3)).
  { destruct sig; unfold thandle_exit in Hok; cbn [t_idleh t_host t_with_exc] in Hok; [exact Hok| |]; rewrite I3 in Hok; cbn in Hok; apply Hok. }
  destruct (AJ_actions _ _ _ _ E Hok3 J2 T2) as [J3 T3].
  pose proof (cancel_src_actions _ _ _ _ E Hok3 J2 T2) as CS.
  pose proof (idle_pending_kept _ _ _ _ _ Hok3 L Q CS Hp) as Hp3.
  assert (SP : stop_pending (t_hlog H s3) = stop_pending (t_hlog H s2)) by (rewrite L; now apply stop_pending_app).
  destruct sig.
  - (* the callback returned *)
    cbn [thandle_exit]. split; [exact J3|split; [exact T3|split]].
    + unfold idle_ok. rewrite I3. exists w. split; [exact Hp3|]. rewrite L. now apply idle0_mono.
    + cbn in Rs. split.
      * rewrite SP, <- R1. rewrite T. split; intros [b X]; exists b; [exact (proj1 (in_raise_nt nt _ b Rs) X)|exact (proj2 (in_raise_nt nt _ b Rs) X)].
      * rewrite X3, R2, T. symmetry. now apply in_raise_nt.
  - (* ExitMainLoop *)
    unfold thandle_exit in *. cbn [t_idleh t_host t_with_exc] in *. rewrite I3 in *. cbn [t_idleh t_host t_with_idleh t_hlog th] in Hok.
    destruct Hok as [_ HokC].
    assert (JCn : AJ (t_host H (h_cancel hst hd (th H s3)) (CCancel hd) s3)).
    { eapply (AJ_idle_timer_entry (CCancel hd) hd w s3); try reflexivity; try exact J3; [repeat split; reflexivity|exact HokC|now left|].
      destruct Hp3 as [[t [d La]] _]. exists t, d. cbn. right. exact La. }
    set (sC := t_with_idleh H None (t_host H (h_cancel hst hd (th H s3)) (CCancel hd) s3)) in *.
    assert (JC' : AJ sC) by (destruct JCn as [a b c d e f g h i]; constructor; auto).
    destruct Rs as [nt' [-> Hn']].
    split; [|split; [|split]].
    + eapply (AJ_hcons CStop sC); try reflexivity; try exact JC'. repeat split; reflexivity.
    + eapply (TJ_same s3); try reflexivity; [repeat split; reflexivity|exact T3].
    + unfold idle_ok. cbn. now right.
    + split; cbn.
      * split; [reflexivity|]. intros _. exists true. rewrite T. now left.
      * rewrite X3, R2, T. cbn. split; [intros X; right; apply in_app_iff; now right|].
        intros [X|X]; [discriminate|]. apply in_app_iff in X. destruct X as [X|X]; [apply Hn' in X; discriminate|exact X].
  - (* another exception *)
    unfold thandle_exit in *. cbn [t_idleh t_host t_with_exc] in *. rewrite I3 in *. cbn [t_idleh t_host t_with_idleh t_with_exc t_hlog th] in Hok.
    destruct Hok as [_ HokC].
    assert (JCn : AJ (t_host H (h_cancel hst hd (th H s3)) (CCancel hd) s3)).
    { eapply (AJ_idle_timer_entry (CCancel hd) hd w s3); try reflexivity; try exact J3; [repeat split; reflexivity|exact HokC|now left|].
      destruct Hp3 as [[t [d La]] _]. exists t, d. cbn. right. exact La. }
    set (sC := t_with_idleh H None (t_host H (h_cancel hst hd (th H (t_with_exc H true s3))) (CCancel hd) (t_with_exc H true s3))) in *.
    assert (JC' : AJ sC) by (destruct JCn as [a b c d e f g h i]; constructor; auto).
    destruct Rs as [nt' [-> Hn']].
    split; [|split; [|split]].
    + eapply (AJ_hcons CStop sC); try reflexivity; try exact JC'. repeat split; reflexivity.
    + eapply (TJ_same s3); try reflexivity; [repeat split; reflexivity|exact T3].
    + unfold idle_ok. cbn. now right.
    + split; cbn.
      * split; [reflexivity|]. intros _. exists false. rewrite T. now left.
      * split; [intros _; rewrite T; now left|reflexivity].
Qed.


(* the _also_call_idle wrapper: afterwards an idle timer is pending *)
Lemma aci_spec : forall s, host_ok (t_hlog H (talso_call_idle H hst s)) -> AJ s ->
  (forall hd, t_idleh H s = Some hd -> exists w, hpending hd TIdle w (t_hlog H s) /\ idle0 hd w (t_hlog H s)) ->
  AJ (talso_call_idle H hst s) /\
  (exists hd w, t_idleh H (talso_call_idle H hst s) = Some hd /\ hpending hd TIdle w (t_hlog H (talso_call_idle H hst s)) /\
                idle0 hd w (t_hlog H (talso_call_idle H hst s))) /\
  t_trace H (talso_call_idle H hst s) = t_trace H s /\ t_exc H (talso_call_idle H hst s) = t_exc H s /\
  stop_pending (t_hlog H (talso_call_idle H hst s)) = stop_pending (t_hlog H s) /\
  (exists nh, t_hlog H (talso_call_idle H hst s) = nh ++ t_hlog H s).
Proof.
  intros s Hok J Hsome. unfold talso_call_idle in *. destruct (t_idleh H s) as [hd|] eqn:Ih.
  - destruct (Hsome hd eq_refl) as [w [Hp Hz]]. split; [exact J|split; [exists hd, w; auto|]].
    repeat split; auto. now exists [].
  - revert Hok. destruct (h_call_later hst 0 TIdle (th H s)) as [[h' hd] w] eqn:E. intros Hok.
    cbn [t_hlog t_host t_with_idleh] in Hok. pose proof Hok as Hok'. destruct Hok as [[_ [Fresh _]] Hok0].
    assert (Lt : hlater hd TIdle w (CLater (h_time hst (th H s)) 0 TIdle hd w :: t_hlog H s)) by (eexists _, _; now left).
    split; [|split; [|repeat split; auto; now exists [CLater (h_time hst (th H s)) 0 TIdle hd w]]].
    + assert (JJ : AJ (t_host H h' (CLater (h_time hst (th H s)) 0 TIdle hd w) s)).
      { eapply (AJ_idle_timer_entry _ hd w s); try reflexivity; try exact J; [repeat split; reflexivity|exact Hok'| |exact Lt].
        right; right. eauto. }
      destruct JJ as [a b c d e f g h i]. constructor; auto.
    + exists hd, w. split; [reflexivity|]. cbn [t_hlog t_host t_with_idleh]. split; [split; [exact Lt|split]|].
      * intros X. apply hcancelled_irrel in X; [|reflexivity]. destruct (j_ccreated _ J _ X) as [c [w' L]]. eapply Fresh; eauto.
      * intros X. apply hfired_irrel in X; [|reflexivity]. destruct (hfired_later _ _ Hok0 X) as [c [w' L]]. eapply Fresh; eauto.
      * exists (h_time hst (th H s)). now left.
Qed.

(* a handle that is not the pending idle timer fires or a reader runs: the idle timer stays pending *)
Lemma pending_after_next : forall hd w t ev hl, hpending hd TIdle w hl ->
  match ev with HTimer h _ => h <> hd | _ => True end ->
  hpending hd TIdle w (CNext t ev :: hl).
Proof.
  intros hd w t ev hl [[t0 [d La]] [Nc Nf]] Hev. split; [exists t0, d; now right|split].
  - intros X. apply hcancelled_irrel in X; [|reflexivity]. contradiction.
  - intros [t' [c [X|X]]]; [inversion X; subst; contradiction|]. apply Nf. now exists t', c.
Qed.

(* the timer of alarm k runs *)
Lemma AJ_same : forall s s', same_core s s' -> t_trace H s' = t_trace H s -> t_hlog H s' = t_hlog H s -> AJ s -> AJ s'.
Proof.
  intros s s' [E1 [E2 [E3 E4]]] Et El [a b c d e f g h i]. constructor; rewrite ?E1, ?E2, ?E3, ?E4, ?Et, ?El; auto.
Qed.

Lemma handler_hlog : forall sig s, exists nh, t_hlog H (thandle_exit H hst sig s) = nh ++ t_hlog H s.
Proof.
  intros sig s. destruct sig; unfold thandle_exit; cbn [t_idleh t_host t_with_exc]; [now exists []| |];
    destruct (t_idleh H s); cbn; [now exists [CStop; CCancel z]|now exists [CStop]|now exists [CStop; CCancel z]|now exists [CStop]].
Qed.

Lemma handler_ok : forall sig s, host_ok (t_hlog H (thandle_exit H hst sig s)) -> host_ok (t_hlog H s).
Proof. intros sig s Hok. destruct (handler_hlog sig s) as [nh L]. rewrite L in Hok. eapply host_ok_app; eauto. Qed.

(* the table of pending alarms when alarm k runs: del self._pending_alarms[handle] *)
Lemma TJ_fire : forall s k id t, TJ s -> TJ (t_log H (EAlarmCall k id t) (t_with_pend H (zdel k (t_pend H s)) s)).
Proof.
  intros s k id t [P W]. constructor; cbn [t_pend t_trace t_live t_wtable t_wmax t_log t_with_pend].
  - intros k'. rewrite zmem_zdel, P. unfold pending, aset, acalled, aremoved. cbn. split.
    + intros [[d [i [X1 [X2 X3]]]] Hn]. exists d, i. split; [now right|split].
      * intros [i' [t' [Y|Y]]]; [inversion Y; congruence|]. apply X2. now exists i', t'.
      * intros [Y|Y]; [discriminate|auto].
    + intros [d [i [[X|X] [X2 X3]]]]; [discriminate|]. split.
      * exists d, i. split; [exact X|split]; [intros [i' [t' Y]]; apply X2; exists i', t'; now right|intros Y; apply X3; now right].
      * intros ->. apply X2. exists id, t. now left.
  - apply WB_irrel; auto.
Qed.

Lemma step_alarm : forall beh h' t hd0 k id s,
  DJ s -> host_ok (t_hlog H (tdispatch H hst beh (HTimer hd0 (TAlarm k id)) (t_host H h' (CNext t (HTimer hd0 (TAlarm k id))) s))) ->
  h_time hst h' = t ->
  DJ (tdispatch H hst beh (HTimer hd0 (TAlarm k id)) (t_host H h' (CNext t (HTimer hd0 (TAlarm k id))) s)).
Proof.
  intros beh h' t hd0 k id s [J [T0 [IO [R1 R2]]]] Hok Et.
  set (s1 := t_host H h' (CNext t (HTimer hd0 (TAlarm k id))) s) in *.
  unfold tdispatch in *. cbn [th t_host] in *. fold s1 in Hok |- *.
  set (P := fun x : ast => t_with_pend H (zdel k (t_pend H x)) x) in *.
  change (t_with_pend H (zdel k (t_pend H (talso_call_idle H hst s1))) (talso_call_idle H hst s1)) with (P (talso_call_idle H hst s1)) in *.
  destruct (trun_cb H hst beh (EAlarmCall k id (h_time hst (th H s1))) id (P (talso_call_idle H hst s1))) as [s3 sig] eqn:C.
  assert (Et1 : h_time hst (th H s1) = t) by exact Et. rewrite Et1 in C.
  (* host log suffixes *)
  destruct (act_ext_hlog _ _ _ (act_ext_actions _ _ _ _ C)) as [nh3 L3]. cbn [t_hlog t_log t_with_pend P] in L3.
  assert (Hok3 : host_ok (t_hlog H s3)).
  { eapply handler_ok; eauto. }
  assert (HokA : host_ok (t_hlog H (talso_call_idle H hst s1))) by (rewrite L3 in Hok3; eapply host_ok_app; eauto).
  assert (Hok1 : host_ok (t_hlog H s1)).
  { unfold talso_call_idle in HokA. destruct (t_idleh H s1); [exact HokA|].
    destruct (h_call_later hst 0 TIdle (th H s1)) as [[h2 hd2] w2]. cbn in HokA. apply HokA. }
  pose proof Hok1 as Hok1'. cbn in Hok1'. destruct Hok1' as [[_ [w0 [[La0 _] _]]] Hok0].
  set (e := EAlarmCall k id t) in *.
  assert (J1 : AJ (t_log H e (P s1))).
  { eapply (AJ_same (t_log H e s1)); try reflexivity; [repeat split; reflexivity|]. apply AJ_timer_fire; assumption. }
  assert (T1 : TJ (t_log H e (P s1))).
  { unfold P. apply TJ_fire. eapply (TJ_same s); try reflexivity; [repeat split; reflexivity|exact T0]. }
  assert (Hsome : forall hd, t_idleh H (t_log H e (P s1)) = Some hd ->
            exists w, hpending hd TIdle w (t_hlog H (t_log H e (P s1))) /\ idle0 hd w (t_hlog H (t_log H e (P s1)))).
  { intros hd Ih. cbn in Ih. unfold idle_ok in IO. rewrite Ih in IO. destruct IO as [w [Hp Hz]]. exists w.
    cbn [t_hlog t_log t_host t_with_pend P s1]. split; [|apply (idle0_mono [_]); exact Hz]. apply pending_after_next; [exact Hp|].
    intros ->. destruct Hp as [Lt _]. destruct (hlater_unique _ _ _ _ _ _ Hok0 Lt La0) as [X _]. discriminate. }
  assert (Eq : talso_call_idle H hst (t_log H e (P s1)) = t_log H e (P (talso_call_idle H hst s1))).
  { unfold talso_call_idle, P. cbn [t_idleh t_log th t_with_pend]. destruct (t_idleh H s1); [reflexivity|].
    destruct (h_call_later hst 0 TIdle (th H s1)) as [[h2 hd2] w2]. reflexivity. }
  destruct (aci_spec (t_log H e (P s1))) as [J2 [[hdI [wI [IhI [HpI HzI]]]] [T2 [X2 [SP2 _]]]]]; auto.
  { rewrite Eq. exact HokA. }
  assert (TT2 : TJ (talso_call_idle H hst (t_log H e (P s1)))).
  { eapply (TJ_same (t_log H e (P s1))); [|exact T2|exact T1].
    unfold talso_call_idle. destruct (t_idleh H (t_log H e (P s1))); [repeat split; reflexivity|].
    destruct (h_call_later hst 0 TIdle (th H (t_log H e (P s1)))) as [[h2 hd2] w2]. repeat split; reflexivity. }
  rewrite Eq in *.
  unfold trun_cb in C.
  eapply (after_script _ _ _ _ hdI wI C); auto.
  split.
  - rewrite SP2. cbn [t_hlog t_log t_host t_with_pend P s1]. rewrite stop_pending_irrel by reflexivity. rewrite <- R1. rewrite T2. cbn [t_trace t_log t_host t_with_pend P s1].
    split; intros [b X]; exists b; [destruct X as [X|X]; [discriminate|exact X]|now right].
  - rewrite X2, T2. cbn [t_exc t_trace t_log t_host t_with_pend P s1]. rewrite R2. split; [now right|intros [X|X]; [discriminate|exact X]].
Qed.


(* the reader of fd runs *)
Lemma step_reader : forall beh h' t fd id s,
  DJ s -> host_ok (t_hlog H (tdispatch H hst beh (HReader fd id) (t_host H h' (CNext t (HReader fd id)) s))) ->
  h_time hst h' = t ->
  DJ (tdispatch H hst beh (HReader fd id) (t_host H h' (CNext t (HReader fd id)) s)).
Proof.
  intros beh h' t fd id s [J [T0 [IO [R1 R2]]]] Hok Et.
  set (s1 := t_host H h' (CNext t (HReader fd id)) s) in *.
  unfold tdispatch in *. cbn [th t_host] in *. fold s1 in Hok |- *.
  destruct (trun_cb H hst beh (EWatchCall fd id (h_time hst (th H s1))) id (talso_call_idle H hst s1)) as [s3 sig] eqn:C.
  assert (Et1 : h_time hst (th H s1) = t) by exact Et. rewrite Et1 in C.
  destruct (act_ext_hlog _ _ _ (act_ext_actions _ _ _ _ C)) as [nh3 L3]. cbn [t_hlog t_log] in L3.
  assert (Hok3 : host_ok (t_hlog H s3)) by (eapply handler_ok; eauto).
  assert (HokA : host_ok (t_hlog H (talso_call_idle H hst s1))) by (rewrite L3 in Hok3; eapply host_ok_app; eauto).
  assert (Hok1 : host_ok (t_hlog H s1)).
  { unfold talso_call_idle in HokA. destruct (t_idleh H s1); [exact HokA|].
    destruct (h_call_later hst 0 TIdle (th H s1)) as [[h2 hd2] w2]. cbn in HokA. apply HokA. }
  pose proof Hok1 as Hok1'. cbn in Hok1'. destruct Hok1' as [[_ Hrd] Hok0].
  set (e := EWatchCall fd id t) in *.
  assert (J1 : AJ (t_log H e s1)).
  { assert (Js1 : AJ s1).
    { eapply (AJ_hcons (CNext t (HReader fd id)) s); try reflexivity; try exact J. repeat split; reflexivity. }
    eapply (AJ_tcons _ s1); try reflexivity; try exact Js1; [repeat split; reflexivity|].
    cbn. rewrite (j_watch _ J). exact Hrd. }
  assert (T1 : TJ (t_log H e s1)).
  { apply TJ_log; try reflexivity. eapply (TJ_same s); try reflexivity; [repeat split; reflexivity|exact T0]. }
  assert (Hsome : forall hd, t_idleh H (t_log H e s1) = Some hd ->
            exists w, hpending hd TIdle w (t_hlog H (t_log H e s1)) /\ idle0 hd w (t_hlog H (t_log H e s1))).
  { intros hd Ih. cbn in Ih. unfold idle_ok in IO. rewrite Ih in IO. destruct IO as [w [Hp Hz]]. exists w.
    cbn [t_hlog t_log t_host s1]. split; [|apply (idle0_mono [_]); exact Hz]. apply pending_after_next; [exact Hp|exact I]. }
  assert (Eq : talso_call_idle H hst (t_log H e s1) = t_log H e (talso_call_idle H hst s1)).
  { unfold talso_call_idle. cbn [t_idleh t_log th]. destruct (t_idleh H s1); [reflexivity|].
    destruct (h_call_later hst 0 TIdle (th H s1)) as [[h2 hd2] w2]. reflexivity. }
  destruct (aci_spec (t_log H e s1)) as [J2 [[hdI [wI [IhI [HpI HzI]]]] [T2 [X2 [SP2 _]]]]]; auto.
  { rewrite Eq. exact HokA. }
  assert (TT2 : TJ (talso_call_idle H hst (t_log H e s1))).
  { eapply (TJ_same (t_log H e s1)); [|exact T2|exact T1].
    unfold talso_call_idle. destruct (t_idleh H (t_log H e s1)); [repeat split; reflexivity|].
    destruct (h_call_later hst 0 TIdle (th H (t_log H e s1))) as [[h2 hd2] w2]. repeat split; reflexivity. }
  rewrite Eq in *.
  unfold trun_cb in C.
  eapply (after_script _ _ _ _ hdI wI C); auto.
  split.
  - rewrite SP2. cbn [t_hlog t_log t_host s1]. rewrite stop_pending_irrel by reflexivity. rewrite <- R1. rewrite T2. cbn [t_trace t_log t_host s1].
    split; intros [b X]; exists b; [destruct X as [X|X]; [discriminate|exact X]|now right].
  - rewrite X2, T2. cbn [t_exc t_trace t_log t_host s1]. rewrite R2. split; [now right|intros [X|X]; [discriminate|exact X]].
Qed.




(* the idle timer runs: _entering_idle *)
Lemma step_idle : forall beh h' t hd0 s,
  DJ s -> host_ok (t_hlog H (tdispatch H hst beh (HTimer hd0 TIdle) (t_host H h' (CNext t (HTimer hd0 TIdle)) s))) ->
  DJ (tdispatch H hst beh (HTimer hd0 TIdle) (t_host H h' (CNext t (HTimer hd0 TIdle)) s)).
Proof.
  intros beh h' t hd0 s [J [T0 [IO [R1 R2]]]] Hok.
  set (s1 := t_host H h' (CNext t (HTimer hd0 TIdle)) s) in *.
  unfold tdispatch in *.
  destruct (tidle_round H hst beh (t_idles H s1) s1) as [s2 sig] eqn:Ir.
  destruct (aidle_gen _ _ _ _ _ Ir) as [I2 [X2 [nt [nh [T [L [Pn [Q Rs]]]]]]]].
  assert (Hok2 : host_ok (t_hlog H s2)) by (apply (handler_ok _ _ Hok)).
  assert (Hok1 : host_ok (t_hlog H s1)) by (rewrite L in Hok2; eapply host_ok_app; eauto).
  pose proof Hok1 as Hok1'. cbn in Hok1'. destruct Hok1' as [[_ [w0 [[La0 _] _]]] Hok0].
  assert (J1 : AJ s1).
  { eapply (AJ_idle_timer_entry _ hd0 w0 s); try reflexivity; try exact J; [repeat split; reflexivity|exact Hok1|right; left; eauto|].
    destruct La0 as [t0 [d0 La0]]. exists t0, d0. cbn. now right. }
  assert (T1 : TJ s1) by (eapply (TJ_same s); try reflexivity; [repeat split; reflexivity|exact T0]).
  destruct (aidle_round_spec _ _ _ _ _ Ir Hok2 J1 T1) as [J2 [T2 [CS Called]]].
  { intros h id X. destruct J as [_ _ _ _ _ _ _ [K I F] _]. now apply I. }
  assert (SP : stop_pending (t_hlog H s2) = stop_pending (t_hlog H s)).
  { rewrite L. rewrite stop_pending_app by exact Q. cbn [t_hlog t_host s1]. now rewrite stop_pending_irrel. }
  assert (Tr : t_trace H s2 = nt ++ t_trace H s) by exact T.
  assert (Naw : forall e, In e nt -> is_aw_call e = false) by (intros e X; apply p_idle_not_aw; auto).
  destruct sig; unfold thandle_exit; cbn [t_idleh t_host t_with_idleh t_with_exc].
  - split; [eapply (AJ_same s2); try reflexivity; [repeat split; reflexivity|exact J2]|split; [eapply (TJ_same s2); try reflexivity; [repeat split; reflexivity|exact T2]|split]].
    + unfold idle_ok. cbn. left. exists nt, (t_trace H s). split; [exact Tr|split; [exact Naw|]].
      intros h id Hs Hr. destruct (Called eq_refl h id) as [nt' [t' [T' X]]].
      * destruct J as [_ _ _ _ _ _ _ [K I F] _]. apply I. split; [exact Hs|].
        intros Y. apply Hr. unfold iremoved. rewrite Tr. apply in_app_iff. now right.
      * exact Hr.
      * exists t'. cbn [t_trace t_host s1] in T'. rewrite Tr in T'. apply app_inv_tail in T'. now subst nt'.
    + cbn in Rs. split; cbn.
      * rewrite SP, <- R1, Tr. split; intros [b X]; exists b; [exact (proj1 (in_raise_nt nt _ b Rs) X)|exact (proj2 (in_raise_nt nt _ b Rs) X)].
      * rewrite X2. cbn [t_exc t_host s1]. rewrite R2, Tr. symmetry. now apply in_raise_nt.
  - destruct Rs as [nt' [-> Hn']].
    split; [|split; [|split]].
    + eapply (AJ_hcons CStop s2); try reflexivity; try exact J2. repeat split; reflexivity.
    + eapply (TJ_same s2); try reflexivity; [repeat split; reflexivity|exact T2].
    + unfold idle_ok. cbn. now right.
    + split; cbn.
      * split; [reflexivity|]. intros _. exists true. rewrite Tr. now left.
      * rewrite X2. cbn [t_exc t_host s1]. rewrite R2, Tr. cbn. split; [intros X; right; apply in_app_iff; now right|].
        intros [X|X]; [discriminate|]. apply in_app_iff in X. destruct X as [X|X]; [apply Hn' in X; discriminate|exact X].
  - destruct Rs as [nt' [-> Hn']].
    split; [|split; [|split]].
    + eapply (AJ_hcons CStop s2); try reflexivity; try exact J2. repeat split; reflexivity.
    + eapply (TJ_same s2); try reflexivity; [repeat split; reflexivity|exact T2].
    + unfold idle_ok. cbn. now right.
    + split; cbn.
      * split; [reflexivity|]. intros _. exists false. rewrite Tr. now left.
      * split; [intros _; rewrite Tr; now left|reflexivity].
Qed.


(* ---------- a poll ---------- *)
Lemma host_ok_in : forall hl c, host_ok hl -> In c hl -> exists newer older, hl = newer ++ c :: older /\ hcall_ok c older.
Proof.
  induction hl as [|x r IH]; intros c Hok X; [destruct X|]. destruct Hok as [Hx Hr]. destruct X as [->|X].
  - exists [], r. auto.
  - destruct (IH c Hr X) as [n [o [E Hc]]]. exists (x :: n), o. split; [now rewrite E|exact Hc].
Qed.

Lemma select_ok : forall s to regs t0 ready, DJ s -> host_ok (t_hlog H s) -> wait_ok to t0 (t_hlog H s) ->
  taev_ok (ESelect to regs t0 ready) (t_trace H s).
Proof.
  intros s to regs t0 ready [J [T0 [IO [R1 R2]]]] Hok [SPf [TL WT]]. cbn. split; [|split].
  - intros b X. assert (Y : stop_pending (t_hlog H s) = true) by (apply R1; eauto). congruence.
  - assert (Hp : forall k due i, pending k due i (t_trace H s) -> exists hd, hpending hd (TAlarm k i) due (t_hlog H s)).
    { intros k due i [As [Nc Nr]]. apply (j_aset _ J) in As. destruct As as [hd A]. exists hd. split; [now apply halarm_later|split].
      - intros X. destruct (proj2 (j_removed _ J k) _ _ _ A X); contradiction.
      - intros X. apply Nc. apply (j_called _ J). eauto. }
    destruct to as [d|].
    + intros Hd k due i P. destruct (Hp _ _ _ P) as [hd Q]. destruct WT as [_ W]. eapply W; eauto.
    + intros k due i P. destruct (Hp _ _ _ P) as [hd Q]. eapply WT; eauto.
  - intros Q. unfold idle_ok in IO. destruct (t_idleh H s) as [hd|].
    + exfalso. destruct IO as [w [Hp [tc Hz]]].
      destruct (host_ok_in _ _ Hok Hz) as [n [o [E [Ew _]]]].
      assert (tc <= t0) by (eapply TL; [exact Hz|reflexivity]).
      destruct to as [d|]; cbn in Q.
      * destruct WT as [_ W]. specialize (W Q _ _ _ Hp). lia.
      * eapply WT; eauto.
    + destruct IO as [D|D]; [exact D|congruence].
Qed.

Lemma step_select : forall h' t to regs t0 ready s,
  DJ s -> host_ok (CNext t (HSelect to regs t0 ready) :: t_hlog H s) ->
  DJ (t_log H (ESelect to regs t0 ready) (t_host H h' (CNext t (HSelect to regs t0 ready)) s)).
Proof.
  intros h' t to regs t0 ready s D Hok. pose proof D as [J [T0 [IO [R1 R2]]]].
  destruct Hok as [[_ [W _]] Hok0].
  pose proof (select_ok s to regs t0 ready D Hok0 W) as Hev.
  set (s1 := t_host H h' (CNext t (HSelect to regs t0 ready)) s).
  assert (J1 : AJ s1).
  { eapply (AJ_hcons (CNext t (HSelect to regs t0 ready)) s); try reflexivity; try exact J. repeat split; reflexivity. }
  split; [|split; [|split]].
  - eapply (AJ_tcons _ s1); try reflexivity; try exact J1; [repeat split; reflexivity|exact Hev].
  - apply TJ_log; try reflexivity. eapply (TJ_same s); try reflexivity; [repeat split; reflexivity|exact T0].
  - unfold idle_ok in *. cbn [t_idleh t_log t_host s1 t_trace t_hlog]. destruct (t_idleh H s) as [hd|].
    + destruct IO as [w [Hp Hz]]. exists w. split; [apply pending_after_next; [exact Hp|exact I]|apply (idle0_mono [_]); exact Hz].
    + rewrite stop_pending_irrel by reflexivity. destruct IO as [[batch [rest [E [Hb Hc]]]]|X]; [left|now right].
      exists (ESelect to regs t0 ready :: batch), rest. split; [now rewrite E|split].
      * intros e [<-|X]; [reflexivity|auto].
      * intros h id Hs Hr. destruct (Hc h id Hs) as [t' Y]; [intros Z; apply Hr; now right|]. exists t'. now right.
  - split; cbn [t_trace t_hlog t_exc t_log t_host s1].
    + rewrite stop_pending_irrel by reflexivity. rewrite <- R1. split; intros [b X]; exists b; [destruct X as [X|X]; [discriminate|exact X]|now right].
    + rewrite R2. split; [now right|intros [X|X]; [discriminate|exact X]].
Qed.


(* ---------- run() ---------- *)


Lemma aci_hlog : forall s, exists nh, t_hlog H (talso_call_idle H hst s) = nh ++ t_hlog H s.
Proof.
  intros s. unfold talso_call_idle. destruct (t_idleh H s); [now exists []|].
  destruct (h_call_later hst 0 TIdle (th H s)) as [[h' hd] w]. cbn. now eexists [_].
Qed.

Lemma dispatch_hlog : forall beh ev s, exists nh, t_hlog H (tdispatch H hst beh ev s) = nh ++ t_hlog H s.
Proof.
  intros beh ev s. unfold tdispatch. destruct ev as [h c|fd id| | | |]; try (now exists []).
  - destruct c as [k id|].
    + destruct (trun_cb H hst beh (EAlarmCall k id (h_time hst (th H s))) id
                 (t_with_pend H (zdel k (t_pend H (talso_call_idle H hst s))) (talso_call_idle H hst s))) as [s2 sig] eqn:C.
      unfold trun_cb in C. destruct (act_ext_hlog _ _ _ (act_ext_actions _ _ _ _ C)) as [n2 L2]. cbn [t_hlog t_log t_with_pend] in L2.
      destruct (aci_hlog s) as [n1 L1]. destruct (handler_hlog sig s2) as [n3 L3].
      exists (n3 ++ n2 ++ n1). rewrite L3, L2, L1. now rewrite !app_assoc.
    + destruct (tidle_round H hst beh (t_idles H s) s) as [s2 sig] eqn:Ir.
      destruct (gen_ext_hlog _ _ _ _ (aidle_gen _ _ _ _ _ Ir)) as [n2 L2].
      destruct (handler_hlog sig (t_with_idleh H None s2)) as [n3 L3]. cbn [t_hlog t_with_idleh] in L3.
      exists (n3 ++ n2). rewrite L3, L2. now rewrite app_assoc.
  - destruct (trun_cb H hst beh (EWatchCall fd id (h_time hst (th H s))) id (talso_call_idle H hst s)) as [s2 sig] eqn:C.
    unfold trun_cb in C. destruct (act_ext_hlog _ _ _ (act_ext_actions _ _ _ _ C)) as [n2 L2]. cbn [t_hlog t_log] in L2.
    destruct (aci_hlog s) as [n1 L1]. destruct (handler_hlog sig s2) as [n3 L3].
    exists (n3 ++ n2 ++ n1). rewrite L3, L2, L1. now rewrite !app_assoc.
Qed.

Lemma arun_loop_hlog : forall fuel beh env s s' o, trun_loop H hst fuel beh env s = (s', o) -> exists nh, t_hlog H s' = nh ++ t_hlog H s.
Proof.
  induction fuel as [|f IH]; intros beh env s s' o E; cbn in E.
  - inversion E; subst. now exists [].
  - destruct (h_next hst (hd_error env) (th H s)) as [[h' ev] used] eqn:N.
    set (s1 := t_host H h' (CNext (h_time hst h') ev) s) in *.
    assert (L1 : t_hlog H s1 = [CNext (h_time hst h') ev] ++ t_hlog H s) by reflexivity.
    destruct ev.
    + destruct (dispatch_hlog beh (HTimer h c) s1) as [n2 L2]. destruct (IH _ _ _ _ _ E) as [n3 L3].
      exists (n3 ++ n2 ++ [CNext (h_time hst h') (HTimer h c)]). rewrite L3, L2, L1. now rewrite !app_assoc.
    + destruct (dispatch_hlog beh (HReader fd id) s1) as [n2 L2]. destruct (IH _ _ _ _ _ E) as [n3 L3].
      exists (n3 ++ n2 ++ [CNext (h_time hst h') (HReader fd id)]). rewrite L3, L2, L1. now rewrite !app_assoc.
    + destruct (IH _ _ _ _ _ E) as [n3 L3]. cbn [t_hlog t_log] in L3. exists (n3 ++ [CNext (h_time hst h') (HSelect timeout regs t ready)]).
      rewrite L3, L1. now rewrite app_assoc.
    + destruct (t_exc H s); inversion E; exists [CNext (h_time hst h') HStopped]; reflexivity.
    + inversion E. exists [CNext (h_time hst h') (HEnvEnd timeout regs t)]. reflexivity.
    + inversion E. exists [CNext (h_time hst h') (HBlocked regs t)]. reflexivity.
Qed.

Definition t_outcome_ok (s : ast) (o : outcome) : Prop :=
  match o with
  | ORaised => In (ERaise false) (t_trace H s)
  | OReturned => (exists b, In (ERaise b) (t_trace H s)) /\ ~ In (ERaise false) (t_trace H s)
  | OEnvEnd | OBlocked => no_raise (t_trace H s)
  | OSpin => True
  | OKeyError => False
  end.

Lemma arun_loop_spec : forall fuel beh env s s' o, trun_loop H hst fuel beh env s = (s', o) ->
  host_ok (t_hlog H s') -> DJ s -> hist_ok taev_ok (t_trace H s') /\ t_outcome_ok s' o.
Proof.
  induction fuel as [|f IH]; intros beh env s s' o E Hok D; cbn in E.
  - inversion E; subst. split; [apply D|exact I].
  - destruct (h_next hst (hd_error env) (th H s)) as [[h' ev] used] eqn:N.
    set (s1 := t_host H h' (CNext (h_time hst h') ev) s) in *.
    destruct ev.
    + (* a timer *)
      destruct (arun_loop_hlog _ _ _ _ _ _ E) as [n3 L3].
      assert (HokD : host_ok (t_hlog H (tdispatch H hst beh (HTimer h c) s1))) by (rewrite L3 in Hok; eapply host_ok_app; eauto).
      destruct c as [k id|].
      * apply (IH _ _ _ _ _ E Hok). apply step_alarm; auto.
      * apply (IH _ _ _ _ _ E Hok). apply step_idle; auto.
    + destruct (arun_loop_hlog _ _ _ _ _ _ E) as [n3 L3].
      assert (HokD : host_ok (t_hlog H (tdispatch H hst beh (HReader fd id) s1))) by (rewrite L3 in Hok; eapply host_ok_app; eauto).
      apply (IH _ _ _ _ _ E Hok). apply step_reader; auto.
    + destruct (arun_loop_hlog _ _ _ _ _ _ E) as [n3 L3]. cbn [t_hlog t_log] in L3.
      apply (IH _ _ _ _ _ E Hok). apply step_select; auto. rewrite L3 in Hok. eapply host_ok_app; eauto.
    + (* run_forever returned *)
      destruct D as [J [T0 [IO [R1 R2]]]].
      assert (SPt : stop_pending (t_hlog H s) = true).
      { destruct (t_exc H s); inversion E; subst; cbn in Hok; apply Hok. }
      destruct (t_exc H s) eqn:Ex; inversion E; subst; cbn [t_trace t_with_exc t_host s1]; (split; [apply J|]); cbn.
      * apply R2. reflexivity.
      * split; [apply R1; exact SPt|]. intros X. apply R2 in X. congruence.
    + inversion E; subst. cbn in Hok. destruct Hok as [[_ W] Hok0].
      pose proof (select_ok s timeout regs t [] D Hok0 W) as Hev.
      cbn [t_trace t_log t_host s1]. split; [split; [exact Hev|apply D]|].
      cbn. intros b [X|X]; [discriminate|]. destruct Hev as [Nr _]. eapply Nr; eauto.
    + inversion E; subst. cbn in Hok. destruct Hok as [[_ W] Hok0].
      pose proof (select_ok s None regs t [] D Hok0 W) as Hev.
      cbn [t_trace t_log t_host s1]. split; [split; [exact Hev|apply D]|].
      cbn. intros b [X|X]; [discriminate|]. destruct Hev as [Nr _]. eapply Nr; eauto.
Qed.


(* ---------- a whole scenario on any host ---------- *)
Lemma AJ_init : forall h0, AJ (t_init0 H h0).
Proof.
  intros h0. constructor; cbn.
  - intros k hd. split; [discriminate|intros [id [w [t [d []]]]]].
  - discriminate.
  - intros k w id. split; [intros []|intros [hd [t [d []]]]].
  - intros k. split; [intros [id [t []]]|intros [hd [id [w [[t [d []]] _]]]]].
  - intros k. split; [intros []|intros hd id w [t [d []]]].
  - intros h [].
  - reflexivity.
  - constructor; cbn; [constructor| |].
    + intros h id. split; [intros []|intros [[] _]].
    + intros h id [].
  - exact I.
Qed.

Lemma TJ_init : forall h0, TJ (t_init0 H h0).
Proof.
  intros h0. constructor; cbn.
  - intros k. split; [discriminate|intros [d [i [[] _]]]].
  - constructor; cbn; [constructor|constructor| | |].
    + intros h fd0 [].
    + intros fd0. split; [discriminate|intros X; now contradiction X].
    + discriminate.
Qed.

Lemma setup_no_raise_sig : forall setup s, (forall a, In a setup -> action_raises a = false) ->
  exists s', trun_actions H hst setup s = (s', SCont).
Proof.
  induction setup as [|a r IH]; cbn; intros s Hs; [eauto|].
  destruct (texec_action H hst a s) as [s1 sg] eqn:E1.
  assert (Ha : action_raises a = false) by (apply Hs; now left).
  assert (sg = SCont) by (destruct a; cbn in E1; inversion E1; subst; auto; discriminate). subst sg.
  apply IH. intros; apply Hs; now right.
Qed.

Theorem tornado_contract : forall h0 setup beh env fuel,
  (forall a, In a setup -> action_raises a = false) ->
  host_ok (t_hlog H (fst (tgscenario H hst h0 setup beh env fuel))) ->
  hist_ok taev_ok (t_trace H (fst (tgscenario H hst h0 setup beh env fuel))) /\
  t_outcome_ok (fst (tgscenario H hst h0 setup beh env fuel)) (snd (tgscenario H hst h0 setup beh env fuel)).
Proof.
  intros h0 setup beh env fuel Hs Hok. unfold tgscenario in *.
  destruct (setup_no_raise_sig setup (t_init0 H h0) Hs) as [s0 E0]. rewrite E0 in *. cbn [fst] in *.
  destruct (trun_loop H hst fuel beh env s0) as [s' o] eqn:R. cbn [fst snd] in *.
  destruct (arun_loop_hlog _ _ _ _ _ _ R) as [n L].
  assert (Hok0 : host_ok (t_hlog H s0)) by (rewrite L in Hok; eapply host_ok_app; eauto).
  destruct (act_ext_actions _ _ _ _ E0) as [I0 [X0 [nt [nh [T [Lh [Pn [Q Rs]]]]]]]]. cbn in I0, X0, T, Lh, Rs.
  rewrite app_nil_r in T, Lh.
  destruct (AJ_actions _ _ _ _ E0 Hok0 (AJ_init h0) (TJ_init h0)) as [J0 T0].
  apply (arun_loop_spec _ _ _ _ _ _ R Hok). split; [exact J0|split; [exact T0|split]].
  - unfold idle_ok. rewrite I0. left. exists nt, []. split; [now rewrite app_nil_r|split].
    + intros e X. apply Pn in X. now destruct e.
    + intros h id [].
  - split.
    + rewrite Lh. rewrite <- (app_nil_r nh). rewrite stop_pending_app by exact Q. cbn. split; [|discriminate].
      intros [b X]. rewrite T in X. apply Rs in X. discriminate.
    + rewrite X0. cbn. split; [discriminate|]. intros X. rewrite T in X. apply Rs in X. discriminate.
Qed.

End TWrapperProofs.


(* TornadoEventLoop on the asyncio host model: the scenario of Model/TornadoLoop.v *)
Lemma tscenario_generic : forall setup beh env,
  tscenario setup beh env =
  tgscenario ahost asyncio_host ah_init setup beh env (64 * (S (length env)) + 64 * length setup + 256).
Proof. reflexivity. Qed.
