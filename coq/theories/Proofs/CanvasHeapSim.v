(* C02, heap layer, part 4: the machine over references and the pure machine run in lockstep. *)
From Coq Require Import ZArith List Bool Lia ZifyBool.
From Urwid Require Import PyBase Canvas CanvasHeap CanvasHeapFrame CanvasHeapScope CanvasHeapRefine.
Import ListNotations.
Open Scope Z_scope.
Arguments Z.add : simpl never.
Arguments Z.sub : simpl never.
Arguments Z.mul : simpl never.
Arguments Z.ltb : simpl never.
Arguments Z.leb : simpl never.
Arguments Z.eqb : simpl never.
Arguments Z.min : simpl never.
Arguments Z.max : simpl never.
Arguments Z.to_nat : simpl never.
Arguments Z.of_nat : simpl never.

Definition abs_st (st : hstate) : mstate :=
  MS (map (to_value (hheap st)) (hstack st)) (map (to_value (hheap st)) (henv st)) (houts st).

Lemma map_to_value_ext h h' vs : hext h h' -> Forall (vscoped h) vs -> map (to_value h') vs = map (to_value h) vs.
Proof.
  intros E F. apply map_ext_in. intros v Hv. rewrite Forall_forall in F. apply (vscoped_ext _ _ _ E (F _ Hv)).
Qed.

Lemma pop_n_map {A B} (f : A -> B) n l :
  pop_n n (map f l) = match pop_n n l with Ok (vs, rest) => Ok (map f vs, map f rest) | Err e => Err e end.
Proof.
  unfold pop_n. unfold zlen; rewrite map_length; fold (zlen l). destruct ((n <? 0) || (zlen l <? n)); [reflexivity|].
  unfold takez, dropz. now rewrite firstn_map, skipn_map, map_rev.
Qed.

Lemma combine_map_fst {A B C} (f : A -> B) (l : list A) (cs : list C) :
  combine (map f l) cs = map (fun vc : A * C => (f (fst vc), snd vc)) (combine l cs).
Proof. revert cs; induction l as [|x l IH]; intros [|c cs]; cbn [map combine fst snd]; [reflexivity..|]. now rewrite IH. Qed.

Lemma nthz_map' {A B} (f : A -> B) l k : nthz (map f l) k = option_map f (nthz l k).
Proof. unfold nthz. destruct (k <? 0); [reflexivity|]. apply nth_error_map. Qed.

(* the error lemmas that are immediate from the definitions *)
Lemma h_trim_err h c top count e : h_trim h c top count = Err e -> comp_trim (to_comp h c) top count = Err e.
Proof. unfold h_trim. destruct (comp_trim _ _ _); [|now intros [= <-]]. destruct count; [|destruct (top =? 0)]; kill_alloc; discriminate. Qed.
Lemma h_trim_end_err h c x e : h_trim_end h c x = Err e -> comp_trim_end (to_comp h c) x = Err e.
Proof. unfold h_trim_end. destruct (comp_trim_end _ _); [|now intros [= <-]]. kill_alloc; discriminate. Qed.
Lemma h_pad_lr_err h c l r e : h_pad_trim_left_right h c l r = Err e -> comp_pad_trim_left_right (to_comp h c) l r = Err e.
Proof.
  unfold h_pad_trim_left_right. destruct (comp_pad_trim_left_right _ _ _); [|now intros [= <-]].
  destruct (_ || _); [|destruct (_ || _)]; kill_alloc; discriminate.
Qed.
Lemma h_fill_err h c m e : h_fill_attr_apply h c m = Err e -> comp_fill_attr_apply (to_comp h c) m = Err e.
Proof. unfold h_fill_attr_apply. destruct (comp_fill_attr_apply _ _); [|now intros [= <-]]. kill_alloc; discriminate. Qed.
Lemma h_same_err h c f e : h_same h c f = Err e -> f (to_comp h c) = Err e.
Proof. unfold h_same. destruct (f _); [discriminate|now intros [= <-]]. Qed.
Lemma h_combine_err h vs e : h_combine h vs = Err e -> canvas_combine (map (to_value h) vs) = Err e.
Proof. unfold h_combine. destruct (canvas_combine _); [|now intros [= <-]]. destruct (h_wrap_all h vs) as [[? ?]|?]; kill_alloc; discriminate. Qed.
Lemma h_join_err h l e : h_join h l = Err e -> canvas_join (map (fun vc : hvalue * Z => (to_value h (fst vc), snd vc)) l) = Err e.
Proof. unfold h_join. destruct (canvas_join _); [|now intros [= <-]]. cbn zeta. kill_alloc; discriminate. Qed.
Lemma h_overlay_err h tv bv l t e : h_overlay h tv bv l t = Err e -> canvas_overlay (to_value h tv) (to_value h bv) l t = Err e.
Proof.
  unfold h_overlay. destruct (canvas_overlay _ _ _ _); [|now intros [= <-]]. cbn zeta.
  destruct (h_wrap h bv) as [[h1 b]|?]; [|kill_alloc; discriminate]. destruct tv as [? ?|o]; [kill_alloc; discriminate|].
  destruct (if t =? 0 then Ok (deref h1 (hid b)) else _) as [side1|?]; [|kill_alloc; discriminate].
  destruct (if t =? 0 then Ok [] else _) as [tops|?]; [|kill_alloc; discriminate].
  destruct (if _ =? 0 then Ok [] else shards_trim_top side1 _) as [bots|?]; kill_alloc; discriminate.
Qed.

Lemma on_hcomp_refines st (hf : heap -> hcomp -> result (heap * hcomp)) (f : comp -> result comp) :
  hwf st ->
  (forall h c h' c', hf h c = Ok (h', c') -> scoped h (hid c) -> f (to_comp h c) = Ok (to_comp h' c')) ->
  (forall h c e, hf h c = Err e -> f (to_comp h c) = Err e) ->
  (forall h c h' c', hf h c = Ok (h', c') -> hext h h') ->
  match on_hcomp st hf with
  | Ok st' => on_comp (abs_st st) f = Ok (abs_st st')
  | Err e => on_comp (abs_st st) f = Err e
  end.
Proof.
  intros [Fs Fe] Hok Herr Hext. unfold on_hcomp, on_comp, abs_st. cbn [stack env outs].
  destruct (hstack st) as [|[cv cu|c] rest] eqn:Es; cbn [map to_value]; try reflexivity.
  inversion Fs; subst. destruct (hf (hheap st) c) as [[h' c']|e] eqn:E.
  - rewrite (Hok _ _ _ _ E H1). cbn [hheap hstack henv houts map to_value]. pose proof (Hext _ _ _ _ E) as X.
    now rewrite (map_to_value_ext _ _ _ X H2), (map_to_value_ext _ _ _ X Fe).
  - now rewrite (Herr _ _ _ E).
Qed.

Theorem hstep_refines leaves st i :
  hwf st ->
  match hstep leaves st i with
  | Ok st' => step leaves (abs_st st) i = Ok (abs_st st')
  | Err e => step leaves (abs_st st) i = Err e
  end.
Proof.
  intros W. pose proof W as [Fs Fe]. destruct i; cbn [hstep step].
  - unfold abs_st. cbn [stack env outs hheap hstack henv houts]. destruct (nthz leaves (i - 1)) as [[c cu]|]; reflexivity.
  - unfold abs_st. cbn [stack env outs hheap hstack henv houts]. rewrite nthz_map'. destruct (nthz (henv st) k); reflexivity.
  - unfold abs_st. cbn [stack env outs hheap hstack henv houts]. destruct (hstack st) as [|v rest] eqn:Es; [reflexivity|]. cbn [map]. inversion Fs; subst.
    destruct (h_wrap (hheap st) v) as [[h' c]|e] eqn:E.
    + rewrite (h_wrap_ref _ _ _ _ E). unfold abs_st. cbn [hheap hstack henv houts map to_value].
      pose proof (proj1 (h_wrap_ext _ _ _ _ E)) as X. now rewrite (map_to_value_ext _ _ _ X H2), (map_to_value_ext _ _ _ X Fe).
    + now rewrite (h_wrap_err _ _ _ E).
  - unfold abs_st. cbn [stack env outs hheap hstack henv houts]. rewrite pop_n_map. destruct (pop_n n (hstack st)) as [[vs rest]|e] eqn:Ep; [|reflexivity].
    destruct (pop_n_Forall _ _ _ _ _ Ep Fs) as [Fv Fr]. destruct (h_combine (hheap st) vs) as [[h' c]|e] eqn:E.
    + rewrite (h_combine_ref _ _ _ _ E Fv). unfold abs_st. cbn [hheap hstack henv houts map to_value].
      pose proof (h_combine_ext _ _ _ _ E) as X. now rewrite (map_to_value_ext _ _ _ X Fr), (map_to_value_ext _ _ _ X Fe).
    + now rewrite (h_combine_err _ _ _ E).
  - unfold abs_st. cbn [stack env outs hheap hstack henv houts]. rewrite pop_n_map. destruct (pop_n (zlen cols) (hstack st)) as [[vs rest]|e] eqn:Ep; [|reflexivity].
    destruct (pop_n_Forall _ _ _ _ _ Ep Fs) as [Fv Fr]. rewrite combine_map_fst. destruct (h_join (hheap st) (combine vs cols)) as [[h' c]|e] eqn:E.
    + rewrite (h_join_ref _ _ _ _ E). unfold abs_st. cbn [hheap hstack henv houts map to_value].
      pose proof (h_join_ext _ _ _ _ E) as X. now rewrite (map_to_value_ext _ _ _ X Fr), (map_to_value_ext _ _ _ X Fe).
    + now rewrite (h_join_err _ _ _ E).
  - unfold abs_st. cbn [stack env outs hheap hstack henv houts]. destruct (hstack st) as [|tv [|bv rest]] eqn:Es; try reflexivity. cbn [map].
    inversion Fs as [|? ? Ht Fs']; subst. inversion Fs' as [|? ? Hb Fr]; subst.
    destruct (h_overlay (hheap st) tv bv left top) as [[h' c]|e] eqn:E.
    + rewrite (h_overlay_ref _ _ _ _ _ _ _ E Ht Hb). unfold abs_st. cbn [hheap hstack henv houts map to_value].
      pose proof (h_overlay_ext _ _ _ _ _ _ _ E) as X. now rewrite (map_to_value_ext _ _ _ X Fr), (map_to_value_ext _ _ _ X Fe).
    + now rewrite (h_overlay_err _ _ _ _ _ _ E).
  - apply (on_hcomp_refines st _ _ W); intros; [now apply h_pad_lr_ref|now apply h_pad_lr_err|eapply h_pad_lr_ext; eauto].
  - apply (on_hcomp_refines st _ _ W); intros; [now apply h_pad_tb_ref|now apply h_pad_tb_err|eapply h_pad_tb_ext; eauto].
  - apply (on_hcomp_refines st _ _ W); intros; [now apply h_trim_ref|now apply h_trim_err|eapply h_trim_ext; eauto].
  - apply (on_hcomp_refines st _ _ W); intros; [now apply h_trim_end_ref|now apply h_trim_end_err|eapply h_trim_end_ext; eauto].
  - apply (on_hcomp_refines st _ _ W); intros; [now apply h_fill_ref|now apply h_fill_err|eapply h_fill_ext; eauto].
  - apply (on_hcomp_refines st _ (fun c0 => comp_set_cursor c0 c) W); intros; [|exact (h_same_err _ _ (fun c1 => comp_set_cursor c1 c) _ H)|eapply h_same_ext; eauto].
    eapply (h_same_ref h c0 (fun c1 => comp_set_cursor c1 c)); [|eassumption].
    intros x y. unfold comp_set_cursor. destruct (cfin x); [discriminate|]. now intros [= <-].
  - apply (on_hcomp_refines st _ (fun c0 => comp_set_pop_up c0 w x y) W); intros; [|exact (h_same_err _ _ (fun c1 => comp_set_pop_up c1 w x y) _ H)|eapply h_same_ext; eauto].
    eapply (h_same_ref h c (fun c1 => comp_set_pop_up c1 w x y)); [|eassumption].
    intros a b. unfold comp_set_pop_up. destruct (cfin a); [discriminate|]. now intros [= <-].
  - apply (on_hcomp_refines st _ comp_finalize W); intros; [|exact (h_same_err _ _ comp_finalize _ H)|eapply h_same_ext; eauto].
    eapply (h_same_ref h c comp_finalize); [|eassumption].
    intros a b. unfold comp_finalize. destruct (cfin a); [discriminate|]. now intros [= <-].
  - unfold abs_st. cbn [stack env outs hheap hstack henv houts]. destruct (hstack st) as [|v rest]; [reflexivity|]. cbn [map]. unfold abs_st. cbn [hheap hstack henv houts].
    now rewrite map_app.
  - unfold abs_st. cbn [stack env outs hheap hstack henv houts]. rewrite !nthz_map'. destruct (nthz (henv st) i) as [va|]; [|reflexivity].
    destruct (nthz (henv st) j) as [vb|]; reflexivity.
Qed.

Theorem hrun_refines leaves prog : forall st st' err,
  hwf st -> hrun leaves st prog = (st', err) -> run leaves (abs_st st) prog = (abs_st st', err).
Proof.
  induction prog as [|i prog IH]; intros st st' err W; cbn [hrun run].
  - now intros [= <- <-].
  - pose proof (hstep_refines leaves st i W) as R. destruct (hstep leaves st i) as [st1|e] eqn:E.
    + rewrite R. intros H. apply IH; [eapply hstep_wf; eauto|exact H].
    + rewrite R. now intros [= <- <-].
Qed.

Lemma hwf_init : hwf (HS empty_heap [] [] []).
Proof. split; constructor. Qed.
