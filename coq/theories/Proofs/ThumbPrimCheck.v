(* C20 - the exact-rational float model (Model/ScrollFloat.v) against the kernel's primitive binary64 floats.
   [thumb_prim] is ScrollBar.render's arithmetic written with PrimFloat division/multiplication/comparison
   (round() and int() are taken on the exact value of the resulting float); the theorems say that on whole
   finite grids it returns exactly what the rational model [thumb_geom] returns, and that correctly rounded
   division/multiplication coincide with [rn] of the exact quotient/product.  Finite domains, settled by
   vm_compute over the whole domain (bounds in the statements).  PrimFloat/Uint63 primitives are the only
   "axioms" Print Assumptions reports for these theorems. *)
From Coq Require Import ZArith QArith Qround List Bool Lia PrimFloat Uint63.
From Urwid Require Import ScrollFloat.
Import ListNotations.
Open Scope Z_scope.

Definition pf_of_Z (z : Z) : float :=
  if z <? 0 then PrimFloat.opp (of_uint63 (Uint63.of_Z (- z))) else of_uint63 (Uint63.of_Z z).

(* exact value of a finite float: mantissa * 2^exponent *)
Definition pf_to_Q (f : float) : Q :=
  let a := PrimFloat.abs f in
  if PrimFloat.eqb a zero then 0%Q else
  let '(m, e) := frshiftexp a in
  let mant := Uint63.to_Z (normfr_mantissa m) in
  let ex := Uint63.to_Z e - 2101 - 53 in
  let q := (inject_Z mant * pow2 ex)%Q in
  if PrimFloat.ltb f zero then (- q)%Q else q.

Definition pf_min1 (x : float) : float := if PrimFloat.ltb x one then x else one.   (* min(1.0, x) *)

Definition thumb_prim (h pos pm a b : Z) : Z * Z * Z :=
  let tw := pf_min1 (PrimFloat.div (pf_of_Z a) (pf_of_Z (Z.max 1 b))) in
  let th := Z.max 1 (rhe (pf_to_Q (PrimFloat.mul tw (pf_of_Z h)))) in
  let topw := PrimFloat.div (pf_of_Z pos) (pf_of_Z (Z.max 1 pm)) in
  let t0 := qtrunc (pf_to_Q (PrimFloat.mul (pf_of_Z (h - th)) topw)) in
  let top := if (t0 =? 0) && PrimFloat.ltb zero topw then Z.min 1 (h - th) else t0 in
  (top, th, h - th - top).

Definition thumb_soft (h pos pm a b : Z) : Z * Z * Z :=
  thumb_geom h pos pm (f_min1 (f_div_int_int a (Z.max 1 b))).

Definition zrange (a b : Z) : list Z := map (fun i => a + Z.of_nat i) (seq 0 (Z.to_nat (b - a + 1))).

Lemma In_zrange a b x : a <= x <= b -> In x (zrange a b).
Proof.
  intros H. unfold zrange. apply in_map_iff. exists (Z.to_nat (x - a)). split; [lia|].
  apply in_seq. lia.
Qed.

Definition eq3 (x y : Z * Z * Z) : bool :=
  let '(a, b, c) := x in let '(d, e, f) := y in (a =? d) && (b =? e) && (c =? f).

Lemma eq3_true x y : eq3 x y = true -> x = y.
Proof.
  destruct x as [[a b] c], y as [[d e] f]. unfold eq3. intros H.
  apply andb_true_iff in H. destruct H as [H H3]. apply andb_true_iff in H. destruct H as [H1 H2].
  apply Z.eqb_eq in H1, H2, H3. subst. reflexivity.
Qed.

Definition grid_ok (hmax rmax : Z) : bool :=
  forallb (fun h => forallb (fun r => forallb (fun pos =>
     eq3 (thumb_prim h pos (r - h) h r) (thumb_soft h pos (r - h) h r))
     (zrange 0 (r - h))) (zrange (h + 1) rmax)) (zrange 1 hmax).

Lemma grid_ok_spec hmax rmax : grid_ok hmax rmax = true ->
  forall h r pos, 1 <= h <= hmax -> h < r <= rmax -> 0 <= pos <= r - h ->
  thumb_prim h pos (r - h) h r = thumb_soft h pos (r - h) h r.
Proof.
  intros G h r pos Hh Hr Hp. unfold grid_ok in G.
  rewrite forallb_forall in G. specialize (G h (In_zrange _ _ _ Hh)).
  rewrite forallb_forall in G. specialize (G r (In_zrange (h + 1) rmax r ltac:(lia))).
  rewrite forallb_forall in G. specialize (G pos (In_zrange _ _ _ Hp)).
  apply eq3_true. exact G.
Qed.

Lemma grid_10_30 : grid_ok 10 30 = true.
Proof. vm_cast_no_check (eq_refl true). Qed.

Lemma thumb_prim_agrees h r pos :
  1 <= h <= 10 -> h < r <= 30 -> 0 <= pos <= r - h ->
  thumb_prim h pos (r - h) h r = thumb_soft h pos (r - h) h r.
Proof. exact (grid_ok_spec 10 30 grid_10_30 h r pos). Qed.

(* the two rounding operations themselves: int/int division and float*int multiplication *)
Definition div_ok (n : Z) : bool :=
  forallb (fun a => forallb (fun b =>
     Qeq_bool (pf_to_Q (PrimFloat.div (pf_of_Z a) (pf_of_Z b))) (f_div_int_int a b)) (zrange 1 n)) (zrange 0 n).

Definition mul_ok (n m : Z) : bool :=
  forallb (fun a => forallb (fun b => forallb (fun k =>
     Qeq_bool (pf_to_Q (PrimFloat.mul (PrimFloat.div (pf_of_Z a) (pf_of_Z b)) (pf_of_Z k)))
              (f_mul (f_div_int_int a b) (f_of_int k))) (zrange 0 m)) (zrange 1 n)) (zrange 0 n).

Lemma div_ok_spec n : div_ok n = true -> forall a b, 0 <= a <= n -> 1 <= b <= n ->
  (pf_to_Q (PrimFloat.div (pf_of_Z a) (pf_of_Z b)) == f_div_int_int a b)%Q.
Proof.
  intros G a b Ha Hb. unfold div_ok in G.
  rewrite forallb_forall in G. specialize (G a (In_zrange _ _ _ Ha)).
  rewrite forallb_forall in G. specialize (G b (In_zrange _ _ _ Hb)).
  apply Qeq_bool_iff. exact G.
Qed.

Lemma mul_ok_spec n m : mul_ok n m = true -> forall a b k, 0 <= a <= n -> 1 <= b <= n -> 0 <= k <= m ->
  (pf_to_Q (PrimFloat.mul (PrimFloat.div (pf_of_Z a) (pf_of_Z b)) (pf_of_Z k))
   == f_mul (f_div_int_int a b) (f_of_int k))%Q.
Proof.
  intros G a b k Ha Hb Hk. unfold mul_ok in G.
  rewrite forallb_forall in G. specialize (G a (In_zrange _ _ _ Ha)).
  rewrite forallb_forall in G. specialize (G b (In_zrange _ _ _ Hb)).
  rewrite forallb_forall in G. specialize (G k (In_zrange _ _ _ Hk)).
  apply Qeq_bool_iff. exact G.
Qed.

Lemma div_100 : div_ok 100 = true.
Proof. vm_cast_no_check (eq_refl true). Qed.

Lemma mul_20_12 : mul_ok 20 12 = true.
Proof. vm_cast_no_check (eq_refl true). Qed.

Lemma prim_div_is_rn a b :
  0 <= a <= 100 -> 1 <= b <= 100 ->
  (pf_to_Q (PrimFloat.div (pf_of_Z a) (pf_of_Z b)) == f_div_int_int a b)%Q.
Proof. exact (div_ok_spec 100 div_100 a b). Qed.

Lemma prim_mul_is_rn a b k :
  0 <= a <= 20 -> 1 <= b <= 20 -> 0 <= k <= 12 ->
  (pf_to_Q (PrimFloat.mul (PrimFloat.div (pf_of_Z a) (pf_of_Z b)) (pf_of_Z k))
   == f_mul (f_div_int_int a b) (f_of_int k))%Q.
Proof. exact (mul_ok_spec 20 12 mul_20_12 a b k). Qed.
