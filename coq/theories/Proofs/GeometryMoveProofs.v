(* C09: after a successful move_cursor_to_coords the reported cursor is on the requested row
   (structural induction; proved for moves that leave the focus of every Columns on the way unchanged). *)
From Coq Require Import ZArith List Bool Lia ZifyBool.
Import ListNotations.
From Urwid Require Import PyBase geo_padfill_gen Geometry GeometryFacts GeometryProofs.
Open Scope Z_scope.

Arguments Z.add : simpl never. Arguments Z.sub : simpl never. Arguments Z.mul : simpl never.
Arguments Z.div : simpl never. Arguments Z.modulo : simpl never. Arguments Z.ltb : simpl never.
Arguments Z.leb : simpl never. Arguments Z.eqb : simpl never. Arguments Z.min : simpl never.
Arguments Z.max : simpl never. Arguments Z.quot : simpl never.

(* [lia] looks at every hypothesis; in the big contexts below most of them are about views and lists: drop them first *)
Ltac thin :=
  repeat match goal with
  | H : ?T |- _ =>
      lazymatch type of T with Prop => idtac | _ => fail end;
      lazymatch T with
      | _ <= _ => fail | _ < _ => fail | _ >= _ => fail | _ > _ => fail
      | _ /\ _ => fail | _ \/ _ => fail
      | @eq Z _ _ => fail | @eq nat _ _ => fail | not (@eq Z _ _) => fail
      | _ => clear H
      end
  end.
Ltac thin2 :=
  repeat match goal with
  | H : ?T |- _ =>
      lazymatch type of T with Prop => idtac | _ => fail end;
      lazymatch T with
      | _ <= _ => fail | _ < _ => fail | _ >= _ => fail | _ > _ => fail
      | _ /\ _ => fail | _ \/ _ => fail
      | @eq Z _ _ => fail | @eq nat _ _ => fail | not (@eq Z _ _) => fail
      | @eq bool _ _ => fail
      | _ => clear H
      end
  end.
Ltac qlia := first [ solve [thin; lia] | solve [thin2; lia] | lia ].


(* same tree shape, same focus in every Columns (leaf cursors and Pile focus may differ) *)
Fixpoint cols_same (w w' : widget) {struct w} : bool :=
  match w, w' with
  | Leaf _, Leaf _ => true
  | Pile items _, Pile items' _ =>
      (fix go (l : list (popt * widget)) (l' : list (popt * widget)) : bool :=
         match l, l' with
         | [], [] => true
         | it :: r, it' :: r' => cols_same (snd it) (snd it') && go r r'
         | _, _ => false
         end) items items'
  | Columns items fp _ _, Columns items' fp' _ _ =>
      (fp =? fp') &&
      (fix go (l : list (copt * bool * widget)) (l' : list (copt * bool * widget)) : bool :=
         match l, l' with
         | [], [] => true
         | it :: r, it' :: r' => cols_same (snd it) (snd it') && go r r'
         | _, _ => false
         end) items items'
  | Padding c _ _ _ _ _ _ _, Padding c' _ _ _ _ _ _ _ => cols_same c c'
  | Filler c _ _ _ _ _ _ _, Filler c' _ _ _ _ _ _ _ => cols_same c c'
  | Frame b h f _, Frame b' h' f' _ =>
      cols_same b b'
      && match h, h' with Some x, Some x' => cols_same x x' | None, None => true | _, _ => false end
      && match f, f' with Some x, Some x' => cols_same x x' | None, None => true | _, _ => false end
  | BoxAdapter c _, BoxAdapter c' _ => cols_same c c'
  | AttrMap c, AttrMap c' => cols_same c c'
  | Overlay t b _ _ _ _ _ _ _ _ _ _ _ _ _ _, Overlay t' b' _ _ _ _ _ _ _ _ _ _ _ _ _ _ => cols_same t t' && cols_same b b'
  | _, _ => false
  end.

(* hasattr(w, "move_cursor_to_coords") implies hasattr(w, "get_cursor_coords") for every modelled class *)
Lemma hasmove_hascur : forall w, i_hasmove (info w) = true -> i_hascur (info w) = true.
Proof.
  unfold info. induction w using widget_ind2; rewrite view_eq; cbn [interp v_info]; unfold wnode;
    cbn [node_of n_info kidviews kids_with]; try (intros; reflexivity).
  - cbn [leaf_view v_info leaf_info i_hasmove i_hascur]. auto.
  - unfold attrmap_info, nth_info, nthz. cbn. exact IHw.
Qed.

Definition MoveOK (w : widget) : Prop :=
  forall s col row, fits w s = true -> i_hasmove (info w) = true ->
    let m := move_cursor w s col row in
    m_ok m = true -> cols_same w (m_w m) = true ->
    info (m_w m) = info w /\ fits (m_w m) s = true /\
    (m_asked m <> None ->
       i_sel (info w) = true /\ 0 <= row < canvas_rows w s /\ exists x, cursor_coords (m_w m) s = CSome x row).

Lemma leaf_accepts_inv l s row :
  leaf_accepts l s row = true -> lsel l = true /\ 0 <= row < leaf_nrows l s.
Proof.
  unfold leaf_accepts. intro H. apply andb_true_iff in H as [H _]. apply andb_true_iff in H as [H H3].
  apply andb_true_iff in H as [H1 H2]. split; [exact H1|qlia].
Qed.

Lemma move_ok_leaf l : MoveOK (Leaf l).
Proof.
  intros s col row Hf Hm. unfold move_cursor, info, fits, cursor_coords, canvas_rows in *.
  cbn [view leaf_view v_move v_info v_fits v_cursor leaf_info i_hasmove i_sel] in *.
  destruct (leaf_accepts l s row) eqn:Ea; cbn [m_ok m_w m_asked]; intros Hok _; [|discriminate].
  cbn [view leaf_view v_move v_info v_fits v_cursor leaf_info i_hasmove i_sel].
  destruct (leaf_accepts_inv l s row Ea) as [Hsel Hrow].
  pose proof (leaf_fits_inv l s Hf) as [[Hc Hr] [Hn [Hcur Hmode]]].
  assert (Hfit' : leaf_fits (leaf_moved l s col row) s = true).
  { unfold leaf_fits in *. cbn [leaf_moved lminw lbox lcur lsel lapi lfw].
    assert (En : leaf_nrows (leaf_moved l s col row) s = leaf_nrows l s) by reflexivity. rewrite En.
    apply andb_true_iff in Hf as [Hf _]. rewrite Hf. cbn [andb]. rewrite Hsel, Hm. cbn [andb].
    destruct (lbox l); cbn [orb]; qlia. }
  split; [reflexivity|]. split; [exact Hfit'|]. intros _. split; [exact Hsel|].
  rewrite (leaf_crows l s Hf). split; [exact Hrow|].
  unfold leaf_cursor. cbn [leaf_moved lcur lbox]. unfold leaf_nrows in Hrow.
  destruct (lbox l); [|eexists; reflexivity].
  destruct (snd s) as [r|]; [|eexists; reflexivity].
  replace (Z.min row (r - 1)) with row by qlia. eexists; reflexivity.
Qed.

(* ---- replacing one child view ---- *)
Fixpoint set_nth_v (l : list wview) (i : Z) (v : wview) : list wview :=
  match l with [] => [] | x :: r => if i =? 0 then v :: r else x :: set_nth_v r (i - 1) v end.

Lemma nth_view_set_same d l i v : 0 <= i < zlen l -> nth_view d (set_nth_v l i v) i = v.
Proof.
  revert i. induction l as [|a l IH]; intros i H; [unfold zlen in H; cbn in H; qlia|].
  cbn [set_nth_v]. unfold nth_view in *. destruct (i =? 0) eqn:E.
  - rewrite nthz_cons, E. reflexivity.
  - rewrite nthz_cons, E. assert (E2 : i <? 0 = false) by qlia. rewrite E2. rewrite zlen_cons in H. apply IH. qlia.
Qed.

Lemma nth_view_set_other_fits d d' l i j v : j <> i ->
  v_fits (nth_view d' (set_nth_v l i v) j) = v_fits (nth_view d l j).
Proof.
  revert i j. induction l as [|a l IH]; intros i j H.
  - unfold nth_view. cbn [set_nth_v]. rewrite !nthz_nil. reflexivity.
  - cbn [set_nth_v]. unfold nth_view in *. destruct (i =? 0) eqn:E.
    + rewrite !nthz_cons. assert (E2 : j =? 0 = false) by qlia. rewrite E2.
      destruct (if j <? 0 then None else nthz l (j - 1)); reflexivity.
    + rewrite !nthz_cons. destruct (j =? 0); [reflexivity|]. destruct (j <? 0); [reflexivity|]. apply IH. qlia.
Qed.

Lemma map_info_set l i v d :
  0 <= i < zlen l -> v_info v = v_info (nth_view d l i) -> map v_info (set_nth_v l i v) = map v_info l.
Proof.
  revert i. induction l as [|a l IH]; intros i H E; [reflexivity|]. cbn [set_nth_v].
  unfold nth_view in E. rewrite nthz_cons in E. destruct (i =? 0) eqn:E0.
  - cbn [map]. rewrite E. reflexivity.
  - assert (E2 : i <? 0 = false) by qlia. rewrite E2 in E. cbn [map]. f_equal. rewrite zlen_cons in H. apply IH; [qlia|exact E].
Qed.

(* ---- the generic step: the node afterwards reports the cursor on the requested row ---- *)
Lemma interp_cursor_after d nd kids s i cs x r' row :
  LocalCursor nd (map v_info kids) ->
  n_fits nd s = true -> size_pos s ->
  (exists p, In p (n_place nd s) /\ p_isfocus p = true /\ p_idx p = i /\ p_size p = cs /\ p_y p = row - r') ->
  v_cursor (nth_view d kids i) cs = CSome x r' ->
  i_sel (v_info (nth_view d kids i)) = true -> i_hascur (v_info (nth_view d kids i)) = true ->
  1 <= fst cs -> r' < crows (v_info (nth_view d kids i)) cs ->
  exists x', v_cursor (interp d nd kids) s = CSome x' row.
Proof.
  intros LC Hn Hpos [p [Hp [Hpf [Hpi [Hps Hpy]]]]] Hc Hsel Hhc Hw Hr.
  destruct (LC s Hn Hpos) as [p0 [Hp0 [Hp0f [Huniq Hplan]]]].
  assert (p = p0) by (apply Huniq; assumption). subst p0.
  cbn [interp v_cursor]. unfold interp_cursor. cbv zeta in Hplan.
  rewrite <- (nth_view_info d) in Hplan. rewrite Hpi, Hps in Hplan.
  destruct (n_cursor nd s) as [|e|i0 cs0 dx dy clamp nr].
  - destruct Hplan as [H|[H|H]]; [congruence|congruence|qlia].
  - contradiction.
  - destruct Hplan as [-> [-> [-> [-> [-> Hclamp]]]]]. rewrite Hc.
    destruct clamp as [m|].
    + assert (E : m <=? r' = false) by qlia. rewrite E. eexists. f_equal. qlia.
    + eexists. f_equal. qlia.
Qed.

Lemma interp_fits_after d d' nd nd' kids i kid' s :
  v_fits (interp d nd kids) s = true ->
  n_fits nd' s = true ->
  (forall q, In q (n_place nd' s) -> exists q0, In q0 (n_place nd s) /\ p_idx q0 = p_idx q /\ p_size q0 = p_size q) ->
  (forall q, In q (n_place nd s) -> p_idx q = i -> v_fits kid' (p_size q) = true) ->
  0 <= i < zlen kids ->
  v_fits (interp d' nd' (set_nth_v kids i kid')) s = true.
Proof.
  intros Hf Hn' Hpl Hk Hi. destruct (interp_fits_inv d nd kids s Hf) as [[Hc Hr] [Hn Hkids]].
  cbn [interp v_fits]. unfold interp_fits.
  assert (E1 : 1 <=? fst s = true) by qlia. rewrite E1, Hn'.
  assert (E2 : match snd s with Some r => 1 <=? r | None => true end = true).
  { destruct (snd s) as [r|]; [specialize (Hr r eq_refl); qlia|reflexivity]. }
  rewrite E2. cbn [andb]. apply forallb_forall. intros q Hq.
  destruct (Hpl q Hq) as [q0 [Hq0 [Ei Es]]].
  destruct (Z.eq_dec (p_idx q) i) as [E|E].
  - rewrite E, nth_view_set_same by exact Hi. rewrite <- Es. apply Hk; [exact Hq0|qlia].
  - rewrite (nth_view_set_other_fits d d' kids i (p_idx q) kid' E). rewrite <- Ei, <- Es. apply Hkids. exact Hq0.
Qed.

(* what the move plan of a node says about its placement *)
Definition LocalMoveTarget (nd : node) (infos : list cinfo) : Prop :=
  forall s col row i cs c' r' nf, n_fits nd s = true -> size_pos s -> i_hasmove (n_info nd) = true ->
    n_move nd s col row = MPAsk i cs c' r' nf ->
    i_hasmove (nth_info infos i) = true /\
    (nf = None \/ (nf = Some i /\ i_sel (nth_info infos i) = true)) /\
    exists p, In p (n_place nd s) /\ p_idx p = i /\ p_size p = cs /\ p_y p = row - r' /\
              (nf = None -> p_isfocus p = true) /\
              (forall q, In q (n_place nd s) -> p_idx q = i -> q = p).

Ltac one_target p0 :=
  exists p0; split; [left; reflexivity|]; cbn [p_idx p_size p_y p_isfocus];
  repeat split; try reflexivity; try qlia; try (intros q [<-|[]] _; reflexivity).

Section SingleTargets.
  Variable ki : list cinfo.

  Lemma attrmap_target :
    LocalMoveTarget (Node (attrmap_info (nth_info ki 0)) attrmap_place attrmap_cursor attrmap_route attrmap_move attrmap_fits) ki.
  Proof.
    intros s col row i cs c' r' nf _ _ Hm E. cbn [n_move n_place n_info] in *. unfold attrmap_move, attrmap_place, attrmap_info in *.
    inversion E; subst. split; [exact Hm|]. split; [left; reflexivity|].
    one_target (Placed 0 0 0 cs true false).
  Qed.

  Lemma boxadapter_target h :
    LocalMoveTarget (Node (boxadapter_info h (nth_info ki 0)) (boxadapter_place h) (boxadapter_cursor h (nth_info ki 0))
                          (boxadapter_route h) (boxadapter_move h (nth_info ki 0)) (boxadapter_fits h)) ki.
  Proof.
    intros s col row i cs c' r' nf _ _ _ E. cbn [n_move n_place n_info] in *. unfold boxadapter_move, boxadapter_place in *.
    destruct (snd s); [discriminate|]. destruct (i_hasmove (nth_info ki 0)) eqn:Eh; cbn [negb] in E; [|discriminate].
    inversion E; subst. split; [exact Eh|]. split; [left; reflexivity|].
    one_target (Placed 0 0 0 (fst s, Some h) true false).
  Qed.

  Lemma padding_target o :
    LocalMoveTarget (Node (padding_info o (nth_info ki 0)) (padding_place o) (padding_cursor o (nth_info ki 0))
                          (padding_route o) (padding_move o (nth_info ki 0)) (padding_fits o)) ki.
  Proof.
    intros s col row i cs c' r' nf _ _ _ E. cbn [n_move n_place n_info] in *. unfold padding_move, padding_place in *.
    destruct (i_hasmove (nth_info ki 0)) eqn:Eh; cbn [negb] in E; [|discriminate].
    destruct (padding_values o (fst s)) as [l r]. inversion E; subst. split; [exact Eh|]. split; [left; reflexivity|].
    exists (Placed 0 l 0 (fst s - (l + r), snd s) true false). split; [left; reflexivity|]. cbn [p_idx p_size p_y p_isfocus].
    repeat split; try reflexivity; try qlia.
    - f_equal. qlia.
    - intros q [<-|[]] _; reflexivity.
  Qed.

  Lemma filler_target o :
    LocalMoveTarget (Node (filler_info o (nth_info ki 0)) (filler_place o (nth_info ki 0)) (filler_cursor o (nth_info ki 0))
                          (filler_route o (nth_info ki 0)) (filler_move o (nth_info ki 0)) (filler_fits o (nth_info ki 0))) ki.
  Proof.
    intros s col row i cs c' r' nf _ _ _ E. cbn [n_move n_place n_info] in *. unfold filler_move, filler_place in *.
    destruct (i_hasmove (nth_info ki 0)) eqn:Eh; cbn [negb] in E; [|discriminate].
    destruct (filler_values o (nth_info ki 0) s) as [t b].
    destruct ((row <? t) || (filler_maxrow o (nth_info ki 0) s - b <=? row)); [discriminate|].
    inversion E; subst. split; [exact Eh|]. split; [left; reflexivity|].
    one_target (Placed 0 0 t (filler_csize o (nth_info ki 0) s) true false).
  Qed.
End SingleTargets.

(* ---- decorations with one child: AttrMap, BoxAdapter, Padding, Filler ---- *)
Section SingleChild.
  Variable K : widget -> widget.
  Hypothesis K_view : forall c, view (K c) = interp (K c) (wnode (K c)) (kidviews (K c)).
  Hypothesis K_kids : forall c, kidviews (K c) = [view c].
  Hypothesis K_node : forall c c' ki, node_of (K c) ki = node_of (K c') ki.
  Hypothesis K_set : forall c c', set_child (K c) 0 c' = K c'.
  Hypothesis K_same : forall c c', cols_same (K c) (K c') = cols_same c c'.
  Hypothesis K_sel : forall c ki, i_sel (n_info (node_of (K c) ki)) = i_sel (nth_info ki 0).
  Hypothesis K_target : forall c ki, LocalMoveTarget (node_of (K c) ki) ki.
  Hypothesis K_plan : forall c ki s col row,
    match n_move (node_of (K c) ki) s col row with
    | MPFocus _ => False
    | MPAsk i _ _ _ nf => i = 0 /\ nf = None
    | _ => True
    end.
  Hypothesis K_cursor : forall c ki, LocalCursor (node_of (K c) ki) ki.
  Hypothesis K_within : forall c ki, LocalWithin (node_of (K c) ki) ki.

  Lemma move_ok_single c : MoveOK c -> MoveOK (K c).
  Proof.
    intros IH s col row Hf Hm. unfold move_cursor, info, fits, cursor_coords, canvas_rows in *.
    rewrite K_view in *. cbn [interp v_move v_info v_fits] in *. unfold interp_move.
    destruct (interp_fits_inv _ _ _ _ Hf) as [Hpos [Hn Hkids]].
    unfold wnode in *. rewrite K_kids in *. cbn [map] in *.
    pose proof (K_plan c [v_info (view c)] s col row) as Hplan.
    destruct (n_move (node_of (K c) [v_info (view c)]) s col row) as [| |i|i cs c' r' nf] eqn:E; cbn [m_ok m_w m_asked].
    - discriminate.
    - intros _ _. rewrite K_view. cbn [interp v_info v_fits]. unfold wnode. rewrite K_kids. cbn [map].
      split; [reflexivity|]. split; [exact Hf|]. intro H; congruence.
    - contradiction.
    - destruct Hplan as [-> ->].
      destruct (K_target c _ s col row 0 cs c' r' None Hn Hpos Hm E) as [Hcm [_ [p [Hp [Hpi [Hps [Hpy [Hpf Hfun]]]]]]]].
      specialize (Hpf eq_refl).
      change (nth_view (K c) [view c] 0) with (view c).
      change (nth_info [v_info (view c)] 0) with (v_info (view c)) in Hcm.
      assert (Hcf : v_fits (view c) cs = true).
      { specialize (Hkids p Hp). rewrite Hpi, Hps in Hkids. exact Hkids. }
      specialize (IH cs c' r' Hcf Hcm). unfold move_cursor, info, fits, cursor_coords, canvas_rows in IH. cbv zeta in IH.
      destruct (m_ok (v_move (view c) cs c' r')) eqn:Eok; cbn [m_ok m_w m_asked]; [|discriminate].
      intros _ Hsame. rewrite K_set in *. rewrite K_same in Hsame.
      destruct (IH eq_refl Hsame) as [Hinfo [Hfit' Hasked]]. clear IH.
      set (c2 := m_w (v_move (view c) cs c' r')) in *.
      rewrite K_view. cbn [interp v_info v_fits v_cursor]. unfold wnode. rewrite K_kids. cbn [map].
      rewrite Hinfo. rewrite (K_node c2 c).
      split; [reflexivity|]. split.
      + change [view c2] with (set_nth_v [view c] 0 (view c2)).
        apply (interp_fits_after (K c) (K c2) _ _ [view c] 0 (view c2) s Hf Hn).
        * intros q Hq. exists q. auto.
        * intros q Hq Hqi. rewrite (Hfun q Hq Hqi), Hps. exact Hfit'.
        * unfold zlen. cbn. qlia.
      + intro Hne. destruct (Hasked Hne) as [Hsel [Hrow [x Hcur]]].
        rewrite K_sel. change (nth_info [v_info (view c)] 0) with (v_info (view c)).
        split; [exact Hsel|].
        destruct (K_within c _ s p Hn Hpos Hp) as [_ [_ [Hy0 Hy1]]].
        rewrite Hpi, Hps in Hy1. change (nth_info [v_info (view c)] 0) with (v_info (view c)) in Hy1.
        split; [qlia|].
        apply (interp_cursor_after (K c2) _ [view c2] s 0 cs x r' row).
        * pose proof (K_cursor c [v_info (view c)]) as LC. cbn [map]. rewrite Hinfo. exact LC.
        * exact Hn.
        * exact Hpos.
        * exists p. auto.
        * exact Hcur.
        * change (nth_view (K c2) [view c2] 0) with (view c2). rewrite Hinfo. exact Hsel.
        * change (nth_view (K c2) [view c2] 0) with (view c2). apply hasmove_hascur. unfold info. rewrite Hinfo. exact Hcm.
        * destruct (view_good c2) as [FP _]. destruct (FP cs Hfit') as [H1 _]. exact H1.
        * change (nth_view (K c2) [view c2] 0) with (view c2). rewrite Hinfo. qlia.
  Qed.
End SingleChild.

Lemma move_ok_attrmap c : MoveOK c -> MoveOK (AttrMap c).
Proof.
  apply (move_ok_single (fun c => AttrMap c)); try reflexivity; intros.
  - apply attrmap_target.
  - cbn. unfold attrmap_move. auto.
  - apply attrmap_cursor_ok.
  - apply attrmap_within.
Qed.

Lemma move_ok_boxadapter c h : MoveOK c -> MoveOK (BoxAdapter c h).
Proof.
  apply (move_ok_single (fun c => BoxAdapter c h)); try reflexivity; intros.
  - apply boxadapter_target.
  - cbn. unfold boxadapter_move. destruct (snd s); [exact I|]. destruct (negb _); [exact I|auto].
  - apply boxadapter_cursor_ok.
  - apply boxadapter_within.
Qed.

Lemma move_ok_padding c a b c0 d e f g : MoveOK c -> MoveOK (Padding c a b c0 d e f g).
Proof.
  apply (move_ok_single (fun c => Padding c a b c0 d e f g)); try reflexivity; intros.
  - apply padding_target.
  - cbn. unfold padding_move. destruct (negb _); [exact I|]. destruct (padding_values _ _). auto.
  - apply padding_cursor_ok.
  - apply padding_within.
Qed.

Lemma move_ok_filler c a b c0 d e f g : MoveOK c -> MoveOK (Filler c a b c0 d e f g).
Proof.
  apply (move_ok_single (fun c => Filler c a b c0 d e f g)); try reflexivity; intros.
  - apply filler_target.
  - cbn. unfold filler_move. destruct (negb _); [exact I|]. destruct (filler_values _ _ _).
    destruct (_ || _); [exact I|auto].
  - apply filler_cursor_ok.
  - apply filler_within.
Qed.

(* classes without move_cursor_to_coords *)
Lemma move_ok_nomove w : i_hasmove (info w) = false -> MoveOK w.
Proof. intros H s col row _ Hm. congruence. Qed.

(* ---- list containers: helper facts ---- *)
Lemma map_fst_set_nth_w {A} (items : list (A * widget)) i c : map fst (set_nth_w items i c) = map fst items.
Proof.
  revert i. induction items as [|[a w] items IH]; intro i; [reflexivity|]. cbn [set_nth_w].
  destruct (i =? 0); cbn [map fst]; [reflexivity|]. f_equal. apply IH.
Qed.

Lemma kids_set_nth_w {A} (items : list (A * widget)) i c :
  map (fun it => view (snd it)) (set_nth_w items i c) = set_nth_v (map (fun it => view (snd it)) items) i (view c).
Proof.
  revert i. induction items as [|[a w] items IH]; intro i; [reflexivity|]. cbn [set_nth_w map set_nth_v snd].
  destruct (i =? 0); cbn [map snd]; [reflexivity|]. f_equal. apply IH.
Qed.

Lemma nth_view_kids {A} d (items : list (A * widget)) i a c :
  nthz items i = Some (a, c) -> nth_view d (map (fun it => view (snd it)) items) i = view c.
Proof. intro H. unfold nth_view. rewrite nthz_map, H. reflexivity. Qed.

Lemma cols_same_pile_nth items i c c' o :
  (fix go (l l' : list (popt * widget)) : bool :=
     match l, l' with
     | [], [] => true
     | it :: r, it' :: r' => cols_same (snd it) (snd it') && go r r'
     | _, _ => false
     end) items (set_nth_w items i c') = true ->
  nthz items i = Some (o, c) -> cols_same c c' = true.
Proof.
  revert i. induction items as [|[a w] items IH]; intros i H Hn; [rewrite nthz_nil in Hn; discriminate|].
  cbn [set_nth_w] in H. rewrite nthz_cons in Hn. destruct (i =? 0) eqn:E.
  - inversion Hn; subst. cbn [snd] in H. apply andb_true_iff in H as [H _]. exact H.
  - destruct (i <? 0); [discriminate|]. cbn [snd] in H. apply andb_true_iff in H as [_ H]. eapply IH; eauto.
Qed.

Lemma cols_same_cols_nth (items : list (copt * bool * widget)) i c c' o :
  (fix go (l l' : list (copt * bool * widget)) : bool :=
     match l, l' with
     | [], [] => true
     | it :: r, it' :: r' => cols_same (snd it) (snd it') && go r r'
     | _, _ => false
     end) items (set_nth_w items i c') = true ->
  nthz items i = Some (o, c) -> cols_same c c' = true.
Proof.
  revert i. induction items as [|[a w] items IH]; intros i H Hn; [rewrite nthz_nil in Hn; discriminate|].
  cbn [set_nth_w] in H. rewrite nthz_cons in Hn. destruct (i =? 0) eqn:E.
  - inversion Hn; subst. cbn [snd] in H. apply andb_true_iff in H as [H _]. exact H.
  - destruct (i <? 0); [discriminate|]. cbn [snd] in H. apply andb_true_iff in H as [_ H]. eapply IH; eauto.
Qed.

Lemma interp_fits_renode d d' nd nd' kids s :
  v_fits (interp d nd kids) s = true -> n_fits nd' s = true ->
  (forall q, In q (n_place nd' s) -> exists q0, In q0 (n_place nd s) /\ p_idx q0 = p_idx q /\ p_size q0 = p_size q) ->
  v_fits (interp d' nd' kids) s = true.
Proof.
  intros Hf Hn' Hpl. destruct (interp_fits_inv d nd kids s Hf) as [[Hc Hr] [Hn Hkids]].
  cbn [interp v_fits]. unfold interp_fits.
  assert (E1 : 1 <=? fst s = true) by qlia. rewrite E1, Hn'.
  assert (E2 : match snd s with Some r => 1 <=? r | None => true end = true).
  { destruct (snd s) as [r|]; [specialize (Hr r eq_refl); qlia|reflexivity]. }
  rewrite E2. cbn [andb]. apply forallb_forall. intros q Hq.
  destruct (Hpl q Hq) as [q0 [Hq0 [Ei Es]]]. specialize (Hkids q0 Hq0). rewrite Ei, Es in Hkids.
  unfold nth_view in *. destruct (nthz kids (p_idx q)); [exact Hkids|discriminate Hkids].
Qed.

(* ---- Pile ---- *)
Lemma pile_find_inv rs i0 w0 row i wrow cs :
  pile_find rs i0 w0 row = Some (i, wrow, cs) ->
  exists pre x post, rs = pre ++ x :: post /\ i = i0 + zlen pre /\ wrow = w0 + zsum (map fst pre) /\ cs = snd x /\
                     row < wrow + fst x.
Proof.
  revert i0 w0. induction rs as [|[h c] rs IH]; intros i0 w0 H; [discriminate|]. cbn [pile_find] in H.
  destruct (row <? w0 + h) eqn:E.
  - inversion H; subst. exists [], (h, cs), rs. change (zlen (@nil (Z * size))) with 0. cbn [map zsum fst snd app].
    repeat split; try qlia.
  - destruct (IH _ _ H) as [pre [x [post [-> [-> [-> [-> Hlt]]]]]]].
    exists ((h, c) :: pre), x, post. rewrite zlen_cons. cbn [map zsum fst app]. repeat split; try qlia.
Qed.

Section PileTarget.
  Variable its : list (popt * cinfo).
  Variable fp : Z.
  Let nd := Node (pile_info its) (pile_place its fp) (pile_cursor its fp) (pile_route its fp) (pile_move its) (pile_fits its fp).

  (* the item found by the row search is a placed child; its offset is the [wrow] of the search *)
  Lemma pile_find_placed s row i wrow cs :
    pile_fits its fp s = true -> pile_find (pile_rows_sizes its s) 0 0 row = Some (i, wrow, cs) ->
    0 <= i < zlen its /\ 0 <= wrow /\
    forall fp', In (Placed i 0 wrow cs (fp' =? i) false) (pile_place its fp' s) /\
                (forall q, In q (pile_place its fp' s) -> p_idx q = i -> q = Placed i 0 wrow cs (fp' =? i) false).
  Proof.
    intros Hf Hfind. destruct (pile_fits_inv its fp s Hf) as [Hfp [Hall Htot]].
    destruct (pile_find_inv _ _ _ _ _ _ _ Hfind) as [pre [x [post [E [Hi [Hw [Hc Hlt]]]]]]].
    pose proof Hall as Hall'. rewrite E in Hall'. apply Forall_app in Hall' as [Hpre Hrest].
    pose proof (Forall_inv Hrest) as Hx. cbn beta in Hx. pose proof (zsum_nonneg pre Hpre) as Hz.
    assert (Hlen : zlen (pile_rows_sizes its s) = zlen its) by (unfold zlen; rewrite pile_rows_sizes_length; reflexivity).
    rewrite E, zlen_app, zlen_cons in Hlen. pose proof (zlen_nonneg pre). pose proof (zlen_nonneg post).
    split; [qlia|]. split; [qlia|]. intro fp'. unfold pile_place. rewrite E. split.
    - pose proof (pile_place_from_in fp' pre x post 0 0 Hpre) as G.
      replace (0 + zlen pre) with i in G by qlia. replace (0 + zsum (map fst pre)) with wrow in G by qlia.
      rewrite Hc. apply G. qlia.
    - intros q Hq Hqi. rewrite <- E in Hq.
      destruct (pile_place_from_inv fp' _ 0 0 q Hall Hq) as [pre2 [x2 [post2 [E2 ->]]]].
      cbn [p_idx] in Hqi. rewrite E in E2.
      destruct (app_mid_eq pre pre2 x x2 post post2 E2) as [<- [<- <-]].
      { unfold zlen in *. qlia. }
      rewrite Hc. f_equal; qlia.
  Qed.

  Lemma pile_target : LocalMoveTarget nd (map snd its).
  Proof.
    unfold nd. intros s col row i cs c' r' nf Hf _ _ E. cbn [n_fits n_move n_place] in *. unfold pile_move in E.
    destruct (pile_find (pile_rows_sizes its s) 0 0 row) as [[[i0 wrow] cs0]|] eqn:Efind; [|discriminate].
    destruct (i_sel (nth_info (map snd its) i0)) eqn:Es; cbn [negb] in E; [|discriminate].
    destruct (i_hasmove (nth_info (map snd its) i0)) eqn:Eh; [|discriminate].
    inversion E; subst. split; [exact Eh|]. split; [right; auto|].
    destruct (pile_find_placed s row i wrow cs Hf Efind) as [Hi [Hw Hpl]]. destruct (Hpl fp) as [Hin Hfun].
    exists (Placed i 0 wrow cs (fp =? i) false). cbn [p_idx p_size p_y p_isfocus].
    repeat split; auto; try qlia. intro H; discriminate H.
  Qed.

  Lemma pile_fits_refocus s i : pile_fits its fp s = true -> 0 <= i < zlen its -> pile_fits its i s = true.
  Proof.
    unfold pile_fits. intros H Hi.
    apply andb_true_iff in H as [H H5]. apply andb_true_iff in H as [H H4].
    apply andb_true_iff in H as [H H3]. apply andb_true_iff in H as [H1 H2].
    rewrite H1, H4, H5. cbn [andb]. qlia.
  Qed.

  Lemma pile_place_refocus s i q :
    pile_fits its fp s = true -> In q (pile_place its i s) ->
    exists q0, In q0 (pile_place its fp s) /\ p_idx q0 = p_idx q /\ p_size q0 = p_size q.
  Proof.
    intros Hf Hq. destruct (pile_fits_inv its fp s Hf) as [_ [Hall _]]. unfold pile_place in *.
    destruct (pile_place_from_inv i _ 0 0 q Hall Hq) as [pre [x [post [E ->]]]].
    rewrite E in Hall. apply Forall_app in Hall as [Hpre Hrest]. pose proof (Forall_inv Hrest) as Hx. cbn beta in Hx.
    exists (Placed (0 + zlen pre) 0 (0 + zsum (map fst pre)) (snd x) (fp =? 0 + zlen pre) false).
    split; [|split; reflexivity]. rewrite E. apply pile_place_from_in; [exact Hpre|qlia].
  Qed.
End PileTarget.

Lemma zlen_combine_same {A B} (a : list A) (b : list B) : length a = length b -> zlen (combine a b) = zlen a.
Proof. intro H. unfold zlen. rewrite combine_length. qlia. Qed.

Lemma move_ok_pile items fp : Forall (fun it => MoveOK (snd it)) items -> MoveOK (Pile items fp).
Proof.
  intros IH s col row Hf Hm. unfold move_cursor, info, fits, cursor_coords, canvas_rows in *.
  rewrite view_eq in *. cbn [interp v_move v_info v_fits] in *. unfold interp_move.
  destruct (interp_fits_inv _ _ _ _ Hf) as [Hpos [Hn Hkids]].
  unfold wnode in *. cbn [kidviews kids_with node_of] in *.
  set (kids := map (fun it : popt * widget => view (snd it)) items) in *.
  set (its := combine (map fst items) (map v_info kids)) in *.
  assert (Elen : length (map fst items) = length (map v_info kids)) by (unfold kids; rewrite !map_length; reflexivity).
  assert (Eki : map snd its = map v_info kids) by (apply map_snd_combine; exact Elen).
  assert (Ezl : zlen its = zlen items).
  { unfold its. rewrite (zlen_combine_same _ _ Elen). apply zlen_map. }
  assert (Ezk : zlen kids = zlen items) by (unfold kids; apply zlen_map).
  cbn [n_move n_fits n_place n_info] in *.
  destruct (pile_move its s col row) as [| |i|i cs c' r' nf] eqn:E; cbn [m_ok m_w m_asked].
  - discriminate.
  - exfalso. unfold pile_move in E. destruct (pile_find _ _ _ _) as [[[? ?] ?]|]; [|discriminate].
    destruct (i_sel _) in E; cbn [negb] in E; [|discriminate]. destruct (i_hasmove _) in E; discriminate.
  - (* the child has no move_cursor_to_coords: only the focus moves *)
    intros _ _. cbn [set_focus]. rewrite view_eq. cbn [interp v_info v_fits]. unfold wnode. cbn [kidviews kids_with node_of].
    fold kids. fold its. cbn [n_info].
    split; [reflexivity|]. split; [|intro H; congruence].
    unfold pile_move in E. destruct (pile_find (pile_rows_sizes its s) 0 0 row) as [[[i0 wrow] cs0]|] eqn:Efind; [|discriminate].
    destruct (i_sel _) in E; cbn [negb] in E; [|discriminate]. destruct (i_hasmove _) in E; [discriminate|]. inversion E; subst i0.
    destruct (pile_find_placed its fp s row i wrow cs0 Hn Efind) as [Hi _].
    eapply (interp_fits_renode (Pile items fp) (Pile items i)); [exact Hf| |].
    + cbn [n_fits]. apply (pile_fits_refocus its fp s i Hn Hi).
    + cbn [n_place]. intros q Hq. apply (pile_place_refocus its fp s i q Hn Hq).
  - unfold pile_move in E. destruct (pile_find (pile_rows_sizes its s) 0 0 row) as [[[i0 wrow] cs0]|] eqn:Efind; [|discriminate].
    destruct (i_sel (nth_info (map snd its) i0)) eqn:Esel; cbn [negb] in E; [|discriminate].
    destruct (i_hasmove (nth_info (map snd its) i0)) eqn:Ehm; [|discriminate].
    inversion E; subst i0 cs0 c' r' nf. clear E.
    destruct (pile_find_placed its fp s row i wrow cs Hn Efind) as [Hi [Hw Hpl]].
    destruct (Hpl fp) as [Hp Hfun]. destruct (Hpl i) as [Hp' _].
    destruct (nthz_some items i) as [[o ci] Hni]; [qlia|].
    assert (Ekid : forall d, nth_view d kids i = view ci) by (intro d; unfold kids; apply (nth_view_kids d items i o ci Hni)).
    rewrite Ekid.
    assert (Einfo : nth_info (map snd its) i = v_info (view ci)).
    { rewrite Eki. rewrite <- (nth_view_info (Pile items fp)). rewrite Ekid. reflexivity. }
    rewrite Einfo in Esel, Ehm.
    assert (Hcf : v_fits (view ci) cs = true).
    { specialize (Hkids _ Hp). cbn [p_idx p_size] in Hkids. rewrite Ekid in Hkids. exact Hkids. }
    assert (IHi : MoveOK ci).
    { rewrite Forall_forall in IH. apply (IH (o, ci)). eapply nthz_In; eauto. }
    specialize (IHi cs col (row - wrow) Hcf Ehm). unfold move_cursor, info, fits, cursor_coords, canvas_rows in IHi. cbv zeta in IHi.
    destruct (m_ok (v_move (view ci) cs col (row - wrow))) eqn:Eok; cbn [m_ok m_w m_asked]; [|discriminate].
    intros _ Hsame. cbn [set_child set_focus] in *.
    set (c2 := m_w (v_move (view ci) cs col (row - wrow))) in *.
    cbn [cols_same] in Hsame. pose proof (cols_same_pile_nth items i ci c2 o Hsame Hni) as Hsame'.
    destruct (IHi eq_refl Hsame') as [Hinfo [Hfit' Hasked]]. clear IHi.
    rewrite view_eq. cbn [interp v_info v_fits v_cursor]. unfold wnode. cbn [kidviews kids_with node_of].
    rewrite kids_set_nth_w, map_fst_set_nth_w. fold kids.
    assert (Ekinfo : map v_info (set_nth_v kids i (view c2)) = map v_info kids).
    { apply (map_info_set kids i (view c2) (Pile items fp)); [qlia|]. rewrite Ekid. exact Hinfo. }
    rewrite Ekinfo. fold its. cbn [n_info].
    split; [reflexivity|]. split.
    + eapply (interp_fits_after (Pile items fp) _ _ _ kids i (view c2) s Hf).
      * cbn [n_fits]. apply (pile_fits_refocus its fp s i Hn). qlia.
      * cbn [n_place]. intros q Hq. apply (pile_place_refocus its fp s i q Hn Hq).
      * cbn [n_place]. intros q Hq Hqi. rewrite (Hfun q Hq Hqi). cbn [p_size]. exact Hfit'.
      * qlia.
    + intro Hne. destruct (Hasked Hne) as [_ [Hrow [x Hcur]]].
      split; [|split].
      * unfold pile_info. cbn [i_sel]. apply existsb_exists.
        destruct (nthz_some its i) as [[o' ci'] Hni']; [qlia|]. exists (o', ci'). split; [eapply nthz_In; eauto|].
        cbn [snd]. rewrite <- (nth_info_map_snd its i o' ci' Hni'). rewrite Einfo. exact Esel.
      * pose proof (pile_within its fp s _ Hn Hpos Hp) as [_ [_ [Hy0 Hy1]]]. cbn [p_y p_idx p_size n_info] in Hy0, Hy1.
        rewrite Einfo in Hy1. qlia.
      * eapply (interp_cursor_after _ _ (set_nth_v kids i (view c2)) s i cs x (row - wrow) row).
        -- rewrite Ekinfo, <- Eki. apply (pile_cursor_ok its i).
        -- cbn [n_fits]. apply (pile_fits_refocus its fp s i Hn). qlia.
        -- exact Hpos.
        -- exists (Placed i 0 wrow cs (i =? i) false). cbn [n_place p_isfocus p_idx p_size p_y].
           split; [exact Hp'|]. repeat split; qlia.
        -- rewrite nth_view_set_same by qlia. exact Hcur.
        -- rewrite nth_view_set_same by qlia. rewrite Hinfo. exact Esel.
        -- rewrite nth_view_set_same by qlia. apply hasmove_hascur. unfold info. rewrite Hinfo. exact Ehm.
        -- destruct (view_good c2) as [FP _]. destruct (FP cs Hfit') as [H1 _]. exact H1.
        -- rewrite nth_view_set_same by qlia. rewrite Hinfo. qlia.
Qed.

(* ---- Columns ---- *)
Lemma columns_best_inv dc col cs sels i0 x0 best r :
  columns_best cs sels i0 x0 dc col best = Some r ->
  best = Some r \/
  exists pre t post, cs = pre ++ t :: post /\ nthz sels (zlen pre) = Some true /\
    r = (i0 + zlen pre, x0 + xoff dc pre, x0 + xoff dc pre + cw t, snd t).
Proof.
  revert sels i0 x0 best r. induction cs as [|[[w h] c] cs IH]; intros sels i0 x0 best r H.
  - cbn [columns_best] in H. left. exact H.
  - destruct sels as [|b sels]; [cbn [columns_best] in H; left; exact H|]. cbn [columns_best] in H.
    assert (Here : forall r0, r0 = (i0, x0, x0 + w, c) ->
              exists pre t post, (w, h, c) :: cs = pre ++ t :: post /\ nthz (true :: sels) (zlen pre) = Some true /\
                r0 = (i0 + zlen pre, x0 + xoff dc pre, x0 + xoff dc pre + cw t, snd t)).
    { intros r0 ->. exists [], (w, h, c), cs. change (zlen (@nil (Z * Z * size))) with 0.
      split; [reflexivity|]. split; [reflexivity|]. unfold xoff, cw. cbn [map zsum fst snd]. peq. }
    assert (Later : forall b' r0,
              columns_best cs sels (i0 + 1) (x0 + w + dc) dc col b' = Some r0 ->
              b' = Some r0 \/
              exists pre t post, (w, h, c) :: cs = pre ++ t :: post /\ nthz (b :: sels) (zlen pre) = Some true /\
                r0 = (i0 + zlen pre, x0 + xoff dc pre, x0 + xoff dc pre + cw t, snd t)).
    { intros b' r0 Hb. destruct (IH _ _ _ _ _ Hb) as [Hl|[pre [t [post [-> [Hn ->]]]]]]; [left; exact Hl|].
      right. exists ((w, h, c) :: pre), t, post. split; [reflexivity|]. rewrite zlen_cons.
      pose proof (zlen_nonneg pre). split.
      - rewrite nthz_cons. assert (E1 : 1 + zlen pre =? 0 = false) by qlia. assert (E2 : 1 + zlen pre <? 0 = false) by qlia.
        rewrite E1, E2. replace (1 + zlen pre - 1) with (zlen pre) by qlia. exact Hn.
      - unfold xoff, cw. cbn [map zsum fst]. peq. }
    destruct b.
    + destruct best as [[[[bi bx] bend] bc]|].
      * destruct ((col <? x0) && (col - bend <? x0 - col)); [left; exact H|].
        destruct (col <? x0 + w).
        -- right. inversion H. apply Here. reflexivity.
        -- destruct (Later _ _ H) as [Hl|Hr]; [|right; exact Hr]. right. inversion Hl. apply Here. reflexivity.
      * destruct (col <? x0); [right; inversion H; apply Here; reflexivity|].
        destruct (col <? x0 + w); [right; inversion H; apply Here; reflexivity|].
        destruct (Later _ _ H) as [Hl|Hr]; [|right; exact Hr]. right. inversion Hl. apply Here. reflexivity.
    + destruct (Later _ _ H) as [Hl|Hr]; [left; exact Hl|right; exact Hr].
Qed.

Section ColumnsTarget.
  Variable items : col_items.
  Variable fp dc mw : Z.

  (* the column chosen by move_cursor_to_coords is a placed child *)
  Lemma columns_best_placed s col i x e csz :
    columns_fits items fp dc mw s = true ->
    columns_best (columns_sizes items fp dc mw s) (map (fun it : copt * bool * cinfo => i_sel (snd it)) items) 0 0 dc col None
      = Some (i, x, e, csz) ->
    0 <= i < zlen items /\ i_sel (nth_info (map snd items) i) = true /\
    In (Placed i x 0 csz (fp =? i) false) (columns_place items fp dc mw s) /\
    (forall q, In q (columns_place items fp dc mw s) -> p_idx q = i -> q = Placed i x 0 csz (fp =? i) false).
  Proof.
    intros Hf Hb. destruct (columns_fits_inv items fp dc mw s Hf) as [Hfp [Hdc [Hlen [Hw [Hh Hsum]]]]].
    destruct (columns_best_inv _ _ _ _ _ _ _ _ Hb) as [Hn|[pre [t [post [E [Hsel Hr]]]]]]; [discriminate|].
    inversion Hr; subst i x e csz. clear Hr.
    pose proof Hw as Hw'. rewrite E in Hw'. apply Forall_app in Hw' as [Hpre Hrest].
    pose proof (Forall_inv Hrest) as Ht. cbn beta in Ht.
    rewrite E, zlen_app, zlen_cons in Hlen. pose proof (zlen_nonneg pre). pose proof (zlen_nonneg post).
    replace (0 + zlen pre) with (zlen pre) by qlia. replace (0 + xoff dc pre) with (xoff dc pre) by qlia.
    split; [qlia|]. split; [|split].
    - rewrite nthz_map in Hsel. destruct (nthz items (zlen pre)) as [[[o b] ci]|] eqn:Ei; [|discriminate].
      cbn [option_map snd] in Hsel. rewrite (nth_info_map_snd items _ _ _ Ei). congruence.
    - unfold columns_place. rewrite E.
      pose proof (columns_place_from_in fp dc pre t post 0 0 _ eq_refl Hpre Ht) as G.
      replace (0 + zlen pre) with (zlen pre) in G by qlia. replace (0 + xoff dc pre) with (xoff dc pre) in G by qlia. exact G.
    - intros q Hq Hqi. unfold columns_place in Hq.
      destruct (columns_place_from_inv fp dc _ 0 0 _ q eq_refl Hw Hq) as [pre2 [t2 [post2 [E2 ->]]]].
      cbn [p_idx] in Hqi. rewrite E in E2.
      destruct (app_mid_eq pre pre2 t t2 post post2 E2) as [<- [<- <-]].
      { unfold zlen in *. qlia. }
      f_equal; qlia.
  Qed.
End ColumnsTarget.

Lemma move_ok_columns items fp dc mw : Forall (fun it => MoveOK (snd it)) items -> MoveOK (Columns items fp dc mw).
Proof.
  intros IH s col row Hf Hm. unfold move_cursor, info, fits, cursor_coords, canvas_rows in *.
  rewrite view_eq in *. cbn [interp v_move v_info v_fits] in *. unfold interp_move.
  destruct (interp_fits_inv _ _ _ _ Hf) as [Hpos [Hn Hkids]].
  unfold wnode in *. cbn [kidviews kids_with node_of] in *.
  set (kids := map (fun it : copt * bool * widget => view (snd it)) items) in *.
  set (its := combine (map fst items) (map v_info kids)) in *.
  assert (Elen : length (map fst items) = length (map v_info kids)) by (unfold kids; rewrite !map_length; reflexivity).
  assert (Eki : map snd its = map v_info kids) by (apply map_snd_combine; exact Elen).
  assert (Ezl : zlen its = zlen items).
  { unfold its. rewrite (zlen_combine_same _ _ Elen). apply zlen_map. }
  assert (Ezk : zlen kids = zlen items) by (unfold kids; apply zlen_map).
  cbn [n_move n_fits n_place n_info] in *.
  destruct (columns_move its fp dc mw s col row) as [| |i|i cs c' r' nf] eqn:E; cbn [m_ok m_w m_asked].
  - discriminate.
  - exfalso. unfold columns_move in E. destruct (columns_best _ _ _ _ _ _ _) as [[[[? ?] ?] ?]|]; [|discriminate].
    destruct (i_hasmove _) in E; discriminate.
  - (* the chosen column has no move_cursor_to_coords: only the focus moves (here: stays) *)
    intros _ Hsame. cbn [set_focus cols_same] in Hsame |- *. apply andb_true_iff in Hsame as [Hfp _].
    assert (i = fp) by qlia. subst i.
    rewrite view_eq. cbn [interp v_info v_fits]. unfold wnode. cbn [kidviews kids_with node_of].
    fold kids. fold its. cbn [n_info].
    split; [reflexivity|]. split; [exact Hf|intro H; congruence].
  - unfold columns_move in E.
    destruct (columns_best (columns_sizes its fp dc mw s) (map (fun it : copt * bool * cinfo => i_sel (snd it)) its) 0 0 dc col None)
      as [[[[i0 x0] e0] cs0]|] eqn:Ebest; [|discriminate].
    destruct (i_hasmove (nth_info (map snd its) i0)) eqn:Ehm; [|discriminate].
    inversion E; subst i0 cs0 c' r' nf. clear E.
    destruct (columns_best_placed its fp dc mw s col i x0 e0 cs Hn Ebest) as [Hi [Esel [Hp Hfun]]].
    destruct (nthz_some items i) as [[o ci] Hni]; [qlia|].
    assert (Ekid : forall d, nth_view d kids i = view ci) by (intro d; unfold kids; apply (nth_view_kids d items i o ci Hni)).
    rewrite Ekid.
    assert (Einfo : nth_info (map snd its) i = v_info (view ci)).
    { rewrite Eki. rewrite <- (nth_view_info (Columns items fp dc mw)). rewrite Ekid. reflexivity. }
    rewrite Einfo in Esel, Ehm.
    assert (Hcf : v_fits (view ci) cs = true).
    { specialize (Hkids _ Hp). cbn [p_idx p_size] in Hkids. rewrite Ekid in Hkids. exact Hkids. }
    assert (IHi : MoveOK ci).
    { rewrite Forall_forall in IH. apply (IH (o, ci)). eapply nthz_In; eauto. }
    specialize (IHi cs (Z.min (Z.max 0 (col - x0)) (e0 - x0 - 1)) row Hcf Ehm).
    unfold move_cursor, info, fits, cursor_coords, canvas_rows in IHi. cbv zeta in IHi.
    destruct (m_ok (v_move (view ci) cs (Z.min (Z.max 0 (col - x0)) (e0 - x0 - 1)) row)) eqn:Eok; cbn [m_ok m_w m_asked]; [|discriminate].
    intros _ Hsame. cbn [set_child set_focus] in *.
    set (c2 := m_w (v_move (view ci) cs (Z.min (Z.max 0 (col - x0)) (e0 - x0 - 1)) row)) in *.
    cbn [cols_same] in Hsame. apply andb_true_iff in Hsame as [Hfp Hsame].
    assert (i = fp) by qlia. subst i.
    pose proof (cols_same_cols_nth items fp ci c2 o Hsame Hni) as Hsame'.
    destruct (IHi eq_refl Hsame') as [Hinfo [Hfit' Hasked]]. clear IHi.
    rewrite view_eq. cbn [interp v_info v_fits v_cursor]. unfold wnode. cbn [kidviews kids_with node_of].
    rewrite kids_set_nth_w, map_fst_set_nth_w. fold kids.
    assert (Ekinfo : map v_info (set_nth_v kids fp (view c2)) = map v_info kids).
    { apply (map_info_set kids fp (view c2) (Columns items fp dc mw)); [qlia|]. rewrite Ekid. exact Hinfo. }
    rewrite Ekinfo. fold its. cbn [n_info].
    split; [reflexivity|]. split.
    + eapply (interp_fits_after (Columns items fp dc mw) _ _ _ kids fp (view c2) s Hf).
      * cbn [n_fits]. exact Hn.
      * cbn [n_place]. intros q Hq. exists q. auto.
      * cbn [n_place]. intros q Hq Hqi. rewrite (Hfun q Hq Hqi). cbn [p_size]. exact Hfit'.
      * qlia.
    + intro Hne. destruct (Hasked Hne) as [_ [Hrow [x Hcur]]].
      split; [|split].
      * unfold columns_info. cbn [i_sel]. apply existsb_exists.
        destruct (nthz_some its fp) as [[o' ci'] Hni']; [qlia|]. exists (o', ci'). split; [eapply nthz_In; eauto|].
        cbn [snd]. rewrite <- (nth_info_map_snd its fp o' ci' Hni'). rewrite Einfo. exact Esel.
      * pose proof (columns_within its fp dc mw s _ Hn Hpos Hp) as [_ [_ [Hy0 Hy1]]]. cbn [p_y p_idx p_size n_info] in Hy0, Hy1.
        rewrite Einfo in Hy1. qlia.
      * eapply (interp_cursor_after _ _ (set_nth_v kids fp (view c2)) s fp cs x row row).
        -- rewrite Ekinfo, <- Eki. apply (columns_cursor_ok its fp dc mw).
        -- cbn [n_fits]. exact Hn.
        -- exact Hpos.
        -- exists (Placed fp x0 0 cs (fp =? fp) false). cbn [n_place p_isfocus p_idx p_size p_y].
           split; [exact Hp|]. repeat split; qlia.
        -- rewrite nth_view_set_same by qlia. exact Hcur.
        -- rewrite nth_view_set_same by qlia. rewrite Hinfo. exact Esel.
        -- rewrite nth_view_set_same by qlia. apply hasmove_hascur. unfold info. rewrite Hinfo. exact Ehm.
        -- destruct (view_good c2) as [FP _]. destruct (FP cs Hfit') as [H1 _]. exact H1.
        -- rewrite nth_view_set_same by qlia. rewrite Hinfo. qlia.
Qed.

(* ---- every widget ---- *)
Theorem move_ok_all : forall w, MoveOK w.
Proof.
  induction w using widget_ind2.
  - apply move_ok_leaf.
  - apply move_ok_pile. exact H.
  - apply move_ok_columns. exact H.
  - apply move_ok_padding. exact IHw.
  - apply move_ok_filler. exact IHw.
  - apply move_ok_nomove. unfold info. rewrite view_eq. unfold wnode. rewrite frame_node_eq. reflexivity.
  - apply move_ok_boxadapter. exact IHw.
  - apply move_ok_attrmap. exact IHw.
  - apply move_ok_nomove. reflexivity.
Qed.
