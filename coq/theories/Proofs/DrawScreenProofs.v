(* C04 - proofs: the token stream of Model/DrawScreen.v, interpreted by Model/TermRef.v, paints
   the canvas (Model/PaintSpec.v). *)
From Coq Require Import ZArith List Bool Lia ZifyBool.
From Urwid Require Import PyBase attrspec_escape_gen TermRef DrawScreen PaintSpec TermRefFacts.
Import ListNotations.
Open Scope Z_scope.

Arguments Z.add : simpl never.
Arguments Z.sub : simpl never.
Arguments Z.mul : simpl never.
Arguments Z.ltb : simpl never.
Arguments Z.leb : simpl never.
Arguments Z.eqb : simpl never.
Arguments Z.min : simpl never.
Arguments Z.max : simpl never.
Arguments Z.to_nat : simpl never.
Arguments Z.of_nat : simpl never.

(* ================= 1. SGR: the parameter list means the visual attribute ================= *)
Lemma apply_sgr_plain p r a : p <> 38 -> p <> 48 -> apply_sgr (p :: r) a = apply_sgr r (sgr1 p a).
Proof.
  intros H1 H2. cbn [apply_sgr]. destruct (p =? 38) eqn:E1; [lia|]. destruct (p =? 48) eqn:E2; [lia|]. reflexivity.
Qed.

Lemma sgr1_fg_low n a : 0 <= n <= 7 -> sgr1 (n + 30) a = set_fg a (CBasic n).
Proof.
  intros H. unfold sgr1.
  repeat match goal with |- context [?x =? ?y] => destruct (x =? y) eqn:?; try lia end.
  assert (E : (30 <=? n + 30) && (n + 30 <=? 37) = true) by lia. rewrite E. f_equal. f_equal. lia.
Qed.

Lemma sgr1_fg_bright n a : 8 <= n <= 15 -> sgr1 (n - 8 + 90) a = set_fg a (CBasic n).
Proof.
  intros H. unfold sgr1.
  repeat match goal with |- context [?x =? ?y] => destruct (x =? y) eqn:?; try lia end.
  assert (E : (30 <=? n - 8 + 90) && (n - 8 + 90 <=? 37) = false) by lia. rewrite E.
  assert (E' : (90 <=? n - 8 + 90) && (n - 8 + 90 <=? 97) = true) by lia. rewrite E'. f_equal. f_equal. lia.
Qed.

Lemma sgr1_bg_low n a : 0 <= n <= 7 -> sgr1 (n + 40) a = set_bg a (CBasic n).
Proof.
  intros H. unfold sgr1.
  repeat match goal with |- context [?x =? ?y] => destruct (x =? y) eqn:?; try lia end.
  assert (E : (30 <=? n + 40) && (n + 40 <=? 37) = false) by lia. rewrite E.
  assert (E1 : (90 <=? n + 40) && (n + 40 <=? 97) = false) by lia. rewrite E1.
  assert (E2 : (40 <=? n + 40) && (n + 40 <=? 47) = true) by lia. rewrite E2. f_equal. f_equal. lia.
Qed.

Lemma sgr1_bg_bright n a : 8 <= n <= 15 -> sgr1 (n - 8 + 100) a = set_bg a (CBasic n).
Proof.
  intros H. unfold sgr1.
  repeat match goal with |- context [?x =? ?y] => destruct (x =? y) eqn:?; try lia end.
  assert (E : (30 <=? n - 8 + 100) && (n - 8 + 100 <=? 37) = false) by lia. rewrite E.
  assert (E1 : (90 <=? n - 8 + 100) && (n - 8 + 100 <=? 97) = false) by lia. rewrite E1.
  assert (E2 : (40 <=? n - 8 + 100) && (n - 8 + 100 <=? 47) = false) by lia. rewrite E2.
  assert (E3 : (100 <=? n - 8 + 100) && (n - 8 + 100 <=? 107) = true) by lia. rewrite E3. f_equal. f_equal. lia.
Qed.

Definition fg_part (bib : bool) (a : aspec) : list Z :=
  if s_fgk a =? 3 then [38; 2; s_fr a; s_fg a; s_fb a]
  else if s_fgk a =? 2 then [38; 5; s_fgn a]
  else if s_fgk a =? 1 then
    (if 7 <? s_fgn a then (if bib then [1; s_fgn a - 8 + 30] else [s_fgn a - 8 + 90]) else [s_fgn a + 30])
  else [39].
Definition st_part (a : aspec) : list Z :=
  (if s_bold a then [1] else []) ++ (if s_ital a then [3] else []) ++ (if s_under a then [4] else [])
  ++ (if s_blink a then [5] else []) ++ (if s_stand a then [7] else []) ++ (if s_strike a then [9] else []).
Definition bg_part (bbb : bool) (a : aspec) : list Z :=
  if s_bgk a =? 3 then [48; 2; s_br a; s_bg a; s_bb a]
  else if s_bgk a =? 2 then [48; 5; s_bgn a]
  else if s_bgk a =? 1 then
    (if 7 <? s_bgn a then (if bbb then [5; s_bgn a - 8 + 40] else [s_bgn a - 8 + 100]) else [s_bgn a + 40])
  else [49].

(* the function translated from the source is the concatenation of these three parts *)
Lemma spec_to_sgr_parts bib bbb a : spec_to_sgr bib bbb a = 0 :: fg_part bib a ++ st_part a ++ bg_part bbb a.
Proof.
  unfold spec_to_sgr, attrspec_escape_gen.attrspec_to_sgr_gen.
  apply (f_equal (cons 0)). apply f_equal2; [|apply f_equal2].
  - unfold fg_part. destruct (s_fgk a =? 3); [reflexivity|]. destruct (s_fgk a =? 2); [reflexivity|].
    destruct (s_fgk a =? 1); [|reflexivity]. destruct (7 <? s_fgn a); [destruct bib|]; reflexivity.
  - unfold st_part. destruct (s_bold a), (s_ital a), (s_under a), (s_blink a), (s_stand a), (s_strike a); reflexivity.
  - unfold bg_part. destruct (s_bgk a =? 3); [reflexivity|]. destruct (s_bgk a =? 2); [reflexivity|].
    destruct (s_bgk a =? 1); [|reflexivity]. destruct (7 <? s_bgn a); [destruct bbb|]; reflexivity.
Qed.

Lemma fg_part_ok bib s rest v : (s_fgk s = 1 -> 0 <= s_fgn s <= 15) ->
  apply_sgr (fg_part bib s ++ rest) v =
  apply_sgr rest
    (let fgb := (s_fgk s =? 1) && (7 <? s_fgn s) && bib in
     mkAttr (if fgb then CBasic (s_fgn s - 8) else color_of (s_fgk s) (s_fgn s) (s_fr s) (s_fg s) (s_fb s))
            (a_bg v) (a_bold v || fgb) (a_ital v) (a_under v) (a_blink v) (a_stand v) (a_strike v)).
Proof.
  intros Hr. unfold fg_part, color_of.
  destruct (s_fgk s =? 3) eqn:K3.
  { assert (K1 : s_fgk s =? 1 = false) by lia. rewrite K1. cbn [andb app]. rewrite orb_false_r. destruct v; reflexivity. }
  destruct (s_fgk s =? 2) eqn:K2.
  { assert (K1 : s_fgk s =? 1 = false) by lia. rewrite K1. cbn [andb app]. rewrite orb_false_r. destruct v; reflexivity. }
  destruct (s_fgk s =? 1) eqn:K1.
  2:{ cbn [andb app]. rewrite orb_false_r. destruct v; reflexivity. }
  assert (Hn : 0 <= s_fgn s <= 15) by (apply Hr; lia).
  destruct (7 <? s_fgn s) eqn:B; cbn [andb].
  - destruct bib; cbn [app].
    + rewrite apply_sgr_plain by lia.
      rewrite apply_sgr_plain by lia.
      replace (s_fgn s - 8 + 30) with ((s_fgn s - 8) + 30) by lia.
      rewrite sgr1_fg_low by lia. rewrite orb_true_r. destruct v; reflexivity.
    + rewrite apply_sgr_plain by lia. rewrite sgr1_fg_bright by lia. rewrite orb_false_r. destruct v; reflexivity.
  - cbn [app]. rewrite apply_sgr_plain by lia. rewrite sgr1_fg_low by lia. rewrite orb_false_r. destruct v; reflexivity.
Qed.

Lemma st_part_ok s rest v :
  apply_sgr (st_part s ++ rest) v =
  apply_sgr rest (mkAttr (a_fg v) (a_bg v) (a_bold v || s_bold s) (a_ital v || s_ital s) (a_under v || s_under s)
                         (a_blink v || s_blink s) (a_stand v || s_stand s) (a_strike v || s_strike s)).
Proof.
  unfold st_part. destruct v as [f b b1 b2 b3 b4 b5 b6]. cbn [a_fg a_bg a_bold a_ital a_under a_blink a_stand a_strike].
  destruct (s_bold s), (s_ital s), (s_under s), (s_blink s), (s_stand s), (s_strike s);
    cbn [app]; rewrite ?orb_true_r, ?orb_false_r; reflexivity.
Qed.

Lemma bg_part_ok bbb s v : (s_bgk s = 1 -> 0 <= s_bgn s <= 15) ->
  apply_sgr (bg_part bbb s) v =
    (let bgb := (s_bgk s =? 1) && (7 <? s_bgn s) && bbb in
     mkAttr (a_fg v)
            (if bgb then CBasic (s_bgn s - 8) else color_of (s_bgk s) (s_bgn s) (s_br s) (s_bg s) (s_bb s))
            (a_bold v) (a_ital v) (a_under v) (a_blink v || bgb) (a_stand v) (a_strike v)).
Proof.
  intros Hr. unfold bg_part, color_of.
  destruct (s_bgk s =? 3) eqn:K3.
  { assert (K1 : s_bgk s =? 1 = false) by lia. rewrite K1. cbn [andb]. rewrite orb_false_r. destruct v; reflexivity. }
  destruct (s_bgk s =? 2) eqn:K2.
  { assert (K1 : s_bgk s =? 1 = false) by lia. rewrite K1. cbn [andb]. rewrite orb_false_r. destruct v; reflexivity. }
  destruct (s_bgk s =? 1) eqn:K1.
  2:{ cbn [andb]. rewrite orb_false_r. destruct v; reflexivity. }
  assert (Hn : 0 <= s_bgn s <= 15) by (apply Hr; lia).
  destruct (7 <? s_bgn s) eqn:B; cbn [andb].
  - destruct bbb.
    + rewrite apply_sgr_plain by lia.
      rewrite apply_sgr_plain by lia.
      replace (s_bgn s - 8 + 40) with ((s_bgn s - 8) + 40) by lia.
      rewrite sgr1_bg_low by lia. rewrite orb_true_r. destruct v; reflexivity.
    + rewrite apply_sgr_plain by lia. rewrite sgr1_bg_bright by lia. rewrite orb_false_r. destruct v; reflexivity.
  - rewrite apply_sgr_plain by lia. rewrite sgr1_bg_low by lia. rewrite orb_false_r. destruct v; reflexivity.
Qed.

(* whatever the terminal's attribute was, after the SGR of an AttrSpec it is its visual attribute *)
Lemma sgr_roundtrip bib bbb s v : spec_ok s -> apply_sgr (spec_to_sgr bib bbb s) v = visual bib bbb s.
Proof.
  intros [Hf Hb]. rewrite spec_to_sgr_parts. rewrite apply_sgr_plain by lia.
  replace (sgr1 0 v) with def_attr by reflexivity.
  rewrite fg_part_ok by assumption. rewrite st_part_ok. rewrite bg_part_ok by assumption.
  unfold visual. cbn. f_equal.
  - destruct ((s_fgk s =? 1) && (7 <? s_fgn s) && bib), (s_bold s); reflexivity.
Qed.

(* ================= 2. attribute switches ================= *)
Lemma default_spec_ok : spec_ok default_spec.
Proof. split; cbn; lia. Qed.

Lemma lookup_spec_ok c a : cfg_ok c -> spec_ok (snd (lookup_attr c a)).
Proof.
  intros H. unfold lookup_attr. destruct (nthz (g_atab c) a) as [e|] eqn:E.
  - unfold cfg_ok in H. rewrite Forall_forall in H. apply H.
    unfold nthz in E. destruct (a <? 0); [discriminate|]. eapply nth_error_In; eauto.
  - apply default_spec_ok.
Qed.

Lemma attr_escape_run c a t : cfg_ok c -> run t (attr_to_escape c a) = set_attr t (attr_vis c a).
Proof.
  intros H. pose proof (lookup_spec_ok c a H) as Hs.
  unfold attr_to_escape, attr_vis. destruct (lookup_attr c a) as [k sp]. cbn [snd] in Hs.
  destruct (k =? 2); cbn [run fold_left step]; rewrite spec_to_sgr_parts; cbn [app];
    rewrite <- spec_to_sgr_parts; rewrite sgr_roundtrip; auto using default_spec_ok.
Qed.

Ltac splits := repeat match goal with |- _ /\ _ => split end.
(* ================= 3. printing a text ================= *)
Definition text_cells (cs : Z) (v : vattr) (text : list chr) : list cell := paint_text [] cs v text.

Definition w12 (ch : chr) : Prop := snd ch = 0 \/ snd ch = 1 \/ snd ch = 2.

Lemma calc_width_nonneg text : Forall w12 text -> 0 <= calc_width text.
Proof. induction 1 as [|ch l H _ IH]; cbn [calc_width]; [lia|]. destruct H as [H|[H|H]]; lia. Qed.

Lemma calc_width_app a b : calc_width (a ++ b) = calc_width a + calc_width b.
Proof. induction a; cbn [calc_width app]; lia. Qed.

Lemma paint_text_cons P cs v ch text : paint_text P cs v (ch :: text) = paint_text (paint_chr cs v P ch) cs v text.
Proof. reflexivity. Qed.

Lemma paint_text_app P cs v a b : paint_text P cs v (a ++ b) = paint_text (paint_text P cs v a) cs v b.
Proof. unfold paint_text. apply fold_left_app. Qed.

Lemma paint_chr_ok cs v P ch : WFc P -> w12 ch ->
  WFc (paint_chr cs v P ch) /\ zlen (paint_chr cs v P ch) = zlen P + snd ch.
Proof.
  intros HP Hw. unfold paint_chr. destruct (snd ch =? 0) eqn:E.
  - destruct (zlen_combine_last P (fst ch) HP) as [Hz Hwf]. split; [exact Hwf|]. rewrite Hz. lia.
  - split.
    + apply WFc_app; [exact HP|]. apply WFc_char_cells. destruct Hw as [H|[H|H]]; lia.
    + rewrite zlen_app, zlen_char_cells by (destruct Hw as [H|[H|H]]; lia). reflexivity.
Qed.

Lemma paint_text_ok cs v text : forall P, WFc P -> Forall w12 text ->
  WFc (paint_text P cs v text) /\ zlen (paint_text P cs v text) = zlen P + calc_width text.
Proof.
  induction text as [|ch text IH]; intros P HP Hw.
  - cbn. split; [exact HP|lia].
  - inversion Hw as [|? ? Hch Hw']; subst. rewrite paint_text_cons.
    destruct (paint_chr_ok cs v P ch HP Hch) as [H1 H2].
    destruct (IH _ H1 Hw') as [H3 H4]. split; [exact H3|]. rewrite H4, H2. cbn [calc_width]. lia.
Qed.

Lemma zlen_text_cells cs v text : Forall w12 text -> zlen (text_cells cs v text) = calc_width text.
Proof. intros H. destruct (paint_text_ok cs v text [] WFc_nil H) as [_ E]. unfold text_cells. rewrite E. reflexivity. Qed.

Lemma WFc_text_cells cs v text : Forall w12 text -> WFc (text_cells cs v text).
Proof. intros H. apply (paint_text_ok cs v text [] WFc_nil H). Qed.

(* a combining character only touches what was painted last *)
Lemma combine_last_prefix P Q cp : WFc Q -> Q <> [] -> combine_last (P ++ Q) cp = P ++ combine_last Q cp.
Proof.
  intros HQ Hne. destruct (WFc_last_cases Q HQ) as [->|[(Q' & c & -> & A & B & C)|(Q' & c & d & -> & A & B & C)]].
  - congruence.
  - rewrite app_assoc. rewrite !combine_last_narrow by assumption. now rewrite app_assoc.
  - rewrite app_assoc. rewrite !combine_last_wide by assumption. now rewrite app_assoc.
Qed.

Lemma paint_text_prefix cs v text : forall P Q, WFc Q -> Q <> [] -> Forall w12 text ->
  paint_text (P ++ Q) cs v text = P ++ paint_text Q cs v text.
Proof.
  induction text as [|ch text IH]; intros P Q HQ Hne Hw; [reflexivity|].
  inversion Hw as [|? ? Hch Hw']; subst. rewrite !paint_text_cons.
  destruct (paint_chr_ok cs v Q ch HQ Hch) as [H1 H2].
  assert (Hne' : paint_chr cs v Q ch <> []).
  { intros E. rewrite E in H2. change (zlen (@nil cell)) with 0 in H2.
    assert (Hq : 0 < zlen Q) by (destruct Q; [congruence|rewrite zlen_cons; pose proof (zlen_nonneg Q); lia]).
    destruct Hch as [Hh|[Hh|Hh]]; lia. }
  assert (E : paint_chr cs v (P ++ Q) ch = P ++ paint_chr cs v Q ch).
  { unfold paint_chr. destruct (snd ch =? 0); [apply combine_last_prefix; assumption|now rewrite app_assoc]. }
  rewrite E. apply IH; assumption.
Qed.

(* a text that starts with a character taking a column does not touch what was painted before it *)
Lemma paint_text_base cs v text P : Forall w12 text -> starts_with_base text ->
  paint_text P cs v text = P ++ text_cells cs v text.
Proof.
  intros Hw Hb. unfold text_cells. destruct text as [|ch text]; [cbn; now rewrite app_nil_r|].
  inversion Hw as [|? ? Hch Hw']; subst. cbn [starts_with_base] in Hb. rewrite !paint_text_cons.
  unfold paint_chr. destruct (snd ch =? 0) eqn:E; [lia|]. cbn [app].
  assert (Hc : WFc (char_cells (fst ch) (snd ch) cs v)) by (apply WFc_char_cells; destruct Hch as [H|[H|H]]; lia).
  assert (Hn : char_cells (fst ch) (snd ch) cs v <> []) by (unfold char_cells; rewrite E; discriminate).
  rewrite <- (app_nil_r (P ++ char_cells (fst ch) (snd ch) cs v)) at 1.
  rewrite <- app_assoc. rewrite (paint_text_prefix cs v text P _ ) ; auto.
  - cbn [app]. rewrite app_nil_r. reflexivity.
  - rewrite app_nil_r. exact Hc.
  - rewrite app_nil_r. exact Hn.
Qed.

Lemma text_cells_app cs v a b : Forall w12 a -> Forall w12 b -> starts_with_base b ->
  text_cells cs v (a ++ b) = text_cells cs v a ++ text_cells cs v b.
Proof.
  intros Ha Hb Hs. unfold text_cells at 1. rewrite paint_text_app. fold (text_cells cs v a).
  apply paint_text_base; assumption.
Qed.

Lemma SameFrame_g1 t0 t t' y : SameFrame t0 t y -> SameFrame t0 t' y -> t_g1 t' = t_g1 t.
Proof. unfold SameFrame. intuition congruence. Qed.

Lemma SameFrame_len t0 t y : SameFrame t0 t y -> zlen (t_grid t) = zlen (t_grid t0).
Proof. unfold SameFrame. intuition. Qed.

(* printing any text (characters of width 0, 1, 2) that fits on the line; insert mode only matters for
   characters that take a column *)
Lemma print_any text : forall t0 t y P R,
  RowSt t y P R -> SameFrame t0 t y -> 0 <= y < zlen (t_grid t0) ->
  (t_irm t = false \/ Forall (fun ch : chr => snd ch = 0) text) ->
  Forall w12 text -> zlen P + calc_width text <= t_cols t ->
  exists R', RowSt (run t (map ch_tok text)) y (paint_text P (cur_cs t) (t_attr t) text) R'
          /\ SameFrame t0 (run t (map ch_tok text)) y /\ SameModes t (run t (map ch_tok text))
          /\ (Forall (fun ch : chr => snd ch = 0) text -> R' = R).
Proof.
  induction text as [|ch text IH]; intros t0 t y P R HR HF Hy Hirm Hw Hfit.
  - exists R. cbn [map run fold_left paint_text]. auto using SameModes_refl.
  - inversion Hw as [|? ? Hch Hw']; subst. cbn [calc_width] in Hfit.
    pose proof (calc_width_nonneg text Hw') as Hnn.
    cbn [map]. rewrite run_cons. unfold ch_tok at 1. cbn [step]. rewrite paint_text_cons.
    assert (Hyt : 0 <= y < zlen (t_grid t)) by (rewrite (SameFrame_len _ _ _ HF); exact Hy).
    assert (H1 : exists R1, RowSt (put t (fst ch) (snd ch)) y (paint_chr (cur_cs t) (t_attr t) P ch) R1
                   /\ SameFrame t0 (put t (fst ch) (snd ch)) y /\ SameModes t (put t (fst ch) (snd ch))
                   /\ (snd ch = 0 -> R1 = R)).
    { unfold paint_chr. destruct (snd ch =? 0) eqn:E0.
      - assert (E : snd ch = 0) by lia. rewrite E.
        destruct (put_zero_ok t0 t y P R (fst ch) HR HF Hyt) as (A & B & C). exists R. auto.
      - assert (Hirm' : t_irm t = false).
        { destruct Hirm as [H|H]; [exact H|]. apply Forall_inv in H. lia. }
        destruct (put_ok t0 t y P R (fst ch) (snd ch) HR HF Hyt Hirm') as (A & B & C).
        { destruct Hch as [H|[H|H]]; lia. }
        { lia. }
        eexists. splits; eauto. intros H. lia. }
    destruct H1 as (R1 & HR1 & HF1 & HM1 & HR1eq).
    set (t1 := put t (fst ch) (snd ch)) in *.
    assert (Hirm1 : t_irm t1 = false \/ Forall (fun ch : chr => snd ch = 0) text).
    { destruct Hirm as [H|H]; [left; destruct HM1 as (_ & -> & _); exact H|right; eapply Forall_inv_tail; eauto]. }
    assert (Hcols : t_cols t1 = t_cols t).
    { destruct HF as (-> & _). destruct HF1 as (-> & _). reflexivity. }
    assert (Hz : zlen (paint_chr (cur_cs t) (t_attr t) P ch) = zlen P + snd ch).
    { apply paint_chr_ok; [apply HR|exact Hch]. }
    destruct (IH t0 t1 y _ _ HR1 HF1 Hy Hirm1 Hw') as (R' & HR2 & HF2 & HM2 & HR2eq).
    { rewrite Hz. lia. }
    exists R'. splits.
    + assert (Ecs : cur_cs t1 = cur_cs t) by (apply cur_cs_modes; [exact HM1|eapply SameFrame_g1; eauto]).
      assert (Eat : t_attr t1 = t_attr t) by (destruct HM1 as (-> & _); reflexivity).
      rewrite Ecs, Eat in HR2. exact HR2.
    + exact HF2.
    + eapply SameModes_trans; eauto.
    + intros Hall. rewrite HR2eq by (eapply Forall_inv_tail; eauto). apply HR1eq. apply Forall_inv in Hall. exact Hall.
Qed.

Lemma print_ok text : forall t0 t y P R,
  RowSt t y P R -> SameFrame t0 t y -> 0 <= y < zlen (t_grid t0) -> t_irm t = false ->
  Forall w12 text -> starts_with_base text -> zlen P + calc_width text <= t_cols t ->
  exists R', RowSt (run t (map ch_tok text)) y (P ++ text_cells (cur_cs t) (t_attr t) text) R'
          /\ SameFrame t0 (run t (map ch_tok text)) y /\ SameModes t (run t (map ch_tok text)).
Proof.
  intros t0 t y P R HR HF Hy Hirm Hw Hb Hfit.
  destruct (print_any text t0 t y P R HR HF Hy (or_introl Hirm) Hw Hfit) as (R' & A & B & C & _).
  exists R'. rewrite paint_text_base in A by assumption. auto.
Qed.

(* ================= 4. the runs of a row ================= *)
Definition run_ok' (c : cfg) (r : crun) : Prop :=
  let '(a, cs, text) := r in
  Forall (chr_ok (g_utf8 c)) text /\ starts_with_base text /\ (if g_utf8 c then cs = 0 else cs = 0 \/ cs = 1 \/ cs = 2).

(* the terminal's charset selection agrees with first / last_charset_flag *)
Definition CsInv (c : cfg) (first : bool) (lcs : Z) (t : term) : Prop :=
  if g_utf8 c then t_so t = false /\ t_ibm t = false
  else t_g1 t = true /\ (lcs = 0 \/ lcs = 1 \/ lcs = 2) /\
       (first = true -> lcs = 0 /\ t_ibm t = false) /\
       (first = false -> t_ibm t = (lcs =? 2) /\ (lcs = 0 -> t_so t = false) /\ (lcs = 1 -> t_so t = true)).

(* terminal modes agree with the bookkeeping of the run loop *)
Definition Inv (c : cfg) (rs : rstate) (t : term) : Prop :=
  t_attr t = attr_vis c (r_last rs) /\ t_irm t = false /\ CsInv c (r_first rs) (r_lcs rs) t.

Lemma chr_ok_w12 u ch : chr_ok u ch -> w12 ch.
Proof. unfold chr_ok, w12. intuition. Qed.

Lemma Forall_chr_ok_w12 u text : Forall (chr_ok u) text -> Forall w12 text.
Proof. intros H. eapply Forall_impl; [|exact H]. intros; eapply chr_ok_w12; eauto. Qed.

(* ---------- the text that is sent for a run ---------- *)
Lemma trans_text_cons u ch text :
  trans_text u (ch :: text) =
    (if u then (if fst ch <? 32 then [] else [ch]) else [trans_chr ch]) ++ trans_text u text.
Proof. unfold trans_text. destruct u; cbn [filter map app]; [|reflexivity]. destruct (fst ch <? 32); reflexivity. Qed.

Lemma trans_text_app u a b : trans_text u (a ++ b) = trans_text u a ++ trans_text u b.
Proof. unfold trans_text. destruct u; [apply filter_app|apply map_app]. Qed.

Lemma out_text_app c cs a b : out_text c cs (a ++ b) = out_text c cs a ++ out_text c cs b.
Proof. unfold out_text. destruct (cs =? 2); [reflexivity|apply trans_text_app]. Qed.

Lemma trans_text_ok u text : Forall (chr_ok u) text ->
  Forall w12 (trans_text u text) /\ calc_width (trans_text u text) = calc_width text /\
  (starts_with_base text -> starts_with_base (trans_text u text)) /\
  (Forall (fun ch : chr => snd ch = 0) text -> Forall (fun ch : chr => snd ch = 0) (trans_text u text)).
Proof.
  induction 1 as [|ch l H _ IH].
  - unfold trans_text. destruct u; cbn; splits; auto.
  - destruct IH as (I1 & I2 & I3 & I4). rewrite trans_text_cons.
    pose proof (chr_ok_w12 _ _ H) as Hw. destruct H as (H0 & H1 & H2 & H3).
    destruct u.
    + destruct (fst ch <? 32) eqn:E; cbn [app].
      * assert (Hz : snd ch = 0) by (apply H3; [lia|reflexivity]).
        splits; auto.
        -- cbn [calc_width]. lia.
        -- cbn [starts_with_base]. intros Hb. congruence.
        -- intros Hall. apply I4. eapply Forall_inv_tail; eauto.
      * splits.
        -- constructor; assumption.
        -- cbn [calc_width]. lia.
        -- cbn [starts_with_base]. auto.
        -- intros Hall. constructor; [apply (Forall_inv Hall)|apply I4; eapply Forall_inv_tail; eauto].
    + cbn [app]. assert (Hw1 : snd ch = 1) by (destruct H1 as [Hh|[Hh _]]; [exact Hh|discriminate]).
      assert (Ht : snd (trans_chr ch) = 1) by (unfold trans_chr; destruct (fst ch <? 32); [reflexivity|exact Hw1]).
      splits.
      * constructor; [right; left; exact Ht|exact I1].
      * cbn [calc_width]. lia.
      * cbn [starts_with_base]. intros _. lia.
      * intros Hall. apply Forall_inv in Hall. lia.
Qed.

Lemma out_text_ok c cs text : Forall (chr_ok (g_utf8 c)) text ->
  Forall w12 (out_text c cs text) /\ calc_width (out_text c cs text) = calc_width text /\
  (starts_with_base text -> starts_with_base (out_text c cs text)) /\
  (Forall (fun ch : chr => snd ch = 0) text -> Forall (fun ch : chr => snd ch = 0) (out_text c cs text)).
Proof.
  intros H. unfold out_text. destruct (cs =? 2); [|apply trans_text_ok; exact H].
  splits; auto. eapply Forall_chr_ok_w12; eauto.
Qed.

Lemma out_text_spaces c cs sp : Forall (fun ch : chr => fst ch = 32) sp -> out_text c cs sp = sp.
Proof.
  intros H. unfold out_text. destruct (cs =? 2); [reflexivity|].
  induction H as [|ch l Hc _ IH]; [unfold trans_text; destruct (g_utf8 c); reflexivity|].
  rewrite trans_text_cons, IH. assert (E : fst ch <? 32 = false) by lia. unfold trans_chr. rewrite E.
  destruct (g_utf8 c); reflexivity.
Qed.

Lemma RowSt_set_attr t y P R v : RowSt t y P R -> RowSt (set_attr t v) y P R.
Proof. unfold RowSt. cbn. auto. Qed.
Lemma RowSt_set_so t y P R v : RowSt t y P R -> RowSt (set_so t v) y P R.
Proof. unfold RowSt. cbn. auto. Qed.
Lemma RowSt_set_irm t y P R v : RowSt t y P R -> RowSt (set_irm t v) y P R.
Proof. unfold RowSt. cbn. auto. Qed.
Lemma SameFrame_set_attr t0 t y v : SameFrame t0 t y -> SameFrame t0 (set_attr t v) y.
Proof. unfold SameFrame. cbn. auto. Qed.
Lemma SameFrame_set_so t0 t y v : SameFrame t0 t y -> SameFrame t0 (set_so t v) y.
Proof. unfold SameFrame. cbn. auto. Qed.
Lemma SameFrame_set_irm t0 t y v : SameFrame t0 t y -> SameFrame t0 (set_irm t v) y.
Proof. unfold SameFrame. cbn. auto. Qed.

Lemma SameFrame_cols t0 t y : SameFrame t0 t y -> t_cols t = t_cols t0.
Proof. unfold SameFrame. intuition. Qed.

Lemma RowSt_set_ibm t y P R v : RowSt t y P R -> RowSt (set_ibm t v) y P R.
Proof. unfold RowSt. cbn. auto. Qed.
Lemma SameFrame_set_ibm t0 t y v : SameFrame t0 t y -> SameFrame t0 (set_ibm t v) y.
Proof. unfold SameFrame. cbn. auto. Qed.

Lemma CsInv_ibm c first lcs t : CsInv c first lcs t -> t_ibm t = true -> g_utf8 c = false /\ lcs = 2.
Proof.
  unfold CsInv. destruct (g_utf8 c).
  - intros [_ H] H'. congruence.
  - intros (_ & _ & Hf & Hn) H'. split; [reflexivity|]. destruct first.
    + destruct (Hf eq_refl) as [_ H]. congruence.
    + destruct (Hn eq_refl) as [H _]. rewrite H' in H. symmetry in H. lia.
Qed.

Lemma CsInv_so_utf8 c first lcs t : CsInv c first lcs t -> g_utf8 c = true -> t_so t = false /\ t_ibm t = false.
Proof. unfold CsInv. intros H U. rewrite U in H. exact H. Qed.

(* the charset switch of the run loop and of the insert block: (IBMPC_OFF if the last flag was "U"), then SI / SO / IBMPC_ON *)
Lemma cs_switch_ok c first lcs cs t :
  g_utf8 c = false -> CsInv c first lcs t -> cs = 0 \/ cs = 1 \/ cs = 2 ->
  run t ((if lcs =? 2 then [TIbmOff] else []) ++ [cs_tok cs])
    = set_ibm (set_so t (if cs =? 0 then false else if cs =? 1 then true else t_so t)) (cs =? 2)
  /\ cur_cs (run t ((if lcs =? 2 then [TIbmOff] else []) ++ [cs_tok cs])) = cs
  /\ CsInv c false cs (run t ((if lcs =? 2 then [TIbmOff] else []) ++ [cs_tok cs])).
Proof.
  intros U HI Hcs. unfold CsInv in *. rewrite U in *. destruct HI as (Hg1 & Hl & Hf & Hn).
  assert (Hib : lcs <> 2 -> t_ibm t = false).
  { intros Hne. destruct first.
    - apply (Hf eq_refl).
    - destruct (Hn eq_refl) as [H _]. rewrite H. lia. }
  assert (E : run t ((if lcs =? 2 then [TIbmOff] else []) ++ [cs_tok cs])
              = set_ibm (set_so t (if cs =? 0 then false else if cs =? 1 then true else t_so t)) (cs =? 2)).
  { destruct (lcs =? 2) eqn:L2.
    - destruct Hcs as [-> | [-> | ->]]; destruct t; reflexivity.
    - assert (Hi : t_ibm t = false) by (apply Hib; lia).
      destruct Hcs as [-> | [-> | ->]]; destruct t; cbn in *; subst; reflexivity. }
  rewrite E. split; [reflexivity|]. split.
  - unfold cur_cs. cbn. destruct Hcs as [-> | [-> | ->]]; cbn; rewrite ?Hg1; reflexivity.
  - cbn. splits; auto; try discriminate. intros _.
    destruct Hcs as [-> | [-> | ->]]; cbn; splits; auto; intros; try lia; try reflexivity.
Qed.

Lemma cs_same_ok c lcs t : g_utf8 c = false -> CsInv c false lcs t -> cur_cs t = lcs.
Proof.
  unfold CsInv, cur_cs. intros ->.
  intros (Hg1 & Hl & _ & Hn). destruct (Hn eq_refl) as (Hi & H0 & H1). rewrite Hi, Hg1.
  destruct Hl as [-> | [-> | ->]].
  - rewrite (H0 eq_refl). reflexivity.
  - rewrite (H1 eq_refl). reflexivity.
  - reflexivity.
Qed.

Lemma cs_utf8_ok c first lcs t : g_utf8 c = true -> CsInv c first lcs t -> cur_cs t = 0 /\ forall f l, CsInv c f l t.
Proof.
  unfold CsInv, cur_cs. intros ->. intros [-> ->]. split; [reflexivity|]. intros; split; reflexivity.
Qed.

Lemma emit_run_ok c rs r t0 t y P R :
  cfg_ok c -> run_ok' c r -> Inv c rs t -> RowSt t y P R -> SameFrame t0 t y -> 0 <= y < zlen (t_grid t0) ->
  zlen P + calc_width (snd r) <= t_cols t ->
  exists R', RowSt (run t (fst (emit_run c rs r))) y (P ++ run_cells c r) R'
          /\ SameFrame t0 (run t (fst (emit_run c rs r))) y
          /\ Inv c (snd (emit_run c rs r)) (run t (fst (emit_run c rs r)))
          /\ r_first (snd (emit_run c rs r)) = false.
Proof.
  intros Hc Hok HI HR HF Hy Hfit. destruct r as [[a cs] text]. cbn [snd] in Hfit.
  destruct Hok as (Htext & Hbase & Hcs). destruct HI as (Iattr & Iirm & Ics).
  unfold emit_run.
  fold (out_text c cs text). destruct (out_text_ok c cs text Htext) as (Ow & Oc & Ob & _). cbn [fst snd].
  rewrite !run_app.
  (* attribute *)
  set (ta := if r_last rs =? a then [] else attr_to_escape c a).
  assert (H1 : exists t1, run t ta = t1 /\ RowSt t1 y P R /\ SameFrame t0 t1 y /\ t_attr t1 = attr_vis c a
                          /\ t_irm t1 = false /\ CsInv c (r_first rs) (r_lcs rs) t1).
  { unfold ta. destruct (r_last rs =? a) eqn:E.
    - exists t. assert (r_last rs = a) by lia. subst a. splits; auto.
    - exists (set_attr t (attr_vis c a)). rewrite attr_escape_run by assumption.
      splits; auto using RowSt_set_attr, SameFrame_set_attr. }
  destruct H1 as (t1 & -> & HR1 & HF1 & Hat1 & Hir1 & Ics1).
  (* charset *)
  set (switch := negb (g_utf8 c) && (r_first rs || negb (r_lcs rs =? cs))).
  set (tc := if switch then (if r_lcs rs =? 2 then [TIbmOff] else []) ++ [cs_tok cs] else []).
  assert (H2 : exists t2, run t1 tc = t2 /\ RowSt t2 y P R /\ SameFrame t0 t2 y /\ t_attr t2 = attr_vis c a
                          /\ t_irm t2 = false /\ cur_cs t2 = cs
                          /\ CsInv c false (if switch then cs else r_lcs rs) t2).
  { unfold tc, switch. destruct (g_utf8 c) eqn:U.
    - cbn [negb andb]. exists t1. subst cs. destruct (cs_utf8_ok c _ _ t1 U Ics1) as [Hc0 Hany].
      splits; auto.
    - cbn [negb andb].
      destruct (r_first rs || negb (r_lcs rs =? cs)) eqn:S.
      + destruct (cs_switch_ok c (r_first rs) (r_lcs rs) cs t1 U Ics1 Hcs) as (Et & Hcur & Hinv).
        eexists. split; [reflexivity|]. rewrite Et in *.
        splits; auto using RowSt_set_so, RowSt_set_ibm, SameFrame_set_so, SameFrame_set_ibm.
      + exists t1. assert (Hf : r_first rs = false) by (destruct (r_first rs); [discriminate|reflexivity]).
        assert (Hlcs : r_lcs rs = cs).
        { apply orb_false_elim in S as [_ S2]. apply negb_false_iff in S2. apply Z.eqb_eq in S2. exact S2. }
        rewrite Hf in Ics1. splits; auto. rewrite <- Hlcs. apply (cs_same_ok c); assumption. }
  destruct H2 as (t2 & -> & HR2 & HF2 & Hat2 & Hir2 & Hcs2' & HI2).
  (* text *)
  assert (Hcols2 : t_cols t2 = t_cols t) by (rewrite (SameFrame_cols _ _ _ HF2), (SameFrame_cols _ _ _ HF); reflexivity).
  destruct (print_ok (out_text c cs text) t0 t2 y P R HR2 HF2 Hy Hir2) as (R' & HR3 & HF3 & HM3).
  { exact Ow. }
  { apply Ob. exact Hbase. }
  { rewrite Hcols2, Oc. exact Hfit. }
  exists R'. rewrite Hcs2', Hat2 in HR3. split; [exact HR3|]. split; [exact HF3|]. split; [|reflexivity].
  destruct HM3 as (M1 & M2 & M3 & M4).
  unfold Inv. cbn [r_last r_first r_lcs]. rewrite M1, M2. splits; auto.
  unfold CsInv in *. rewrite M3, M4, (SameFrame_g1 t0 t2 _ y HF2 HF3). exact HI2.
Qed.

Lemma row_width_cons r row : row_width (r :: row) = calc_width (snd r) + row_width row.
Proof. reflexivity. Qed.

Lemma row_width_app a b : row_width (a ++ b) = row_width a + row_width b.
Proof. induction a as [|r a IH]; [change (row_width []) with 0; cbn [app]; lia|]. cbn [app]. rewrite !row_width_cons, IH. lia. Qed.

Lemma row_cells_app c a b : row_cells c (a ++ b) = row_cells c a ++ row_cells c b.
Proof. unfold row_cells. apply flat_map_app. Qed.

Lemma run_ok'_width c r : run_ok' c r -> 0 <= calc_width (snd r).
Proof.
  destruct r as [[a cs] text]. intros [H _]. cbn [snd]. apply calc_width_nonneg. eapply Forall_chr_ok_w12; eauto.
Qed.

Lemma row_width_nonneg c row : Forall (run_ok' c) row -> 0 <= row_width row.
Proof.
  induction 1 as [|r row H _ IH]; [change (row_width []) with 0; lia|]. rewrite row_width_cons. pose proof (run_ok'_width c r H). lia.
Qed.

Lemma run_cells_ok c r : run_ok' c r -> zlen (run_cells c r) = calc_width (snd r) /\ WFc (run_cells c r).
Proof.
  destruct r as [[a cs] text]. intros (Ht & _). cbn [snd run_cells].
  destruct (out_text_ok c cs text Ht) as (Ow & Oc & _).
  change (paint_text [] cs (attr_vis c a) (out_text c cs text)) with (text_cells cs (attr_vis c a) (out_text c cs text)).
  split; [rewrite zlen_text_cells by exact Ow; exact Oc|apply WFc_text_cells; exact Ow].
Qed.

Lemma emit_runs_ok c row : forall rs t0 t y P R,
  cfg_ok c -> Forall (run_ok' c) row -> Inv c rs t -> RowSt t y P R -> SameFrame t0 t y -> 0 <= y < zlen (t_grid t0) ->
  zlen P + row_width row <= t_cols t ->
  exists R', RowSt (run t (fst (emit_runs c rs row))) y (P ++ row_cells c row) R'
          /\ SameFrame t0 (run t (fst (emit_runs c rs row))) y
          /\ Inv c (snd (emit_runs c rs row)) (run t (fst (emit_runs c rs row)))
          /\ (row <> [] -> r_first (snd (emit_runs c rs row)) = false).
Proof.
  induction row as [|r row IH]; intros rs t0 t y P R Hc Hok HI HR HF Hy Hfit.
  - exists R. cbn [emit_runs fst snd run fold_left row_cells flat_map]. rewrite app_nil_r. splits; auto. congruence.
  - inversion Hok as [|? ? Hr Hrow]; subst. rewrite row_width_cons in Hfit.
    pose proof (row_width_nonneg c row Hrow) as Hnn. pose proof (run_ok'_width c r Hr) as Hnr.
    destruct (emit_run_ok c rs r t0 t y P R Hc Hr HI HR HF Hy) as (R1 & HR1 & HF1 & HI1 & Hf1); [lia|].
    cbn [emit_runs]. destruct (emit_run c rs r) as [t1 st1] eqn:E1. cbn [fst snd] in *.
    assert (Hcols : t_cols (run t t1) = t_cols t)
      by (rewrite (SameFrame_cols _ _ _ HF1), (SameFrame_cols _ _ _ HF); reflexivity).
    assert (Hz : zlen (run_cells c r) = calc_width (snd r)) by (apply run_cells_ok; exact Hr).
    destruct (IH st1 t0 (run t t1) y _ _ Hc Hrow HI1 HR1 HF1 Hy) as (R2 & HR2 & HF2 & HI2 & Hf2).
    { rewrite zlen_app, Hz. lia. }
    destruct (emit_runs c st1 row) as [t2 st2] eqn:E2. cbn [fst snd] in *.
    exists R2. rewrite run_app. cbn [row_cells flat_map]. fold (row_cells c row). rewrite app_assoc.
    splits; auto. intros _. destruct row as [|r' row'].
    + cbn [emit_runs] in E2. inversion E2; subst. exact Hf1.
    + apply Hf2. discriminate.
Qed.

(* ================= 5. Screen._last_row ================= *)
Lemma snoc_cases {A} (l : list A) : l = [] \/ exists l0 x, l = l0 ++ [x].
Proof. destruct l as [|a l]; [left; reflexivity|right]. destruct (exists_last (l := a :: l)) as (l0 & x & H); [discriminate|eauto]. Qed.

Lemma last_opt_snoc {A} (l : list A) x : last_opt (l ++ [x]) = Some x.
Proof.
  induction l as [|a l IH]; [reflexivity|]. cbn [app last_opt]. destruct (l ++ [x]) eqn:E.
  - destruct l; discriminate.
  - exact IH.
Qed.

Definition zw (ch : chr) : Prop := snd ch = 0.

Lemma calc_width_zw zs : Forall zw zs -> calc_width zs = 0.
Proof. induction 1 as [|ch l H _ IH]; cbn [calc_width]; [reflexivity|]. unfold zw in H. lia. Qed.

Lemma text_pos_utf8_last t0 : forall c zs i sc, Forall (fun ch : chr => 0 <= snd ch) t0 -> 1 <= snd c ->
  text_pos_utf8 (t0 ++ c :: zs) (sc + calc_width t0 + snd c - 1) i sc = (i + zlen t0, sc + calc_width t0).
Proof.
  induction t0 as [|ch t0 IH]; intros c zs i sc Hw Hc.
  - cbn [app text_pos_utf8 calc_width]. destruct (sc + 0 + snd c - 1 <? snd c + sc) eqn:E; [|lia].
    rewrite zlen_nil. f_equal; lia.
  - inversion Hw as [|? ? Hch Hw']; subst. cbn [app text_pos_utf8 calc_width].
    assert (Hnn : 0 <= calc_width t0).
    { clear -Hw'. induction Hw' as [|x l Hx _ IHl]; cbn [calc_width]; lia. }
    destruct (sc + (snd ch + calc_width t0) + snd c - 1 <? snd ch + sc) eqn:E; [lia|].
    replace (sc + (snd ch + calc_width t0) + snd c - 1) with ((sc + snd ch) + calc_width t0 + snd c - 1) by lia.
    rewrite IH by assumption. rewrite zlen_cons. f_equal; lia.
Qed.

Lemma chr_ok_narrow_w ch : chr_ok false ch -> snd ch = 1.
Proof. intros (_ & [H|[H _]] & _); [exact H|discriminate]. Qed.

Lemma text_width_calc u text : Forall (chr_ok u) text -> text_width u text = calc_width text.
Proof.
  unfold text_width. destruct u; [reflexivity|].
  induction 1 as [|ch l H _ IH]; [reflexivity|]. rewrite zlen_cons. cbn [calc_width]. rewrite <- IH.
  rewrite (chr_ok_narrow_w ch H). lia.
Qed.

Lemma zw_narrow_nil zs : Forall (chr_ok false) zs -> Forall zw zs -> zs = [].
Proof.
  destruct zs as [|z zs]; [reflexivity|]. intros H1 H2. apply Forall_inv in H1. apply Forall_inv in H2.
  apply chr_ok_narrow_w in H1. unfold zw in H2. lia.
Qed.

(* the last character that takes a column: where calc_text_pos(text, 0, len, cols - 1) lands *)
Lemma calc_text_pos_last u t0 c zs : Forall (chr_ok u) (t0 ++ c :: zs) -> snd c <> 0 -> Forall zw zs ->
  calc_text_pos u (t0 ++ c :: zs) (text_width u (t0 ++ c :: zs) - 1) = (zlen t0, text_width u t0).
Proof.
  intros H Hc0 Hzs. apply Forall_app in H as [H0 Hc]. pose proof (Forall_inv Hc) as Hc'. apply Forall_inv_tail in Hc.
  unfold calc_text_pos, text_width. destruct u.
  - rewrite calc_width_app. cbn [calc_width]. rewrite (calc_width_zw zs Hzs).
    replace (calc_width t0 + (snd c + 0) - 1) with (0 + calc_width t0 + snd c - 1) by lia.
    rewrite text_pos_utf8_last.
    + f_equal; lia.
    + eapply Forall_impl; [|exact H0]. intros ch (_ & [Hh|[_ [Hh|Hh]]] & _); lia.
    + destruct Hc' as (_ & [Hh|[_ [Hh|Hh]]] & _); lia.
  - rewrite (zw_narrow_nil zs Hc Hzs).
    unfold text_pos_narrow. rewrite zlen_app, zlen_cons, zlen_nil. pose proof (zlen_nonneg t0).
    destruct (zlen t0 + (1 + 0) <=? zlen t0 + (1 + 0) - 1) eqn:E; [lia|]. f_equal; lia.
Qed.

(* a text that starts with a column-taking character ends with one followed by combining characters only *)
Lemma split_last_base text : text <> [] -> starts_with_base text ->
  exists t0 c zs, text = t0 ++ c :: zs /\ snd c <> 0 /\ Forall zw zs /\ starts_with_base t0.
Proof.
  induction text as [|x l IH] using rev_ind; [congruence|]. intros _ Hb.
  destruct (Z.eq_dec (snd x) 0) as [Hz|Hnz].
  - destruct l as [|a l'].
    + cbn in Hb. congruence.
    + destruct IH as (t0 & c & zs & E & Hc & Hzs & Hb0); [discriminate|exact Hb|].
      exists t0, c, (zs ++ [x]). rewrite E. rewrite <- app_assoc. cbn [app]. splits; auto.
      apply Forall_app. split; [exact Hzs|]. constructor; [exact Hz|constructor].
  - exists l, x, []. splits; auto. destruct l; [exact I|exact Hb].
Qed.

Lemma run_ok_weak c r : run_ok c r -> run_ok' c r.
Proof. destruct r as [[a cs] text]. intros (_ & H0 & H1 & H2 & _). unfold run_ok'. splits; assumption. Qed.

Lemma run_cells_split c a cs t1 t2 :
  Forall (chr_ok (g_utf8 c)) t1 -> Forall (chr_ok (g_utf8 c)) t2 -> starts_with_base t2 ->
  run_cells c (a, cs, t1 ++ t2) = run_cells c (a, cs, t1) ++ run_cells c (a, cs, t2).
Proof.
  intros H1 H2 Hb. cbn [run_cells]. rewrite out_text_app.
  destruct (out_text_ok c cs t1 H1) as (W1 & _). destruct (out_text_ok c cs t2 H2) as (W2 & _ & B2 & _).
  apply (text_cells_app cs (attr_vis c a)); auto.
Qed.

Lemma row_cells_single c r : row_cells c [r] = run_cells c r.
Proof. cbn [row_cells flat_map]. apply app_nil_r. Qed.

Lemma row_width_single r : row_width [r] = calc_width (snd r).
Proof. rewrite row_width_cons. change (row_width []) with 0. lia. Qed.

Lemma run_cells_nil c a cs : run_cells c (a, cs, []) = [].
Proof. cbn [run_cells]. unfold out_text, trans_text. destruct (cs =? 2), (g_utf8 c); reflexivity. Qed.

Lemma text_width_pos u t0 c zs : Forall (chr_ok u) (t0 ++ c :: zs) -> snd c <> 0 ->
  text_width u (t0 ++ c :: zs) =? 0 = false.
Proof.
  intros H Hc. rewrite text_width_calc by exact H. rewrite calc_width_app. cbn [calc_width].
  apply Forall_app in H as [H0 H1]. pose proof (Forall_inv H1) as Hcc. apply Forall_inv_tail in H1.
  pose proof (calc_width_nonneg t0 (Forall_chr_ok_w12 _ _ H0)).
  pose proof (calc_width_nonneg zs (Forall_chr_ok_w12 _ _ H1)).
  destruct (chr_ok_w12 _ _ Hcc) as [Hh|[Hh|Hh]]; lia.
Qed.

(* Y and Z: each a column-taking character with the combining characters that follow it *)
Definition base_text (t : list chr) : Prop := exists ch zs, t = ch :: zs /\ snd ch <> 0 /\ Forall zw zs.

Lemma base_text_width t : base_text t -> exists ch zs, t = ch :: zs /\ snd ch <> 0 /\ Forall zw zs /\ calc_width t = snd ch.
Proof. intros (ch & zs & -> & H1 & H2). exists ch, zs. splits; auto. cbn [calc_width]. rewrite (calc_width_zw zs H2). lia. Qed.

Lemma last_row_ok c cols row :
  row_ok c cols row -> row <> [] ->
  (exists r, row = [r] /\ last_row (g_utf8 c) row = Ok (row, 0, None))
  \/ (exists nr0 ya ycs yt za zcs zt,
        last_row (g_utf8 c) row = Ok (nr0 ++ [(za, zcs, zt)], calc_width zt, Some (ya, ycs, yt))
        /\ row_cells c row = row_cells c nr0 ++ run_cells c (ya, ycs, yt) ++ run_cells c (za, zcs, zt)
        /\ Forall (run_ok' c) (nr0 ++ [(za, zcs, zt)]) /\ run_ok' c (ya, ycs, yt)
        /\ base_text yt /\ base_text zt
        /\ row_width nr0 + calc_width yt + calc_width zt = cols).
Proof.
  intros [Hruns Hwidth] Hne.
  destruct (snoc_cases row) as [->|(front & [[za zcs] lt] & ->)]; [congruence|].
  apply Forall_app in Hruns as [Hfront Hlast]. apply Forall_inv in Hlast as Hz.
  destruct Hz as (Hltne & Hltb & Hlt & Hzcs & _).
  destruct (split_last_base lt Hltne Hltb) as (lt0 & zc & zs & -> & Hzc0 & Hzs & Hlt0b).
  unfold last_row. rewrite last_opt_snoc, removelast_last.
  rewrite (text_width_pos _ lt0 zc zs Hlt Hzc0).
  rewrite (calc_text_pos_last _ lt0 zc zs Hlt Hzc0 Hzs).
  pose proof (zlen_nonneg lt0) as Hl0.
  assert (Hlt0 : Forall (chr_ok (g_utf8 c)) lt0) by (apply Forall_app in Hlt as [H _]; exact H).
  assert (Hzt : Forall (chr_ok (g_utf8 c)) (zc :: zs)) by (apply Forall_app in Hlt as [_ H]; exact H).
  assert (Hbz : base_text (zc :: zs)) by (exists zc, zs; auto).
  assert (Hwz : text_width (g_utf8 c) (zc :: zs) = calc_width (zc :: zs)) by (apply text_width_calc; exact Hzt).
  assert (Hzrun : run_ok' c (za, zcs, zc :: zs)) by (unfold run_ok'; splits; auto).
  rewrite row_width_app, row_width_single in Hwidth. cbn [snd] in Hwidth. rewrite calc_width_app in Hwidth.
  destruct (zlen lt0 =? 0) eqn:E0.
  - (* Z starts its run *)
    assert (lt0 = []) by (apply zlen_zero_nil; lia). subst lt0. cbn [app] in *. change (calc_width []) with 0 in Hwidth.
    destruct (snoc_cases front) as [->|(front0 & [[ya ycs] nt] & ->)].
    + left. eexists. split; reflexivity.
    + right. rewrite last_opt_snoc, removelast_last.
      apply Forall_app in Hfront as [Hfront0 Hy]. apply Forall_inv in Hy as Hyr.
      destruct Hyr as (Hntne & Hntb & Hnt & Hycs & _).
      destruct (split_last_base nt Hntne Hntb) as (nt0 & yc & ys & -> & Hyc0 & Hys & Hnt0b).
      rewrite (text_width_pos _ nt0 yc ys Hnt Hyc0).
      rewrite (calc_text_pos_last _ nt0 yc ys Hnt Hyc0 Hys).
      assert (Hnt0 : Forall (chr_ok (g_utf8 c)) nt0) by (apply Forall_app in Hnt as [H _]; exact H).
      assert (Hyt : Forall (chr_ok (g_utf8 c)) (yc :: ys)) by (apply Forall_app in Hnt as [_ H]; exact H).
      rewrite dropz_app_exact by reflexivity. rewrite takez_app_exact by reflexivity. rewrite Hwz.
      exists (if zlen nt0 =? 0 then front0 else front0 ++ [(ya, ycs, nt0)]), ya, ycs, (yc :: ys), za, zcs, (zc :: zs).
      rewrite row_width_app, row_width_single in Hwidth. cbn [snd] in Hwidth. rewrite calc_width_app in Hwidth.
      split; [reflexivity|]. splits.
      * rewrite !row_cells_app, !row_cells_single.
        rewrite (run_cells_split c ya ycs nt0 (yc :: ys)); [|exact Hnt0|exact Hyt|exact Hyc0].
        destruct (zlen nt0 =? 0) eqn:En.
        -- assert (nt0 = []) by (apply zlen_zero_nil; lia). subst nt0. rewrite run_cells_nil. cbn [app].
           rewrite <- ?app_assoc. reflexivity.
        -- rewrite row_cells_app, row_cells_single. rewrite <- ?app_assoc. reflexivity.
      * apply Forall_app. split.
        -- destruct (zlen nt0 =? 0).
           ++ eapply Forall_impl; [|exact Hfront0]. apply run_ok_weak.
           ++ apply Forall_app. split; [eapply Forall_impl; [|exact Hfront0]; apply run_ok_weak|].
              constructor; [|constructor]. unfold run_ok'. splits; assumption.
        -- constructor; [exact Hzrun|constructor].
      * unfold run_ok'. splits; auto.
      * exists yc, ys. auto.
      * exact Hbz.
      * destruct (zlen nt0 =? 0) eqn:En.
        -- assert (nt0 = []) by (apply zlen_zero_nil; lia). subst nt0. cbn [calc_width app] in *. lia.
        -- rewrite row_width_app, row_width_single. cbn [snd]. lia.
  - (* Y and Z are in the same run *)
    right. destruct (zlen lt0 <? 0) eqn:En; [lia|].
    assert (Hlt0ne : lt0 <> []) by (intros ->; rewrite zlen_nil in E0; lia).
    destruct (split_last_base lt0 Hlt0ne Hlt0b) as (lt1 & yc & ys & -> & Hyc0 & Hys & Hlt1b).
    rewrite dropz_app_exact by reflexivity. rewrite takez_app_exact by reflexivity.
    rewrite (text_width_pos _ lt1 yc ys Hlt0 Hyc0).
    rewrite (calc_text_pos_last _ lt1 yc ys Hlt0 Hyc0 Hys).
    assert (Hlt1 : Forall (chr_ok (g_utf8 c)) lt1) by (apply Forall_app in Hlt0 as [H _]; exact H).
    assert (Hyt : Forall (chr_ok (g_utf8 c)) (yc :: ys)) by (apply Forall_app in Hlt0 as [_ H]; exact H).
    rewrite dropz_app_exact by reflexivity. rewrite Hwz.
    rewrite <- app_assoc. rewrite takez_app_exact by reflexivity.
    exists (if zlen lt1 =? 0 then front else front ++ [(za, zcs, lt1)]), za, zcs, (yc :: ys), za, zcs, (zc :: zs).
    rewrite calc_width_app in Hwidth.
    split; [reflexivity|]. splits.
    * rewrite !row_cells_app, !row_cells_single.
      rewrite (run_cells_split c za zcs lt1 ((yc :: ys) ++ zc :: zs));
        [|exact Hlt1|apply Forall_app; split; assumption|exact Hyc0].
      rewrite (run_cells_split c za zcs (yc :: ys) (zc :: zs)); [|exact Hyt|exact Hzt|exact Hzc0].
      destruct (zlen lt1 =? 0) eqn:E1.
      -- assert (lt1 = []) by (apply zlen_zero_nil; lia). subst lt1. rewrite run_cells_nil. cbn [app].
         rewrite <- ?app_assoc. reflexivity.
      -- rewrite row_cells_app, row_cells_single. rewrite <- ?app_assoc. reflexivity.
    * apply Forall_app. split.
      -- destruct (zlen lt1 =? 0).
         ++ eapply Forall_impl; [|exact Hfront]. apply run_ok_weak.
         ++ apply Forall_app. split; [eapply Forall_impl; [|exact Hfront]; apply run_ok_weak|].
            constructor; [|constructor]. unfold run_ok'. splits; assumption.
      -- constructor; [exact Hzrun|constructor].
    * unfold run_ok'. splits; auto.
    * exists yc, ys. auto.
    * exact Hbz.
    * destruct (zlen lt1 =? 0) eqn:E1.
      -- assert (lt1 = []) by (apply zlen_zero_nil; lia). subst lt1. cbn [calc_width app] in *. lia.
      -- rewrite row_width_app, row_width_single. cbn [snd]. lia.
Qed.

(* ================= 6. one row ================= *)
Lemma vis_eq_refl e : vis_eq e e.
Proof. unfold vis_eq. destruct ((c_cp e =? 32) && match c_comb e with [] => true | _ => false end); splits; auto. Qed.

Lemma Forall2_vis_refl l : Forall2 vis_eq l l.
Proof. induction l; constructor; auto using vis_eq_refl. Qed.

Lemma Forall2_repeat_r {A B} (R : A -> B -> Prop) l e : Forall (fun x => R x e) l -> Forall2 R l (repeat e (length l)).
Proof. induction 1; cbn [length repeat]; constructor; auto. Qed.

Lemma rstrip_rev_spec r : exists sp, r = sp ++ rstrip_rev r /\ Forall (fun ch : chr => fst ch = 32) sp.
Proof.
  induction r as [|ch r IH].
  - exists []. split; [reflexivity|constructor].
  - cbn [rstrip_rev]. unfold is_space. destruct (fst ch =? 32) eqn:E.
    + destruct IH as (sp & Hr & Hsp). exists (ch :: sp). split.
      * cbn [app]. f_equal. exact Hr.
      * constructor; [lia|exact Hsp].
    + exists []. split; [reflexivity|constructor].
Qed.

Lemma rstrip_spec t : exists sp, t = rstrip t ++ sp /\ Forall (fun ch : chr => fst ch = 32) sp.
Proof.
  destruct (rstrip_rev_spec (rev t)) as (sp & Hr & Hsp). exists (rev sp). split.
  - unfold rstrip. rewrite <- rev_app_distr. rewrite <- Hr. now rewrite rev_involutive.
  - apply Forall_rev. exact Hsp.
Qed.

Lemma rstrip_last_space t0 ch : is_space ch = true -> rstrip (t0 ++ [ch]) = rstrip t0.
Proof. intros H. unfold rstrip. rewrite rev_app_distr. cbn [rev app rstrip_rev]. rewrite H. reflexivity. Qed.

Lemma emit_run_last c rs r : r_last (snd (emit_run c rs r)) = fst (fst r).
Proof. destruct r as [[a cs] text]. reflexivity. Qed.

Lemma emit_runs_last c front : forall rs r, r_last (snd (emit_runs c rs (front ++ [r]))) = fst (fst r).
Proof.
  induction front as [|r0 front IH]; intros rs r.
  - cbn [app emit_runs]. destruct (emit_run c rs r) as [t1 s1] eqn:E. cbn [snd].
    pose proof (emit_run_last c rs r) as H. rewrite E in H. exact H.
  - cbn [app emit_runs]. destruct (emit_run c rs r0) as [t1 s1]. specialize (IH s1 r).
    destruct (emit_runs c s1 (front ++ [r])) as [t2 s2]. exact IH.
Qed.

(* what survives a row whatever happened in it: insert mode off; IBMPC selected only if the loop knows it *)
Definition Modes (c : cfg) (rs : rstate) (t : term) : Prop :=
  t_irm t = false /\ (t_ibm t = true -> g_utf8 c = false /\ r_lcs rs = 2) /\ (g_utf8 c = true -> t_so t = false).

Definition RowDone (c : cfg) (t1 t2 : term) (y : Z) (row : crow) (rs2 : rstate) (keep_inv : Prop) : Prop :=
  row_shows c row (get_row (t_grid t2) y) /\ SameFrame t1 t2 y /\ t_y t2 = y /\
  Modes c rs2 t2 /\ (keep_inv -> Inv c rs2 t2).

Lemma Inv_modes c rs t : Inv c rs t -> Modes c rs t.
Proof.
  intros (_ & H2 & H3). unfold Modes. splits; auto.
  - apply (CsInv_ibm _ _ _ _ H3).
  - intros U. apply (CsInv_so_utf8 _ _ _ _ H3 U).
Qed.

Lemma zlen_row_cells c row : Forall (run_ok' c) row -> zlen (row_cells c row) = row_width row.
Proof.
  induction 1 as [|r row H _ IH]; [reflexivity|].
  cbn [row_cells flat_map]. fold (row_cells c row). rewrite zlen_app, IH, row_width_cons. f_equal.
  apply run_cells_ok. exact H.
Qed.

(* the whole row is printed *)
Lemma row_plain_ok c rs row t0 t y R0 keep :
  cfg_ok c -> Forall (run_ok' c) row -> Inv c rs t -> RowSt t y [] R0 -> SameFrame t0 t y -> 0 <= y < zlen (t_grid t0) ->
  row_width row = t_cols t ->
  RowDone c t0 (run t (fst (emit_runs c rs row))) y row (snd (emit_runs c rs row)) keep.
Proof.
  intros Hc Hok HI HR HF Hy Hw.
  destruct (emit_runs_ok c row rs t0 t y [] R0 Hc Hok HI HR HF Hy) as (R' & HR' & HF' & HI' & _).
  { rewrite zlen_nil. lia. }
  cbn [app] in HR'. destruct HR' as (Hty & Hrow & Hlen & _).
  rewrite zlen_row_cells in Hlen by assumption.
  rewrite (SameFrame_cols _ _ _ HF'), <- (SameFrame_cols _ _ _ HF) in Hlen.
  assert (R' = []) by (apply zlen_zero_nil; lia). subst R'. rewrite app_nil_r in Hrow.
  pose proof (Inv_modes _ _ _ HI') as HM.
  unfold RowDone. splits; auto. unfold row_shows. rewrite Hrow. apply Forall2_vis_refl.
Qed.

Lemma Inv_same_modes c rs t t' : SameModes t t' -> t_g1 t' = t_g1 t -> Inv c rs t -> Inv c rs t'.
Proof.
  intros (M1 & M2 & M3 & M4) G (I1 & I2 & I3). unfold Inv, CsInv in *. rewrite M1, M2, M3, M4, G. splits; auto.
Qed.

Lemma sul_false_flags c a : using_sul c a = false ->
  a_under (attr_vis c a) = false /\ a_stand (attr_vis c a) = false /\ a_strike (attr_vis c a) = false.
Proof.
  unfold using_sul, attr_vis. destruct (lookup_attr c a) as [k sp]. destruct (k =? 2).
  - intros _. cbn. auto.
  - intros H. cbn. destruct (s_stand sp), (s_under sp), (s_strike sp); cbn in H; try discriminate; auto.
Qed.

Lemma spaces_cells cs v sp : Forall (chr_ok true) sp \/ Forall (chr_ok false) sp ->
  Forall (fun ch : chr => fst ch = 32) sp ->
  text_cells cs v sp = repeat (mkCell 32 1 cs v []) (length sp) /\ calc_width sp = zlen sp.
Proof.
  intros Hok Hsp. induction Hsp as [|ch sp H32 Hsp IH].
  - split; reflexivity.
  - assert (Hw : snd ch = 1).
    { destruct Hok as [Hok|Hok]; apply Forall_inv in Hok; destruct Hok as (_ & _ & Hs & _); auto. }
    assert (Hok' : Forall (chr_ok true) sp \/ Forall (chr_ok false) sp).
    { destruct Hok as [Hok|Hok]; [left|right]; eapply Forall_inv_tail; eauto. }
    assert (Hw12 : Forall w12 sp) by (destruct Hok' as [H|H]; eapply Forall_chr_ok_w12; eauto).
    assert (Hsb : starts_with_base sp).
    { destruct sp as [|c2 sp']; [exact I|]. cbn. apply Forall_inv in Hsp.
      destruct Hok' as [H|H]; apply Forall_inv in H; destruct H as (_ & _ & Hs & _); rewrite (Hs Hsp); discriminate. }
    destruct (IH Hok') as [IH1 IH2]. split.
    + change (ch :: sp) with ([ch] ++ sp).
      rewrite text_cells_app; [|constructor; [right; left; exact Hw|constructor]|exact Hw12|exact Hsb].
      rewrite IH1. unfold text_cells. cbn [paint_text fold_left]. unfold paint_chr. rewrite Hw, H32. reflexivity.
    + cbn [calc_width]. rewrite zlen_cons, IH2, Hw. reflexivity.
Qed.

(* trailing blanks of the last run are erased instead of printed *)
Lemma row_ws_ok c rs front a cs text t0 t y R0 keep :
  cfg_ok c -> Forall (run_ok' c) (front ++ [(a, cs, text)]) -> Inv c rs t -> RowSt t y [] R0 -> SameFrame t0 t y ->
  0 <= y < zlen (t_grid t0) -> row_width (front ++ [(a, cs, text)]) = t_cols t ->
  (match last_opt text with Some ch => is_space ch | None => false end) = true ->
  using_sul c a = false -> t_bce t = true ->
  RowDone c t0 (run t (fst (emit_runs c rs (front ++ [(a, cs, rstrip text)])) ++ [TEl])) y
          (front ++ [(a, cs, text)]) (snd (emit_runs c rs (front ++ [(a, cs, rstrip text)]))) keep.
Proof.
  intros Hc Hok HI HR HF Hy Hw Hsp Hsul Hbce.
  (* the stripped blanks *)
  destruct (snoc_cases text) as [->|(r0 & ch & ->)]; [discriminate|].
  rewrite last_opt_snoc in Hsp. rewrite (rstrip_last_space r0 ch Hsp).
  destruct (rstrip_spec r0) as (sp0 & Hr0 & Hsp0).
  set (tx := rstrip r0) in *. set (sp := sp0 ++ [ch]).
  assert (Htext : r0 ++ [ch] = tx ++ sp) by (unfold sp; rewrite app_assoc, <- Hr0; reflexivity).
  assert (Hspaces : Forall (fun ch : chr => fst ch = 32) sp).
  { unfold sp. apply Forall_app. split; [exact Hsp0|]. constructor; [|constructor]. unfold is_space in Hsp. lia. }
  rewrite Htext in *.
  apply Forall_app in Hok as [Hfront Hl]. apply Forall_inv in Hl. destruct Hl as (Hchars & Hbase & Hcs).
  apply Forall_app in Hchars as [Htx Hspok].
  assert (Htxb : starts_with_base tx) by (destruct tx; [exact I|exact Hbase]).
  assert (Hspb : starts_with_base sp).
  { unfold sp. assert (Hch : snd ch <> 0).
    { apply Forall_app in Hspok as [_ H]. apply Forall_inv in H. destruct H as (_ & _ & Hs & _).
      unfold is_space in Hsp. rewrite Hs by lia. discriminate. }
    destruct sp0 as [|c0 sp0']; [exact Hch|]. cbn. apply Forall_inv in Hsp0.
    apply Forall_app in Hspok as [H _]. apply Forall_inv in H. destruct H as (_ & _ & Hs & _). rewrite (Hs Hsp0). discriminate. }
  assert (Hrow' : Forall (run_ok' c) (front ++ [(a, cs, tx)])).
  { apply Forall_app. split; [exact Hfront|]. constructor; [|constructor]. unfold run_ok'. splits; assumption. }
  destruct (spaces_cells cs (attr_vis c a) sp) as [Hcells Hwsp]; auto.
  { destruct (g_utf8 c); auto. }
  assert (Hsplen : 1 <= zlen sp). { unfold sp. rewrite zlen_app, zlen_cons, zlen_nil. pose proof (zlen_nonneg sp0). lia. }
  rewrite row_width_app, row_width_single in Hw. cbn [snd] in Hw. rewrite calc_width_app, Hwsp in Hw.
  assert (Hw' : row_width (front ++ [(a, cs, tx)]) = t_cols t - zlen sp).
  { rewrite row_width_app, row_width_single. cbn [snd]. lia. }
  destruct (emit_runs_ok c (front ++ [(a, cs, tx)]) rs t0 t y [] R0 Hc Hrow' HI HR HF Hy) as (R' & HR' & HF' & HI' & _).
  { rewrite zlen_nil. lia. }
  cbn [app] in HR'. set (rs2 := snd (emit_runs c rs (front ++ [(a, cs, tx)]))) in *.
  set (t2 := run t (fst (emit_runs c rs (front ++ [(a, cs, tx)])))) in *.
  assert (Hcols2 : t_cols t2 = t_cols t) by (rewrite (SameFrame_cols _ _ _ HF'), (SameFrame_cols _ _ _ HF); reflexivity).
  assert (HzP : zlen (row_cells c (front ++ [(a, cs, tx)])) = t_cols t - zlen sp).
  { rewrite zlen_row_cells by assumption. exact Hw'. }
  rewrite run_app. fold t2. cbn [run fold_left].
  destruct (el_ok t0 t2 y _ _ HR' HF') as (Hrow & HF3 & HM3 & _).
  { rewrite (SameFrame_len _ _ _ HF'). exact Hy. }
  { rewrite HzP, Hcols2. lia. }
  assert (E4 : Inv c rs2 (step t2 TEl)).
  { eapply Inv_same_modes; [exact HM3| |exact HI']. eapply SameFrame_g1; eauto. }
  pose proof (Inv_modes _ _ _ E4) as E1.
  assert (Hty : t_y (step t2 TEl) = y).
  { destruct (el_ok t0 t2 y _ _ HR' HF') as (_ & _ & _ & _ & Hy3 & _);
      [rewrite (SameFrame_len _ _ _ HF'); exact Hy|rewrite HzP, Hcols2; lia|].
    rewrite Hy3. apply HR'. }
  unfold RowDone. splits; auto.
  - unfold row_shows. rewrite Hrow.
    rewrite row_cells_app, row_cells_single.
    rewrite run_cells_split; [|exact Htx|exact Hspok|exact Hspb].
    rewrite app_assoc. rewrite <- (row_cells_single c (a, cs, tx)), <- row_cells_app.
    apply Forall2_app; [apply Forall2_vis_refl|].
    change (run_cells c (a, cs, sp)) with (text_cells cs (attr_vis c a) (out_text c cs sp)).
    rewrite (out_text_spaces c cs sp Hspaces). rewrite Hcells.
    replace (Z.to_nat (t_cols t2 - zlen (row_cells c (front ++ [(a, cs, tx)])))) with (length sp)
      by (rewrite HzP, Hcols2; unfold zlen; lia).
    rewrite <- (repeat_length (mkCell 32 1 cs (attr_vis c a) []) (length sp)) at 2.
    apply Forall2_repeat_r. apply Forall_forall. intros e He. apply repeat_spec in He. subst e.
    destruct HI' as (Hattr & _). fold rs2 in Hattr.
    assert (Hlast : r_last rs2 = a) by (unfold rs2; rewrite emit_runs_last; reflexivity).
    rewrite Hlast in Hattr.
    assert (Hbce2 : t_bce t2 = true).
    { destruct HF' as (_ & _ & _ & _ & _ & _ & B & _). destruct HF as (_ & _ & _ & _ & _ & _ & B0 & _). congruence. }
    destruct (sul_false_flags c a Hsul) as (F1 & F2 & F3).
    unfold vis_eq, erase_cell. cbn. rewrite Hbce2, Hattr, F1, F2, F3. splits; auto. change (32 =? 32) with true. cbn [andb]. cbv iota. splits; auto. intros; discriminate.
Qed.

Lemma WFc_row_cells c row : Forall (run_ok' c) row -> WFc (row_cells c row).
Proof.
  induction 1 as [|r row H _ IH]; [constructor|].
  cbn [row_cells flat_map]. apply WFc_app; [|exact IH]. apply run_cells_ok. exact H.
Qed.

Lemma RowSt_set_pos_back t y P Zc R :
  RowSt t y (P ++ Zc) R -> WFc P -> zlen (P ++ Zc) < t_cols t ->
  RowSt (set_pos t (zlen P) y false) y P (Zc ++ R).
Proof.
  intros (Hy & Hrow & Hlen & _ & _) HwP Hlt. unfold RowSt. cbn.
  rewrite zlen_app in *. pose proof (zlen_nonneg Zc). rewrite <- app_assoc in Hrow.
  splits; auto.
  - rewrite ?zlen_app. lia.
  - assert (E : zlen P <? t_cols t = true) by lia. rewrite E. auto.
Qed.

(* the bottom-right cell: Z is drawn in the place of Y, then Y is inserted in front of it *)
Lemma out_text_base c cs t : Forall (chr_ok (g_utf8 c)) t -> base_text t -> base_text (out_text c cs t).
Proof.
  intros Hok (ch & zs & -> & Hc0 & Hzs). change (ch :: zs) with ([ch] ++ zs). rewrite out_text_app.
  pose proof (Forall_inv Hok) as Hch. apply Forall_inv_tail in Hok.
  destruct (out_text_ok c cs zs Hok) as (_ & _ & _ & Oz).
  assert (E : exists oc, out_text c cs [ch] = [oc] /\ snd oc <> 0).
  { unfold out_text. destruct (cs =? 2); [exists ch; auto|]. rewrite trans_text_cons.
    destruct Hch as (H0 & H1 & H2 & H3). destruct (g_utf8 c) eqn:U.
    - destruct (fst ch <? 32) eqn:E; [exfalso; apply Hc0; apply H3; [lia|reflexivity]|].
      exists ch. unfold trans_text. cbn. auto.
    - exists (trans_chr ch). unfold trans_text. cbn. split; [reflexivity|].
      assert (Hw1 : snd ch = 1) by (destruct H1 as [Hh|[Hh _]]; [exact Hh|discriminate]).
      unfold trans_chr. destruct (fst ch <? 32); cbn; lia. }
  destruct E as (oc & -> & Hoc). exists oc, (out_text c cs zs). cbn [app]. splits; auto.
Qed.

Lemma row_trick_ok c rs nr0 ya ycs yt za zcs zt row t0 t y R0 :
  cfg_ok c -> Forall (run_ok' c) (nr0 ++ [(za, zcs, zt)]) -> run_ok' c (ya, ycs, yt) ->
  base_text yt -> base_text zt ->
  row_cells c row = row_cells c nr0 ++ run_cells c (ya, ycs, yt) ++ run_cells c (za, zcs, zt) ->
  row_width nr0 + calc_width yt + calc_width zt = t_cols t ->
  Inv c rs t -> RowSt t y [] R0 -> SameFrame t0 t y -> 0 <= y < zlen (t_grid t0) ->
  RowDone c t0
    (run t (fst (emit_runs c rs (nr0 ++ [(za, zcs, zt)]))
            ++ emit_ins c (snd (emit_runs c rs (nr0 ++ [(za, zcs, zt)]))) (calc_width zt) (ya, ycs, yt)))
    y row (snd (emit_runs c rs (nr0 ++ [(za, zcs, zt)]))) False.
Proof.
  intros Hc Hnr Hyr Hby Hbz Hcells Hw HI HR HF Hy.
  set (nr := nr0 ++ [(za, zcs, zt)]) in *.
  destruct Hyr as (Hyt & _ & Hycs).
  destruct (base_text_width yt Hby) as (yc & ys & Eyt & Hyc0 & Hys & Hwyt).
  destruct (base_text_width zt Hbz) as (zc & zs & Ezt & Hzc0 & Hzs & Hwzt).
  assert (Hnr0 : Forall (run_ok' c) nr0) by (apply Forall_app in Hnr as [H _]; exact H).
  assert (Hzr : run_ok' c (za, zcs, zt)) by (apply Forall_app in Hnr as [_ H]; apply Forall_inv in H; exact H).
  pose proof (run_cells_ok c _ Hzr) as [HzZ0 HwZ0]. cbn [snd] in HzZ0.
  destruct Hzr as (Hzt & _ & Hzcs).
  (* the text that is sent for Y *)
  destruct (out_text_ok c ycs yt Hyt) as (Ow & Oc & _ & _).
  destruct (base_text_width _ (out_text_base c ycs yt Hyt Hby)) as (oc & os & Eot & Hoc0 & Hos & Hwot).
  assert (Hsame : snd oc = snd yc) by lia.
  assert (Hwo : snd oc = 1 \/ snd oc = 2).
  { rewrite Eot in Ow. apply Forall_inv in Ow. destruct Ow as [H|[H|H]]; [congruence|auto|auto]. }
  assert (Hos12 : Forall w12 os) by (rewrite Eot in Ow; eapply Forall_inv_tail; eauto).
  assert (Hyc : chr_ok (g_utf8 c) yc) by (rewrite Eyt in Hyt; apply Forall_inv in Hyt; exact Hyt).
  assert (Hzc : chr_ok (g_utf8 c) zc) by (rewrite Ezt in Hzt; apply Forall_inv in Hzt; exact Hzt).
  assert (Hwy : snd yc = 1 \/ snd yc = 2) by (destruct (chr_ok_w12 _ _ Hyc) as [H|[H|H]]; [congruence|auto|auto]).
  assert (Hwz : snd zc = 1 \/ snd zc = 2) by (destruct (chr_ok_w12 _ _ Hzc) as [H|[H|H]]; [congruence|auto|auto]).
  assert (Hys12 : Forall w12 ys).
  { rewrite Eyt in Hyt. apply Forall_inv_tail in Hyt. eapply Forall_chr_ok_w12; eauto. }
  pose proof (row_width_nonneg c nr0 Hnr0) as Hn0.
  assert (Hwnr : row_width nr = t_cols t - snd yc).
  { unfold nr. rewrite row_width_app, row_width_single. cbn [snd]. lia. }
  destruct (emit_runs_ok c nr rs t0 t y [] R0 Hc Hnr HI HR HF Hy) as (R' & HR2 & HF2 & HI2 & _).
  { rewrite zlen_nil. lia. }
  cbn [app] in HR2. set (rs2 := snd (emit_runs c rs nr)) in *. set (t2 := run t (fst (emit_runs c rs nr))) in *.
  assert (Hcols2 : t_cols t2 = t_cols t) by (rewrite (SameFrame_cols _ _ _ HF2), (SameFrame_cols _ _ _ HF); reflexivity).
  set (Zc := run_cells c (za, zcs, zt)) in *. set (Yc := run_cells c (ya, ycs, yt)) in *.
  assert (Hsplit : row_cells c nr = row_cells c nr0 ++ Zc).
  { unfold nr. rewrite row_cells_app, row_cells_single. reflexivity. }
  assert (HzZ : zlen Zc = snd zc) by (unfold Zc; rewrite <- Hwzt; exact HzZ0).
  assert (HwZ : WFc Zc) by exact HwZ0.
  assert (Hz0 : zlen (row_cells c nr0) = row_width nr0) by (apply zlen_row_cells; exact Hnr0).
  assert (HzP : zlen (row_cells c nr) = t_cols t - snd yc) by (rewrite zlen_row_cells by exact Hnr; exact Hwnr).
  assert (Hlen2 : zlen (t_grid t2) = zlen (t_grid t0)) by (apply (SameFrame_len _ _ _ HF2)).
  (* where the terminal is after Z *)
  pose proof HR2 as (Hy2 & Hrow2 & Hlen2' & _ & Hpos2).
  assert (Elt : zlen (row_cells c nr) <? t_cols t2 = true) by lia. rewrite Elt in Hpos2. destruct Hpos2 as [Hx2 Hp2].
  assert (HzR' : zlen R' = snd yc) by lia.
  destruct HI2 as (_ & Hirm2 & Hcs2).
  (* backspaces *)
  unfold emit_ins. cbv beta iota zeta. fold (out_text c ycs yt). rewrite Eot. rewrite !run_app. fold t2. rewrite Hwzt.
  assert (Hbs : run t2 (repeat TBs (Z.to_nat (snd zc))) = set_pos t2 (zlen (row_cells c nr0)) y false).
  { rewrite bs_run by (rewrite Hx2, Hsplit, zlen_app, HzZ; pose proof (zlen_nonneg (row_cells c nr0)); lia).
    destruct (Z.to_nat (snd zc)) eqn:En; [lia|]. f_equal; [|exact Hy2].
    rewrite Hx2, Hsplit, zlen_app, HzZ. lia. }
  rewrite Hbs. set (t3 := set_pos t2 (zlen (row_cells c nr0)) y false).
  assert (HR3 : RowSt t3 y (row_cells c nr0) (Zc ++ R')).
  { apply RowSt_set_pos_back; [rewrite <- Hsplit; exact HR2|apply WFc_row_cells; exact Hnr0|].
    rewrite <- Hsplit. lia. }
  assert (HF3 : SameFrame t0 t3 y) by (unfold SameFrame in *; cbn; exact HF2).
  (* attribute of Y *)
  rewrite attr_escape_run by assumption. set (t4 := set_attr t3 (attr_vis c ya)).
  assert (Hcs4 : CsInv c (r_first rs2) (r_lcs rs2) t4) by (unfold CsInv in *; cbn; exact Hcs2).
  (* charset of Y *)
  set (tc := if negb (g_utf8 c) then (if r_lcs rs2 =? 2 then [TIbmOff] else []) ++ [cs_tok ycs] else []).
  assert (H5 : exists t5, run t4 tc = t5 /\ RowSt t5 y (row_cells c nr0) (Zc ++ R') /\ SameFrame t0 t5 y
                 /\ t_attr t5 = attr_vis c ya /\ cur_cs t5 = ycs /\ t_irm t5 = false
                 /\ (if g_utf8 c then t_so t5 = false /\ t_ibm t5 = false else t_ibm t5 = (ycs =? 2))).
  { unfold tc. destruct (g_utf8 c) eqn:U; cbn [negb].
    - exists t4. subst ycs. destruct (cs_utf8_ok c _ _ t4 U Hcs4) as [Hc0 _].
      splits; auto using RowSt_set_attr, SameFrame_set_attr.
      + apply (CsInv_so_utf8 _ _ _ _ Hcs4 U).
      + apply (CsInv_so_utf8 _ _ _ _ Hcs4 U).
    - destruct (cs_switch_ok c (r_first rs2) (r_lcs rs2) ycs t4 U Hcs4 Hycs) as (Et & Hcur & _).
      eexists. split; [reflexivity|]. rewrite Et in *.
      splits; auto using RowSt_set_so, RowSt_set_ibm, RowSt_set_attr, SameFrame_set_so, SameFrame_set_ibm, SameFrame_set_attr. }
  fold tc. destruct H5 as (t5 & -> & HR5 & HF5 & Hat5 & Hcs5 & Hirm5 & Hmode5).
  (* insert Y, then its combining characters *)
  set (tail := if negb (g_utf8 c) && (ycs =? 2) then [TIbmOff] else []).
  set (t6 := set_irm t5 true).
  set (t7 := put t6 (fst oc) (snd oc)).
  set (t8 := run t7 (map ch_tok os)).
  replace (run (run (run (run t5 [TIrmOn]) (map ch_tok (oc :: os))) [TIrmOff]) tail) with (run (set_irm t8 false) tail)
    by reflexivity.
  assert (HR6 : RowSt t6 y (row_cells c nr0) (Zc ++ R')) by (apply RowSt_set_irm; exact HR5).
  assert (HF6 : SameFrame t0 t6 y) by (apply SameFrame_set_irm; exact HF5).
  assert (Hy6 : 0 <= y < zlen (t_grid t6)) by (cbn; rewrite (SameFrame_len _ _ _ HF5); exact Hy).
  assert (HzR'o : zlen R' = snd oc) by lia.
  destruct (put_ins_ok t0 t6 y (row_cells c nr0) Zc R' (fst oc) (snd oc) HR6 HF6 Hy6 eq_refl Hwo HzR'o HwZ)
    as (HR7 & HF7 & HM7).
  fold t7 in HR7, HF7, HM7.
  destruct HM7 as (M1 & M2 & M3 & M4). cbn in M1, M2, M3, M4.
  assert (Hcs7 : cur_cs t7 = ycs).
  { unfold cur_cs in *. rewrite M3, M4, (SameFrame_g1 t0 t6 t7 y HF6 HF7). cbn. exact Hcs5. }
  destruct (print_any os t0 t7 y _ Zc HR7 HF7 Hy (or_intror Hos) Hos12) as (R8 & HR8 & HF8 & HM8 & HR8eq).
  { rewrite (calc_width_zw os Hos). destruct HR7 as (_ & _ & Hl & _). rewrite zlen_app in *.
    pose proof (zlen_nonneg Zc). lia. }
  fold t8 in HR8, HF8, HM8. rewrite (HR8eq Hos) in HR8. clear HR8eq R8.
  destruct HM8 as (N1 & N2 & N3 & N4).
  (* what is now in front of Z is exactly Y with its combining characters *)
  assert (EY : paint_text (row_cells c nr0 ++ char_cells (fst oc) (snd oc) (cur_cs t6) (t_attr t6)) (cur_cs t7) (t_attr t7) os
               = row_cells c nr0 ++ Yc).
  { rewrite Hcs7, M1. replace (cur_cs t6) with ycs by (unfold cur_cs in *; cbn; exact (eq_sym Hcs5)).
    replace (t_attr t6) with (attr_vis c ya) by (cbn; congruence).
    rewrite ?Hat5. rewrite paint_text_prefix.
    - f_equal. unfold Yc. cbn [run_cells]. rewrite Eot. rewrite paint_text_cons. unfold paint_chr.
      destruct (snd oc =? 0) eqn:E0; [lia|]. cbn [app]. reflexivity.
    - apply WFc_char_cells. lia.
    - unfold char_cells. destruct (snd oc =? 0) eqn:E0; [lia|discriminate].
    - exact Hos12. }
  rewrite EY in HR8.
  (* insert mode off, IBMPC off again if Y was drawn in it *)
  assert (H9 : exists t9, run (set_irm t8 false) tail = t9 /\ t_grid t9 = t_grid t8 /\ SameFrame t0 t9 y /\ t_y t9 = y
                 /\ t_irm t9 = false /\ t_ibm t9 = false /\ (g_utf8 c = true -> t_so t9 = false)).
  { assert (Y8 : t_y t8 = y) by apply HR8.
    assert (I8 : t_ibm t8 = t_ibm t5) by (rewrite N4, M4; reflexivity).
    assert (S8 : t_so t8 = t_so t5) by (rewrite N3, M3; reflexivity).
    unfold tail. destruct (g_utf8 c) eqn:U; cbn [negb andb].
    - exists (set_irm t8 false). destruct Hmode5 as [S5 I5].
      splits; try reflexivity; try exact Y8; try (unfold SameFrame in *; cbn; exact HF8); try (cbn; congruence);
        try (intros _; cbn; congruence).
    - destruct (ycs =? 2) eqn:E2.
      + exists (set_ibm (set_irm t8 false) false).
        splits; try reflexivity; try exact Y8; try (unfold SameFrame in *; cbn; exact HF8); try (intros; discriminate).
      + exists (set_irm t8 false).
        splits; try reflexivity; try exact Y8; try (unfold SameFrame in *; cbn; exact HF8); try (cbn; congruence);
          try (intros; discriminate). }
  destruct H9 as (t9 & -> & Hg9 & HF9 & Hy9 & Hirm9 & Hibm9 & Hso9).
  unfold RowDone. splits; auto; try contradiction.
  - unfold row_shows. rewrite Hg9.
    destruct HR8 as (_ & Hrow8 & _). rewrite Hrow8.
    rewrite Hcells, <- app_assoc. apply Forall2_vis_refl.
  - unfold Modes. splits; auto. intros H. congruence.
Qed.

(* ================= 7. the row loop ================= *)
Record LoopInv (c : cfg) (cols rows : Z) (tb : term) (content : list crow) (y : Z) (acc : dacc) (t : term) : Prop := mkLI {
  li_ru : d_ru acc = None;
  li_sb : d_sb acc = takez y content;
  li_inv : y < rows -> Inv c (d_rs acc) t;
  li_modes : Modes c (d_rs acc) t;
  li_cols : t_cols t = cols;
  li_rows : t_rows t = rows;
  li_len : zlen (t_grid t) = rows;
  li_scr : t_scrolled t = t_scrolled tb;
  li_vis : t_visible t = t_visible tb;
  li_bce : t_bce t = t_bce tb;
  li_g1 : t_g1 t = t_g1 tb;
  li_home : y = 0 -> t_x t = 0 /\ t_y t = 0 /\ t_pending t = false;
  li_done : forall y' row, 0 <= y' < y -> nthz content y' = Some row -> row_shows c row (get_row (t_grid t) y');
  li_rest : forall y', y <= y' -> get_row (t_grid t) y' = get_row (t_grid tb) y' }.

Lemma takez_succ {A} (l : list A) y x : nthz l y = Some x -> takez (y + 1) l = takez y l ++ [x].
Proof.
  intros H. destruct (nthz_split l y x H) as [Hl Hr]. rewrite Hl at 1.
  replace (takez y l ++ x :: dropz (y + 1) l) with ((takez y l ++ [x]) ++ dropz (y + 1) l) by (now rewrite <- app_assoc).
  apply takez_app_exact. rewrite zlen_app, zlen_cons, zlen_nil, zlen_takez by lia. lia.
Qed.

Lemma text_eqb_eq a : forall b, text_eqb a b = true -> a = b.
Proof.
  induction a as [|x a IH]; intros [|y b] H; cbn [text_eqb] in H; try discriminate; [reflexivity|].
  apply andb_prop in H as [H1 H2]. unfold chr_eqb in H1. apply andb_prop in H1 as [H3 H4].
  destruct x, y. cbn [fst snd] in *. f_equal; [f_equal; lia|]. apply IH; exact H2.
Qed.

Lemma run_eqb_eq a b : run_eqb a b = true -> a = b.
Proof.
  destruct a as [[aa ac] at_], b as [[ba bc] bt]. unfold run_eqb. intros H.
  apply andb_prop in H as [H H3]. apply andb_prop in H as [H1 H2].
  apply text_eqb_eq in H3. f_equal; [f_equal; lia|exact H3].
Qed.

Lemma row_eqb_eq a : forall b, row_eqb a b = true -> a = b.
Proof.
  induction a as [|x a IH]; intros [|y b] H; cbn [row_eqb] in H; try discriminate; [reflexivity|].
  apply andb_prop in H as [H1 H2]. apply run_eqb_eq in H1. f_equal; [exact H1|apply IH; exact H2].
Qed.

(* cursor positioning before a row *)
Lemma position_ok c cols rows tb content y acc t :
  LoopInv c cols rows tb content y acc t -> 0 <= y < rows -> 1 <= cols ->
  zlen (get_row (t_grid tb) y) = cols ->
  let t1 := run t (if negb (y =? 0) || false then set_cursor_position false (d_cy acc) 0 y else []) in
  (t1 = t \/ t1 = set_pos t 0 y false) /\ RowSt t1 y [] (get_row (t_grid t) y).
Proof.
  intros L Hy Hc Hrow t1. subst t1.
  pose proof (li_rest _ _ _ _ _ _ _ _ L y (Z.le_refl y)) as Hr.
  pose proof (li_cols _ _ _ _ _ _ _ _ L) as Hcols.
  pose proof (li_rows _ _ _ _ _ _ _ _ L) as Hrows.
  pose proof (li_home _ _ _ _ _ _ _ _ L) as Hhome.
  clear L.
  destruct (y =? 0) eqn:E; cbn [negb orb].
  - assert (y = 0) by lia. subst y. destruct (Hhome eq_refl) as (Hx & Hy0 & Hp).
    cbn [run fold_left]. split; [left; reflexivity|].
    unfold RowSt. cbn [app]. change (zlen (@nil cell)) with 0. splits; auto.
    + rewrite Hr. lia.
    + constructor.
    + assert (E' : 0 <? t_cols t = true) by lia. rewrite E'. auto.
  - unfold set_cursor_position. cbn [negb run fold_left].
    rewrite cup_ok by lia. split; [right; reflexivity|].
    unfold RowSt. cbn. change (zlen (@nil cell)) with 0. splits; auto.
    + rewrite Hr. lia.
    + constructor.
    + assert (E' : 0 <? t_cols t = true) by lia. rewrite E'. auto.
Qed.

Lemma loop_next c cols rows tb content y row acc t t1 t2 rs2 out' (keep : Prop) :
  LoopInv c cols rows tb content y acc t -> 0 <= y < rows ->
  nthz content y = Some row ->
  (t1 = t \/ t1 = set_pos t 0 y false) ->
  RowDone c t1 t2 y row rs2 keep -> (y + 1 < rows -> keep) ->
  LoopInv c cols rows tb content (y + 1) (mkAcc out' (d_sb acc ++ [row]) y rs2 None) t2.
Proof.
  intros L Hy Hrow Ht1 (Hshow & HF & _ & Hmodes & Hinv) Hkeep. destruct L.
  assert (G : t_grid t1 = t_grid t /\ t_cols t1 = t_cols t /\ t_rows t1 = t_rows t /\ t_scrolled t1 = t_scrolled t
              /\ t_visible t1 = t_visible t /\ t_bce t1 = t_bce t /\ t_g1 t1 = t_g1 t).
  { destruct Ht1 as [-> | ->]; cbn; splits; reflexivity. }
  destruct G as (G1 & G2 & G3 & G4 & G5 & G6 & G7).
  destruct HF as (F1 & F2 & F3 & F4 & F5 & F6 & F7 & F8).
  constructor; cbn [d_ru d_sb d_rs d_out d_cy].
  - reflexivity.
  - rewrite li_sb0. symmetry. apply takez_succ. exact Hrow.
  - intros H. apply Hinv. apply Hkeep. exact H.
  - exact Hmodes.
  - rewrite F1, G2. exact li_cols0.
  - rewrite F2, G3. exact li_rows0.
  - rewrite F3, G1. exact li_len0.
  - rewrite F5, G4. exact li_scr0.
  - rewrite F6, G5. exact li_vis0.
  - rewrite F7, G6. exact li_bce0.
  - rewrite F8, G7. assumption.
  - intros H. exfalso. clear -H Hy. lia.
  - intros y' row' Hy' Hn. destruct (Z.eq_dec y' y) as [->|Hne].
    + rewrite Hrow in Hn. inversion Hn; subst. exact Hshow.
    + rewrite F4 by exact Hne. rewrite G1. apply li_done0; [clear -Hy' Hne; lia|exact Hn].
  - intros y' Hy'. rewrite F4 by (clear -Hy'; lia). rewrite G1. apply li_rest0. clear -Hy'. lia.
Qed.

Lemma Inv_set_pos c rs t x y p : Inv c rs t -> Inv c rs (set_pos t x y p).
Proof. unfold Inv. cbn. auto. Qed.

Lemma row_ok_weak c cols row : row_ok c cols row -> Forall (run_ok' c) row.
Proof. intros [H _]. eapply Forall_impl; [|exact H]. apply run_ok_weak. Qed.

Lemma draw_row_ok c cols rows tb content osb y row acc t :
  cfg_ok c -> 1 <= cols -> 0 <= y < rows ->
  nthz content y = Some row -> row_ok c cols row ->
  (g_bce c = true -> t_bce tb = true) ->
  zlen (get_row (t_grid tb) y) = cols ->
  (osb <> [] -> grid_shows c osb (t_grid tb)) ->
  LoopInv c cols rows tb content y acc t ->
  exists acc' toks, draw_row c cols rows osb y row acc = Ok acc' /\ d_out acc' = d_out acc ++ toks
     /\ LoopInv c cols rows tb content (y + 1) acc' (run t toks).
Proof.
  intros Hc Hcols Hy Hnth Hrow Hbce Hlen Hosb L.
  pose proof (li_ru _ _ _ _ _ _ _ _ L) as Hru.
  unfold draw_row.
  set (same := match osb with [] => false | _ => match nthz osb y with Some o => row_eqb o row | None => false end end).
  destruct same eqn:Es.
  - (* the row is already on the screen *)
    assert (Ho : osb <> [] /\ nthz osb y = Some row).
    { unfold same in Es. destruct osb as [|o0 osb']; [discriminate|]. split; [discriminate|].
      destruct (nthz (o0 :: osb') y) as [o|]; [|discriminate]. apply row_eqb_eq in Es. subst o. reflexivity. }
    destruct Ho as [Hne Ho]. destruct (Hosb Hne) as [_ Hshows].
    exists (mkAcc (d_out acc) (d_sb acc ++ [row]) (d_cy acc) (d_rs acc) (d_ru acc)), [].
    split; [reflexivity|]. split; [cbn; now rewrite app_nil_r|]. cbn [run fold_left].
    destruct L. constructor; cbn [d_ru d_sb d_rs d_out d_cy]; auto.
    + rewrite li_sb0. symmetry. apply takez_succ. exact Hnth.
    + intros H. apply li_inv0. clear -H. lia.
    + intros H. exfalso. clear -H Hy. lia.
    + intros y' row' Hy' Hn. destruct (Z.eq_dec y' y) as [->|Hne'].
      * rewrite Hnth in Hn. inversion Hn; subst. rewrite li_rest0 by apply Z.le_refl. apply Hshows. exact Ho.
      * apply li_done0; [clear -Hy' Hne'; lia|exact Hn].
    + intros y' Hy'. apply li_rest0. clear -Hy'. lia.
  - (* the row is drawn *)
    clear same Es. rewrite Hru. cbn [bind].
    destruct (position_ok c cols rows tb content y acc t L Hy Hcols Hlen) as [Ht1 HR1].
    set (t_pos := if negb (y =? 0) || false then set_cursor_position false (d_cy acc) 0 y else []) in *.
    set (t1 := run t t_pos) in *.
    assert (HI1 : Inv c (d_rs acc) t1).
    { destruct Ht1 as [-> | ->]; [|apply Inv_set_pos]; apply (li_inv _ _ _ _ _ _ _ _ L); clear -Hy; lia. }
    assert (Hcols1 : t_cols t1 = cols).
    { destruct Ht1 as [-> | ->]; cbn; apply (li_cols _ _ _ _ _ _ _ _ L). }
    assert (Hlen1 : zlen (t_grid t1) = rows).
    { destruct Ht1 as [-> | ->]; cbn; apply (li_len _ _ _ _ _ _ _ _ L). }
    assert (Hbce1 : g_bce c = true -> t_bce t1 = true).
    { intros B. destruct Ht1 as [-> | ->]; cbn; rewrite (li_bce _ _ _ _ _ _ _ _ L); auto. }
    assert (Hy1 : 0 <= y < zlen (t_grid t1)) by (rewrite Hlen1; exact Hy).
    pose proof (row_ok_weak _ _ _ Hrow) as Hrow'. destruct Hrow as [Hruns Hwidth].
    assert (Hw1 : row_width row = t_cols t1) by congruence.
    assert (Hrne : row <> []).
    { intros ->. change (row_width []) with 0 in Hwidth. clear -Hwidth Hcols. lia. }
    assert (Hrok : row_ok c cols row) by (split; assumption).
    destruct (snoc_cases row) as [->|(front & [[a cs] text] & ->)]; [congruence|].
    rewrite last_opt_snoc, removelast_last.
    destruct ((match last_opt text with Some ch => is_space ch | None => false end) && g_bce c && negb (using_sul c a)) eqn:Ews.
    + (* trailing blanks erased *)
      apply andb_prop in Ews as [Ews Esul]. apply andb_prop in Ews as [Esp Eb].
      apply negb_true_iff in Esul. cbn [bind].
      pose proof (row_ws_ok c (d_rs acc) front a cs text t1 t1 y (get_row (t_grid t) y) True Hc Hrow' HI1 HR1
                    (SameFrame_refl _ _) Hy1 Hw1 Esp Esul (Hbce1 Eb)) as W.
      match goal with |- context [emit_runs ?ea ?eb ?ec] =>
        destruct (emit_runs ea eb ec) as [t_runs rs2] eqn:Er;
        assert (E1 : t_runs = fst (emit_runs ea eb ec)) by (rewrite Er; reflexivity);
        assert (E2 : rs2 = snd (emit_runs ea eb ec)) by (rewrite Er; reflexivity); clear Er end.
      eexists. exists (t_pos ++ t_runs ++ [] ++ [TEl]). split; [reflexivity|]. split; [reflexivity|].
      rewrite run_app. fold t1. cbn [app].
      subst t_runs rs2. eapply loop_next with (t1 := t1) (keep := True); eauto.
    + destruct ((y =? rows - 1) && (1 <? cols)) eqn:Elast.
      * (* bottom row *)
        apply andb_prop in Elast as [Ey Ec].
        destruct (last_row_ok c cols _ Hrok Hrne) as
          [(r1 & Er1 & Elr) | (nr0 & ya & ycs & yt & za & zcs & zt & Elr & Hcells & Hnr & Hyr & Hby & Hbz & Hwsum)].
        -- rewrite Elr. cbn [bind].
           pose proof (row_plain_ok c (d_rs acc) _ t1 t1 y (get_row (t_grid t) y) True Hc Hrow' HI1 HR1
                         (SameFrame_refl _ _) Hy1 Hw1) as W.
           match goal with |- context [emit_runs ?ea ?eb ?ec] =>
             destruct (emit_runs ea eb ec) as [t_runs rs2] eqn:Er;
             assert (E1 : t_runs = fst (emit_runs ea eb ec)) by (rewrite Er; reflexivity);
             assert (E2 : rs2 = snd (emit_runs ea eb ec)) by (rewrite Er; reflexivity); clear Er end.
           eexists. exists (t_pos ++ t_runs ++ [] ++ []). split; [reflexivity|]. split; [reflexivity|].
           rewrite run_app. fold t1. cbn [app]. rewrite app_nil_r.
           subst t_runs rs2. eapply loop_next with (t1 := t1) (keep := True); eauto.
        -- rewrite Elr. cbn [bind].
           assert (Hwsum' : row_width nr0 + calc_width yt + calc_width zt = t_cols t1) by congruence.
           pose proof (row_trick_ok c (d_rs acc) nr0 ya ycs yt za zcs zt _ t1 t1 y (get_row (t_grid t) y) Hc Hnr Hyr Hby Hbz Hcells
                         Hwsum' HI1 HR1 (SameFrame_refl _ _) Hy1) as W.
           match goal with |- context [emit_runs ?ea ?eb ?ec] =>
             destruct (emit_runs ea eb ec) as [t_runs rs2] eqn:Er;
             assert (E1 : t_runs = fst (emit_runs ea eb ec)) by (rewrite Er; reflexivity);
             assert (E2 : rs2 = snd (emit_runs ea eb ec)) by (rewrite Er; reflexivity); clear Er end.
           eexists. exists (t_pos ++ t_runs ++ emit_ins c rs2 (calc_width zt) (ya, ycs, yt) ++ []).
           split; [reflexivity|]. split; [reflexivity|].
           rewrite run_app. fold t1. rewrite app_nil_r.
           subst t_runs rs2. eapply loop_next with (t1 := t1) (keep := False); eauto.
           intros H. exfalso. clear -H Ey. lia.
      * (* any other row, printed in full *)
        cbn [bind].
        pose proof (row_plain_ok c (d_rs acc) _ t1 t1 y (get_row (t_grid t) y) True Hc Hrow' HI1 HR1
                      (SameFrame_refl _ _) Hy1 Hw1) as W.
        match goal with |- context [emit_runs ?ea ?eb ?ec] =>
          destruct (emit_runs ea eb ec) as [t_runs rs2] eqn:Er;
          assert (E1 : t_runs = fst (emit_runs ea eb ec)) by (rewrite Er; reflexivity);
          assert (E2 : rs2 = snd (emit_runs ea eb ec)) by (rewrite Er; reflexivity); clear Er end.
        eexists. exists (t_pos ++ t_runs ++ [] ++ []). split; [reflexivity|]. split; [reflexivity|].
        rewrite run_app. fold t1. cbn [app]. rewrite app_nil_r.
        subst t_runs rs2. eapply loop_next with (t1 := t1) (keep := True); eauto.
Qed.

Lemma dropz_cons_nth {A} (l : list A) y r rest : 0 <= y -> dropz y l = r :: rest -> nthz l y = Some r /\ dropz (y + 1) l = rest.
Proof.
  intros Hy H. unfold dropz, nthz in *. destruct (y <? 0) eqn:E; [lia|].
  replace (Z.to_nat (y + 1)) with (S (Z.to_nat y)) by lia.
  revert l H. generalize (Z.to_nat y) as n. induction n as [|n IH]; intros l H.
  - cbn [skipn] in H. subst l. split; reflexivity.
  - destruct l as [|a l]; [discriminate|]. cbn [skipn nth_error] in *. apply IH. exact H.
Qed.

Lemma Forall_get_row (P : list cell -> Prop) g y : Forall P g -> 0 <= y < zlen g -> P (get_row g y).
Proof.
  intros H Hy. destruct (nthz_range g y Hy) as [r Hr]. unfold get_row. rewrite Hr.
  rewrite Forall_forall in H. apply H. unfold nthz in Hr. destruct (y <? 0); [discriminate|].
  eapply nth_error_In; eauto.
Qed.

Lemma Forall_nthz {A} (P : A -> Prop) l y x : Forall P l -> nthz l y = Some x -> P x.
Proof.
  intros H Hn. rewrite Forall_forall in H. apply H. unfold nthz in Hn. destruct (y <? 0); [discriminate|].
  eapply nth_error_In; eauto.
Qed.

Lemma draw_rows_ok c cols rows tb content osb : forall rest y acc t,
  cfg_ok c -> 1 <= cols -> 0 <= y -> y + zlen rest = rows -> dropz y content = rest ->
  Forall (row_ok c cols) content ->
  (g_bce c = true -> t_bce tb = true) ->
  Forall (fun r => zlen r = cols) (t_grid tb) -> zlen (t_grid tb) = rows ->
  (osb <> [] -> grid_shows c osb (t_grid tb)) ->
  LoopInv c cols rows tb content y acc t ->
  exists acc' toks, draw_rows c cols rows osb y rest acc = Ok acc' /\ d_out acc' = d_out acc ++ toks
     /\ LoopInv c cols rows tb content rows acc' (run t toks).
Proof.
  induction rest as [|r rest IH]; intros y acc t Hc Hcols Hy Hsum Hdrop Hcontent Hbce Hgrid Hglen Hosb L.
  - exists acc, []. rewrite zlen_nil in Hsum. assert (y = rows) by lia. subst y.
    split; [reflexivity|]. split; [now rewrite app_nil_r|]. exact L.
  - rewrite zlen_cons in Hsum. pose proof (zlen_nonneg rest) as Hnn.
    destruct (dropz_cons_nth content y r rest Hy Hdrop) as [Hnth Hdrop'].
    assert (Hyr : 0 <= y < rows) by lia.
    assert (Hrow : row_ok c cols r) by (eapply Forall_nthz; eauto).
    assert (Hlen : zlen (get_row (t_grid tb) y) = cols).
    { apply (Forall_get_row (fun r => zlen r = cols)); [exact Hgrid|lia]. }
    destruct (draw_row_ok c cols rows tb content osb y r acc t Hc Hcols Hyr Hnth Hrow Hbce Hlen Hosb L)
      as (acc1 & toks1 & E1 & O1 & L1).
    destruct (IH (y + 1) acc1 (run t toks1)) as (acc2 & toks2 & E2 & O2 & L2); auto; try lia.
    exists acc2, (toks1 ++ toks2). cbn [draw_rows]. rewrite E1. cbn [bind]. split; [exact E2|]. split.
    + rewrite O2, O1, app_assoc. reflexivity.
    + rewrite run_app. exact L2.
Qed.

(* ================= 8. one frame ================= *)
Lemma Forall2_zlen {A B} (R : A -> B -> Prop) a b : Forall2 R a b -> zlen a = zlen b.
Proof. induction 1; [reflexivity|]. rewrite !zlen_cons. lia. Qed.

Lemma Forall_from_rows (P : list cell -> Prop) g : (forall y, 0 <= y < zlen g -> P (get_row g y)) -> Forall P g.
Proof.
  induction g as [|r g IH]; intros H; [constructor|]. constructor.
  - specialize (H 0). rewrite zlen_cons in H. pose proof (zlen_nonneg g). apply H. lia.
  - apply IH. intros y Hy. specialize (H (y + 1)). rewrite zlen_cons in H.
    assert (E : get_row (r :: g) (y + 1) = get_row g y).
    { unfold get_row, nthz. destruct (y + 1 <? 0) eqn:E1; [lia|]. destruct (y <? 0) eqn:E2; [lia|].
      replace (Z.to_nat (y + 1)) with (S (Z.to_nat y)) by lia. reflexivity. }
    rewrite <- E. apply H. lia.
Qed.

Lemma takez_full {A} (l : list A) : takez (zlen l) l = l.
Proof. apply takez_all. lia. Qed.

Theorem draw_paints_lemma c s t cols rows content cursor :
  cfg_ok c -> Sync c s t -> t_cols t = cols -> t_rows t = rows ->
  canvas_ok c cols rows content -> cursor_ok cols rows cursor ->
  exists toks s', draw_screen c s cols rows content cursor false false = Ok (toks, s')
     /\ Paints c (run t toks) content cursor /\ Sync c s' (run t toks) /\ s_buf s' = content
     /\ t_cols (run t toks) = cols /\ t_rows (run t toks) = rows.
Proof.
  intros Hc (Sru & Sres & (T1 & T2 & T3 & T4) & Sirm & Sscr & Sibm & Sso & Sg1 & Sbce & Sbuf) Hcols Hrows [Clen Crows] Hcur.
  unfold draw_screen.
  assert (E1 : negb (rows =? zlen content) = false) by (rewrite Clen; clear; lia). rewrite E1.
  rewrite andb_false_r. rewrite Sres, Sru.
  set (t_g1' := if s_g1 s then [] else [TG1]).
  set (out0 := [THide] ++ attr_to_escape c 0 ++ [THome] ++ set_cursor_home false (s_cy s)).
  set (ta := run t t_g1').
  assert (Hta : ta = t \/ ta = set_g1 t true).
  { unfold ta, t_g1'. destruct (s_g1 s); [left|right]; reflexivity. }
  assert (Hg1a : t_g1 ta = true).
  { unfold ta, t_g1'. destruct (s_g1 s) eqn:G; [apply Sg1; reflexivity|reflexivity]. }
  set (tb := run ta out0).
  assert (Htb : tb = set_pos (set_attr (set_visible ta false) (attr_vis c 0)) 0 0 false).
  { unfold tb, out0. rewrite !run_app. cbn [run fold_left step]. rewrite attr_escape_run by exact Hc.
    unfold set_cursor_home. cbn [negb run fold_left].
    assert (Ecup : step (set_pos (set_attr (set_visible ta false) (attr_vis c 0)) 0 0 false) (TCup (0 + 1) (0 + 1))
                   = set_pos (set_pos (set_attr (set_visible ta false) (attr_vis c 0)) 0 0 false) 0 0 false).
    { apply cup_ok; cbn; destruct Hta as [-> | ->]; cbn; clear -T1 T2; lia. }
    change (TCup 1 1) with (TCup (0 + 1) (0 + 1)). cbn [fold_left]. rewrite Ecup. reflexivity. }
  assert (Gb : t_grid tb = t_grid t /\ t_cols tb = cols /\ t_rows tb = rows /\ t_scrolled tb = false /\ t_visible tb = false
               /\ t_bce tb = t_bce t /\ t_g1 tb = true /\ t_ibm tb = false /\ t_irm tb = false /\ t_so tb = t_so t
               /\ t_attr tb = attr_vis c 0 /\ t_x tb = 0 /\ t_y tb = 0 /\ t_pending tb = false).
  { rewrite Htb. destruct Hta as [Ea | Ea]; rewrite Ea in *; cbn in *; splits; auto. }
  destruct Gb as (B1 & B2 & B3 & B4 & B5 & B6 & B7 & B8 & B9 & B10 & B11 & B12 & B13 & B14).
  (* the loop *)
  set (acc0 := mkAcc out0 [] 0 (mkRs 0 true 0) None).
  assert (L0 : LoopInv c cols rows tb content 0 acc0 tb).
  { constructor; cbn [d_ru d_sb d_rs d_out d_cy acc0]; auto.
    - intros _. unfold Inv, CsInv. cbn [r_last r_first r_lcs]. splits; auto.
      destruct (g_utf8 c) eqn:U.
      + split; [rewrite B10; apply Sso; reflexivity|exact B8].
      + splits; auto. discriminate.
    - unfold Modes. splits; auto.
      + intros H. congruence.
      + intros U. rewrite B10. apply Sso. exact U.
    - rewrite B1, T3. exact Hrows.
    - intros y' row' H. exfalso. clear -H. lia. }
  assert (A1 : 1 <= cols) by (rewrite <- Hcols; exact T1).
  assert (A2 : 0 + zlen content = rows) by (rewrite Clen; clear; lia).
  assert (A3 : g_bce c = true -> t_bce tb = true) by (intros B; rewrite B6; apply Sbce; exact B).
  assert (A4 : Forall (fun r => zlen r = cols) (t_grid tb)) by (rewrite B1, <- Hcols; exact T4).
  assert (A5 : zlen (t_grid tb) = rows) by (rewrite B1, T3; exact Hrows).
  assert (A6 : s_buf s <> [] -> grid_shows c (s_buf s) (t_grid tb)) by (intros H; rewrite B1; apply Sbuf; exact H).
  destruct (draw_rows_ok c cols rows tb content (s_buf s) content 0 acc0 tb Hc A1 (Z.le_refl 0) A2 eq_refl Crows A3 A4 A5 A6 L0)
    as (acc' & ltoks & Ed & Od & L).
  fold acc0. rewrite Ed. cbn [bind].
  set (tl := run tb ltoks) in *.
  pose proof (li_g1 _ _ _ _ _ _ _ _ L) as Lg1.
  pose proof L as L'. destruct L'.
  assert (Hshows : grid_shows c content (t_grid tl)).
  { split; [rewrite li_len0; symmetry; exact Clen|].
    intros y row Hn. apply li_done0; [|exact Hn]. apply nthz_split in Hn as [_ Hn]. rewrite Clen in Hn. exact Hn. }
  assert (Hsb : d_sb acc' = content) by (rewrite li_sb0, <- Clen; apply takez_full).
  assert (Hrowlen : Forall (fun r => zlen r = cols) (t_grid tl)).
  { apply Forall_from_rows. intros y Hy. rewrite li_len0 in Hy.
    assert (Hyc : 0 <= y < zlen content) by (rewrite Clen; exact Hy).
    destruct (nthz_range content y Hyc) as [row Hn].
    pose proof (li_done0 y row Hy Hn) as Hs. unfold row_shows in Hs. apply Forall2_zlen in Hs. rewrite <- Hs.
    pose proof (Forall_nthz _ _ _ _ Crows Hn) as Hrok.
    rewrite zlen_row_cells by (eapply row_ok_weak; eauto). destruct Hrok as [_ Hw]. exact Hw. }
  (* the IBMPC mapping is switched off at the end of the frame *)
  set (t_ibm' := if negb (g_utf8 c) && (r_lcs (d_rs acc') =? 2) then [TIbmOff] else []).
  assert (G2 : exists tl2, run tl t_ibm' = tl2 /\ t_grid tl2 = t_grid tl /\ t_cols tl2 = cols /\ t_rows tl2 = rows
                 /\ t_scrolled tl2 = false /\ t_visible tl2 = false /\ t_bce tl2 = t_bce tl /\ t_g1 tl2 = true
                 /\ t_irm tl2 = false /\ t_ibm tl2 = false /\ (g_utf8 c = true -> t_so tl2 = false)).
  { destruct li_modes0 as (Mirm & Mibm & Mso).
    unfold t_ibm'. destruct (negb (g_utf8 c) && (r_lcs (d_rs acc') =? 2)) eqn:E.
    - exists (set_ibm tl false). cbn. splits; auto; congruence.
    - exists tl. cbn [run fold_left]. splits; auto; try congruence.
      destruct (t_ibm tl) eqn:Ei; [|reflexivity]. destruct (Mibm eq_refl) as [U L2]. rewrite U, L2 in E. discriminate. }
  destruct G2 as (tl2 & Etl2 & Q1 & Q2 & Q3 & Q4 & Q5 & Q6 & Q7 & Q8 & Q9 & Q10).
  destruct cursor as [[cx cy]|].
  - (* cursor shown *)
    destruct Hcur as [Hcx Hcy].
    eexists. eexists. split; [reflexivity|].
    rewrite Od. cbn [d_out acc0]. rewrite !run_app. fold ta. fold tb. fold tl. fold t_ibm'. rewrite Etl2.
    unfold set_cursor_position. cbn [negb run fold_left].
    rewrite cup_ok by (rewrite ?Q2, ?Q3; assumption). cbn [step].
    split; [|split].
    + split; [cbn; rewrite Q1; exact Hshows|]. split; [cbn; splits; reflexivity|]. cbn. exact Q4.
    + unfold Sync. cbn. splits; auto.
      * unfold term_ok. cbn. rewrite Q1, Q2, Q3, li_len0. splits; auto; congruence.
      * intros B. rewrite Q6, li_bce0, B6. apply Sbce. exact B.
      * intros _. rewrite Hsb, Q1. exact Hshows.
    + cbn. splits; auto.
  - (* cursor hidden *)
    eexists. eexists. split; [reflexivity|].
    rewrite Od. cbn [d_out acc0]. rewrite !run_app. fold ta. fold tb. fold tl. fold t_ibm'. rewrite Etl2. cbn [run fold_left].
    split; [|split].
    + split; [rewrite Q1; exact Hshows|]. split; [cbn; exact Q5|]. exact Q4.
    + unfold Sync. cbn. splits; auto.
      * unfold term_ok. rewrite Q1, Q2, Q3, li_len0. splits; auto; congruence.
      * intros B. rewrite Q6, li_bce0, B6. apply Sbce. exact B.
      * intros _. rewrite Hsb, Q1. exact Hshows.
    + cbn. splits; auto.
Qed.

(* ================= 9. histories ================= *)
Lemma sync_start c t : term_start_ok c t -> Sync c (init_scr false) t.
Proof.
  intros (H1 & H2 & H3 & H4 & H5 & H6). unfold Sync. cbn. splits; auto; try discriminate; try congruence.
Qed.

Lemma sync_clear c s t t' : Sync c s t -> same_but_cells t t' -> Sync c (clear s) t'.
Proof.
  intros (Sru & Sres & (T1 & T2 & T3 & T4) & Sirm & Sscr & Sibm & Sso & Sg1 & Sbce & Sbuf)
         (C1 & C2 & C3 & C4 & C5 & C6 & C7 & C8 & C9 & C10).
  unfold Sync. cbn. splits; auto; try congruence.
  - unfold term_ok. rewrite C1, C2. splits; auto; try congruence.
  - intros U. rewrite C6. auto.
  - intros G. rewrite C8. auto.
  - intros B. rewrite C10. auto.
Qed.

Lemma sync_resize c s t t' : Sync c s t -> resized_from t t' -> Sync c (ack (winch s)) t'.
Proof.
  intros (Sru & Sres & _ & Sirm & Sscr & Sibm & Sso & Sg1 & Sbce & Sbuf) (C1 & C2 & C3 & C4 & C5 & C6 & C7).
  unfold Sync. cbn. splits; auto; try congruence.
  - intros U. rewrite C3. auto.
  - intros G. rewrite C5. auto.
  - intros B. rewrite C7. auto.
Qed.

(* the same canvas object while the screen buffer is valid: nothing is written *)
Lemma draw_same_noop c s cols rows content cursor :
  s_buf s <> [] -> rows = zlen content -> draw_screen c s cols rows content cursor true false = Ok ([], s).
Proof.
  intros Hb Hr. unfold draw_screen. assert (E : negb (rows =? zlen content) = false) by lia. rewrite E.
  destruct (s_buf s); [congruence|]. reflexivity.
Qed.

Lemma draw_same_fresh c s cols rows content cursor :
  s_buf s = [] -> draw_screen c s cols rows content cursor true false = draw_screen c s cols rows content cursor false false.
Proof. intros Hb. unfold draw_screen. rewrite Hb. reflexivity. Qed.

(* a draw abandoned because SIGWINCH arrived while its rows were produced: only the G1 designation may have
   been written, the screen buffer is forgotten and the resize is pending *)
Lemma draw_interrupted_ok c s cols rows content cursor toks s' :
  s_resized s = false ->
  draw_screen c s cols rows content cursor false false = Ok (toks, s') ->
  exists s'', draw_screen c s cols rows content cursor false true = Ok ((if s_g1 s then [] else [TG1]), s'')
    /\ s_buf s'' = [] /\ s_resized s'' = true /\ s_ru s'' = s_ru s /\ s_cy s'' = s_cy s /\ s_g1 s'' = true.
Proof.
  intros Hres. unfold draw_screen. destruct (negb (rows =? zlen content)); [discriminate|].
  rewrite !andb_false_r. rewrite Hres.
  match goal with |- context [draw_rows ?a ?b ?c2 ?d ?e ?f ?g] => destruct (draw_rows a b c2 d e f g) as [acc|] end;
    [|discriminate].
  cbn [bind]. destruct cursor as [[x y]|]; intros H; inversion H; subst; eexists; (split; [reflexivity|]); cbn; auto.
Qed.

Definition RInv (c : cfg) (s : scr) (t : term) (last : option canvas) (shown : bool) : Prop :=
  Sync c s t /\
  (forall content cursor, last = Some (content, cursor) ->
     canvas_ok c (t_cols t) (t_rows t) content /\ cursor_ok (t_cols t) (t_rows t) cursor) /\
  (s_buf s <> [] \/ shown = true ->
     exists content cursor, last = Some (content, cursor) /\ Paints c t content cursor).

Lemma reach_inv c s t last shown : cfg_ok c -> Reach c s t last shown -> RInv c s t last shown.
Proof.
  intros Hc R. induction R as
    [t Hs | s t last shown content cursor toks s' R IH Hcan Hcur Hd | s t shown content cursor toks s' R IH Hd
     | s t last shown t' R IH Hsb | s t last shown t' R IH Hrs
     | s t last shown content cursor toks s' t' R IH Hcan Hcur Hd Hrs].
  - split; [apply sync_start; exact Hs|]. split; [intros; discriminate|].
    intros [H|H]; [cbn in H; congruence|discriminate].
  - destruct IH as (HS & _ & _).
    destruct (draw_paints_lemma c s t _ _ content cursor Hc HS eq_refl eq_refl Hcan Hcur)
      as (toks0 & s0 & E & HP & HS' & Hb & Hc1 & Hr1).
    rewrite E in Hd. inversion Hd; subst toks0 s0.
    split; [exact HS'|]. split.
    + intros c0 cur0 H. inversion H; subst. rewrite Hc1, Hr1. split; assumption.
    + intros _. exists content, cursor. split; [reflexivity|exact HP].
  - destruct IH as (HS & Hlast & Hshown). destruct (Hlast content cursor eq_refl) as [Hcan Hcur].
    destruct (s_buf s) as [|r0 b0] eqn:Eb.
    + rewrite draw_same_fresh in Hd by exact Eb.
      destruct (draw_paints_lemma c s t _ _ content cursor Hc HS eq_refl eq_refl Hcan Hcur)
        as (toks0 & s0 & E & HP & HS' & Hb & Hc1 & Hr1).
      rewrite E in Hd. inversion Hd; subst toks0 s0.
      split; [exact HS'|]. split.
      * intros c0 cur0 H. inversion H; subst. rewrite Hc1, Hr1. split; assumption.
      * intros _. exists content, cursor. split; [reflexivity|exact HP].
    + rewrite draw_same_noop in Hd.
      2:{ rewrite Eb. discriminate. }
      2:{ destruct Hcan as [Hl _]. symmetry. exact Hl. }
      inversion Hd; subst toks s'. cbn [run fold_left].
      split; [exact HS|]. split; [exact Hlast|].
      intros _. destruct Hshown as (c0 & cur0 & E0 & HP); [left; discriminate|].
      inversion E0; subst. exists c0, cur0. split; [reflexivity|exact HP].
  - destruct IH as (HS & Hlast & _). split; [eapply sync_clear; eauto|]. split.
    + destruct Hsb as (C1 & C2 & _). rewrite C1, C2. exact Hlast.
    + intros [H|H]; [cbn in H; congruence|discriminate].
  - destruct IH as (HS & _ & _). split; [eapply sync_resize; eauto|]. split; [intros; discriminate|].
    intros [H|H]; [cbn in H; congruence|discriminate].
  - destruct IH as (HS & _ & _).
    destruct (draw_paints_lemma c s t _ _ content cursor Hc HS eq_refl eq_refl Hcan Hcur)
      as (toks0 & s0 & E & _ & HS0 & _).
    assert (Hres : s_resized s = false) by apply HS.
    destruct (draw_interrupted_ok c s _ _ content cursor toks0 s0 Hres E) as (s2 & E2 & B1 & B2 & B3 & B3' & B4).
    rewrite E2 in Hd. inversion Hd; subst toks s'. clear Hd.
    destruct HS as (Sru & Sres & _ & Sirm & Sscr & Sibm & Sso & Sg1 & Sbce & _).
    destruct HS0 as (Z1 & _).
    assert (F : t_irm t' = false /\ t_scrolled t' = false /\ t_ibm t' = false /\ t_so t' = t_so t /\ t_g1 t' = true
                /\ t_bce t' = t_bce t /\ term_ok t').
    { destruct Hrs as (R1 & R2 & R3 & R4 & R5 & R6 & R7).
      destruct (s_g1 s) eqn:G; cbn [run fold_left step] in *; cbn in *; splits; auto; try congruence.
      rewrite R5. apply Sg1. reflexivity. }
    destruct F as (F1 & F2 & F3 & F4 & F5 & F6 & F7).
    split.
    + unfold Sync. cbn. rewrite B1. splits; auto; try congruence.
      * intros U. rewrite F4. auto.
      * intros B. rewrite F6. auto.
    + split; [intros; discriminate|]. intros [H|H]; [cbn in H; congruence|discriminate].
Qed.

(* after any history of draws, forced clears and size changes ending with a draw, the terminal
   paints the canvas drawn last; the Screen object and the terminal stay in sync *)
Theorem history_paints_lemma c s t last :
  cfg_ok c -> Reach c s t last true ->
  exists content cursor, last = Some (content, cursor) /\ Paints c t content cursor.
Proof. intros Hc R. destruct (reach_inv c s t last true Hc R) as (_ & _ & H). apply H. right. reflexivity. Qed.

Theorem reach_sync_lemma c s t last shown : cfg_ok c -> Reach c s t last shown -> Sync c s t.
Proof. intros Hc R. apply (reach_inv c s t last shown Hc R). Qed.

(* an incremental redraw and a forced full repaint of the same canvas (on a terminal holding anything)
   both paint the canvas: same cells up to visual equality, same cursor, neither scrolls *)
Theorem incremental_eq_full_lemma c s t t_any content cursor :
  cfg_ok c -> Sync c s t -> same_but_cells t t_any ->
  canvas_ok c (t_cols t) (t_rows t) content -> cursor_ok (t_cols t) (t_rows t) cursor ->
  exists toks s1 toks_full s2,
    draw_screen c s (t_cols t) (t_rows t) content cursor false false = Ok (toks, s1) /\
    draw_screen c (clear s) (t_cols t) (t_rows t) content cursor false false = Ok (toks_full, s2) /\
    Paints c (run t toks) content cursor /\ Paints c (run t_any toks_full) content cursor /\
    s_buf s1 = s_buf s2.
Proof.
  intros Hc HS Hsb Hcan Hcur.
  destruct (draw_paints_lemma c s t _ _ content cursor Hc HS eq_refl eq_refl Hcan Hcur)
    as (toks & s1 & E1 & HP1 & _ & Hb1 & _).
  pose proof (sync_clear c s t t_any HS Hsb) as HS2.
  pose proof Hsb as (C1 & C2 & _).
  destruct (draw_paints_lemma c (clear s) t_any _ _ content cursor Hc HS2 C1 C2 Hcan Hcur)
    as (toks2 & s2 & E2 & HP2 & _ & Hb2 & _).
  exists toks, s1, toks2, s2. splits; auto. congruence.
Qed.

(* ================= 10. plain histories of draws from a fresh terminal ================= *)
Lemma term_ok_new cols rows : 1 <= cols -> 1 <= rows -> term_ok (new_term cols rows).
Proof.
  intros Hc Hr. unfold term_ok, new_term. cbn. splits; auto.
  - rewrite zlen_repeat. lia.
  - apply Forall_forall. intros r Hin. apply repeat_spec in Hin. subst r. unfold blank_row. rewrite zlen_repeat. lia.
Qed.

Lemma run_draws_ok c cols rows frames : forall s t,
  cfg_ok c -> Sync c s t -> t_cols t = cols -> t_rows t = rows ->
  Forall (fun f : canvas => canvas_ok c cols rows (fst f) /\ cursor_ok cols rows (snd f)) frames ->
  exists s' t', run_draws c s t frames = Some (s', t') /\ Sync c s' t' /\
    forall content cursor, last_opt frames = Some (content, cursor) -> Paints c t' content cursor.
Proof.
  induction frames as [|[content cursor] rest IH]; intros s t Hc HS Hcols Hrows Hok.
  - exists s, t. splits; auto. intros; discriminate.
  - apply Forall_cons_iff in Hok as [[Hcan Hcur] Hrest]. cbn [fst snd] in *.
    destruct (draw_paints_lemma c s t cols rows content cursor Hc HS Hcols Hrows Hcan Hcur)
      as (toks & s1 & E & HP & HS1 & _ & Hc1 & Hr1).
    cbn [run_draws]. rewrite Hcols, Hrows, E.
    destruct (IH s1 (run t toks) Hc HS1 Hc1 Hr1 Hrest) as (s' & t' & E' & HS' & HL).
    exists s', t'. splits; auto. intros c0 cur0 Hl. destruct rest as [|f rest'].
    + cbn in Hl. inversion Hl; subst. cbn [run_draws] in E'. inversion E'; subst. exact HP.
    + apply HL. exact Hl.
Qed.

Theorem draws_paint_fullscreen_lemma : draws_paint_statement false (fun c s t content cursor => Paints c t content cursor).
Proof.
  intros c cols rows frames content cursor s t Hc Hcols Hrows Hok E.
  assert (HS : Sync c (init_scr false) (new_term cols rows)).
  { apply sync_start. unfold term_start_ok. splits; auto using term_ok_new. }
  destruct (run_draws_ok c cols rows _ _ _ Hc HS eq_refl eq_refl Hok) as (s' & t' & E' & _ & HL).
  rewrite E in E'. inversion E'; subst. apply HL. apply last_opt_snoc.
Qed.
