(* C04 - proofs: the token stream of Model/DrawScreen.v, interpreted by Model/TermRef.v, paints
   the canvas (Model/PaintSpec.v). *)
From Coq Require Import ZArith List Bool Lia ZifyBool.
From Urwid Require Import PyBase TermRef DrawScreen PaintSpec TermRefFacts.
Import ListNotations.
Open Scope Z_scope.

Arguments Z.add : simpl never.
Arguments Z.sub : simpl never.
Arguments Z.mul : simpl never.
Arguments Z.ltb : simpl never.
Arguments Z.leb : simpl never.
Arguments Z.eqb : simpl never.
Arguments Z.min : simpl never.
Arguments Z.max : simpl never.
Arguments Z.to_nat : simpl never.
Arguments Z.of_nat : simpl never.

(* ================= 1. SGR: the parameter list means the visual attribute ================= *)
Lemma apply_sgr_plain p r a : p <> 38 -> p <> 48 -> apply_sgr (p :: r) a = apply_sgr r (sgr1 p a).
Proof.
  intros H1 H2. cbn [apply_sgr]. destruct (p =? 38) eqn:E1; [lia|]. destruct (p =? 48) eqn:E2; [lia|]. reflexivity.
Qed.

Lemma sgr1_fg_low n a : 0 <= n <= 7 -> sgr1 (n + 30) a = set_fg a (CBasic n).
Proof.
  intros H. unfold sgr1.
  repeat match goal with |- context [?x =? ?y] => destruct (x =? y) eqn:?; try lia end.
  assert (E : (30 <=? n + 30) && (n + 30 <=? 37) = true) by lia. rewrite E. f_equal. f_equal. lia.
Qed.

Lemma sgr1_fg_bright n a : 8 <= n <= 15 -> sgr1 (n - 8 + 90) a = set_fg a (CBasic n).
Proof.
  intros H. unfold sgr1.
  repeat match goal with |- context [?x =? ?y] => destruct (x =? y) eqn:?; try lia end.
  assert (E : (30 <=? n - 8 + 90) && (n - 8 + 90 <=? 37) = false) by lia. rewrite E.
  assert (E' : (90 <=? n - 8 + 90) && (n - 8 + 90 <=? 97) = true) by lia. rewrite E'. f_equal. f_equal. lia.
Qed.

Lemma sgr1_bg_low n a : 0 <= n <= 7 -> sgr1 (n + 40) a = set_bg a (CBasic n).
Proof.
  intros H. unfold sgr1.
  repeat match goal with |- context [?x =? ?y] => destruct (x =? y) eqn:?; try lia end.
  assert (E : (30 <=? n + 40) && (n + 40 <=? 37) = false) by lia. rewrite E.
  assert (E1 : (90 <=? n + 40) && (n + 40 <=? 97) = false) by lia. rewrite E1.
  assert (E2 : (40 <=? n + 40) && (n + 40 <=? 47) = true) by lia. rewrite E2. f_equal. f_equal. lia.
Qed.

Lemma sgr1_bg_bright n a : 8 <= n <= 15 -> sgr1 (n - 8 + 100) a = set_bg a (CBasic n).
Proof.
  intros H. unfold sgr1.
  repeat match goal with |- context [?x =? ?y] => destruct (x =? y) eqn:?; try lia end.
  assert (E : (30 <=? n - 8 + 100) && (n - 8 + 100 <=? 37) = false) by lia. rewrite E.
  assert (E1 : (90 <=? n - 8 + 100) && (n - 8 + 100 <=? 97) = false) by lia. rewrite E1.
  assert (E2 : (40 <=? n - 8 + 100) && (n - 8 + 100 <=? 47) = false) by lia. rewrite E2.
  assert (E3 : (100 <=? n - 8 + 100) && (n - 8 + 100 <=? 107) = true) by lia. rewrite E3. f_equal. f_equal. lia.
Qed.

Definition fg_part (bib : bool) (a : aspec) : list Z :=
  if s_fgk a =? 3 then [38; 2; s_fr a; s_fg a; s_fb a]
  else if s_fgk a =? 2 then [38; 5; s_fgn a]
  else if s_fgk a =? 1 then
    (if 7 <? s_fgn a then (if bib then [1; s_fgn a - 8 + 30] else [s_fgn a - 8 + 90]) else [s_fgn a + 30])
  else [39].
Definition st_part (a : aspec) : list Z :=
  (if s_bold a then [1] else []) ++ (if s_ital a then [3] else []) ++ (if s_under a then [4] else [])
  ++ (if s_blink a then [5] else []) ++ (if s_stand a then [7] else []) ++ (if s_strike a then [9] else []).
Definition bg_part (bbb : bool) (a : aspec) : list Z :=
  if s_bgk a =? 3 then [48; 2; s_br a; s_bg a; s_bb a]
  else if s_bgk a =? 2 then [48; 5; s_bgn a]
  else if s_bgk a =? 1 then
    (if 7 <? s_bgn a then (if bbb then [5; s_bgn a - 8 + 40] else [s_bgn a - 8 + 100]) else [s_bgn a + 40])
  else [49].

Lemma spec_to_sgr_parts bib bbb a : spec_to_sgr bib bbb a = 0 :: fg_part bib a ++ st_part a ++ bg_part bbb a.
Proof. reflexivity. Qed.

Lemma fg_part_ok bib s rest v : (s_fgk s = 1 -> 0 <= s_fgn s <= 15) ->
  apply_sgr (fg_part bib s ++ rest) v =
  apply_sgr rest
    (let fgb := (s_fgk s =? 1) && (7 <? s_fgn s) && bib in
     mkAttr (if fgb then CBasic (s_fgn s - 8) else color_of (s_fgk s) (s_fgn s) (s_fr s) (s_fg s) (s_fb s))
            (a_bg v) (a_bold v || fgb) (a_ital v) (a_under v) (a_blink v) (a_stand v) (a_strike v)).
Proof.
  intros Hr. unfold fg_part, color_of.
  destruct (s_fgk s =? 3) eqn:K3.
  { assert (K1 : s_fgk s =? 1 = false) by lia. rewrite K1. cbn [andb app]. rewrite orb_false_r. destruct v; reflexivity. }
  destruct (s_fgk s =? 2) eqn:K2.
  { assert (K1 : s_fgk s =? 1 = false) by lia. rewrite K1. cbn [andb app]. rewrite orb_false_r. destruct v; reflexivity. }
  destruct (s_fgk s =? 1) eqn:K1.
  2:{ cbn [andb app]. rewrite orb_false_r. destruct v; reflexivity. }
  assert (Hn : 0 <= s_fgn s <= 15) by (apply Hr; lia).
  destruct (7 <? s_fgn s) eqn:B; cbn [andb].
  - destruct bib; cbn [app].
    + rewrite apply_sgr_plain by lia.
      rewrite apply_sgr_plain by lia.
      replace (s_fgn s - 8 + 30) with ((s_fgn s - 8) + 30) by lia.
      rewrite sgr1_fg_low by lia. rewrite orb_true_r. destruct v; reflexivity.
    + rewrite apply_sgr_plain by lia. rewrite sgr1_fg_bright by lia. rewrite orb_false_r. destruct v; reflexivity.
  - cbn [app]. rewrite apply_sgr_plain by lia. rewrite sgr1_fg_low by lia. rewrite orb_false_r. destruct v; reflexivity.
Qed.

Lemma st_part_ok s rest v :
  apply_sgr (st_part s ++ rest) v =
  apply_sgr rest (mkAttr (a_fg v) (a_bg v) (a_bold v || s_bold s) (a_ital v || s_ital s) (a_under v || s_under s)
                         (a_blink v || s_blink s) (a_stand v || s_stand s) (a_strike v || s_strike s)).
Proof.
  unfold st_part. destruct v as [f b b1 b2 b3 b4 b5 b6]. cbn [a_fg a_bg a_bold a_ital a_under a_blink a_stand a_strike].
  destruct (s_bold s), (s_ital s), (s_under s), (s_blink s), (s_stand s), (s_strike s);
    cbn [app]; rewrite ?orb_true_r, ?orb_false_r; reflexivity.
Qed.

Lemma bg_part_ok bbb s v : (s_bgk s = 1 -> 0 <= s_bgn s <= 15) ->
  apply_sgr (bg_part bbb s) v =
    (let bgb := (s_bgk s =? 1) && (7 <? s_bgn s) && bbb in
     mkAttr (a_fg v)
            (if bgb then CBasic (s_bgn s - 8) else color_of (s_bgk s) (s_bgn s) (s_br s) (s_bg s) (s_bb s))
            (a_bold v) (a_ital v) (a_under v) (a_blink v || bgb) (a_stand v) (a_strike v)).
Proof.
  intros Hr. unfold bg_part, color_of.
  destruct (s_bgk s =? 3) eqn:K3.
  { assert (K1 : s_bgk s =? 1 = false) by lia. rewrite K1. cbn [andb]. rewrite orb_false_r. destruct v; reflexivity. }
  destruct (s_bgk s =? 2) eqn:K2.
  { assert (K1 : s_bgk s =? 1 = false) by lia. rewrite K1. cbn [andb]. rewrite orb_false_r. destruct v; reflexivity. }
  destruct (s_bgk s =? 1) eqn:K1.
  2:{ cbn [andb]. rewrite orb_false_r. destruct v; reflexivity. }
  assert (Hn : 0 <= s_bgn s <= 15) by (apply Hr; lia).
  destruct (7 <? s_bgn s) eqn:B; cbn [andb].
  - destruct bbb.
    + rewrite apply_sgr_plain by lia.
      rewrite apply_sgr_plain by lia.
      replace (s_bgn s - 8 + 40) with ((s_bgn s - 8) + 40) by lia.
      rewrite sgr1_bg_low by lia. rewrite orb_true_r. destruct v; reflexivity.
    + rewrite apply_sgr_plain by lia. rewrite sgr1_bg_bright by lia. rewrite orb_false_r. destruct v; reflexivity.
  - rewrite apply_sgr_plain by lia. rewrite sgr1_bg_low by lia. rewrite orb_false_r. destruct v; reflexivity.
Qed.

(* whatever the terminal's attribute was, after the SGR of an AttrSpec it is its visual attribute *)
Lemma sgr_roundtrip bib bbb s v : spec_ok s -> apply_sgr (spec_to_sgr bib bbb s) v = visual bib bbb s.
Proof.
  intros [Hf Hb]. rewrite spec_to_sgr_parts. rewrite apply_sgr_plain by lia.
  replace (sgr1 0 v) with def_attr by reflexivity.
  rewrite fg_part_ok by assumption. rewrite st_part_ok. rewrite bg_part_ok by assumption.
  unfold visual. cbn. f_equal.
  - destruct ((s_fgk s =? 1) && (7 <? s_fgn s) && bib), (s_bold s); reflexivity.
Qed.

(* ================= 2. attribute switches ================= *)
Lemma default_spec_ok : spec_ok default_spec.
Proof. split; cbn; lia. Qed.

Lemma lookup_spec_ok c a : cfg_ok c -> spec_ok (snd (lookup_attr c a)).
Proof.
  intros H. unfold lookup_attr. destruct (nthz (g_atab c) a) as [e|] eqn:E.
  - unfold cfg_ok in H. rewrite Forall_forall in H. apply H.
    unfold nthz in E. destruct (a <? 0); [discriminate|]. eapply nth_error_In; eauto.
  - apply default_spec_ok.
Qed.

Lemma attr_escape_run c a t : cfg_ok c -> run t (attr_to_escape c a) = set_attr t (attr_vis c a).
Proof.
  intros H. pose proof (lookup_spec_ok c a H) as Hs.
  unfold attr_to_escape, attr_vis. destruct (lookup_attr c a) as [k sp]. cbn [snd] in Hs.
  destruct (k =? 2); cbn [run fold_left step]; rewrite spec_to_sgr_parts; cbn [app];
    rewrite <- spec_to_sgr_parts; rewrite sgr_roundtrip; auto using default_spec_ok.
Qed.

(* ================= 3. printing a text ================= *)
Definition text_cells (cs : Z) (v : vattr) (text : list chr) : list cell :=
  flat_map (fun ch : chr => char_cells (fst ch) (snd ch) cs v) text.

Lemma text_cells_app cs v a b : text_cells cs v (a ++ b) = text_cells cs v a ++ text_cells cs v b.
Proof. unfold text_cells. apply flat_map_app. Qed.

Definition w12 (ch : chr) : Prop := snd ch = 1 \/ snd ch = 2.

Lemma calc_width_nonneg text : Forall w12 text -> 0 <= calc_width text.
Proof. induction 1 as [|ch l H _ IH]; cbn [calc_width]; [lia|]. destruct H; lia. Qed.

Lemma calc_width_app a b : calc_width (a ++ b) = calc_width a + calc_width b.
Proof. induction a; cbn [calc_width app]; lia. Qed.

Lemma zlen_text_cells cs v text : Forall w12 text -> zlen (text_cells cs v text) = calc_width text.
Proof.
  induction 1 as [|ch l H _ IH]; [reflexivity|].
  cbn [text_cells flat_map calc_width]. rewrite zlen_app. fold (text_cells cs v l). rewrite IH.
  rewrite zlen_char_cells by (destruct H; lia). reflexivity.
Qed.

Lemma WFc_text_cells cs v text : Forall w12 text -> WFc (text_cells cs v text).
Proof.
  induction 1 as [|ch l H _ IH]; [constructor|].
  cbn [text_cells flat_map]. apply WFc_app; [|exact IH]. apply WFc_char_cells. destruct H; lia.
Qed.

Lemma SameFrame_g1 t0 t t' y : SameFrame t0 t y -> SameFrame t0 t' y -> t_g1 t' = t_g1 t.
Proof. unfold SameFrame. intuition congruence. Qed.

Lemma SameFrame_len t0 t y : SameFrame t0 t y -> zlen (t_grid t) = zlen (t_grid t0).
Proof. unfold SameFrame. intuition. Qed.

Lemma print_ok text : forall t0 t y P R,
  RowSt t y P R -> SameFrame t0 t y -> 0 <= y < zlen (t_grid t0) -> t_irm t = false ->
  Forall w12 text -> zlen P + calc_width text <= t_cols t ->
  exists R', RowSt (run t (map ch_tok text)) y (P ++ text_cells (cur_cs t) (t_attr t) text) R'
          /\ SameFrame t0 (run t (map ch_tok text)) y /\ SameModes t (run t (map ch_tok text)).
Proof.
  induction text as [|ch text IH]; intros t0 t y P R HR HF Hy Hirm Hw Hfit.
  - exists R. cbn [map run fold_left text_cells flat_map]. rewrite app_nil_r. auto using SameModes_refl.
  - inversion Hw as [|? ? Hch Hw']; subst. cbn [calc_width] in Hfit.
    pose proof (calc_width_nonneg text Hw') as Hnn.
    cbn [map]. rewrite run_cons. unfold ch_tok at 1. cbn [step].
    destruct (put_ok t0 t y P R (fst ch) (snd ch) HR HF) as (HR1 & HF1 & HM1); auto.
    { rewrite (SameFrame_len _ _ _ HF). exact Hy. }
    { lia. }
    set (t1 := put t (fst ch) (snd ch)) in *.
    assert (Hirm1 : t_irm t1 = false) by (destruct HM1 as (_ & -> & _); exact Hirm).
    assert (Hcols : t_cols t1 = t_cols t).
    { destruct HF as (-> & _). destruct HF1 as (-> & _). reflexivity. }
    destruct (IH t0 t1 y _ _ HR1 HF1 Hy Hirm1 Hw') as (R' & HR2 & HF2 & HM2).
    { rewrite zlen_app, zlen_char_cells by (destruct Hch; lia). lia. }
    exists R'. split; [|split].
    + cbn [text_cells flat_map]. rewrite app_assoc.
      assert (Ecs : cur_cs t1 = cur_cs t) by (apply cur_cs_modes; [exact HM1|eapply SameFrame_g1; eauto]).
      assert (Eat : t_attr t1 = t_attr t) by (destruct HM1 as (-> & _); reflexivity).
      rewrite Ecs, Eat in HR2. exact HR2.
    + exact HF2.
    + eapply SameModes_trans; eauto.
Qed.

(* ================= 4. the runs of a row ================= *)
Ltac splits := repeat match goal with |- _ /\ _ => split end.
Definition run_ok' (c : cfg) (r : crun) : Prop :=
  let '(a, cs, text) := r in
  Forall (chr_ok (g_utf8 c)) text /\ (if g_utf8 c then cs = 0 else cs = 0 \/ cs = 1).

(* terminal modes agree with the bookkeeping of the run loop *)
Definition Inv (c : cfg) (rs : rstate) (t : term) : Prop :=
  t_attr t = attr_vis c (r_last rs) /\ t_ibm t = false /\ t_irm t = false /\
  (if g_utf8 c then t_so t = false
   else t_g1 t = true /\ (r_lcs rs = 0 \/ r_lcs rs = 1) /\ (r_first rs = false -> t_so t = (r_lcs rs =? 1))).

Lemma chr_ok_w12 u ch : chr_ok u ch -> w12 ch.
Proof. unfold chr_ok, w12. intuition. Qed.

Lemma Forall_chr_ok_w12 u text : Forall (chr_ok u) text -> Forall w12 text.
Proof. intros H. eapply Forall_impl; [|exact H]. intros; eapply chr_ok_w12; eauto. Qed.

Lemma trans_id u text : Forall (chr_ok u) text -> map trans_chr text = text.
Proof.
  induction 1 as [|ch l H _ IH]; [reflexivity|]. cbn [map]. rewrite IH. f_equal.
  unfold trans_chr. destruct H as [H _]. destruct (fst ch <? 32) eqn:E; [lia|reflexivity].
Qed.

Lemma RowSt_set_attr t y P R v : RowSt t y P R -> RowSt (set_attr t v) y P R.
Proof. unfold RowSt. cbn. auto. Qed.
Lemma RowSt_set_so t y P R v : RowSt t y P R -> RowSt (set_so t v) y P R.
Proof. unfold RowSt. cbn. auto. Qed.
Lemma RowSt_set_irm t y P R v : RowSt t y P R -> RowSt (set_irm t v) y P R.
Proof. unfold RowSt. cbn. auto. Qed.
Lemma SameFrame_set_attr t0 t y v : SameFrame t0 t y -> SameFrame t0 (set_attr t v) y.
Proof. unfold SameFrame. cbn. auto. Qed.
Lemma SameFrame_set_so t0 t y v : SameFrame t0 t y -> SameFrame t0 (set_so t v) y.
Proof. unfold SameFrame. cbn. auto. Qed.
Lemma SameFrame_set_irm t0 t y v : SameFrame t0 t y -> SameFrame t0 (set_irm t v) y.
Proof. unfold SameFrame. cbn. auto. Qed.

Lemma SameFrame_cols t0 t y : SameFrame t0 t y -> t_cols t = t_cols t0.
Proof. unfold SameFrame. intuition. Qed.

Lemma Inv_mk_narrow c a cs t' :
  g_utf8 c = false -> t_attr t' = attr_vis c a -> t_ibm t' = false -> t_irm t' = false -> t_g1 t' = true ->
  cs = 0 \/ cs = 1 -> t_so t' = (cs =? 1) -> Inv c (mkRs a false cs) t'.
Proof. intros U H1 H2 H3 H4 H5 H6. unfold Inv. cbn [r_last r_first r_lcs]. rewrite U. splits; auto. Qed.

Lemma emit_run_ok c rs r t0 t y P R :
  cfg_ok c -> run_ok' c r -> Inv c rs t -> RowSt t y P R -> SameFrame t0 t y -> 0 <= y < zlen (t_grid t0) ->
  zlen P + calc_width (snd r) <= t_cols t ->
  exists R', RowSt (run t (fst (emit_run c rs r))) y (P ++ run_cells c r) R'
          /\ SameFrame t0 (run t (fst (emit_run c rs r))) y
          /\ Inv c (snd (emit_run c rs r)) (run t (fst (emit_run c rs r)))
          /\ r_first (snd (emit_run c rs r)) = false.
Proof.
  intros Hc Hok HI HR HF Hy Hfit. destruct r as [[a cs] text]. cbn [snd] in Hfit.
  destruct Hok as [Htext Hcs]. destruct HI as (Iattr & Iibm & Iirm & Ics).
  assert (Hcs2 : cs =? 2 = false) by (destruct (g_utf8 c); lia).
  unfold emit_run. rewrite Hcs2. rewrite (trans_id _ _ Htext). cbn [fst snd].
  rewrite !run_app.
  (* attribute *)
  set (ta := if r_last rs =? a then [] else attr_to_escape c a).
  assert (H1 : exists t1, run t ta = t1 /\ RowSt t1 y P R /\ SameFrame t0 t1 y /\ t_attr t1 = attr_vis c a
                          /\ t_ibm t1 = t_ibm t /\ t_irm t1 = t_irm t /\ t_so t1 = t_so t /\ t_g1 t1 = t_g1 t).
  { unfold ta. destruct (r_last rs =? a) eqn:E.
    - exists t. assert (r_last rs = a) by lia. subst a. splits; auto.
    - exists (set_attr t (attr_vis c a)). rewrite attr_escape_run by assumption.
      splits; auto using RowSt_set_attr, SameFrame_set_attr. }
  destruct H1 as (t1 & -> & HR1 & HF1 & Hat1 & Hib1 & Hir1 & Hso1 & Hg11).
  (* charset *)
  set (switch := negb (g_utf8 c) && (r_first rs || negb (r_lcs rs =? cs))).
  set (tc := if switch then (if r_lcs rs =? 2 then [TIbmOff] else []) ++ [cs_tok cs] else []).
  assert (H2 : exists t2, run t1 tc = t2 /\ RowSt t2 y P R /\ SameFrame t0 t2 y /\ t_attr t2 = attr_vis c a
                          /\ t_irm t2 = false /\ cur_cs t2 = cs
                          /\ Inv c (mkRs a false (if switch then cs else r_lcs rs)) t2).
  { unfold tc, switch. destruct (g_utf8 c) eqn:U.
    - cbn [negb andb]. exists t1. subst cs. splits; auto; try congruence.
      + unfold cur_cs. rewrite Hib1, Iibm, Hso1, Ics. reflexivity.
      + unfold Inv. cbn [r_last r_first r_lcs]. rewrite U. splits; congruence.
    - cbn [negb andb]. destruct Ics as (Ig1 & Hl & Hfirst).
      destruct (r_first rs || negb (r_lcs rs =? cs)) eqn:S.
      + assert (L2 : r_lcs rs =? 2 = false) by lia. rewrite L2. cbn [app].
        destruct Hcs as [-> | ->].
        * exists (set_so t1 false). cbn [cs_tok run fold_left step].
          assert (E0 : (0 =? 0) = true) by reflexivity. unfold cs_tok. rewrite E0. cbn [step].
          splits; auto using RowSt_set_so, SameFrame_set_so; cbn; try congruence.
          -- unfold cur_cs. cbn. rewrite Hib1, Iibm. reflexivity.
          -- apply Inv_mk_narrow; cbn; auto; congruence.
        * exists (set_so t1 true). unfold cs_tok.
          assert (E0 : (1 =? 0) = false) by reflexivity. assert (E2 : (1 =? 2) = false) by reflexivity.
          rewrite E0, E2. cbn [run fold_left step].
          splits; auto using RowSt_set_so, SameFrame_set_so; cbn; try congruence.
          -- unfold cur_cs. cbn. rewrite Hib1, Iibm, Hg11, Ig1. reflexivity.
          -- apply Inv_mk_narrow; cbn; auto; congruence.
      + exists t1. assert (Hf : r_first rs = false) by (destruct (r_first rs); [discriminate|reflexivity]).
        assert (Hlcs : r_lcs rs = cs) by lia.
        splits; auto; try congruence.
        * unfold cur_cs. rewrite Hib1, Iibm, Hso1, (Hfirst Hf), Hg11, Ig1. rewrite Hlcs.
          destruct Hcs as [-> | ->]; reflexivity.
        * rewrite Hlcs. apply Inv_mk_narrow; auto; try congruence.
          rewrite Hso1, (Hfirst Hf), Hlcs. reflexivity. }
  destruct H2 as (t2 & -> & HR2 & HF2 & Hat2 & Hir2 & Hcs2' & HI2).
  (* text *)
  assert (Hcols2 : t_cols t2 = t_cols t) by (rewrite (SameFrame_cols _ _ _ HF2), (SameFrame_cols _ _ _ HF); reflexivity).
  destruct (print_ok text t0 t2 y P R HR2 HF2 Hy Hir2) as (R' & HR3 & HF3 & HM3).
  { eapply Forall_chr_ok_w12; eauto. }
  { lia. }
  exists R'. rewrite Hcs2', Hat2 in HR3. split; [exact HR3|]. split; [exact HF3|]. split; [|reflexivity].
  destruct HM3 as (M1 & M2 & M3 & M4). destruct HI2 as (J1 & J2 & J3 & J4).
  unfold Inv. cbn [r_last r_first r_lcs] in *. rewrite M1, M2, M3, M4.
  splits; auto.
  destruct (g_utf8 c); auto.
  destruct J4 as (K1 & K2 & K3). rewrite (SameFrame_g1 t0 t2 _ y HF2 HF3). auto.
Qed.

Lemma row_width_cons r row : row_width (r :: row) = calc_width (snd r) + row_width row.
Proof. reflexivity. Qed.

Lemma row_width_app a b : row_width (a ++ b) = row_width a + row_width b.
Proof. induction a as [|r a IH]; [change (row_width []) with 0; cbn [app]; lia|]. cbn [app]. rewrite !row_width_cons, IH. lia. Qed.

Lemma row_cells_app c a b : row_cells c (a ++ b) = row_cells c a ++ row_cells c b.
Proof. unfold row_cells. apply flat_map_app. Qed.

Lemma run_ok'_width c r : run_ok' c r -> 0 <= calc_width (snd r).
Proof.
  destruct r as [[a cs] text]. intros [H _]. cbn [snd]. apply calc_width_nonneg. eapply Forall_chr_ok_w12; eauto.
Qed.

Lemma row_width_nonneg c row : Forall (run_ok' c) row -> 0 <= row_width row.
Proof.
  induction 1 as [|r row H _ IH]; [change (row_width []) with 0; lia|]. rewrite row_width_cons. pose proof (run_ok'_width c r H). lia.
Qed.

Lemma emit_runs_ok c row : forall rs t0 t y P R,
  cfg_ok c -> Forall (run_ok' c) row -> Inv c rs t -> RowSt t y P R -> SameFrame t0 t y -> 0 <= y < zlen (t_grid t0) ->
  zlen P + row_width row <= t_cols t ->
  exists R', RowSt (run t (fst (emit_runs c rs row))) y (P ++ row_cells c row) R'
          /\ SameFrame t0 (run t (fst (emit_runs c rs row))) y
          /\ Inv c (snd (emit_runs c rs row)) (run t (fst (emit_runs c rs row)))
          /\ (row <> [] -> r_first (snd (emit_runs c rs row)) = false).
Proof.
  induction row as [|r row IH]; intros rs t0 t y P R Hc Hok HI HR HF Hy Hfit.
  - exists R. cbn [emit_runs fst snd run fold_left row_cells flat_map]. rewrite app_nil_r. splits; auto. congruence.
  - inversion Hok as [|? ? Hr Hrow]; subst. rewrite row_width_cons in Hfit.
    pose proof (row_width_nonneg c row Hrow) as Hnn. pose proof (run_ok'_width c r Hr) as Hnr.
    destruct (emit_run_ok c rs r t0 t y P R Hc Hr HI HR HF Hy) as (R1 & HR1 & HF1 & HI1 & Hf1); [lia|].
    cbn [emit_runs]. destruct (emit_run c rs r) as [t1 st1] eqn:E1. cbn [fst snd] in *.
    assert (Hcols : t_cols (run t t1) = t_cols t)
      by (rewrite (SameFrame_cols _ _ _ HF1), (SameFrame_cols _ _ _ HF); reflexivity).
    assert (Hz : zlen (run_cells c r) = calc_width (snd r)).
    { destruct r as [[a cs] text]. destruct Hr as [Ht _]. cbn [snd run_cells].
      apply (zlen_text_cells cs (attr_vis c a) text). eapply Forall_chr_ok_w12; eauto. }
    destruct (IH st1 t0 (run t t1) y _ _ Hc Hrow HI1 HR1 HF1 Hy) as (R2 & HR2 & HF2 & HI2 & Hf2).
    { rewrite zlen_app, Hz. lia. }
    destruct (emit_runs c st1 row) as [t2 st2] eqn:E2. cbn [fst snd] in *.
    exists R2. rewrite run_app. cbn [row_cells flat_map]. fold (row_cells c row). rewrite app_assoc.
    splits; auto. intros _. destruct row as [|r' row'].
    + cbn [emit_runs] in E2. inversion E2; subst. exact Hf1.
    + apply Hf2. discriminate.
Qed.
