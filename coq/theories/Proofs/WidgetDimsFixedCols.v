(* C01 - FIXED sizing of Columns: render(()) has the size pack(()) reports. *)
From Coq Require Import ZArith List Bool Lia ZifyBool.
Import ListNotations.
From Urwid Require Import WidgetDims WidgetDimsProofs WidgetDimsColsArith WidgetDimsCols WidgetDimsFixed.
Open Scope Z_scope.

Arguments Z.add : simpl never.
Arguments Z.sub : simpl never.
Arguments Z.mul : simpl never.
Arguments Z.quot : simpl never.
Arguments Z.ltb : simpl never.
Arguments Z.leb : simpl never.
Arguments Z.eqb : simpl never.
Arguments Z.max : simpl never.
Arguments Z.min : simpl never.
Arguments Z.of_nat : simpl never.

Definition cfx_ok (it : citem) : Prop :=
  Good (ci_sem it) /\ GoodFx (ci_sem it)
  /\ match ci_kind it with
     | KPack => s_fixed (m_sizing (ci_sem it)) = true /\ ci_box it = false
     | _ => 1 <= ci_amount it
            /\ (if ci_box it then s_box (m_sizing (ci_sem it)) = true else s_flow (m_sizing (ci_sem it)) = true)
     end.

(* first loop of _get_fixed_column_sizes *)
Fixpoint cplanrel (f : bool) (fp : Z) (l : list citem) (ps : list cfplan) (i : Z) : Prop :=
  match l, ps with
  | [], [] => True
  | it :: r, p :: pr =>
      (match p with
       | CFDone w h s =>
           ci_box it = false /\ 1 <= w /\ 1 <= h
           /\ ((s = SFlow w /\ s_flow (m_sizing (ci_sem it)) = true /\ m_rows (ci_sem it) w (item_focus f fp i) = Ok h)
               \/ (s = SFixed /\ s_fixed (m_sizing (ci_sem it)) = true /\ m_pack (ci_sem it) SFixed (item_focus f fp i) = Ok (w, h)))
       | CFGivenBox w => 1 <= w /\ ci_box it = true /\ s_box (m_sizing (ci_sem it)) = true
       | CFWeight _ weight isbox =>
           isbox = ci_box it
           /\ (if isbox then s_box (m_sizing (ci_sem it)) = true else s_flow (m_sizing (ci_sem it)) = true)
       | CFZero _ => False
       end)
      /\ cplanrel f fp r pr (i + 1)
  | _, _ => False
  end.

Lemma cfixed_plan_ok mw f fp : forall l i, Forall cfx_ok l ->
  match cols_fixed_plan l mw f fp i with
  | Ok ps => cplanrel f fp l ps i
  | Err e => soft e
  end.
Proof.
  induction l as [|it l IH]; intros i H; cbn [cols_fixed_plan]; [exact I|].
  inversion H as [|? ? [G [GX K]] H']; subst. specialize (IH (i + 1) H').
  destruct (ci_kind it) eqn:EK.
  - (* given *)
    destruct K as [K1 K2]. destruct (ci_box it) eqn:EB.
    + cbn [bind]. destruct (cols_fixed_plan l mw f fp (i + 1)) as [ps|e]; cbn [bind]; [|exact IH].
      cbn [cplanrel]. split; auto.
    + rewrite K2.
      pose proof (g_rows _ G (ci_amount it) (item_focus f fp i) K2 K1) as R.
      destruct (m_rows (ci_sem it) (ci_amount it) (item_focus f fp i)) as [h|e] eqn:ER; cbn [bind]; [|exact R].
      destruct (cols_fixed_plan l mw f fp (i + 1)) as [ps|e]; cbn [bind]; [|exact IH].
      cbn [cplanrel]. split; auto. repeat split; auto.
  - (* pack *)
    destruct K as [K1 K2]. rewrite K1, K2. cbn [andb negb].
    pose proof (gx_pack _ GX K1 (item_focus f fp i)) as P.
    destruct (m_pack (ci_sem it) SFixed (item_focus f fp i)) as [[w h]|e] eqn:EP; cbn [bind fst snd]; [|exact P].
    destruct (cols_fixed_plan l mw f fp (i + 1)) as [ps|e]; cbn [bind]; [|exact IH].
    cbn [cplanrel]. split; auto. split; auto. split; [lia|]. split; [lia|]. right. auto.
  - (* weight *)
    destruct K as [K1 K2]. cbn [andb].
    replace (ci_amount it <=? 0) with false by lia.
    assert (EO : s_flow (m_sizing (ci_sem it)) || ci_box it = true).
    { destruct (ci_box it); [apply orb_true_r|]. rewrite K2. reflexivity. }
    rewrite EO.
    assert (W : match (if s_fixed (m_sizing (ci_sem it))
                       then (let* wh := m_pack (ci_sem it) SFixed (item_focus f fp i) in Ok (fst wh)) else Ok mw) with
                | Ok _ => True | Err e => soft e end).
    { destruct (s_fixed (m_sizing (ci_sem it))) eqn:EF; [|exact I].
      pose proof (gx_pack _ GX EF (item_focus f fp i)) as P.
      destruct (m_pack (ci_sem it) SFixed (item_focus f fp i)) as [[w h]|e]; cbn; auto. }
    destruct (if s_fixed (m_sizing (ci_sem it))
              then (let* wh := m_pack (ci_sem it) SFixed (item_focus f fp i) in Ok (fst wh)) else Ok mw) as [w0|e];
      cbn [bind]; [|exact W].
    destruct (cols_fixed_plan l mw f fp (i + 1)) as [ps|e]; cbn [bind]; [|exact IH].
    cbn [cplanrel]. split; auto.
Qed.

Definition is_cw (p : cfplan) : Prop := match p with CFWeight _ _ _ => True | _ => False end.

Lemma best_wcoef_some : forall ps b, (b <> None \/ Exists is_cw ps) -> best_wcoef ps b <> None.
Proof.
  induction ps as [|p ps IH]; intros b H; cbn [best_wcoef].
  - destruct H as [H|H]; [exact H|inversion H].
  - destruct p; try (apply IH; destruct H as [H|H]; [left; exact H|inversion H; subst; [contradiction|right; assumption]]).
    apply IH. left. destruct b as [[bw bwt]|]; [destruct (bw * weight <? w * bwt)|]; discriminate.
Qed.

(* second phase *)
Fixpoint midrel (f : bool) (fp : Z) (l : list citem) (mid : list (Z * option Z * option size)) (i : Z) : Prop :=
  match l, mid with
  | [], [] => True
  | it :: r, (w, oh, os) :: mr =>
      (1 <= w
       /\ ((oh = None /\ os = None /\ s_box (m_sizing (ci_sem it)) = true /\ ci_box it = true)
           \/ exists h, oh = Some h /\ 1 <= h
                        /\ ((os = Some (SFlow w) /\ s_flow (m_sizing (ci_sem it)) = true
                             /\ m_rows (ci_sem it) w (item_focus f fp i) = Ok h)
                            \/ (os = Some SFixed /\ s_fixed (m_sizing (ci_sem it)) = true
                                /\ m_pack (ci_sem it) SFixed (item_focus f fp i) = Ok (w, h)))))
      /\ midrel f fp r mr (i + 1)
  | _, _ => False
  end.

Lemma cfixed_mid_ok mw coef f fp : 1 <= mw -> forall l ps i,
  Forall cfx_ok l -> cplanrel f fp l ps i -> (Exists is_cw ps -> coef <> None) ->
  match cols_fixed_mid l ps mw coef f fp i with
  | Ok mid => midrel f fp l mid i
  | Err e => soft e
  end.
Proof.
  intros Hm. induction l as [|it l IH]; intros ps i H HP HC.
  - destruct ps; [|contradiction]. cbn. exact I.
  - destruct ps as [|p ps]; [contradiction|]. cbn [cplanrel] in HP. destruct HP as [R HP'].
    inversion H as [|? ? [G [GX K]] H']; subst.
    specialize (IH ps (i + 1) H' HP' ltac:(intros X; apply HC; right; exact X)).
    cbn [cols_fixed_mid].
    destruct p as [w h s|w|b|w0 weight isbox]; try contradiction.
    + destruct R as [R0 [R1 [R2 R3]]]. cbn [bind].
      destruct (cols_fixed_mid l ps mw coef f fp (i + 1)) as [mid|e]; cbn [bind]; [|exact IH].
      cbn [midrel]. split; [|exact IH]. split; [exact R1|]. right. exists h. split; [reflexivity|]. split; [exact R2|].
      destruct R3 as [[-> [A B]]|[-> [A B]]]; [left|right]; auto.
    + destruct R as [R1 [R2 R3]]. cbn [bind].
      destruct (cols_fixed_mid l ps mw coef f fp (i + 1)) as [mid|e]; cbn [bind]; [|exact IH].
      cbn [midrel]. split; [|exact IH]. split; [exact R1|]. left. auto.
    + destruct R as [R1 R2]. subst isbox.
      assert (HCo : coef <> None) by (apply HC; left; exact I).
      destruct coef as [[bw bwt]|]; [|congruence].
      set (w := Z.max (round_half (bw * weight) bwt) mw). assert (Hw : 1 <= w) by (subst w; lia).
      destruct (ci_box it) eqn:EBX.
      * cbn [bind]. destruct (cols_fixed_mid l ps mw (Some (bw, bwt)) f fp (i + 1)) as [mid|e]; cbn [bind]; [|exact IH].
        cbn [midrel]. split; [|exact IH]. split; [exact Hw|]. left. auto.
      * pose proof (g_rows _ G w (item_focus f fp i) R2 Hw) as RR.
        destruct (m_rows (ci_sem it) w (item_focus f fp i)) as [h|e] eqn:ER; cbn [bind]; [|exact RR].
        destruct (cols_fixed_mid l ps mw (Some (bw, bwt)) f fp (i + 1)) as [mid|e]; cbn [bind]; [|exact IH].
        cbn [midrel]. split; [|exact IH]. split; [exact Hw|]. right. exists h. split; [reflexivity|]. split; [exact RR|].
        left. auto.
Qed.

(* third phase: box columns get the tallest known height *)
Definition known_heights (mid : list (Z * option Z * option size)) : list Z :=
  flat_map (fun x => match snd (fst x) with Some h => [h] | None => [] end) mid.
Definition finalize (mid : list (Z * option Z * option size)) (maxh : Z) : list (Z * Z * size) :=
  map (fun x => match x with
                | (w, Some h, Some s) => (w, h, s)
                | (w, _, _) => (w, maxh, SBox w maxh)
                end) mid.

Fixpoint centries (f : bool) (fp : Z) (l : list citem) (t : list (Z * Z * size)) (i : Z) : Prop :=
  match l, t with
  | [], [] => True
  | it :: r, (w, h, s) :: tr =>
      (1 <= w /\ 1 <= h
       /\ ((s = SFlow w /\ s_flow (m_sizing (ci_sem it)) = true /\ m_rows (ci_sem it) w (item_focus f fp i) = Ok h)
           \/ (s = SFixed /\ s_fixed (m_sizing (ci_sem it)) = true /\ m_pack (ci_sem it) SFixed (item_focus f fp i) = Ok (w, h))
           \/ (s = SBox w h /\ s_box (m_sizing (ci_sem it)) = true)))
      /\ centries f fp r tr (i + 1)
  | _, _ => False
  end.

Lemma finalize_ok f fp maxh : 1 <= maxh -> forall l mid i, midrel f fp l mid i -> centries f fp l (finalize mid maxh) i.
Proof.
  intros Hm. induction l as [|it l IH]; intros mid i H.
  - destruct mid; [exact I|contradiction].
  - destruct mid as [|[[w oh] os] mid]; [contradiction|]. cbn [midrel] in H. destruct H as [[H1 H2] H'].
    specialize (IH mid (i + 1) H').
    destruct H2 as [[-> [-> [Hb _]]]|[h [-> [Hh Hs]]]].
    + unfold finalize in *. cbn [map centries]. split; [|exact IH]. repeat split; auto.
    + destruct Hs as [[-> [A B]]|[-> [A B]]]; unfold finalize in *; cbn [map centries]; (split; [|exact IH]);
        repeat split; auto.
Qed.

Lemma known_heights_ok f fp : forall l mid i, midrel f fp l mid i ->
  Forall (fun h => 1 <= h) (known_heights mid)
  /\ (Exists (fun it => ci_box it = false) l -> known_heights mid <> [])
  /\ length mid = length l.
Proof.
  induction l as [|it l IH]; intros mid i H.
  - destruct mid; [|contradiction]. cbn. repeat split; [constructor|intros X; inversion X].
  - destruct mid as [|[[w oh] os] mid]; [contradiction|]. cbn [midrel] in H. destruct H as [[H1 H2] H'].
    destruct (IH mid (i + 1) H') as [A [B C]]. unfold known_heights in *. cbn [flat_map fst snd].
    destruct H2 as [[-> [-> [Hb Hbx]]]|[h [-> [Hh Hs]]]]; cbn [app].
    + repeat split; auto.
      * intros X. inversion X; subst; [congruence|auto].
      * cbn. lia.
    + repeat split.
      * constructor; auto.
      * intros _. discriminate.
      * cbn. lia.
Qed.

Lemma cfixed_render_ok f fp n d : 0 <= d -> forall l t i,
  Forall cfx_ok l -> centries f fp l t i ->
  match cols_render_items l t n d f fp i with
  | Ok data => sumw data = rtotal (map (fun x : Z * Z * size => fst (fst x)) t) n d i
               /\ Forall jok data
               /\ map (fun e => cr (fst e)) data = map (fun x : Z * Z * size => snd (fst x)) t
  | Err e => soft e
  end.
Proof.
  intros Hd. induction l as [|it l IH]; intros t i H HE.
  - destruct t; [|contradiction]. cbn. repeat split; auto.
  - destruct t as [|[[w h] s] t]; [contradiction|]. cbn [centries] in HE. destruct HE as [[E1 [E2 E3]] HE'].
    inversion H as [|? ? [G [GX K]] H']; subst.
    specialize (IH t (i + 1) H' HE').
    cbn [cols_render_items map rtotal fst snd]. replace (w <=? 0) with false by lia.
    assert (R : match m_render (ci_sem it) s (item_focus f fp i) with
                | Ok cv => cc cv = w /\ cr cv = h /\ rect cv = true /\ inside cv
                | Err e => soft e end).
    { destruct E3 as [[-> [A B]]|[[-> [A B]]|[-> A]]].
      - pose proof (g_flow _ G w (item_focus f fp i) A E1) as F.
        destruct (m_render (ci_sem it) (SFlow w) (item_focus f fp i)); [|exact F].
        destruct F as [[F1 F2] [F3 F4]]. rewrite B in F2. inversion F2. auto.
      - pose proof (gx_render _ GX A (item_focus f fp i)) as F.
        destruct (m_render (ci_sem it) SFixed (item_focus f fp i)); [|exact F].
        destruct F as [F1 [F2 F3]]. rewrite B in F1. inversion F1. auto.
      - pose proof (g_box _ G w h (item_focus f fp i) A E1 E2) as F.
        destruct (m_render (ci_sem it) (SBox w h) (item_focus f fp i)); [|exact F].
        destruct F as [[F1 F2] [F3 F4]]. auto. }
    destruct (m_render (ci_sem it) s (item_focus f fp i)) as [cv|e]; cbn [bind]; [|exact R].
    destruct R as [R1 [R2 [R3 R4]]].
    destruct (cols_render_items l t n d f fp (i + 1)) as [data|e]; cbn [bind]; [|exact IH].
    destruct IH as [A [B C]]. repeat split.
    + cbn [sumw snd]. rewrite A. reflexivity.
    + constructor; auto. unfold jok. cbn [fst snd]. destruct (i <? n - 1); repeat split; auto; lia.
    + cbn [map fst]. rewrite C, R2. reflexivity.
Qed.

Lemma rtotal_pos d n : forall ws i, n = i + zlength ws -> Forall (fun w => 1 <= w) ws -> ws <> [] ->
  rtotal ws n d i = fold_right Z.add 0 ws + d * (zlength ws - 1).
Proof.
  induction ws as [|w r IH]; intros i Hn H Hne; [congruence|].
  inversion H; subst. cbn [rtotal fold_right]. replace (w <=? 0) with false by lia.
  unfold zlength in *. cbn [length] in *.
  destruct r as [|w2 r2].
  - cbn [rtotal fold_right length]. replace (i <? i + Z.of_nat 1 - 1) with false by lia. lia.
  - rewrite (IH (i + 1)); [|cbn [length] in *; lia|assumption|discriminate].
    replace (i <? i + Z.of_nat (S (length (w2 :: r2))) - 1) with true by (cbn [length]; lia).
    cbn [length]. lia.
Qed.

Lemma maxz_fold0 (l : list Z) : l <> [] -> Forall (fun x => 0 <= x) l -> maxz l = fold_left Z.max l 0.
Proof.
  intros Hne H. destruct l as [|a l]; [congruence|]. inversion H; subst. unfold maxz. cbn [fold_left].
  replace (Z.max 0 a) with a by lia. reflexivity.
Qed.

Lemma centries_facts f fp : forall l t i, centries f fp l t i ->
  Forall (fun w => 1 <= w) (map (fun x : Z * Z * size => fst (fst x)) t)
  /\ Forall (fun h => 1 <= h) (map (fun x : Z * Z * size => snd (fst x)) t)
  /\ length t = length l.
Proof.
  induction l as [|it l IH]; intros t i H.
  - destruct t; [|contradiction]. cbn. repeat split; constructor.
  - destruct t as [|[[w h] s] t]; [contradiction|]. destruct H as [[E1 [E2 _]] H'].
    destruct (IH t (i + 1) H') as [A [B C]]. cbn. repeat split; try constructor; auto.
Qed.

(* cols_fixed_sizes as a whole *)
Lemma cfixed_sizes_ok l mw f fp :
  1 <= mw -> Forall cfx_ok l -> Exists (fun it => ci_box it = false) l ->
  match cols_fixed_sizes l mw f fp with
  | Ok t => centries f fp l t 0 /\ t <> []
  | Err e => soft e
  end.
Proof.
  intros Hm H X. unfold cols_fixed_sizes.
  pose proof (cfixed_plan_ok mw f fp l 0 H) as P.
  destruct (cols_fixed_plan l mw f fp 0) as [ps|e]; cbn [bind]; [|exact P].
  pose proof (cfixed_mid_ok mw (best_wcoef ps None) f fp Hm l ps 0 H P
                ltac:(intros Y; apply best_wcoef_some; right; exact Y)) as M.
  destruct (cols_fixed_mid l ps mw (best_wcoef ps None) f fp 0) as [mid|e]; cbn [bind]; [|exact M].
  destruct (known_heights_ok f fp l mid 0 M) as [K1 [K2 K3]]. specialize (K2 X).
  fold (known_heights mid).
  destruct (known_heights mid) as [|h0 hs] eqn:EK; [congruence|]. rewrite <- EK in *.
  assert (M1 : 1 <= maxz (known_heights mid)).
  { destruct (maxz_facts _ K2) as [_ Hin]. pose proof (proj1 (Forall_forall _ _) K1 _ Hin) as HH. cbn beta in HH. exact HH. }
  fold (finalize mid (maxz (known_heights mid))).
  split; [apply finalize_ok; auto|].
  unfold finalize. destruct mid; [cbn in EK; discriminate|discriminate].
Qed.

Lemma cols_fx l d mw fp :
  0 <= d -> 1 <= mw -> Forall cfx_ok l -> Exists (fun it => ci_box it = false) l ->
  GoodFx (cols_sem l d mw fp).
Proof.
  intros Hd Hm H X.
  constructor; cbn [cols_sem mk_node m_sizing m_pack m_render degenerate]; intros Hs f.
  - (* pack(()) *)
    unfold cols_pack_fixed.
    pose proof (cfixed_sizes_ok l mw f fp Hm H X) as S.
    destruct (cols_fixed_sizes l mw f fp) as [t|e]; cbn [bind]; [|exact S].
    destruct S as [S1 S2]. destruct (centries_facts f fp l t 0 S1) as [A [B C]].
    destruct t as [|t0 t']; [congruence|].
    split.
    + rewrite sumz_fold.
      assert (1 <= fold_right Z.add 0 (map (fun x : Z * Z * size => fst (fst x)) (t0 :: t'))).
      { clear -A. inversion A; subst. cbn.
        assert (0 <= fold_right Z.add 0 (map (fun x : Z * Z * size => fst (fst x)) t')) by (clear -H2; induction H2; cbn; lia). lia. }
      nia.
    + destruct (maxz_facts (map (fun x : Z * Z * size => snd (fst x)) (t0 :: t')) ltac:(discriminate)) as [_ Hin].
      pose proof (proj1 (Forall_forall _ _) B _ Hin) as HH. cbn beta in HH. exact HH.
  - (* render(()) *)
    unfold wrap_render. cbn [degenerate]. unfold cols_render, cols_sizes, meets.
    cbn [cols_sem mk_node m_pack degenerate]. unfold cols_pack_fixed.
    pose proof (cfixed_sizes_ok l mw f fp Hm H X) as S.
    destruct (cols_fixed_sizes l mw f fp) as [t|e]; cbn [bind]; [|exact S].
    destruct S as [S1 S2]. destruct (centries_facts f fp l t 0 S1) as [A [B C]].
    pose proof (cfixed_render_ok f fp (zlength t) d Hd l t 0 H S1) as R.
    destruct (cols_render_items l t (zlength t) d f fp 0) as [data|e]; cbn [bind]; [|exact R].
    destruct R as [R1 [R2 R3]].
    destruct t as [|t0 t']; [congruence|].
    destruct data as [|e0 data]; [cbn in R3; discriminate|].
    destruct (join_spec (e0 :: data)) as [cv [EJ [J1 [J2 [J3 J4]]]]].
    { intros e He. exact (proj1 (Forall_forall _ _) R2 e He). }
    rewrite EJ. cbn [bind validate]. repeat split; auto.
    f_equal. f_equal.
    + rewrite J1, R1, sumz_fold.
      rewrite (rtotal_pos d (zlength (t0 :: t')) _ 0); [|unfold zlength; rewrite map_length; lia|exact A|discriminate].
      unfold zlength. rewrite map_length. cbn [length]. lia.
    + rewrite J2, maxrows_map, R3. apply maxz_fold0; [discriminate|].
      eapply Forall_impl; [|exact B]. intros; cbn beta in *; lia.
Qed.
