(* C15 - simulation, second part: character sets, the history, composition.
   First part: Proofs/VTermSim.v.
   C15 - simulation of the reference VT100 (Model/VT100Ref.v) by the emulator model (Model/VTerm.v) fed with
   the byte encoding of the reference's commands: the relation R, one lemma per command, composition. *)
From Coq Require Import ZArith List Bool Lia ZifyBool.
Import ListNotations.
From Urwid Require Import PyBase PyList vterm_csi_gen VTerm VT100Ref VTermRefine VTermListFacts VTermProofs VTermParse VTermSim VTermSimB VTermSimC VTermSimD VTermSimF VTermSimSgr VTermSimO.
Open Scope Z_scope.

Arguments Z.mul : simpl never.
Arguments Z.add : simpl never.
Arguments Z.sub : simpl never.
Arguments Z.div : simpl never.
Arguments Z.modulo : simpl never.
Arguments Z.ltb : simpl never.
Arguments Z.leb : simpl never.
Arguments Z.eqb : simpl never.
Arguments Z.min : simpl never.
Arguments Z.max : simpl never.
Arguments Z.pow : simpl never.
Arguments Z.to_nat : simpl never.
Arguments Z.of_nat : simpl never.


(* ---------- character sets: SO, SI, ESC ( c, ESC ) c ---------- *)
Lemma R0_cset t v c' k' : R0 t v -> cs_rel c' k' -> R0 (with_cset t c') (with_cs v k').
Proof.
  intros [] Hc. constructor; cbn [with_cs v_w v_h v_g v_x v_y v_pend v_top v_bot v_attr v_sb v_sbknown v_replies v_cs
    width height term cur sr_start sr_end rotten attrspec u8eat modes cset tabstops events sb with_cset]; auto.
  eapply K_Inv. apply with_cset_K. assumption.
Qed.

Lemma pc_shift s g : m_display_ctrl (modes s) = false -> g = 0 \/ g = 1 ->
  process_char s [if g =? 0 then 15 else 14] = Ok (with_cset s (cs_activate (cset s) g)).
Proof.
  intros Hd [-> | ->]; unfold process_char; destruct (cur s); cbv zeta; rewrite Hd; reflexivity.
Qed.

Lemma cs_rel_activate c g0 g1 sh g :
  cs_rel c (g0, g1, sh) -> (g = 0 \/ (g = 1 /\ g1 <> -1)) -> cs_rel (cs_activate c g) (g0, g1, g).
Proof.
  intros (E1 & E2 & E3 & E4 & E5 & E6 & E7 & E8) Hg. unfold cs_rel, cs_activate, cs_g.
  cbn [cs_sgr cs_g0 cs_g1 cs_active cs_current set_cs_current set_cs_active].
  destruct Hg as [-> | [-> Hg]].
  - replace (0 =? 0) with true by reflexivity. rewrite E2. repeat split; auto. destruct E3 as [-> | ->]; reflexivity.
  - replace (1 =? 0) with false by reflexivity. destruct E5 as [E5|E5]; [contradiction|].
    repeat split; auto. rewrite <- E5. destruct E4 as [-> | ->]; reflexivity.
Qed.

Lemma sim_shift s v g : R s v -> g = 0 \/ (g = 1 /\ ambiguous v CSo = false) ->
  exists s', addbytes s [if g =? 0 then 15 else 14] = Ok s' /\
             R s' (let '(g0, g1, _) := v_cs v in with_cs v (g0, g1, g)).
Proof.
  intros HR Hg. pose proof (R_idle s v HR) as [He Hp Hu Hd Hm]. destruct HR as (H0 & _). pose proof H0 as [].
  assert (g = 0 \/ g = 1) as Hg01 by (destruct Hg as [-> | [-> _]]; auto).
  rewrite addbytes_1. assert (0 <= (if g =? 0 then 15 else 14) < 128) as Hb by (destruct Hg01 as [-> | ->]; [change (0 <= 15 < 128)|change (0 <= 14 < 128)]; lia).
  rewrite addbyte_ascii by auto.
  rewrite pc_shift by auto.
  eexists. split; [reflexivity|]. destruct (v_cs v) as [[g0 g1] sh] eqn:Ek.
  split; [|split; assumption]. apply R0_cset; [assumption|].
  eapply cs_rel_activate; [exact r_cset|]. destruct Hg as [-> | [-> Ha]]; [left; reflexivity|right].
  split; [reflexivity|]. cbn [ambiguous] in Ha. rewrite Ek in Ha. lia.
Qed.

Lemma sim_so s v : R s v -> ambiguous v CSo = false -> exists s', addbytes s (enc_cmd CSo) = Ok s' /\ R s' (exec v CSo).
Proof. intros HR Ha. apply (sim_shift s v 1 HR). right. auto. Qed.

Lemma sim_si s v : R s v -> exists s', addbytes s (enc_cmd CSi) = Ok s' /\ R s' (exec v CSi).
Proof. intros HR. apply (sim_shift s v 0 HR). left. reflexivity. Qed.

Lemma cs_rel_define c g0 g1 sh g ch :
  cs_rel c (g0, g1, sh) -> g = 0 \/ g = 1 -> ch = 48 \/ ch = 66 ->
  cs_rel (cs_define c g (if ch =? 48 then 1 else if ch =? 85 then 2 else if ch =? 75 then 3 else 0))
         (if g =? 0 then (set_of ch, g1, sh) else (g0, set_of ch, sh)).
Proof.
  intros (E1 & E2 & E3 & E4 & E5 & E6 & E7 & E8) Hg Hc. destruct c as [c0 c1 csg cac ccu].
  cbn [cs_sgr cs_g0 cs_g1 cs_active cs_current] in *. subst.
  unfold cs_define, cs_activate, cs_g, set_of, cs_rel.
  destruct Hg as [-> | ->], Hc as [-> | ->], E7 as [-> | [-> Hn]];
    cbn [cs_sgr cs_g0 cs_g1 cs_active cs_current set_cs_current set_cs_active set_cs_g0 set_cs_g1];
    repeat match goal with |- context [?a =? ?b] => let r := eval vm_compute in (a =? b) in
             match r with true => idtac | false => idtac end; change (a =? b) with r end;
    cbn [cs_sgr cs_g0 cs_g1 cs_active cs_current set_cs_current set_cs_active set_cs_g0 set_cs_g1];
    repeat split; auto; try lia;
    try (destruct E3 as [-> | ->]; reflexivity); try (destruct E4 as [E4 | E4]; rewrite E4 in *; cbn; auto; lia);
    try (destruct E5 as [E5|E5]; [contradiction|]; rewrite <- E5; destruct E4 as [-> | ->]; reflexivity).
Qed.

Lemma sim_desig s v g ch : R s v -> cmd_ok (CDesig g ch) = true ->
  exists s', addbytes s (enc_cmd (CDesig g ch)) = Ok s' /\ R s' (exec v (CDesig g ch)).
Proof.
  intros HR Hok. cbn [cmd_ok] in Hok. assert (g = 0 \/ g = 1) as Hg by lia. assert (ch = 48 \/ ch = 66) as Hc by lia.
  pose proof (R_idle s v HR) as [He Hp Hu Hd Hm]. destruct HR as (H0 & _). pose proof H0 as [].
  cbn [enc_cmd addbytes].
  rewrite addbyte_ascii by (auto; lia).
  assert (process_char s [27] = Ok (with_inesc s true)) as E1.
  { unfold process_char. destruct (cur s). cbv zeta. rewrite Hp. reflexivity. }
  rewrite E1. cbn [bind]. set (s1 := with_inesc s true).
  set (m := if g =? 0 then 40 else 41).
  assert (m = 40 \/ m = 41) as Hm' by (subst m; destruct Hg as [-> | ->]; auto).
  rewrite addbyte_ascii by (auto; lia).
  rewrite process_char_plain by (auto; unfold plain_byte; lia).
  change (inesc s1) with true. cbv iota.
  assert (parse_escape s1 [m] = Ok (with_pstate (with_escbuf s1 [m]) 3)) as E2.
  { unfold parse_escape. cbv zeta. change (pstate s1) with (pstate s). rewrite Hp. destruct Hm' as [-> | ->]; reflexivity. }
  rewrite E2. cbn [bind]. set (s2 := with_pstate (with_escbuf s1 [m]) 3).
  rewrite addbyte_ascii by (auto; lia).
  rewrite process_char_plain by (auto; unfold plain_byte; lia).
  change (inesc s2) with true. cbv iota.
  assert (parse_escape s2 [ch] = Ok (leave_escape (with_cset s2 (cs_define (cset s2) g
            (if ch =? 48 then 1 else if ch =? 85 then 2 else if ch =? 75 then 3 else 0))))) as E3.
  { unfold parse_escape. cbv zeta. change (pstate s2) with 3. change (escbuf s2) with [m].
    unfold parse_noncsi, set_g01. change (modes s2) with (modes s). rewrite r_modes.
    subst m. destruct Hg as [-> | ->], Hc as [-> | ->]; reflexivity. }
  rewrite E3. cbn [bind]. eexists. split; [reflexivity|].
  assert (R0 s2 v) as H2 by (eapply R0_parser; [exact H0|..]; try reflexivity; repeat split).
  apply R_leave2. cbn [exec]. destruct (v_cs v) as [[g0 g1] sh] eqn:Ek.
  pose proof (cs_rel_define (cset s2) g0 g1 sh g ch) as Hd'. change (cset s2) with (cset s) in *.
  specialize (Hd' r_cset Hg Hc).
  destruct (g =? 0); apply R0_cset; assumption.
Qed.

Lemma list_eqb_refl l : list_eqb l l = true.
Proof. induction l; cbn [list_eqb]; [reflexivity|]. rewrite IHl. replace (a =? a) with true by lia. reflexivity. Qed.

Lemma lists_eqb_refl l : lists_eqb l l = true.
Proof. induction l; cbn [lists_eqb]; [reflexivity|]. rewrite IHl, list_eqb_refl. reflexivity. Qed.

Lemma R0_history t v : R0 t v -> agrees_history t v = true.
Proof.
  intros []. unfold agrees_history. rewrite r_replies, lists_eqb_refl. cbn [andb].
  destruct (v_sbknown v) eqn:K; [|reflexivity].
  apply (all2_Forall2 _ (Forall2 cell_rel) _ _ (fun a b => all2_Forall2 _ cell_rel a b cell_rel_agrees) (r_sb eq_refl)).
Qed.

(* ---------- composition ---------- *)
Definition cmd_small (c : cmd) : Prop :=
  match c with
  | CCup a b | CStbm a b => small a /\ small b
  | CCuu n | CCud n | CCuf n | CCub n | CEl n | CEd n | CIch n | CDch n | CIl n | CDl n | CDsr n | CVpa n => small n
  | CSgr l => Forall small l
  | _ => True
  end.

Fixpoint unambiguous (v : vt) (cs : list cmd) : bool :=
  match cs with [] => true | c :: r => negb (ambiguous v c) && unambiguous (exec v c) r end.

Lemma sim_cmd c s v :
  R s v -> cmd_ok c = true -> cmd_small c -> ambiguous v c = false ->
  exists s', addbytes s (enc_cmd c) = Ok s' /\ R s' (exec v c).
Proof.
  intros HR Hok Hs Ha. destruct c; cbn [cmd_small] in Hs.
  - cbn [cmd_ok] in Hok. apply sim_ch; [assumption|lia].
  - apply sim_cr; assumption.
  - apply sim_lf; assumption.
  - apply sim_bs; assumption.
  - apply sim_ri; assumption.
  - destruct Hs. apply sim_cup; assumption.
  - apply sim_cuu; assumption.
  - apply sim_cud; assumption.
  - apply sim_cuf; assumption.
  - apply sim_cub; assumption.
  - cbn [cmd_ok] in Hok. apply sim_el; [assumption|lia|assumption].
  - cbn [cmd_ok] in Hok. apply sim_ed; [assumption|lia|assumption].
  - apply sim_ich; assumption.
  - apply sim_dch; assumption.
  - apply sim_il; assumption.
  - apply sim_dl; assumption.
  - destruct Hs. apply sim_stbm; assumption.
  - apply sim_sgr; assumption.
  - apply sim_dsr; assumption.
  - apply sim_ht; assumption.
  - apply sim_so; assumption.
  - apply sim_si; assumption.
  - apply sim_desig; assumption.
  - apply sim_vpa; assumption.
  - apply sim_decom; assumption.
Qed.

Lemma sim_cmds cs : forall s v,
  R s v -> forallb cmd_ok cs = true -> Forall cmd_small cs -> unambiguous v cs = true ->
  exists s', addbytes s (enc_cmds cs) = Ok s' /\ R s' (run_ref v cs).
Proof.
  induction cs as [|c r IH]; intros s v HR Hok Hs Hu.
  - exists s. split; [reflexivity|exact HR].
  - cbn [forallb] in Hok. apply andb_prop in Hok. destruct Hok as [Hk1 Hk2].
    inversion Hs; subst. cbn [unambiguous] in Hu. apply andb_prop in Hu. destruct Hu as [Hu1 Hu2].
    destruct (sim_cmd c s v HR Hk1 H1) as (s1 & E1 & R1); [destruct (ambiguous v c); [discriminate|reflexivity]|].
    destruct (IH s1 (exec v c) R1 Hk2 H2 Hu2) as (s2 & E2 & R2).
    exists s2. unfold enc_cmds. cbn [flat_map]. rewrite addbytes_app. rewrite E1. cbn [bind].
    split; [exact E2|]. unfold run_ref. cbn [fold_left]. exact R2.
Qed.

Lemma refines_vt100 w h e cs :
  1 <= w -> 1 <= h -> forallb cmd_ok cs = true -> Forall cmd_small cs -> unambiguous (vt_init w h) cs = true ->
  exists s, run (init w h e) [Feed (enc_cmds cs)] = Ok s /\ agrees s (run_ref (vt_init w h) cs) = true /\
            agrees_history s (run_ref (vt_init w h) cs) = true.
Proof.
  intros Hw Hh Hok Hs Hu.
  destruct (sim_cmds cs (init w h e) (vt_init w h) (R_init w h e Hw Hh) Hok Hs Hu) as (s' & E & (HR & _)).
  exists s'. cbn [run step]. rewrite addstr_addbytes by (apply init_Inv; assumption). rewrite E. cbn [bind].
  split; [reflexivity|]. split; [apply R0_agrees|apply R0_history]; assumption.
Qed.
