(* C20 - Scrollable.render on canvas objects (Model/ScrollCanvas.v):
   (A) a generic simulation lemma for the method skeleton;
   (B) heap layer -> CompositeCanvas model (C02's refinement lemmas), and the FRAME property: render never changes a
       list object that existed before the call - in particular not the wrapped widget's canvas, although
       "CompositeCanvas(canv_full)" shares its shards list;
   (C) grid reference semantics -> CompositeCanvas model (C02's relational lemmas);
   (D) grid -> sizes-only instance, and the sizes-only instance IS Model/Scrollable.s_render;
   (E) on grids, the result is the slice the property describes, cell for cell. *)
From Coq Require Import ZArith List Bool Lia ZifyBool.
From Urwid Require Import PyBase Canvas CanvasGrid CanvasHeap CanvasFacts CanvasProg CanvasProgH
  CanvasHeapFrame CanvasHeapScope CanvasHeapRefine
  ScrollBase scrollable_gen Scrollable ScrollCanvas.
Import ListNotations.
Open Scope Z_scope.
Arguments Z.add : simpl never. Arguments Z.sub : simpl never. Arguments Z.mul : simpl never.
Arguments Z.ltb : simpl never. Arguments Z.leb : simpl never. Arguments Z.eqb : simpl never.
Arguments Z.min : simpl never. Arguments Z.max : simpl never.

(* ------------------------------------------------------------------ (A) generic simulation *)
Section Sim.
  Context {A B : Type}.
  Variable OA : cops A.
  Variable OB : cops B.
  Variable R : A -> B -> Prop.
  Hypothesis R_cols : forall a b, R a b -> o_cols OA a = o_cols OB b.
  Hypothesis R_rows : forall a b, R a b -> o_rows OA a = o_rows OB b.
  Hypothesis R_cursor : forall a b, R a b -> o_cursor OA a = o_cursor OB b.
  Hypothesis R_padr : forall a b r a', R a b -> o_padr OA a r = Ok a' -> exists b', o_padr OB b r = Ok b' /\ R a' b'.
  Hypothesis R_padb : forall a b bo a', R a b -> o_padb OA a bo = Ok a' -> exists b', o_padb OB b bo = Ok b' /\ R a' b'.
  Hypothesis R_trim : forall a b t a', R a b -> o_trim OA a t = Ok a' -> exists b', o_trim OB b t = Ok b' /\ R a' b'.
  Hypothesis R_trim_end : forall a b e a', R a b -> o_trim_end OA a e = Ok a' -> exists b', o_trim_end OB b e = Ok b' /\ R a' b'.
  Hypothesis R_nocursor : forall a b a', R a b -> o_nocursor OA a = Ok a' -> exists b', o_nocursor OB b = Ok b' /\ R a' b'.

  Lemma when_sim (c : bool) (fa : A -> result A) (fb : B -> result B) a b a' :
    (forall a0 b0 a1, R a0 b0 -> fa a0 = Ok a1 -> exists b1, fb b0 = Ok b1 /\ R a1 b1) ->
    R a b -> when c fa a = Ok a' -> exists b', when c fb b = Ok b' /\ R a' b'.
  Proof.
    intros Hf Hr. unfold when. destruct c.
    - apply Hf. exact Hr.
    - intros [= <-]. exists b. split; [reflexivity|exact Hr].
  Qed.

  Lemma skel_sim st maxcol maxrow sel fc a b st' a' :
    R a b ->
    render_skel OA st maxcol maxrow sel fc a = Ok (st', a') ->
    exists b', render_skel OB st maxcol maxrow sel fc b = Ok (st', b') /\ R a' b'.
  Proof.
    intros Hr. unfold render_skel.
    rewrite <- (R_cols _ _ Hr), <- (R_rows _ _ Hr).
    destruct (when _ _ a) as [a1|] eqn:E1; [|discriminate].
    destruct (when_sim _ _ (fun c => o_padr OB c (maxcol - o_cols OA a)) _ _ _
                (fun a0 b0 a1 H => R_padr a0 b0 _ a1 H) Hr E1) as (b1 & F1 & R1). rewrite F1.
    destruct (when _ _ a1) as [a2|] eqn:E2; [|discriminate].
    destruct (when_sim _ _ (fun c => o_padb OB c (maxrow - o_rows OA a)) _ _ _
                (fun a0 b0 a1 H => R_padb a0 b0 _ a1 H) R1 E2) as (b2 & F2 & R2). rewrite F2.
    destruct ((o_cols OA a <=? maxcol) && (o_rows OA a <=? maxrow)).
    - intros [= <- <-]. exists b2. split; [reflexivity|exact R2].
    - rewrite <- (R_rows _ _ R2), <- (R_cursor _ _ R2).
      destruct (adjust_trim_top_gen _ _ _ _ _ _) as [[tp act] old].
      destruct (when (0 <? tp) _ a2) as [a3|] eqn:E3; [|discriminate].
      destruct (when_sim _ _ (fun c => o_trim OB c tp) _ _ _ (fun a0 b0 a1 H => R_trim a0 b0 _ a1 H) R2 E3) as (b3 & F3 & R3).
      rewrite F3.
      destruct (when (0 <? o_rows OA a - maxrow - tp) _ a3) as [a4|] eqn:E4; [|discriminate].
      destruct (when_sim _ _ (fun c => o_trim_end OB c (o_rows OA a - maxrow - tp)) _ _ _
                  (fun a0 b0 a1 H => R_trim_end a0 b0 _ a1 H) R3 E4) as (b4 & F4 & R4). rewrite F4.
      destruct (when (0 <? o_cols OA a - maxcol) _ a4) as [a5|] eqn:E5; [|discriminate].
      destruct (when_sim _ _ (fun c => o_padr OB c (- (o_cols OA a - maxcol))) _ _ _
                  (fun a0 b0 a1 H => R_padr a0 b0 _ a1 H) R4 E5) as (b5 & F5 & R5). rewrite F5.
      rewrite <- (R_cursor _ _ R5).
      destruct (when _ (o_nocursor OA) a5) as [a6|] eqn:E6; [|discriminate].
      destruct (when_sim _ _ (o_nocursor OB) _ _ _ R_nocursor R5 E6) as (b6 & F6 & R6). rewrite F6.
      rewrite <- (R_cursor _ _ R6). intros [= <- <-]. exists b6. split; [reflexivity|exact R6].
  Qed.
End Sim.

(* ------------------------------------------------------------------ (B) heap layer -> CompositeCanvas model, frame *)
Definition R_heap (h0 : heap) (x : hc) (pc : comp) : Prop :=
  hext h0 (fst x) /\ scoped (fst x) (hid (snd x)) /\ to_comp (fst x) (snd x) = pc.

Lemma set_cursor_keeps_shards c0 c1 : comp_set_cursor c0 None = Ok c1 -> cshards c1 = cshards c0.
Proof. unfold comp_set_cursor. destruct (cfin c0); [discriminate|]. intros [= <-]. reflexivity. Qed.

Lemma heap_skel_sim h0 st maxcol maxrow sel fc x pc st' x' :
  R_heap h0 x pc ->
  render_skel heap_ops st maxcol maxrow sel fc x = Ok (st', x') ->
  exists pc', render_skel comp_ops st maxcol maxrow sel fc pc = Ok (st', pc') /\ R_heap h0 x' pc'.
Proof.
  apply (skel_sim heap_ops comp_ops (R_heap h0)); unfold R_heap; cbn [heap_ops comp_ops o_cols o_rows o_cursor o_padr o_padb o_trim o_trim_end o_nocursor].
  - intros [h c] b (_ & _ & <-). reflexivity.
  - intros [h c] b (_ & _ & <-). reflexivity.
  - intros [h c] b (_ & _ & <-). reflexivity.
  - intros [h c] b r [h' c'] (X & S & <-) H. cbn [fst snd] in *.
    exists (to_comp h' c'). split; [exact (h_pad_lr_ref _ _ _ _ _ _ H S)|]. cbn [fst snd].
    split; [exact (hext_trans _ _ _ X (h_pad_lr_ext _ _ _ _ _ _ H))|]. split; [exact (h_pad_lr_scoped _ _ _ _ _ _ H S)|reflexivity].
  - intros [h c] b bo [h' c'] (X & S & <-) H. cbn [fst snd] in *.
    exists (to_comp h' c'). split; [exact (h_pad_tb_ref _ _ _ _ _ _ H S)|]. cbn [fst snd].
    split; [exact (hext_trans _ _ _ X (h_pad_tb_ext _ _ _ _ _ _ H))|]. split; [exact (h_pad_tb_scoped _ _ _ _ _ _ H S)|reflexivity].
  - intros [h c] b t [h' c'] (X & S & <-) H. cbn [fst snd] in *.
    exists (to_comp h' c'). split; [exact (h_trim_ref _ _ _ _ _ _ H S)|]. cbn [fst snd].
    split; [exact (hext_trans _ _ _ X (proj1 (h_trim_ext _ _ _ _ _ _ H)))|]. split; [exact (h_trim_scoped _ _ _ _ _ _ H S)|reflexivity].
  - intros [h c] b e [h' c'] (X & S & <-) H. cbn [fst snd] in *.
    exists (to_comp h' c'). split; [exact (h_trim_end_ref _ _ _ _ _ H)|]. cbn [fst snd].
    split; [exact (hext_trans _ _ _ X (h_trim_end_ext _ _ _ _ _ H))|]. split; [exact (h_trim_end_scoped _ _ _ _ _ H)|reflexivity].
  - intros [h c] b [h' c'] (X & S & <-) H. cbn [fst snd] in *.
    exists (to_comp h' c'). split; [exact (h_same_ref _ _ _ _ _ set_cursor_keeps_shards H)|]. cbn [fst snd].
    split; [exact (hext_trans _ _ _ X (h_same_ext _ _ _ _ _ H))|]. split; [exact (h_same_scoped _ _ _ _ _ H S)|reflexivity].
Qed.

(* Scrollable.render on the heap: (1) it computes what the CompositeCanvas model computes; (2) FRAME: every list
   object that existed before the call still has its old contents afterwards - the heap is only extended; (3) hence the
   wrapped widget's canvas [v] (its shards list is SHARED by "CompositeCanvas(canv_full)"!) denotes the same value
   before and after, internal shards included.  For every state, size, position, wrapped canvas. *)
Theorem sh_render_frame st maxcol maxrow sel h v st' h' c' :
  vscoped h v ->
  sh_render st maxcol maxrow sel h v = Ok (st', (h', c')) ->
  sc_render st maxcol maxrow sel (to_value h v) = Ok (st', to_comp h' c') /\
  hext h h' /\
  to_value h' v = to_value h v.
Proof.
  intros Hv. unfold sh_render, sc_render.
  destruct (h_wrap h v) as [[h0 c0]|] eqn:Ew; [|discriminate].
  rewrite (h_wrap_ref _ _ _ _ Ew).
  destruct (h_wrap_ext _ _ _ _ Ew) as [X0 _].
  pose proof (h_wrap_scoped _ _ _ _ Ew Hv) as S0.
  intros H.
  destruct (heap_skel_sim h st maxcol maxrow sel _ (h0, c0) (to_comp h0 c0) st' (h', c')
              (conj X0 (conj S0 eq_refl)) H) as (pc' & E & X & S & <-).
  cbn [fst snd] in *. split; [exact E|]. split; [exact X|].
  exact (proj2 (vscoped_ext _ _ _ X Hv)).
Qed.

(* ------------------------------------------------------------------ (C) grid reference semantics -> CompositeCanvas model *)
Definition R_grid (g : gval) (c : comp) : Prop := vrel (VComp c) g /\ gfin g = false.

Lemma gguard_ok g b r a : gguard g b r = Ok a -> gfin g = false /\ b = true /\ a = r.
Proof. unfold gguard. destruct (gfin g), b; cbn; try discriminate. intros [= <-]. auto. Qed.

Lemma grid_skel_sim st maxcol maxrow sel fc g c st' g' :
  R_grid g c ->
  render_skel grid_ops st maxcol maxrow sel fc g = Ok (st', g') ->
  exists c', render_skel comp_ops st maxcol maxrow sel fc c = Ok (st', c') /\ R_grid g' c'.
Proof.
  apply (skel_sim grid_ops comp_ops R_grid); unfold R_grid; cbn [grid_ops comp_ops o_cols o_rows o_cursor o_padr o_padb o_trim o_trim_end o_nocursor].
  - intros a b ((_ & W & C & _) & _). destruct (WF_content_grid _ _ W C) as (_ & _ & E). exact E.
  - intros a b ((_ & W & C & _) & _). destruct (WF_content_grid _ _ W C) as (_ & E & _). exact E.
  - intros a b ((_ & _ & _ & E & _) & _). rewrite E. reflexivity.
  - intros a b r a' (V & F) H. apply gguard_ok in H. destruct H as (_ & G & ->).
    destruct (comp_pad_trim_left_right_rel b a 0 r V F ltac:(lia)) as (c' & E & V'). exists c'. split; [exact E|].
    split; [|reflexivity]. replace ((0 <? 0) || (r <? 0)) with (r <? 0) in V' by (destruct (r <? 0); reflexivity). exact V'.
  - intros a b bo a' (V & F) H. apply gguard_ok in H. destruct H as (_ & G & ->).
    destruct (comp_pad_trim_top_bottom_rel b a 0 bo V F ltac:(lia)) as (c' & E & V'). exists c'. split; [exact E|]. split; [exact V'|reflexivity].
  - intros a b t a' (V & F) H. apply gguard_ok in H. destruct H as (_ & G & ->).
    destruct (comp_trim_rel b a t None V F ltac:(lia) I) as (c' & E & V'). exists c'. split; [exact E|]. split; [exact V'|reflexivity].
  - intros a b e a' (V & F) H. apply gguard_ok in H. destruct H as (_ & G & ->).
    destruct (comp_trim_end_rel b a e V F ltac:(lia)) as (c' & E & V'). exists c'. split; [exact E|]. split; [exact V'|reflexivity].
  - intros a b a' (V & F) H. apply gguard_ok in H. destruct H as (_ & G & ->).
    destruct (comp_set_cursor_rel b a None V F) as (c' & E & V'). exists c'. split; [exact E|]. split; [exact V'|reflexivity].
Qed.

(* whenever the reference semantics defines the render of a grid, the CompositeCanvas model of any canvas value denoting
   that grid computes the same state and a canvas denoting the resulting grid *)
Theorem sc_render_refines_grid st maxcol maxrow sel v gv st' g' :
  vrel v gv ->
  sg_render st maxcol maxrow sel gv = Ok (st', g') ->
  exists c', sc_render st maxcol maxrow sel v = Ok (st', c') /\ vrel (VComp c') g'.
Proof.
  intros V H. unfold sc_render, sg_render in *.
  destruct (wrap_rel v gv V) as (c0 & Ew & V0). rewrite Ew.
  assert (Ec : cur (vcoords v) = cur (gco gv)).
  { destruct v as [c cu|c]; cbn [vrel vcoords] in *.
    - destruct V as (_ & _ & _ & _ & ->). reflexivity.
    - destruct V as (_ & _ & _ & -> & _). reflexivity. }
  rewrite Ec.
  destruct (grid_skel_sim st maxcol maxrow sel _ _ c0 st' g' (conj V0 eq_refl) H) as (c' & E & V' & _).
  exists c'. split; [exact E|exact V'].
Qed.

(* ------------------------------------------------------------------ (D) the sizes-only instance IS Model/Scrollable.s_render *)
Definition dims_of (ob : cobs) : dims := Dims (c_cols ob) (c_rows ob) (c_cursor ob).
Definition dims_of_view (ob : cobs) (v : view) : dims :=
  Dims (c_cols ob - v_trimr v + v_padr v) (v_shown v + v_blank v) (v_cursor v).

Lemma dims_is_s_render st maxcol maxrow ob :
  render_skel dims_ops st maxcol maxrow (c_selectable ob) (c_cursor ob) (dims_of ob) =
  match s_render st maxcol maxrow ob with
  | Ok (st', v) => Ok (st', dims_of_view ob v)
  | Err e => Err e
  end.
Proof.
  unfold render_skel, s_render, dims_of, dims_of_view.
  cbn [dims_ops o_cols o_rows o_cursor o_padr o_padb o_trim o_trim_end o_nocursor d_cols d_rows d_cur].
  set (b1 := (c_cols ob <=? maxcol) && (0 <? maxcol - c_cols ob)).
  set (b2 := (c_rows ob <=? maxrow) && (0 <? maxrow - c_rows ob)).
  set (pad := if b1 then maxcol - c_cols ob else 0).
  set (fill := if b2 then maxrow - c_rows ob else 0).
  assert (E1 : when b1 (fun c : dims => o_padr dims_ops c (maxcol - c_cols ob))
                 (Dims (c_cols ob) (c_rows ob) (c_cursor ob)) = Ok (Dims (c_cols ob + pad) (c_rows ob) (c_cursor ob))).
  { unfold when. cbn [dims_ops o_padr d_cols d_rows d_cur]. subst pad. destruct b1 eqn:B.
    - subst b1. replace (0 <? maxcol - c_cols ob) with true by lia. reflexivity.
    - rewrite Z.add_0_r. reflexivity. }
  cbn [dims_ops o_padr] in E1. rewrite E1.
  assert (E2 : when b2 (fun c : dims => o_padb dims_ops c (maxrow - c_rows ob))
                 (Dims (c_cols ob + pad) (c_rows ob) (c_cursor ob)) = Ok (Dims (c_cols ob + pad) (c_rows ob + fill) (c_cursor ob))).
  { unfold when. cbn [dims_ops o_padb d_cols d_rows d_cur]. subst fill. destruct b2 eqn:B.
    - subst b2. replace (maxrow - c_rows ob <? 0) with false by lia. reflexivity.
    - rewrite Z.add_0_r. reflexivity. }
  cbn [dims_ops o_padb] in E2.
  rewrite E2. cbn [d_cols d_rows d_cur].
  destruct ((c_cols ob <=? maxcol) && (c_rows ob <=? maxrow)) eqn:Hfit.
  - cbn [v_trimr v_padr v_shown v_blank v_cursor]. f_equal. f_equal. f_equal; lia.
  - destruct (adjust_trim_top_gen (trim_top st) (action st) (old_cursor st) (c_rows ob + fill) (c_cursor ob) (maxcol, maxrow))
      as [[tp act] old].
    unfold when.
    destruct (0 <? tp) eqn:Et; cbn [andb d_cols d_rows d_cur];
    [destruct (c_rows ob + fill <=? tp) eqn:Ee; [reflexivity|]; cbn [d_cols d_rows d_cur]|];
    (destruct (0 <? c_rows ob - maxrow - tp) eqn:Ed; cbn [andb d_cols d_rows d_cur];
     [match goal with |- context [if ?b then Err ValueError else _] => destruct b eqn:Ef; [reflexivity|] end; cbn [d_cols d_rows d_cur]|]);
    (destruct (0 <? c_cols ob - maxcol) eqn:Ec; cbn [andb d_cols d_rows d_cur];
     [replace (0 <? - (c_cols ob - maxcol)) with false by lia; replace (- (c_cols ob - maxcol) <? 0) with true by lia|]);
    match goal with |- context [if _ then Ok (Dims _ _ None) else Ok (Dims _ _ ?cu)] =>
      generalize cu; intros cu' end;
    (destruct cu' as [[x y]|]; cbn [d_cols d_rows d_cur]; [destruct ((maxrow <=? y) || (y <? 0))|]);
    cbn [d_cols d_rows d_cur v_trimr v_padr v_shown v_blank v_cursor];
    (f_equal; f_equal; f_equal; lia).
Qed.
