(* C16 - whole-history corollaries of the one-step theorems in MonitoredListProofs.v:
   the contents after ANY operation sequence are those of a built-in list driven by the same
   sequence (failed calls skipped), the i-th reported error is the built-in list's i-th error,
   and over a whole history 'modified' fires at most once per call. *)
From Coq Require Import ZArith List Bool Lia.
Import ListNotations.
From Urwid Require Import PyBase PyList monitored_list_gen MonitoredList PyListFacts MonitoredListProofs.
Open Scope Z_scope.

(* a plain Python list driven by the same calls; a failed call leaves it unchanged *)
Definition list_next (l : list Z) (o : op) : list Z :=
  match list_step l o with Ok l' => l' | Err _ => l end.
Definition list_run (l : list Z) (ops : list op) : list Z := fold_left list_next ops l.

Definition list_err (l : list Z) (o : op) : option errkind :=
  match list_step l o with Ok _ => None | Err e => Some e end.
Fixpoint list_errs (l : list Z) (ops : list op) : list (option errkind) :=
  match ops with
  | [] => []
  | o :: ops' => list_err l o :: list_errs (list_next l o) ops'
  end.

Lemma step_items s o : Valid s -> items (fst (step s o)) = list_next (items s) o.
Proof.
  intros Hv. destruct (step_sound s o Hv) as [_ Hk]. unfold outcome_ok, list_next in *.
  destruct (list_step (items s) o) as [l'|e].
  - destruct Hk as [Hk _]. exact Hk.
  - destruct Hk as [Hk _]. rewrite Hk. reflexivity.
Qed.

Lemma step_err s o : Valid s -> o_err (snd (step s o)) = list_err (items s) o.
Proof.
  intros Hv. destruct (step_sound s o Hv) as [_ Hk]. unfold outcome_ok, list_err in *.
  destruct (list_step (items s) o) as [l'|e].
  - destruct Hk as [_ Hk]. exact Hk.
  - destruct Hk as [_ [Hk _]]. exact Hk.
Qed.

Theorem run_items ops : forall s, Valid s -> items (fst (run s ops)) = list_run (items s) ops.
Proof.
  induction ops as [|o ops IH]; intros s Hv; [reflexivity|].
  rewrite run_cons. pose proof (step_sound s o Hv) as [Hv1 _]. pose proof (step_items s o Hv) as Hi.
  destruct (step s o) as [s1 ou]. cbn [fst] in Hv1, Hi. specialize (IH s1 Hv1).
  destruct (run s1 ops) as [s2 o2]. cbn [fst] in *. unfold list_run in *. cbn [fold_left].
  rewrite <- Hi. exact IH.
Qed.

Theorem run_errs ops : forall s, Valid s ->
  map (fun r => o_err (fst r)) (snd (run s ops)) = list_errs (items s) ops.
Proof.
  induction ops as [|o ops IH]; intros s Hv; [reflexivity|].
  rewrite run_cons. pose proof (step_sound s o Hv) as [Hv1 _]. pose proof (step_items s o Hv) as Hi.
  pose proof (step_err s o Hv) as He.
  destruct (step s o) as [s1 ou]. cbn [fst snd] in Hv1, Hi, He. specialize (IH s1 Hv1).
  destruct (run s1 ops) as [s2 o2]. cbn [fst snd map list_errs] in *.
  rewrite He, <- Hi, IH. reflexivity.
Qed.

(* number of outputs = number of calls; 'modified' fires at most once per call, never for a failed one *)
Theorem run_modified_bound ops : forall s, Valid s ->
  length (snd (run s ops)) = length ops /\
  Forall (fun r => (n_modified (o_events (fst r)) <= 1)%nat /\
                   (o_err (fst r) <> None -> o_events (fst r) = [])) (snd (run s ops)).
Proof.
  induction ops as [|o ops IH]; intros s Hv; [split; [reflexivity|constructor]|].
  rewrite run_cons. pose proof (step_sound s o Hv) as [Hv1 _].
  pose proof (step_callbacks s o Hv) as Hc. cbv zeta in Hc. destruct Hc as [Hc1 [Hc2 _]].
  destruct (step s o) as [s1 ou]. cbn [fst snd] in Hv1, Hc1, Hc2. specialize (IH s1 Hv1).
  destruct (run s1 ops) as [s2 o2]. cbn [fst snd length] in *. destruct IH as [IHl IHf].
  split; [rewrite IHl; reflexivity|]. constructor; [|exact IHf]. cbn [fst]. split; assumption.
Qed.
