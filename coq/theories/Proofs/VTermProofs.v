(* C15 - the safety invariant of the terminal emulator model (Model/VTerm.v) and its preservation by
   every operation: one lemma per grid operation, then the parser, then the session operations. *)
From Coq Require Import ZArith List Bool Lia ZifyBool.
Import ListNotations.
From Urwid Require Import PyBase PyList vterm_csi_gen VTerm VTermListFacts.
Open Scope Z_scope.

Arguments Z.mul : simpl never.
Arguments Z.add : simpl never.
Arguments Z.sub : simpl never.
Arguments Z.div : simpl never.
Arguments Z.modulo : simpl never.
Arguments Z.ltb : simpl never.
Arguments Z.leb : simpl never.
Arguments Z.eqb : simpl never.
Arguments Z.min : simpl never.
Arguments Z.max : simpl never.
Arguments Z.shiftl : simpl never.
Arguments Z.land : simpl never.
Arguments Z.lor : simpl never.
Arguments Z.lnot : simpl never.
Arguments Z.log2 : simpl never.
Arguments Z.to_nat : simpl never.
Arguments Z.of_nat : simpl never.

(* ---------- the invariant ---------- *)
Definition attr_ok (a : attr) : Prop :=
  colors_ok (a_colors a) = true /\ color_ok (a_fg a) (a_colors a) = true /\ color_ok (a_bg a) (a_colors a) = true.
Definition oattr_ok (o : option attr) : Prop := match o with None => True | Some a => attr_ok a end.

Definition cpr_like (r : list Z) : Prop := exists y x, 1 <= y /\ 1 <= x /\ r = reply_cpr y x.
Definition wf_event (e : event) : Prop :=
  match e with Respond r => r = reply_da \/ r = reply_ok \/ cpr_like r | _ => True end.

Record Inv (s : st) : Prop := mkInv {
  i_w : 1 <= width s;
  i_h : 1 <= height s;
  i_rows : zlen (term s) = height s;
  i_cols : Forall (fun r : row => zlen r = width s) (term s);
  i_cx : 0 <= fst (cur s) < width s;
  i_cy : 0 <= snd (cur s) < height s;
  i_reg : 0 <= sr_start s /\ sr_start s <= sr_end s /\ sr_end s < height s;
  i_cursor : match cursor s with None => True | Some (x, y) => 0 <= x < width s /\ 0 <= y < height s end;
  i_sup : 0 <= sup s <= zlen (sb s);
  i_tabs : width s <= 8 * zlen (tabstops s);
  i_attr : oattr_ok (attrspec s);
  i_sattr : match saved_attrs s with Some (a, _) => oattr_ok a | None => True end;
  i_ev : Forall wf_event (events s);
  (* origin mode keeps the cursor between the margins (set_term_cursor constrains it there) *)
  i_org : m_constrain (modes s) = true -> sr_start s <= snd (cur s) <= sr_end s }.

(* the scrollback only ever grows at its end (and loses its oldest lines at the deque's maxlen) *)
Definition sb_push (b : list row) (r : row) : list row :=
  let l := b ++ [r] in if scrollback_maxlen_gen <? zlen l then dropz 1 l else l.
Inductive SbExt : list row -> list row -> Prop :=
  | SbRefl a : SbExt a a
  | SbStep a b r : SbExt a b -> SbExt a (sb_push b r).

Lemma SbExt_trans a b c : SbExt a b -> SbExt b c -> SbExt a c.
Proof. intros H1 H2. induction H2; [assumption|]. constructor. auto. Qed.

Lemma sb_push_len b r : zlen b <= zlen (sb_push b r).
Proof.
  unfold sb_push. cbv zeta. destruct (scrollback_maxlen_gen <? zlen (b ++ [r])).
  - pose proof (zlen_dropz 1 (b ++ [r])) as E.
    assert (zlen (b ++ [r]) = zlen b + 1) as E2 by (unfold zlen; rewrite app_length; cbn [length]; lia).
    pose proof (zlen_nonneg b). lia.
  - assert (zlen (b ++ [r]) = zlen b + 1) as E2 by (unfold zlen; rewrite app_length; cbn [length]; lia). lia.
Qed.

Lemma SbExt_len a b : SbExt a b -> zlen a <= zlen b.
Proof. intros H. induction H; [lia|]. pose proof (sb_push_len b r). lia. Qed.

(* what every operation other than resize keeps *)
Definition K (s s' : st) : Prop :=
  Inv s' /\ width s' = width s /\ height s' = height s /\ SbExt (sb s) (sb s').
Definition Keeps (s : st) (r : result st) : Prop := match r with Ok s' => K s s' | Err _ => False end.

Ltac k_split := split; [|split; [|split]].

Lemma K_refl s : Inv s -> K s s.
Proof. intros. k_split; auto. constructor. Qed.

Lemma K_trans a b c : K a b -> K b c -> K a c.
Proof.
  intros (I1 & W1 & H1 & S1) (I2 & W2 & H2 & S2). k_split; try congruence; auto.
  eapply SbExt_trans; eauto.
Qed.

Lemma Keeps_ok s s' : K s s' -> Keeps s (Ok s').
Proof. auto. Qed.

Lemma Keeps_bind s r (f : st -> result st) :
  Keeps s r -> (forall s1, K s s1 -> Keeps s1 (f s1)) -> Keeps s (bind r f).
Proof.
  destruct r as [s1|e]; cbn; [|tauto]. intros H Hf. specialize (Hf s1 H).
  destruct (f s1); cbn in *; [|tauto]. eapply K_trans; eauto.
Qed.

Lemma Keeps_trans s s1 r : K s s1 -> Keeps s1 r -> Keeps s r.
Proof. intros H. destruct r; cbn; [|tauto]. intros. eapply K_trans; eauto. Qed.

(* states that differ only in fields the invariant does not read *)
Lemma Inv_ext s s' :
  width s' = width s -> height s' = height s -> term s' = term s -> cur s' = cur s -> cursor s' = cursor s ->
  sup s' = sup s -> sr_start s' = sr_start s -> sr_end s' = sr_end s -> tabstops s' = tabstops s ->
  attrspec s' = attrspec s -> saved_attrs s' = saved_attrs s -> events s' = events s -> sb s' = sb s ->
  m_constrain (modes s') = m_constrain (modes s) ->
  Inv s -> Inv s'.
Proof.
  intros E1 E2 E3 E4 E5 E6 E7 E8 E9 E10 E11 E12 E13 E14 [].
  constructor; rewrite ?E1, ?E2, ?E3, ?E4, ?E5, ?E6, ?E7, ?E8, ?E9, ?E10, ?E11, ?E12, ?E13, ?E14; assumption.
Qed.

Lemma K_ext s s' :
  width s' = width s -> height s' = height s -> term s' = term s -> cur s' = cur s -> cursor s' = cursor s ->
  sup s' = sup s -> sr_start s' = sr_start s -> sr_end s' = sr_end s -> tabstops s' = tabstops s ->
  attrspec s' = attrspec s -> saved_attrs s' = saved_attrs s -> events s' = events s -> sb s' = sb s ->
  m_constrain (modes s') = m_constrain (modes s) ->
  Inv s -> K s s'.
Proof.
  intros. k_split; auto. - eapply Inv_ext; eauto. - replace (sb s') with (sb s). constructor.
Qed.
Ltac k_ext := apply K_ext; try reflexivity; try assumption.

Ltac split_ifs :=
  repeat match goal with
         | |- context[if ?c then _ else _] => destruct c eqn:?
         end.

(* ---------- cursor ---------- *)
Lemma constrain_range s x y ign :
  1 <= width s -> 1 <= height s -> 0 <= sr_start s /\ sr_start s <= sr_end s /\ sr_end s < height s ->
  0 <= fst (constrain s x y ign) < width s /\ 0 <= snd (constrain s x y ign) < height s /\
  (ign = 0 -> m_constrain (modes s) = true -> sr_start s <= snd (constrain s x y ign) <= sr_end s).
Proof.
  intros Hw Hh Hr. unfold constrain, constrain_coords_gen. cbv zeta.
  split_ifs; cbn [fst snd]; repeat split; try lia; intros -> Hm; rewrite Hm in *; cbn in *; try discriminate; lia.
Qed.

Lemma set_term_cursor_K s x y : Inv s -> K s (set_term_cursor s x y).
Proof.
  intros I. unfold set_term_cursor.
  pose proof (constrain_range s x y 0 (i_w s I) (i_h s I) (i_reg s I)) as Hc.
  destruct (constrain s x y 0) as [x' y'] eqn:E. cbn [fst snd] in Hc.
  assert (Inv (with_cur s (x', y'))) as I1.
  { destruct I. constructor; cbn; auto; lia. }
  destruct (has_focus (with_cur s (x', y')) && m_visible (modes (with_cur s (x', y'))) &&
            (sup (with_cur s (x', y')) <? height (with_cur s (x', y')) - y')) eqn:C.
  - k_split; try reflexivity; [|constructor].
    destruct I1. constructor; cbn in *; auto. lia.
  - k_split; try reflexivity; [|constructor].
    destruct I1. constructor; cbn in *; auto.
Qed.

(* the part of the invariant that resize re-establishes before it repositions the cursor and extends the tab stops *)
Record Core (s : st) : Prop := mkCore {
  c_w : 1 <= width s;
  c_h : 1 <= height s;
  c_rows : zlen (term s) = height s;
  c_cols : Forall (fun r : row => zlen r = width s) (term s);
  c_reg : 0 <= sr_start s /\ sr_start s <= sr_end s /\ sr_end s < height s;
  c_sup : 0 <= sup s <= zlen (sb s);
  c_attr : oattr_ok (attrspec s);
  c_sattr : match saved_attrs s with Some (a, _) => oattr_ok a | None => True end;
  c_ev : Forall wf_event (events s) }.

Lemma set_term_cursor_wh s x y :
  (width (set_term_cursor s x y), height (set_term_cursor s x y)) = (width s, height s).
Proof.
  unfold set_term_cursor. destruct (constrain s x y 0).
  match goal with |- context [if ?b then _ else _] => destruct b end; reflexivity.
Qed.

Lemma set_term_cursor_core s x y : Core s -> width s <= 8 * zlen (tabstops s) -> Inv (set_term_cursor s x y).
Proof.
  intros C T. unfold set_term_cursor.
  pose proof (constrain_range s x y 0 (c_w s C) (c_h s C) (c_reg s C)) as Hc.
  destruct (constrain s x y 0) as [x1 y1]. cbn [fst snd] in *.
  match goal with |- context [if ?b then _ else _] => destruct b eqn:Cb end;
    destruct C; constructor; cbn in *; auto; try lia.
Qed.

Lemma set_term_cursor_sb s x y : sb (set_term_cursor s x y) = sb s.
Proof.
  unfold set_term_cursor. destruct (constrain s x y 0).
  match goal with |- context [if ?b then _ else _] => destruct b end; reflexivity.
Qed.

(* the cursor is repositioned right after the margins / the origin mode changed *)
Lemma stc_from_core s s1 x y :
  Core s1 -> width s1 <= 8 * zlen (tabstops s1) -> width s1 = width s -> height s1 = height s -> sb s1 = sb s ->
  K s (set_term_cursor s1 x y).
Proof.
  intros C T W H S. pose proof (set_term_cursor_wh s1 x y) as Q. injection Q as Qw Qh.
  k_split; [apply set_term_cursor_core; assumption|congruence|congruence|].
  rewrite set_term_cursor_sb, S. constructor.
Qed.

Lemma set_term_cursor_here_K s : Inv s -> K s (set_term_cursor_here s).
Proof. intros. apply set_term_cursor_K. assumption. Qed.

Ltac una := unfold row, cell in *.
Ltac ulia := una; lia.

(* ---------- the grid ---------- *)
Definition Dims (w h : Z) (t : list row) : Prop := zlen t = h /\ Forall (fun r : row => zlen r = w) t.

Lemma Inv_dims s : Inv s -> Dims (width s) (height s) (term s).
Proof. intros []. split; assumption. Qed.

Lemma term_sb_K s t b :
  Inv s -> Dims (width s) (height s) t -> SbExt (sb s) b -> K s (with_term (with_sb s b) t).
Proof.
  intros I [D1 D2] S. k_split; try reflexivity; [|exact S]. pose proof (SbExt_len _ _ S).
  destruct I. constructor; cbn; auto. ulia.
Qed.

Lemma with_sb_K s b : Inv s -> SbExt (sb s) b -> K s (with_sb s b).
Proof.
  intros I S. k_split; try reflexivity; [|exact S]. pose proof (SbExt_len _ _ S).
  destruct I. constructor; cbn; auto. lia.
Qed.

Lemma with_term_K s t : Inv s -> Dims (width s) (height s) t -> K s (with_term s t).
Proof.
  intros I [D1 D2]. k_split; try reflexivity; [|constructor].
  destruct I. constructor; cbn; auto.
Qed.

Lemma zlen_repeatz {A} (x : A) n : 0 <= n -> zlen (repeatz x n) = n.
Proof. intros. unfold repeatz. rewrite zlen_repeat. ulia. Qed.

Lemma zlen_empty_line s ch : 0 <= width s -> zlen (empty_line s ch) = width s.
Proof. intros. unfold empty_line. now apply zlen_repeatz. Qed.

Lemma iter_res_inv {A} (P : A -> Prop) n (f : A -> result A) a :
  P a -> (forall x, P x -> exists y, f x = Ok y /\ P y) -> exists b, iter_res n f a = Ok b /\ P b.
Proof.
  intros Ha Hf. revert a Ha. induction n; intros a Ha; cbn.
  - eauto.
  - destruct (Hf a Ha) as (y & Hy & Py). rewrite Hy. cbn. apply IHn. assumption.
Qed.

Lemma Keeps_of_term s r :
  Inv s -> (exists t, r = Ok t /\ Dims (width s) (height s) t) ->
  Keeps s (bind r (fun t => Ok (with_term s t))).
Proof. intros I (t & -> & D). cbn. apply with_term_K; assumption. Qed.

(* scroll *)
Lemma scroll_Keeps s rv : Inv s -> Keeps s (scroll s rv).
Proof.
  intros I. pose proof (Inv_dims s I) as [D1 D2]. pose proof (i_reg s I) as R. pose proof (i_w s I).
  unfold scroll. destruct rv.
  - destruct (pop_ok (term s) (sr_end s)) as (x & l' & E & L & _ & _ & F); [ulia|]. una; rewrite E. cbn.
    apply with_term_K; [assumption|]. split.
    + rewrite zlen_insert. ulia.
    + apply Forall_insert; [apply F; assumption|]. apply zlen_empty_line. ulia.
  - destruct (pop_ok (term s) (sr_start s)) as (x & l' & E & L & _ & _ & F); [ulia|]. una; rewrite E. cbn.
    assert (K s (sb_append s x)) as K1.
    { unfold sb_append. cbv zeta. apply with_sb_K; [assumption|]. apply (SbStep _ _ x). constructor. }
    eapply K_trans; [exact K1|]. destruct K1 as (I1 & W1 & H1 & _).
    apply with_term_K; [assumption|]. split.
    + rewrite zlen_insert. rewrite H1. ulia.
    + apply Forall_insert; [rewrite W1; apply F; assumption|]. apply zlen_empty_line. ulia.
Qed.

(* set_char *)
Lemma set_char_Keeps s ch x y : Inv s -> Keeps s (set_char s ch x y).
Proof.
  intros I. pose proof (Inv_dims s I) as [D1 D2].
  pose proof (constrain_range s x y 0 (i_w s I) (i_h s I) (i_reg s I)) as Hc.
  unfold set_char. destruct (constrain s x y 0) as [x' y']. cbn [fst snd] in Hc.
  destruct (get_index_ok (term s) y') as (r & E & Hin); [ulia|]. una; rewrite E. cbn [bind].
  assert (zlen r = width s) as Hr by (rewrite Forall_forall in D2; auto).
  destruct (set_index_ok r x' (attrspec s, cs_current (cset s), ch)) as (r' & E' & L' & _); [ulia|]. una; rewrite E'. cbn [bind].
  destruct (set_index_ok (term s) y' r') as (t & Et & Lt & Ft); [ulia|]. una; rewrite Et. cbn [bind].
  apply with_term_K; [assumption|]. split; [ulia|]. apply Ft; [assumption|ulia].
Qed.

(* insert_chars / remove_chars *)
Lemma insert_chars_Keeps s pos n ch : Inv s -> 0 <= snd pos < height s -> Keeps s (insert_chars s pos n ch).
Proof.
  intros I Hy. pose proof (Inv_dims s I) as D. pose proof (i_w s I).
  unfold insert_chars. destruct pos as [x y]. cbn [snd] in Hy.
  apply Keeps_of_term; [assumption|].
  apply iter_res_inv; [assumption|]. intros t [T1 T2]. cbv beta. unfold row, cell in *.
  destruct (get_index_ok t y) as (r & E & Hin); [ulia|]. una; rewrite E. cbn [bind].
  assert (zlen r = width s) as Hr by (rewrite Forall_forall in T2; auto).
  match goal with |- context [insert r x ?c] => set (spec := c) end.
  destruct (pop_last_ok (insert r x spec)) as (z & r' & E' & L' & _); [rewrite zlen_insert; ulia|]. una; rewrite E'. cbn [bind snd].
  destruct (set_index_ok t y r') as (t' & Et & Lt & Ft); [ulia|]. una; rewrite Et.
  eexists. split; [reflexivity|]. split; [ulia|]. apply Ft; [assumption|]. rewrite zlen_insert in L'. ulia.
Qed.

Lemma remove_chars_Keeps s pos n :
  Inv s -> 0 <= fst pos < width s -> 0 <= snd pos < height s -> Keeps s (remove_chars s pos n).
Proof.
  intros I Hx Hy. pose proof (Inv_dims s I) as D.
  unfold remove_chars. destruct pos as [x y]. cbn [fst snd] in Hx, Hy.
  apply Keeps_of_term; [assumption|].
  apply iter_res_inv; [assumption|]. intros t [T1 T2]. cbv beta. unfold row, cell in *.
  destruct (get_index_ok t y) as (r & E & Hin); [ulia|]. una; rewrite E. cbn [bind].
  assert (zlen r = width s) as Hr by (rewrite Forall_forall in T2; auto).
  destruct (pop_ok r x) as (z & r' & E' & L' & _); [ulia|]. una; rewrite E'. cbn [bind snd].
  destruct (set_index_ok t y (r' ++ [empty_char s [32]])) as (t' & Et & Lt & Ft); [ulia|]. una; rewrite Et.
  eexists. split; [reflexivity|]. split; [ulia|]. apply Ft; [assumption|]. rewrite zlen_app, zlen_cons, zlen_nil. ulia.
Qed.

(* insert_lines / remove_lines *)
Lemma insert_lines_Keeps s n : Inv s -> Keeps s (insert_lines s n).
Proof.
  intros I. pose proof (Inv_dims s I) as D. pose proof (i_w s I). pose proof (i_reg s I). pose proof (i_cy s I).
  unfold insert_lines. cbv zeta.
  destruct (negb ((sr_start s <=? snd (cur s)) && (snd (cur s) <=? sr_end s))); [apply K_refl; assumption|].
  apply Keeps_of_term; [assumption|].
  apply iter_res_inv; [assumption|]. intros t [T1 T2]. cbv beta. unfold row, cell in *.
  destruct (pop_ok t (sr_end s)) as (z & t' & E & L & _ & _ & F); [ulia|]. una; rewrite E. cbn [bind snd].
  eexists. split; [reflexivity|]. split; [rewrite zlen_insert; ulia|].
  apply Forall_insert; [apply F; assumption|]. apply zlen_empty_line. ulia.
Qed.

Lemma remove_lines_Keeps s n : Inv s -> Keeps s (remove_lines s n).
Proof.
  intros I. pose proof (Inv_dims s I) as D. pose proof (i_w s I). pose proof (i_reg s I). pose proof (i_cy s I).
  unfold remove_lines. cbv zeta.
  destruct (negb ((sr_start s <=? snd (cur s)) && (snd (cur s) <=? sr_end s))); [apply K_refl; assumption|].
  apply Keeps_of_term; [assumption|].
  apply iter_res_inv; [assumption|]. intros t [T1 T2]. cbv beta. unfold row, cell in *.
  destruct (pop_ok t (snd (cur s))) as (z & t' & E & L & _ & _ & F); [ulia|]. una; rewrite E. cbn [bind snd].
  eexists. split; [reflexivity|]. split; [rewrite zlen_insert; ulia|].
  apply Forall_insert; [apply F; assumption|]. apply zlen_empty_line. ulia.
Qed.

(* erase *)
Lemma set_range_n_ok n : forall (r : row) x v, 0 <= x -> x + Z.of_nat n <= zlen r ->
  exists r', set_range_n n r x v = Ok r' /\ zlen r' = zlen r.
Proof.
  induction n; intros r x v Hx Hl; cbn [set_range_n].
  - eauto.
  - destruct (set_index_ok r x v) as (r1 & E & L & _); [ulia|]. una; rewrite E. cbn [bind].
    destruct (IHn r1 (x + 1) v) as (r2 & E2 & L2); [ulia|ulia|]. una; rewrite E2. exists r2. split; [reflexivity|ulia].
Qed.

Lemma set_cells_Keeps s y a b : Inv s -> 0 <= y < height s -> 0 <= a -> b <= width s -> Keeps s (set_cells s y a b).
Proof.
  intros I Hy Ha Hb. pose proof (Inv_dims s I) as [D1 D2].
  unfold set_cells. destruct (b <=? a) eqn:C; [apply K_refl; assumption|].
  destruct (get_index_ok (term s) y) as (r & E & Hin); [ulia|]. una; rewrite E. cbn [bind].
  assert (zlen r = width s) as Hr by (rewrite Forall_forall in D2; auto).
  unfold set_range.
  destruct (set_range_n_ok (Z.to_nat (b - a)) r a (empty_char s [32])) as (r' & E' & L'); [ulia|ulia|]. una; rewrite E'. cbn [bind].
  destruct (set_index_ok (term s) y r') as (t & Et & Lt & Ft); [ulia|]. una; rewrite Et. cbn [bind].
  apply with_term_K; [assumption|]. split; [ulia|]. apply Ft; [assumption|ulia].
Qed.

Lemma blank_line_Keeps s y : Inv s -> 0 <= y < height s -> Keeps s (blank_line s y).
Proof.
  intros I Hy. pose proof (Inv_dims s I) as [D1 D2]. pose proof (i_w s I).
  unfold blank_line.
  destruct (set_index_ok (term s) y (empty_line s [32])) as (t & Et & Lt & Ft); [ulia|]. una; rewrite Et. cbn [bind].
  apply with_term_K; [assumption|]. split; [ulia|]. apply Ft; [assumption|]. apply zlen_empty_line. ulia.
Qed.

Lemma erase_rows_Keeps n : forall s y sx sy ex ey,
  Inv s -> 0 <= y -> y + Z.of_nat n <= height s -> 0 <= sx -> 0 <= ex < width s ->
  Keeps s (erase_rows n s y sx sy ex ey).
Proof.
  induction n; intros s y sx sy ex ey I Hy Hn Hsx Hex; cbn [erase_rows].
  - apply K_refl. assumption.
  - apply Keeps_bind.
    + destruct (y =? sy); [|destruct (y =? ey)].
      * apply set_cells_Keeps; auto; ulia.
      * apply set_cells_Keeps; auto; ulia.
      * apply blank_line_Keeps; auto; ulia.
    + intros s1 (I1 & W1 & H1 & _). apply IHn; auto; try ulia.
Qed.

Lemma erase_Keeps s p q : Inv s -> Keeps s (erase s p q).
Proof.
  intros I. unfold erase.
  pose proof (constrain_range s (fst p) (snd p) 1 (i_w s I) (i_h s I) (i_reg s I)) as Hp.
  pose proof (constrain_range s (fst q) (snd q) 1 (i_w s I) (i_h s I) (i_reg s I)) as Hq.
  destruct (constrain s (fst p) (snd p) 1) as [sx sy]. destruct (constrain s (fst q) (snd q) 1) as [ex ey].
  cbn [fst snd] in *. destruct (sy =? ey) eqn:C.
  - apply set_cells_Keeps; auto; ulia.
  - destruct (Z_le_gt_dec sy ey).
    + apply erase_rows_Keeps; auto; try ulia.
    + replace (Z.to_nat (ey - sy + 1)) with 0%nat by ulia. cbn. apply K_refl. assumption.
Qed.

(* decaln, clear *)
Lemma decaln_n_Keeps n : forall s y, Inv s -> 0 <= y -> y + Z.of_nat n <= height s -> Keeps s (decaln_n n s y).
Proof.
  induction n; intros s y I Hy Hn; cbn [decaln_n].
  - apply K_refl. assumption.
  - pose proof (Inv_dims s I) as [D1 D2]. pose proof (i_w s I).
    destruct (set_index_ok (term s) y (empty_line s [69])) as (t & Et & Lt & Ft); [ulia|]. una; rewrite Et. cbn [bind].
    assert (K s (with_term s t)) as Kt.
    { apply with_term_K; [assumption|]. split; [ulia|]. apply Ft; [assumption|]. apply zlen_empty_line. ulia. }
    eapply Keeps_trans; [exact Kt|]. destruct Kt as (I1 & W1 & H1 & _). apply IHn; auto; ulia.
Qed.

Lemma decaln_Keeps s : Inv s -> Keeps s (decaln s).
Proof. intros I. unfold decaln. pose proof (i_h s I). apply decaln_n_Keeps; auto; ulia. Qed.

Lemma clear_K s c : Inv s -> K s (clear s c).
Proof.
  intros I. unfold clear. pose proof (i_w s I). pose proof (i_h s I).
  assert (K s (with_term s (repeatz (empty_line s [32]) (height s)))) as Kt.
  { apply with_term_K; [assumption|]. split.
    - apply zlen_repeatz. ulia.
    - apply Forall_repeat. apply zlen_empty_line. ulia. }
  eapply K_trans; [exact Kt|]. destruct Kt as (I1 & _).
  destruct c as [[x y]|]; apply set_term_cursor_K; assumption.
Qed.

(* ---------- simple field updates ---------- *)
Lemma with_modes_K s m : Inv s -> (m_constrain m = true -> m_constrain (modes s) = true) -> K s (with_modes s m).
Proof.
  intros I Hm. k_split; try reflexivity; [|constructor]. destruct I. constructor; cbn; auto.
Qed.
Ltac modes_same := cbn; intros; (assumption || discriminate).
Lemma with_cset_K s c : Inv s -> K s (with_cset s c).
Proof. intros. k_ext. Qed.
Lemma with_rotten_K s b : Inv s -> K s (with_rotten s b).
Proof. intros. k_ext. Qed.
Lemma with_inesc_K s b : Inv s -> K s (with_inesc s b).
Proof. intros. k_ext. Qed.
Lemma with_pstate_K s b : Inv s -> K s (with_pstate s b).
Proof. intros. k_ext. Qed.
Lemma with_escbuf_K s b : Inv s -> K s (with_escbuf s b).
Proof. intros. k_ext. Qed.
Lemma with_u8eat_K s b : Inv s -> K s (with_u8eat s b).
Proof. intros. k_ext. Qed.
Lemma with_u8buf_K s b : Inv s -> K s (with_u8buf s b).
Proof. intros. k_ext. Qed.
Lemma with_saved_cur_K s b : Inv s -> K s (with_saved_cur s b).
Proof. intros. k_ext. Qed.
Lemma leave_escape_K s : Inv s -> K s (leave_escape s).
Proof. intros. unfold leave_escape. k_ext. Qed.

Lemma set_term_cursor_unrotten_K s x y : Inv s -> K s (set_term_cursor (with_rotten s false) x y).
Proof. intros I. eapply K_trans; [apply with_rotten_K; eassumption|]. apply set_term_cursor_K. apply with_rotten_K. assumption. Qed.

Lemma with_attrspec_K s a : Inv s -> oattr_ok a -> K s (with_attrspec s a).
Proof.
  intros I A. k_split; try reflexivity; [|constructor]. destruct I. constructor; cbn; auto.
Qed.

Lemma with_events_K s e : Inv s -> wf_event e -> K s (with_events s (e :: events s)).
Proof.
  intros I A. k_split; try reflexivity; [|constructor]. destruct I. constructor; cbn; auto.
Qed.

Lemma respond_K s r : Inv s -> wf_event (Respond r) -> K s (respond s r).
Proof. intros. unfold respond. apply with_events_K; assumption. Qed.

Lemma save_cursor_K s b : Inv s -> K s (save_cursor s b).
Proof.
  intros I. unfold save_cursor. destruct b; [|k_ext].
  k_split; try reflexivity; [|constructor]. destruct I. constructor; cbn; auto.
Qed.

Lemma restore_cursor_K s b : Inv s -> K s (restore_cursor s b).
Proof.
  intros I. unfold restore_cursor. destruct (saved_cur s) as [[x y]|] eqn:E; [|apply K_refl; assumption].
  pose proof (set_term_cursor_unrotten_K s x y I) as K1.
  destruct b; [|exact K1].
  destruct (saved_attrs (set_term_cursor (with_rotten s false) x y)) as [[a [[sg ac] cu]]|] eqn:E2; [|exact K1].
  eapply K_trans; [exact K1|]. destruct K1 as (I1 & _).
  pose proof (i_sattr _ I1) as A. rewrite E2 in A.
  eapply K_trans; [apply with_attrspec_K; eassumption|].
  apply with_cset_K. apply with_attrspec_K; assumption.
Qed.

(* ---------- tab stops ---------- *)
Lemma tablen_bound w : 0 <= w -> w <= 8 * (if 0 <? w mod 8 then w / 8 + 1 else w / 8).
Proof.
  intros. pose proof (Z.div_mod w 8 ltac:(lia)). pose proof (Z.mod_pos_bound w 8 ltac:(lia)).
  destruct (0 <? w mod 8) eqn:E; lia.
Qed.

Lemma init_tabstops_K s e : Inv s -> K s (init_tabstops s e).
Proof.
  intros I. unfold init_tabstops. cbv zeta. pose proof (i_w s I).
  pose proof (tablen_bound (width s) ltac:(lia)) as B.
  set (tl := if 0 <? width s mod 8 then width s / 8 + 1 else width s / 8) in *.
  k_split; try (destruct e; reflexivity); [|destruct e; constructor].
  destruct e; destruct I; constructor; cbn; auto.
  - rewrite zlen_app. unfold repeatz. rewrite zlen_repeat. pose proof (zlen_nonneg (tabstops s)). lia.
  - unfold repeatz. rewrite zlen_repeat. lia.
Qed.

Lemma tab_index s x : Inv s -> 0 <= x < width s -> 0 <= x / 8 < zlen (tabstops s).
Proof.
  intros I Hx. pose proof (i_tabs s I). split.
  - apply Z.div_pos; lia.
  - apply Z.div_lt_upper_bound; lia.
Qed.

Lemma set_tabstop_Keeps s x rm cl : Inv s -> 0 <= x < width s -> Keeps s (set_tabstop s x rm cl).
Proof.
  intros I Hx. unfold set_tabstop. destruct cl.
  - cbn. k_split; try reflexivity; [|constructor]. destruct I. constructor; cbn; auto. rewrite zlen_map. assumption.
  - cbv zeta. pose proof (tab_index s x I Hx) as Hi.
    destruct (get_index_ok (tabstops s) (x / 8) Hi) as (t & E & _). rewrite E. cbn [bind].
    match goal with |- context [set_index _ _ ?v] => set (nv := v) end.
    destruct (set_index_ok (tabstops s) (x / 8) nv Hi) as (l & El & Ll & _). rewrite El. cbn [bind Keeps].
    k_split; try reflexivity; [|constructor]. destruct I. constructor; cbn; auto. lia.
Qed.

Lemma is_tabstop_ok s x : Inv s -> 0 <= x < width s -> exists b, is_tabstop s x = Ok b.
Proof.
  intros I Hx. unfold is_tabstop. pose proof (tab_index s x I Hx) as Hi.
  destruct (get_index_ok (tabstops s) (x / 8) Hi) as (t & E & _). rewrite E. cbn. eauto.
Qed.

Lemma tab_loop_ok fuel : forall s x, Inv s -> 0 <= x <= width s - 1 -> width s - 1 - x < Z.of_nat fuel ->
  exists s' x', tab_loop fuel s x = Ok (s', x') /\ K s s'.
Proof.
  induction fuel; intros s x I Hx Hf.
  - pose proof (i_w s I). cbn [tab_loop]. exfalso. lia.
  - cbn [tab_loop]. destruct (x <? width s - 1) eqn:C.
    + destruct (is_tabstop_ok s (x + 1) I) as (b & Eb); [lia|]. rewrite Eb. cbn [bind].
      destruct b.
      * eexists _, _. split; [reflexivity|]. apply K_refl. assumption.
      * apply IHfuel; [assumption|lia|lia].
    + eexists _, _. split; [reflexivity|]. apply K_refl. assumption.
Qed.

Lemma tab_Keeps s : Inv s -> Keeps s (tab s).
Proof.
  intros I. unfold tab. destruct (cur s) as [x y] eqn:E.
  pose proof (i_cx s I) as Hx. rewrite E in Hx. cbn [fst] in Hx.
  destruct (tab_loop_ok (S (Z.to_nat (width s))) s x I) as (s' & x' & E' & K'); [lia|lia|].
  rewrite E'. cbn [bind fst snd Keeps]. eapply K_trans; [exact K'|].
  destruct K' as (I' & _). eapply K_trans; [apply with_rotten_K; exact I'|].
  apply set_term_cursor_K. apply with_rotten_K. assumption.
Qed.

(* ---------- SGR: the colour numbers always fit the colour depth, so AttrSpec() never raises ---------- *)
Lemma colors_ok_iff c : colors_ok c = true <-> (c = 1 \/ c = 16 \/ c = 256 \/ c = 16777216).
Proof. unfold colors_ok. lia. Qed.

Lemma color_ok_some v c : color_ok (Some v) c = true <->
  0 <= v /\ ((c = 16777216 /\ v < 16777216) \/ (c = 256 /\ v < 256) \/ (c = 16 /\ v < 16)).
Proof. unfold color_ok. destruct (c =? 16777216) eqn:?, (c =? 256) eqn:?, (c =? 16) eqn:?; lia. Qed.

Ltac cok :=
  repeat match goal with
         | H : colors_ok _ = true |- _ => apply colors_ok_iff in H
         | H : color_ok (Some _) _ = true |- _ => apply color_ok_some in H
         | H : color_ok None _ = true |- _ => clear H
         | |- colors_ok _ = true => apply colors_ok_iff
         | |- color_ok (Some _) _ = true => apply color_ok_some
         | |- color_ok None _ = true => reflexivity
         end.

Definition idx_ok (c : oz) (is_index : bool) : Prop :=
  is_index = true -> match c with Some n => n < 256 | None => True end.
Definition G_ok (g : sgi_t) : Prop :=
  colors_ok (g_colors g) = true /\ color_ok (g_fg g) (g_colors g) = true /\ color_ok (g_bg g) (g_colors g) = true /\
  idx_ok (g_fg g) (g_fgi g) /\ idx_ok (g_bg g) (g_bgi g).

Lemma sgi_step1_ok a g : G_ok g -> G_ok (sgi_step1 a g).
Proof.
  destruct g as [fg bg colors bold ul blink so cs dc fi bi]. unfold G_ok, sgi_step1, idx_ok. cbn [g_colors g_fg g_bg g_fgi g_bgi].
  intros (H1 & H2 & H3 & H4 & H5).
  destruct fg as [fg|], bg as [bg|]; split_ifs; cbn [g_colors g_fg g_bg g_fgi g_bgi]; repeat split; cok; auto; try lia.
Qed.

Lemma sgi_setcolor_ok a c nc idx g :
  G_ok g -> 0 <= c -> colors_ok nc = true -> g_colors g <= nc ->
  ((nc = 16777216 /\ c < 16777216) \/ (nc = 256 /\ c < 256)) -> (idx = true -> c < 256) -> G_ok (sgi_setcolor a c nc idx g).
Proof.
  destruct g as [fg bg colors bold ul blink so cs dc fi bi]. unfold G_ok, sgi_setcolor, idx_ok. cbn [g_colors g_fg g_bg g_fgi g_bgi].
  intros (H1 & H2 & H3 & H4 & H5) Hc Hn Hle Hr Hi.
  destruct fg as [fg|], bg as [bg|]; split_ifs; cbn [g_colors g_fg g_bg g_fgi g_bgi]; repeat split; cok; auto; try lia.
Qed.

Lemma rgb_color_range r g b : 0 <= r -> 0 <= g -> 0 <= b -> 0 <= rgb_color r g b < 16777216.
Proof.
  intros. unfold rgb_color. rewrite !Z.shiftl_mul_pow2 by lia.
  change (2 ^ 16) with 65536. change (2 ^ 8) with 256. lia.
Qed.

Lemma sgi_loop_ok n : forall l g, (length l <= n)%nat -> Forall (fun v => 0 <= v) l -> G_ok g -> G_ok (sgi_loop l g).
Proof.
  induction n; intros l g Hl Hp Hg.
  - destruct l; [assumption|cbn in Hl; lia].
  - destruct l as [|a r]; [assumption|]. cbn [sgi_loop]. cbn [length] in Hl.
    inversion Hp as [|? ? Ha Hr]; subst.
    destruct ((a =? 38) || (a =? 48)) eqn:C.
    + destruct r as [|b [|c r']]; try (cbv iota; apply IHn; auto; cbn [length] in *; lia).
      inversion Hr as [|? ? Hb Hr1]; subst. inversion Hr1 as [|? ? Hc Hr2]; subst.
      destruct (b =? 5) eqn:B.
      * apply IHn; [cbn [length] in *; lia|assumption|].
        pose proof Hg as (G1 & _). apply colors_ok_iff in G1.
        apply sgi_setcolor_ok; auto; try lia; try (cok; lia).
      * destruct r' as [|cg [|cb r'']]; try (cbv iota; apply IHn; auto; cbn [length] in *; lia).
        inversion Hr2 as [|? ? Hcg Hr3]; subst. inversion Hr3 as [|? ? Hcb Hr4]; subst.
        destruct (b =? 2) eqn:B2; [|apply IHn; auto; cbn [length] in *; lia].
        apply IHn; [cbn [length] in *; lia|assumption|].
        pose proof (rgb_color_range c cg cb Hc Hcg Hcb).
        pose proof Hg as (G1 & _). apply colors_ok_iff in G1.
        apply sgi_setcolor_ok; auto; try lia; try (cok; lia); try discriminate.
    + apply IHn; [lia|assumption|]. apply sgi_step1_ok. assumption.
Qed.

Lemma mk_attrspec_ok fg bg colors b u k so :
  colors_ok colors = true -> color_ok fg colors = true -> color_ok bg colors = true ->
  exists a, mk_attrspec fg bg colors b u k so = Ok a /\ oattr_ok a.
Proof.
  intros H1 H2 H3. unfold mk_attrspec. rewrite H1, H2, H3. cbn [andb].
  destruct (is_none fg && is_none bg && negb (b || u || k || so)); [exists None; split; [reflexivity|exact Logic.I]|].
  eexists. split; [reflexivity|]. unfold oattr_ok, attr_ok. cbn [a_colors a_fg a_bg].
  destruct fg, bg; cbn [is_none andb]; repeat split; auto.
Qed.

(* the palette table holds 256 rgb values *)
Lemma palette_table : zlen color_values_256_gen = 256 /\ forallb (fun v => (0 <=? v) && (v <? 16777216)) color_values_256_gen = true.
Proof. split; vm_compute; reflexivity. Qed.

Lemma palette_rgb_ok c i :
  color_ok c 16777216 = true -> idx_ok c i ->
  exists c', palette_rgb c i = Ok c' /\ color_ok c' 16777216 = true.
Proof.
  intros Hc Hi. destruct palette_table as [L F]. unfold palette_rgb. destruct c as [n|]; [|exists None; split; reflexivity].
  destruct i; [|exists (Some n); split; [reflexivity|assumption]].
  specialize (Hi eq_refl). cbv beta iota in Hi. cok.
  destruct (get_index_ok color_values_256_gen n) as (v & E & Hin); [lia|]. rewrite E. cbn [bind].
  exists (Some v). split; [reflexivity|]. rewrite forallb_forall in F. specialize (F v Hin). cok. lia.
Qed.

Lemma sgi_to_attrspec_ok s attrs fg bg b u k so pc :
  Inv s -> Forall (fun v => 0 <= v) attrs ->
  colors_ok pc = true -> color_ok fg pc = true -> color_ok bg pc = true ->
  exists s' a, sgi_to_attrspec s attrs fg bg b u k so pc = Ok (s', a) /\ K s s' /\ oattr_ok a.
Proof.
  intros I Hp H1 H2 H3. unfold sgi_to_attrspec. cbv zeta.
  set (g := sgi_loop attrs _).
  assert (G_ok g) as (G1 & G2 & G3 & G4 & G5).
  { apply (sgi_loop_ok (length attrs)); auto. unfold G_ok, idx_ok. cbn [g_colors g_fg g_bg g_fgi g_bgi].
    repeat split; try assumption; intros Hi; apply negb_true_iff in Hi;
      match goal with |- match ?c with _ => _ end => destruct c as [n|]; [|exact Logic.I] end; cok; lia. }
  match goal with |- context [palette_rgb ?f (g_fgi g)] => set (fg' := f) end.
  assert (color_ok fg' (g_colors g) = true) as G2'.
  { subst fg'. destruct (g_fg g) as [f|]; [|reflexivity].
    destruct (g_bold g && (g_colors g =? 16) && (f <? 8)) eqn:C; [|assumption]. cok. lia. }
  assert (exists fb, (if g_colors g =? 16777216
                      then do fg'0 <- palette_rgb fg' (g_fgi g); do bg' <- palette_rgb (g_bg g) (g_bgi g); Ok (fg'0, bg')
                      else Ok (fg', g_bg g)) = Ok fb /\
                     color_ok (fst fb) (g_colors g) = true /\ color_ok (snd fb) (g_colors g) = true) as (fb & Efb & F1 & F2).
  { destruct (g_colors g =? 16777216) eqn:C; [|exists (fg', g_bg g); auto].
    apply Z.eqb_eq in C. rewrite C in *.
    assert (idx_ok fg' (g_fgi g)) as G4'.
    { subst fg'. destruct (g_fg g) as [f|]; [|intros _; exact Logic.I]. rewrite C.
      replace (g_bold g && (16777216 =? 16) && (f <? 8)) with false by (rewrite andb_false_r; reflexivity). exact G4. }
    destruct (palette_rgb_ok fg' (g_fgi g) G2' G4') as (c1 & E1 & C1).
    destruct (palette_rgb_ok (g_bg g) (g_bgi g) G3 G5) as (c2 & E2 & C2).
    rewrite E1, E2. cbn [bind]. exists (c1, c2). auto. }
  rewrite Efb. cbn [bind].
  destruct (mk_attrspec_ok (fst fb) (snd fb) (g_colors g) (g_bold g) (g_ul g) (g_blink g) (g_so g) G1 F1 F2) as (a & E & A).
  rewrite E. cbn [bind]. eexists _, _. split; [reflexivity|]. split; [|assumption].
  eapply K_trans; [apply with_cset_K; eassumption|]. apply with_modes_K; [apply with_cset_K; assumption|modes_same].
Qed.

Lemma reverse_attrspec_ok a u : oattr_ok a -> attr_ok (reverse_attrspec a u).
Proof.
  intros A. unfold reverse_attrspec.
  assert (attr_ok (match a with Some a0 => a0 | None => mkAttr None None 1 false false false false end)) as A'.
  { destruct a; [exact A|]. repeat split. }
  set (a' := match a with Some a0 => a0 | None => _ end) in *.
  destruct (a_so a' && u); [exact A'|]. destruct (negb (a_so a') && negb u); exact A'.
Qed.

Lemma unbright_ok a c : colors_ok (a_colors a) = true -> color_ok c (a_colors a) = true -> color_ok (unbright a c) (a_colors a) = true.
Proof.
  intros H1 H2. destruct c as [n|]; [|reflexivity]. unfold unbright.
  destruct ((8 <=? n) && (a_colors a =? 16)) eqn:C; [|assumption]. cok. lia.
Qed.

Lemma csi_set_attr_Keeps s attrs :
  Inv s -> 0 < zlen attrs -> Forall (fun v => 0 <= v) attrs -> Keeps s (csi_set_attr s attrs).
Proof.
  intros I Hl Hp. unfold csi_set_attr.
  assert (exists s' a, match attrspec s with
                       | Some a => sgi_to_attrspec s attrs (unbright a (a_fg a)) (unbright a (a_bg a)) (a_bold a) (a_ul a) (a_blink a) (a_so a) (a_colors a)
                       | None => sgi_to_attrspec s attrs None None false false false false 1
                       end = Ok (s', a) /\ K s s' /\ oattr_ok a) as (s' & a & E2 & K2 & A).
  { pose proof (i_attr s I) as A1. destruct (attrspec s) as [a|].
    - destruct A1 as (A1 & A2 & A3). apply sgi_to_attrspec_ok; auto using unbright_ok.
    - apply sgi_to_attrspec_ok; auto. }
  rewrite E2. cbn [bind]. pose proof K2 as (I2 & _).
  eapply Keeps_trans; [exact K2|].
  destruct (m_reverse_video (modes s')); cbn [Keeps]; apply with_attrspec_K; auto.
  apply reverse_attrspec_ok. assumption.
Qed.

(* reverse video over the whole grid *)
Lemma dims_ok_true s : Inv s -> dims_ok s = true.
Proof.
  intros I. unfold dims_ok. pose proof (i_rows s I) as R. pose proof (i_cols s I) as C.
  apply andb_true_intro. split; [lia|]. apply forallb_forall. rewrite Forall_forall in C.
  intros r Hr. specialize (C r Hr). lia.
Qed.

Lemma reverse_video_Keeps s u : Inv s -> Keeps s (reverse_video s u).
Proof.
  intros I. unfold reverse_video. rewrite dims_ok_true by assumption. cbn [Keeps].
  apply with_term_K; [assumption|]. pose proof (Inv_dims s I) as [D1 D2]. split.
  - rewrite zlen_map. assumption.
  - rewrite Forall_forall in *. intros r Hr. apply in_map_iff in Hr. destruct Hr as (r0 & <- & Hr0).
    rewrite zlen_map. auto.
Qed.

(* ---------- modes, scrolling region, erase commands ---------- *)
Lemma set_mode_Keeps s mode flag q : Inv s -> Keeps s (set_mode s mode flag q).
Proof.
  intros I. unfold set_mode. cbv zeta.
  destruct q.
  - destruct (mode =? 1); [apply with_modes_K; [assumption|modes_same]|].
    destruct (mode =? 3); [apply clear_K; assumption|].
    destruct (mode =? 5).
    { apply Keeps_bind.
      - destruct (Bool.eqb (m_reverse_video (modes s)) flag); [apply K_refl; assumption|apply reverse_video_Keeps; assumption].
      - intros s1 (I1 & _). apply with_modes_K; [assumption|modes_same]. }
    destruct (mode =? 6).
    { cbn [Keeps]. apply stc_from_core; try reflexivity; [|apply (i_tabs s I)].
      destruct I. constructor; cbn; auto. }
    destruct (mode =? 7); [apply with_modes_K; [assumption|modes_same]|].
    destruct (mode =? 25).
    { cbn [Keeps]. assert (K s (with_modes s (set_m_visible (modes s) flag))) as Kv by (apply with_modes_K; [assumption|modes_same]).
      eapply K_trans; [exact Kv|]. apply set_term_cursor_here_K. apply Kv. }
    destruct (mode =? 2004); [apply with_modes_K; [assumption|modes_same]|]. apply K_refl. assumption.
  - destruct (mode =? 3); [apply with_modes_K; [assumption|modes_same]|].
    destruct (mode =? 4); [apply with_modes_K; [assumption|modes_same]|].
    destruct (mode =? 20); [apply with_modes_K; [assumption|modes_same]|]. apply K_refl. assumption.
Qed.

Lemma csi_set_modes_Keeps ms : forall s q r, Inv s -> Keeps s (csi_set_modes s ms q r).
Proof.
  induction ms; intros s q r I; cbn [csi_set_modes].
  - apply K_refl. assumption.
  - apply Keeps_bind; [apply set_mode_Keeps; assumption|]. intros s1 (I1 & _). apply IHms. assumption.
Qed.

Lemma constrain_ign s x y :
  snd (constrain s x y 1) = (if height s <=? y then height s - 1 else if y <? 0 then 0 else y).
Proof.
  unfold constrain, constrain_coords_gen. cbv zeta. cbn [snd].
  replace (negb (negb (1 =? 0))) with false by reflexivity. rewrite andb_false_r. reflexivity.
Qed.

Lemma csi_set_scroll_K s top bottom : Inv s -> K s (csi_set_scroll s top bottom).
Proof.
  intros I. unfold csi_set_scroll. cbv zeta.
  set (t := if top =? 0 then 1 else top). set (b := if bottom =? 0 then height s else bottom).
  destruct ((t <? b) && (b <=? height s)) eqn:C; [|apply K_refl; assumption].
  set (s1 := with_sr_start s (snd (constrain s 0 (t - 1) 1))).
  set (s2 := with_sr_end s1 (snd (constrain s1 0 (b - 1) 1))).
  apply stc_from_core; try reflexivity; [|apply (i_tabs s I)].
  subst s2 s1. rewrite !constrain_ign. cbn [height with_sr_start]. pose proof (i_h s I). destruct I. constructor; cbn; auto.
  split_ifs; lia.
Qed.

Lemma csi_clear_tabstop_Keeps s mode : Inv s -> Keeps s (csi_clear_tabstop s mode).
Proof.
  intros I. unfold csi_clear_tabstop. pose proof (i_cx s I).
  destruct (mode =? 0); [apply set_tabstop_Keeps; assumption|].
  destruct (mode =? 3); [apply set_tabstop_Keeps; assumption|]. apply K_refl. assumption.
Qed.

Lemma csi_status_report_K s mode : Inv s -> K s (csi_status_report s mode).
Proof.
  intros I. unfold csi_status_report. pose proof (i_cx s I). pose proof (i_cy s I).
  destruct (mode =? 5); [apply respond_K; [assumption|right; left; reflexivity]|].
  destruct (mode =? 6); [|apply K_refl; assumption].
  cbv zeta. pose proof (i_org s I) as Ho. pose proof (i_reg s I).
  apply respond_K; [assumption|]. right; right. eexists _, _. split; [|split; [|reflexivity]]; [|lia].
  destruct (m_constrain (modes s)); [specialize (Ho eq_refl)|]; lia.
Qed.

Lemma csi_erase_line_Keeps s mode : Inv s -> Keeps s (csi_erase_line s mode).
Proof.
  intros I. unfold csi_erase_line. pose proof (i_cy s I) as Hy. destruct (cur s) as [x y]. cbn [snd] in Hy.
  destruct (mode =? 0); [apply erase_Keeps; assumption|].
  destruct (mode =? 1); [apply erase_Keeps; assumption|].
  destruct (mode =? 2); [apply blank_line_Keeps; assumption|]. apply K_refl. assumption.
Qed.

Lemma csi_erase_display_Keeps s mode : Inv s -> Keeps s (csi_erase_display s mode).
Proof.
  intros I. unfold csi_erase_display. apply Keeps_bind.
  - destruct (mode =? 0); [apply erase_Keeps; assumption|apply K_refl; assumption].
  - intros s1 (I1 & _).
    destruct (mode =? 1); [apply erase_Keeps; assumption|].
    destruct (mode =? 2); [apply clear_K; assumption|]. apply K_refl. assumption.
Qed.

Lemma csi_set_keyboard_leds_K s mode : Inv s -> K s (csi_set_keyboard_leds s mode).
Proof.
  intros I. unfold csi_set_keyboard_leds.
  destruct ((0 <=? mode) && (mode <=? 3)); [apply with_events_K; [assumption|exact Logic.I]|apply K_refl; assumption].
Qed.

(* ---------- line feed, printing ---------- *)
Lemma linefeed_Keeps s rv : Inv s -> Keeps s (linefeed s rv).
Proof.
  intros I. unfold linefeed. destruct (cur s) as [x y].
  destruct rv.
  - destruct ((y <=? 0) && (0 <? sr_start s)); [apply set_term_cursor_K; assumption|].
    destruct (y =? sr_start s); [|apply set_term_cursor_K; assumption].
    apply Keeps_bind; [apply scroll_Keeps; assumption|]. intros s1 (I1 & _). apply set_term_cursor_K. assumption.
  - destruct ((height s - 1 <=? y) && (sr_end s <? height s - 1)); [apply set_term_cursor_K; assumption|].
    destruct (y =? sr_end s); [|apply set_term_cursor_K; assumption].
    apply Keeps_bind; [apply scroll_Keeps; assumption|]. intros s1 (I1 & _). apply set_term_cursor_K. assumption.
Qed.

Lemma carriage_return_K s : Inv s -> K s (carriage_return s).
Proof. intros. apply set_term_cursor_unrotten_K. assumption. Qed.

Lemma newline_Keeps s : Inv s -> Keeps s (newline s).
Proof.
  intros I. unfold newline. eapply Keeps_trans; [apply carriage_return_K; eassumption|].
  apply linefeed_Keeps. apply carriage_return_K. assumption.
Qed.

Lemma move_cursor_K s x y a b c : Inv s -> K s (move_cursor s x y a b c).
Proof. intros. unfold move_cursor. apply set_term_cursor_unrotten_K. assumption. Qed.

Lemma push_char_Keeps s ch x y : Inv s -> Keeps s (push_char s ch x y).
Proof.
  intros I. unfold push_char. destruct (apply_mapping (cset s) ch) as [c ch'].
  pose proof (with_cset_K s c I) as K1. eapply Keeps_trans; [exact K1|]. destruct K1 as (I1 & _).
  apply Keeps_bind.
  - destruct (m_insert (modes (with_cset s c))).
    + apply insert_chars_Keeps; [assumption|]. apply (i_cy _ I1).
    + apply set_char_Keeps. assumption.
  - intros s1 (I2 & _). apply set_term_cursor_K. assumption.
Qed.

Lemma push_cursor_Keeps s ch : Inv s -> Keeps s (push_cursor s ch).
Proof.
  intros I. unfold push_cursor. destruct (cur s) as [x y].
  destruct (m_autowrap (modes s)).
  - destruct ((width s <=? x + 1) && negb (rotten s)).
    + eapply Keeps_trans; [apply with_rotten_K; eassumption|]. apply push_char_Keeps. apply with_rotten_K. assumption.
    + cbv zeta.
      destruct ((width s <=? x + 1) && rotten s).
      * destruct (y =? sr_end s).
        -- pose proof (scroll_Keeps s false I) as Ks. destruct (scroll s false) as [s1|]; [|contradiction].
           cbn [bind]. eapply Keeps_trans; [exact Ks|]. destruct Ks as (I1 & _).
           eapply Keeps_trans; [apply set_term_cursor_K; eassumption|].
           apply Keeps_bind; [apply push_char_Keeps; apply set_term_cursor_K; assumption|].
           intros s2 (I2 & _). apply with_rotten_K. assumption.
        -- cbn [bind]. eapply Keeps_trans; [apply set_term_cursor_K; eassumption|].
           apply Keeps_bind; [apply push_char_Keeps; apply set_term_cursor_K; assumption|].
           intros s2 (I2 & _). apply with_rotten_K. assumption.
      * cbn [bind]. apply Keeps_bind; [apply push_char_Keeps; assumption|].
        intros s2 (I2 & _). apply with_rotten_K. assumption.
  - cbv zeta. eapply Keeps_trans; [apply with_rotten_K; eassumption|]. apply push_char_Keeps. apply with_rotten_K. assumption.
Qed.

(* ---------- reset ---------- *)
Lemma reset_scroll_K s : Inv s -> K s (reset_scroll s).
Proof.
  intros I. unfold reset_scroll. k_split; try reflexivity; [|constructor].
  destruct I. constructor; cbn; auto; try lia.
Qed.

Lemma with_saved_attrs_none_K s : Inv s -> K s (with_saved_attrs s None).
Proof.
  intros I. k_split; try reflexivity; [|constructor]. destruct I. constructor; cbn; auto.
Qed.

Lemma K_Inv s s' : K s s' -> Inv s'.
Proof. intros (I & _). exact I. Qed.

Lemma K_step s a b : K s a -> (Inv a -> K a b) -> K s b.
Proof. intros H1 H2. eapply K_trans; [exact H1|]. apply H2. eapply K_Inv. exact H1. Qed.

Lemma reset_K s : Inv s -> K s (reset s).
Proof.
  intros I. unfold reset. cbv zeta.
  eapply K_step; [|intros; apply clear_K; assumption].
  eapply K_step; [|intros; apply with_modes_K; [assumption|modes_same]].
  eapply K_step; [|intros; apply init_tabstops_K; assumption].
  eapply K_step; [|intros; apply reset_scroll_K; assumption].
  eapply K_step; [|intros; apply with_rotten_K; assumption].
  eapply K_step; [|intros; apply with_saved_attrs_none_K; assumption].
  eapply K_step; [|intros; apply with_saved_cur_K; assumption].
  eapply K_step; [|intros; apply with_cset_K; assumption].
  eapply K_step; [|intros; apply with_attrspec_K; [assumption|exact Logic.I]].
  eapply K_step; [|intros; apply with_pstate_K; assumption].
  eapply K_step; [|intros; apply with_inesc_K; assumption].
  apply with_escbuf_K. assumption.
Qed.

(* ---------- CSI dispatch ---------- *)
Lemma csi_table_default c n d t : csi_table c = Some (n, d, t) -> 0 <= d.
Proof.
  unfold csi_table. intros H.
  destruct c as [|p|p]; try discriminate.
  repeat (destruct p as [p|p|]; try discriminate); inversion H; lia.
Qed.

Lemma digits_val_nonneg l : forall acc v, 0 <= acc -> digits_val l acc = Some v -> 0 <= v.
Proof.
  induction l; intros acc v Ha H; cbn [digits_val] in H.
  - inversion H. lia.
  - destruct ((48 <=? a) && (a <=? 57)) eqn:C; [|discriminate]. eapply IHl; [|exact H]. lia.
Qed.

Lemma parse_int_nonneg l v : parse_int l = Some v -> 0 <= v.
Proof.
  unfold parse_int. destruct l; [discriminate|]. destruct (4300 <? zlen (z :: l)); [discriminate|].
  apply digits_val_nonneg. lia.
Qed.

Lemma split59_nonempty l : forall c, 0 < zlen (split59 l c).
Proof.
  induction l; intros c; cbn [split59].
  - rewrite zlen_cons. pose proof (zlen_nonneg (@nil (list Z))). lia.
  - destruct (a =? 59); [rewrite zlen_cons; pose proof (zlen_nonneg (split59 l [])); lia|apply IHl].
Qed.

Lemma csi_dispatch_Keeps s c args q :
  Inv s -> 0 < zlen args -> Forall (fun v => 0 <= v) args -> Keeps s (csi_dispatch s c args q).
Proof.
  intros I Hl Hp. unfold csi_dispatch. cbv zeta. pose proof (i_cx s I). pose proof (i_cy s I).
  destruct (cur s) as [cx cy] eqn:Ec. cbn [fst snd] in *.
  destruct (c =? 64); [apply insert_chars_Keeps; [assumption|cbn [fst snd]; assumption]|].
  destruct (c =? 65); [apply move_cursor_K; assumption|].
  destruct (c =? 66); [apply move_cursor_K; assumption|].
  destruct (c =? 67); [apply move_cursor_K; assumption|].
  destruct (c =? 68); [apply move_cursor_K; assumption|].
  destruct (c =? 69); [apply move_cursor_K; assumption|].
  destruct (c =? 70); [apply move_cursor_K; assumption|].
  destruct (c =? 71); [apply move_cursor_K; assumption|].
  destruct (c =? 72); [apply move_cursor_K; assumption|].
  destruct (c =? 74); [apply csi_erase_display_Keeps; assumption|].
  destruct (c =? 75); [apply csi_erase_line_Keeps; assumption|].
  destruct (c =? 76); [apply insert_lines_Keeps; assumption|].
  destruct (c =? 77); [apply remove_lines_Keeps; assumption|].
  destruct (c =? 80); [apply remove_chars_Keeps; cbn [fst snd]; assumption|].
  destruct (c =? 88); [apply erase_Keeps; assumption|].
  destruct (c =? 99).
  { cbn [Keeps]. unfold csi_get_device_attributes. destruct q; [apply K_refl; assumption|].
    apply respond_K; [assumption|left; reflexivity]. }
  destruct (c =? 100); [apply move_cursor_K; assumption|].
  destruct (c =? 103); [apply csi_clear_tabstop_Keeps; assumption|].
  destruct (c =? 104); [apply csi_set_modes_Keeps; assumption|].
  destruct (c =? 108); [apply csi_set_modes_Keeps; assumption|].
  destruct (c =? 109); [apply csi_set_attr_Keeps; assumption|].
  destruct (c =? 110); [apply csi_status_report_K; assumption|].
  destruct (c =? 113); [apply csi_set_keyboard_leds_K; assumption|].
  destruct (c =? 114); [apply csi_set_scroll_K; assumption|].
  destruct (c =? 115); [apply save_cursor_K; assumption|].
  destruct (c =? 117); [apply restore_cursor_K; assumption|].
  apply K_refl. assumption.
Qed.

Lemma parse_csi_Keeps s c : Inv s -> csi_table c <> None -> Keeps s (parse_csi s c).
Proof.
  intros I Hc. unfold parse_csi. cbv zeta.
  destruct (csi_table c) as [[[nargs dflt] tgt]|] eqn:E; [|contradiction].
  pose proof (csi_table_default _ _ _ _ E) as Hd.
  apply csi_dispatch_Keeps; [assumption| |].
  - rewrite zlen_map, zlen_app, zlen_map.
    match goal with |- context [split59 ?l ?c] => pose proof (split59_nonempty l c) as Hs; set (raw := split59 l c) in * end.
    match goal with |- context [@zlen ?T (repeatz ?x ?n)] => set (rp := @zlen T (repeatz x n)) in * end.
    assert (0 <= rp) by (subst rp; apply zlen_nonneg).
    clearbody raw rp. lia.
  - apply Forall_forall. intros v Hv. apply in_map_iff in Hv. destruct Hv as (a & <- & Ha).
    destruct a as [v0|]; [|assumption]. destruct (v0 =? 0); [assumption|].
    apply in_app_or in Ha. destruct Ha as [Ha|Ha].
    + apply in_map_iff in Ha. destruct Ha as (l0 & E0 & _). eapply parse_int_nonneg. exact E0.
    + unfold repeatz in Ha. apply repeat_spec in Ha. discriminate.
Qed.

(* ---------- the rest of the escape parser ---------- *)
Lemma parse_osc_K s buf : Inv s -> K s (parse_osc s buf).
Proof.
  intros I. unfold parse_osc.
  assert (K s (with_events s (Title (after59 buf) :: events s))) by (apply with_events_K; [assumption|exact Logic.I]).
  destruct buf as [|b0 [|b1 r]]; try (apply K_refl; assumption).
  - repeat match goal with |- context [match ?x with _ => _ end] => destruct x; try (apply K_refl; assumption); try assumption end.
  - repeat match goal with |- context [match ?x with _ => _ end] => destruct x; try (apply K_refl; assumption); try assumption end.
Qed.

Lemma set_g01_K s ch md : Inv s -> K s (set_g01 s ch md).
Proof.
  intros I. unfold set_g01. destruct (negb (m_main_charset (modes s) =? charset_default_gen)); [apply K_refl; assumption|].
  apply with_cset_K. assumption.
Qed.

Lemma parse_noncsi_Keeps s ch md : Inv s -> Keeps s (parse_noncsi s ch md).
Proof.
  intros I. unfold parse_noncsi. pose proof (i_cx s I).
  destruct (list_eqb md [35] && is1 ch 56); [apply decaln_Keeps; assumption|].
  destruct (list_eqb md [37]).
  { destruct (is1 ch 64); [apply with_modes_K; [assumption|modes_same]|].
    destruct (in1 ch [71; 56]); [apply with_modes_K; [assumption|modes_same]|apply K_refl; assumption]. }
  destruct (list_eqb md [40] || list_eqb md [41]); [apply set_g01_K; assumption|].
  destruct (is1 ch 77); [apply linefeed_Keeps; assumption|].
  destruct (is1 ch 68); [apply linefeed_Keeps; assumption|].
  destruct (is1 ch 99); [apply reset_K; assumption|].
  destruct (is1 ch 69); [apply newline_Keeps; assumption|].
  destruct (is1 ch 72); [apply set_tabstop_Keeps; assumption|].
  destruct (is1 ch 90); [apply respond_K; [assumption|left; reflexivity]|].
  destruct (is1 ch 55); [apply save_cursor_K; assumption|].
  destruct (is1 ch 56); [apply restore_cursor_K; assumption|].
  apply K_refl. assumption.
Qed.

Lemma Keeps_then_leave s r : Keeps s r -> Keeps s (bind r (fun s' => Ok (leave_escape s'))).
Proof.
  intros H. apply Keeps_bind; [assumption|]. intros s1 (I1 & _). apply leave_escape_K. assumption.
Qed.

Lemma parse_escape_Keeps s ch : Inv s -> Keeps s (parse_escape s ch).
Proof.
  intros I. unfold parse_escape. cbv zeta.
  pose proof (leave_escape_K s I) as KL.
  destruct (pstate s =? 1).
  { destruct ch as [|c [|? ?]]; try exact KL.
    destruct (csi_table c) eqn:E.
    - apply Keeps_bind; [apply parse_csi_Keeps; [assumption|congruence]|].
      intros s1 (I1 & _). cbn [Keeps]. eapply K_trans; [apply with_pstate_K; eassumption|].
      apply leave_escape_K. apply with_pstate_K. assumption.
    - match goal with |- context [if ?b then _ else _] => destruct b end; [apply with_escbuf_K; assumption|exact KL]. }
  destruct ((pstate s =? 0) && is1 ch 93).
  { cbn [Keeps]. eapply K_trans; [apply with_escbuf_K; eassumption|]. apply with_pstate_K. apply with_escbuf_K. assumption. }
  destruct ((pstate s =? 2) && is1 ch 7).
  { cbn [Keeps]. eapply K_trans; [apply parse_osc_K; eassumption|]. apply leave_escape_K. apply parse_osc_K. assumption. }
  match goal with |- context [if ?b then Ok (leave_escape (parse_osc _ _)) else _] => destruct b end.
  { cbn [Keeps]. eapply K_trans; [apply parse_osc_K; eassumption|]. apply leave_escape_K. apply parse_osc_K. assumption. }
  match goal with |- context [if ?b then Ok (leave_escape s) else _] => destruct b end; [exact KL|].
  match goal with |- context [if ?b then Ok (leave_escape s) else _] => destruct b end; [exact KL|].
  destruct (pstate s =? 2); [apply with_escbuf_K; assumption|].
  destruct ((pstate s =? 0) && is1 ch 91).
  { cbn [Keeps]. eapply K_trans; [apply with_escbuf_K; eassumption|]. apply with_pstate_K. apply with_escbuf_K. assumption. }
  destruct ((pstate s =? 0) && in1 ch [37; 35; 40; 41]).
  { cbn [Keeps]. eapply K_trans; [apply with_escbuf_K; eassumption|]. apply with_pstate_K. apply with_escbuf_K. assumption. }
  destruct (pstate s =? 3); [apply Keeps_then_leave; apply parse_noncsi_Keeps; assumption|].
  destruct (in1 ch [99; 68; 69; 72; 77; 90; 55; 56; 62; 61]); [apply Keeps_then_leave; apply parse_noncsi_Keeps; assumption|].
  exact KL.
Qed.

(* ---------- process_char, addbyte, addstr ---------- *)
Lemma process_char_Keeps s ch : Inv s -> Keeps s (process_char s ch).
Proof.
  intros I. unfold process_char. cbv zeta. destruct (cur s) as [x y].
  destruct (is1 ch 27 && negb (pstate s =? 2)); [apply with_inesc_K; assumption|].
  destruct (negb (m_display_ctrl (modes s)) && is1 ch 13); [apply carriage_return_K; assumption|].
  destruct (negb (m_display_ctrl (modes s)) && is1 ch 15); [apply with_cset_K; assumption|].
  destruct (negb (m_display_ctrl (modes s)) && is1 ch 14); [apply with_cset_K; assumption|].
  destruct (negb (m_display_ctrl (modes s)) && in1 ch [10; 11; 12]).
  { apply Keeps_bind; [apply linefeed_Keeps; assumption|]. intros s1 (I1 & _).
    destruct (m_lfnl (modes s1)); [apply carriage_return_K; assumption|apply K_refl; assumption]. }
  destruct (negb (m_display_ctrl (modes s)) && is1 ch 9); [apply tab_Keeps; assumption|].
  destruct (negb (m_display_ctrl (modes s)) && is1 ch 8).
  { cbv zeta. destruct (0 <? x); [apply set_term_cursor_unrotten_K; assumption|apply with_rotten_K; assumption]. }
  destruct (negb (m_display_ctrl (modes s)) && is1 ch 7 && negb (pstate s =? 2)).
  { apply with_events_K; [assumption|exact Logic.I]. }
  destruct (negb (m_display_ctrl (modes s)) && in1 ch [24; 26]); [apply leave_escape_K; assumption|].
  destruct (negb (m_display_ctrl (modes s)) && in1 ch [0; 127]); [apply K_refl; assumption|].
  destruct (inesc s); [apply parse_escape_Keeps; assumption|].
  destruct (negb (m_display_ctrl (modes s)) && is1 ch 155).
  { cbn [Keeps]. eapply K_step; [|intros; apply with_pstate_K; assumption].
    eapply K_step; [|intros; apply with_escbuf_K; assumption]. apply with_inesc_K. assumption. }
  apply push_cursor_Keeps. assumption.
Qed.

Lemma addbyte_Keeps s b : Inv s -> Keeps s (addbyte s b).
Proof.
  intros I. unfold addbyte.
  destruct ((m_main_charset (modes s) =? charset_utf8_gen) || (enc s =? 0)); [|apply process_char_Keeps; assumption].
  destruct (192 <=? b).
  { cbn [Keeps]. eapply K_step; [|intros; apply with_u8buf_K; assumption]. apply with_u8eat_K. assumption. }
  destruct (u8eat s) as [n|].
  - destruct ((128 <=? b) && (b <? 192)).
    + destruct (1 <? n).
      { cbn [Keeps]. eapply K_step; [|intros; apply with_u8buf_K; assumption]. apply with_u8eat_K. assumption. }
      cbv zeta. pose proof (with_u8eat_K s None I) as K1.
      destruct (utf8_one_char _); [|exact K1].
      eapply Keeps_trans; [exact K1|]. apply process_char_Keeps. eapply K_Inv. exact K1.
    + eapply Keeps_trans; [apply with_u8eat_K; eassumption|]. apply process_char_Keeps. apply with_u8eat_K. assumption.
  - eapply Keeps_trans; [apply with_u8eat_K; eassumption|]. apply process_char_Keeps. apply with_u8eat_K. assumption.
Qed.

Lemma addbytes_Keeps l : forall s, Inv s -> Keeps s (addbytes s l).
Proof.
  induction l; intros s I; cbn [addbytes].
  - apply K_refl. assumption.
  - apply Keeps_bind; [apply addbyte_Keeps; assumption|]. intros s1 (I1 & _). apply IHl. assumption.
Qed.

Lemma addstr_Keeps s l : Inv s -> Keeps s (addstr s l).
Proof.
  intros I. unfold addstr. destruct ((width s <=? 0) || (height s <=? 0)); [apply K_refl; assumption|].
  apply addbytes_Keeps. assumption.
Qed.

(* ---------- resize ---------- *)

Lemma resize_finish s x y :
  Core s ->
  Inv (init_tabstops (set_term_cursor s (fst (constrain s x y 0)) (snd (constrain s x y 0))) true).
Proof.
  intros C. pose proof (constrain_range s x y 0 (c_w s C) (c_h s C) (c_reg s C)) as Hc.
  destruct (constrain s x y 0) as [x0 y0]. cbn [fst snd] in *.
  unfold set_term_cursor.
  pose proof (constrain_range s x0 y0 0 (c_w s C) (c_h s C) (c_reg s C)) as Hc2.
  destruct (constrain s x0 y0 0) as [x1 y1]. cbn [fst snd] in *.
  pose proof (tablen_bound (width s) ltac:(destruct C; lia)) as B.
  match goal with |- context [if ?b then _ else _] => destruct b eqn:Cb end;
    unfold init_tabstops; cbv zeta; destruct C; constructor; cbn in *; auto; try lia.
  all: try (rewrite zlen_app; unfold repeatz; rewrite zlen_repeat;
            match goal with |- context [zlen ?l] => pose proof (zlen_nonneg l) end; lia).
Qed.

Lemma resize_grow_facts n : forall s,
  0 <= width s -> Forall (fun r : row => zlen r = width s) (term s) ->
  let s' := resize_grow n s in
  zlen (term s') = zlen (term s) + Z.of_nat n /\ Forall (fun r : row => zlen r = width s) (term s') /\
  width s' = width s /\ height s' = height s /\ sup s' = sup s /\ attrspec s' = attrspec s /\
  saved_attrs s' = saved_attrs s /\ events s' = events s.
Proof.
  induction n; intros s Hw Hc; cbn [resize_grow].
  - cbv zeta. repeat split; auto. lia.
  - destruct (rev (sb s)) as [|last_line rest].
    + match goal with |- context [resize_grow n ?x] => set (s1 := x) end.
      destruct (IHn s1) as (A1 & A2 & A3 & A4 & A5 & A6 & A7 & A8).
      * exact Hw.
      * subst s1. cbn. apply Forall_app. split; [assumption|]. constructor; [|constructor].
        apply zlen_empty_line. assumption.
      * cbv zeta. subst s1. cbn in *. rewrite zlen_app, zlen_cons, zlen_nil in A1. repeat split; auto. lia.
    + cbv zeta.
      match goal with |- context [resize_grow n ?x] => set (s1 := x) end.
      destruct (IHn s1) as (A1 & A2 & A3 & A4 & A5 & A6 & A7 & A8).
      * exact Hw.
      * subst s1. cbn. apply Forall_insert; [assumption|].
        destruct (0 <? width s - zlen last_line) eqn:Cp.
        -- rewrite zlen_app. unfold repeatz. rewrite zlen_repeat. lia.
        -- rewrite zlen_takez by assumption. lia.
      * subst s1. cbn in *. rewrite zlen_insert in A1. repeat split; auto. lia.
Qed.

Lemma resize_shrink_facts n : forall s,
  Z.of_nat n <= zlen (term s) -> Forall (fun r : row => zlen r = width s) (term s) ->
  exists s', resize_shrink n s = Ok s' /\
  zlen (term s') = zlen (term s) - Z.of_nat n /\ Forall (fun r : row => zlen r = width s) (term s') /\
  width s' = width s /\ height s' = height s /\ sup s' = sup s /\ attrspec s' = attrspec s /\
  saved_attrs s' = saved_attrs s /\ events s' = events s /\ sr_start s' = sr_start s /\ sr_end s' = sr_end s.
Proof.
  induction n; intros s Hn Hc; cbn [resize_shrink].
  - eexists. split; [reflexivity|]. repeat split; auto. lia.
  - destruct (pop_ok (term s) 0) as (x & l' & E & L & _ & _ & F); [lia|]. rewrite E. cbn [bind fst snd].
    match goal with |- context [resize_shrink n ?x] => set (s1 := x) end.
    destruct (IHn s1) as (s' & E' & A1 & A2 & A3 & A4 & A5 & A6 & A7 & A8 & A9 & A10).
    + subst s1. cbn. lia.
    + subst s1. cbn. apply F. assumption.
    + exists s'. split; [exact E'|]. subst s1. cbn in *. repeat split; auto. lia.
Qed.

Lemma init_tabstops_wh s e :
  (width (init_tabstops s e), height (init_tabstops s e)) = (width s, height s).
Proof. unfold init_tabstops. cbv zeta. destruct e; reflexivity. Qed.


Lemma resize_Safe s w h :
  Inv s -> 1 <= w -> 1 <= h -> exists s', resize s w h = Ok s' /\ Inv s' /\ width s' = w /\ height s' = h.
Proof.
  intros I Hw Hh. unfold resize. destruct (cur s) as [x y].
  set (y0 := if negb (w =? width s) && (0 <? height s) then height s - 1 else y).
  pose proof (Inv_dims s I) as [D1 D2]. pose proof (i_w s I) as W1. pose proof (i_h s I) as H1.
  (* the width loops *)
  assert (exists t, (if width s <? w
              then if zlen (term s) <? height s then Err IndexError
                   else Ok (map (fun r : row => r ++ repeatz (empty_char s [32]) (w - width s)) (takez (height s) (term s)) ++ dropz (height s) (term s))
              else if w <? width s
                   then if zlen (term s) <? height s then Err IndexError
                        else Ok (map (fun r : row => takez (Z.max 0 w) r) (takez (height s) (term s)) ++ dropz (height s) (term s))
                   else Ok (term s)) = Ok t /\ zlen t = height s /\ Forall (fun r : row => zlen r = w) t) as (t & Et & T1 & T2).
  { replace (zlen (term s) <? height s) with false by lia.
    rewrite (takez_all' (term s)) by lia. rewrite (dropz_all' (term s)) by lia. rewrite !app_nil_r.
    destruct (width s <? w) eqn:C1; [|destruct (w <? width s) eqn:C2].
    - eexists. split; [reflexivity|]. split; [rewrite zlen_map; assumption|].
      rewrite Forall_forall in *. intros r Hr. apply in_map_iff in Hr. destruct Hr as (r0 & <- & Hr0).
      rewrite zlen_app. unfold repeatz. rewrite zlen_repeat. rewrite (D2 r0 Hr0). lia.
    - eexists. split; [reflexivity|]. split; [rewrite zlen_map; assumption|].
      rewrite Forall_forall in *. intros r Hr. apply in_map_iff in Hr. destruct Hr as (r0 & <- & Hr0).
      rewrite zlen_takez by lia. rewrite (D2 r0 Hr0). lia.
    - exists (term s). split; [reflexivity|]. split; [assumption|]. replace w with (width s) by lia. assumption. }
  unfold row in *. rewrite Et. cbn [bind].
  set (s1 := with_width (with_term s t) w).
  (* the height loops *)
  assert (exists s2, (if height s1 <? h then Ok (resize_grow (Z.to_nat (h - height s1)) s1)
                      else if h <? height s1 then resize_shrink (Z.to_nat (height s1 - h)) s1 else Ok s1) = Ok s2 /\
           zlen (term s2) = h /\ Forall (fun r : list cell => zlen r = w) (term s2) /\ width s2 = w /\
           sup s2 = sup s /\ attrspec s2 = attrspec s /\ saved_attrs s2 = saved_attrs s /\ events s2 = events s)
    as (s2 & E2 & B1 & B2 & B3 & B4 & B5 & B6 & B7).
  { assert (height s1 = height s) as Hs1 by reflexivity.
    assert (width s1 = w) as Ws1 by reflexivity. assert (term s1 = t) as Ts1 by reflexivity.
    destruct (height s1 <? h) eqn:C1; [|destruct (h <? height s1) eqn:C2].
    - eexists. split; [reflexivity|].
      destruct (resize_grow_facts (Z.to_nat (h - height s1)) s1) as (A1 & A2 & A3 & A4 & A5 & A6 & A7 & A8);
        [lia|rewrite Ws1, Ts1; exact T2|].
      rewrite Ws1, Ts1 in *. repeat split; auto. una; lia.
    - destruct (resize_shrink_facts (Z.to_nat (height s1 - h)) s1) as (s2 & E2 & A1 & A2 & A3 & A4 & A5 & A6 & A7 & A8 & _);
        [rewrite Ts1; una; lia|rewrite Ws1, Ts1; exact T2|].
      exists s2. split; [exact E2|]. rewrite Ws1, Ts1 in *. repeat split; auto. una; lia.
    - exists s1. split; [reflexivity|]. rewrite Ts1, Ws1. repeat split; auto. una; lia. }
  rewrite E2. cbn [bind]. cbv zeta.
  match goal with |- context [constrain ?S x y0 0] => set (s4 := S) end.
  assert (Core s4) as C4.
  { subst s4. unfold reset_scroll. destruct I. constructor; cbn; try rewrite B3; try rewrite B4; try rewrite B5;
      try rewrite B6; try rewrite B7; auto; try lia.
    pose proof (zlen_nonneg (sb s2)). una; lia. }
  pose proof (resize_finish s4 x y0 C4) as IF.
  destruct (constrain s4 x y0 0) as [x1 y1] eqn:Ec. cbn [fst snd] in IF.
  eexists. split; [reflexivity|]. split; [exact IF|].
  pose proof (set_term_cursor_wh s4 x1 y1) as Q2. injection Q2 as Rw Rh.
  split.
  - change (width (set_term_cursor s4 x1 y1) = w). rewrite Rw. exact B3.
  - change (height (set_term_cursor s4 x1 y1) = h). rewrite Rh. reflexivity.
Qed.

(* ---------- view operations, construction, sessions ---------- *)
Lemma scroll_buffer_K s up rs lines : Inv s -> K s (scroll_buffer s up rs lines).
Proof.
  intros I. unfold scroll_buffer. pose proof (zlen_nonneg (sb s)) as Hn.
  assert (forall v, 0 <= v <= zlen (sb s) -> K s (set_term_cursor_here (with_sup s v))) as Hv.
  { intros v Hv. assert (K s (with_sup s v)) as K1.
    { k_split; try reflexivity; [|constructor]. destruct I. constructor; cbn; auto. }
    eapply K_trans; [exact K1|]. apply set_term_cursor_here_K. apply K1. }
  destruct rs; [apply Hv; lia|]. cbv zeta. apply Hv. split_ifs; lia.
Qed.

Lemma set_focus_K s f : Inv s -> K s (set_focus s f).
Proof.
  intros I. unfold set_focus. assert (K s (with_has_focus s f)) as K1 by k_ext.
  eapply K_trans; [exact K1|]. apply set_term_cursor_here_K. apply K1.
Qed.


Ltac proj_simpl := cbn [width height term cur cursor has_focus sb sup u8eat u8buf escbuf inesc pstate attrspec cset saved_cur saved_attrs rotten sr_start sr_end tabstops modes events enc with_width with_height with_term with_cur with_cursor with_has_focus with_sb with_sup with_u8eat with_u8buf with_escbuf with_inesc with_pstate with_attrspec with_cset with_saved_cur with_saved_attrs with_rotten with_sr_start with_sr_end with_tabstops with_modes with_events with_enc reset_scroll init_tabstops].

Lemma clear_core s :
  1 <= width s -> 1 <= height s -> 0 <= sup s <= zlen (sb s) -> Forall wf_event (events s) ->
  0 <= sr_start s /\ sr_start s <= sr_end s /\ sr_end s < height s ->
  oattr_ok (attrspec s) -> match saved_attrs s with Some (a, _) => oattr_ok a | None => True end ->
  width s <= 8 * zlen (tabstops s) -> Inv (clear s None).
Proof.
  intros Hw Hh Hs He Hr Ha Hsa Ht. unfold clear.
  apply set_term_cursor_core.
  - constructor; proj_simpl; auto.
    + apply zlen_repeatz. lia.
    + apply Forall_repeat. unfold empty_line. apply zlen_repeatz. lia.
  - exact Ht.
Qed.

Lemma reset_core s :
  1 <= width s -> 1 <= height s -> 0 <= sup s <= zlen (sb s) -> Forall wf_event (events s) -> Inv (reset s).
Proof.
  intros Hw Hh Hs He. unfold reset. cbv zeta.
  apply clear_core; proj_simpl; auto; try lia; try exact Logic.I.
  pose proof (tablen_bound (width s) ltac:(lia)) as B. unfold repeatz. rewrite zlen_repeat.
  destruct (0 <? width s mod 8); lia.
Qed.

Lemma init_Inv w h e : 1 <= w -> 1 <= h -> Inv (init w h e).
Proof.
  intros Hw Hh. unfold init. apply reset_core; cbn [width height sup sb events]; auto.
  unfold zlen. cbn [length]. lia.
Qed.

Definition Safe (r : result st) : Prop := match r with Ok s' => Inv s' | Err _ => False end.
Definition op_ok (o : op) : Prop := match o with Resize w h => 1 <= w /\ 1 <= h | _ => True end.

Lemma Keeps_Safe s r : Keeps s r -> Safe r.
Proof. destruct r; cbn; [intros (I & _); exact I|tauto]. Qed.

Lemma step_Safe s o : Inv s -> op_ok o -> Safe (step s o).
Proof.
  intros I Ho. destruct o; cbn [step].
  - eapply Keeps_Safe. apply addstr_Keeps. assumption.
  - destruct Ho as [Hw Hh]. destruct (resize_Safe s w h I Hw Hh) as (s' & E & I' & _). rewrite E. exact I'.
  - eapply (Keeps_Safe s). apply scroll_buffer_K. assumption.
  - eapply (Keeps_Safe s). apply scroll_buffer_K. assumption.
  - eapply (Keeps_Safe s). apply set_focus_K. assumption.
Qed.

Lemma run_Safe ops : forall s, Inv s -> Forall op_ok ops -> Safe (run s ops).
Proof.
  induction ops; intros s I Ho; cbn [run].
  - exact I.
  - inversion Ho; subst. pose proof (step_Safe s a I H1) as Hs.
    destruct (step s a) as [s1|]; [|contradiction]. cbn [bind]. apply IHops; assumption.
Qed.

(* the invariant after each operation of a session, not only at its end *)
Lemma run_app s a b : run s (a ++ b) = bind (run s a) (fun s' => run s' b).
Proof.
  revert s. induction a; intros s; cbn [run app]; [reflexivity|].
  destruct (step s a) as [s1|]; cbn [bind]; [apply IHa|reflexivity].
Qed.

(* ---------- chunking ---------- *)
Lemma addbytes_app a : forall s b, addbytes s (a ++ b) = bind (addbytes s a) (fun s' => addbytes s' b).
Proof.
  induction a; intros s b; cbn [addbytes app]; [reflexivity|].
  destruct (addbyte s a) as [s1|]; cbn [bind]; [apply IHa|reflexivity].
Qed.

Lemma addstr_addbytes s l : Inv s -> addstr s l = addbytes s l.
Proof.
  intros I. unfold addstr. pose proof (i_w s I). pose proof (i_h s I).
  replace ((width s <=? 0) || (height s <=? 0)) with false by lia. reflexivity.
Qed.

Lemma feed_split s a b ops : Inv s -> run s (Feed (a ++ b) :: ops) = run s (Feed a :: Feed b :: ops).
Proof.
  intros I. cbn [run step]. rewrite !addstr_addbytes by assumption. rewrite addbytes_app.
  pose proof (addbytes_Keeps a s I) as Ka.
  destruct (addbytes s a) as [s1|]; cbn [bind]; [|reflexivity].
  destruct Ka as (I1 & _). rewrite addstr_addbytes by assumption. reflexivity.
Qed.

Lemma feed_chunks chunks : forall s post, Inv s ->
  run s (map Feed chunks ++ post) = run s (Feed (concat chunks) :: post).
Proof.
  induction chunks; intros s post I.
  - cbn [map concat app run step]. rewrite addstr_addbytes by assumption. reflexivity.
  - cbn [map concat app]. rewrite feed_split by assumption.
    cbn [run step]. pose proof (addstr_Keeps s a I) as Ka.
    destruct (addstr s a) as [s1|]; cbn [bind]; [|reflexivity].
    destruct Ka as (I1 & _). rewrite IHchunks by assumption. reflexivity.
Qed.

Lemma chunking_from_init w h e pre chunks post :
  1 <= w -> 1 <= h -> Forall op_ok pre ->
  run (init w h e) (pre ++ map Feed chunks ++ post) = run (init w h e) (pre ++ Feed (concat chunks) :: post).
Proof.
  intros Hw Hh Hp. rewrite !run_app.
  pose proof (run_Safe pre (init w h e) (init_Inv w h e Hw Hh) Hp) as Hs.
  destruct (run (init w h e) pre) as [s1|]; cbn [bind]; [|reflexivity].
  apply feed_chunks. exact Hs.
Qed.

(* ---------- scrollback ---------- *)
Lemma scroll_appends s s' :
  scroll s false = Ok s' ->
  exists line, nthz (term s) (norm_index (zlen (term s)) (sr_start s)) = Some line /\ sb s' = sb_push (sb s) line.
Proof.
  unfold scroll, pop. intros H.
  destruct (index_ok (zlen (term s)) (norm_index (zlen (term s)) (sr_start s))); [|discriminate].
  destruct (nthz (term s) (norm_index (zlen (term s)) (sr_start s))) as [x|]; [|discriminate].
  cbn in H. inversion H. exists x. split; reflexivity.
Qed.

Lemma dropz_app_le {A} (l m : list A) k : 0 <= k <= zlen l -> dropz k (l ++ m) = dropz k l ++ m.
Proof.
  intros H. unfold dropz. rewrite skipn_app.
  replace (Z.to_nat k - length l)%nat with 0%nat by (unfold zlen in H; lia). reflexivity.
Qed.

Lemma dropz_dropz {A} (l : list A) a b : 0 <= a -> 0 <= b -> dropz a (dropz b l) = dropz (a + b) l.
Proof.
  intros. unfold dropz. replace (Z.to_nat (a + b)) with (Z.to_nat b + Z.to_nat a)%nat by lia.
  generalize (Z.to_nat a) as n. generalize (Z.to_nat b) as m. clear. intros m. revert l.
  induction m; intros l n; cbn [skipn Nat.add]; [reflexivity|]. destruct l; [destruct n; reflexivity|]. apply IHm.
Qed.

(* the lines are kept in order: the new scrollback is a suffix of the old one followed by the new lines *)
Lemma SbExt_suffix a b : SbExt a b -> exists k new, 0 <= k <= zlen (a ++ new) /\ b = dropz k (a ++ new).
Proof.
  intros H. induction H.
  - exists 0, []. rewrite !app_nil_r. split; [pose proof (zlen_nonneg a); lia|reflexivity].
  - destruct IHSbExt as (k & new & Hk & ->).
    assert (dropz k (a ++ new) ++ [r] = dropz k (a ++ new ++ [r])) as E.
    { rewrite (app_assoc a new [r]). rewrite (dropz_app_le (a ++ new) [r] k) by lia. reflexivity. }
    assert (zlen (a ++ new ++ [r]) = zlen (a ++ new) + 1) as L.
    { rewrite (app_assoc a new [r]). unfold zlen. rewrite (app_length (a ++ new)). cbn [length]. lia. }
    unfold sb_push. cbv zeta. rewrite E.
    destruct (scrollback_maxlen_gen <? zlen (dropz k (a ++ new ++ [r]))).
    + exists (1 + k), (new ++ [r]). split; [lia|]. apply dropz_dropz; lia.
    + exists k, (new ++ [r]). split; [lia|reflexivity].
Qed.

Lemma addstr_scrollback s data s' : Inv s -> addstr s data = Ok s' -> SbExt (sb s) (sb s').
Proof.
  intros I E. pose proof (addstr_Keeps s data I) as Kp. rewrite E in Kp. destruct Kp as (_ & _ & _ & S). exact S.
Qed.

(* ---------- the (scrolled-back) view ---------- *)
Lemma content_spec s :
  Inv s ->
  content s = if sup s =? 0 then term s
              else map (fit_line s) (takez (height s) (dropz (zlen (sb s) - sup s) (sb s ++ term s))).
Proof.
  intros I. unfold content. destruct (sup s =? 0) eqn:E0; [reflexivity|]. cbv zeta.
  pose proof (i_sup s I) as Hs. pose proof (i_rows s I) as Hr. pose proof (i_h s I) as Hh.
  pose proof (zlen_nonneg (sb s)) as Hn.
  assert (slice_indices (zlen (sb s ++ term s)) (Some (- (height s + sup s))) (Some (- sup s)) None
          = (zlen (sb s) - sup s, zlen (sb s) - sup s + height s, 1)) as E.
  { rewrite zlen_app, Hr. unfold slice_indices. cbv beta zeta iota.
    replace (1 <? 0) with false by reflexivity. cbv beta zeta iota.
    repeat match goal with |- context [if ?c then _ else _] => destruct c eqn:? end;
      (apply f_equal2; [apply f_equal2|reflexivity]; lia). }
  rewrite E. replace (zlen (sb s) - sup s + height s - (zlen (sb s) - sup s)) with (height s) by lia. reflexivity.
Qed.

Lemma fit_line_len s line : 0 <= width s -> zlen (fit_line s line) = width s.
Proof.
  intros Hw. unfold fit_line. cbv zeta. pose proof (zlen_nonneg line).
  destruct (0 <? width s - zlen line) eqn:C.
  - rewrite zlen_app. unfold repeatz. rewrite zlen_repeat. lia.
  - rewrite zlen_takez by assumption. lia.
Qed.

Lemma content_dims s : Inv s -> Dims (width s) (height s) (content s).
Proof.
  intros I. rewrite content_spec by assumption. destruct (sup s =? 0) eqn:E0; [apply Inv_dims; assumption|].
  pose proof (i_sup s I) as Hs. pose proof (i_rows s I) as Hr. pose proof (i_h s I) as Hh. pose proof (i_w s I) as Hw.
  split.
  - rewrite zlen_map. rewrite zlen_takez by lia. rewrite zlen_dropz by lia. rewrite zlen_app. lia.
  - apply Forall_forall. intros r Hin. apply in_map_iff in Hin. destruct Hin as (l & <- & _).
    apply fit_line_len. lia.
Qed.

(* ---------- replies are well-formed strings ---------- *)
Fixpoint all_digits (l : list Z) : bool :=
  match l with [] => true | d :: r => (48 <=? d) && (d <=? 57) && all_digits r end.
(* [1-9][0-9]* *)
Definition num_ok (l : list Z) : bool :=
  match l with d :: r => (49 <=? d) && (d <=? 57) && all_digits r | [] => false end.
Fixpoint span_digits (l acc : list Z) : list Z * list Z :=
  match l with
  | d :: r => if (48 <=? d) && (d <=? 57) then span_digits r (acc ++ [d]) else (acc, l)
  | [] => (acc, [])
  end.
(* ESC [ 0 n  |  ESC [ ? 6 c  |  ESC [ [1-9][0-9]* ; [1-9][0-9]* R *)
Definition reply_wf_b (r : list Z) : bool :=
  match r with
  | 27 :: 91 :: rest =>
      list_eqb rest [48; 110] || list_eqb rest [63; 54; 99] ||
      (let '(a, r1) := span_digits rest [] in
       num_ok a && match r1 with
                   | 59 :: r2 => let '(b, r3) := span_digits r2 [] in num_ok b && list_eqb r3 [82]
                   | _ => false
                   end)
  | _ => false
  end.

Lemma all_digits_app a b : all_digits (a ++ b) = all_digits a && all_digits b.
Proof. induction a; cbn [all_digits app]; [reflexivity|]. rewrite IHa. destruct ((48 <=? a) && (a <=? 57)); reflexivity. Qed.

Lemma num_ok_snoc a d : num_ok a = true -> 48 <= d <= 57 -> num_ok (a ++ [d]) = true.
Proof.
  destruct a as [|x r]; [discriminate|]. cbn [num_ok app]. intros H Hd.
  rewrite all_digits_app. cbn [all_digits]. lia.
Qed.

Lemma dec_digits_ok fuel : forall n, 1 <= n < 10 ^ (Z.of_nat fuel + 1) -> num_ok (dec_digits fuel n) = true.
Proof.
  induction fuel; intros n Hn.
  - cbn [dec_digits]. change (10 ^ (Z.of_nat 0 + 1)) with 10 in Hn. rewrite Z.mod_small by lia. cbn [num_ok all_digits]. lia.
  - cbn [dec_digits]. destruct (n <? 10) eqn:C.
    + cbn [num_ok all_digits]. lia.
    + apply num_ok_snoc.
      * apply IHfuel. split; [apply Z.div_le_lower_bound; lia|].
        apply Z.div_lt_upper_bound; [lia|].
        replace (Z.of_nat (S fuel) + 1) with (Z.succ (Z.of_nat fuel + 1)) in Hn by lia.
        rewrite Z.pow_succ_r in Hn by lia. lia.
      * pose proof (Z.mod_pos_bound n 10 ltac:(lia)). lia.
Qed.

Lemma dec_str_ok n : 1 <= n -> num_ok (dec_str n) = true.
Proof.
  intros Hn. unfold dec_str. replace (n <? 0) with false by lia. apply dec_digits_ok. split; [assumption|].
  rewrite Z2Nat.id by (apply Z.log2_nonneg).
  pose proof (Z.log2_spec n ltac:(lia)) as [_ Hl].
  eapply Z.lt_le_trans; [exact Hl|]. rewrite <- Z.add_1_r. apply Z.pow_le_mono_l. lia.
Qed.

Lemma span_digits_all a : forall acc rest, all_digits a = true ->
  (match rest with d :: _ => negb ((48 <=? d) && (d <=? 57)) = true | [] => True end) ->
  span_digits (a ++ rest) acc = (acc ++ a, rest).
Proof.
  induction a; intros acc rest Ha Hr; cbn [app span_digits].
  - rewrite app_nil_r. destruct rest as [|d r]; [reflexivity|]. cbn [span_digits]. destruct ((48 <=? d) && (d <=? 57)); [discriminate|reflexivity].
  - cbn [all_digits] in Ha. destruct ((48 <=? a) && (a <=? 57)) eqn:C; [|discriminate].
    rewrite IHa; [|exact Ha|exact Hr]. rewrite <- app_assoc. reflexivity.
Qed.

Lemma num_ok_digits a : num_ok a = true -> all_digits a = true.
Proof. destruct a; [discriminate|]. cbn [num_ok all_digits]. lia. Qed.

Lemma reply_cpr_wf y x : 1 <= y -> 1 <= x -> reply_wf_b (reply_cpr y x) = true.
Proof.
  intros Hy Hx. pose proof (dec_str_ok y Hy) as Ny. pose proof (dec_str_ok x Hx) as Nx.
  unfold reply_cpr. set (body := dec_str y ++ [59] ++ dec_str x ++ [82]).
  change ([27; 91] ++ body) with (27 :: 91 :: body). cbn [reply_wf_b].
  assert (list_eqb body [48; 110] = false) as E1.
  { subst body. destruct (dec_str y) as [|d r]; [discriminate|]. cbn [num_ok] in Ny. cbn [app list_eqb].
    destruct (d =? 48) eqn:C; [lia|reflexivity]. }
  assert (list_eqb body [63; 54; 99] = false) as E2.
  { subst body. destruct (dec_str y) as [|d r]; [discriminate|]. cbn [num_ok] in Ny. cbn [app list_eqb].
    destruct (d =? 63) eqn:C; [lia|reflexivity]. }
  rewrite E1, E2. cbn [orb]. subst body.
  rewrite (span_digits_all (dec_str y) [] ([59] ++ dec_str x ++ [82])); [|apply num_ok_digits; exact Ny|reflexivity].
  cbn [app]. rewrite Ny. cbn [andb].
  rewrite (span_digits_all (dec_str x) [] [82]); [|apply num_ok_digits; exact Nx|reflexivity].
  cbn [app]. rewrite Nx. reflexivity.
Qed.

Lemma wf_event_reply r : wf_event (Respond r) -> reply_wf_b r = true.
Proof.
  intros [->|[->|(y & x & Hy & Hx & ->)]]; [reflexivity|reflexivity|apply reply_cpr_wf; assumption].
Qed.

(* ---------- the size follows the resizes ---------- *)
Definition size_after (wh : Z * Z) (ops : list op) : Z * Z :=
  fold_left (fun acc o => match o with Resize w h => (w, h) | _ => acc end) ops wh.

Lemma reset_wh s : (width (reset s), height (reset s)) = (width s, height s).
Proof.
  unfold reset, clear. cbv zeta.
  match goal with |- context [set_term_cursor ?S 0 0] => pose proof (set_term_cursor_wh S 0 0) as Q end.
  rewrite Q. reflexivity.
Qed.

Lemma init_wh w h e : (width (init w h e), height (init w h e)) = (w, h).
Proof. unfold init. rewrite reset_wh. reflexivity. Qed.

Lemma step_size s o : Inv s -> op_ok o ->
  match step s o with
  | Ok s' => (width s', height s') = size_after (width s, height s) [o]
  | Err _ => False
  end.
Proof.
  intros I Ho. destruct o; cbn [step size_after fold_left].
  - pose proof (addstr_Keeps s data I) as Kp. destruct (addstr s data); [|contradiction].
    destruct Kp as (_ & W & H & _). rewrite W, H. reflexivity.
  - destruct Ho as [Hw Hh]. destruct (resize_Safe s w h I Hw Hh) as (s' & E & _ & W & H). rewrite E, W, H. reflexivity.
  - destruct (scroll_buffer_K s up false lines I) as (_ & W & H & _). rewrite W, H. reflexivity.
  - destruct (scroll_buffer_K s true true None I) as (_ & W & H & _). rewrite W, H. reflexivity.
  - destruct (set_focus_K s f I) as (_ & W & H & _). rewrite W, H. reflexivity.
Qed.

Lemma run_size ops : forall s, Inv s -> Forall op_ok ops ->
  match run s ops with
  | Ok s' => Inv s' /\ (width s', height s') = size_after (width s, height s) ops
  | Err _ => False
  end.
Proof.
  induction ops; intros s I Ho; cbn [run].
  - split; [assumption|reflexivity].
  - inversion Ho; subst. pose proof (step_Safe s a I H1) as Hs. pose proof (step_size s a I H1) as Hz.
    destruct (step s a) as [s1|]; [|contradiction]. cbn [bind].
    specialize (IHops s1 Hs H2). destruct (run s1 ops) as [s2|]; [|contradiction].
    destruct IHops as (I2 & E2). split; [assumption|]. rewrite E2, Hz. reflexivity.
Qed.
