(* C15 - the safety invariant of the terminal emulator model (Model/VTerm.v) and its preservation by
   every operation: one lemma per grid operation, then the parser, then the session operations. *)
From Coq Require Import ZArith List Bool Lia ZifyBool.
Import ListNotations.
From Urwid Require Import PyBase PyList vterm_csi_gen VTerm VTermListFacts.
Open Scope Z_scope.

Arguments Z.mul : simpl never.
Arguments Z.add : simpl never.
Arguments Z.sub : simpl never.
Arguments Z.div : simpl never.
Arguments Z.modulo : simpl never.
Arguments Z.ltb : simpl never.
Arguments Z.leb : simpl never.
Arguments Z.eqb : simpl never.
Arguments Z.min : simpl never.
Arguments Z.max : simpl never.
Arguments Z.shiftl : simpl never.
Arguments Z.land : simpl never.
Arguments Z.lor : simpl never.
Arguments Z.lnot : simpl never.
Arguments Z.log2 : simpl never.
Arguments Z.to_nat : simpl never.
Arguments Z.of_nat : simpl never.

(* ---------- the invariant ---------- *)
Definition attr_ok (a : attr) : Prop :=
  colors_ok (a_colors a) = true /\ color_ok (a_fg a) (a_colors a) = true /\ color_ok (a_bg a) (a_colors a) = true.
Definition oattr_ok (o : option attr) : Prop := match o with None => True | Some a => attr_ok a end.

Definition cpr_like (r : list Z) : Prop := exists y x, 1 <= y /\ 1 <= x /\ r = reply_cpr y x.
Definition wf_event (e : event) : Prop :=
  match e with Respond r => r = reply_da \/ r = reply_ok \/ cpr_like r | _ => True end.

Record Inv (s : st) : Prop := mkInv {
  i_w : 1 <= width s;
  i_h : 1 <= height s;
  i_rows : zlen (term s) = height s;
  i_cols : Forall (fun r : row => zlen r = width s) (term s);
  i_cx : 0 <= fst (cur s) < width s;
  i_cy : 0 <= snd (cur s) < height s;
  i_reg : 0 <= sr_start s /\ sr_start s <= sr_end s /\ sr_end s < height s;
  i_cursor : match cursor s with None => True | Some (x, y) => 0 <= x < width s /\ 0 <= y < height s end;
  i_sup : 0 <= sup s;
  i_tabs : width s <= 8 * zlen (tabstops s);
  i_attr : oattr_ok (attrspec s);
  i_sattr : match saved_attrs s with Some (a, _) => oattr_ok a | None => True end;
  i_ev : Forall wf_event (events s) }.

(* the scrollback only ever grows at its end (and loses its oldest lines at the deque's maxlen) *)
Definition sb_push (b : list row) (r : row) : list row :=
  let l := b ++ [r] in if scrollback_maxlen_gen <? zlen l then dropz 1 l else l.
Inductive SbExt : list row -> list row -> Prop :=
  | SbRefl a : SbExt a a
  | SbStep a b r : SbExt a b -> SbExt a (sb_push b r).

Lemma SbExt_trans a b c : SbExt a b -> SbExt b c -> SbExt a c.
Proof. intros H1 H2. induction H2; [assumption|]. constructor. auto. Qed.

(* what every operation other than resize keeps *)
Definition K (s s' : st) : Prop :=
  Inv s' /\ width s' = width s /\ height s' = height s /\ SbExt (sb s) (sb s').
Definition Keeps (s : st) (r : result st) : Prop := match r with Ok s' => K s s' | Err _ => False end.

Ltac k_split := split; [|split; [|split]].

Lemma K_refl s : Inv s -> K s s.
Proof. intros. k_split; auto. constructor. Qed.

Lemma K_trans a b c : K a b -> K b c -> K a c.
Proof.
  intros (I1 & W1 & H1 & S1) (I2 & W2 & H2 & S2). k_split; try congruence; auto.
  eapply SbExt_trans; eauto.
Qed.

Lemma Keeps_ok s s' : K s s' -> Keeps s (Ok s').
Proof. auto. Qed.

Lemma Keeps_bind s r (f : st -> result st) :
  Keeps s r -> (forall s1, K s s1 -> Keeps s1 (f s1)) -> Keeps s (bind r f).
Proof.
  destruct r as [s1|e]; cbn; [|tauto]. intros H Hf. specialize (Hf s1 H).
  destruct (f s1); cbn in *; [|tauto]. eapply K_trans; eauto.
Qed.

Lemma Keeps_trans s s1 r : K s s1 -> Keeps s1 r -> Keeps s r.
Proof. intros H. destruct r; cbn; [|tauto]. intros. eapply K_trans; eauto. Qed.

(* states that differ only in fields the invariant does not read *)
Lemma Inv_ext s s' :
  width s' = width s -> height s' = height s -> term s' = term s -> cur s' = cur s -> cursor s' = cursor s ->
  sup s' = sup s -> sr_start s' = sr_start s -> sr_end s' = sr_end s -> tabstops s' = tabstops s ->
  attrspec s' = attrspec s -> saved_attrs s' = saved_attrs s -> events s' = events s ->
  Inv s -> Inv s'.
Proof.
  intros E1 E2 E3 E4 E5 E6 E7 E8 E9 E10 E11 E12 [].
  constructor; rewrite ?E1, ?E2, ?E3, ?E4, ?E5, ?E6, ?E7, ?E8, ?E9, ?E10, ?E11, ?E12; assumption.
Qed.

Lemma K_ext s s' :
  width s' = width s -> height s' = height s -> term s' = term s -> cur s' = cur s -> cursor s' = cursor s ->
  sup s' = sup s -> sr_start s' = sr_start s -> sr_end s' = sr_end s -> tabstops s' = tabstops s ->
  attrspec s' = attrspec s -> saved_attrs s' = saved_attrs s -> events s' = events s -> sb s' = sb s ->
  Inv s -> K s s'.
Proof.
  intros. k_split; auto. - eapply Inv_ext; eauto. - replace (sb s') with (sb s). constructor.
Qed.
Ltac k_ext := apply K_ext; try reflexivity; try assumption.

Ltac split_ifs :=
  repeat match goal with
         | |- context[if ?c then _ else _] => destruct c eqn:?
         end.

(* ---------- cursor ---------- *)
Lemma constrain_range s x y ign :
  1 <= width s -> 1 <= height s -> 0 <= sr_start s /\ sr_start s <= sr_end s /\ sr_end s < height s ->
  0 <= fst (constrain s x y ign) < width s /\ 0 <= snd (constrain s x y ign) < height s.
Proof.
  intros Hw Hh Hr. unfold constrain, constrain_coords_gen. cbv zeta.
  split_ifs; cbn [fst snd]; lia.
Qed.

Lemma set_term_cursor_K s x y : Inv s -> K s (set_term_cursor s x y).
Proof.
  intros I. unfold set_term_cursor.
  pose proof (constrain_range s x y 0 (i_w s I) (i_h s I) (i_reg s I)) as Hc.
  destruct (constrain s x y 0) as [x' y'] eqn:E. cbn [fst snd] in Hc.
  assert (Inv (with_cur s (x', y'))) as I1.
  { destruct I. constructor; cbn; auto; lia. }
  destruct (has_focus (with_cur s (x', y')) && m_visible (modes (with_cur s (x', y'))) &&
            (sup (with_cur s (x', y')) <? height (with_cur s (x', y')) - y')) eqn:C.
  - k_split; try reflexivity; [|constructor].
    destruct I1. constructor; cbn in *; auto. lia.
  - k_split; try reflexivity; [|constructor].
    destruct I1. constructor; cbn in *; auto.
Qed.

Lemma set_term_cursor_here_K s : Inv s -> K s (set_term_cursor_here s).
Proof. intros. apply set_term_cursor_K. assumption. Qed.

Ltac una := unfold row, cell in *.
Ltac ulia := una; lia.

(* ---------- the grid ---------- *)
Definition Dims (w h : Z) (t : list row) : Prop := zlen t = h /\ Forall (fun r : row => zlen r = w) t.

Lemma Inv_dims s : Inv s -> Dims (width s) (height s) (term s).
Proof. intros []. split; assumption. Qed.

Lemma term_sb_K s t b :
  Inv s -> Dims (width s) (height s) t -> SbExt (sb s) b -> K s (with_term (with_sb s b) t).
Proof.
  intros I [D1 D2] S. k_split; try reflexivity; [|exact S].
  destruct I. constructor; cbn; auto.
Qed.

Lemma with_sb_K s b : Inv s -> SbExt (sb s) b -> K s (with_sb s b).
Proof.
  intros I S. k_split; try reflexivity; [|exact S].
  destruct I. constructor; cbn; auto.
Qed.

Lemma with_term_K s t : Inv s -> Dims (width s) (height s) t -> K s (with_term s t).
Proof.
  intros I [D1 D2]. k_split; try reflexivity; [|constructor].
  destruct I. constructor; cbn; auto.
Qed.

Lemma zlen_repeatz {A} (x : A) n : 0 <= n -> zlen (repeatz x n) = n.
Proof. intros. unfold repeatz. rewrite zlen_repeat. ulia. Qed.

Lemma zlen_empty_line s ch : 0 <= width s -> zlen (empty_line s ch) = width s.
Proof. intros. unfold empty_line. now apply zlen_repeatz. Qed.

Lemma iter_res_inv {A} (P : A -> Prop) n (f : A -> result A) a :
  P a -> (forall x, P x -> exists y, f x = Ok y /\ P y) -> exists b, iter_res n f a = Ok b /\ P b.
Proof.
  intros Ha Hf. revert a Ha. induction n; intros a Ha; cbn.
  - eauto.
  - destruct (Hf a Ha) as (y & Hy & Py). rewrite Hy. cbn. apply IHn. assumption.
Qed.

Lemma Keeps_of_term s r :
  Inv s -> (exists t, r = Ok t /\ Dims (width s) (height s) t) ->
  Keeps s (bind r (fun t => Ok (with_term s t))).
Proof. intros I (t & -> & D). cbn. apply with_term_K; assumption. Qed.

(* scroll *)
Lemma scroll_Keeps s rv : Inv s -> Keeps s (scroll s rv).
Proof.
  intros I. pose proof (Inv_dims s I) as [D1 D2]. pose proof (i_reg s I) as R. pose proof (i_w s I).
  unfold scroll. destruct rv.
  - destruct (pop_ok (term s) (sr_end s)) as (x & l' & E & L & _ & _ & F); [ulia|]. una; rewrite E. cbn.
    apply with_term_K; [assumption|]. split.
    + rewrite zlen_insert. ulia.
    + apply Forall_insert; [apply F; assumption|]. apply zlen_empty_line. ulia.
  - destruct (pop_ok (term s) (sr_start s)) as (x & l' & E & L & _ & _ & F); [ulia|]. una; rewrite E. cbn.
    assert (K s (sb_append s x)) as K1.
    { unfold sb_append. cbv zeta. apply with_sb_K; [assumption|]. apply (SbStep _ _ x). constructor. }
    eapply K_trans; [exact K1|]. destruct K1 as (I1 & W1 & H1 & _).
    apply with_term_K; [assumption|]. split.
    + rewrite zlen_insert. rewrite H1. ulia.
    + apply Forall_insert; [rewrite W1; apply F; assumption|]. apply zlen_empty_line. ulia.
Qed.

(* set_char *)
Lemma set_char_Keeps s ch x y : Inv s -> Keeps s (set_char s ch x y).
Proof.
  intros I. pose proof (Inv_dims s I) as [D1 D2].
  pose proof (constrain_range s x y 0 (i_w s I) (i_h s I) (i_reg s I)) as Hc.
  unfold set_char. destruct (constrain s x y 0) as [x' y']. cbn [fst snd] in Hc.
  destruct (get_index_ok (term s) y') as (r & E & Hin); [ulia|]. una; rewrite E. cbn [bind].
  assert (zlen r = width s) as Hr by (rewrite Forall_forall in D2; auto).
  destruct (set_index_ok r x' (attrspec s, cs_current (cset s), ch)) as (r' & E' & L' & _); [ulia|]. una; rewrite E'. cbn [bind].
  destruct (set_index_ok (term s) y' r') as (t & Et & Lt & Ft); [ulia|]. una; rewrite Et. cbn [bind].
  apply with_term_K; [assumption|]. split; [ulia|]. apply Ft; [assumption|ulia].
Qed.

(* insert_chars / remove_chars *)
Lemma insert_chars_Keeps s pos n ch : Inv s -> 0 <= snd pos < height s -> Keeps s (insert_chars s pos n ch).
Proof.
  intros I Hy. pose proof (Inv_dims s I) as D. pose proof (i_w s I).
  unfold insert_chars. destruct pos as [x y]. cbn [snd] in Hy.
  apply Keeps_of_term; [assumption|].
  apply iter_res_inv; [assumption|]. intros t [T1 T2]. cbv beta. unfold row, cell in *.
  destruct (get_index_ok t y) as (r & E & Hin); [ulia|]. una; rewrite E. cbn [bind].
  assert (zlen r = width s) as Hr by (rewrite Forall_forall in T2; auto).
  match goal with |- context [insert r x ?c] => set (spec := c) end.
  destruct (pop_last_ok (insert r x spec)) as (z & r' & E' & L' & _); [rewrite zlen_insert; ulia|]. una; rewrite E'. cbn [bind snd].
  destruct (set_index_ok t y r') as (t' & Et & Lt & Ft); [ulia|]. una; rewrite Et.
  eexists. split; [reflexivity|]. split; [ulia|]. apply Ft; [assumption|]. rewrite zlen_insert in L'. ulia.
Qed.

Lemma remove_chars_Keeps s pos n :
  Inv s -> 0 <= fst pos < width s -> 0 <= snd pos < height s -> Keeps s (remove_chars s pos n).
Proof.
  intros I Hx Hy. pose proof (Inv_dims s I) as D.
  unfold remove_chars. destruct pos as [x y]. cbn [fst snd] in Hx, Hy.
  apply Keeps_of_term; [assumption|].
  apply iter_res_inv; [assumption|]. intros t [T1 T2]. cbv beta. unfold row, cell in *.
  destruct (get_index_ok t y) as (r & E & Hin); [ulia|]. una; rewrite E. cbn [bind].
  assert (zlen r = width s) as Hr by (rewrite Forall_forall in T2; auto).
  destruct (pop_ok r x) as (z & r' & E' & L' & _); [ulia|]. una; rewrite E'. cbn [bind snd].
  destruct (set_index_ok t y (r' ++ [empty_char s [32]])) as (t' & Et & Lt & Ft); [ulia|]. una; rewrite Et.
  eexists. split; [reflexivity|]. split; [ulia|]. apply Ft; [assumption|]. rewrite zlen_app, zlen_cons, zlen_nil. ulia.
Qed.

(* insert_lines / remove_lines *)
Lemma insert_lines_Keeps s n : Inv s -> Keeps s (insert_lines s n).
Proof.
  intros I. pose proof (Inv_dims s I) as D. pose proof (i_w s I). pose proof (i_reg s I). pose proof (i_cy s I).
  unfold insert_lines. apply Keeps_of_term; [assumption|].
  apply iter_res_inv; [assumption|]. intros t [T1 T2]. cbv beta. unfold row, cell in *.
  destruct (pop_ok (insert t (snd (cur s)) (empty_line s [32])) (sr_end s)) as (z & t' & E & L & _ & _ & F);
    [rewrite zlen_insert; ulia|]. una; rewrite E. cbn [bind snd].
  eexists. split; [reflexivity|]. rewrite zlen_insert in L. split; [ulia|].
  apply F. apply Forall_insert; [assumption|]. apply zlen_empty_line. ulia.
Qed.

Lemma remove_lines_Keeps s n : Inv s -> Keeps s (remove_lines s n).
Proof.
  intros I. pose proof (Inv_dims s I) as D. pose proof (i_w s I). pose proof (i_reg s I). pose proof (i_cy s I).
  unfold remove_lines. apply Keeps_of_term; [assumption|].
  apply iter_res_inv; [assumption|]. intros t [T1 T2]. cbv beta. unfold row, cell in *.
  destruct (pop_ok t (snd (cur s))) as (z & t' & E & L & _ & _ & F); [ulia|]. una; rewrite E. cbn [bind snd].
  eexists. split; [reflexivity|]. split; [rewrite zlen_insert; ulia|].
  apply Forall_insert; [apply F; assumption|]. apply zlen_empty_line. ulia.
Qed.

(* erase *)
Lemma set_range_n_ok n : forall (r : row) x v, 0 <= x -> x + Z.of_nat n <= zlen r ->
  exists r', set_range_n n r x v = Ok r' /\ zlen r' = zlen r.
Proof.
  induction n; intros r x v Hx Hl; cbn [set_range_n].
  - eauto.
  - destruct (set_index_ok r x v) as (r1 & E & L & _); [ulia|]. una; rewrite E. cbn [bind].
    destruct (IHn r1 (x + 1) v) as (r2 & E2 & L2); [ulia|ulia|]. una; rewrite E2. exists r2. split; [reflexivity|ulia].
Qed.

Lemma set_cells_Keeps s y a b : Inv s -> 0 <= y < height s -> 0 <= a -> b <= width s -> Keeps s (set_cells s y a b).
Proof.
  intros I Hy Ha Hb. pose proof (Inv_dims s I) as [D1 D2].
  unfold set_cells. destruct (b <=? a) eqn:C; [apply K_refl; assumption|].
  destruct (get_index_ok (term s) y) as (r & E & Hin); [ulia|]. una; rewrite E. cbn [bind].
  assert (zlen r = width s) as Hr by (rewrite Forall_forall in D2; auto).
  unfold set_range.
  destruct (set_range_n_ok (Z.to_nat (b - a)) r a (empty_char s [32])) as (r' & E' & L'); [ulia|ulia|]. una; rewrite E'. cbn [bind].
  destruct (set_index_ok (term s) y r') as (t & Et & Lt & Ft); [ulia|]. una; rewrite Et. cbn [bind].
  apply with_term_K; [assumption|]. split; [ulia|]. apply Ft; [assumption|ulia].
Qed.

Lemma blank_line_Keeps s y : Inv s -> 0 <= y < height s -> Keeps s (blank_line s y).
Proof.
  intros I Hy. pose proof (Inv_dims s I) as [D1 D2]. pose proof (i_w s I).
  unfold blank_line.
  destruct (set_index_ok (term s) y (empty_line s [32])) as (t & Et & Lt & Ft); [ulia|]. una; rewrite Et. cbn [bind].
  apply with_term_K; [assumption|]. split; [ulia|]. apply Ft; [assumption|]. apply zlen_empty_line. ulia.
Qed.

Lemma erase_rows_Keeps n : forall s y sx sy ex ey,
  Inv s -> 0 <= y -> y + Z.of_nat n <= height s -> 0 <= sx -> 0 <= ex < width s ->
  Keeps s (erase_rows n s y sx sy ex ey).
Proof.
  induction n; intros s y sx sy ex ey I Hy Hn Hsx Hex; cbn [erase_rows].
  - apply K_refl. assumption.
  - apply Keeps_bind.
    + destruct (y =? sy); [|destruct (y =? ey)].
      * apply set_cells_Keeps; auto; ulia.
      * apply set_cells_Keeps; auto; ulia.
      * apply blank_line_Keeps; auto; ulia.
    + intros s1 (I1 & W1 & H1 & _). apply IHn; auto; try ulia.
Qed.

Lemma erase_Keeps s p q : Inv s -> Keeps s (erase s p q).
Proof.
  intros I. unfold erase.
  pose proof (constrain_range s (fst p) (snd p) 0 (i_w s I) (i_h s I) (i_reg s I)) as Hp.
  pose proof (constrain_range s (fst q) (snd q) 0 (i_w s I) (i_h s I) (i_reg s I)) as Hq.
  destruct (constrain s (fst p) (snd p) 0) as [sx sy]. destruct (constrain s (fst q) (snd q) 0) as [ex ey].
  cbn [fst snd] in *. destruct (sy =? ey) eqn:C.
  - apply set_cells_Keeps; auto; ulia.
  - destruct (Z_le_gt_dec sy ey).
    + apply erase_rows_Keeps; auto; try ulia.
    + replace (Z.to_nat (ey - sy + 1)) with 0%nat by ulia. cbn. apply K_refl. assumption.
Qed.

(* decaln, clear *)
Lemma decaln_n_Keeps n : forall s y, Inv s -> 0 <= y -> y + Z.of_nat n <= height s -> Keeps s (decaln_n n s y).
Proof.
  induction n; intros s y I Hy Hn; cbn [decaln_n].
  - apply K_refl. assumption.
  - pose proof (Inv_dims s I) as [D1 D2]. pose proof (i_w s I).
    destruct (set_index_ok (term s) y (empty_line s [69])) as (t & Et & Lt & Ft); [ulia|]. una; rewrite Et. cbn [bind].
    assert (K s (with_term s t)) as Kt.
    { apply with_term_K; [assumption|]. split; [ulia|]. apply Ft; [assumption|]. apply zlen_empty_line. ulia. }
    eapply Keeps_trans; [exact Kt|]. destruct Kt as (I1 & W1 & H1 & _). apply IHn; auto; ulia.
Qed.

Lemma decaln_Keeps s : Inv s -> Keeps s (decaln s).
Proof. intros I. unfold decaln. pose proof (i_h s I). apply decaln_n_Keeps; auto; ulia. Qed.

Lemma clear_K s c : Inv s -> K s (clear s c).
Proof.
  intros I. unfold clear. pose proof (i_w s I). pose proof (i_h s I).
  assert (K s (with_term s (repeatz (empty_line s [32]) (height s)))) as Kt.
  { apply with_term_K; [assumption|]. split.
    - apply zlen_repeatz. ulia.
    - apply Forall_repeat. apply zlen_empty_line. ulia. }
  eapply K_trans; [exact Kt|]. destruct Kt as (I1 & _).
  destruct c as [[x y]|]; apply set_term_cursor_K; assumption.
Qed.
