(* C11 - the dumped wcwidth table satisfies the hypothesis of the width theorems: every entry is <= 2.
   Checked by computation over the whole generated table (re-checked whenever the dump changes). *)
From Coq Require Import ZArith List Bool Lia ZifyBool.
Import ListNotations.
From Urwid Require Import PyBase PyList Utf8 wcwidth_table_gen str_util_gen Width.
Open Scope Z_scope.

Fixpoint wtree_all (f : Z -> bool) (t : wtree) : bool :=
  match t with WLeaf => true | WNode l _ _ w r => wtree_all f l && f w && wtree_all f r end.

Lemma wtree_lookup_all f t : wtree_all f t = true -> f 1 = true -> forall c, f (wtree_lookup t c) = true.
Proof.
  intros H H1 c. induction t as [|l IHl lo hi w r IHr]; cbn [wtree_lookup]; [exact H1|].
  cbn [wtree_all] in H. apply andb_prop in H. destruct H as [H Hr]. apply andb_prop in H. destruct H as [Hl Hw].
  destruct (c <? lo); [now apply IHl|]. destruct (hi <? c); [now apply IHr|exact Hw].
Qed.

Lemma wc_tree_all_le_2 : wtree_all (fun w => w <=? 2) wc_tree = true.
Proof. vm_compute. reflexivity. Qed.

Theorem wcwidth_tab_le_2 c : wcwidth_tab c <= 2.
Proof.
  unfold wcwidth_tab.
  pose proof (wtree_lookup_all (fun w => w <=? 2) wc_tree wc_tree_all_le_2 eq_refl c) as H.
  cbn beta in H. lia.
Qed.

(* the search tree holds every interval of the generated list *)
Lemma wc_tree_complete : wtree_size wc_tree = zlen wcwidth_table.
Proof. vm_compute. reflexivity. Qed.
