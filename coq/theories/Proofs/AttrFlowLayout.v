(* C17 part 2: apply_text_layout gives every byte of a displayed character that character's
   attribute, for any well-formed layout. *)
From Coq Require Import ZArith List Bool Lia ZifyBool.
Import ListNotations.
From Urwid Require Import PyBase PyList AttrFlow AttrFlowBasics.
Open Scope Z_scope.

Arguments Z.add : simpl never.
Arguments Z.sub : simpl never.
Arguments Z.mul : simpl never.
Arguments Z.ltb : simpl never.
Arguments Z.leb : simpl never.
Arguments Z.eqb : simpl never.
Arguments Z.min : simpl never.
Arguments Z.max : simpl never.
Arguments Z.to_nat : simpl never.
Arguments Z.of_nat : simpl never.

(* ---------- integer ranges ---------- *)
Fixpoint zseq (a : Z) (n : nat) : list Z :=
  match n with O => [] | S k => a :: zseq (a + 1) k end.
Definition zrange' (a b : Z) : list Z := zseq a (Z.to_nat (b - a)).

Lemma In_zseq n : forall a p, In p (zseq a n) <-> a <= p < a + Z.of_nat n.
Proof.
  induction n; intros a p; cbn [zseq In]; [lia|].
  rewrite IHn. lia.
Qed.

Lemma zseq_app n m : forall a, zseq a (n + m) = zseq a n ++ zseq (a + Z.of_nat n) m.
Proof.
  induction n; intro a; cbn [zseq Nat.add app].
  - f_equal. lia.
  - rewrite IHn. do 3 f_equal. lia.
Qed.

Lemma length_zseq n : forall a, length (zseq a n) = n.
Proof. induction n; intro a; cbn; [reflexivity | now rewrite IHn]. Qed.

Lemma zrange_empty a b : b <= a -> zrange' a b = [].
Proof. intro H. unfold zrange'. replace (Z.to_nat (b - a)) with 0%nat by lia. reflexivity. Qed.

Lemma zrange_split a m b : a <= m <= b -> zrange' a b = zrange' a m ++ zrange' m b.
Proof.
  intro H. unfold zrange'. replace (Z.to_nat (b - a)) with (Z.to_nat (m - a) + Z.to_nat (b - m))%nat by lia.
  rewrite zseq_app. do 2 f_equal. lia.
Qed.

Lemma In_zrange a b p : In p (zrange' a b) <-> a <= p < b.
Proof. unfold zrange'. rewrite In_zseq. lia. Qed.

Lemma length_zrange a b : length (zrange' a b) = Z.to_nat (b - a).
Proof. apply length_zseq. Qed.

Lemma map_ext_zrange {A} (f g : Z -> A) a b :
  (forall p, a <= p < b -> f p = g p) -> map f (zrange' a b) = map g (zrange' a b).
Proof. intro H. apply map_ext_in. intros p Hp. apply H. now apply In_zrange. Qed.

Lemma map_const {A B} (c : B) (l : list A) : map (fun _ => c) l = repeat c (length l).
Proof. induction l; cbn; [reflexivity | now rewrite IHl]. Qed.

Lemma map_const_zrange {A} (f : Z -> A) c a b :
  (forall p, a <= p < b -> f p = c) -> map f (zrange' a b) = repeat c (Z.to_nat (b - a)).
Proof.
  intro H. rewrite (map_ext_zrange f (fun _ => c)) by assumption.
  now rewrite map_const, length_zrange.
Qed.

(* ---------- sublists ---------- *)
Definition sub {A} (l : list A) (o e : Z) : list A := firstn (Z.to_nat (e - o)) (skipn (Z.to_nat o) l).

Lemma py_slice_sub {A} (l : list A) a b : 0 <= a -> a <= b -> b <= zlen l -> py_slice l a b = sub l a b.
Proof.
  intros Ha Hab Hb. unfold py_slice, slice_indices, sub, takez, dropz.
  change (1 <? 0) with false. cbv iota.
  destruct (a <? 0) eqn:E1; [lia|]. destruct (b <? 0) eqn:E2; [lia|].
  destruct (zlen l <=? a) eqn:E3; destruct (zlen l <=? b) eqn:E4;
    try (replace (zlen l) with a by lia); try (replace (zlen l) with b by lia); try reflexivity.
  assert (a = b) by lia. subst. reflexivity.
Qed.

Lemma firstn_add {A} (l : list A) : forall n m, firstn (n + m) l = firstn n l ++ firstn m (skipn n l).
Proof.
  induction l as [|x t IH]; intros n m.
  - now rewrite !firstn_nil, skipn_nil, firstn_nil.
  - destruct n; cbn [Nat.add firstn skipn app]; [reflexivity|]. now rewrite IH.
Qed.

Lemma skipn_add {A} (l : list A) : forall n m, skipn (n + m) l = skipn m (skipn n l).
Proof.
  induction l as [|x t IH]; intros n m.
  - now rewrite !skipn_nil.
  - destruct n; cbn [Nat.add skipn]; [reflexivity|]. apply IH.
Qed.

Lemma sub_split {A} (l : list A) o m e : 0 <= o -> o <= m -> m <= e -> sub l o e = sub l o m ++ sub l m e.
Proof.
  intros Ho Hm He. unfold sub.
  replace (Z.to_nat (e - o)) with (Z.to_nat (m - o) + Z.to_nat (e - m))%nat by lia.
  rewrite firstn_add. f_equal. f_equal.
  replace (Z.to_nat m) with (Z.to_nat o + Z.to_nat (m - o))%nat by lia.
  now rewrite skipn_add.
Qed.

Lemma length_sub {A} (l : list A) o e : 0 <= o -> o <= e -> e <= zlen l -> length (sub l o e) = Z.to_nat (e - o).
Proof.
  intros Ho He Hl. unfold sub, zlen in *. rewrite firstn_length, skipn_length. lia.
Qed.

Lemma Forall_firstn {A} (P : A -> Prop) (l : list A) : forall n, Forall P l -> Forall P (firstn n l).
Proof.
  induction l as [|x t IH]; intros n H; [now rewrite firstn_nil|].
  destruct n; cbn [firstn]; [constructor|]. inversion H; subst. constructor; auto.
Qed.

Lemma Forall_skipn {A} (P : A -> Prop) (l : list A) : forall n, Forall P l -> Forall P (skipn n l).
Proof.
  induction l as [|x t IH]; intros n H; [now rewrite skipn_nil|].
  destruct n; cbn [skipn]; [assumption|]. inversion H; subst. auto.
Qed.

Lemma Forall_sub {A} (P : A -> Prop) (l : list A) o e : Forall P l -> Forall P (sub l o e).
Proof. intro H. unfold sub. now apply Forall_firstn, Forall_skipn. Qed.

(* ---------- bytes of characters ---------- *)
Definition bytes_of (cs : list chr) (ats : list attr) : list attr :=
  flat_map (fun p : chr * attr => repeat (snd p) (Z.to_nat (c_enc (fst p)))) (combine cs ats).

Lemma combine_app_eq {A B} (a1 : list A) : forall (b1 : list B) a2 b2, length a1 = length b1 ->
  combine (a1 ++ a2) (b1 ++ b2) = combine a1 b1 ++ combine a2 b2.
Proof.
  induction a1 as [|x t IH]; intros [|y u] a2 b2 H; cbn in H; try discriminate; cbn [app combine]; [reflexivity|].
  f_equal. apply IH. lia.
Qed.

Lemma bytes_of_app c1 a1 c2 a2 : length c1 = length a1 ->
  bytes_of (c1 ++ c2) (a1 ++ a2) = bytes_of c1 a1 ++ bytes_of c2 a2.
Proof. intro H. unfold bytes_of. now rewrite combine_app_eq, flat_map_app. Qed.

Lemma sum_enc_app a b : sum_enc (a ++ b) = sum_enc a + sum_enc b.
Proof. induction a; cbn [sum_enc app]; lia. Qed.

Lemma sum_enc_nonneg cs : Forall (fun c => 0 <= c_enc c) cs -> 0 <= sum_enc cs.
Proof. induction 1; cbn [sum_enc]; lia. Qed.

Lemma bytes_of_const a cs : Forall (fun c => 0 <= c_enc c) cs ->
  bytes_of cs (repeat a (length cs)) = repeat a (Z.to_nat (sum_enc cs)).
Proof.
  induction 1 as [|c t Hc Ht IH]; [reflexivity|].
  cbn [length repeat sum_enc]. unfold bytes_of in *. cbn [combine flat_map fst snd].
  rewrite IH. pose proof (sum_enc_nonneg t Ht). now rewrite <- repeat_Z_add.
Qed.

Lemma bytes_of_ones cs : forall ats, Forall (fun c => c_enc c = 1) cs -> length ats = length cs ->
  bytes_of cs ats = ats.
Proof.
  induction cs as [|c t IH]; intros [|a u] H L; cbn in L; try discriminate; [reflexivity|].
  inversion H; subst. unfold bytes_of in *. cbn [combine flat_map fst snd].
  rewrite H2. change (Z.to_nat 1) with 1%nat. cbn [repeat app]. f_equal. apply IH; [assumption | lia].
Qed.

Lemma all_ones cs : Forall (fun c => 1 <= c_enc c) cs -> sum_enc cs = zlen cs -> Forall (fun c => c_enc c = 1) cs.
Proof.
  induction 1 as [|c t Hc Ht IH]; intro E; [constructor|].
  cbn [sum_enc] in E. rewrite zlen_cons in E.
  assert (zlen t <= sum_enc t).
  { clear -Ht. induction Ht; [reflexivity|]. cbn [sum_enc]. rewrite zlen_cons. lia. }
  constructor; [lia | apply IH; lia].
Qed.

Lemma all_ones_le cs : Forall (fun c => 0 <= c_enc c <= 1) cs -> sum_enc cs = zlen cs -> Forall (fun c => c_enc c = 1) cs.
Proof.
  induction 1 as [|c t Hc Ht IH]; intro E; [constructor|].
  cbn [sum_enc] in E. rewrite zlen_cons in E.
  assert (sum_enc t <= zlen t).
  { clear -Ht. induction Ht; [reflexivity|]. cbn [sum_enc]. rewrite zlen_cons. lia. }
  constructor; [lia | apply IH; lia].
Qed.

(* ---------- the attribute walker ---------- *)
Definition aw_inv (attrs rest : rle) (counter offset : Z) : Prop :=
  rest = skipn (Z.to_nat counter) attrs /\ 0 <= counter /\ offset = rle_len (firstn (Z.to_nat counter) attrs).
Definition aw_ok (attrs : rle) (st : awstate) : Prop := exists rest, aw_inv attrs rest (fst st) (snd st).

Lemma skipn_cons_step {A} (l : list A) : forall k x r, skipn k l = x :: r ->
  skipn (S k) l = r /\ firstn (S k) l = firstn k l ++ [x].
Proof.
  induction l as [|y t IH]; intros k x r H.
  - rewrite skipn_nil in H. discriminate.
  - destruct k.
    + cbn in H. inversion H; subst. split; reflexivity.
    + cbn [skipn] in H. destruct (IH k x r H) as [A1 A2]. split; [exact A1|].
      change (firstn (S (S k)) (y :: t)) with (y :: firstn (S k) t). rewrite A2. reflexivity.
Qed.

Lemma aw_inv_step attrs a n rest' counter offset :
  aw_inv attrs ((a, n) :: rest') counter offset -> aw_inv attrs rest' (counter + 1) (offset + n).
Proof.
  intros (H1 & H2 & H3). symmetry in H1.
  destruct (skipn_cons_step _ _ _ _ H1) as [A1 A2]. unfold aw_inv.
  replace (Z.to_nat (counter + 1)) with (S (Z.to_nat counter)) by lia.
  split; [now symmetry|]. split; [lia|].
  rewrite A2, rle_len_app, <- H3. cbn [rle_len]. lia.
Qed.

Lemma aw_inv_init attrs : aw_inv attrs attrs 0 0.
Proof. repeat split; lia. Qed.

Lemma get_skip_prefix rest p pre : forall x, nonneg pre -> x + rle_len pre <= p ->
  rle_get_at_from x (pre ++ rest) p = rle_get_at_from (x + rle_len pre) rest p.
Proof.
  induction pre as [|[a n] t IH]; intros x Hn Hp; cbn [app rle_get_at_from rle_len] in *.
  - f_equal. lia.
  - apply nonneg_cons in Hn; cbn [snd] in Hn; destruct Hn as [H1 H2].
    pose proof (rle_len_nonneg t H2).
    destruct (p <? x + n) eqn:E; [lia|].
    rewrite IH by (assumption || lia). f_equal. lia.
Qed.

Lemma getpos_global attrs rest counter offset p : nonneg attrs -> aw_inv attrs rest counter offset ->
  0 <= p -> offset <= p -> rle_get_at_from offset rest p = rle_get_at attrs p.
Proof.
  intros Hn (H1 & H2 & H3) Hp Ho. unfold rle_get_at. destruct (p <? 0) eqn:E; [lia|].
  rewrite <- (firstn_skipn (Z.to_nat counter) attrs). rewrite <- H1.
  rewrite get_skip_prefix; [now rewrite Z.add_0_l, <- H3 | now apply Forall_firstn | lia].
Qed.

Lemma nonneg_skipn r n : nonneg r -> nonneg (skipn n r).
Proof. apply Forall_skipn. Qed.

(* the loop: positions from max(start, offset) up to e *)
Lemma arange_loop_spec rest : forall counter offset start e, nonneg rest -> start <= e ->
  let res := arange_loop rest counter offset start e in
  expand (fst res) = map (rle_get_at_from offset rest) (zrange' (Z.max start offset) e) /\
  nonneg (fst res) /\
  (offset <= e -> rle_len (fst res) = e - Z.max start offset).
Proof.
  induction rest as [|[a n] rest' IH]; intros counter offset start e Hn Hse; cbv zeta; cbn [arange_loop].
  - destruct (e <? offset) eqn:E0; cbn [fst expand rle_len].
    + rewrite zrange_empty by lia. repeat split; [constructor | lia].
    + rewrite app_nil_r. rewrite (@map_const_zrange attr _ None) by reflexivity.
      repeat split; [apply nonneg_cons; cbn [snd]; split; [lia | constructor] | lia].
  - apply nonneg_cons in Hn; cbn [snd] in Hn; destruct Hn as [Hn1 Hn2].
    destruct (e <? offset) eqn:E0; cbn [fst expand rle_len].
    { rewrite zrange_empty by lia. repeat split; [constructor | lia]. }
    destruct (offset + n <=? start) eqn:E1.
    { destruct (IH (counter + 1) (offset + n) start e Hn2 Hse) as (X & N & L).
      split; [|split; [exact N|]].
      - rewrite X. replace (Z.max start (offset + n)) with (Z.max start offset) by lia.
        apply map_ext_zrange. intros p Hp. cbn [rle_get_at_from].
        destruct (p <? offset + n) eqn:E2; [lia | reflexivity].
      - intro H. rewrite L by lia. lia. }
    destruct (e <=? offset + n) eqn:E2.
    { cbn [fst expand rle_len]. rewrite app_nil_r.
      rewrite (map_const_zrange _ a).
      - repeat split; [apply nonneg_cons; cbn [snd]; split; [lia | constructor] | lia].
      - intros p Hp. cbn [rle_get_at_from]. destruct (p <? offset + n) eqn:E3; [reflexivity | lia]. }
    destruct (IH (counter + 1) (offset + n) start e Hn2 Hse) as (X & N & L).
    destruct (arange_loop rest' (counter + 1) (offset + n) start e) as [o st]. cbn [fst] in *.
    cbn [expand rle_len]. split; [|split].
    + rewrite X. rewrite (zrange_split (Z.max start offset) (offset + n) e) by lia.
      rewrite map_app. f_equal.
      * symmetry. rewrite (map_const_zrange _ a); [f_equal; lia|].
        intros p Hp. cbn [rle_get_at_from]. destruct (p <? offset + n) eqn:E3; [reflexivity | lia].
      * replace (Z.max start (offset + n)) with (offset + n) by lia.
        apply map_ext_zrange. intros p Hp. cbn [rle_get_at_from].
        destruct (p <? offset + n) eqn:E3; [lia | reflexivity].
    + apply nonneg_cons; cbn [snd]; split; [lia | exact N].
    + intro H. rewrite L by lia. lia.
Qed.

Lemma arange_loop_state attrs rest : forall counter offset start e, aw_inv attrs rest counter offset ->
  aw_ok attrs (snd (arange_loop rest counter offset start e)).
Proof.
  induction rest as [|[a n] rest' IH]; intros counter offset start e Hi; cbn [arange_loop].
  - destruct (e <? offset); cbn [snd]; now exists [].
  - destruct (e <? offset); [cbn [snd]; exists ((a, n) :: rest'); exact Hi|].
    destruct (offset + n <=? start); [apply IH; now apply (aw_inv_step attrs a n)|].
    destruct (e <=? offset + n); [cbn [snd]; exists ((a, n) :: rest'); exact Hi|].
    specialize (IH (counter + 1) (offset + n) start e (aw_inv_step _ _ _ _ _ _ Hi)).
    destruct (arange_loop rest' (counter + 1) (offset + n) start e). exact IH.
Qed.

(* the point query: start = end *)
Lemma arange_loop_point rest : forall counter offset start, offset <= start ->
  fst (arange_loop rest counter offset start start) = [(rle_get_at_from offset rest start, 0)].
Proof.
  induction rest as [|[a n] rest' IH]; intros counter offset start H; cbn [arange_loop rle_get_at_from].
  - destruct (start <? offset) eqn:E; [lia|]. cbn [fst]. do 2 f_equal. lia.
  - destruct (start <? offset) eqn:E; [lia|].
    destruct (offset + n <=? start) eqn:E1.
    + rewrite IH by lia. destruct (start <? offset + n) eqn:E2; [lia | reflexivity].
    + destruct (start <=? offset + n) eqn:E2; [|lia]. cbn [fst].
      destruct (start <? offset + n) eqn:E3; [|lia]. do 2 f_equal. lia.
Qed.

Definition reset_state (st : awstate) (start : Z) : awstate := if start <? snd st then (0, 0) else st.

Lemma arange_unfold attrs st start e :
  arange attrs st start e =
  arange_loop (dropz (fst (reset_state st start)) attrs) (fst (reset_state st start)) (snd (reset_state st start)) start e.
Proof. unfold arange, reset_state. destruct (start <? snd st); destruct st; reflexivity. Qed.

Lemma reset_ok attrs st start : aw_ok attrs st -> 0 <= start ->
  aw_inv attrs (dropz (fst (reset_state st start)) attrs) (fst (reset_state st start)) (snd (reset_state st start)) /\
  snd (reset_state st start) <= start.
Proof.
  intros [rest Hi] Hs. unfold reset_state. destruct (start <? snd st) eqn:E; cbn [fst snd].
  - split; [apply aw_inv_init | lia].
  - split; [|lia]. destruct Hi as (H1 & H2 & H3). unfold dropz. rewrite <- H1. repeat split; assumption.
Qed.

Lemma arange_spec attrs st start e : nonneg attrs -> aw_ok attrs st -> 0 <= start -> start <= e ->
  expand (fst (arange attrs st start e)) = map (rle_get_at attrs) (zrange' start e) /\
  nonneg (fst (arange attrs st start e)) /\
  rle_len (fst (arange attrs st start e)) = e - start /\
  aw_ok attrs (snd (arange attrs st start e)).
Proof.
  intros Hn Hok Hs Hse. rewrite arange_unfold.
  destruct (reset_ok attrs st start Hok Hs) as [Hi Hle].
  set (c := fst (reset_state st start)) in *. set (off := snd (reset_state st start)) in *.
  assert (Hr : nonneg (dropz c attrs)) by (now apply nonneg_skipn).
  destruct (arange_loop_spec (dropz c attrs) c off start e Hr Hse) as (X & N & L).
  split; [|split; [exact N|split]].
  - rewrite X. replace (Z.max start off) with start by lia.
    apply map_ext_zrange. intros p Hp. eapply getpos_global; eauto; lia.
  - rewrite L by lia. lia.
  - now apply arange_loop_state.
Qed.

Lemma arange_point attrs st start : nonneg attrs -> aw_ok attrs st -> 0 <= start ->
  fst (arange attrs st start start) = [(rle_get_at attrs start, 0)] /\
  aw_ok attrs (snd (arange attrs st start start)).
Proof.
  intros Hn Hok Hs. rewrite arange_unfold.
  destruct (reset_ok attrs st start Hok Hs) as [Hi Hle].
  split; [|now apply arange_loop_state].
  rewrite arange_loop_point by assumption. do 2 f_equal.
  eapply getpos_global; eauto; lia.
Qed.

(* ---------- attrrange ---------- *)
Lemma fold_append_expand runs : forall linea, nonneg runs -> nonneg linea -> nozero linea ->
  expand (fold_left rle_append_modify runs linea) = expand linea ++ expand runs /\
  nonneg (fold_left rle_append_modify runs linea) /\ nozero (fold_left rle_append_modify runs linea).
Proof.
  induction runs as [|[a n] t IH]; intros linea Hr Hl Hz; cbn [fold_left expand].
  - now rewrite app_nil_r.
  - apply nonneg_cons in Hr; cbn [snd] in Hr; destruct Hr as [H1 H2].
    destruct (IH (rle_append_modify linea (a, n)) H2 (nonneg_append_modify _ _ _ Hl H1)
                 (nozero_append_modify _ _ _ Hz Hl H1)) as (X & N & Z).
    split; [|split; assumption]. rewrite X, expand_append_modify by assumption. now rewrite app_assoc.
Qed.

Definition encs_nonneg (text : list chr) : Prop := Forall (fun c => 0 <= c_enc c) text.

Lemma enc_len_sub text a b : 0 <= a -> a <= b -> b <= zlen text -> enc_len text a b = sum_enc (sub text a b).
Proof. intros. unfold enc_len. now rewrite py_slice_sub. Qed.

Lemma slow_spec text : encs_nonneg text -> forall runs o e destw linea,
  nonneg runs -> rle_len runs = e - o -> 0 <= o -> e <= zlen text ->
  destw = sum_enc (sub text o e) -> nonneg linea -> nozero linea ->
  expand (attrrange_slow text runs o e destw linea) = expand linea ++ bytes_of (sub text o e) (expand runs) /\
  nonneg (attrrange_slow text runs o e destw linea) /\ nozero (attrrange_slow text runs o e destw linea).
Proof.
  intros Henc. induction runs as [|[a n] t IH]; intros o e destw linea Hr Hl Ho He Hd Hla Hz; cbn [attrrange_slow].
  - cbn [expand]. unfold bytes_of. rewrite combine_nil. cbn [flat_map]. rewrite app_nil_r. auto.
  - apply nonneg_cons in Hr; cbn [snd] in Hr; destruct Hr as [H1 H2].
    pose proof (rle_len_nonneg t H2) as Ht. cbn [rle_len] in Hl.
    assert (Hsub : Forall (fun c => 0 <= c_enc c) (sub text o e)) by (now apply Forall_sub).
    destruct (o + n =? e) eqn:E.
    + assert (rle_len t = 0) by lia. cbn [expand]. rewrite (expand_zero t) by assumption. rewrite app_nil_r.
      pose proof (sum_enc_nonneg _ Hsub).
      rewrite expand_append_modify by (assumption || lia).
      split; [|split; [apply nonneg_append_modify | apply nozero_append_modify]; assumption || lia].
      f_equal. subst destw. rewrite <- bytes_of_const by assumption. f_equal.
      rewrite length_sub by lia. f_equal. lia.
    + assert (Hm : o + n <= e) by lia.
      rewrite enc_len_sub by lia.
      assert (Hs1 : Forall (fun c => 0 <= c_enc c) (sub text o (o + n))) by (now apply Forall_sub).
      pose proof (sum_enc_nonneg _ Hs1) as Hp1.
      destruct (IH (o + n) e (destw - sum_enc (sub text o (o + n))) (rle_append_modify linea (a, sum_enc (sub text o (o + n)))))
        as (X & N & Z); try assumption; try lia.
      * subst destw. rewrite (sub_split text o (o + n) e) by lia. rewrite sum_enc_app. lia.
      * now apply nonneg_append_modify.
      * now apply nozero_append_modify.
      * split; [|split; assumption]. rewrite X, expand_append_modify by assumption.
        cbn [expand]. rewrite (sub_split text o (o + n) e) by lia.
        rewrite bytes_of_app by (rewrite length_sub, repeat_length by lia; f_equal; lia).
        rewrite <- app_assoc. do 2 f_equal.
        rewrite <- bytes_of_const by assumption. f_equal. rewrite length_sub by lia. f_equal. lia.
Qed.

(* ---------- well-formed segments and what they must show ---------- *)
Definition wf_seg (text : list chr) (s : seg) : Prop :=
  match s with
  | SText sc o e => 0 < sc /\ 0 <= o /\ o < e /\ e <= zlen text
  | SIns sc o txt ilen => 0 < sc /\ 0 <= o /\ 0 <= ilen
  | SPad sc None => 0 <= sc
  | SPad sc (Some o) => 0 <= sc /\ 0 <= o
  end.

(* per byte of the line: the attribute the property demands
   - a text segment shows text[o:e]; character i occupies c_enc(i) bytes, all carrying the
     attribute of character i (rle_get_at attrs i, None past the end of the runs);
   - inserted text (ellipsis) takes the attribute at its text offset (an insert whose text is
     empty is treated as a pad); a pad (sc, offs) - the blank standing for half a wide
     character - takes the attribute at its text offset, offset 0 included;
   - alignment padding (sc, None) carries None *)
Definition seg_spec (text : list chr) (attrs : rle) (s : seg) : list attr :=
  match s with
  | SText _ o e => bytes_of (sub text o e) (map (rle_get_at attrs) (zrange' o e))
  | SIns sc o txt ilen =>
      if rc_len txt =? 0 then repeat (rle_get_at attrs o) (Z.to_nat sc)
      else repeat (rle_get_at attrs o) (Z.to_nat ilen)
  | SPad sc None => repeat None (Z.to_nat sc)
  | SPad sc (Some o) => repeat (rle_get_at attrs o) (Z.to_nat sc)
  end.

(* what is known of the per-character data: no negative lengths, and a byte of a bytes text /
   an ASCII character of a str text never becomes more than one byte (it is 0 bytes for SO/SI) *)
Definition enc_ok (isb : bool) (text : list chr) : Prop :=
  Forall (fun c => 0 <= c_enc c /\ ((isb = true \/ c_ascii c = true) -> c_enc c <= 1)) text.

Lemma enc_ok_nonneg isb text : enc_ok isb text -> encs_nonneg text.
Proof. apply Forall_impl. intros c [H _]. exact H. Qed.

Definition ls_ok (attrs : rle) (ls : lstate) : Prop :=
  nonneg (l_attr ls) /\ nozero (l_attr ls) /\ aw_ok attrs (l_aw ls).

Lemma attrrange_point isb text attrs st linea o destw : nonneg attrs -> aw_ok attrs st -> nonneg linea -> nozero linea ->
  0 <= o -> 0 <= destw ->
  exists la st', attrrange isb text attrs st linea o o destw = Ok (la, st') /\
    expand la = expand linea ++ repeat (rle_get_at attrs o) (Z.to_nat destw) /\ nonneg la /\ nozero la /\ aw_ok attrs st'.
Proof.
  intros Hn Hok Hl Hz Ho Hd. unfold attrrange.
  destruct (arange_point attrs st o Hn Hok Ho) as [P S].
  destruct (arange attrs st o o) as [runs st']. cbn [fst snd] in *. subst runs.
  rewrite Z.eqb_refl. eexists _, _. split; [reflexivity|].
  split; [now apply expand_append_modify|]. split; [now apply nonneg_append_modify|].
  split; [now apply nozero_append_modify | exact S].
Qed.

(* the shortcut of attrrange is only taken when every character of the segment is one byte *)
Lemma fast_path_ones isb text o e : enc_ok isb text -> 0 <= o -> o < e -> e <= zlen text ->
  sum_enc (sub text o e) = e - o -> (isb || forallb c_ascii (py_slice text o e)) = true ->
  Forall (fun c => c_enc c = 1) (sub text o e).
Proof.
  intros Hok Ho Hoe He Hs Hf. rewrite py_slice_sub in Hf by lia.
  apply all_ones_le; [|unfold zlen; rewrite length_sub by lia; lia].
  pose proof (Forall_sub _ text o e Hok) as Hsub.
  destruct isb.
  - eapply Forall_impl; [|exact Hsub]. intros c [H1 H2]. split; [assumption | apply H2; now left].
  - cbn [orb] in Hf. rewrite forallb_forall in Hf. rewrite Forall_forall in *.
    intros c Hc. destruct (Hsub c Hc) as [H1 H2]. split; [assumption | apply H2; right; now apply Hf].
Qed.

Lemma do_seg_spec isb text attrs ls s : enc_ok isb text -> nonneg attrs -> wf_seg text s ->
  ls_ok attrs ls ->
  exists ls', do_seg isb text attrs ls s = Ok ls' /\
    expand (l_attr ls') = expand (l_attr ls) ++ seg_spec text attrs s /\ ls_ok attrs ls'.
Proof.
  intros Hok Hn Hwf (Hla & Hz & Haw). pose proof (enc_ok_nonneg _ _ Hok) as Henc. unfold do_seg.
  destruct s as [sc o e | sc o txt ilen | sc [o|]]; cbn [wf_seg seg_check seg_sc seg_spec] in *.
  - destruct Hwf as (H1 & H2 & H3 & H4).
    destruct (sc <=? 0) eqn:E0; [lia|].
    destruct (e =? 0) eqn:E1; [lia|]. cbn [negb].
    rewrite enc_len_sub by lia.
    destruct (arange_spec attrs (l_aw ls) o e Hn Haw H2 ltac:(lia)) as (X & N & L & S).
    unfold attrrange.
    destruct (arange attrs (l_aw ls) o e) as [runs st']. cbn [fst snd] in *.
    destruct (o =? e) eqn:E2; [lia|].
    assert (Hsub : Forall (fun c => 0 <= c_enc c) (sub text o e)) by (now apply Forall_sub).
    destruct ((sum_enc (sub text o e) =? e - o) && (isb || forallb c_ascii (py_slice text o e))) eqn:E3.
    + apply andb_prop in E3. destruct E3 as [E3 E4].
      destruct (fold_append_expand runs (l_attr ls) N Hla Hz) as (X2 & N2 & Z2).
      eexists. split; [reflexivity|]. cbn [l_attr l_aw]. split; [|repeat split; assumption].
      rewrite X2, X. f_equal. symmetry. apply bytes_of_ones.
      * apply (fast_path_ones isb); try assumption; lia.
      * rewrite map_length, length_zrange, length_sub by lia. reflexivity.
    + destruct (slow_spec text Henc runs o e (sum_enc (sub text o e)) (l_attr ls)) as (X2 & N2 & Z2);
        try assumption; try lia.
      eexists. split; [reflexivity|]. cbn [l_attr l_aw]. split; [|repeat split; assumption].
      now rewrite X2, X.
  - destruct Hwf as (H1 & H2 & H4).
    destruct (sc <=? 0) eqn:E0; [lia|]. change (0 =? 0) with true. cbn [negb].
    destruct (rc_len txt =? 0) eqn:E1; cbn [negb].
    + (* an insert with empty text behaves as a pad at its offset *)
      destruct (sc =? 0) eqn:E3; [lia|]. cbn [negb].
      destruct (attrrange_point isb text attrs (l_aw ls) (l_attr ls) o sc Hn Haw Hla Hz H2 ltac:(lia)) as (la & st' & E & X & N & Z & S).
      rewrite E. eexists. split; [reflexivity|]. cbn [l_attr l_aw]. split; [exact X | repeat split; assumption].
    + destruct (attrrange_point isb text attrs (l_aw ls) (l_attr ls) o ilen Hn Haw Hla Hz H2 H4) as (la & st' & E & X & N & Z & S).
      rewrite E. eexists. split; [reflexivity|]. cbn [l_attr l_aw]. split; [exact X | repeat split; assumption].
  - destruct Hwf as [H1 H2]. destruct (sc <? 0) eqn:E0; [lia|]. change (0 =? 0) with true. cbn [negb].
    destruct (sc =? 0) eqn:E2; cbn [negb].
    + exists ls. split; [reflexivity|]. replace sc with 0 by lia. cbn. rewrite app_nil_r. split; [reflexivity | repeat split; assumption].
    + destruct (attrrange_point isb text attrs (l_aw ls) (l_attr ls) o sc Hn Haw Hla Hz H2 H1) as (la & st' & E & X & N & Z & S).
      rewrite E. eexists. split; [reflexivity|]. cbn [l_attr l_aw]. split; [exact X | repeat split; assumption].
  - change (0 =? 0) with true. cbn [negb].
    destruct (sc =? 0) eqn:E2; cbn [negb].
    + exists ls. split; [reflexivity|]. replace sc with 0 by lia. cbn. rewrite app_nil_r. split; [reflexivity | repeat split; assumption].
    + eexists. split; [reflexivity|]. cbn [l_attr l_aw]. split; [|repeat split; try assumption].
      * rewrite expand_app. cbn [expand]. now rewrite app_nil_r.
      * apply nonneg_app. split; [assumption|]. apply nonneg_cons; cbn [snd]; split; [lia | constructor].
      * apply Forall_app. split; [assumption|]. constructor; [cbn [snd]; lia | constructor].
Qed.

Lemma do_segs_spec isb text attrs segs : enc_ok isb text -> nonneg attrs ->
  Forall (wf_seg text) segs ->
  forall ls, ls_ok attrs ls ->
  exists ls', do_segs isb text attrs ls segs = Ok ls' /\
    expand (l_attr ls') = expand (l_attr ls) ++ flat_map (seg_spec text attrs) segs /\ ls_ok attrs ls'.
Proof.
  intros Hok Hn Hwf. induction Hwf as [|s r Hs Hr IH]; intros ls Hls.
  - exists ls. cbn. rewrite app_nil_r. auto.
  - destruct (do_seg_spec isb text attrs ls s Hok Hn Hs Hls) as (ls1 & E1 & X1 & O1).
    destruct (IH ls1 O1) as (ls2 & E2 & X2 & O2).
    exists ls2. cbn [do_segs]. rewrite E1. split; [exact E2|]. split; [|exact O2].
    rewrite X2, X1. cbn [flat_map]. now rewrite app_assoc.
Qed.

(* the lines as trim_line hands them to the segment loop *)
Definition trimmed_lines (text : list chr) (maxcol : Z) (lines tl : list (list seg)) : Prop :=
  Forall2 (fun l l' => trim_line text l maxcol = Ok l' /\ Forall (wf_seg text) l') lines tl.

(* the lines of a whole layout, with the attribute walker shared between lines *)
Lemma do_lines_spec isb text attrs maxcol lines tl : enc_ok isb text -> nonneg attrs ->
  trimmed_lines text maxcol lines tl ->
  forall aw, aw_ok attrs aw ->
  exists lss, do_lines isb text attrs maxcol aw lines = Ok lss /\
    Forall2 (fun segs ls => expand (l_attr ls) = flat_map (seg_spec text attrs) segs /\
                            nonneg (l_attr ls) /\ nozero (l_attr ls)) tl lss.
Proof.
  intros Hok Hn Hwf. induction Hwf as [|l l' r r' [Ht Hl] Hr IH]; intros aw Haw.
  - exists []. split; [reflexivity | constructor].
  - destruct (do_segs_spec isb text attrs l' Hok Hn Hl (LS [] 0 0 aw)) as (ls1 & E1 & X1 & (N1 & Z1 & O1)).
    { split; [constructor | split; [constructor | exact Haw]]. }
    destruct (IH (l_aw ls1) O1) as (lss & E2 & F2).
    exists (ls1 :: lss). cbn [do_lines]. rewrite Ht, E1, E2. split; [reflexivity|].
    constructor; [|exact F2]. split; [exact X1 | split; assumption].
Qed.

(* TextCanvas.__init__ only appends None, and never a zero-length run *)
Lemma canvas_line_spec maxcol ls row : nonneg (l_attr ls) -> nozero (l_attr ls) -> canvas_line maxcol ls = Ok row ->
  (exists k, expand row = expand (l_attr ls) ++ repeat None k) /\ nozero row.
Proof.
  intros Hn Hz. unfold canvas_line. destruct (maxcol <? l_cols ls); [discriminate|].
  set (gap := _ - rle_len (l_attr ls)).
  destruct (gap <? 0) eqn:E0; [discriminate|]. destruct (gap =? 0) eqn:E1; intro H; inversion H; subst.
  - split; [exists 0%nat; now rewrite app_nil_r | assumption].
  - split; [exists (Z.to_nat gap); apply expand_append_modify; [assumption | lia]|].
    apply nozero_append_modify; [assumption | assumption | lia].
Qed.

Lemma canvas_lines_spec maxcol lss : forall rows, Forall (fun ls => nonneg (l_attr ls) /\ nozero (l_attr ls)) lss ->
  canvas_lines maxcol lss = Ok rows ->
  Forall2 (fun ls row => (exists k, expand row = expand (l_attr ls) ++ repeat None k) /\ nozero row) lss rows.
Proof.
  induction lss as [|x r IH]; intros rows Hn H; cbn [canvas_lines] in H.
  - inversion H; subst. constructor.
  - inversion Hn as [|? ? [Hx1 Hx2] Hr]; subst.
    destruct (canvas_line maxcol x) as [a|] eqn:E1; [|discriminate].
    destruct (canvas_lines maxcol r) as [rs|] eqn:E2; [|discriminate].
    inversion H; subst. constructor; [now apply (canvas_line_spec maxcol) | now apply IH].
Qed.

Lemma layout_rows_spec isb text attrs lines tl maxcol rows :
  enc_ok isb text -> nonneg attrs -> trimmed_lines text maxcol lines tl ->
  apply_text_layout isb text attrs lines maxcol = Ok rows ->
  Forall2 (fun segs row => (exists k, expand row = flat_map (seg_spec text attrs) segs ++ repeat None k) /\ nozero row)
          tl rows.
Proof.
  intros Hok Hn Hwf. unfold apply_text_layout.
  destruct (do_lines_spec isb text attrs maxcol lines tl Hok Hn Hwf (0, 0)) as (lss & E & F).
  { exists attrs. apply aw_inv_init. }
  rewrite E. intro H.
  assert (Hnn : Forall (fun ls => nonneg (l_attr ls) /\ nozero (l_attr ls)) lss).
  { clear -F. induction F; constructor; [tauto | assumption]. }
  pose proof (canvas_lines_spec maxcol lss rows Hnn H) as G.
  clear -F G. revert rows G. induction F as [|segs ls l l' (X & N & Z) _ IH]; intros rows G; inversion G; subst; constructor.
  - destruct H1 as [[k Hk] Hz]. split; [exists k; now rewrite Hk, X | assumption].
  - now apply IH.
Qed.

(* no ValueError from a well-formed layout *)
Lemma layout_no_value_error isb text attrs lines tl maxcol :
  enc_ok isb text -> nonneg attrs -> trimmed_lines text maxcol lines tl ->
  exists lss, do_lines isb text attrs maxcol (0, 0) lines = Ok lss.
Proof.
  intros Hok Hn Hwf.
  destruct (do_lines_spec isb text attrs maxcol lines tl Hok Hn Hwf (0, 0)) as (lss & E & _).
  { exists attrs. apply aw_inv_init. }
  now exists lss.
Qed.
