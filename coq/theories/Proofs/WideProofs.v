(* C11 - double-byte ("wide") and single-byte ("narrow") modes: calc_text_pos never returns the
   second half of a double-byte character (for every byte string), stays within one column of the
   requested column, and the narrow mode is the identity on offsets. *)
From Coq Require Import ZArith List Bool Lia ZifyBool.
Import ListNotations.
From Urwid Require Import PyBase PyList Utf8 wcwidth_table_gen str_util_gen Width WidthFacts.
Open Scope Z_scope.
Arguments Z.add : simpl never.
Arguments Z.sub : simpl never.
Arguments Z.mul : simpl never.
Arguments Z.ltb : simpl never.
Arguments Z.leb : simpl never.
Arguments Z.eqb : simpl never.
Arguments Z.land : simpl never.
Arguments Z.of_nat : simpl never.
Arguments Z.to_nat : simpl never.
Ltac Zify.zify_post_hook ::= Z.to_euclidean_division_equations.

Lemma get_index_ok {A} (l : list A) i : 0 <= i < zlen l -> exists b, get_index l i = Ok b /\ nthz l i = Some b.
Proof.
  intros H. rewrite get_index_in by lia. unfold nthz. destruct (i <? 0) eqn:E; [lia|].
  destruct (nth_error l (Z.to_nat i)) as [b|] eqn:En.
  - exists b. split; reflexivity.
  - apply nth_error_None in En. unfold zlen in *. lia.
Qed.

Lemma land_1 x : Z.land x 1 = x mod 2.
Proof. change 1 with (Z.ones 1) at 1. rewrite Z.land_ones by lia. reflexivity. Qed.

(* the backwards scan over high bytes *)
Lemma wdb_scan_spec text ls : forall n i,
  0 <= ls -> ls - 1 <= i -> i < zlen text -> i - ls + 1 <= Z.of_nat n ->
  exists j, wdb_scan text n i ls = Ok j /\ ls - 1 <= j /\ (ls <= i -> j <= i) /\ (i < ls -> j = i) /\
    (forall t, j < t <= i -> exists b, nthz text t = Some b /\ 128 <= b) /\
    (j = ls - 1 \/ exists b, nthz text j = Some b /\ b < 128).
Proof.
  induction n as [|n IH]; intros i Hls Hlo Hi Hn; cbn [wdb_scan].
  - destruct (ls <=? i) eqn:E; [lia|]. exists i. split; [reflexivity|].
    split; [lia|]. split; [lia|]. split; [lia|]. split; [intros; lia|left; lia].
  - destruct (ls <=? i) eqn:E.
    + destruct (get_index_ok text i ltac:(lia)) as (b & G & Hb). rewrite G.
      destruct (b <? 128) eqn:E2.
      * exists i. split; [reflexivity|]. split; [lia|]. split; [lia|]. split; [lia|].
        split; [intros; lia|right; exists b; split; [exact Hb|lia]].
      * destruct (IH (i - 1) Hls ltac:(lia) ltac:(lia) ltac:(lia)) as (j & Ej & H1 & H2 & H3 & H4 & H5).
        exists j. split; [exact Ej|]. split; [lia|]. split; [lia|]. split; [lia|]. split; [|exact H5].
        intros t Ht. destruct (Z.eq_dec t i) as [->|]; [exists b; split; [exact Hb|lia]|apply H4; lia].
    + exists i. split; [reflexivity|]. split; [lia|]. split; [lia|]. split; [lia|].
      split; [intros; lia|left; lia].
Qed.

Lemma wdb_scan_step text ls pos b :
  ls <= pos - 1 -> nthz text (pos - 1) = Some b -> 128 <= b -> 0 <= pos - 1 < zlen text ->
  wdb_scan text (Z.to_nat (pos - ls)) (pos - 1) ls = wdb_scan text (Z.to_nat (pos - 1 - ls)) (pos - 1 - 1) ls.
Proof.
  intros H1 Hn Hb Hr. replace (Z.to_nat (pos - ls)) with (S (Z.to_nat (pos - 1 - ls))) by lia.
  cbn [wdb_scan]. destruct (ls <=? pos - 1) eqn:E; [|lia].
  rewrite get_index_in by lia. rewrite Hn. destruct (b <? 128) eqn:E2; [lia|]. reflexivity.
Qed.

(* a high byte: the result does not depend on the recursion fuel and is 1 or 2 by parity *)
Lemma wdb_high text ls pos v f :
  0 <= ls <= pos -> pos < zlen text -> nthz text pos = Some v -> 128 <= v ->
  exists j, wdb_scan text (Z.to_nat (pos - ls)) (pos - 1) ls = Ok j /\
            wdb (S f) text ls pos = Ok (if (pos - j) mod 2 =? 0 then 2 else 1).
Proof.
  intros H1 H2 Hn Hv.
  destruct (wdb_scan_spec text ls (Z.to_nat (pos - ls)) (pos - 1) ltac:(lia) ltac:(lia) ltac:(lia) ltac:(lia))
    as (j & Ej & _).
  exists j. split; [exact Ej|]. cbn [wdb]. rewrite get_index_in by lia. rewrite Hn.
  destruct ((64 <=? v) && (v <? 127)) eqn:E1; [lia|]. destruct (v <? 128) eqn:E2; [lia|].
  rewrite Ej, land_1. destruct ((pos - j) mod 2 =? 0) eqn:E3; reflexivity.
Qed.

Lemma wdb_unfold f text ls pos :
  wdb (S f) text ls pos =
    match get_index text pos with
    | Err e => Err e
    | Ok v =>
      if (64 <=? v) && (v <? 127) then
        if pos =? ls then Ok 0
        else
          match get_index text (pos - 1) with
          | Err e => Err e
          | Ok p1 =>
              if 129 <=? p1 then
                match wdb f text ls (pos - 1) with
                | Err e => Err e
                | Ok r => if r =? 1 then Ok 2 else Ok 0
                end
              else Ok 0
          end
      else if v <? 128 then Ok 0
      else
        match wdb_scan text (Z.to_nat (pos - ls)) (pos - 1) ls with
        | Err e => Err e
        | Ok i => if negb (Z.land (pos - i) 1 =? 0) then Ok 1 else Ok 2
        end
    end.
Proof. reflexivity. Qed.

(* no exception inside the text, and the result is 0, 1 or 2 *)
Lemma wdb_total text ls pos :
  0 <= ls <= pos -> pos < zlen text ->
  exists r, within_double_byte text ls pos = Ok r /\ (r = 0 \/ r = 1 \/ r = 2).
Proof.
  intros H1 H2. unfold within_double_byte.
  destruct (get_index_ok text pos ltac:(lia)) as (v & G & Hn).
  destruct (Z_lt_le_dec v 128) as [Hlo|Hhi].
  - rewrite (wdb_unfold 2). rewrite G.
    destruct ((64 <=? v) && (v <? 127)) eqn:E1.
    + destruct (pos =? ls) eqn:E2; [exists 0; split; [reflexivity|lia]|].
      destruct (get_index_ok text (pos - 1) ltac:(lia)) as (p1 & G1 & Hn1). rewrite G1.
      destruct (129 <=? p1) eqn:E3; [|exists 0; split; [reflexivity|lia]].
      destruct (wdb_high text ls (pos - 1) p1 1 ltac:(lia) ltac:(lia) Hn1 ltac:(lia)) as (j & _ & Ew).
      rewrite Ew. destruct ((pos - 1 - j) mod 2 =? 0); cbn; [exists 0|exists 2]; split; (reflexivity || lia).
    + destruct (v <? 128) eqn:E2; [|lia]. exists 0. split; [reflexivity|lia].
  - destruct (wdb_high text ls pos v 2 ltac:(lia) ltac:(lia) Hn Hhi) as (j & _ & Ew). rewrite Ew.
    destruct ((pos - j) mod 2 =? 0); [exists 2|exists 1]; split; (reflexivity || lia).
Qed.

(* the heart: when a position is the second half, the position before it is a first half *)
Lemma wdb_2_prev_1 text ls pos :
  0 <= ls <= pos -> pos < zlen text -> within_double_byte text ls pos = Ok 2 ->
  ls <= pos - 1 /\ within_double_byte text ls (pos - 1) = Ok 1.
Proof.
  intros H1 H2. unfold within_double_byte.
  destruct (get_index_ok text pos ltac:(lia)) as (v & G & Hn).
  destruct (Z_lt_le_dec v 128) as [Hlo|Hhi].
  - rewrite (wdb_unfold 2). rewrite G.
    destruct ((64 <=? v) && (v <? 127)) eqn:E1.
    + destruct (pos =? ls) eqn:E2; [discriminate|].
      destruct (get_index_ok text (pos - 1) ltac:(lia)) as (p1 & G1 & Hn1). rewrite G1.
      destruct (129 <=? p1) eqn:E3; [|discriminate].
      destruct (wdb_high text ls (pos - 1) p1 1 ltac:(lia) ltac:(lia) Hn1 ltac:(lia)) as (j & Ej & Ew).
      destruct (wdb_high text ls (pos - 1) p1 2 ltac:(lia) ltac:(lia) Hn1 ltac:(lia)) as (j' & Ej' & Ew').
      rewrite Ej in Ej'. inversion Ej'. subst j'. rewrite Ew. rewrite Ew'.
      destruct ((pos - 1 - j) mod 2 =? 0); cbn; intros; [discriminate|split; [lia|reflexivity]].
    + destruct (v <? 128) eqn:E2; [discriminate|lia].
  - destruct (wdb_high text ls pos v 2 ltac:(lia) ltac:(lia) Hn Hhi) as (j & Ej & Ew). rewrite Ew.
    destruct ((pos - j) mod 2 =? 0) eqn:Ep; [intros _|discriminate].
    destruct (wdb_scan_spec text ls (Z.to_nat (pos - ls)) (pos - 1) ltac:(lia) ltac:(lia) ltac:(lia) ltac:(lia))
      as (j0 & Ej0 & Hj1 & Hj2 & Hj3 & Hj4 & _).
    rewrite Ej in Ej0. inversion Ej0. subst j0.
    assert (Hls : ls <= pos - 1).
    { destruct (Z_lt_le_dec (pos - 1) ls); [|lia]. specialize (Hj3 ltac:(lia)). lia. }
    specialize (Hj2 Hls).
    assert (Hj : j <= pos - 2) by lia.
    destruct (Hj4 (pos - 1) ltac:(lia)) as (b & Hb & Hb128).
    split; [exact Hls|].
    destruct (wdb_high text ls (pos - 1) b 2 ltac:(lia) ltac:(lia) Hb Hb128) as (j' & Ej' & Ew').
    rewrite <- (wdb_scan_step text ls pos b Hls Hb Hb128 ltac:(lia)) in Ej'.
    rewrite Ej in Ej'. inversion Ej'. subst j'. rewrite Ew'.
    destruct ((pos - 1 - j) mod 2 =? 0) eqn:Ep2; [lia|reflexivity].
Qed.

Section Wide.
Variable wcw : Z -> Z.

Theorem calc_text_pos_wide_spec text a b col :
  0 <= a <= b -> b <= zlen text -> 0 <= col ->
  exists p c, calc_text_pos wcw MWide text a b col = Ok (p, c) /\
    a <= p <= b /\ c = p - a /\ c <= col /\
    (p = b \/ col - 1 <= c) /\
    (p < b -> exists r, within_double_byte text a p = Ok r /\ r <> 2) /\
    (p < b -> c = col - 1 -> within_double_byte text a p = Ok 1).
Proof.
  intros H1 H2 Hc. unfold calc_text_pos.
  destruct (b <? a) eqn:E; [lia|].
  destruct (b <=? a + col) eqn:E2.
  - exists b, (b - a). split; [reflexivity|]. repeat split; try lia.
  - destruct (wdb_total text a (a + col) ltac:(lia) ltac:(lia)) as (r & Er & Hr). rewrite Er.
    destruct (r =? 2) eqn:E3.
    + assert (r = 2) by lia. subst r.
      destruct (wdb_2_prev_1 text a (a + col) ltac:(lia) ltac:(lia) Er) as (Hp & Eprev).
      exists (a + col - 1), (a + col - 1 - a). split; [reflexivity|].
      split; [lia|]. split; [lia|]. split; [lia|]. split; [right; lia|]. split.
      * intros _. exists 1. split; [exact Eprev|lia].
      * intros _ _. exact Eprev.
    + exists (a + col), (a + col - a). split; [reflexivity|].
      split; [lia|]. split; [lia|]. split; [lia|]. split; [right; lia|]. split.
      * intros _. exists r. split; [exact Er|lia].
      * intros _ Hcc. lia.
Qed.

Theorem calc_text_pos_narrow_spec text a b col :
  0 <= a <= b -> 0 <= col ->
  calc_text_pos wcw MNarrow text a b col = Ok (Z.min b (a + col), Z.min b (a + col) - a).
Proof.
  intros H1 Hc. unfold calc_text_pos. destruct (b <? a) eqn:E; [lia|].
  destruct (b <=? a + col) eqn:E2; f_equal; f_equal; lia.
Qed.

Theorem calc_width_bytes_count m text a b :
  (m = MWide \/ m = MNarrow) -> a <= b -> calc_width wcw m text a b = Ok (b - a).
Proof.
  intros [-> | ->] H; unfold calc_width; destruct (b <? a) eqn:E; try lia; reflexivity.
Qed.

Theorem calc_trim_text_narrow_spec text a b sc ec :
  0 <= a <= b -> 0 <= sc < ec -> ec <= b - a ->
  calc_trim_text wcw MNarrow text a b sc ec = Ok (a + sc, a + ec, 0, 0).
Proof.
  intros H1 H2 H3. unfold calc_trim_text, calc_trim_text_gen.
  destruct (0 <? sc) eqn:E0.
  - rewrite calc_text_pos_narrow_spec by lia.
    replace (Z.min b (a + sc)) with (a + sc) by lia.
    destruct (a + sc - a <? sc) eqn:E1; [lia|].
    rewrite calc_text_pos_narrow_spec by lia.
    replace (Z.min b (a + sc + (ec - sc - 0))) with (a + ec) by lia.
    destruct (a + ec - (a + sc) <? ec - sc - 0) eqn:E2; [lia|]. reflexivity.
  - assert (sc = 0) by lia. subst sc.
    rewrite calc_text_pos_narrow_spec by lia.
    replace (Z.min b (a + (ec - 0 - 0))) with (a + ec) by lia.
    destruct (a + ec - a <? ec - 0 - 0) eqn:E2; [lia|]. f_equal. f_equal. f_equal. f_equal. lia.
Qed.

End Wide.
