(* The order / omission / fits theorems of the str layout, lifted to utf-8 bytes text through the
   boundary map boff (character index -> byte offset), using layout_bytes_is_image. *)
From Coq Require Import ZArith List Bool Lia ZifyBool.
Import ListNotations.
From Urwid Require Import PyBase PyList Utf8 TextLayout TextLayoutBytes TextLayoutFacts TextLayoutProofs TextLayoutTop
     TextLayoutBytesEq TextLayoutBytesSim.
From Urwid Require Utf8Proofs.
Open Scope Z_scope.

Arguments Z.add : simpl never.
Arguments Z.sub : simpl never.
Arguments Z.ltb : simpl never.
Arguments Z.leb : simpl never.
Arguments Z.eqb : simpl never.

Definition map_range (f : Z -> Z) (r : Z * Z) : Z * Z := (f (fst r), f (snd r)).

Lemma line_ranges_map f l : line_ranges (map_line f l) = map (map_range f) (line_ranges l).
Proof.
  induction l as [|x l IH]; [reflexivity|]. unfold line_ranges in *. cbn [map_line map flat_map].
  unfold map_line in IH. rewrite IH, map_app. f_equal. destruct x; reflexivity.
Qed.

Lemma shown_ranges_map f L : shown_ranges (map_layout f L) = map (map_range f) (shown_ranges L).
Proof.
  induction L as [|l L IH]; [reflexivity|]. unfold shown_ranges in *. cbn [map_layout map flat_map].
  unfold map_layout in IH. rewrite IH, map_app, line_ranges_map. reflexivity.
Qed.

Lemma ranges_sorted_map f hi0 : (forall a b, 0 <= a <= b -> b <= hi0 -> f a <= f b) ->
  (forall a b, 0 <= a < b -> b <= hi0 -> f a < f b) ->
  forall rs lo, 0 <= lo -> ranges_sorted lo rs hi0 -> ranges_sorted (f lo) (map (map_range f) rs) (f hi0).
Proof.
  intros Hm Hst. induction rs as [|[o e] r IH]; intros lo Hlo H; cbn [map ranges_sorted map_range fst snd] in *.
  - apply Hm; lia.
  - destruct H as (A & Bb & C). pose proof (ranges_sorted_bounds _ _ _ C) as (D & _).
    split; [apply Hm; lia|]. split; [apply Hst; lia|]. apply IH; [lia | assumption].
Qed.

Section BytesTop.
Variable wcw : Z -> Z.
Hypothesis Hw : forall c, wcw c <= 2.
Hypothesis Hsp : u8_cw wcw SP = 1.
Variable s : list Z.
Hypothesis Hs : Forall (fun c => scalar c = true) s.
Variable ell : list Z.
Hypothesis He : Forall (fun c => scalar c = true) ell.
Variable width : Z.
Hypothesis Hwd : 1 <= width.
Variable align : alignmode.
Variable wrap : wrapmode.

Notation cw := (u8_cw wcw).
Notation bs := (encs s).
Notation B := (boff s).
Notation len := (zlen s).

Lemma image Lb : layout_b wcw bs width align wrap ell = Ok Lb ->
  exists L, layout cw s width align wrap ell = Ok L /\ Lb = map_layout B L.
Proof.
  rewrite (layout_bytes_is_image wcw s width align wrap ell Hw Hsp Hs He Hwd).
  destruct (layout cw s width align wrap ell) as [L|e]; cbn [map_result]; intros E; inversion E. eauto.
Qed.

(* every byte offset lies inside exactly one character *)
Lemma char_of_byte j : 0 <= j < zlen bs -> exists k, 0 <= k < len /\ B k <= j < B (k + 1).
Proof.
  intros Hj. rewrite <- (B_len s) in Hj.
  assert (G : forall n : nat, Z.of_nat n <= len -> j < B (Z.of_nat n) -> exists k, 0 <= k < Z.of_nat n /\ B k <= j < B (k + 1)).
  { induction n as [|n IH]; intros Hn Hlt.
    - change (B (Z.of_nat 0)) with 0 in Hlt. lia.
    - destruct (Z_lt_le_dec j (B (Z.of_nat n))) as [L|Ge].
      + destruct (IH ltac:(lia) L) as (k & Hk & Hb). exists k. split; [lia | assumption].
      + exists (Z.of_nat n). split; [lia|]. replace (Z.of_nat n + 1) with (Z.of_nat (S n)) by lia. lia. }
  pose proof (zlen_nonneg s). destruct (G (Z.to_nat len) ltac:(lia) ltac:(replace (Z.of_nat (Z.to_nat len)) with len by lia; lia)) as (k & Hk & Hb).
  exists k. split; [lia | assumption].
Qed.

Theorem bytes_layout_order Lb : layout_b wcw bs width align wrap ell = Ok Lb ->
  ranges_sorted 0 (shown_ranges Lb) (zlen bs).
Proof.
  intros E. destruct (image Lb E) as (L & EL & ->).
  pose proof (layout_order cw (cw_rng wcw Hw) Hsp s width Hwd align ell wrap L EL) as S0.
  rewrite shown_ranges_map. rewrite <- (B_len s). change 0 with (B 0) at 1.
  apply ranges_sorted_map; try assumption; try lia.
  - intros a b H1 H2. apply (B_mono s); assumption.
  - intros a b H1 H2. apply (B_strict wcw Hw s Hs); assumption.
Qed.

(* lines keep their widths; a text segment spans whole characters and claims exactly their columns, which is
   also what the byte-mode calc_width reports for that byte range *)
Theorem bytes_layout_fits Lb : is_wrap wrap -> layout_b wcw bs width align wrap ell = Ok Lb ->
  forall ln, In ln Lb -> 0 <= line_width ln <= width /\
    forall sc o e, In (SText sc o e) ln ->
      exists o' e', o = B o' /\ e = B e' /\ 0 <= o' < e' /\ e' <= len /\ sc = sumw cw (slice s o' e') /\
                    calc_width_b wcw bs o e = LOk sc.
Proof.
  intros Hm E ln I. destruct (image Lb E) as (L & EL & ->).
  unfold map_layout in I. apply in_map_iff in I. destruct I as (l0 & <- & I0).
  destruct (wrap_layout_fits cw (cw_rng wcw Hw) Hsp s width Hwd align ell wrap Hm L EL l0 I0) as (F1 & F2).
  rewrite line_width_map. split; [exact F1|].
  intros sc o e Hin. unfold map_line in Hin. apply in_map_iff in Hin. destruct Hin as (x & Ex & Ix).
  destruct x; cbn [map_seg] in Ex; inversion Ex; subst.
  destruct (F2 _ _ _ Ix) as (A & Bb & C & D). exists offs, e0. repeat split; try lia.
  rewrite A. apply sim_calc_width; [assumption | lia | lia].
Qed.

(* any/space: the character containing a byte offset is shown (then the offset lies in the image of its
   range) or is omitted for one of the reasons of the str theorem *)
Theorem bytes_layout_omits_only_wrap Lb : is_wrap wrap -> layout_b wcw bs width align wrap ell = Ok Lb -> Lb <> [[]] ->
  exists L, layout cw s width align wrap ell = Ok L /\ Lb = map_layout B L /\
  forall j, 0 <= j < zlen bs -> exists k, 0 <= k < len /\ B k <= j < B (k + 1) /\
    (in_ranges j (shown_ranges Lb) \/ omit_ok cw s wrap L k).
Proof.
  intros Hm E NE. destruct (image Lb E) as (L & EL & ->). exists L. split; [exact EL|]. split; [reflexivity|].
  assert (NE' : L <> [[]]) by (intros ->; apply NE; reflexivity).
  pose proof (layout_order cw (cw_rng wcw Hw) Hsp s width Hwd align ell wrap L EL) as S0.
  destruct (ranges_sorted_bounds _ _ _ S0) as (_ & Hb).
  intros j Hj. destruct (char_of_byte j Hj) as (k & Hk & Hjk). exists k. split; [exact Hk|]. split; [exact Hjk|].
  destruct (wrap_layout_omits_only cw (cw_rng wcw Hw) Hsp s width Hwd align ell wrap Hm L EL NE' k Hk) as [(o & e & I & R)|H].
  - left. exists (B o), (B e). split.
    + rewrite shown_ranges_map. apply (in_map (map_range B) _ (o, e)). exact I.
    + specialize (Hb _ _ I).
      pose proof (B_mono s o k ltac:(lia) ltac:(lia)). pose proof (B_mono s (k + 1) e ltac:(lia) ltac:(lia)). lia.
  - right. exact H.
Qed.

Theorem bytes_layout_omits_only_trim Lb : is_trim wrap -> layout_b wcw bs width align wrap ell = Ok Lb ->
  forall j, 0 <= j < zlen bs -> exists k, 0 <= k < len /\ B k <= j < B (k + 1) /\
    (in_ranges j (shown_ranges Lb) \/ omit_ok_trim cw s width wrap ell k).
Proof.
  intros Hm E. destruct (image Lb E) as (L & EL & ->).
  pose proof (layout_order cw (cw_rng wcw Hw) Hsp s width Hwd align ell wrap L EL) as S0.
  destruct (ranges_sorted_bounds _ _ _ S0) as (_ & Hb).
  intros j Hj. destruct (char_of_byte j Hj) as (k & Hk & Hjk). exists k. split; [exact Hk|]. split; [exact Hjk|].
  destruct (trim_layout_omits_only cw (cw_rng wcw Hw) s width Hwd align ell wrap Hm L EL k Hk) as [(o & e & I & R)|H].
  - left. exists (B o), (B e). split.
    + rewrite shown_ranges_map. apply (in_map (map_range B) _ (o, e)). exact I.
    + specialize (Hb _ _ I).
      pose proof (B_mono s o k ltac:(lia) ltac:(lia)). pose proof (B_mono s (k + 1) e ltac:(lia) ltac:(lia)). lia.
  - right. exact H.
Qed.

(* rows() on the bytes text = rows() on the str text *)
Theorem bytes_rows_eq : text_rows_b wcw bs width align wrap ell = text_rows cw s width align wrap ell.
Proof.
  unfold text_rows_b, text_rows.
  rewrite (layout_bytes_is_image wcw s width align wrap ell Hw Hsp Hs He Hwd).
  destruct (layout cw s width align wrap ell) as [L|e]; cbn [map_result to_lres lbind]; [|reflexivity].
  unfold map_layout, zlen. rewrite map_length. reflexivity.
Qed.

End BytesTop.
