(* C10 - the "row shape" hypothesis of click_cell / column_to_offset discharged for the layouts of
   StandardTextLayout: C03's model of text_layout.py (Model/TextLayout.v) and its invariants
   (Proofs/TextLayoutProofs.v, Proofs/TextLayoutTop.v) are imported read-only.  Every row of
   TextLayout.layout - and every row of the view an Edit shifts to its cursor - has the shape
   [cell_in_row] asks for, at every character of every text segment, in all four wrap modes and
   all alignments. *)
From Coq Require Import ZArith List Bool Lia ZifyBool.
From Urwid Require Import PyBase Edit EditSpec EditProofs EditLayoutProofs.
From Urwid Require TextLayout TextLayoutFacts TextLayoutProofs TextLayoutTop.
Import ListNotations.
Open Scope Z_scope.

Arguments Z.add : simpl never.
Arguments Z.sub : simpl never.
Arguments Z.mul : simpl never.
Arguments Z.div : simpl never.
Arguments Z.ltb : simpl never.
Arguments Z.leb : simpl never.
Arguments Z.eqb : simpl never.
Arguments Z.gtb : simpl never.
Arguments Z.geb : simpl never.
Arguments Z.to_nat : simpl never.
Arguments Z.of_nat : simpl never.

Module TL := TextLayout.
Module TP := TextLayoutProofs.
Module TT := TextLayoutTop.

(* the layout structure as the harness sends it to the Edit model: (sc, None) is a pad, (sc, offs)
   and (sc, offs, b"..") are hints, (sc, offs, end) is a text segment *)
Definition conv_seg (s : TL.seg) : seg :=
  match s with
  | TL.SText sc o e => SText sc o e
  | TL.SIns sc o _ => SHint sc o
  | TL.SPad sc o => SHint sc o
  | TL.SShift sc => SPad sc
  end.
Definition conv_line (l : TL.line) : line := map conv_seg l.
Definition conv_layout (L : list TL.line) : layout := map conv_line L.

(* in a line of the layout a text segment comes first (after the alignment shift) *)
Definition text_first (l0 : TL.line) : Prop :=
  forall sc o e, In (TL.SText sc o e) l0 -> exists post, l0 = TL.SText sc o e :: post.

Lemma LineOK_text_first cw t width wrap a l0 b : TP.LineOK cw t width wrap a l0 b -> text_first l0.
Proof.
  intros H sc o e I. inversion H; subst; cbn [In] in I.
  - destruct I as [Q|[]]; discriminate.
  - destruct I as [Q|[Q|[]]]; try discriminate. inversion Q; subst. eauto.
  - destruct I as [Q|[]]; try discriminate. inversion Q; subst. eauto.
Qed.

Lemma TLineOK_text_first cw t width wrap ell a l0 b : TP.TLineOK cw t width wrap ell a l0 b -> text_first l0.
Proof.
  intros H sc o e I. inversion H; subst.
  - destruct (TL.sumw cw (TL.slice t a nl) =? 0); cbn [app In] in I.
    + destruct I as [Q|[]]; discriminate.
    + destruct I as [Q|[Q|[]]]; try discriminate. inversion Q; subst. cbn [app]. eauto.
  - destruct (TL.sumw cw (TL.slice t a e0) =? 0); cbn [app In] in I.
    + destruct I as [Q|[Q|[]]]; discriminate.
    + destruct I as [Q|[Q|[Q|[]]]]; try discriminate. inversion Q; subst. cbn [app]. eauto.
Qed.

Lemma sumw_sumz cw l : TL.sumw cw l = sumz (map cw l).
Proof. induction l as [|c r IH]; [reflexivity|]. cbn [TL.sumw map sumz]. rewrite IH. reflexivity. Qed.

Lemma W_calc_width cw t o e : TL.sumw cw (TL.slice t o e) = calc_width cw t o e.
Proof. rewrite sumw_sumz. reflexivity. Qed.

Lemma nthz_in_range {A} (l : list A) i : 0 <= i < zlen l -> exists x, nthz l i = Some x.
Proof.
  intros H. unfold nthz. replace (i <? 0) with false by lia.
  destruct (nth_error l (Z.to_nat i)) eqn:E; [eauto|].
  apply nth_error_None in E. unfold zlen in H. lia.
Qed.

Section OnLayout.
Variable cw : Z -> Z.
Hypothesis cw_range : forall c, 0 <= cw c <= 2.
Hypothesis cw_space : cw TL.SP = 1.

(* every line of a StandardTextLayout layout is [shift] l0 with the text segment, if any, first *)
Lemma layout_line_shape t width align wrap ell L ln :
  1 <= width -> TL.layout cw t width align wrap ell = Ok L -> In ln L ->
  exists l0, text_first l0 /\ (ln = l0 \/ exists s, ln = TL.SShift s :: l0) /\
             (forall sc o e, In (TL.SText sc o e) l0 ->
                sc = calc_width cw t o e /\ 0 < sc /\ 0 <= o < e /\ e <= zlen t).
Proof.
  intros Hw E I.
  destruct (TT.wrap_cases wrap) as [Hm|Hm].
  - pose proof (TT.wrap_layout_fits cw cw_range cw_space t width Hw align ell wrap Hm L E ln I) as [_ F].
    destruct (TT.layout_wrap_cases cw cw_range cw_space t width Hw align ell wrap Hm) as [[E' _]|(segs & HL & E')].
    + rewrite E' in E. inversion E; subst. destruct I as [<-|[]].
      exists []. split; [intros sc o e []|]. split; [left; reflexivity|intros sc o e []].
    + rewrite E' in E. inversion E; subst.
      destruct (TT.aligned_line_origin cw t width align wrap segs _ ln HL eq_refl I) as (l0 & a & b & _ & HO & -> & NS & _).
      exists l0. split; [eapply LineOK_text_first; eauto|].
      pose proof (TP.align_line_spec cw cw_range width align l0 NS) as S. cbv zeta in S.
      split.
      * rewrite S. destruct (TP.pad_expected width align (TL.line_width l0) =? 0); [left; reflexivity|right; eauto].
      * intros sc o e I0. rewrite <- W_calc_width. apply F. rewrite S.
        destruct (TP.pad_expected width align (TL.line_width l0) =? 0); [exact I0|right; exact I0].
  - pose proof (TT.trim_layout_fits cw cw_range t width Hw align ell wrap Hm L E ln I) as (_ & F & _).
    destruct (TT.layout_trim_cases cw cw_range t width Hw align ell wrap Hm) as (segs & HL & E').
    rewrite E' in E. inversion E; subst.
    destruct (TT.trim_line_origin cw t width align ell wrap segs ln HL I) as (l0 & a & b & HO & -> & NS & _).
    exists l0. split; [eapply TLineOK_text_first; eauto|].
    pose proof (TP.align_line_spec cw cw_range width align l0 NS) as S. cbv zeta in S.
    split.
    + rewrite S. destruct (TP.pad_expected width align (TL.line_width l0) =? 0); [left; reflexivity|right; eauto].
    + intros sc o e I0. rewrite <- W_calc_width. apply F. rewrite S.
      destruct (TP.pad_expected width align (TL.line_width l0) =? 0); [exact I0|right; exact I0].
Qed.

Lemma chars_ok_range t o e : 0 <= o -> e <= zlen t -> chars_ok cw t o e.
Proof.
  intros Ho He i Hi. destruct (nthz_in_range t i ltac:(lia)) as [c Hc]. exists c. split; [exact Hc|apply cw_range].
Qed.

(* --- the row shape holds at every character of every text segment of every row --- *)
Theorem standard_layout_cell_in_row t width align wrap ell L ln sc o e p ch :
  1 <= width -> TL.layout cw t width align wrap ell = Ok L -> In ln L ->
  In (TL.SText sc o e) ln -> o <= p < e -> nthz t p = Some ch ->
  exists x0, cell_in_row cw t (conv_line ln) p x0 (calc_width cw t o p).
Proof.
  intros Hw E I IT Hp Hch.
  destruct (layout_line_shape t width align wrap ell L ln Hw E I) as (l0 & TF & Hln & F).
  assert (I0: In (TL.SText sc o e) l0).
  { destruct Hln as [->|[s ->]]; [exact IT|]. destruct IT as [Q|IT]; [discriminate|exact IT]. }
  destruct (TF sc o e I0) as [post El0]. destruct (F sc o e I0) as (Fsc & Fpos & Fo & Fe).
  destruct Hln as [->|[s ->]]; rewrite El0; cbn [conv_line map conv_seg].
  - exists 0.
    apply (CellInRow cw t _ p 0 _ 0 [] sc o e (map conv_seg post) ch); auto.
    + constructor.
    + lia.
    + apply chars_ok_range; lia.
  - exists s.
    apply (CellInRow cw t _ p s _ s [] sc o e (map conv_seg post) ch); auto.
    + constructor.
    + cbn [sumsc]. lia.
    + lia.
    + apply chars_ok_range; lia.
Qed.

(* --- shifting a row (the view of an Edit follows its cursor) keeps the shape; the segment starts
       [a] columns further right --- *)
Lemma cell_in_row_shift t l p x0 c a :
  cell_in_row cw t l p x0 c -> cell_in_row cw t (shift_line l a) p (x0 + a) c.
Proof.
  intros [pad pre sc o e post ch Hs Hnn Hx0 Hin Hch Hw Hc Hcc].
  destruct Hs as [Hl|[Hl Hp0]]; subst l.
  - cbn [shift_line]. destruct (a + pad =? 0) eqn:E.
    + apply (CellInRow cw t _ p _ _ 0 pre sc o e post ch); auto. lia.
    + apply (CellInRow cw t _ p _ _ (a + pad) pre sc o e post ch); auto. lia.
  - subst pad. destruct pre as [|s pre'].
    + cbn [app shift_line]. destruct (a =? 0) eqn:E.
      * apply (CellInRow cw t _ p _ _ 0 [] sc o e post ch); auto. cbn [sumsc] in *. lia.
      * apply (CellInRow cw t _ p _ _ a [] sc o e post ch); auto. cbn [sumsc] in *. lia.
    + inversion Hnn as [|s' r' Hs0 Hr]; subst s' r'.
      destruct s as [scp|scp op|scp op ep]; cbn [app shift_line seg_sc sumsc] in *.
      * destruct (a + scp =? 0) eqn:E.
        -- apply (CellInRow cw t _ p _ _ 0 pre' sc o e post ch); auto. lia.
        -- apply (CellInRow cw t _ p _ _ (a + scp) pre' sc o e post ch); auto. lia.
      * destruct (a =? 0) eqn:E.
        -- apply (CellInRow cw t _ p _ _ 0 (SHint scp op :: pre') sc o e post ch); auto; try (constructor; assumption); cbn [sumsc seg_sc]; lia.
        -- apply (CellInRow cw t _ p _ _ a (SHint scp op :: pre') sc o e post ch); auto; try (constructor; assumption); cbn [sumsc seg_sc]; lia.
      * destruct (a =? 0) eqn:E.
        -- apply (CellInRow cw t _ p _ _ 0 (SText scp op ep :: pre') sc o e post ch); auto; try (constructor; assumption); cbn [sumsc seg_sc]; lia.
        -- apply (CellInRow cw t _ p _ _ a (SText scp op ep :: pre') sc o e post ch); auto; try (constructor; assumption); cbn [sumsc seg_sc]; lia.
Qed.

(* --- calc_coords never reports a negative row --- *)
Lemma cc_segs_y t segs p : forall (x y : Z) (cl : closest_t),
  0 <= y -> (forall d xx yy, cl = Some (d, (xx, yy)) -> 0 <= yy) ->
  match cc_segs cw t segs p x y cl with
  | inl xy => 0 <= snd xy
  | inr cl' => forall (d xx yy : Z), cl' = Some (d, (xx, yy)) -> 0 <= yy
  end.
Proof.
  induction segs as [|s r IH]; intros x y cl Hy Hcl; cbn [cc_segs].
  - exact Hcl.
  - assert (Hcloser: forall d0, forall d xx yy, closer cl d0 x y = Some (d, (xx, yy)) -> 0 <= yy).
    { intros d0 d xx yy. unfold closer. destruct cl as [[d1 [x1 y1]]|].
      - destruct (d0 <? d1); intros Q; inversion Q; subst; [exact Hy|eapply Hcl; reflexivity].
      - intros Q; inversion Q; subst. exact Hy. }
    destruct s as [sc|sc o|sc o e].
    + apply IH; assumption.
    + destruct (o =? p); [exact Hy|]. apply IH; [exact Hy|apply Hcloser].
    + destruct (o =? p); [exact Hy|]. destruct ((o <=? p) && (p <? e)); [exact Hy|]. apply IH; [exact Hy|apply Hcloser].
Qed.

Lemma cc_rows_y t lay p : forall y cl,
  0 <= y -> (forall d xx yy, cl = Some (d, (xx, yy)) -> 0 <= yy) -> 0 <= snd (cc_rows cw t lay p y cl).
Proof.
  induction lay as [|l r IH]; intros y cl Hy Hcl; cbn [cc_rows].
  - destruct cl as [[d [xx yy]]|]; cbn [snd]; [eapply Hcl; reflexivity|lia].
  - pose proof (cc_segs_y t l p 0 y cl Hy Hcl) as S.
    destruct (cc_segs cw t l p 0 y cl) as [[x' y']|cl']; [exact S|].
    apply IH; [lia|exact S].
Qed.

Lemma calc_coords_y t lay p : 0 <= snd (calc_coords cw t lay p).
Proof. apply cc_rows_y; [lia|intros d xx yy Q; discriminate]. Qed.

Lemma nth_firstn_lt {A} (d : A) : forall k n l, (n < k)%nat -> nth n (firstn k l) d = nth n l d.
Proof.
  induction k as [|k IH]; intros n l H; [lia|].
  destruct l as [|x l]; [destruct n; reflexivity|]. destruct n as [|n]; [reflexivity|].
  cbn [firstn nth]. apply IH. lia.
Qed.

Lemma nth_skipn_add {A} (d : A) : forall k n l, nth n (skipn k l) d = nth (k + n) l d.
Proof.
  induction k as [|k IH]; intros n l; [reflexivity|].
  destruct l as [|x l]; [destruct n; reflexivity|]. cbn [skipn Nat.add nth]. apply IH.
Qed.

(* --- a row of the view is the row of the layout, possibly shifted --- *)
Lemma nth_replace_row (lay : layout) y l row :
  0 <= y -> 0 <= row ->
  nth (Z.to_nat row) (takez y lay ++ [l] ++ dropz (y + 1) lay) [] =
  if (row =? y) && (y <? zlen lay) then l
  else if (y <? zlen lay) then nth (Z.to_nat row) lay []
  else if row =? zlen lay then l else nth (Z.to_nat row) lay [].
Proof.
  intros Hy Hr. unfold takez, dropz, zlen.
  destruct (y <? Z.of_nat (length lay)) eqn:Ey.
  - assert (Ly: length (firstn (Z.to_nat y) lay) = Z.to_nat y) by (rewrite firstn_length; lia).
    destruct (row =? y) eqn:Er; cbn [andb].
    + rewrite app_nth2 by lia. rewrite Ly. replace (Z.to_nat row - Z.to_nat y)%nat with 0%nat by lia. reflexivity.
    + destruct (Z_lt_ge_dec row y).
      * rewrite app_nth1 by lia. apply nth_firstn_lt. lia.
      * rewrite app_nth2 by lia. rewrite Ly.
        replace (Z.to_nat row - Z.to_nat y)%nat with (S (Z.to_nat row - Z.to_nat y - 1)) by lia.
        cbn [app nth]. rewrite nth_skipn_add. f_equal. lia.
  - rewrite andb_false_r.
    rewrite firstn_all2 by lia. rewrite skipn_all2 by lia. cbn [app].
    destruct (row =? Z.of_nat (length lay)) eqn:Er.
    + rewrite app_nth2 by lia. replace (Z.to_nat row - length lay)%nat with 0%nat by lia. reflexivity.
    + destruct (Z_lt_ge_dec row (Z.of_nat (length lay))).
      * rewrite app_nth1 by lia. reflexivity.
      * rewrite app_nth2 by lia. rewrite (nth_overflow lay) by lia.
        replace (Z.to_nat row - length lay)%nat with (S (Z.to_nat row - length lay - 1)) by lia.
        cbn [nth]. destruct (Z.to_nat row - length lay - 1)%nat; reflexivity.
Qed.

Lemma view_row s w lay row :
  0 <= row ->
  nth (Z.to_nat row) (get_line_translation cw s w lay) [] = nth (Z.to_nat row) lay [] \/
  exists a, nth (Z.to_nat row) (get_line_translation cw s w lay) [] = shift_line (nth (Z.to_nat row) lay []) a.
Proof.
  intros Hr. unfold get_line_translation.
  destruct (negb (shiftv s)); [left; reflexivity|].
  pose proof (calc_coords_y (disp s) lay (pos s + zlen (caption s))) as Hy.
  destruct (calc_coords cw (disp s) lay (pos s + zlen (caption s))) as [x y]. cbn [snd] in Hy.
  assert (G: forall a,
    nth (Z.to_nat row) (takez y lay ++ [shift_line (nth (Z.to_nat y) lay []) a] ++ dropz (y + 1) lay) [] = nth (Z.to_nat row) lay [] \/
    exists a', nth (Z.to_nat row) (takez y lay ++ [shift_line (nth (Z.to_nat y) lay []) a] ++ dropz (y + 1) lay) [] =
               shift_line (nth (Z.to_nat row) lay []) a').
  { intros a. rewrite nth_replace_row by lia.
    destruct ((row =? y) && (y <? zlen lay)) eqn:E1.
    - right. exists a. replace row with y by lia. reflexivity.
    - destruct (y <? zlen lay) eqn:E2; [left; reflexivity|].
      destruct (row =? zlen lay) eqn:E3; [|left; reflexivity].
      right. exists a. rewrite (nth_overflow lay (n := Z.to_nat y)) by (unfold zlen in *; lia).
      rewrite (nth_overflow lay (n := Z.to_nat row)) by (unfold zlen in *; lia). reflexivity. }
  destruct (x <? 0); [apply G|]. destruct (x >=? w); [apply G|left; reflexivity].
Qed.

(* --- click_cell on the layout StandardTextLayout computes for the displayed text:
       no hypothesis about the shape of the rows is left --- *)
Theorem click_cell_standard_layout (upper : Z -> list Z) (lower : list Z -> list Z)
        s w align wrap ell L row sc o e p ch :
  1 <= w -> TL.layout cw (disp s) w align wrap ell = Ok L ->
  let lay := conv_layout L in
  let view := get_line_translation cw s w lay in
  snd (position_coords cw s w lay 0) <= row < zlen view -> 0 <= row ->
  In (TL.SText sc o e) (nth (Z.to_nat row) L []) -> o <= p < e -> nthz (disp s) p = Some ch ->
  exists x0,
    cell_in_row cw (disp s) (nth (Z.to_nat row) view []) p x0 (calc_width cw (disp s) o p) /\
    forall col, x0 + calc_width cw (disp s) o p <= col < x0 + calc_width cw (disp s) o p + cw ch ->
      step cw upper lower s (EClick 1 col row w lay) =
      (with_pref (put s (text s) (clampz (p - zlen (caption s)) 0 (zlen (text s)))) (Some (PInt col, w)),
       [], Ok (RBool true)).
Proof.
  intros Hw E lay view Hrow Hr0 IT Hp Hch.
  assert (IL: In (nth (Z.to_nat row) L []) L).
  { destruct (nth_in_or_default (Z.to_nat row) L []) as [H|H]; [exact H|]. rewrite H in IT. destruct IT. }
  destruct (standard_layout_cell_in_row (disp s) w align wrap ell L _ sc o e p ch Hw E IL IT Hp Hch) as [x1 C1].
  assert (Enth: nth (Z.to_nat row) lay [] = conv_line (nth (Z.to_nat row) L [])).
  { unfold lay, conv_layout. change (@nil seg) with (conv_line []). apply map_nth. }
  assert (C: exists x0, cell_in_row cw (disp s) (nth (Z.to_nat row) view []) p x0 (calc_width cw (disp s) o p)).
  { destruct (view_row s w lay row Hr0) as [Ev|[a Ev]]; fold view in Ev; rewrite Ev, Enth.
    - exists x1. exact C1.
    - exists (x1 + a). apply cell_in_row_shift. exact C1. }
  destruct C as [x0 C]. exists x0. split; [exact C|]. intros col Hcol.
  apply (edit_click_cell cw upper lower s w lay col row p x0 (calc_width cw (disp s) o p)); auto.
  exists ch. split; [exact Hch|exact Hcol].
Qed.

End OnLayout.
