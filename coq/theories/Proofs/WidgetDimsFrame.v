(* C01 - Frame: contract lemma (box sizing). *)
From Coq Require Import ZArith List Bool Lia ZifyBool.
Import ListNotations.
From Urwid Require Import WidgetDims WidgetDimsProofs.
Open Scope Z_scope.

Arguments Z.add : simpl never.
Arguments Z.sub : simpl never.
Arguments Z.ltb : simpl never.
Arguments Z.leb : simpl never.
Arguments Z.eqb : simpl never.
Arguments Z.max : simpl never.

Definition opt_flow_goodN (n : Z) (o : option sem) : Prop :=
  match o with None => True | Some s => GoodN n s /\ s_flow (m_sizing s) = true end.
Notation opt_flow_good := (opt_flow_goodN 1).

Definition opt_rows (o : option sem) (c : Z) (f : bool) : res Z :=
  match o with Some s => m_rows s c f | None => Ok 0 end.

Lemma opt_rows_ok n o c f :
  0 <= n -> opt_flow_goodN n o -> 1 <= c ->
  match opt_rows o c f with
  | Ok h => 0 <= h /\ (o = None -> h = 0)
  | Err e => soft e end.
Proof.
  intros Hn0 H Hc. destruct o as [s|]; cbn.
  - destruct H as [G Hf]. pose proof (g_rows s G c f Hf Hc) as R.
    destruct (m_rows s c f); [|exact R]. split; [lia|discriminate].
  - split; [lia|auto].
Qed.

Lemma frame_tb_spec n hd ft fpart c r f :
  0 <= n -> opt_flow_goodN n hd -> opt_flow_goodN n ft -> 1 <= c -> 1 <= r ->
  match frame_top_bottom hd ft fpart c r f with
  | Ok (ht, ftm, hrows, frows) =>
      0 <= ht <= hrows /\ 0 <= ftm <= frows /\ ht + ftm <= r
      /\ opt_rows hd c ((fpart =? 1) && f) = Ok hrows
      /\ opt_rows ft c ((fpart =? 2) && f) = Ok frows
      /\ (hd = None -> hrows = 0) /\ (ft = None -> frows = 0)
  | Err e => soft e
  end.
Proof.
  intros Hn0 Hh Hf Hc Hr. unfold frame_top_bottom.
  pose proof (opt_rows_ok n hd c ((fpart =? 1) && f) Hn0 Hh Hc) as RH.
  pose proof (opt_rows_ok n ft c ((fpart =? 2) && f) Hn0 Hf Hc) as RF.
  unfold opt_rows in *.
  change (match hd with Some h => m_rows h c ((fpart =? 1) && f) | None => Ok 0 end) with (opt_rows hd c ((fpart =? 1) && f)) in *.
  change (match ft with Some x => m_rows x c ((fpart =? 2) && f) | None => Ok 0 end) with (opt_rows ft c ((fpart =? 2) && f)) in *.
  destruct (opt_rows hd c ((fpart =? 1) && f)) as [hrows|e]; cbn; [|exact RH].
  destruct (opt_rows ft c ((fpart =? 2) && f)) as [frows|e]; cbn; [|exact RF].
  destruct RH as [H1 H2]. destruct RF as [F1 F2].
  repeat (match goal with |- context [if ?b then _ else _] => destruct b eqn:? end);
    cbn; repeat split; auto; lia.
Qed.

Lemma frame_part_spec n p valign trimv rows c fo :
  n <= 1 -> opt_flow_goodN n p -> 1 <= c -> 0 <= trimv <= rows -> 0 <= valign ->
  opt_rows p c fo = Ok rows -> (p = None -> rows = 0) ->
  match frame_part p valign trimv rows c fo with
  | Ok None => trimv = 0
  | Ok (Some d) => cc d = c /\ cr d = trimv /\ rect d = true /\ 1 <= trimv /\ inside d
  | Err e => soft e
  end.
Proof.
  intros Hn1 Hp Hc Ht Hv Hrows Hnone. unfold frame_part. destruct p as [s|].
  2:{ specialize (Hnone eq_refl). lia. }
  destruct Hp as [G Hf]. cbn in Hrows.
  destruct ((negb (trimv =? 0)) && (trimv <? rows)) eqn:E1.
  - assert (GF : GoodN n (filler_sem s valign HPack None 0 0)).
    { apply filler_good; auto; lia. }
    pose proof (g_box _ GF c trimv fo eq_refl Hc ltac:(lia)) as B.
    destruct (m_render (filler_sem s valign HPack None 0 0) (SBox c trimv) fo) as [d|e]; cbn; [|exact B].
    destruct B as [[B1 B2] [B3 B4]]. repeat split; auto. lia.
  - destruct (negb (trimv =? 0)) eqn:E2; [|lia].
    pose proof (g_flow s G c fo Hf Hc) as F.
    destruct (m_render s (SFlow c) fo) as [d|e]; cbn; [|exact F].
    destruct F as [[F1 F2] [F3 F4]]. rewrite Hrows in F2. inversion F2 as [F2'].
    replace (cr d =? cr d) with true by lia. cbn. repeat split; auto; lia.
Qed.

Lemma frame_good n m body hd ft fpart :
  0 <= n <= 1 -> GoodN n body -> s_box (m_sizing body) = true -> opt_flow_goodN n hd -> opt_flow_goodN n ft ->
  GoodN m (frame_sem body hd ft fpart).
Proof.
  intros Hn G Hb Hh Hf. unfold frame_sem. apply mk_node_good; cbn [s_flow s_box].
  - intros; discriminate.
  - intros; discriminate.
  - intros c r f _ Hc Hr. unfold frame_render.
    pose proof (frame_tb_spec n hd ft fpart c r f ltac:(lia) Hh Hf Hc Hr) as T.
    destruct (frame_top_bottom hd ft fpart c r f) as [[[[ht ftm] hrows] frows]|e]; cbn; [|exact T].
    destruct T as [T1 [T2 [T3 [T4 [T5 [T6 T7]]]]]].
    rewrite (andb_comm (fpart =? 1) f) in T4. rewrite (andb_comm (fpart =? 2) f) in T5.
    pose proof (frame_part_spec n hd 0 ht hrows c (f && (fpart =? 1)) ltac:(lia) Hh Hc T1 ltac:(lia) T4 T6) as PH.
    destruct (frame_part hd 0 ht hrows c (f && (fpart =? 1))) as [head|e]; cbn; [|exact PH].
    assert (PB : match (if ftm + ht <? r
                        then (let* cv := m_render body (SBox c (r - ftm - ht)) (f && (fpart =? 0)) in Ok (Some cv))
                        else Ok None) with
                 | Ok None => ftm + ht = r
                 | Ok (Some d) => cc d = c /\ cr d = r - ftm - ht /\ rect d = true /\ ftm + ht < r /\ inside d
                 | Err e => soft e end).
    { destruct (ftm + ht <? r) eqn:E; [|lia].
      pose proof (g_box body G c (r - ftm - ht) (f && (fpart =? 0)) Hb Hc ltac:(lia)) as B.
      destruct (m_render body (SBox c (r - ftm - ht)) (f && (fpart =? 0))) as [d|e]; cbn; [|exact B].
      destruct B as [[B1 B2] [B3 B4]]. repeat split; auto. lia. }
    destruct (if ftm + ht <? r
              then (let* cv := m_render body (SBox c (r - ftm - ht)) (f && (fpart =? 0)) in Ok (Some cv))
              else Ok None) as [bod|e]; cbn; [|exact PB].
    pose proof (frame_part_spec n ft 100 ftm frows c (f && (fpart =? 2)) ltac:(lia) Hf Hc T2 ltac:(lia) T5 T7) as PF.
    destruct (frame_part ft 100 ftm frows c (f && (fpart =? 2))) as [foot|e]; cbn; [|exact PF].
    set (l := (match head with Some c0 => [c0] | None => [] end)
                ++ (match bod with Some c0 => [c0] | None => [] end)
                ++ (match foot with Some c0 => [c0] | None => [] end)).
    assert (L : l <> [] /\ all_width c l /\ fold_right (fun d a => cr d + a) 0 l = r).
    { subst l. destruct head as [h1|], bod as [b1|], foot as [f1|]; cbn;
        repeat match goal with H : _ /\ _ |- _ => destruct H end;
        (split; [try discriminate; try lia|]);
        (split; [repeat constructor; auto; lia|]); try lia. }
    destruct L as [L1 [L2 L3]].
    destruct (combine_spec c l L1 L2) as [A [B [C D]]]. fin.
Qed.
