(* Facts about the list-semantics model: lengths and element positions. *)
From Coq Require Import ZArith List Bool Lia ZifyBool.
Import ListNotations.
From Urwid Require Import PyBase PyList.
Open Scope Z_scope.

Arguments Z.mul : simpl never.
Arguments Z.add : simpl never.
Arguments Z.sub : simpl never.
Arguments Z.div : simpl never.
Arguments Z.modulo : simpl never.
Arguments Z.ltb : simpl never.
Arguments Z.leb : simpl never.
Arguments Z.eqb : simpl never.

(* --- slice_indices: ranges of the results --- *)
Ltac split_ifs :=
  repeat match goal with
         | |- context[if ?c then _ else _] => destruct c eqn:?
         | H : context[if ?c then _ else _] |- _ => destruct c eqn:?
         end.

Lemma slice_indices_pos n a b st s e t :
  0 <= n -> slice_indices n a b st = (s, e, t) -> 0 < t ->
  0 <= s <= n /\ 0 <= e <= n.
Proof.
  unfold slice_indices. cbv zeta. intros Hn H Ht.
  injection H as Hs He Htt. rewrite Htt in *.
  assert (Hneg : (t <? 0) = false) by lia. rewrite Hneg in *.
  destruct a as [a0|], b as [b0|]; subst s e; split_ifs; lia.
Qed.

Lemma slice_indices_neg n a b st s e t :
  0 <= n -> slice_indices n a b st = (s, e, t) -> t < 0 ->
  -1 <= s <= n - 1 /\ -1 <= e <= n - 1.
Proof.
  unfold slice_indices. cbv zeta. intros Hn H Ht.
  injection H as Hs He Htt. rewrite Htt in *.
  assert (Hneg : (t <? 0) = true) by lia. rewrite Hneg in *.
  destruct a as [a0|], b as [b0|]; subst s e; split_ifs; lia.
Qed.

Lemma slice_indices_step n a b st s e t :
  slice_indices n a b st = (s, e, t) -> step_is_zero st = false -> t <> 0.
Proof.
  unfold slice_indices, step_is_zero. cbv zeta. intros H Hz. injection H as _ _ Ht. subst t.
  destruct st as [[| |]|]; try discriminate; lia.
Qed.

Lemma range_len_nonneg s e t : t <> 0 -> 0 <= range_len s e t.
Proof.
  intros Ht. unfold range_len.
  destruct (0 <? t) eqn:Hp.
  - destruct (s <? e) eqn:?; [|lia]. assert (0 <= (e - s - 1) / t) by (apply Z.div_pos; lia). lia.
  - destruct (e <? s) eqn:?; [|lia]. assert (0 <= (s - e - 1) / (- t)) by (apply Z.div_pos; lia). lia.
Qed.

Lemma range_len_1 s e : range_len s e 1 = Z.max s e - s.
Proof.
  unfold range_len. change (0 <? 1) with true. cbv iota.
  destruct (s <? e) eqn:?; [|lia]. rewrite Z.div_1_r. lia.
Qed.

(* number of range elements below m, and how it grows *)
Lemma div_step x t : 0 < t -> 0 <= x ->
  (x / t) = ((x - 1) / t) + (if (0 <? x) && (x mod t =? 0) then 1 else 0) + (if x =? 0 then 1 else 0).
Proof.
  intros Ht Hx.
  destruct (Z.eq_dec x 0) as [->|Hx0].
  - rewrite Z.div_0_l by lia. cbn [Z.ltb Z.eqb andb].
    replace ((0 - 1) / t) with (-1). { reflexivity. }
    apply Z.div_unique with (r := t - 1); lia.
  - assert (H0 : (x =? 0) = false) by lia. rewrite H0.
    assert (H1 : (0 <? x) = true) by lia. rewrite H1. cbn [andb].
    pose proof (Z.div_mod x t ltac:(lia)) as E1.
    pose proof (Z.mod_pos_bound x t Ht) as B1.
    destruct (x mod t =? 0) eqn:Hm.
    + assert (x mod t = 0) by lia.
      assert (E : (x - 1) / t = x / t - 1).
      { symmetry. apply Z.div_unique with (r := t - 1); nia. }
      lia.
    + assert (E : (x - 1) / t = x / t).
      { symmetry. apply Z.div_unique with (r := x mod t - 1); nia. }
      lia.
Qed.

Lemma cnt_step s e t i : 0 < t ->
  range_len s (Z.min (i + 1) e) t =
  range_len s (Z.min i e) t + (if in_range i s e t then 1 else 0).
Proof.
  intros Ht. unfold range_len, in_range.
  assert (Hp : (0 <? t) = true) by lia. rewrite Hp.
  destruct (s <=? i) eqn:Hsi; cbn [andb].
  2:{ assert (H1 : (s <? Z.min (i + 1) e) = false) by lia.
      assert (H2 : (s <? Z.min i e) = false) by lia. rewrite H1, H2. reflexivity. }
  destruct (i <? e) eqn:Hie; cbn [andb].
  2:{ replace (Z.min (i + 1) e) with e by lia. replace (Z.min i e) with e by lia.
      destruct (s <? e); lia. }
  replace (Z.min (i + 1) e) with (i + 1) by lia. replace (Z.min i e) with i by lia.
  assert (H1 : (s <? i + 1) = true) by lia. rewrite H1.
  replace (i + 1 - s - 1) with (i - s) by lia.
  destruct (s <? i) eqn:Hlt.
  - rewrite (div_step (i - s) t Ht ltac:(lia)).
    assert (H2 : (0 <? i - s) = true) by lia. rewrite H2.
    assert (H3 : (i - s =? 0) = false) by lia. rewrite H3. cbn [andb].
    generalize ((i - s - 1) / t); intro q.
    destruct ((i - s) mod t =? 0); lia.
  - assert (i = s) by lia. subst i. replace (s - s) with 0 by lia.
    rewrite Z.mod_0_l by lia. rewrite Z.div_0_l by lia. reflexivity.
Qed.

Lemma zlen_drop_range_pos {A} (l : list A) : forall i s e t, 0 < t ->
  zlen (drop_range i s e t l) =
  zlen l - (range_len s (Z.min (i + zlen l) e) t - range_len s (Z.min i e) t).
Proof.
  induction l as [|x r IH]; intros i s e t Ht; cbn [drop_range].
  - rewrite zlen_nil. replace (i + 0) with i by lia. lia.
  - rewrite zlen_cons. replace (i + (1 + zlen r)) with ((i + 1) + zlen r) by lia.
    pose proof (cnt_step s e t i Ht) as Hc.
    destruct (in_range i s e t).
    + rewrite IH by assumption. lia.
    + rewrite zlen_cons, IH by assumption. lia.
Qed.

(* a descending range visits the same positions as its ascending normal form *)
Lemma range_len_neg_pos s e t : t < 0 -> 0 < range_len s e t -> e < s.
Proof.
  intros Ht. unfold range_len. assert (Hp : (0 <? t) = false) by lia. rewrite Hp.
  destruct (e <? s) eqn:?; lia.
Qed.

Lemma in_range_neg_norm x s e t : t < 0 -> 0 < range_len s e t ->
  in_range x s e t = in_range x (s + (range_len s e t - 1) * t) (s + 1) (- t).
Proof.
  intros Ht Hn. pose proof (range_len_neg_pos s e t Ht Hn) as Hes.
  unfold in_range, range_len in *.
  assert (Hp : (0 <? t) = false) by lia. assert (Hq : (0 <? - t) = true) by lia.
  assert (Hes' : (e <? s) = true) by lia.
  rewrite Hp, Hq, Hes'. clear Hn.
  set (u := - t) in *. assert (Hu : 0 < u) by lia. replace t with (- u) by lia.
  pose proof (Z.div_mod (s - e - 1) u ltac:(lia)) as Hdm.
  pose proof (Z.mod_pos_bound (s - e - 1) u Hu) as Hb.
  set (q := (s - e - 1) / u) in *. set (r := (s - e - 1) mod u) in *.
  replace (s + (q + 1 - 1) * - u) with (s - q * u) by lia.
  assert (Hmod : ((x - (s - q * u)) mod u =? 0) = ((s - x) mod u =? 0)).
  { apply eq_true_iff_eq. rewrite !Z.eqb_eq, !Z.mod_divide by lia.
    replace (x - (s - q * u)) with (- (s - x) + q * u) by lia. split; intro D.
    - rewrite Z.add_comm in D.
      apply (Z.divide_add_cancel_r u (q * u)) in D; [|apply Z.divide_factor_r].
      apply (proj1 (Z.divide_opp_r _ _)) in D. exact D.
    - apply Z.divide_add_r; [apply (proj2 (Z.divide_opp_r _ _)); exact D | apply Z.divide_factor_r]. }
  rewrite Hmod.
  destruct ((s - x) mod u =? 0) eqn:Hm.
  2:{ rewrite !andb_false_r. reflexivity. }
  rewrite !andb_true_r.
  apply Z.eqb_eq in Hm. apply Z.mod_divide in Hm; [|lia]. destruct Hm as [k Hk].
  apply eq_true_iff_eq. rewrite !andb_true_iff, !Z.ltb_lt, !Z.leb_le.
  split; intros [H1 H2].
  - assert (Hkq : k * u < (q + 1) * u) by lia.
    apply Z.mul_lt_mono_pos_r in Hkq; [|lia]. split; nia.
  - split; lia.
Qed.

Lemma range_len_norm s e t : t < 0 -> 0 < range_len s e t ->
  range_len (s + (range_len s e t - 1) * t) (s + 1) (- t) = range_len s e t.
Proof.
  intros Ht Hn. set (n := range_len s e t) in *.
  unfold range_len at 1. assert (Hq : (0 <? - t) = true) by lia. rewrite Hq.
  assert (Hlt : (s + (n - 1) * t <? s + 1) = true) by nia. rewrite Hlt.
  replace (s + 1 - (s + (n - 1) * t) - 1) with ((n - 1) * (- t)) by lia.
  rewrite Z.div_mul by lia. lia.
Qed.

Lemma in_range_neg_empty x s e t : t < 0 -> range_len s e t = 0 -> in_range x s e t = false.
Proof.
  intros Ht Hn. unfold in_range, range_len in *.
  assert (Hp : (0 <? t) = false) by lia. rewrite Hp in *.
  destruct (e <? s) eqn:Hes.
  - assert (0 <= (s - e - 1) / - t) by (apply Z.div_pos; lia). lia.
  - destruct (e <? x) eqn:?, (x <=? s) eqn:?; cbn [andb]; try reflexivity. lia.
Qed.

Lemma drop_range_ext {A} (l : list A) : forall i s e t s' e' t',
  (forall x, in_range x s e t = in_range x s' e' t') ->
  drop_range i s e t l = drop_range i s' e' t' l.
Proof.
  induction l as [|x r IH]; intros i s e t s' e' t' H; cbn [drop_range]; [reflexivity|].
  rewrite H, (IH (i + 1) s e t s' e' t' H). reflexivity.
Qed.

Lemma drop_range_none {A} (l : list A) : forall i s e t,
  (forall x, in_range x s e t = false) -> drop_range i s e t l = l.
Proof.
  induction l as [|x r IH]; intros i s e t H; cbn [drop_range]; [reflexivity|].
  rewrite H, IH by assumption. reflexivity.
Qed.

(* the central length fact: deleting a slice removes exactly len(range(indices)) items *)
Lemma zlen_drop_range {A} (l : list A) s e t :
  t <> 0 ->
  (0 < t -> 0 <= s /\ e <= zlen l) ->
  (t < 0 -> -1 <= e /\ s <= zlen l - 1) ->
  zlen (drop_range 0 s e t l) = zlen l - range_len s e t.
Proof.
  intros Ht Hpos Hneg. pose proof (zlen_nonneg l) as Hl.
  destruct (Z_lt_ge_dec 0 t) as [Hp|Hn].
  - destruct (Hpos Hp) as [Hs He].
    rewrite zlen_drop_range_pos by assumption.
    replace (Z.min (0 + zlen l) e) with e by lia.
    assert (H0 : range_len s (Z.min 0 e) t = 0).
    { unfold range_len. assert (Hq : (0 <? t) = true) by lia. rewrite Hq.
      assert (Hc : (s <? Z.min 0 e) = false) by lia. rewrite Hc. reflexivity. }
    lia.
  - assert (Htn : t < 0) by lia. destruct (Hneg Htn) as [He Hs].
    pose proof (range_len_nonneg s e t Ht) as Hrn.
    destruct (Z.eq_dec (range_len s e t) 0) as [Hz|Hnz].
    + rewrite drop_range_none by (intro x; apply in_range_neg_empty; assumption). lia.
    + assert (Hn0 : 0 < range_len s e t) by lia.
      rewrite (drop_range_ext l 0 s e t (s + (range_len s e t - 1) * t) (s + 1) (- t))
        by (intro x; apply in_range_neg_norm; assumption).
      rewrite zlen_drop_range_pos by lia.
      pose proof (range_len_norm s e t Htn Hn0) as Hnorm.
      pose proof (range_len_neg_pos s e t Htn Hn0) as Hes.
      replace (Z.min (0 + zlen l) (s + 1)) with (s + 1) by lia.
      rewrite Hnorm.
      assert (H0 : range_len (s + (range_len s e t - 1) * t) (Z.min 0 (s + 1)) (- t) = 0).
      { unfold range_len at 1. assert (Hq : (0 <? - t) = true) by lia. rewrite Hq.
        (* first element of the ascending form is > e >= -1, hence >= 0 *)
        assert (Hfirst : 0 <= s + (range_len s e t - 1) * t).
        { unfold range_len. assert (Hp0 : (0 <? t) = false) by lia. rewrite Hp0.
          assert (Hes' : (e <? s) = true) by lia. rewrite Hes'.
          pose proof (Z.div_mod (s - e - 1) (- t) ltac:(lia)) as Hdm.
          pose proof (Z.mod_pos_bound (s - e - 1) (- t) ltac:(lia)) as Hb.
          set (q := (s - e - 1) / - t) in *. nia. }
        assert (Hc : (s + (range_len s e t - 1) * t <? Z.min 0 (s + 1)) = false) by lia.
        rewrite Hc. reflexivity. }
      lia.
Qed.

Lemma zlen_put_range {A} (l : list A) : forall i s e t xs,
  zlen (put_range i s e t xs l) = zlen l.
Proof.
  induction l as [|x r IH]; intros; cbn [put_range]; [reflexivity|].
  rewrite !zlen_cons, IH. reflexivity.
Qed.

Lemma zlen_del_slice {A} (l l' : list A) a b st s e t :
  del_slice l a b st = Ok l' -> slice_indices (zlen l) a b st = (s, e, t) ->
  zlen l' = zlen l - range_len s e t.
Proof.
  unfold del_slice. intros H Hs. pose proof (zlen_nonneg l) as Hl.
  destruct (step_is_zero st) eqn:Hz; [discriminate|]. rewrite Hs in H.
  pose proof (slice_indices_step _ _ _ _ _ _ _ Hs Hz) as Ht.
  destruct (t =? 1) eqn:Ht1.
  - assert (t = 1) by lia. subst t. injection H as <-.
    destruct (slice_indices_pos _ _ _ _ _ _ _ Hl Hs ltac:(lia)) as [Hsr Her].
    rewrite zlen_app, zlen_takez, zlen_dropz, range_len_1 by lia. lia.
  - injection H as <-. apply zlen_drop_range; [assumption| |]; intro Hc.
    + destruct (slice_indices_pos _ _ _ _ _ _ _ Hl Hs Hc). lia.
    + destruct (slice_indices_neg _ _ _ _ _ _ _ Hl Hs Hc). lia.
Qed.

Lemma zlen_set_slice {A} (l l' xs : list A) a b st s e t :
  set_slice l a b st xs = Ok l' -> slice_indices (zlen l) a b st = (s, e, t) ->
  zlen l' = zlen l + zlen xs - range_len s e t.
Proof.
  unfold set_slice. intros H Hs. pose proof (zlen_nonneg l) as Hl.
  destruct (step_is_zero st) eqn:Hz; [discriminate|]. rewrite Hs in H.
  destruct (t =? 1) eqn:Ht1.
  - assert (t = 1) by lia. subst t. injection H as <-.
    destruct (slice_indices_pos _ _ _ _ _ _ _ Hl Hs ltac:(lia)) as [Hsr Her].
    rewrite !zlen_app, zlen_takez, zlen_dropz, range_len_1 by lia. lia.
  - destruct (zlen xs =? range_len s e t) eqn:Hlen; [|discriminate].
    injection H as <-. rewrite zlen_put_range. lia.
Qed.

Lemma range_first_gt s e t : t < 0 -> 0 < range_len s e t ->
  e < s + (range_len s e t - 1) * t.
Proof.
  intros Ht Hn. pose proof (range_len_neg_pos s e t Ht Hn) as Hes.
  unfold range_len. assert (Hp0 : (0 <? t) = false) by lia. rewrite Hp0.
  assert (Hes' : (e <? s) = true) by lia. rewrite Hes'.
  pose proof (Z.div_mod (s - e - 1) (- t) ltac:(lia)) as Hdm.
  pose proof (Z.mod_pos_bound (s - e - 1) (- t) ltac:(lia)) as Hb.
  set (q := (s - e - 1) / - t) in *. nia.
Qed.

Lemma range_len_le s m t : 0 < t -> range_len s m t <= Z.max 0 (m - s).
Proof.
  intros Ht. unfold range_len. assert (Hp : (0 <? t) = true) by lia. rewrite Hp.
  destruct (s <? m) eqn:Hsm; [|lia].
  assert ((m - s - 1) / t <= m - s - 1) by (apply Z.div_le_upper_bound; nia). lia.
Qed.

Lemma slice_single n y :
  index_ok n (norm_index n y) = true ->
  slice_indices n (Some y) (if y + 1 =? 0 then None else Some (y + 1)) None
  = (norm_index n y, norm_index n y + 1, 1).
Proof.
  unfold index_ok, norm_index, slice_indices. cbv zeta. intros H.
  change (1 <? 0) with false. cbv iota.
  destruct (y + 1 =? 0) eqn:Hy1.
  - assert (y = -1) by lia. subst y. change (-1 <? 0) with true in *. cbv iota in *.
    assert (Hc : (-1 + n <? 0) = false) by lia. rewrite Hc. f_equal. f_equal. lia.
  - destruct (y <? 0) eqn:Hy0.
    + assert (Hc : (y + n <? 0) = false) by lia. rewrite Hc.
      assert (Hd : (y + 1 <? 0) = true) by lia. rewrite Hd.
      assert (He : (y + 1 + n <? 0) = false) by lia. rewrite He. f_equal. f_equal. lia.
    + assert (Hc : (n <=? y) = false) by lia. rewrite Hc.
      assert (Hd : (y + 1 <? 0) = false) by lia. rewrite Hd.
      destruct (n <=? y + 1) eqn:He; f_equal; f_equal; lia.
Qed.

Lemma slice_same n i s e t :
  slice_indices n (Some i) (Some i) None = (s, e, t) -> s = e /\ t = 1.
Proof.
  unfold slice_indices. cbv zeta. intros H. injection H as Hs He Ht. subst. split; reflexivity.
Qed.

Lemma index_from_bounds l : forall i x j, index_from i l x = Some j -> i <= j < i + zlen l.
Proof.
  induction l as [|y r IH]; intros i x j H; cbn [index_from] in H; [discriminate|].
  rewrite zlen_cons. pose proof (zlen_nonneg r).
  destruct (y =? x).
  - injection H as <-. lia.
  - apply IH in H. lia.
Qed.

Lemma index_from_in l : forall i x, In x l -> index_from i l x <> None.
Proof.
  induction l as [|y r IH]; intros i x Hin; [contradiction|]. cbn [index_from].
  destruct (y =? x) eqn:E; [discriminate|].
  destruct Hin as [->|Hin]; [lia|]. apply IH. assumption.
Qed.

Lemma insert_sorted_in le x l y : In y (insert_sorted le x l) <-> y = x \/ In y l.
Proof.
  induction l as [|z r IH]; cbn [insert_sorted].
  - cbn [In]. intuition.
  - destruct (le x z); cbn [In] in *; rewrite ?IH; intuition.
Qed.

Lemma sort_by_in le l y : In y (sort_by le l) <-> In y l.
Proof.
  unfold sort_by. induction l as [|z r IH]; cbn [fold_right].
  - reflexivity.
  - rewrite insert_sorted_in, IH. cbn [In]. intuition.
Qed.

Lemma insert_sorted_len le x l : zlen (insert_sorted le x l) = 1 + zlen l.
Proof.
  induction l as [|z r IH]; cbn [insert_sorted]; [reflexivity|].
  destruct (le x z); rewrite !zlen_cons; [reflexivity|]. rewrite IH. reflexivity.
Qed.

Lemma sort_by_len le l : zlen (sort_by le l) = zlen l.
Proof.
  unfold sort_by. induction l as [|z r IH]; cbn [fold_right]; [reflexivity|].
  rewrite insert_sorted_len, zlen_cons, IH. reflexivity.
Qed.

Lemma nthz_in {A} (l : list A) i x : nthz l i = Some x -> In x l.
Proof.
  unfold nthz. destruct (i <? 0); [discriminate|]. apply nth_error_In.
Qed.

Lemma zlen_repeat_list {A} (l : list A) k : zlen (repeat_list k l) = Z.of_nat k * zlen l.
Proof.
  induction k as [|k IH]; cbn [repeat_list].
  - rewrite zlen_nil. lia.
  - rewrite zlen_app, IH. lia.
Qed.

(* ---------- element positions ---------- *)
Lemma nthz_app_l {A} (a b : list A) i : 0 <= i < zlen a -> nthz (a ++ b) i = nthz a i.
Proof.
  intros H. unfold nthz. assert (Hc : (i <? 0) = false) by lia. rewrite Hc.
  apply nth_error_app1. unfold zlen in H. lia.
Qed.

Lemma nthz_app_r {A} (a b : list A) i : zlen a <= i -> nthz (a ++ b) i = nthz b (i - zlen a).
Proof.
  intros H. pose proof (zlen_nonneg a). unfold nthz.
  assert (Hc : (i <? 0) = false) by lia. assert (Hd : (i - zlen a <? 0) = false) by lia.
  rewrite Hc, Hd. unfold zlen in *. rewrite nth_error_app2 by lia. f_equal. lia.
Qed.

Lemma nth_error_firstn_lt {A} (l : list A) : forall n i, (i < n)%nat ->
  nth_error (firstn n l) i = nth_error l i.
Proof.
  induction l as [|x r IH]; intros n i H.
  - rewrite firstn_nil. reflexivity.
  - destruct n; [lia|]. destruct i; [reflexivity|]. cbn. apply IH. lia.
Qed.

Lemma nthz_takez {A} (l : list A) p i : 0 <= i < p -> nthz (takez p l) i = nthz l i.
Proof.
  intros H. unfold nthz, takez. assert (Hc : (i <? 0) = false) by lia. rewrite Hc.
  apply nth_error_firstn_lt. lia.
Qed.

Lemma nth_error_skipn_add {A} (l : list A) : forall n i,
  nth_error (skipn n l) i = nth_error l (n + i).
Proof.
  induction l as [|x r IH]; intros n i.
  - rewrite skipn_nil. destruct i, n; reflexivity.
  - destruct n; [reflexivity|]. cbn. apply IH.
Qed.

Lemma nthz_dropz {A} (l : list A) q i : 0 <= q -> 0 <= i -> nthz (dropz q l) i = nthz l (q + i).
Proof.
  intros Hq Hi. unfold nthz, dropz.
  assert (Hc : (i <? 0) = false) by lia. assert (Hd : (q + i <? 0) = false) by lia. rewrite Hc, Hd.
  rewrite nth_error_skipn_add. f_equal. lia.
Qed.

Definition splice {A} (l : list A) (p q : Z) (xs : list A) : list A := takez p l ++ xs ++ dropz q l.

Lemma zlen_splice {A} (l xs : list A) p q : 0 <= p <= q -> q <= zlen l ->
  zlen (splice l p q xs) = zlen l + zlen xs - (q - p).
Proof.
  intros. unfold splice. rewrite !zlen_app, zlen_takez, zlen_dropz by lia. lia.
Qed.

Lemma nthz_splice {A} (l xs : list A) p q i : 0 <= p <= q -> q <= zlen l -> 0 <= i ->
  nthz (splice l p q xs) i =
  if i <? p then nthz l i
  else if i <? p + zlen xs then nthz xs (i - p)
  else nthz l (i - zlen xs + (q - p)).
Proof.
  intros Hp Hq Hi. unfold splice. pose proof (zlen_nonneg xs).
  assert (Hlt : zlen (takez p l) = p) by (rewrite zlen_takez; lia).
  destruct (i <? p) eqn:E1.
  - rewrite nthz_app_l by lia. apply nthz_takez. lia.
  - rewrite nthz_app_r by lia. rewrite Hlt.
    destruct (i <? p + zlen xs) eqn:E2.
    + rewrite nthz_app_l by lia. reflexivity.
    + rewrite nthz_app_r by lia. rewrite nthz_dropz by lia. f_equal. lia.
Qed.

Lemma index_from_nth l : forall i x j, index_from i l x = Some j -> nthz l (j - i) = Some x.
Proof.
  induction l as [|y r IH]; intros i x j H; cbn [index_from] in H; [discriminate|].
  destruct (y =? x) eqn:E.
  - injection H as <-. replace (i - i) with 0 by lia. assert (y = x) by lia. subst. reflexivity.
  - pose proof (index_from_bounds _ _ _ _ H) as Hb. apply IH in H.
    unfold nthz in *. assert (Hc : (j - (i + 1) <? 0) = false) by lia. rewrite Hc in H.
    assert (Hd : (j - i <? 0) = false) by lia. rewrite Hd.
    replace (Z.to_nat (j - i)) with (S (Z.to_nat (j - (i + 1)))) by lia. exact H.
Qed.

Lemma slice_insert n i : 0 <= n ->
  slice_indices n (Some i) (Some i) None = (insert_pos n i, insert_pos n i, 1).
Proof.
  intros Hn. unfold slice_indices, insert_pos. cbv zeta. change (1 <? 0) with false. cbv iota.
  destruct (i <? 0) eqn:E1.
  - destruct (i + n <? 0) eqn:E2; f_equal; f_equal; lia.
  - destruct (n <=? i) eqn:E2; f_equal; f_equal; lia.
Qed.

Lemma takez_all {A} (l : list A) n : zlen l <= n -> takez n l = l.
Proof. intros H. unfold takez. apply firstn_all2. unfold zlen in H. lia. Qed.

Lemma dropz_all {A} (l : list A) n : zlen l <= n -> dropz n l = [].
Proof. intros H. unfold dropz. apply skipn_all2. unfold zlen in H. lia. Qed.

Lemma takez_0 {A} (l : list A) : takez 0 l = [].
Proof. reflexivity. Qed.

(* ---------- positions after an extended-slice deletion / assignment ---------- *)
Lemma nthz_cons_pos {A} (x : A) r i : 0 < i -> nthz (x :: r) i = nthz r (i - 1).
Proof.
  intros H. unfold nthz. assert (Hc : (i <? 0) = false) by lia. assert (Hd : (i - 1 <? 0) = false) by lia.
  rewrite Hc, Hd. replace (Z.to_nat i) with (S (Z.to_nat (i - 1))) by lia. reflexivity.
Qed.

Lemma nthz_cons_0 {A} (x : A) r : nthz (x :: r) 0 = Some x.
Proof. reflexivity. Qed.

Lemma nthz_nil {A} i : nthz (@nil A) i = None.
Proof. unfold nthz. destruct (i <? 0); [reflexivity|]. destruct (Z.to_nat i); reflexivity. Qed.

(* the number of range elements in [j, i) is at most i - j *)
Lemma cnt_diff_bounds s e t (Ht : 0 < t) : forall d j, 0 <= d ->
  0 <= range_len s (Z.min (j + d) e) t - range_len s (Z.min j e) t <= d.
Proof.
  intros d j Hd. revert j. pattern d. apply natlike_ind; [| |exact Hd].
  - intro j. replace (j + 0) with j by lia. lia.
  - intros x Hx IH j. replace (j + Z.succ x) with ((j + x) + 1) by lia.
    rewrite cnt_step by assumption. specialize (IH j).
    destruct (in_range (j + x) s e t); lia.
Qed.

Lemma nthz_drop_range {A} (l : list A) s e t (Ht : 0 < t) : forall j i,
  j <= i -> in_range i s e t = false ->
  nthz (drop_range j s e t l)
       (i - j - (range_len s (Z.min i e) t - range_len s (Z.min j e) t)) = nthz l (i - j).
Proof.
  induction l as [|x r IH]; intros j i Hji Hir; cbn [drop_range].
  - rewrite !nthz_nil. reflexivity.
  - destruct (Z.eq_dec i j) as [->|Hne].
    + rewrite Hir. replace (j - j - _) with 0 by lia. replace (j - j) with 0 by lia. reflexivity.
    + pose proof (cnt_step s e t j Ht) as Hstep.
      pose proof (cnt_diff_bounds s e t Ht (i - (j + 1)) (j + 1) ltac:(lia)) as Hb.
      replace (j + 1 + (i - (j + 1))) with i in Hb by lia.
      rewrite (nthz_cons_pos x r (i - j)) by lia.
      replace (i - j - 1) with (i - (j + 1)) by lia.
      destruct (in_range j s e t).
      * rewrite <- (IH (j + 1) i ltac:(lia) Hir). f_equal. lia.
      * rewrite nthz_cons_pos by lia. rewrite <- (IH (j + 1) i ltac:(lia) Hir). f_equal. lia.
Qed.

Lemma nthz_put_range {A} (l xs : list A) s e t : forall j i,
  j <= i -> in_range i s e t = false ->
  nthz (put_range j s e t xs l) (i - j) = nthz l (i - j).
Proof.
  induction l as [|x r IH]; intros j i Hji Hir; cbn [put_range].
  - rewrite !nthz_nil. reflexivity.
  - destruct (Z.eq_dec i j) as [->|Hne].
    + rewrite Hir. replace (j - j) with 0 by lia. reflexivity.
    + rewrite !nthz_cons_pos by lia. replace (i - j - 1) with (i - (j + 1)) by lia.
      apply IH; [lia | exact Hir].
Qed.
