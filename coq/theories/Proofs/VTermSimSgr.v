(* C15 - simulation, continued (see Proofs/VTermSim.v).
   C15 - simulation of the reference VT100 (Model/VT100Ref.v) by the emulator model (Model/VTerm.v) fed with
   the byte encoding of the reference's commands: the relation R, one lemma per command, composition. *)
From Coq Require Import ZArith List Bool Lia ZifyBool.
Import ListNotations.
From Urwid Require Import PyBase PyList vterm_csi_gen VTerm VT100Ref VTermRefine VTermListFacts VTermProofs VTermParse VTermSim VTermSimB VTermSimC VTermSimD VTermSimF.
Open Scope Z_scope.

Arguments Z.mul : simpl never.
Arguments Z.add : simpl never.
Arguments Z.sub : simpl never.
Arguments Z.div : simpl never.
Arguments Z.modulo : simpl never.
Arguments Z.ltb : simpl never.
Arguments Z.leb : simpl never.
Arguments Z.eqb : simpl never.
Arguments Z.min : simpl never.
Arguments Z.max : simpl never.
Arguments Z.pow : simpl never.
Arguments Z.to_nat : simpl never.
Arguments Z.of_nat : simpl never.



(* ---------- SGR: classic renditions and colours, 38;5;n / 48;5;n palette and 38;2;r;g;b / 48;2;r;g;b direct colours ---------- *)
Lemma sgr_cons n r a : (n =? 38) || (n =? 48) = false -> sgr (n :: r) a = sgr r (sgr1 n a).
Proof. intros H. cbn [sgr]. rewrite H. reflexivity. Qed.

Lemma sgr1_norm n a : sgr1 n a = sgr1 (Z.max n 0) a.
Proof.
  destruct a. unfold sgr1. destruct (n <=? 0) eqn:C.
  - replace (Z.max n 0 <=? 0) with true by lia. reflexivity.
  - replace (Z.max n 0) with n by lia. rewrite C. reflexivity.
Qed.

Definition sgr_values : list Z :=
  [0; 1; 4; 5; 7; 24; 25; 27; 30; 31; 32; 33; 34; 35; 36; 37; 39; 40; 41; 42; 43; 44; 45; 46; 47; 49].

Lemma memz_in b l : memz b l = true -> In b l.
Proof.
  induction l; cbn [memz]; [discriminate|]. intros H. apply orb_prop in H. destruct H as [H|H].
  - left. lia.
  - right. auto.
Qed.

Lemma classic_norm n : memz n sgr_classic = true -> In (Z.max n 0) sgr_values.
Proof.
  intros H. apply memz_in in H. unfold sgr_classic, sgr_values in *. cbn [In] in *.
  repeat (destruct H as [H|H]; [subst n; cbv; tauto|]). contradiction.
Qed.

(* the running values of sgi_to_attrspec's loop against the reference rendition: a colour held as a palette index
   ([is_idx]) is the reference's index; otherwise it is the rgb number a true-colour AttrSpec stores for it *)
Definition col_rel (n : oz) (is_idx : bool) (colors : Z) (c : oz) : Prop :=
  match n, c with
  | None, None => True
  | Some n, Some c => if is_idx then 0 <= c < 256 /\ n = c else colors = 16777216 /\ n = col_at 16777216 c
  | _, _ => False
  end.
Definition G_rel (g : sgi_t) (a : rattr) (cs : charset_t) (dc : bool) : Prop :=
  col_rel (g_fg g) (g_fgi g) (g_colors g) (r_fg a) /\ col_rel (g_bg g) (g_bgi g) (g_colors g) (r_bg a) /\
  g_bold g = r_bold a /\ g_ul g = r_ul a /\ g_blink g = r_blink a /\ g_so g = r_rev a /\ RA_ok a /\
  (g_colors g = 1 \/ g_colors g = 16 \/ g_colors g = 256 \/ g_colors g = 16777216) /\
  (g_colors g = 1 -> g_fg g = None /\ g_bg g = None) /\
  (g_colors g = 16 -> below 8 (r_fg a) /\ below 8 (r_bg a)) /\
  (g_colors g <> 16777216 -> (g_fg g <> None -> g_fgi g = true) /\ (g_bg g <> None -> g_bgi g = true)) /\
  g_cs g = cs /\ g_dc g = dc.

Lemma col_rel_colors n i c c' r : col_rel n i c r -> (c = 16777216 -> c' = 16777216) -> col_rel n i c' r.
Proof. unfold col_rel. destruct n, r; auto. destruct i; auto. intros [H1 H2] Hc. split; auto. Qed.

Lemma col_rel_none_r n i c r : col_rel n i c r -> n = None -> r = None.
Proof. unfold col_rel. intros H ->. destruct r; [contradiction|reflexivity]. Qed.

Ltac g_open :=
  unfold G_rel, RA_ok; cbn [g_fg g_bg g_colors g_bold g_ul g_blink g_so g_cs g_dc g_fgi g_bgi r_fg r_bg r_bold r_ul r_blink r_rev].

Section Updates.
Variables (fg bg : oz) (c : Z) (b u k so : bool) (cs : charset_t) (dc fi bi : bool) (rf rb : oz) (rbo rul rbl rrv : bool)
          (cs0 : charset_t) (dc0 : bool).
Hypothesis H : G_rel (mkSgi fg bg c b u k so cs dc fi bi) (mkRA rf rb rbo rul rbl rrv) cs0 dc0.

Lemma L_flags b' u' k' so' :
  G_rel (mkSgi fg bg c b' u' k' so' cs dc fi bi) (mkRA rf rb b' u' k' so') cs0 dc0.
Proof. revert H. g_open. intros (H1 & H2 & H3 & H4 & H5 & H6 & H7 & H8 & H9 & H10 & H11 & H12 & H13). repeat split; auto; tauto. Qed.

Ltac eval_max :=
  repeat match goal with |- context [Z.max ?a ?b] => let r := eval vm_compute in (Z.max a b) in change (Z.max a b) with r end.

Lemma L_fg_idx K n : 0 <= n -> (K = 16 /\ n < 8) \/ (K = 256 /\ n < 256) ->
  G_rel (mkSgi (Some n) bg (Z.max K c) b u k so cs dc true bi) (mkRA (Some n) rb rbo rul rbl rrv) cs0 dc0.
Proof.
  revert H. g_open. intros (H1 & H2 & H3 & H4 & H5 & H6 & (H7a & H7b) & H8 & H9 & H10 & H11 & H12 & H13) Hn HK.
  assert (n < 256) as Hn256 by (clear - HK; destruct HK as [[_ ?] | [_ ?]]; lia).
  destruct H8 as [-> | [-> | [-> | ->]]]; destruct HK as [[-> Hk] | [-> Hk]]; eval_max;
    (repeat split; auto; intros; try discriminate; try (cbn; clear - Hn Hn256 Hk; lia);
     try (eapply col_rel_colors; [eassumption|intros E'; first [reflexivity|discriminate E']]);
     try (apply H11; [discriminate|assumption]);
     try (destruct (H10 eq_refl); assumption);
     try (destruct (H9 eq_refl) as [? ?]; subst; rewrite (col_rel_none_r _ _ _ _ H2 eq_refl); exact Logic.I)).
Qed.

Lemma L_bg_idx K n : 0 <= n -> (K = 16 /\ n < 8) \/ (K = 256 /\ n < 256) ->
  G_rel (mkSgi fg (Some n) (Z.max K c) b u k so cs dc fi true) (mkRA rf (Some n) rbo rul rbl rrv) cs0 dc0.
Proof.
  revert H. g_open. intros (H1 & H2 & H3 & H4 & H5 & H6 & (H7a & H7b) & H8 & H9 & H10 & H11 & H12 & H13) Hn HK.
  assert (n < 256) as Hn256 by (clear - HK; destruct HK as [[_ ?] | [_ ?]]; lia).
  destruct H8 as [-> | [-> | [-> | ->]]]; destruct HK as [[-> Hk] | [-> Hk]]; eval_max;
    (repeat split; auto; intros; try discriminate; try (cbn; clear - Hn Hn256 Hk; lia);
     try (eapply col_rel_colors; [eassumption|intros E'; first [reflexivity|discriminate E']]);
     try (apply H11; [discriminate|assumption]);
     try (destruct (H10 eq_refl); assumption);
     try (destruct (H9 eq_refl) as [? ?]; subst; rewrite (col_rel_none_r _ _ _ _ H1 eq_refl); exact Logic.I)).
Qed.

Ltac gsolve H9 H10 H11 :=
  repeat split; auto; intros; try discriminate; try exact Logic.I; try congruence;
  try (eapply col_rel_colors; [eassumption|intros E'; first [reflexivity|discriminate E'|assumption|congruence]]);
  try (apply H11; assumption);
  try (match goal with E : _ = 16 |- _ => destruct (H10 E); assumption end);
  try (match goal with E : _ = 1 |- _ => destruct (H9 E); assumption end);
  try (cbn; lia).

Lemma L_fg_none : G_rel (mkSgi None bg c b u k so cs dc fi bi) (mkRA None rb rbo rul rbl rrv) cs0 dc0.
Proof.
  revert H. g_open. intros (H1 & H2 & H3 & H4 & H5 & H6 & (H7a & H7b) & H8 & H9 & H10 & H11 & H12 & H13).
  gsolve H9 H10 H11.
Qed.

Lemma L_bg_none : G_rel (mkSgi fg None c b u k so cs dc fi bi) (mkRA rf None rbo rul rbl rrv) cs0 dc0.
Proof.
  revert H. g_open. intros (H1 & H2 & H3 & H4 & H5 & H6 & (H7a & H7b) & H8 & H9 & H10 & H11 & H12 & H13).
  gsolve H9 H10 H11.
Qed.

Lemma L_reset : G_rel (mkSgi None None c false false false false cs dc fi bi) ra0 cs0 dc0.
Proof.
  revert H. unfold ra0. g_open. intros (H1 & H2 & H3 & H4 & H5 & H6 & (H7a & H7b) & H8 & H9 & H10 & H11 & H12 & H13).
  gsolve H9 H10 H11.
Qed.

Lemma col_at_rgb v : 0 <= v -> col_at 16777216 (256 + v) = v.
Proof. intros. unfold col_at. replace (16777216 =? 16777216) with true by reflexivity. replace (256 + v <? 256) with false by lia. lia. Qed.

Lemma L_fg_rgb v : 0 <= v < 16777216 ->
  G_rel (mkSgi (Some v) bg 16777216 b u k so cs dc false bi) (mkRA (Some (256 + v)) rb rbo rul rbl rrv) cs0 dc0.
Proof.
  revert H. g_open. intros (H1 & H2 & H3 & H4 & H5 & H6 & (H7a & H7b) & H8 & H9 & H10 & H11 & H12 & H13) Hv.
  pose proof (col_at_rgb v (proj1 Hv)) as Ec. clear H8 H9 H10 H11.
  repeat split; auto; intros; try discriminate; try congruence; try (right; right; right; reflexivity);
    try (clear - Hv; cbn; lia); try (eapply col_rel_colors; [eassumption|reflexivity]).
Qed.

Lemma L_bg_rgb v : 0 <= v < 16777216 ->
  G_rel (mkSgi fg (Some v) 16777216 b u k so cs dc fi false) (mkRA rf (Some (256 + v)) rbo rul rbl rrv) cs0 dc0.
Proof.
  revert H. g_open. intros (H1 & H2 & H3 & H4 & H5 & H6 & (H7a & H7b) & H8 & H9 & H10 & H11 & H12 & H13) Hv.
  pose proof (col_at_rgb v (proj1 Hv)) as Ec. clear H8 H9 H10 H11.
  repeat split; auto; intros; try discriminate; try congruence; try (right; right; right; reflexivity);
    try (clear - Hv; cbn; lia); try (eapply col_rel_colors; [eassumption|reflexivity]).
Qed.
End Updates.

Ltac eval_cmp :=
  repeat match goal with
         | |- context [?a <=? ?b] =>
             let r := eval vm_compute in (a <=? b) in
             match r with true => idtac | false => idtac end; change (a <=? b) with r
         | |- context [?a =? ?b] =>
             let r := eval vm_compute in (a =? b) in
             match r with true => idtac | false => idtac end; change (a =? b) with r
         end.

(* one classic parameter *)
Lemma sgi_step_rel a g ra cs dc : In a sgr_values -> G_rel g ra cs dc -> G_rel (sgi_step1 a g) (sgr1 a ra) cs dc.
Proof.
  intros Ha HG.
  destruct g as [fg bg colors bold ul blink so gcs gdc gfi gbi]. destruct ra as [rf rb rbo rul rbl rrv].
  pose proof HG as (_ & _ & E3 & E4 & E5 & E6 & _).
  cbn [g_bold g_ul g_blink g_so r_bold r_ul r_blink r_rev] in E3, E4, E5, E6. subst bold ul blink so.
  unfold sgr_values in Ha. cbn [In] in Ha.
  repeat (destruct Ha as [Ha|Ha];
          [subst a; unfold sgi_step1, sgr1; eval_cmp; cbn [andb orb];
           first [ eapply L_reset; exact HG
                 | apply (L_fg_idx _ _ _ _ _ _ _ _ _ _ _ _ _ _ _ _ _ _ _ HG 16); [lia|left; lia]
                 | apply (L_bg_idx _ _ _ _ _ _ _ _ _ _ _ _ _ _ _ _ _ _ _ HG 16); [lia|left; lia]
                 | eapply L_fg_none; exact HG
                 | eapply L_bg_none; exact HG
                 | eapply L_flags; exact HG ]|]).
  contradiction.
Qed.

(* the loop of sgi_to_attrspec on the (normalised) parameters of a well-formed SGR list *)
Lemma sgi_loop_rel k : forall l g ra cs dc, (length l <= k)%nat -> sgr_ok l = true -> G_rel g ra cs dc ->
  G_rel (sgi_loop (map (fun n => Z.max n 0) l) g) (sgr l ra) cs dc.
Proof.
  induction k; intros l g ra cs dc Hl Hok HG.
  - destruct l; [exact HG|cbn in Hl; lia].
  - destruct l as [|n r]; [exact HG|]. cbn [length] in Hl. cbn [sgr_ok] in Hok. cbn [map sgi_loop sgr].
    destruct ((n =? 38) || (n =? 48)) eqn:C.
    + replace ((Z.max n 0 =? 38) || (Z.max n 0 =? 48)) with true by lia.
      destruct r as [|b [|c r']]; try discriminate Hok. cbn [map].
      destruct (b =? 5) eqn:B5.
      * replace (Z.max b 0 =? 5) with true by lia.
        apply andb_prop in Hok. destruct Hok as [Hc Hr]. unfold in255 in Hc.
        replace (Z.min (Z.max c 0) 255) with c by lia.
        apply IHk; [cbn [length] in Hl; lia|exact Hr|].
        destruct g as [fg bg colors bold ul blink so gcs gdc gfi gbi]. destruct ra as [rf rb rbo rul rbl rrv].
        unfold sgi_setcolor, set_colour. cbn [g_colors].
        assert (n = 38 \/ n = 48) as Hn by lia. destruct Hn as [-> | ->].
        -- replace (Z.max 38 0 =? 38) with true by reflexivity. replace (38 =? 38) with true by reflexivity.
           apply (L_fg_idx _ _ _ _ _ _ _ _ _ _ _ _ _ _ _ _ _ _ _ HG 256); [lia|right; lia].
        -- replace (Z.max 48 0 =? 38) with false by reflexivity. replace (48 =? 38) with false by reflexivity.
           apply (L_bg_idx _ _ _ _ _ _ _ _ _ _ _ _ _ _ _ _ _ _ _ HG 256); [lia|right; lia].
      * destruct r' as [|cg [|cb r'']]; try discriminate Hok.
        apply andb_prop in Hok. destruct Hok as [Hok Hr]. apply andb_prop in Hok. destruct Hok as [Hok Hcb].
        apply andb_prop in Hok. destruct Hok as [Hok Hcg]. apply andb_prop in Hok. destruct Hok as [B2 Hc].
        unfold in255 in *. cbn [map].
        replace (Z.max b 0 =? 5) with false by lia. replace (Z.max b 0 =? 2) with true by lia. rewrite B2.
        apply IHk; [cbn [length] in Hl; lia|exact Hr|].
        assert (rgb_color (Z.max c 0) (Z.max cg 0) (Z.max cb 0) = c * 65536 + cg * 256 + cb) as Ev.
        { unfold rgb_color. rewrite !Z.shiftl_mul_pow2 by lia. change (2 ^ 16) with 65536. change (2 ^ 8) with 256. lia. }
        rewrite Ev.
        destruct g as [fg bg colors bold ul blink so gcs gdc gfi gbi]. destruct ra as [rf rb rbo rul rbl rrv].
        unfold sgi_setcolor, set_colour.
        assert (n = 38 \/ n = 48) as Hn by lia. destruct Hn as [-> | ->].
        -- replace (Z.max 38 0 =? 38) with true by reflexivity. replace (38 =? 38) with true by reflexivity.
           apply (L_fg_rgb _ _ _ _ _ _ _ _ _ _ _ _ _ _ _ _ _ _ _ HG). lia.
        -- replace (Z.max 48 0 =? 38) with false by reflexivity. replace (48 =? 38) with false by reflexivity.
           apply (L_bg_rgb _ _ _ _ _ _ _ _ _ _ _ _ _ _ _ _ _ _ _ HG). lia.
    + apply andb_prop in Hok. destruct Hok as [Hm Hr].
      pose proof (classic_norm n Hm) as Hin.
      assert ((Z.max n 0 =? 38) || (Z.max n 0 =? 48) = false) as C'.
      { unfold sgr_values in Hin. cbn [In] in Hin. repeat (destruct Hin as [Hin|Hin]; [rewrite <- Hin; reflexivity|]). contradiction. }
      rewrite C'. rewrite sgr1_norm. apply IHk; [lia|exact Hr|]. apply sgi_step_rel; assumption.
Qed.

(* the loop's start values: the current AttrSpec read back (csi_set_attr) *)
Definition sgi_start (a : option attr) (cs : charset_t) (dc : bool) : sgi_t :=
  match a with
  | None => mkSgi None None 1 false false false false cs dc true true
  | Some a0 => mkSgi (unbright a0 (a_fg a0)) (unbright a0 (a_bg a0)) (a_colors a0) (a_bold a0) (a_ul a0) (a_blink a0) (a_so a0)
                 cs dc (negb (a_colors a0 =? 16777216)) (negb (a_colors a0 =? 16777216))
  end.

Ltac start_solve :=
  unfold unbright; cbn [a_fg a_bg a_colors a_bold a_ul a_blink a_so]; eval_cmp; cbn [andb negb];
  g_open; unfold col_rel, col_at, below, col_ok in *; eval_cmp; lia_cmp0; cbn [andb negb];
  repeat split; auto; intros; try discriminate; try exact Logic.I; try lia; try tauto;
  rewrite ?andb_false_r; lia_cmp0; cbn [andb]; try reflexivity; try lia.

Lemma G_rel_start a ra cs dc : attr_rel a ra -> RA_ok ra -> G_rel (sgi_start a cs dc) ra cs dc.
Proof.
  intros (d & Hd & ->) [Of Ob]. destruct ra as [rf rb rbo rul rbl rrv].
  unfold attr_at, depth_ok, sgi_start in *. cbn [r_fg r_bg r_bold r_ul r_blink r_rev] in *.
  destruct rf as [f|], rb as [b|]; cbn [is_none andb].
  - destruct Hd as [(-> & Hf & Hb) | [(-> & Hf & Hb) | ->]]; destruct rbo; start_solve.
  - destruct Hd as [(-> & Hf & Hb) | [(-> & Hf & Hb) | ->]]; destruct rbo; start_solve.
  - destruct Hd as [(-> & Hf & Hb) | [(-> & Hf & Hb) | ->]]; destruct rbo; start_solve.
  - destruct (negb (rbo || rul || rbl || rrv)) eqn:F.
    + destruct rbo, rul, rbl, rrv; try discriminate F. start_solve.
    + start_solve.
Qed.

(* the end of sgi_to_attrspec: brightening at 16 colours, palette -> rgb at true colour, the AttrSpec *)
Lemma palette_get c : 0 <= c < 256 -> get_index color_values_256_gen c = Ok (palette c) /\ 0 <= palette c < 16777216.
Proof.
  intros H. destruct palette_table as [L F].
  destruct (nthz_some color_values_256_gen c) as (x & Hx & Hin); [lia|]. unfold palette. rewrite Hx. split.
  - apply get_index_nthz; [lia|exact Hx].
  - rewrite forallb_forall in F. specialize (F x Hin). lia.
Qed.

Lemma col_at_range c : 0 <= c < 256 + 16777216 -> 0 <= col_at 16777216 c < 16777216.
Proof.
  intros H. unfold col_at. replace (16777216 =? 16777216) with true by reflexivity.
  destruct (c <? 256) eqn:E; [apply palette_get; lia|lia].
Qed.

Lemma conv_side n i c : col_rel (Some n) i 16777216 (Some c) -> palette_rgb (Some n) i = Ok (Some (col_at 16777216 c)).
Proof.
  unfold col_rel, palette_rgb. destruct i.
  - intros [H ->]. rewrite (proj1 (palette_get c H)). cbn. unfold col_at.
    replace (16777216 =? 16777216) with true by reflexivity. replace (c <? 256) with true by lia. reflexivity.
  - intros [_ ->]. reflexivity.
Qed.

Definition sgi_finish (g : sgi_t) : result (option attr) :=
  let fg := match g_fg g with
            | Some f => if g_bold g && (g_colors g =? 16) && (f <? 8) then Some (f + 8) else Some f
            | None => None
            end in
  do fb <- (if g_colors g =? 16777216 then
              do fg' <- palette_rgb fg (g_fgi g); do bg' <- palette_rgb (g_bg g) (g_bgi g); Ok (fg', bg')
            else Ok (fg, g_bg g));
  mk_attrspec (fst fb) (snd fb) (g_colors g) (g_bold g) (g_ul g) (g_blink g) (g_so g).

Ltac fin_low rul rbl rrv d :=
  unfold mk_attrspec, colors_ok, color_ok; eval_cmp; lia_cmp0; cbn [andb orb is_none negb];
  try match goal with |- context [if negb _ then _ else _] => destruct rul, rbl, rrv; cbn [orb negb] end;
  (eexists; split; [reflexivity|]; exists d; split;
   [unfold depth_ok, below; cbn [r_fg r_bg]; tauto
   |unfold attr_at, col_at; cbn [r_fg r_bg r_bold r_ul r_blink r_rev is_none andb negb orb]; eval_cmp; cbn [andb]; reflexivity]).

Lemma sgi_finish_rel g ra cs dc : G_rel g ra cs dc -> exists a, sgi_finish g = Ok a /\ attr_rel a ra.
Proof.
  destruct g as [fg bg colors bold ul blink so gcs gdc gfi gbi]. destruct ra as [rf rb rbo rul rbl rrv].
  g_open. intros (H1 & H2 & H3 & H4 & H5 & H6 & (H7a & H7b) & H8 & H9 & H10 & H11 & H12 & H13).
  subst bold ul blink so. unfold sgi_finish. cbn [g_fg g_bg g_colors g_bold g_ul g_blink g_so g_fgi g_bgi].
  destruct H8 as [-> | [-> | [-> | ->]]].
  - destruct (H9 eq_refl) as [-> ->]. rewrite (col_rel_none_r _ _ _ _ H1 eq_refl), (col_rel_none_r _ _ _ _ H2 eq_refl).
    eval_cmp. cbn [bind fst snd]. unfold mk_attrspec, colors_ok, color_ok. eval_cmp. cbn [andb orb is_none].
    exists (attr_at 16777216 (mkRA None None rbo rul rbl rrv)). split.
    + unfold attr_at. cbn [r_fg r_bg r_bold r_ul r_blink r_rev is_none andb]. destruct (negb (rbo || rul || rbl || rrv)); reflexivity.
    + exists 16777216. split; [right; right; reflexivity|reflexivity].
  - assert (16 <> 16777216) as N by discriminate. destruct (H11 N) as [Hfi Hbi]. destruct (H10 eq_refl) as [Lf Lb].
    clear H9 H10 H11 N H12 H13. eval_cmp. unfold col_rel, below, col_ok in *.
    destruct fg as [n|], rf as [c|]; try contradiction; destruct bg as [m|], rb as [e|]; try contradiction;
      try (rewrite (Hfi ltac:(discriminate)) in H1; destruct H1 as [R1 ->]);
      try (rewrite (Hbi ltac:(discriminate)) in H2; destruct H2 as [R2 ->]);
      destruct rbo; cbn [andb bind fst snd]; lia_cmp0; cbn [bind fst snd]; fin_low rul rbl rrv 16.
  - assert (256 <> 16777216) as N by discriminate. destruct (H11 N) as [Hfi Hbi].
    clear H9 H10 H11 N H12 H13. eval_cmp. unfold col_rel, below, col_ok in *.
    destruct fg as [n|], rf as [c|]; try contradiction; destruct bg as [m|], rb as [e|]; try contradiction;
      try (rewrite (Hfi ltac:(discriminate)) in H1; destruct H1 as [R1 ->]);
      try (rewrite (Hbi ltac:(discriminate)) in H2; destruct H2 as [R2 ->]);
      destruct rbo; rewrite ?andb_false_r; cbn [andb bind fst snd]; fin_low rul rbl rrv 256.
  - eval_cmp. rewrite ?andb_false_r. cbn [andb].
    destruct fg as [n|], rf as [c|]; try contradiction; destruct bg as [m|], rb as [e|]; try contradiction;
      try rewrite (conv_side _ _ _ H1); try rewrite (conv_side _ _ _ H2);
      try (pose proof (col_at_range c H7a)); try (pose proof (col_at_range e H7b));
      destruct rbo; cbn [palette_rgb bind fst snd];
      unfold mk_attrspec, colors_ok, color_ok; eval_cmp; lia_cmp0; cbn [andb orb is_none negb];
      try match goal with |- context [if negb _ then _ else _] => destruct rul, rbl, rrv; cbn [orb negb] end;
      (eexists; split; [reflexivity|]; exists 16777216; split;
       [right; right; reflexivity
       |unfold attr_at; cbn [r_fg r_bg r_bold r_ul r_blink r_rev is_none andb negb orb]; eval_cmp; cbn [andb]; reflexivity]).
Qed.

Lemma cd_sgr X args q : csi_dispatch X 109 args q = csi_set_attr X args.
Proof. unfold csi_dispatch. destruct (cur X). reflexivity. Qed.

Lemma repeatz_nonpos {A} (x : A) n : n <= 0 -> repeatz x n = [].
Proof. intros. unfold repeatz. replace (Z.to_nat n) with 0%nat by lia. reflexivity. Qed.

Lemma csi_args_sgr l :
  csi_args l 1 0 = map (fun n => Z.max n 0) (match l with [] => [0] | _ => l end).
Proof.
  unfold csi_args. cbv zeta. destruct l as [|a r]; [reflexivity|].
  set (l := a :: r).
  rewrite repeatz_nonpos by (rewrite zlen_map; subst l; rewrite zlen_cons; pose proof (zlen_nonneg r); lia).
  rewrite app_nil_r. rewrite map_map. apply map_ext. intros n. apply dflt_zero.
Qed.

(* csi_set_attr is: read back, loop, finish, store *)
Lemma csi_set_attr_eq X args :
  csi_set_attr X args =
  let g := sgi_loop args (sgi_start (attrspec X) (cset X) (m_display_ctrl (modes X))) in
  do a <- sgi_finish g;
  let s := with_modes (with_cset X (g_cs g)) (set_m_display_ctrl (modes X) (g_dc g)) in
  if m_reverse_video (modes s) then Ok (with_attrspec s (Some (reverse_attrspec a false))) else Ok (with_attrspec s a).
Proof.
  unfold csi_set_attr, sgi_to_attrspec, sgi_start, sgi_finish. cbv zeta.
  destruct (attrspec X) as [a0|].
  - match goal with |- context [bind (if ?c then ?p else ?q) _] => destruct (if c then p else q) as [fb|e] end; cbn [bind]; [|reflexivity].
    match goal with |- context [mk_attrspec ?a ?b ?c ?d ?e ?f ?g] => destruct (mk_attrspec a b c d e f g) end; cbn [bind]; reflexivity.
  - replace (negb (1 =? 16777216)) with true by reflexivity.
    match goal with |- context [bind (if ?c then ?p else ?q) _] => destruct (if c then p else q) as [fb|e] end; cbn [bind]; [|reflexivity].
    match goal with |- context [mk_attrspec ?a ?b ?c ?d ?e ?f ?g] => destruct (mk_attrspec a b c d e f g) end; cbn [bind]; reflexivity.
Qed.

Lemma sgr_ok_nonneg_len l : 0 < zlen (map (fun n => Z.max n 0) (match l with [] => [0] | _ => l end)) /\
  Forall (fun v => 0 <= v) (map (fun n => Z.max n 0) (match l with [] => [0] | _ => l end)).
Proof.
  split.
  - rewrite zlen_map. destruct l as [|a r]; [reflexivity|]. rewrite zlen_cons. pose proof (zlen_nonneg r). lia.
  - apply Forall_forall. intros x Hx. apply in_map_iff in Hx. destruct Hx as (n & <- & _). lia.
Qed.

Lemma sim_sgr s v l : R s v -> cmd_ok (CSgr l) = true -> Forall small l ->
  exists s', addbytes s (enc_cmd (CSgr l)) = Ok s' /\ R s' (exec v (CSgr l)).
Proof.
  intros HR Hok Hs. cbn [enc_cmd exec].
  eapply (sim_csi s v l 109 1 0 109); [assumption|assumption|reflexivity|unfold plain_byte; lia|].
  intros X HX. rewrite cd_sgr. rewrite csi_args_sgr.
  set (l' := match l with [] => [0] | _ => l end).
  assert (sgr_ok l' = true) as Hok'.
  { subst l'. cbn [cmd_ok] in Hok. destruct l; [reflexivity|exact Hok]. }
  pose proof HX as [I1 _ _ _ _ _ _ _ _ A1 O1 _ M1 C1 _ _ _].
  pose proof (G_rel_start _ _ (cset X) (m_display_ctrl (modes X)) A1 O1) as G0.
  pose proof (sgi_loop_rel (length l') l' _ _ _ _ (le_n _) Hok' G0) as Gl.
  destruct (sgi_finish_rel _ _ _ _ Gl) as (a' & Ef & Ha').
  destruct (sgr_ok_nonneg_len l) as [Hlen Hpos]. fold l' in Hlen, Hpos.
  pose proof (csi_set_attr_Keeps X _ I1 Hlen Hpos) as Kp.
  rewrite csi_set_attr_eq in *. cbv zeta in *. rewrite Ef in *. cbn [bind] in *.
  destruct Gl as (_ & _ & _ & _ & _ & _ & Ok' & _ & _ & _ & _ & Ecs & Edc). rewrite Ecs, Edc in *.
  rewrite M1 in *. cbn [m_reverse_video set_m_display_ctrl modes0 m_display_ctrl modes with_modes with_cset] in *.
  eexists. split; [reflexivity|]. cbn [Keeps] in Kp. pose proof HX as [].
  constructor; cbn [v_w v_h v_g v_x v_y v_pend v_top v_bot v_attr v_cs v_sb v_sbknown v_replies width height term cur sr_start sr_end rotten attrspec u8eat
                    modes cset tabstops events sb with_attrspec with_modes with_cset]; auto.
  eapply K_Inv. exact Kp.
Qed.
