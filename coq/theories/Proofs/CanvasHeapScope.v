(* C02, heap layer, part 2: references stay inside the heap, hence every bound canvas
   denotes the same shards (and the same content) for ever: [operands_unchanged]. *)
From Coq Require Import ZArith List Bool Lia ZifyBool.
From Urwid Require Import PyBase Canvas CanvasHeap CanvasHeapFrame.
Import ListNotations.
Open Scope Z_scope.
Arguments Z.add : simpl never.
Arguments Z.sub : simpl never.
Arguments Z.mul : simpl never.
Arguments Z.ltb : simpl never.
Arguments Z.leb : simpl never.
Arguments Z.eqb : simpl never.
Arguments Z.min : simpl never.
Arguments Z.max : simpl never.
Arguments Z.to_nat : simpl never.
Arguments Z.of_nat : simpl never.

Definition ann_ok (h : heap) (a : list (Z * Z)) : Prop := Forall (fun e : Z * Z => 0 <= snd e < zlen (inner h)) a.
Definition scoped (h : heap) (id : Z) : Prop := 0 <= id < zlen (outer h) /\ ann_ok h (get_outer h id).
Definition vscoped (h : heap) (v : hvalue) : Prop := match v with HLeaf _ _ => True | HComp c => scoped h (hid c) end.

Lemma ann_ok_ext h h' a : hext h h' -> ann_ok h a -> ann_ok h' a.
Proof. intros (_ & L & _) F. unfold ann_ok in *. eapply Forall_impl; [|exact F]. cbn beta. intros; lia. Qed.

Lemma get_outer_ext h h' id : hext h h' -> 0 <= id < zlen (outer h) -> get_outer h' id = get_outer h id.
Proof. intros (_ & _ & X & _) H. unfold get_outer. now rewrite X. Qed.
Lemma get_inner_ext h h' iid : hext h h' -> 0 <= iid < zlen (inner h) -> get_inner h' iid = get_inner h iid.
Proof. intros (_ & _ & _ & X) H. unfold get_inner. now rewrite X. Qed.

Lemma scoped_ext h h' id : hext h h' -> scoped h id -> scoped h' id /\ deref h' id = deref h id.
Proof.
  intros E [Hid Ha]. pose proof E as (L1 & L2 & _). split.
  - split; [lia|]. rewrite (get_outer_ext _ _ _ E Hid). eapply ann_ok_ext; eauto.
  - unfold deref. rewrite (get_outer_ext _ _ _ E Hid). apply map_ext_in. intros e He. f_equal.
    unfold ann_ok in Ha. rewrite Forall_forall in Ha. apply get_inner_ext; auto.
Qed.

Lemma vscoped_ext h h' v : hext h h' -> vscoped h v -> vscoped h' v /\ to_value h' v = to_value h v.
Proof.
  intros E. destruct v as [c cu|c]; cbn [vscoped to_value]; [auto|]. intros S. destruct (scoped_ext _ _ _ E S) as [A B].
  split; [assumption|]. unfold to_comp. now rewrite B.
Qed.

(* ------------------------------------------------------------------ plans *)
Definition plan_ok (h : heap) (p : plan) : Prop :=
  Forall (fun e : Z * iref => match snd e with IShared iid => 0 <= iid < zlen (inner h) | IFresh _ => True end) p.

Lemma plan_ok_all_fresh h s : plan_ok h (all_fresh s).
Proof. unfold plan_ok, all_fresh. apply Forall_forall. intros e He. apply in_map_iff in He as (x & <- & _). exact I. Qed.
Lemma plan_ok_shared h a : ann_ok h a -> plan_ok h (shared a).
Proof.
  unfold plan_ok, shared, ann_ok. intros F. apply Forall_forall. intros e He. apply in_map_iff in He as (x & <- & Hx).
  rewrite Forall_forall in F. cbn [snd]. auto.
Qed.
Lemma ann_ok_lastn h n a : ann_ok h a -> ann_ok h (lastn n a).
Proof.
  unfold ann_ok, lastn. intros F. rewrite Forall_forall in *. intros e He. apply F.
  rewrite <- (firstn_skipn (length a - n) a). apply in_or_app. now right.
Qed.
Lemma plan_ok_first_fresh h a s : ann_ok h a -> plan_ok h (plan_first_fresh a s).
Proof.
  intros F. unfold plan_first_fresh. destruct s as [|[n cvs] rest]; [constructor|]. constructor; [exact I|].
  apply plan_ok_shared, ann_ok_lastn, F.
Qed.
Lemma plan_ok_ext h h' p : hext h h' -> plan_ok h p -> plan_ok h' p.
Proof.
  intros (_ & L & _) F. unfold plan_ok in *. eapply Forall_impl; [|exact F]. intros [n [iid|cvs]]; cbn [snd]; [lia|auto].
Qed.

Lemma alloc_plan_ok p : forall h h' a, alloc_plan h p = (h', a) -> plan_ok h p -> ann_ok h' a.
Proof.
  induction p as [|[n [iid|cvs]] p IH]; intros h h' a; cbn [alloc_plan].
  - intros [= <- <-] _. constructor.
  - destruct (alloc_plan h p) as [h1 a1] eqn:E. intros [= <- <-] F. inversion F; subst. cbn [snd] in *.
    destruct (alloc_plan_ext _ _ _ _ E) as [(_ & L & _) _]. constructor; [cbn [snd]; lia|eapply IH; eauto].
  - destruct (alloc_plan (Heap (outer h) (inner h ++ [cvs])) p) as [h1 a1] eqn:E. intros [= <- <-] F. inversion F; subst.
    destruct (alloc_plan_ext _ _ _ _ E) as [(_ & L & _) _]. cbn [inner] in L. rewrite zlen_app, zlen_cons, zlen_nil in L.
    constructor; [cbn [snd]; pose proof (zlen_nonneg (inner h)); lia|].
    eapply IH; [exact E|]. eapply plan_ok_ext; [apply hext_push_inner|assumption].
Qed.

Lemma alloc_outer_scoped h p h' id : alloc_outer h p = (h', id) -> plan_ok h p -> scoped h' id.
Proof.
  unfold alloc_outer. destruct (alloc_plan h p) as [h1 a] eqn:E. intros [= <- <-] F.
  pose proof (alloc_plan_ok _ _ _ _ E F) as A. pose proof (zlen_nonneg (outer h1)).
  unfold scoped, get_outer. cbn [outer inner]. rewrite hp_nthz_last. split; [rewrite zlen_app; change (zlen [a]) with 1; lia|exact A].
Qed.

(* ------------------------------------------------------------------ every operation yields a scoped reference *)
Ltac alloc_case E :=
  match goal with
  | |- context [alloc_outer ?h ?p] => destruct (alloc_outer h p) as [? ?] eqn:E
  end.

Lemma h_wrap_scoped h v h' c : h_wrap h v = Ok (h', c) -> vscoped h v -> scoped h' (hid c).
Proof.
  unfold h_wrap. destruct v as [cv cu|c0].
  - destruct (wrap (VLeaf cv cu)) as [c'|e]; [|discriminate]. alloc_case E. intros [= <- <-] _.
    eapply alloc_outer_scoped; [exact E|apply plan_ok_all_fresh].
  - intros [= <- <-] S. exact S.
Qed.

Lemma h_trim_scoped h c top count h' c' : h_trim h c top count = Ok (h', c') -> scoped h (hid c) -> scoped h' (hid c').
Proof.
  unfold h_trim. destruct (comp_trim (to_comp h c) top count) as [c1|e]; [|discriminate]. intros H [S1 S2]. destruct count as [n|].
  - revert H. alloc_case E. intros [= <- <-]. eapply alloc_outer_scoped; [exact E|apply plan_ok_all_fresh].
  - destruct (top =? 0).
    + injection H as <- <-. split; assumption.
    + revert H. alloc_case E. intros [= <- <-]. eapply alloc_outer_scoped; [exact E|now apply plan_ok_first_fresh].
Qed.

Lemma h_trim_end_scoped h c e h' c' : h_trim_end h c e = Ok (h', c') -> scoped h' (hid c').
Proof.
  unfold h_trim_end. destruct (comp_trim_end (to_comp h c) e) as [c1|er]; [|discriminate].
  alloc_case E. intros [= <- <-]. eapply alloc_outer_scoped; [exact E|apply plan_ok_all_fresh].
Qed.

Lemma h_pad_lr_scoped h c l r h' c' : h_pad_trim_left_right h c l r = Ok (h', c') -> scoped h (hid c) -> scoped h' (hid c').
Proof.
  unfold h_pad_trim_left_right. destruct (comp_pad_trim_left_right (to_comp h c) l r) as [c1|e]; [|discriminate]. intros H [S1 S2].
  destruct ((l <? 0) || (r <? 0)); [|destruct ((0 <? l) || (0 <? r))].
  - revert H. alloc_case E. intros [= <- <-]. eapply alloc_outer_scoped; [exact E|apply plan_ok_all_fresh].
  - revert H. alloc_case E. intros [= <- <-]. eapply alloc_outer_scoped; [exact E|now apply plan_ok_first_fresh].
  - injection H as <- <-. split; assumption.
Qed.

Lemma h_fill_scoped h c m h' c' : h_fill_attr_apply h c m = Ok (h', c') -> scoped h' (hid c').
Proof.
  unfold h_fill_attr_apply. destruct (comp_fill_attr_apply (to_comp h c) m) as [c1|e]; [|discriminate].
  alloc_case E. intros [= <- <-]. eapply alloc_outer_scoped; [exact E|apply plan_ok_all_fresh].
Qed.

Lemma h_same_scoped h c f h' c' : h_same h c f = Ok (h', c') -> scoped h (hid c) -> scoped h' (hid c').
Proof. unfold h_same. destruct (f (to_comp h c)); [|discriminate]. intros [= <- <-] S. exact S. Qed.

Lemma nth_error_set_nth_same {A} (l : list A) n x : (n < length l)%nat -> nth_error (set_nth l n x) n = Some x.
Proof. revert n; induction l as [|y l IH]; intros [|n] H; cbn [length] in H; try lia; cbn [set_nth nth_error]; [reflexivity|]. apply IH. lia. Qed.

Lemma h_drop_empty_scoped h0 c0 t b h1 c1 :
  h_drop_empty h0 c0 t b = (h1, c1) -> scoped h0 (hid c0) -> scoped h1 (hid c1).
Proof.
  unfold h_drop_empty. destruct (((0 <? t) || (0 <? b)) && (shards_rows (deref h0 (hid c0)) =? 0)).
  - destruct (alloc_outer h0 []) as [h2 id] eqn:E. intros [= <- <-] _. cbn [hid].
    eapply alloc_outer_scoped; [exact E|constructor].
  - intros [= <- <-] S. exact S.
Qed.

Lemma h_pad_tb_scoped h c t b h' c' : h_pad_trim_top_bottom h c t b = Ok (h', c') -> scoped h (hid c) -> scoped h' (hid c').
Proof.
  unfold h_pad_trim_top_bottom. destruct (hfin c); [discriminate|]. intros H S.
  assert (forall h1 c1, (if (t <? 0) || (b <? 0)
                         then h_trim h c (Z.max 0 (- t)) (Some (shards_rows (deref h (hid c)) - Z.max 0 (- t) - Z.max 0 (- b)))
                         else Ok (h, c)) = Ok (h1, c1) -> scoped h1 (hid c1)) as Ha.
  { intros h1 c1. destruct ((t <? 0) || (b <? 0)); [intros E; eapply h_trim_scoped; eauto|intros [= <- <-]; exact S]. }
  destruct (if (t <? 0) || (b <? 0) then _ else _) as [[h0 c0]|e]; [|discriminate]. specialize (Ha h0 c0 eq_refl).
  set (cols := shards_cols (deref h0 (hid c0))) in *.
  destruct (h_drop_empty h0 c0 t b) as [h1 c1] eqn:Ed.
  pose proof (h_drop_empty_scoped _ _ _ _ _ _ Ed Ha) as Ha1. clear Ha. rename Ha1 into Ha.
  assert (exists h2 c2, (if 0 <? t
                         then let '(h'0, id) := alloc_outer h1 ((t, IFresh (blank_cvs cols t)) :: shared (get_outer h1 (hid c1))) in
                              (h'0, HC id (translate_coords (hcoords c1) 0 t) false)
                         else (h1, c1)) = (h2, c2) /\ scoped h2 (hid c2)) as (h2 & c2 & E2 & S2).
  { destruct (0 <? t).
    - alloc_case E. eexists _, _. split; [reflexivity|]. cbn [hid]. eapply alloc_outer_scoped; [exact E|].
      constructor; [exact I|]. apply plan_ok_shared. apply Ha.
    - eexists _, _. split; [reflexivity|exact Ha]. }
  rewrite E2 in H. destruct (0 <? b).
  - destruct (hid c2 =? hid c).
    + revert H. alloc_case E. intros [= <- <-]. cbn [hid]. eapply alloc_outer_scoped; [exact E|].
      unfold plan_ok. apply Forall_app. split; [apply plan_ok_shared, S2|constructor; [exact I|constructor]].
    + injection H as <- <-. cbn [hid]. destruct S2 as [[I1 I2] A2]. unfold scoped, append_outer, get_outer. cbn [outer inner].
      split; [unfold zlen; rewrite set_nth_length; unfold zlen in I2; lia|].
      unfold nthz. destruct (hid c2 <? 0) eqn:E; [lia|]. rewrite nth_error_set_nth_same by (unfold zlen in I2; lia).
      unfold ann_ok. cbn [inner]. rewrite zlen_app. change (zlen [blank_cvs cols b]) with 1. apply Forall_app. split.
      * unfold ann_ok, get_outer, nthz in A2. rewrite E in A2. eapply Forall_impl; [|exact A2]. cbn beta. intros; lia.
      * constructor; [cbn [snd]; pose proof (zlen_nonneg (inner h2)); lia|constructor].
  - injection H as <- <-. exact S2.
Qed.

Lemma h_wrap_all_scoped vs : forall h h' cs,
  h_wrap_all h vs = Ok (h', cs) -> Forall (vscoped h) vs -> Forall (fun c : hcomp => scoped h' (hid c)) cs.
Proof.
  induction vs as [|v vs IH]; intros h h' cs; cbn [h_wrap_all]; [intros [= <- <-] _; constructor|].
  destruct (h_wrap h v) as [[h1 c]|e] eqn:E; [|discriminate]. destruct (h_wrap_all h1 vs) as [[h2 cs']|e] eqn:E2; [|discriminate].
  intros [= <- <-] F. inversion F; subst. pose proof (h_wrap_scoped _ _ _ _ E H1) as S1.
  pose proof (proj1 (h_wrap_ext _ _ _ _ E)) as X1. pose proof (h_wrap_all_ext _ _ _ _ E2) as X2.
  constructor; [apply (scoped_ext _ _ _ X2 S1)|]. eapply IH; [exact E2|].
  eapply Forall_impl; [|exact H2]. intros v0 Hv0. apply (vscoped_ext _ _ _ X1 Hv0).
Qed.

Lemma alloc_res_scoped hx p co fl h' c :
  (let '(h2, id) := alloc_outer hx p in @Ok (heap * hcomp) (h2, HC id co fl)) = Ok (h', c) -> plan_ok hx p -> scoped h' (hid c).
Proof. destruct (alloc_outer hx p) as [h2 id] eqn:E. intros [= <- <-] F. cbn [hid]. eapply alloc_outer_scoped; eauto. Qed.

Lemma h_combine_scoped h vs h' c : h_combine h vs = Ok (h', c) -> Forall (vscoped h) vs -> scoped h' (hid c).
Proof.
  unfold h_combine. destruct (canvas_combine (map (to_value h) vs)); [|discriminate].
  destruct (h_wrap_all h vs) as [[h1 cs]|e] eqn:E; intros H F; eapply alloc_res_scoped; try exact H; [|apply plan_ok_all_fresh].
  pose proof (h_wrap_all_scoped _ _ _ _ E F) as Fs.
  unfold plan_ok. apply Forall_flat_map. eapply Forall_impl; [|exact Fs]. intros c0 [_ A]. apply plan_ok_shared, A.
Qed.

Lemma h_overlay_scoped h tv bv l t h' c : h_overlay h tv bv l t = Ok (h', c) -> vscoped h tv -> vscoped h bv -> scoped h' (hid c).
Proof.
  unfold h_overlay. destruct (canvas_overlay (to_value h tv) (to_value h bv) l t); [|discriminate]. cbn zeta.
  destruct (h_wrap h bv) as [[h1 b]|e] eqn:E; [|intros H _ _; eapply alloc_res_scoped; [exact H|apply plan_ok_all_fresh]].
  destruct tv as [? ?|o]; [intros H _ _; eapply alloc_res_scoped; [exact H|apply plan_ok_all_fresh]|].
  destruct (if t =? 0 then Ok (deref h1 (hid b)) else shards_trim_top (deref h1 (hid b)) t) as [side1|e];
    [|intros H _ _; eapply alloc_res_scoped; [exact H|apply plan_ok_all_fresh]].
  destruct (if t =? 0 then Ok [] else shards_trim_rows (deref h1 (hid b)) t) as [tops|e];
    [|intros H _ _; eapply alloc_res_scoped; [exact H|apply plan_ok_all_fresh]].
  destruct (if _ =? 0 then Ok [] else shards_trim_top side1 _) as [bots|e];
    [|intros H _ _; eapply alloc_res_scoped; [exact H|apply plan_ok_all_fresh]].
  intros H St Sb. eapply alloc_res_scoped; [exact H|].
  pose proof (h_wrap_scoped _ _ _ _ E Sb) as Sb1. pose proof (proj1 (h_wrap_ext _ _ _ _ E)) as X1.
  cbn [vscoped] in St. destruct (scoped_ext _ _ _ X1 St) as [St1 _].
  unfold plan_ok. apply Forall_app. split; [apply plan_ok_all_fresh|]. apply Forall_app. split.
  - destruct (shards_rows (deref h1 (hid b)) =? 0); [constructor|]. destruct (negb (l =? 0) || negb (_ =? 0)); [apply plan_ok_all_fresh|apply plan_ok_shared, St1].
  - apply plan_ok_first_fresh, Sb1.
Qed.

Lemma h_join_scoped h l h' c : h_join h l = Ok (h', c) -> scoped h' (hid c).
Proof.
  unfold h_join. destruct (canvas_join _); [|discriminate]. cbn zeta. intros H. eapply alloc_res_scoped; [exact H|apply plan_ok_all_fresh].
Qed.

(* ------------------------------------------------------------------ the machine *)
Definition hwf (st : hstate) : Prop :=
  Forall (vscoped (hheap st)) (hstack st) /\ Forall (vscoped (hheap st)) (henv st).

Lemma Forall_vscoped_ext h h' vs : hext h h' -> Forall (vscoped h) vs -> Forall (vscoped h') vs.
Proof. intros E F. eapply Forall_impl; [|exact F]. intros v Hv. apply (vscoped_ext _ _ _ E Hv). Qed.

Lemma pop_n_Forall {A} (P : A -> Prop) n (l vs rest : list A) : pop_n n l = Ok (vs, rest) -> Forall P l -> Forall P vs /\ Forall P rest.
Proof.
  unfold pop_n. destruct ((n <? 0) || (zlen l <? n)); [discriminate|]. intros [= <- <-] F. split.
  - apply Forall_rev. unfold takez. rewrite Forall_forall in *. intros x Hx. apply F. rewrite <- (firstn_skipn (Z.to_nat n) l). apply in_or_app. now left.
  - unfold dropz. rewrite Forall_forall in *. intros x Hx. apply F. rewrite <- (firstn_skipn (Z.to_nat n) l). apply in_or_app. now right.
Qed.

Lemma on_hcomp_wf st f st' :
  (forall h c h' c', f h c = Ok (h', c') -> hext h h') ->
  (forall h c h' c', f h c = Ok (h', c') -> scoped h (hid c) -> scoped h' (hid c')) ->
  on_hcomp st f = Ok st' -> hwf st -> hwf st'.
Proof.
  intros He Hs. unfold on_hcomp. destruct (hstack st) as [|[? ?|c] rest] eqn:Es; try discriminate.
  destruct (f (hheap st) c) as [[h' c']|e] eqn:E; [|discriminate]. intros [= <-] [Fs Fe]. rewrite Es in Fs. inversion Fs; subst.
  pose proof (He _ _ _ _ E) as X. split; cbn [hheap hstack henv].
  - constructor; [cbn [vscoped]; eapply Hs; eauto|eapply Forall_vscoped_ext; eauto].
  - eapply Forall_vscoped_ext; eauto.
Qed.

Lemma hstep_wf leaves st i st' : hstep leaves st i = Ok st' -> hwf st -> hwf st'.
Proof.
  intros H W. pose proof W as [Fs Fe]. destruct i; cbn [hstep] in H.
  - destruct (nthz leaves (i - 1)) as [[c cu]|]; [|discriminate]. injection H as <-. split; cbn; [constructor; [exact I|assumption]|assumption].
  - destruct (nthz (henv st) k) as [v|] eqn:E; [|discriminate]. injection H as <-. split; cbn; [|assumption].
    constructor; [|assumption]. rewrite Forall_forall in Fe. apply Fe. unfold nthz in E. destruct (k <? 0); [discriminate|]. eapply nth_error_In; eauto.
  - destruct (hstack st) as [|v rest] eqn:Es; [discriminate|]. destruct (h_wrap (hheap st) v) as [[h' c]|e] eqn:E; [|discriminate].
    injection H as <-. inversion Fs; subst. pose proof (proj1 (h_wrap_ext _ _ _ _ E)) as X. split; cbn.
    + constructor; [eapply h_wrap_scoped; eauto|eapply Forall_vscoped_ext; eauto].
    + eapply Forall_vscoped_ext; eauto.
  - destruct (pop_n n (hstack st)) as [[vs rest]|e] eqn:Ep; [|discriminate]. destruct (h_combine (hheap st) vs) as [[h' c]|e] eqn:E; [|discriminate].
    injection H as <-. destruct (pop_n_Forall _ _ _ _ _ Ep Fs) as [Fv Fr]. pose proof (h_combine_ext _ _ _ _ E) as X. split; cbn.
    + constructor; [eapply h_combine_scoped; eauto|eapply Forall_vscoped_ext; eauto].
    + eapply Forall_vscoped_ext; eauto.
  - destruct (pop_n (zlen cols) (hstack st)) as [[vs rest]|e] eqn:Ep; [|discriminate].
    destruct (h_join (hheap st) (combine vs cols)) as [[h' c]|e] eqn:E; [|discriminate].
    injection H as <-. destruct (pop_n_Forall _ _ _ _ _ Ep Fs) as [Fv Fr]. pose proof (h_join_ext _ _ _ _ E) as X. split; cbn.
    + constructor; [eapply h_join_scoped; eauto|eapply Forall_vscoped_ext; eauto].
    + eapply Forall_vscoped_ext; eauto.
  - destruct (hstack st) as [|tv [|bv rest]] eqn:Es; try discriminate. destruct (h_overlay (hheap st) tv bv left top) as [[h' c]|e] eqn:E; [|discriminate].
    injection H as <-. inversion Fs as [|? ? Ht Fs']; subst. inversion Fs' as [|? ? Hb Fr]; subst. pose proof (h_overlay_ext _ _ _ _ _ _ _ E) as X. split; cbn.
    + constructor; [eapply h_overlay_scoped; eauto|eapply Forall_vscoped_ext; eauto].
    + eapply Forall_vscoped_ext; eauto.
  - exact (on_hcomp_wf st _ st' (fun h c h' c' => h_pad_lr_ext h c l r h' c') (fun h c h' c' => h_pad_lr_scoped h c l r h' c') H W).
  - exact (on_hcomp_wf st _ st' (fun h c h' c' => h_pad_tb_ext h c t b h' c') (fun h c h' c' => h_pad_tb_scoped h c t b h' c') H W).
  - exact (on_hcomp_wf st _ st' (fun h c h' c' E0 => proj1 (h_trim_ext h c top count h' c' E0)) (fun h c h' c' => h_trim_scoped h c top count h' c') H W).
  - exact (on_hcomp_wf st _ st' (fun h c h' c' => h_trim_end_ext h c e h' c') (fun h c h' c' E0 _ => h_trim_end_scoped h c e h' c' E0) H W).
  - exact (on_hcomp_wf st _ st' (fun h c h' c' => h_fill_ext h c (dict_of_list m) h' c') (fun h c h' c' E0 _ => h_fill_scoped h c (dict_of_list m) h' c' E0) H W).
  - exact (on_hcomp_wf st _ st' (fun h c0 h' c' => h_same_ext h c0 _ h' c') (fun h c0 h' c' => h_same_scoped h c0 _ h' c') H W).
  - exact (on_hcomp_wf st _ st' (fun h c0 h' c' => h_same_ext h c0 _ h' c') (fun h c0 h' c' => h_same_scoped h c0 _ h' c') H W).
  - exact (on_hcomp_wf st _ st' (fun h c0 h' c' => h_same_ext h c0 _ h' c') (fun h c0 h' c' => h_same_scoped h c0 _ h' c') H W).
  - destruct (hstack st) as [|v rest] eqn:Es; [discriminate|]. injection H as <-. inversion Fs; subst. split; cbn; [assumption|].
    apply Forall_app. split; [assumption|constructor; [assumption|constructor]].
  - destruct (nthz (henv st) i), (nthz (henv st) j); try discriminate. injection H as <-. split; assumption.
Qed.

(* OPERANDS ARE LEFT UNCHANGED: whatever was bound keeps denoting the same canvas value
   (same shards, hence same content, size and coords) after every later operation *)
Theorem hstep_operands_unchanged leaves st i st' :
  hwf st -> hstep leaves st i = Ok st' ->
  hwf st' /\
  forall k v, nthz (henv st) k = Some v -> nthz (henv st') k = Some v /\ to_value (hheap st') v = to_value (hheap st) v.
Proof.
  intros W H. split; [eapply hstep_wf; eauto|]. destruct (hstep_frame _ _ _ _ H) as [X Henv]. intros k v Hk. split.
  - destruct Henv as [->|(v0 & ->)]; [assumption|]. assert (0 <= k < zlen (henv st)) by (unfold nthz, zlen in *; destruct (k <? 0) eqn:E0; [discriminate|]; assert (nth_error (henv st) (Z.to_nat k) <> None) as Hn by congruence; apply nth_error_Some in Hn; lia). unfold nthz in *. destruct (k <? 0); [discriminate|].
    rewrite nth_error_app1 by (unfold zlen in *; lia). exact Hk.
  - destruct W as [_ Fe]. rewrite Forall_forall in Fe. apply (vscoped_ext _ _ _ X). apply Fe.
    unfold nthz in Hk. destruct (k <? 0); [discriminate|]. eapply nth_error_In; eauto.
Qed.

Theorem hrun_operands_unchanged leaves prog : forall st st' err,
  hwf st -> hrun leaves st prog = (st', err) ->
  hwf st' /\
  forall k v, nthz (henv st) k = Some v -> nthz (henv st') k = Some v /\ to_value (hheap st') v = to_value (hheap st) v.
Proof.
  induction prog as [|i prog IH]; intros st st' err W; cbn [hrun].
  - intros [= <- <-]. auto.
  - destruct (hstep leaves st i) as [st1|e] eqn:E.
    + intros R. destruct (hstep_operands_unchanged _ _ _ _ W E) as [W1 U1]. destruct (IH _ _ _ W1 R) as [W2 U2].
      split; [assumption|]. intros k v Hk. destruct (U1 _ _ Hk) as [A B]. destruct (U2 _ _ A) as [C D]. split; [assumption|congruence].
    + intros [= <- <-]. auto.
Qed.
