(* C18 - what the describers report for a packed value, and the round trip. *)
From Coq Require Import ZArith List Bool Lia ZifyBool.
Import ListNotations.
From Urwid Require Import PyBase PyList ColourBase colours_gen Colours ColoursTables ColoursBits ColoursSpec.
Open Scope Z_scope.

(* AttrSpec.colors in terms of the fields *)
Definition colors_spec (md : mode) (k bk : kind) : Z :=
  match md with
  | M88 => 88
  | _ => if is_high k || is_high bk then 256
         else if is_true k || is_true bk then TRUE_DEPTH
         else if is_basic k || is_basic bk then 16 else 1
  end.

Section Describe.
Variables (md : mode) (fn bn : Z) (ss : sset) (k bk : kind).
Hypothesis Hfn : low24 fn.
Hypothesis Hbn : low24 bn.
Let v := pack (marker md) fn (F ss k) bn (bgflag bk).

Lemma OKv : PackOK (marker md) fn (F ss k) bn (bgflag bk).
Proof. constructor; auto using marker_sub, F_sub, bgflag_sub. Qed.

Lemma colors_pack : attr_colors v = colors_spec md k bk.
Proof.
  destruct masks_in_RF as [F1 [F2 [F3 _]]]. destruct masks_in_RB as [B1 [B2 B3]].
  destruct masks_in_RM as [M1 _]. destruct (F_val ss k) as [V1 [V2 V3]].
  unfold attr_colors, v.
  rewrite (acc_m _ _ _ _ _ OKv _ M1).
  rewrite (acc_ff_bf _ _ _ _ _ OKv _ _ F2 B2), (acc_ff_bf _ _ _ _ _ OKv _ _ F3 B3), (acc_ff_bf _ _ _ _ _ OKv _ _ F1 B1).
  rewrite V1, V2, V3.
  destruct md, k, bk; reflexivity.
Qed.

Lemma fg_kind_pack :
  attr_foreground_basic v = is_basic k /\ attr_foreground_high v = is_high k /\ attr_foreground_true v = is_true k.
Proof.
  destruct masks_in_RF as [F1 [F2 [F3 _]]].
  unfold attr_foreground_basic, attr_foreground_high, attr_foreground_true, v.
  rewrite !(acc_ff _ _ _ _ _ OKv) by assumption.
  rewrite F_basic, F_high, F_true. destruct k; repeat split; reflexivity.
Qed.

Lemma bg_kind_pack :
  attr_background_basic v = is_basic bk /\ attr_background_high v = is_high bk /\ attr_background_true v = is_true bk.
Proof.
  destruct masks_in_RB as [B1 [B2 B3]].
  unfold attr_background_basic, attr_background_high, attr_background_true, v.
  rewrite !(acc_bf _ _ _ _ _ OKv) by assumption.
  destruct bk; repeat split; reflexivity.
Qed.

Lemma settings_pack :
  settings_of v = [s_bold ss; s_italics ss; s_standout ss; s_blink ss; s_underline ss; s_strike ss].
Proof.
  destruct masks_in_RF as [_ [_ [_ [S1 [S2 [S3 [S4 [S5 S6]]]]]]]].
  unfold settings_of, attr_bold, attr_italics, attr_standout, attr_blink, attr_underline, attr_strikethrough, v.
  rewrite !(acc_ff _ _ _ _ _ OKv) by assumption.
  rewrite (F_setting ss k BOLD (s_bold ss)), (F_setting ss k ITALICS (s_italics ss)),
    (F_setting ss k STANDOUT (s_standout ss)), (F_setting ss k BLINK (s_blink ss)),
    (F_setting ss k UNDERLINE (s_underline ss)), (F_setting ss k STRIKETHROUGH (s_strike ss)) by (cbn; tauto).
  now rewrite !negb_involutive.
Qed.

(* the describer selected by the reported depth *)
Definition high_desc (n : Z) : result desc :=
  if colors_spec md k bk =? 88 then color_desc_88 n
  else if colors_spec md k bk =? TRUE_DEPTH then color_desc_true n
  else color_desc_256 n.

Lemma foreground_color_pack :
  foreground_color v = match k with KNone => Ok DDefault | KBasic => basic_name fn | _ => high_desc fn end.
Proof.
  destruct fg_kind_pack as [E1 [E2 E3]]. unfold foreground_color, high_desc.
  rewrite E1, E2, E3, colors_pack. unfold v. rewrite (acc_fgnum _ _ _ _ _ OKv).
  destruct k; reflexivity.
Qed.

Lemma background_pack :
  background v = match bk with KNone => Ok DDefault | KBasic => basic_name bn | _ => high_desc bn end.
Proof.
  destruct bg_kind_pack as [E1 [E2 E3]]. destruct masks_in_RM as [M1 _]. unfold background, high_desc.
  rewrite E1, E2, E3, colors_pack. unfold v.
  rewrite (acc_bgnum _ _ _ _ _ OKv), (acc_m _ _ _ _ _ OKv _ M1), marker_88.
  destruct bk, md, k; reflexivity.
Qed.
End Describe.

(* ------------------------------------------------------------------ which (kind, number) pairs the parser yields *)
Definition side_ok (md : mode) (k : kind) (n : Z) : Prop :=
  match k with
  | KNone => n = 0
  | KBasic => 0 <= n < 16
  | _ => k = high_kind md /\ 0 <= n < num_bound md
  end.

Lemma part_side_ok md d c : wf_desc md d -> part_color md d = Ok (Some c) -> side_ok md (part_kind md d) c.
Proof.
  intros W E.
  assert (G : part_color md d = parse_mode md d -> part_kind md d = high_kind md -> side_ok md (part_kind md d) c).
  { intros E1 E2. rewrite E2. rewrite E1 in E.
    destruct (parse_mode_total md d W) as [o [Eo Ro]]. rewrite Eo in E. injection E as ->.
    specialize (Ro c eq_refl). destruct md; cbn; (split; [reflexivity|exact Ro]). }
  destruct d; try (apply G; reflexivity).
  - cbn in E. injection E as <-. reflexivity.
  - cbn in E, W. injection E as <-. exact W.
Qed.

Lemma fg_abs_side md : forall parts color ss k c' ss' k',
  Forall (wf_part md) parts -> side_ok md k (dflt color) ->
  fg_abs md parts color ss k = ROk (c', ss', k') -> side_ok md k' (dflt c').
Proof.
  induction parts as [|p rest IH]; intros color ss k c' ss' k' W Hs E.
  - cbn in E. injection E as <- <- <-. exact Hs.
  - inversion W as [|? ? Wp Wr]; subst. destruct p as [s|d]; cbn [fg_abs] in E.
    + destruct (mem s ss); [discriminate|]. eapply IH; eauto.
    + destruct (part_color md d) as [[sc|]|] eqn:Ec; try discriminate.
      destruct color; [discriminate|]. eapply IH; [exact Wr| |exact E].
      cbn [dflt]. now apply part_side_ok.
Qed.

(* ------------------------------------------------------------------ describing a side and parsing it again *)
(* the description reported for a side of kind k with number n when the reported depth is [cs] *)
Definition side_desc (cs : Z) (k : kind) (n : Z) : result desc :=
  match k with
  | KNone => Ok DDefault
  | KBasic => basic_name n
  | _ => if cs =? 88 then color_desc_88 n else if cs =? TRUE_DEPTH then color_desc_true n else color_desc_256 n
  end.

Lemma norm_not_true d : norm_ok d = true -> s_is_hash7 d = false.
Proof. destruct d; cbn; congruence. Qed.
Lemma norm_wf md d : norm_ok d = true -> md <> MTrue -> wf_desc md d.
Proof. destruct d; cbn; try congruence; try tauto. intros H N. split; [lia|]. intros; contradiction. Qed.
Lemma norm_part md d : norm_ok d = true ->
  part_color md d = parse_mode md d /\ part_kind md d = high_kind md.
Proof. destruct d; cbn; try congruence; intros; split; reflexivity. Qed.

(* [colors_spec] picks the describer that matches the mode whenever this side is a high/true colour *)
Lemma side_roundtrip md k bk0 bk1 n :
  side_ok md k n -> (k = KHigh \/ k = KTrue -> colors_spec md bk0 bk1 = colors_spec md k KNone \/ True) ->
  forall cs, (match k with KHigh | KTrue => cs = (match md with M88 => 88 | MTrue => TRUE_DEPTH | M256 => 256 end) | _ => True end) ->
  exists d, side_desc cs k n = Ok d /\ wf_desc md d /\ part_color md d = Ok (Some n) /\ part_kind md d = k.
Proof.
  intros Hs _ cs Hcs. destruct k; cbn [side_desc].
  - cbn in Hs. subst n. exists DDefault. repeat split.
  - cbn in Hs. exists (DBasic n). unfold basic_name. replace ((0 <=? n) && (n <? 16)) with true by lia.
    repeat split; cbn; lia.
  - destruct Hs as [Hk Hn]. subst cs. destruct md; cbn in Hk; try discriminate; cbn in Hn.
    + destruct (rt_88_norm n Hn) as [d [Ed [Ep Nd]]]. exists d. cbn [Z.eqb]. rewrite Ed.
      destruct (norm_part M88 d Nd) as [P1 P2]. rewrite P1, P2. repeat split; try assumption.
      apply norm_wf; [assumption|discriminate].
    + destruct (rt_256_norm n Hn) as [d [Ed [Ep Nd]]]. exists d.
      change (256 =? 88) with false. change (256 =? TRUE_DEPTH) with false. cbn iota. rewrite Ed.
      destruct (norm_part M256 d Nd) as [P1 P2]. rewrite P1, P2. repeat split; try (apply norm_wf; [assumption|discriminate]).
      cbn [parse_mode]. unfold true_to_256. rewrite (norm_not_true d Nd). cbn [negb bind]. exact Ep.
  - destruct Hs as [Hk Hn]. subst cs. destruct md; cbn in Hk; try discriminate; cbn in Hn.
    exists (DTrue n). change (TRUE_DEPTH =? 88) with false. rewrite Z.eqb_refl. cbn iota.
    destruct (true_roundtrip n Hn) as [E1 E2]. repeat split; try assumption. cbn. lia.
Qed.

(* the canonical settings list reproduces the set *)
Lemma settings_rebuild md ss c k :
  fg_abs md (parts_of_settings setting_order [s_bold ss; s_italics ss; s_standout ss; s_blink ss; s_underline ss; s_strike ss])
         c ss_empty k = ROk (c, ss, k).
Proof. all_ss ss; reflexivity. Qed.
Lemma settings_wf md bs : Forall (wf_part md) (parts_of_settings setting_order bs).
Proof.
  unfold setting_order. generalize [SBold; SItalics; SStandout; SBlink; SUnderline; SStrike]. intros l. revert bs.
  induction l as [|s l IH]; intros [|b bs]; cbn; try constructor.
  destruct b; cbn; [constructor; [exact I|]|]; apply IH.
Qed.

(* ------------------------------------------------------------------ the constructor, inverted *)
Lemma colors_spec_out md k bk : colors_spec (out_mode md k bk) k bk = colors_spec md k bk.
Proof. destruct md, k, bk; reflexivity. Qed.
Lemma out_mode_idem md k bk : out_mode (out_mode md k bk) k bk = out_mode md k bk.
Proof. destruct md, k, bk; reflexivity. Qed.
Lemma out_mode_88 md k bk :
  (match out_mode md k bk with M88 => true | _ => false end) = (match md with M88 => true | _ => false end).
Proof. destruct md, k, bk; reflexivity. Qed.

Lemma construct_inv D fg bg v :
  Forall (wf_part (mode_of D)) fg -> wf_desc (mode_of D) bg -> attrspec_new fg bg D = ROk v ->
  let md := mode_of D in
  valid_depth D = true /\ attr_colors v <= D /\ build md fg bg = ROk v /\
  exists fcol ss k bn,
    fg_abs md fg None ss_empty KNone = ROk (fcol, ss, k) /\ part_color md bg = Ok (Some bn) /\
    v = pack (marker (out_mode md k (part_kind md bg))) (dflt fcol) (F ss k) bn (bgflag (part_kind md bg)) /\
    low24 (dflt fcol) /\ low24 bn /\ side_ok md k (dflt fcol) /\ side_ok md (part_kind md bg) bn.
Proof.
  intros W Wb E md. rewrite attrspec_new_build in E by assumption. fold md in E.
  destruct (valid_depth D) eqn:VD; [|discriminate]. cbn [negb] in E.
  destruct (build md fg bg) as [v'|] eqn:EB; [|discriminate]. cbn [rbind] in E.
  destruct (D <? attr_colors v') eqn:EC; [discriminate|]. injection E as ->.
  split; [reflexivity|]. split; [lia|]. split; [reflexivity|].
  destruct (build_ok md fg bg v W Wb EB) as [fcol [ss [k [bn [EF [EP [EV [Hfn Hbn]]]]]]]].
  exists fcol, ss, k, bn.
  repeat (split; [assumption|]). split.
  - eapply (fg_abs_side md fg None ss_empty KNone); eauto. reflexivity.
  - now apply part_side_ok.
Qed.

(* when a side is a high / true colour, the reported depth is the one of the mode *)
Lemma colors_of_high md k bk n bn :
  side_ok md k n -> side_ok md bk bn ->
  (is_high k || is_true k = true -> colors_spec md k bk = match md with M88 => 88 | MTrue => TRUE_DEPTH | M256 => 256 end) /\
  (is_high bk || is_true bk = true -> colors_spec md k bk = match md with M88 => 88 | MTrue => TRUE_DEPTH | M256 => 256 end).
Proof.
  intros H1 H2.
  assert (K1 : is_high k || is_true k = true -> k = high_kind md)
    by (destruct k; cbn in H1 |- *; try discriminate; intros; apply H1).
  assert (K2 : is_high bk || is_true bk = true -> bk = high_kind md)
    by (destruct bk; cbn in H2 |- *; try discriminate; intros; apply H2).
  clear H1 H2.
  split; intros E; destruct md, k, bk; cbn in E |- *; try discriminate; try reflexivity;
    first [specialize (K1 eq_refl); discriminate | specialize (K2 eq_refl); discriminate].
Qed.

(* a 'default' or basic description means the same in every mode *)
Lemma low_kind_mode_indep md md2 d k :
  is_high k || is_true k = false -> part_kind md d = k ->
  part_color md2 d = part_color md d /\ part_kind md2 d = k /\ (wf_desc md d -> wf_desc md2 d).
Proof.
  intros Hk E. destruct d; cbn in E |- *; try (subst k; split; [reflexivity|split; [reflexivity|tauto]]);
    (subst k; destruct md; cbn in Hk; discriminate).
Qed.

(* what the two describers report, and that it parses back to the same fields in the mode of the
   declared depth and in the mode that stays in the value *)
Lemma describe_fields D fg bg v :
  Forall (wf_part (mode_of D)) fg -> wf_desc (mode_of D) bg -> attrspec_new fg bg D = ROk v ->
  let md := mode_of D in
  exists fcol ss k bn fd bd,
    let bk := part_kind md bg in let fn := dflt fcol in let cs := colors_spec md k bk in
    v = pack (marker (out_mode md k bk)) fn (F ss k) bn (bgflag bk) /\ low24 fn /\ low24 bn /\
    side_ok md k fn /\ side_ok md bk bn /\ attr_colors v = cs /\
    side_desc cs k fn = Ok fd /\ side_desc cs bk bn = Ok bd /\
    foreground v = Ok (fd, settings_of v) /\ background v = Ok bd /\
    settings_of v = [s_bold ss; s_italics ss; s_standout ss; s_blink ss; s_underline ss; s_strike ss] /\
    forall md2, md2 = md \/ md2 = out_mode md k bk ->
      wf_desc md2 fd /\ part_color md2 fd = Ok (Some fn) /\ part_kind md2 fd = k /\
      wf_desc md2 bd /\ part_color md2 bd = Ok (Some bn) /\ part_kind md2 bd = bk.
Proof.
  intros W Wb E md.
  destruct (construct_inv D fg bg v W Wb E) as [VD [LE [_ [fcol [ss [k [bn [EF [EP [EV [Hfn [Hbn [S1 S2]]]]]]]]]]]]].
  fold md in EF, EP, EV, S1, S2. set (bk := part_kind md bg) in *. set (fn := dflt fcol) in *.
  destruct (colors_of_high md k bk fn bn S1 S2) as [C1 C2].
  assert (D1 : exists d, side_desc (colors_spec md k bk) k fn = Ok d /\ wf_desc md d /\
                         part_color md d = Ok (Some fn) /\ part_kind md d = k).
  { apply (side_roundtrip md k k bk fn S1); [tauto|]. destruct k; try exact I; apply C1; reflexivity. }
  assert (D2 : exists d, side_desc (colors_spec md k bk) bk bn = Ok d /\ wf_desc md d /\
                         part_color md d = Ok (Some bn) /\ part_kind md d = bk).
  { apply (side_roundtrip md bk k bk bn S2); [tauto|]. destruct bk; try exact I; apply C2; reflexivity. }
  destruct D1 as [fd [Efd [Wfd [Pfd Kfd]]]]. destruct D2 as [bd [Ebd [Wbd [Pbd Kbd]]]].
  exists fcol, ss, k, bn, fd, bd. cbv zeta. fold bk fn.
  assert (EC : attr_colors v = colors_spec md k bk).
  { subst v. rewrite colors_pack by assumption. apply colors_spec_out. }
  assert (EFG : foreground_color v = Ok fd).
  { subst v. rewrite foreground_color_pack by assumption. unfold side_desc in Efd. unfold high_desc.
    rewrite colors_spec_out. destruct k; exact Efd. }
  assert (EBG : background v = Ok bd).
  { subst v. rewrite background_pack by assumption. unfold side_desc in Ebd. unfold high_desc.
    rewrite colors_spec_out. destruct bk; exact Ebd. }
  repeat (split; [assumption|]).
  split; [unfold foreground; now rewrite EFG|]. split; [exact EBG|].
  split; [subst v; now apply settings_pack|].
  intros md2 [Hm2|Hm2]; subst md2; [repeat split; assumption|].
  destruct md eqn:Emd; cbn [out_mode]; try (repeat split; assumption).
  destruct (is_true k || is_true bk) eqn:T; [repeat split; assumption|].
  (* declared with 2^24 colours, no true colour used: both sides are 'default' or basic *)
  assert (Hk : is_high k || is_true k = false).
  { destruct k; try reflexivity; cbn in S1, T; destruct S1 as [X _]; discriminate. }
  assert (Hbk : is_high bk || is_true bk = false).
  { destruct bk eqn:Y; try reflexivity; cbn in S2, T; try (destruct S2 as [X _]; discriminate).
    rewrite orb_true_r in T. discriminate. }
  destruct (low_kind_mode_indep MTrue M256 fd k Hk Kfd) as [A1 [A2 A3]].
  destruct (low_kind_mode_indep MTrue M256 bd bk Hbk Kbd) as [B1 [B2 B3]].
  rewrite A1, B1. repeat split; auto.
Qed.

(* rebuilding from the reported descriptions, in either mode *)
Lemma rebuild_in_mode D fg bg v :
  Forall (wf_part (mode_of D)) fg -> wf_desc (mode_of D) bg -> attrspec_new fg bg D = ROk v ->
  exists f b, foreground v = Ok f /\ background v = Ok b /\
    forall md2, (md2 = mode_of D \/ mode_of (attr_colors v) = md2) ->
      Forall (wf_part md2) (parts_of_foreground f) /\ wf_desc md2 b /\
      build md2 (parts_of_foreground f) b = ROk v.
Proof.
  intros W Wb E.
  destruct (describe_fields D fg bg v W Wb E) as [fcol [ss [k [bn [fd [bd H]]]]]]. cbv zeta in H.
  destruct H as [EV [Hfn [Hbn [S1 [S2 [EC [Efd [Ebd [EF [EB [ES RB]]]]]]]]]]].
  set (md := mode_of D) in *. set (bk := part_kind md bg) in *. set (fn := dflt fcol) in *.
  exists (fd, settings_of v), bd. split; [exact EF|]. split; [exact EB|].
  assert (MO : mode_of (attr_colors v) = out_mode md k bk).
  { rewrite EC.
    assert (K1 : is_high k || is_true k = true -> k = high_kind md)
      by (destruct k; cbn in S1 |- *; try discriminate; intros; apply S1).
    assert (K2 : is_high bk || is_true bk = true -> bk = high_kind md)
      by (destruct bk; cbn in S2 |- *; try discriminate; intros; apply S2).
    clear -K1 K2. destruct md, k, bk; cbn in K1, K2 |- *; try reflexivity;
      first [specialize (K1 eq_refl); discriminate | specialize (K2 eq_refl); discriminate]. }
  intros md2 Hmd2.
  assert (Hmd2' : md2 = md \/ md2 = out_mode md k bk) by (destruct Hmd2 as [Hx|Hx]; [left; exact Hx|right; rewrite <- MO; symmetry; exact Hx]).
  destruct (RB md2 Hmd2') as [Wfd [Pfd [Kfd [Wbd [Pbd Kbd]]]]].
  split; [unfold parts_of_foreground; cbn [fst snd]; constructor; [exact Wfd|apply settings_wf]|].
  split; [exact Wbd|].
  unfold build, parts_of_foreground. cbn [fst snd fg_abs]. rewrite Pfd.
  rewrite ES, settings_rebuild, Pbd, Kfd, Kbd. cbn [dflt].
  replace (out_mode md2 k bk) with (out_mode md k bk); [now rewrite EV|].
  destruct Hmd2' as [Hx|Hx]; subst md2; [reflexivity|now rewrite out_mode_idem].
Qed.

Theorem roundtrip D fg bg v :
  Forall (wf_part (mode_of D)) fg -> wf_desc (mode_of D) bg -> attrspec_new fg bg D = ROk v ->
  exists f b, foreground v = Ok f /\ background v = Ok b /\
    Forall (wf_part (mode_of D)) (parts_of_foreground f) /\ wf_desc (mode_of D) b /\
    attrspec_new (parts_of_foreground f) b D = ROk v.
Proof.
  intros W Wb E. destruct (rebuild_in_mode D fg bg v W Wb E) as [f [b [Ef [Eb R]]]].
  destruct (R (mode_of D) (or_introl eq_refl)) as [Wf [Wb' EB]].
  destruct (construct_inv D fg bg v W Wb E) as [VD [LE _]].
  exists f, b. repeat (split; [assumption|]).
  rewrite attrspec_new_build by assumption. rewrite VD. cbn [negb]. rewrite EB. cbn [rbind].
  replace (D <? attr_colors v) with false by lia. reflexivity.
Qed.

(* the reported depth expresses the specification: rebuilding at attr_colors v gives v again *)
Theorem rebuild_at_reported_depth D fg bg v :
  Forall (wf_part (mode_of D)) fg -> wf_desc (mode_of D) bg -> attrspec_new fg bg D = ROk v ->
  exists f b, foreground v = Ok f /\ background v = Ok b /\
    attrspec_new (parts_of_foreground f) b (attr_colors v) = ROk v.
Proof.
  intros W Wb E. destruct (rebuild_in_mode D fg bg v W Wb E) as [f [b [Ef [Eb R]]]].
  destruct (R (mode_of (attr_colors v)) (or_intror eq_refl)) as [Wf [Wb' EB]].
  exists f, b. repeat (split; [assumption|]).
  assert (V : valid_depth (attr_colors v) = true).
  { destruct (describe_fields D fg bg v W Wb E) as [fcol [ss [k [bn [fd [bd H]]]]]]. cbv zeta in H.
    destruct H as [_ [_ [_ [_ [_ [EC _]]]]]]. rewrite EC.
    destruct (mode_of D), k, (part_kind _ bg); reflexivity. }
  rewrite attrspec_new_build by assumption. rewrite V. cbn [negb]. rewrite EB. cbn [rbind].
  now rewrite Z.ltb_irrefl.
Qed.
