(* The shape of the lines of a str layout that the bytes-mode rendering simulation needs: every text range
   lies inside the text, and a line either fits segment by segment or carries no inserted text. *)
From Coq Require Import ZArith List Bool Lia ZifyBool.
Import ListNotations.
From Urwid Require Import PyBase TextLayout TextLayoutFacts TextLayoutProofs TextLayoutTop.
Open Scope Z_scope.

Definition str_line_ok (t : list Z) (width : Z) (l : line) : Prop :=
  (forall sc o e, In (SText sc o e) l -> 0 <= o <= e /\ e <= zlen t) /\
  (Forall (fun x => 0 <= seg_sc x <= width) l \/ forall sc o txt, ~ In (SIns sc o txt) l).

Lemma in_align_ins width align l0 sc o txt : In (SIns sc o txt) (align_line width align l0) -> In (SIns sc o txt) l0.
Proof.
  unfold align_line. destruct ((line_width l0 =? width) || match align with AlLeft => true | _ => false end); [auto|].
  destruct align; try (destruct ((width - line_width l0 + 1) / 2 =? 0); [auto|]); intros [Q|I]; try discriminate; assumption.
Qed.

Lemma in_align_text' width align l0 sc o e : In (SText sc o e) (align_line width align l0) -> In (SText sc o e) l0.
Proof.
  unfold align_line. destruct ((line_width l0 =? width) || match align with AlLeft => true | _ => false end); [auto|].
  destruct align; try (destruct ((width - line_width l0 + 1) / 2 =? 0); [auto|]); intros [Q|I]; try discriminate; assumption.
Qed.

Lemma fits_segs cw (R : forall c, 0 <= cw c <= 2) t width l : line_fits cw t width l ->
  Forall (fun x => 0 <= seg_sc x <= width) l.
Proof.
  intros (HF & HT). destruct (total_ge_seg cw R t width l HF) as (_ & G).
  eapply Forall_impl; [|exact G]. cbn. intros; lia.
Qed.

Theorem layout_lines_ok cw t width align wrap ell L :
  (forall c, 0 <= cw c <= 2) -> cw SP = 1 -> 1 <= width ->
  layout cw t width align wrap ell = Ok L -> Forall (str_line_ok t width) L.
Proof.
  intros R S Hw E. apply Forall_forall. intros ln I.
  destruct (wrap_cases wrap) as [Hm|Hm].
  - destruct (layout_wrap_cases cw R S t width Hw align ell wrap Hm) as [(E' & _) | (segs & HL & E')];
      rewrite E' in E; inversion E; subst L.
    + destruct I as [<-|[]]. split; [intros ? ? ? []|]. left. constructor.
    + destruct (aligned_line_origin cw t width align wrap segs _ ln HL eq_refl I) as (l0 & a & b & I0 & HO & -> & NS & NE).
      destruct (LineOK_fits cw t width Hw wrap _ _ _ HO) as (_ & F2 & _).
      destruct (LineOK_seg_ok cw R t width Hw wrap _ _ _ HO) as (F & T & _).
      split.
      * intros sc o e Hin. apply in_align_text' in Hin. specialize (F2 _ _ _ Hin). lia.
      * left. apply (fits_segs cw R t). apply (align_line_fits cw R t width align l0 NS F T).
  - destruct (layout_trim_cases cw R t width Hw align ell wrap Hm) as (segs & HL & E'). rewrite E' in E; inversion E; subst L.
    destruct (trim_line_origin cw t width align ell wrap segs ln HL I) as (l0 & a & b & HO & -> & NS & NE).
    destruct (TLineOK_fits cw R t width Hw wrap ell _ _ _ HO) as (F1 & F2 & F3 & _).
    pose proof (TLineOK_seg_ok cw R t width Hw ell wrap _ _ _ HO) as F.
    split.
    + intros sc o e Hin. apply in_align_text' in Hin. specialize (F2 _ _ _ Hin). lia.
    + destruct (Z_le_gt_dec (total l0) width) as [Le|Gt].
      * left. apply (fits_segs cw R t). apply (align_line_fits cw R t width align l0 NS F Le).
      * right. intros sc o txt Hin. apply in_align_ins in Hin.
        destruct (F3 _ _ _ Hin) as (_ & _ & _ & Hlw). rewrite (line_width_no_shift l0 NS) in Hlw. lia.
Qed.
