(* C01 - Overlay with width='pack': the top widget is a fixed widget, clipped when it does not fit.
   Relies on 0ccc7f0 (a clipped top canvas is placed at column 0). *)
From Coq Require Import ZArith List Bool Lia ZifyBool.
Import ListNotations.
From Urwid Require Import WidgetDims WidgetDimsProofs WidgetDimsOverlay WidgetDimsFixed WidgetDimsClip.
Open Scope Z_scope.

Arguments Z.add : simpl never.
Arguments Z.sub : simpl never.
Arguments Z.mul : simpl never.
Arguments Z.quot : simpl never.
Arguments Z.ltb : simpl never.
Arguments Z.leb : simpl never.
Arguments Z.eqb : simpl never.
Arguments Z.max : simpl never.
Arguments Z.min : simpl never.

Lemma overlay_body_pack_ok t b p c r f :
  GoodFx t -> s_fixed (m_sizing t) = true -> (exists nb, GoodN nb b) -> s_box (m_sizing b) = true ->
  ov_wt p = WPack -> 1 <= c -> 1 <= r ->
  match overlay_body t b p c r f with
  | Ok d => cc d = c /\ cr d = r /\ rect d = true /\ inside d
  | Err e => soft e
  end.
Proof.
  intros GX Hfx [nb Gb] Hb EW Hc Hr. unfold overlay_body, overlay_cpf. rewrite EW.
  pose proof (gx_pack t GX Hfx f) as P. pose proof (gx_render t GX Hfx f) as RT.
  destruct (m_pack t SFixed f) as [[w h]|e] eqn:EP; cbn [bind fst snd]; [|exact P].
  destruct P as [Hw Hh]. replace (h =? 0) with false by lia. cbn [bind].
  pose proof (clrp_clip c (ov_align p) w (ov_left p) (ov_right p)) as [CS CG].
  destruct (clrp c (ov_align p) WClip w None (ov_left p) (ov_right p)) as [L R]. cbn [fst snd] in CS, CG.
  pose proof (g_box b Gb c r false Hb Hc Hr) as B.
  destruct (Z_lt_ge_dec r h) as [Hov|Hfit].
  - (* the fixed widget is taller than the screen *)
    rewrite ctbf_given_over by lia. replace (r - 0 - 0 <? h) with true by lia. cbn [bind].
    destruct (m_render b (SBox c r) false) as [bc|e]; cbn [bind]; [|exact B].
    destruct B as [[B1 B2] [B3 B4]].
    replace ((cc bc =? 0) || (cr bc =? 0)) with false by lia.
    destruct (m_render t SFixed f) as [tc|e]; cbn [bind]; [|exact RT].
    destruct RT as [T1 [T2 T3]]. rewrite EP in T1. inversion T1; subst w h.
    replace ((cc tc =? 0) || (cr tc =? 0)) with false by lia.
    assert (S1 : exists t1, (if (L <? 0) || (R <? 0) then pad_trim_lr tc (Z.min 0 L) (Z.min 0 R) else Ok tc) = Ok t1
                            /\ cc t1 + Z.max L 0 <= c /\ cr t1 = cr tc /\ rect t1 = true /\ inside t1).
    { destruct ((L <? 0) || (R <? 0)) eqn:EN.
      - assert (HL : L <= 0 /\ R <= 0) by lia. unfold pad_trim_lr.
        replace ((Z.min 0 L <? 0) || (Z.min 0 R <? 0)) with true by lia.
        replace (cc tc - Z.max 0 (- Z.min 0 L) - Z.max 0 (- Z.min 0 R) <=? 0) with false by lia.
        eexists. split; [reflexivity|]. cbn [cc cr rect cur]. repeat split; auto; try lia.
        unfold inside. cbn [cc cr cur].
        match goal with |- match drop_outside ?a ?b ?c with _ => _ end =>
          pose proof (drop_outside_inside a b c) as D; destruct (drop_outside a b c) as [[x y]|]; auto end.
      - exists tc. repeat split; auto. lia. }
    destruct S1 as [t1 [E1 [A1 [A2 [A3 A4]]]]]. rewrite E1. cbn [bind].
    replace ((0 <? 0) || (r - 0 - cr tc <? 0)) with true by lia.
    replace (Z.min 0 0) with 0 by lia. replace (Z.min 0 (r - 0 - cr tc)) with (r - cr t1) by lia.
    destruct (pad_tb_cut t1 (r - cr t1)) as [t2 [E2 [C1 [C2 [C3 C4]]]]]; try lia; auto.
    rewrite E2. cbn [bind].
    destruct (overlay_place t2 bc (Z.max L 0) 0) as [d [E [D1 [D2 [D3 D4]]]]]; try lia; try congruence; auto.
    rewrite E. fin.
  - pose proof (ctbf_given_fit r (ov_valign p) h None (ov_top p) (ov_bottom p) ltac:(lia)) as S.
    pose proof (ctbf_nonneg r (ov_valign p) (HGiven h) h None (ov_top p) (ov_bottom p)) as [N1 N2].
    destruct (ctbf r (ov_valign p) (HGiven h) h None (ov_top p) (ov_bottom p)) as [top bottom].
    cbn [fst snd] in S, N1, N2. replace (r - top - bottom <? h) with false by lia. cbn [bind].
    destruct (m_render b (SBox c r) false) as [bc|e]; cbn [bind]; [|exact B].
    destruct B as [[B1 B2] [B3 B4]].
    replace ((cc bc =? 0) || (cr bc =? 0)) with false by lia.
    destruct (m_render t SFixed f) as [tc|e]; cbn [bind]; [|exact RT].
    destruct RT as [T1 [T2 T3]]. rewrite EP in T1. inversion T1; subst w h.
    replace ((cc tc =? 0) || (cr tc =? 0)) with false by lia.
    assert (S1 : exists t1, (if (L <? 0) || (R <? 0) then pad_trim_lr tc (Z.min 0 L) (Z.min 0 R) else Ok tc) = Ok t1
                            /\ cc t1 + Z.max L 0 <= c /\ cr t1 = cr tc /\ rect t1 = true /\ inside t1).
    { destruct ((L <? 0) || (R <? 0)) eqn:EN.
      - assert (HL : L <= 0 /\ R <= 0) by lia. unfold pad_trim_lr.
        replace ((Z.min 0 L <? 0) || (Z.min 0 R <? 0)) with true by lia.
        replace (cc tc - Z.max 0 (- Z.min 0 L) - Z.max 0 (- Z.min 0 R) <=? 0) with false by lia.
        eexists. split; [reflexivity|]. cbn [cc cr rect cur]. repeat split; auto; try lia.
        unfold inside. cbn [cc cr cur].
        match goal with |- match drop_outside ?a ?b ?c with _ => _ end =>
          pose proof (drop_outside_inside a b c) as D; destruct (drop_outside a b c) as [[x y]|]; auto end.
      - exists tc. repeat split; auto. lia. }
    destruct S1 as [t1 [E1 [A1 [A2 [A3 A4]]]]]. rewrite E1. cbn [bind].
    replace ((top <? 0) || (bottom <? 0)) with false by lia. cbn [bind].
    destruct (overlay_place t1 bc (Z.max L 0) top) as [d [E [D1 [D2 [D3 D4]]]]]; try lia; auto.
    rewrite E. fin.
Qed.

(* the Overlay as a box widget, and as a fixed widget (pack(()) = top widget + margins) *)
Lemma overlay_pack_good t b p :
  GoodFx t -> s_fixed (m_sizing t) = true -> (exists nb, GoodN nb b) -> s_box (m_sizing b) = true -> ov_wt p = WPack ->
  0 <= ov_left p -> 0 <= ov_right p -> 0 <= ov_top p -> 0 <= ov_bottom p ->
  Good (overlay_sem t b p) /\ GoodFx (overlay_sem t b p).
Proof.
  intros GX Hfx Gb Hb EW Hl Hrg Htp Hbt. split.
  - rewrite overlay_sem_as_node. apply mk_node_good.
    + intros c f Hs. unfold overlay_sizing in Hs. rewrite EW in Hs. discriminate.
    + intros c f Hs. unfold overlay_sizing in Hs. rewrite EW in Hs. discriminate.
    + intros c r f Hs Hc Hr. rewrite overlay_render_unfold.
      cbn [overlay_sem m_pack]. unfold degenerate. replace ((c <=? 0) || (r <=? 0)) with false by lia.
      cbn [default_pack bind fst snd].
      pose proof (overlay_body_pack_ok t b p c r f GX Hfx Gb Hb EW Hc Hr) as B.
      destruct (overlay_body t b p c r f) as [d|e]; [|exact B].
      destruct B as [B1 [B2 [B3 B4]]]. fin.
  - constructor; cbn [overlay_sem m_sizing m_pack m_render degenerate]; intros Hs f.
    + unfold overlay_pack_fixed. rewrite EW.
      pose proof (gx_pack t GX Hfx f) as P.
      destruct (m_pack t SFixed f) as [[w h]|e]; cbn [bind fst snd]; [|exact P]. lia.
    + unfold wrap_render. cbn [degenerate]. rewrite overlay_render_unfold. cbn [degenerate].
      unfold meets. cbn [overlay_sem m_pack degenerate]. unfold overlay_pack_fixed. rewrite EW.
      pose proof (gx_pack t GX Hfx f) as P.
      destruct (m_pack t SFixed f) as [[w h]|e]; cbn [bind fst snd]; [|exact P].
      pose proof (overlay_body_pack_ok t b p (w + (ov_left p + ov_right p)) (h + (ov_top p + ov_bottom p)) f
                    GX Hfx Gb Hb EW ltac:(lia) ltac:(lia)) as B.
      destruct (overlay_body t b p (w + (ov_left p + ov_right p)) (h + (ov_top p + ov_bottom p)) f) as [d|e];
        cbn [bind validate]; [|exact B].
      destruct B as [B1 [B2 [B3 B4]]]. repeat split; auto. congruence.
Qed.
