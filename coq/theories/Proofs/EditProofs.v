(* C10 - proofs about the Edit model: offset invariant, refinement to the reference editor,
   signal order, unhandled keys, numeric alphabets. *)
From Coq Require Import ZArith List Bool Lia ZifyBool.
From Urwid Require Import PyBase Edit EditSpec.
Import ListNotations.
Open Scope Z_scope.

Arguments Z.add : simpl never.
Arguments Z.sub : simpl never.
Arguments Z.mul : simpl never.
Arguments Z.div : simpl never.
Arguments Z.modulo : simpl never.
Arguments Z.ltb : simpl never.
Arguments Z.leb : simpl never.
Arguments Z.eqb : simpl never.
Arguments Z.gtb : simpl never.
Arguments Z.geb : simpl never.
Arguments Z.min : simpl never.
Arguments Z.max : simpl never.
Arguments Z.abs : simpl never.
Arguments Z.to_nat : simpl never.
Arguments Z.of_nat : simpl never.

(* ---------- small facts ---------- *)
Lemma clampz_range v lo hi : lo <= hi -> lo <= clampz v lo hi <= hi.
Proof. unfold clampz; lia. Qed.

Lemma clampz_id v lo hi : lo <= v <= hi -> clampz v lo hi = v.
Proof. unfold clampz; lia. Qed.

Lemma zlen_ins_at t p cs : 0 <= p <= zlen t -> zlen (ins_at t p cs) = zlen t + zlen cs.
Proof.
  intros. unfold ins_at. rewrite !zlen_app, zlen_takez, zlen_dropz by lia. lia.
Qed.

Lemma zlen_del_at t p : 0 <= p < zlen t -> zlen (del_at t p) = zlen t - 1.
Proof.
  intros. unfold del_at. rewrite zlen_app, zlen_takez, zlen_dropz by lia. lia.
Qed.

Lemma dropz_1_tl {A} (t : list A) : dropz 1 t = tl t.
Proof. unfold dropz. change (Z.to_nat 1) with 1%nat. destruct t; reflexivity. Qed.

Lemma is48 c : (match c with 48 => true | _ => false end) = (c =? 48).
Proof.
  destruct c as [|q|q]; try reflexivity;
  destruct q as [q|q|]; try reflexivity; destruct q as [q|q|]; try reflexivity;
  destruct q as [q|q|]; try reflexivity; destruct q as [q|q|]; try reflexivity;
  destruct q as [q|q|]; try reflexivity; destruct q as [q|q|]; try reflexivity.
Qed.

Lemma is45 c : (match c with 45 => true | _ => false end) = (c =? 45).
Proof.
  destruct c as [|q|q]; try reflexivity;
  destruct q as [q|q|]; try reflexivity; destruct q as [q|q|]; try reflexivity;
  destruct q as [q|q|]; try reflexivity; destruct q as [q|q|]; try reflexivity;
  destruct q as [q|q|]; try reflexivity; destruct q as [q|q|]; try reflexivity.
Qed.

Lemma lead0_cons n c r : lead0 (S n) (c :: r) = if c =? 48 then S (lead0 n r) else O.
Proof.
  rewrite <- is48. cbn [lead0].
  destruct c as [|q|q]; try reflexivity;
  destruct q as [q|q|]; try reflexivity; destruct q as [q|q|]; try reflexivity;
  destruct q as [q|q|]; try reflexivity; destruct q as [q|q|]; try reflexivity;
  destruct q as [q|q|]; try reflexivity; destruct q as [q|q|]; try reflexivity.
Qed.

Lemma lead0_le n : forall t, (lead0 n t <= n)%nat /\ (lead0 n t <= length t)%nat.
Proof.
  induction n as [|m IHm]; intros t; [cbn [lead0]; lia|].
  destruct t as [|c r]; [cbn; lia|].
  rewrite lead0_cons. destruct (c =? 48); [|lia].
  destruct (IHm r). cbn [length]. lia.
Qed.

Lemma list_eqb_eq a : forall b, list_eqb a b = true -> a = b.
Proof.
  induction a as [|x a IH]; intros [|y b] H; cbn [list_eqb] in H; try discriminate; [reflexivity|].
  apply andb_true_iff in H. destruct H as [H1 H2]. f_equal; [lia|apply IH; exact H2].
Qed.

Lemma is_sub_single u al : is_sub [u] al = memz u al.
Proof.
  induction al as [|a r IH]; [reflexivity|].
  cbn [is_sub is_prefix memz]. rewrite IH. rewrite andb_true_r. reflexivity.
Qed.

Ltac splits := repeat match goal with |- _ /\ _ => split end.

Section Proofs.
Variable cw : Z -> Z.
Variable upper : Z -> list Z.
Variable lower : list Z -> list Z.

Notation step := (step cw upper lower).
Notation run := (run cw upper lower).
Notation keypress := (keypress cw upper lower).
Notation keypress_edit := (keypress_edit cw upper lower).
Notation valid_char := (valid_char cw upper lower).
Notation ref_step := (ref_step cw upper lower).
Notation ref_key := (ref_key cw upper lower).
Notation ref_run := (ref_run cw upper lower).
Notation move_cursor_to_coords := (move_cursor_to_coords cw).

(* ---------- the setters, as single updates ---------- *)
Lemma set_edit_pos_put s p : 0 <= p <= zlen (text s) -> set_edit_pos s p = put s (text s) p.
Proof. intros. unfold set_edit_pos, with_pos, put. rewrite clampz_id by lia. reflexivity. Qed.

Lemma set_edit_pos_inv s p : Inv (set_edit_pos s p).
Proof.
  unfold Inv, set_edit_pos, with_pos; cbn [pos text].
  apply clampz_range. apply zlen_nonneg.
Qed.

Lemma set_edit_pos_text s p : text (set_edit_pos s p) = text s.
Proof. reflexivity. Qed.

Lemma set_edit_text_state s t :
  0 <= pos s -> fst (set_edit_text s t) = put s t (Z.min (pos s) (zlen t)).
Proof.
  intros. unfold set_edit_text. cbn [fst]. unfold set_edit_pos, with_pos, with_text, put; cbn [text pos caption shiftv multiline allow_tab mask var].
  rewrite clampz_id by (pose proof (zlen_nonneg t); lia). reflexivity.
Qed.

Lemma set_edit_text_sigs s t :
  snd (set_edit_text s t) =
  [SChange t (text s) (pos s); SPost (text s) t (pos (fst (set_edit_text s t)))].
Proof. reflexivity. Qed.

Lemma put_put s a b c d : put (put s a b) c d = put s c d.
Proof. reflexivity. Qed.

Lemma put_inv s t p : 0 <= p <= zlen t -> Inv (put s t p).
Proof. unfold Inv; cbn [put pos text]. auto. Qed.

(* insert_text under the invariant *)
Lemma insert_text_put s cs :
  Inv s ->
  insert_text s cs =
  (put s (ins_at (text s) (pos s) cs) (pos s + zlen cs),
   [SChange (ins_at (text s) (pos s) cs) (text s) (pos s);
    SPost (text s) (ins_at (text s) (pos s) cs) (pos s)]).
Proof.
  intros H. unfold Inv in H. unfold insert_text, insert_text_result.
  fold (ins_at (text s) (pos s) cs).
  destruct (set_edit_text s (ins_at (text s) (pos s) cs)) as [s1 sg] eqn:E.
  pose proof (set_edit_text_state s (ins_at (text s) (pos s) cs) ltac:(lia)) as H1.
  pose proof (set_edit_text_sigs s (ins_at (text s) (pos s) cs)) as H2.
  rewrite E in H1, H2. cbn [fst snd] in H1, H2. subst s1 sg.
  pose proof (zlen_ins_at (text s) (pos s) cs H) as L.
  pose proof (zlen_nonneg cs).
  rewrite set_edit_pos_put by (cbn [put text]; lia).
  rewrite put_put. cbn [put text pos].
  replace (Z.min (pos s) (zlen (ins_at (text s) (pos s) cs))) with (pos s) by lia.
  reflexivity.
Qed.

(* ---------- the leading-zero loop ---------- *)
Lemma trim_loop_spec n : forall s sg,
  Inv s -> (Z.to_nat (pos s) <= n)%nat ->
  exists sg', trim_loop n s sg = Ok (r_trim s, sg ++ sg') /\ chain (text s) sg' (text (r_trim s)).
Proof.
  induction n as [|n IH]; intros s sg HI Hn.
  - assert (pos s = 0) by (unfold Inv in HI; lia).
    exists []. cbn [trim_loop]. unfold r_trim. rewrite H.
    change (Z.to_nat 0) with 0%nat. cbn [lead0].
    replace (0 >? 0) with false by reflexivity. cbn [andb]. rewrite app_nil_r. split; reflexivity.
  - cbn [trim_loop]. unfold r_trim.
    destruct (pos s >? 0) eqn:Hp.
    2:{ cbn [andb]. assert (pos s = 0) by (unfold Inv in HI; lia). rewrite H.
        change (Z.to_nat 0) with 0%nat. cbn [lead0]. exists []. rewrite app_nil_r. split; reflexivity. }
    cbn [andb].
    destruct (text s) as [|c r] eqn:Ht.
    { exists []. rewrite app_nil_r. destruct (Z.to_nat (pos s)); cbn [lead0]; (split; [reflexivity|cbn [chain]; now rewrite Ht]). }
    rewrite is48. destruct (c =? 48) eqn:Hc48.
    2:{ exists []. rewrite app_nil_r.
        destruct (Z.to_nat (pos s)); [cbn [lead0]|rewrite lead0_cons, Hc48];
          (split; [reflexivity|cbn [chain]; now rewrite Ht]). }
    assert (c = 48) by lia. subst c.
    unfold Inv in HI. rewrite Ht in HI. rewrite zlen_cons in HI.
    (* one iteration *)
    rewrite set_edit_pos_put by (rewrite Ht, zlen_cons; lia).
    destruct (set_edit_text (put s (text s) (pos s - 1)) (dropz 1 (text (put s (text s) (pos s - 1))))) as [s2 sg2] eqn:E.
    pose proof (set_edit_text_state (put s (text s) (pos s - 1)) (dropz 1 (text (put s (text s) (pos s - 1)))) ltac:(cbn [put pos]; lia)) as H1.
    pose proof (set_edit_text_sigs (put s (text s) (pos s - 1)) (dropz 1 (text (put s (text s) (pos s - 1))))) as H2.
    rewrite E in H1, H2. cbn [fst snd] in H1, H2.
    cbn [put text pos] in H1, H2. rewrite Ht in H1, H2. rewrite dropz_1_tl in H1, H2. cbn [tl] in H1, H2.
    rewrite put_put in H1.
    replace (Z.min (pos s - 1) (zlen r)) with (pos s - 1) in H1 by lia.
    subst s2.
    destruct (IH (put s r (pos s - 1)) (sg ++ sg2)) as [sg' [Hl Hc']].
    { apply put_inv; lia. }
    { cbn [put pos]. lia. }
    rewrite Hl. exists (sg2 ++ sg'). rewrite app_assoc.
    assert (Hr: r_trim (put s r (pos s - 1)) =
                match lead0 (Z.to_nat (pos s)) (48 :: r) with
                | 0%nat => s
                | S n0 => put s (skipn (S n0) (48 :: r)) (pos s - Z.of_nat (S n0))
                end).
    { replace (Z.to_nat (pos s)) with (S (Z.to_nat (pos s - 1))) by lia.
      rewrite lead0_cons. replace (48 =? 48) with true by reflexivity. unfold r_trim. cbn [put pos text].
      destruct (lead0 (Z.to_nat (pos s - 1)) r) eqn:El.
      - cbn [skipn]. f_equal; lia.
      - rewrite put_put. cbn [skipn]. f_equal; lia. }
    rewrite <- Hr. split; [reflexivity|].
    subst sg2. cbn [app chain]. cbn [put text pos]. repeat split; try reflexivity.
    rewrite Hr in Hc'. rewrite <- Hr in Hc'. exact Hc'.
Qed.

Lemma r_trim_inv s : Inv s -> Inv (r_trim s).
Proof.
  intros H. unfold r_trim.
  destruct (lead0 (Z.to_nat (pos s)) (text s)) eqn:E; [exact H|].
  destruct (lead0_le (Z.to_nat (pos s)) (text s)) as [G1 G2]. rewrite E in G1, G2.
  apply put_inv. unfold Inv in H. unfold zlen in *. rewrite skipn_length. lia.
Qed.

(* ---------- move_cursor_to_coords ---------- *)
Lemma mctc_cases s w lay x y :
  let r := move_cursor_to_coords s w lay x y in
  (fst r = s /\ (snd r = Ok false \/ exists e, snd r = Err e)) \/
  (exists p, 0 <= p <= zlen (text s) /\ fst r = with_pref (put s (text s) p) (Some (x, w)) /\ snd r = Ok true).
Proof.
  cbv zeta. unfold Edit.move_cursor_to_coords.
  destruct (position_coords cw s w lay 0) as [tx ty].
  destruct ((y <? ty) || (y >=? zlen (get_line_translation cw s w lay))).
  - left. cbn [fst snd]. auto.
  - destruct (calc_pos cw (disp s) (get_line_translation cw s w lay) x y) as [p|e].
    + right. exists (clampz (p - zlen (caption s)) 0 (zlen (text s))).
      pose proof (clampz_range (p - zlen (caption s)) 0 (zlen (text s)) (zlen_nonneg _)).
      cbn [fst snd]. split; [lia|]. split; [|reflexivity].
      rewrite set_edit_pos_put by lia. reflexivity.
    + left. cbn [fst snd]. eauto.
Qed.

Lemma mctc_inv s w lay x y : Inv s -> Inv (fst (move_cursor_to_coords s w lay x y)).
Proof.
  intros H. destruct (mctc_cases s w lay x y) as [[E _]|[p [Hp [E _]]]]; rewrite E; [exact H|].
  unfold Inv; cbn [with_pref put pos text]. exact Hp.
Qed.

Lemma mctc_text s w lay x y : text (fst (move_cursor_to_coords s w lay x y)) = text s.
Proof.
  destruct (mctc_cases s w lay x y) as [[E _]|[p [Hp [E _]]]]; rewrite E; reflexivity.
Qed.

Lemma mctc_false_same s w lay x y :
  snd (move_cursor_to_coords s w lay x y) <> Ok true -> fst (move_cursor_to_coords s w lay x y) = s.
Proof.
  destruct (mctc_cases s w lay x y) as [[E _]|[p [Hp [E1 E2]]]]; [auto|]. intros H; contradiction.
Qed.

(* ---------- keypress_edit = ref_key, with its signals ---------- *)
Definition wf_key (s : st) (k : key) : Prop :=
  match k with KText [] => var s <> VEdit | _ => True end.

Lemma get_pref_col_aim s w lay :
  get_pref_col cw (look s) w lay = (look s, aim_col cw (look s) w lay).
Proof.
  unfold get_pref_col, aim_col, cursor_cell_of, get_cursor_coords.
  change (pref (look s)) with (pref s).
  destruct (pref s) as [[c w']|].
  - destruct (w' =? w); [reflexivity|].
    destruct (position_coords cw (with_shiftv (look s) true) w lay (pos (with_shiftv (look s) true))) eqn:E.
    change (with_shiftv (look s) true) with (look s) in *.
    change (look (look s)) with (look s). change (pos (look s)) with (pos s) in *. rewrite E. reflexivity.
  - destruct (position_coords cw (with_shiftv (look s) true) w lay (pos (with_shiftv (look s) true))) eqn:E.
    change (with_shiftv (look s) true) with (look s) in *.
    change (look (look s)) with (look s). change (pos (look s)) with (pos s) in *. rewrite E. reflexivity.
Qed.

Lemma keypress_edit_ref s k w lay :
  Inv s ->
  let '(s', sg, r) := keypress_edit s k w lay in
  ref_key s k w lay = (s', r) /\ chain (text s) sg (text s') /\ (r = Ok RUnhandled -> sg = []).
Proof.
  intros HI. pose proof HI as HI'. unfold Inv in HI'.
  assert (Hins: forall cs,
    let '(s1, sg) := insert_text s cs in
    (put s (ins_at (text s) (pos s) cs) (pos s + zlen cs), Ok RHandled) = (s1, @Ok ret RHandled)
    /\ chain (text s) sg (text s1) /\ (@Ok ret RHandled = Ok RUnhandled -> sg = [])).
  { intros cs. rewrite (insert_text_put s cs HI). split; [reflexivity|]. split; [|discriminate].
    cbn [chain put text]. auto. }
  destruct k; unfold Edit.keypress_edit, EditSpec.ref_key.
  - (* KText *)
    destruct (valid_char s cs) as [[|]|e].
    + specialize (Hins cs). destruct (insert_text s cs). exact Hins.
    + cbn [chain]. auto.
    + cbn [chain]. split; [reflexivity|]. split; [reflexivity|discriminate].
  - (* KTab *)
    destruct (allow_tab s).
    + specialize (Hins (spaces (8 - pos s mod 8))). destruct (insert_text s (spaces (8 - pos s mod 8))). exact Hins.
    + cbn [chain]. auto.
  - (* KEnter *)
    destruct (multiline s).
    + specialize (Hins [10]). destruct (insert_text s [10]). exact Hins.
    + cbn [chain]. auto.
  - (* KLeft *)
    destruct (pos s =? 0) eqn:E.
    + cbn [chain]. auto.
    + rewrite set_edit_pos_put by lia. cbn [chain put text]. split; [reflexivity|]. split; [reflexivity|discriminate].
  - (* KRight *)
    destruct (pos s >=? zlen (text s)) eqn:E.
    + cbn [chain]. auto.
    + rewrite set_edit_pos_put by lia. cbn [chain put text]. split; [reflexivity|]. split; [reflexivity|discriminate].
  - (* KUp *)
    unfold get_cursor_coords. fold (look s).
    destruct (position_coords cw (look s) w lay (pos (look s))) as [x0 y0] eqn:Ec.
    rewrite get_pref_col_aim.
    unfold cursor_cell_of. change (look (look s)) with (look s). change (pos (look s)) with (pos s) in *.
    rewrite Ec. cbn [snd]. unfold goto.
    pose proof (mctc_text (look s) w lay (aim_col cw (look s) w lay) (y0 - 1)) as Ht.
    destruct (move_cursor_to_coords (look s) w lay (aim_col cw (look s) w lay) (y0 - 1)) as [s3 [[|]|e]];
      cbn [fst] in Ht; cbn [chain]; (split; [reflexivity|]); (split; [symmetry; exact Ht|]); try discriminate; reflexivity.
  - (* KDown *)
    unfold get_cursor_coords. fold (look s).
    destruct (position_coords cw (look s) w lay (pos (look s))) as [x0 y0] eqn:Ec.
    rewrite get_pref_col_aim.
    unfold cursor_cell_of. change (look (look s)) with (look s). change (pos (look s)) with (pos s) in *.
    rewrite Ec. cbn [snd]. unfold goto.
    pose proof (mctc_text (look s) w lay (aim_col cw (look s) w lay) (y0 + 1)) as Ht.
    destruct (move_cursor_to_coords (look s) w lay (aim_col cw (look s) w lay) (y0 + 1)) as [s3 [[|]|e]];
      cbn [fst] in Ht; cbn [chain]; (split; [reflexivity|]); (split; [symmetry; exact Ht|]); try discriminate; reflexivity.
  - (* KBackspace *)
    change (pos (with_pref s None)) with (pos s). change (text (with_pref s None)) with (text s).
    destruct (pos s =? 0) eqn:E.
    + cbn [chain]. auto.
    + set (t' := takez (pos s - 1) (text s) ++ dropz (pos s) (text s)).
      assert (Ht': t' = del_at (text s) (pos s - 1)).
      { unfold t', del_at. repeat f_equal. lia. }
      pose proof (zlen_del_at (text s) (pos s - 1) ltac:(lia)) as L. rewrite <- Ht' in L.
      destruct (set_edit_text (with_pref s None) t') as [s1 sg] eqn:Es.
      pose proof (set_edit_text_state (with_pref s None) t' ltac:(cbn [with_pref pos]; lia)) as H1.
      pose proof (set_edit_text_sigs (with_pref s None) t') as H2.
      rewrite Es in H1, H2. cbn [fst snd] in H1, H2. subst s1 sg.
      rewrite set_edit_pos_put by (cbn [put text]; lia). rewrite put_put.
      cbn [chain put text with_pref pos]. rewrite <- Ht'.
      split; [reflexivity|]. split; [auto|discriminate].
  - (* KDelete *)
    change (pos (with_pref s None)) with (pos s). change (text (with_pref s None)) with (text s).
    destruct (pos s >=? zlen (text s)) eqn:E.
    + cbn [chain]. auto.
    + fold (del_at (text s) (pos s)).
      pose proof (zlen_del_at (text s) (pos s) ltac:(lia)) as L.
      destruct (set_edit_text (with_pref s None) (del_at (text s) (pos s))) as [s1 sg] eqn:Es.
      pose proof (set_edit_text_state (with_pref s None) (del_at (text s) (pos s)) ltac:(cbn [with_pref pos]; lia)) as H1.
      pose proof (set_edit_text_sigs (with_pref s None) (del_at (text s) (pos s))) as H2.
      rewrite Es in H1, H2. cbn [fst snd] in H1, H2. subst s1 sg.
      cbn [chain put text with_pref pos].
      replace (Z.min (pos s) (zlen (del_at (text s) (pos s)))) with (pos s) by lia.
      split; [reflexivity|]. split; [auto|discriminate].
  - (* KHome *)
    unfold get_cursor_coords. fold (look (with_pref s None)).
    destruct (position_coords cw (look (with_pref s None)) w lay (pos (look (with_pref s None)))) as [x0 y0] eqn:Ec.
    unfold cursor_cell_of. change (look (look (with_pref s None))) with (look (with_pref s None)).
    change (pos (look (with_pref s None))) with (pos s) in *. change (pos (with_pref s None)) with (pos s).
    rewrite Ec. cbn [snd]. unfold goto.
    pose proof (mctc_text (look (with_pref s None)) w lay PLeft y0) as Ht.
    destruct (move_cursor_to_coords (look (with_pref s None)) w lay PLeft y0) as [s3 [b|e]];
      cbn [fst] in Ht; cbn [chain]; (split; [reflexivity|]); (split; [symmetry; exact Ht|]); try discriminate; reflexivity.
  - (* KEnd *)
    unfold get_cursor_coords. fold (look (with_pref s None)).
    destruct (position_coords cw (look (with_pref s None)) w lay (pos (look (with_pref s None)))) as [x0 y0] eqn:Ec.
    unfold cursor_cell_of. change (look (look (with_pref s None))) with (look (with_pref s None)).
    change (pos (look (with_pref s None))) with (pos s) in *. change (pos (with_pref s None)) with (pos s).
    rewrite Ec. cbn [snd]. unfold goto.
    pose proof (mctc_text (look (with_pref s None)) w lay PRight y0) as Ht.
    destruct (move_cursor_to_coords (look (with_pref s None)) w lay PRight y0) as [s3 [b|e]];
      cbn [fst] in Ht; cbn [chain]; (split; [reflexivity|]); (split; [symmetry; exact Ht|]); try discriminate; reflexivity.
Qed.


(* ---------- ref_key keeps the offset in range; unhandled means untouched ---------- *)
Lemma ref_key_inv s k w lay : Inv s -> Inv (fst (ref_key s k w lay)).
Proof.
  intros HI. pose proof HI as HI'. unfold Inv in HI'.
  assert (Hins: forall cs, Inv (put s (ins_at (text s) (pos s) cs) (pos s + zlen cs))).
  { intros cs. apply put_inv. rewrite zlen_ins_at by lia. pose proof (zlen_nonneg cs). lia. }
  destruct k; unfold EditSpec.ref_key; cbn zeta.
  - destruct (valid_char s cs) as [[|]|e]; cbn [fst]; auto.
  - destruct (allow_tab s); cbn [fst]; auto.
  - destruct (multiline s); cbn [fst]; auto.
  - destruct (pos s =? 0) eqn:E; cbn [fst]; auto. apply put_inv; lia.
  - destruct (pos s >=? zlen (text s)) eqn:E; cbn [fst]; auto. apply put_inv; lia.
  - unfold goto.
    pose proof (mctc_inv (look s) w lay (aim_col cw (look s) w lay) (snd (cursor_cell_of cw (look s) w lay) - 1) HI) as M.
    destruct (move_cursor_to_coords (look s) w lay (aim_col cw (look s) w lay) (snd (cursor_cell_of cw (look s) w lay) - 1)) as [s3 [[|]|e]]; exact M.
  - unfold goto.
    pose proof (mctc_inv (look s) w lay (aim_col cw (look s) w lay) (snd (cursor_cell_of cw (look s) w lay) + 1) HI) as M.
    destruct (move_cursor_to_coords (look s) w lay (aim_col cw (look s) w lay) (snd (cursor_cell_of cw (look s) w lay) + 1)) as [s3 [[|]|e]]; exact M.
  - destruct (pos s =? 0) eqn:E; cbn [fst]; auto. apply put_inv. rewrite zlen_del_at by lia. lia.
  - destruct (pos s >=? zlen (text s)) eqn:E; cbn [fst]; auto. apply put_inv. rewrite zlen_del_at by lia. lia.
  - unfold goto.
    pose proof (mctc_inv (look (with_pref s None)) w lay PLeft (snd (cursor_cell_of cw (look (with_pref s None)) w lay)) HI) as M.
    destruct (move_cursor_to_coords (look (with_pref s None)) w lay PLeft (snd (cursor_cell_of cw (look (with_pref s None)) w lay))) as [s3 [b|e]]; exact M.
  - unfold goto.
    pose proof (mctc_inv (look (with_pref s None)) w lay PRight (snd (cursor_cell_of cw (look (with_pref s None)) w lay)) HI) as M.
    destruct (move_cursor_to_coords (look (with_pref s None)) w lay PRight (snd (cursor_cell_of cw (look (with_pref s None)) w lay))) as [s3 [b|e]]; exact M.
Qed.

Lemma ref_key_unhandled s k w lay :
  snd (ref_key s k w lay) = Ok RUnhandled ->
  text (fst (ref_key s k w lay)) = text s /\ pos (fst (ref_key s k w lay)) = pos s.
Proof.
  destruct k; unfold EditSpec.ref_key; cbn zeta.
  - destruct (valid_char s cs) as [[|]|e]; cbn [fst snd]; intros H; try discriminate; auto.
  - destruct (allow_tab s); cbn [fst snd]; intros H; try discriminate; auto.
  - destruct (multiline s); cbn [fst snd]; intros H; try discriminate; auto.
  - destruct (pos s =? 0); cbn [fst snd]; intros H; try discriminate; auto.
  - destruct (pos s >=? zlen (text s)); cbn [fst snd]; intros H; try discriminate; auto.
  - unfold goto.
    pose proof (mctc_false_same (look s) w lay (aim_col cw (look s) w lay) (snd (cursor_cell_of cw (look s) w lay) - 1)) as M.
    destruct (move_cursor_to_coords (look s) w lay (aim_col cw (look s) w lay) (snd (cursor_cell_of cw (look s) w lay) - 1)) as [s3 [[|]|e]];
      cbn [fst snd] in *; intros H; try discriminate. rewrite M by discriminate. auto.
  - unfold goto.
    pose proof (mctc_false_same (look s) w lay (aim_col cw (look s) w lay) (snd (cursor_cell_of cw (look s) w lay) + 1)) as M.
    destruct (move_cursor_to_coords (look s) w lay (aim_col cw (look s) w lay) (snd (cursor_cell_of cw (look s) w lay) + 1)) as [s3 [[|]|e]];
      cbn [fst snd] in *; intros H; try discriminate. rewrite M by discriminate. auto.
  - destruct (pos s =? 0); cbn [fst snd]; intros H; try discriminate; auto.
  - destruct (pos s >=? zlen (text s)); cbn [fst snd]; intros H; try discriminate; auto.
  - unfold goto.
    destruct (move_cursor_to_coords (look (with_pref s None)) w lay PLeft (snd (cursor_cell_of cw (look (with_pref s None)) w lay))) as [s3 [b|e]];
      cbn [snd]; intros H; discriminate.
  - unfold goto.
    destruct (move_cursor_to_coords (look (with_pref s None)) w lay PRight (snd (cursor_cell_of cw (look (with_pref s None)) w lay))) as [s3 [b|e]];
      cbn [snd]; intros H; discriminate.
Qed.

Lemma chain_app : forall sg a b sg' c, chain a sg b -> chain b sg' c -> chain a (sg ++ sg') c.
Proof.
  fix IH 1. intros sg a b sg' c H1 H2.
  destruct sg as [|x [|y r]].
  - cbn [chain] in H1. subst b. exact H2.
  - destruct x; cbn [chain] in H1; contradiction.
  - destruct x; [|cbn [chain] in H1; contradiction].
    destruct y; [cbn [chain] in H1; contradiction|].
    cbn [chain] in H1. destruct H1 as [E1 [E2 [E3 H1]]].
    cbn [app chain]. repeat split; auto. apply (IH r _ b); assumption.
Qed.

(* ---------- one event ---------- *)
Lemma keypress_ref s k w lay :
  Inv s ->
  let '(s', sg, r) := keypress s k w lay in
  ref_step s (EKey k w lay) = (s', r) /\ chain (text s) sg (text s') /\ (r = Ok RUnhandled -> sg = []) /\ Inv s'.
Proof.
  intros HI. unfold Edit.keypress.
  pose proof (keypress_edit_ref s k w lay HI) as K.
  pose proof (ref_key_inv s k w lay HI) as KI.
  cbn [EditSpec.ref_step].
  destruct (keypress_edit s k w lay) as [[s1 sg] r].
  destruct K as [K1 [K2 K3]]. rewrite K1 in *. cbn [fst] in KI.
  assert (Plain: (let '(s', sg0, r0) := (s1, sg, r) in
            match r with Ok RHandled => (s1, Ok RHandled) | _ => (s1, r) end = (s', r0) /\
            chain (text s) sg0 (text s') /\ (r0 = Ok RUnhandled -> sg0 = []) /\ Inv s')).
  { cbv beta iota zeta. split; [destruct r as [[]|]; reflexivity|]. splits; auto. }
  assert (Trim: (let '(s', sg0, r0) := trim_zeros (s1, sg, r) in
            match r with Ok RHandled => (r_trim s1, Ok RHandled) | _ => (s1, r) end = (s', r0) /\
            chain (text s) sg0 (text s') /\ (r0 = Ok RUnhandled -> sg0 = []) /\ Inv s')).
  { unfold trim_zeros.
    destruct r as [[]|]; try (cbn; splits; auto; fail).
    destruct (trim_loop_spec (Z.to_nat (pos s1)) s1 sg KI (le_n _)) as [sg' [T1 T2]].
    rewrite T1. splits; try discriminate; try reflexivity.
    - eapply chain_app; eassumption.
    - apply r_trim_inv; exact KI. }
  unfold trims.
  destruct (var s) as [| |al tr ng].
  - destruct r as [[]|]; exact Plain.
  - destruct r as [[]|]; exact Trim.
  - destruct tr.
    + destruct r as [[]|]; exact Trim.
    + destruct r as [[]|]; exact Plain.
Qed.

Lemma step_ref s e :
  Inv s ->
  let '(s', sg, r) := step s e in
  ref_step s e = (s', r) /\ chain (text s) sg (text s') /\ (r = Ok RUnhandled -> sg = []) /\ Inv s'.
Proof.
  intros HI. destruct e as [k w lay|b c rw w lay|f w lay|w lay|p].
  - exact (keypress_ref s k w lay HI).
  - cbn [Edit.step EditSpec.ref_step]. unfold goto.
    destruct (b =? 1).
    + pose proof (mctc_inv s w lay (PInt c) rw HI) as M.
      pose proof (mctc_text s w lay (PInt c) rw) as T.
      destruct (move_cursor_to_coords s w lay (PInt c) rw) as [s1 [bb|e]]; cbn [fst] in *;
        cbn [chain]; splits; auto; discriminate.
    + cbn [chain]. splits; auto; discriminate.
  - cbn [Edit.step EditSpec.ref_step].
    unfold get_cursor_coords, cursor_cell_of.
    destruct f.
    + change (look (with_shiftv s true)) with (with_shiftv (with_shiftv s true) true).
      change (pos (with_shiftv (with_shiftv s true) true)) with (pos s).
      change (pos (with_shiftv s true)) with (pos s).
      destruct (position_coords cw (with_shiftv (with_shiftv s true) true) w lay (pos s)) as [x y].
      destruct (match rcache s with Some (w', f') => (w' =? w) && Bool.eqb f' true | None => false end);
        cbn [chain]; splits; auto; discriminate.
    + destruct (match rcache s with Some (w', f') => (w' =? w) && Bool.eqb f' false | None => false end);
        cbn [chain]; splits; auto; discriminate.
  - cbn [Edit.step EditSpec.ref_step].
    unfold get_pref_col, aim_col, get_cursor_coords, cursor_cell_of.
    change (pos (with_shiftv s true)) with (pos s). fold (look s).
    destruct (pref s) as [[c w']|].
    + destruct (w' =? w).
      * cbn [chain]. splits; auto; discriminate.
      * destruct (position_coords cw (look s) w lay (pos s)) as [x y].
        cbn [chain fst]. splits; auto; discriminate.
    + destruct (position_coords cw (look s) w lay (pos s)) as [x y].
      cbn [chain fst]. splits; auto; discriminate.
  - cbn [Edit.step EditSpec.ref_step chain]. splits; try discriminate; try reflexivity.
    apply set_edit_pos_inv.
Qed.

(* ---------- histories ---------- *)
Fixpoint all_steps (P : st -> st * list sig * result ret -> Prop) (s : st)
         (outs : list (st * list sig * result ret)) : Prop :=
  match outs with
  | [] => True
  | o :: r => P s o /\ all_steps P (fst (fst o)) r
  end.

Lemma run_all es : forall s,
  Inv s ->
  all_steps (fun s0 o => Inv s0 /\
                         chain (text s0) (snd (fst o)) (text (fst (fst o))) /\
                         (snd o = Ok RUnhandled -> snd (fst o) = []) /\ Inv (fst (fst o)))
            s (snd (run s es))
  /\ map (fun o => (fst (fst o), snd o)) (snd (run s es)) = ref_run s es
  /\ Inv (fst (run s es)).
Proof.
  induction es as [|e r IH]; intros s HI.
  - cbn. auto.
  - cbn [Edit.run EditSpec.ref_run].
    pose proof (step_ref s e HI) as S.
    destruct (step s e) as [[s1 sg] rt]. destruct S as [S1 [S2 [S3 S4]]].
    destruct (IH s1 S4) as [A [B C]].
    destruct (run s1 r) as [s2 outs]. cbn [fst snd] in *.
    rewrite S1. cbn [all_steps map fst snd]. rewrite B. splits; auto.
Qed.

Theorem pos_inv_run es s :
  Inv s -> Forall (fun o => Inv (fst (fst o))) (snd (run s es)) /\ Inv (fst (run s es)).
Proof.
  revert s. induction es as [|e r IH]; intros s HI.
  - cbn. auto.
  - cbn [Edit.run].
    pose proof (step_ref s e HI) as S.
    destruct (step s e) as [[s1 sg] rt]. destruct S as [_ [_ [_ S4]]].
    destruct (IH s1 S4) as [A B].
    destruct (run s1 r) as [s2 outs]. cbn [fst snd] in *. split; auto.
Qed.

Lemma init_inv cap txt p ml tab mk v : Inv (init cap txt p ml tab mk v).
Proof. unfold init. apply set_edit_pos_inv. Qed.

Theorem refines_run es s :
  Inv s -> map (fun o => (fst (fst o), snd o)) (snd (run s es)) = ref_run s es.
Proof. intros H. exact (proj1 (proj2 (run_all es s H))). Qed.

Theorem signals_run es s :
  Inv s ->
  all_steps (fun s0 o => chain (text s0) (snd (fst o)) (text (fst (fst o))) /\
                         (snd o = Ok RUnhandled -> snd (fst o) = []))
            s (snd (run s es)).
Proof.
  revert s. induction es as [|e r IH]; intros s HI.
  - cbn. auto.
  - cbn [Edit.run].
    pose proof (step_ref s e HI) as S.
    destruct (step s e) as [[s1 sg] rt]. destruct S as [_ [S2 [S3 S4]]].
    pose proof (IH s1 S4) as A.
    destruct (run s1 r) as [s2 outs]. cbn [fst snd all_steps] in *. auto.
Qed.

(* ---------- unhandled keys ---------- *)
Theorem unhandled_untouched s k w lay :
  Inv s ->
  snd (keypress s k w lay) = Ok RUnhandled ->
  text (fst (fst (keypress s k w lay))) = text s /\
  pos (fst (fst (keypress s k w lay))) = pos s /\
  snd (fst (keypress s k w lay)) = [].
Proof.
  intros HI H.
  pose proof (keypress_ref s k w lay HI) as K.
  destruct (keypress s k w lay) as [[s1 sg] r]. cbn [fst snd] in *.
  destruct K as [K1 [_ [K3 _]]]. subst r.
  cbn [EditSpec.ref_step] in K1.
  pose proof (ref_key_unhandled s k w lay) as U.
  destruct (ref_key s k w lay) as [s2 r2]. cbn [fst snd] in U.
  destruct r2 as [[]|]; try discriminate.
  inversion K1; subst. destruct (U eq_refl). auto.
Qed.

Theorem unused_keys_returned s k w lay :
  match k with
  | KText cs => valid_char s cs = Ok false
  | KTab => allow_tab s = false
  | KEnter => multiline s = false
  | _ => False
  end ->
  keypress s k w lay = (s, [], Ok RUnhandled).
Proof.
  intros H. unfold Edit.keypress, Edit.keypress_edit.
  destruct k; try contradiction.
  - rewrite H. destruct (var s) as [| |a t n]; [reflexivity|reflexivity|destruct t; reflexivity].
  - rewrite H. destruct (var s) as [| |a t n]; [reflexivity|reflexivity|destruct t; reflexivity].
  - rewrite H. destruct (var s) as [| |a t n]; [reflexivity|reflexivity|destruct t; reflexivity].
Qed.


(* ---------- numeric variants: the alphabet invariant ---------- *)
Definition same_cfg (s s' : st) : Prop :=
  var s' = var s /\ allow_tab s' = allow_tab s /\ multiline s' = multiline s /\
  caption s' = caption s /\ mask s' = mask s.

Lemma same_cfg_refl s : same_cfg s s.
Proof. unfold same_cfg; auto. Qed.

Lemma mctc_cfg s w lay x y : same_cfg s (fst (move_cursor_to_coords s w lay x y)).
Proof.
  destruct (mctc_cases s w lay x y) as [[E _]|[p [Hp [E _]]]]; rewrite E; unfold same_cfg; cbn; auto.
Qed.

Lemma r_trim_cfg s : same_cfg s (r_trim s).
Proof.
  unfold r_trim. destruct (lead0 (Z.to_nat (pos s)) (text s)); unfold same_cfg; cbn; auto.
Qed.

Lemma forallb_firstn {A} (f : A -> bool) n : forall l, forallb f l = true -> forallb f (firstn n l) = true.
Proof.
  induction n as [|n IH]; intros [|x l] H; cbn in *; auto.
  apply andb_true_iff in H. destruct H. rewrite H. cbn. auto.
Qed.

Lemma forallb_skipn {A} (f : A -> bool) n : forall l, forallb f l = true -> forallb f (skipn n l) = true.
Proof.
  induction n as [|n IH]; intros [|x l] H; cbn in *; auto.
  apply andb_true_iff in H. destruct H. auto.
Qed.

Lemma forallb_num_ok a n t : forallb a t = true -> num_ok a n t = true.
Proof.
  destruct t as [|c r]; [reflexivity|]. cbn [forallb num_ok]. intros H.
  apply andb_true_iff in H. destruct H as [H1 H2]. rewrite H1, H2. reflexivity.
Qed.

Lemma num_ok_tail a n c r : num_ok a n (c :: r) = true -> forallb a r = true.
Proof. cbn [num_ok]. intros H. apply andb_true_iff in H. tauto. Qed.

Lemma takez_cons {A} p (c : A) r : 0 < p -> takez p (c :: r) = c :: takez (p - 1) r.
Proof.
  intros. unfold takez. replace (Z.to_nat p) with (S (Z.to_nat (p - 1))) by lia. reflexivity.
Qed.

Lemma dropz_cons {A} p (c : A) r : 0 < p -> dropz p (c :: r) = dropz (p - 1) r.
Proof.
  intros. unfold dropz. replace (Z.to_nat p) with (S (Z.to_nat (p - 1))) by lia. reflexivity.
Qed.

Lemma forallb_splice (a : Z -> bool) (t xs : list Z) p q :
  forallb a t = true -> forallb a xs = true -> forallb a (takez p t ++ xs ++ dropz q t) = true.
Proof.
  intros H1 H2. rewrite !forallb_app. unfold takez, dropz.
  rewrite forallb_firstn, forallb_skipn, H2 by assumption. reflexivity.
Qed.

(* insertion of alphabet characters anywhere except in front of a leading minus *)
Lemma num_ok_insert a n t p cs :
  num_ok a n t = true -> forallb a cs = true -> 0 <= p ->
  (n = true -> negb ((p =? 0) && match t with 45 :: _ => true | _ => false end) = true) ->
  num_ok a n (ins_at t p cs) = true.
Proof.
  intros H Hc Hp Hm. unfold ins_at.
  destruct (p =? 0) eqn:E.
  - assert (p = 0) by lia. subst p. cbn [andb] in Hm.
    apply forallb_num_ok. change (@takez Z 0 t) with (@nil Z). change (@dropz Z 0 t) with t. cbn [app].
    rewrite forallb_app, Hc. cbn [andb].
    destruct t as [|c r]; [reflexivity|].
    rewrite is45 in Hm. cbn [num_ok] in H. cbn [forallb].
    apply andb_true_iff in H. destruct H as [H1 H2]. rewrite H2.
    destruct (a c); [reflexivity|]. cbn [orb] in H1.
    apply andb_true_iff in H1. destruct H1 as [Hn H1]. rewrite H1 in Hm. specialize (Hm Hn). discriminate.
  - destruct t as [|c r].
    + unfold takez, dropz. rewrite firstn_nil, skipn_nil. rewrite app_nil_r. cbn [app].
      apply forallb_num_ok; exact Hc.
    + rewrite takez_cons, dropz_cons by lia. cbn [app num_ok].
      pose proof (num_ok_tail _ _ _ _ H) as Hr.
      cbn [num_ok] in H. apply andb_true_iff in H. destruct H as [H1 _]. rewrite H1. cbn [andb].
      apply forallb_splice; assumption.
Qed.

Lemma memz_false_head c r : memz 45 (c :: r) = false -> (c =? 45) = false.
Proof. cbn [memz]. intros H. apply orb_false_iff in H. destruct H as [H _]. rewrite Z.eqb_sym. exact H. Qed.

(* a minus typed in front of a text that has none *)
Lemma num_ok_minus a t : num_ok a true t = true -> memz 45 t = false -> num_ok a true (45 :: t) = true.
Proof.
  intros H Hm. cbn [num_ok]. replace (45 =? 45) with true by reflexivity. cbn [andb]. rewrite orb_true_r. cbn [andb].
  destruct t as [|c r]; [reflexivity|].
  pose proof (memz_false_head _ _ Hm) as Hc.
  cbn [num_ok] in H. cbn [forallb]. apply andb_true_iff in H. destruct H as [H1 H2]. rewrite H2.
  rewrite Hc in H1. rewrite andb_false_r, orb_false_r in H1. rewrite H1. reflexivity.
Qed.

Lemma num_ok_delete a n t p : num_ok a n t = true -> 0 <= p -> num_ok a n (del_at t p) = true.
Proof.
  intros H Hp. unfold del_at. destruct t as [|c r].
  - unfold takez, dropz. rewrite firstn_nil, skipn_nil. reflexivity.
  - pose proof (num_ok_tail _ _ _ _ H) as Hr.
    destruct (p =? 0) eqn:E.
    + assert (p = 0) by lia. subst p. change (@takez Z 0 (c :: r)) with (@nil Z).
      rewrite dropz_cons by lia. cbn [app]. apply forallb_num_ok. unfold dropz. apply forallb_skipn. exact Hr.
    + rewrite takez_cons, dropz_cons by lia. cbn [app num_ok].
      cbn [num_ok] in H. apply andb_true_iff in H. destruct H as [H1 _]. rewrite H1. cbn [andb].
      rewrite <- (app_nil_l (dropz (p + 1 - 1) r)). apply forallb_splice; auto.
Qed.

Lemma num_ok_skipn a n t k : num_ok a n t = true -> (0 < k)%nat -> num_ok a n (skipn k t) = true.
Proof.
  intros H Hk. destruct k as [|k]; [lia|]. destruct t as [|c r]; [reflexivity|].
  cbn [skipn]. apply forallb_num_ok. apply forallb_skipn. eapply num_ok_tail; eassumption.
Qed.

Section Numeric.
Variable alpha : Z -> bool.
Variable neg : bool.

(* what the filter of the variant guarantees about an accepted key *)
Definition filter_sound (s : st) : Prop :=
  forall cs, valid_char s cs = Ok true ->
    (forallb alpha cs = true /\
     (neg = true -> negb ((pos s =? 0) && match text s with 45 :: _ => true | _ => false end) = true))
    \/ (neg = true /\ cs = [45] /\ pos s = 0 /\ memz 45 (text s) = false).

Definition NumInv (s : st) : Prop :=
  allow_tab s = false /\ multiline s = false /\ num_ok alpha neg (text s) = true /\ Inv s.

Lemma ref_key_num s k w lay :
  NumInv s -> filter_sound s ->
  num_ok alpha neg (text (fst (ref_key s k w lay))) = true /\ same_cfg s (fst (ref_key s k w lay)).
Proof.
  intros [Ht [Hm [Hn HI]]] HF. pose proof HI as HI'. unfold Inv in HI'.
  destruct k; unfold EditSpec.ref_key; cbn zeta.
  - destruct (valid_char s cs) as [[|]|e] eqn:E; cbn [fst]; try (split; [assumption|apply same_cfg_refl]).
    split; [|unfold same_cfg; cbn; auto]. cbn [put text].
    destruct (HF cs E) as [[A B]|[A [B [C D]]]].
    + apply num_ok_insert; auto; lia.
    + subst cs. rewrite C. unfold ins_at. change (@takez Z 0 (text s)) with (@nil Z).
      change (@dropz Z 0 (text s)) with (text s). cbn [app]. rewrite A in Hn |- *. apply num_ok_minus; assumption.
  - rewrite Ht. cbn [fst]. split; [assumption|apply same_cfg_refl].
  - rewrite Hm. cbn [fst]. split; [assumption|apply same_cfg_refl].
  - destruct (pos s =? 0); cbn [fst put text]; (split; [assumption|unfold same_cfg; cbn; auto]).
  - destruct (pos s >=? zlen (text s)); cbn [fst put text]; (split; [assumption|unfold same_cfg; cbn; auto]).
  - unfold goto.
    pose proof (mctc_text (look s) w lay (aim_col cw (look s) w lay) (snd (cursor_cell_of cw (look s) w lay) - 1)) as T.
    pose proof (mctc_cfg (look s) w lay (aim_col cw (look s) w lay) (snd (cursor_cell_of cw (look s) w lay) - 1)) as C.
    destruct (move_cursor_to_coords (look s) w lay (aim_col cw (look s) w lay) (snd (cursor_cell_of cw (look s) w lay) - 1)) as [s3 [[|]|e]];
      cbn [fst] in *; rewrite T; (split; [assumption|exact C]).
  - unfold goto.
    pose proof (mctc_text (look s) w lay (aim_col cw (look s) w lay) (snd (cursor_cell_of cw (look s) w lay) + 1)) as T.
    pose proof (mctc_cfg (look s) w lay (aim_col cw (look s) w lay) (snd (cursor_cell_of cw (look s) w lay) + 1)) as C.
    destruct (move_cursor_to_coords (look s) w lay (aim_col cw (look s) w lay) (snd (cursor_cell_of cw (look s) w lay) + 1)) as [s3 [[|]|e]];
      cbn [fst] in *; rewrite T; (split; [assumption|exact C]).
  - destruct (pos s =? 0) eqn:E; cbn [fst put text with_pref]; (split; [|unfold same_cfg; cbn; auto]); auto.
    apply num_ok_delete; auto; lia.
  - destruct (pos s >=? zlen (text s)) eqn:E; cbn [fst put text with_pref]; (split; [|unfold same_cfg; cbn; auto]); auto.
    apply num_ok_delete; auto; lia.
  - unfold goto.
    pose proof (mctc_text (look (with_pref s None)) w lay PLeft (snd (cursor_cell_of cw (look (with_pref s None)) w lay))) as T.
    pose proof (mctc_cfg (look (with_pref s None)) w lay PLeft (snd (cursor_cell_of cw (look (with_pref s None)) w lay))) as C.
    destruct (move_cursor_to_coords (look (with_pref s None)) w lay PLeft (snd (cursor_cell_of cw (look (with_pref s None)) w lay))) as [s3 [b|e]];
      cbn [fst] in *; rewrite T; (split; [assumption|exact C]).
  - unfold goto.
    pose proof (mctc_text (look (with_pref s None)) w lay PRight (snd (cursor_cell_of cw (look (with_pref s None)) w lay))) as T.
    pose proof (mctc_cfg (look (with_pref s None)) w lay PRight (snd (cursor_cell_of cw (look (with_pref s None)) w lay))) as C.
    destruct (move_cursor_to_coords (look (with_pref s None)) w lay PRight (snd (cursor_cell_of cw (look (with_pref s None)) w lay))) as [s3 [b|e]];
      cbn [fst] in *; rewrite T; (split; [assumption|exact C]).
Qed.

Lemma r_trim_num s : num_ok alpha neg (text s) = true -> num_ok alpha neg (text (r_trim s)) = true.
Proof.
  intros H. unfold r_trim. destruct (lead0 (Z.to_nat (pos s)) (text s)) eqn:E; [exact H|].
  cbn [put text]. apply num_ok_skipn; [exact H|lia].
Qed.

Lemma ref_step_num s e :
  NumInv s -> filter_sound s ->
  num_ok alpha neg (text (fst (ref_step s e))) = true /\ same_cfg s (fst (ref_step s e)).
Proof.
  intros HN HF. destruct e as [k w lay|b c rw w lay|f w lay|w lay|p]; cbn [EditSpec.ref_step].
  - pose proof (ref_key_num s k w lay HN HF) as [A B].
    destruct (ref_key s k w lay) as [s1 [[]|e]]; cbn [fst] in *; try (split; assumption).
    destruct (trims s); cbn [fst]; [|split; assumption].
    split; [apply r_trim_num; exact A|].
    pose proof (r_trim_cfg s1) as C. unfold same_cfg in *. intuition congruence.
  - destruct HN as [_ [_ [Hn _]]]. unfold goto. destruct (b =? 1).
    + pose proof (mctc_text s w lay (PInt c) rw) as T. pose proof (mctc_cfg s w lay (PInt c) rw) as C.
      destruct (move_cursor_to_coords s w lay (PInt c) rw) as [s1 [bb|e]]; cbn [fst] in *; rewrite T; split; assumption.
    + cbn [fst]. split; [assumption|apply same_cfg_refl].
  - destruct HN as [_ [_ [Hn _]]].
    destruct (match rcache s with Some (w', f') => (w' =? w) && Bool.eqb f' f | None => false end);
      destruct f; try destruct (cursor_cell_of cw (with_shiftv s true) w lay);
      cbn [fst]; (split; [exact Hn|unfold same_cfg; cbn; auto]).
  - destruct HN as [_ [_ [Hn _]]]. cbn [fst].
    destruct (pref s) as [[c w']|]; [destruct (w' =? w)|]; (split; [exact Hn|unfold same_cfg; cbn; auto]).
  - destruct HN as [_ [_ [Hn _]]]. cbn [fst put text]. split; [exact Hn|unfold same_cfg; cbn; auto].
Qed.

(* the filter depends on the configuration only, so it stays sound along a history *)
Definition filter_sound_cfg (s0 : st) : Prop :=
  forall s, same_cfg s0 s -> filter_sound s.

Theorem numeric_run es : forall s,
  NumInv s -> filter_sound_cfg s ->
  Forall (fun o => num_ok alpha neg (text (fst (fst o))) = true) (snd (run s es)).
Proof.
  induction es as [|e r IH]; intros s HN HF.
  - constructor.
  - cbn [Edit.run].
    assert (HI: Inv s) by (destruct HN as [_ [_ [_ H]]]; exact H).
    pose proof (step_ref s e HI) as S.
    pose proof (ref_step_num s e HN (HF s (same_cfg_refl s))) as [A B].
    destruct (step s e) as [[s1 sg] rt]. destruct S as [S1 [_ [_ S4]]].
    rewrite S1 in A, B. cbn [fst] in A, B.
    assert (HN1: NumInv s1).
    { destruct HN as [H1 [H2 _]]. destruct B as [_ [B2 [B3 _]]]. unfold NumInv. rewrite B2, B3. auto. }
    assert (HF1: filter_sound_cfg s1).
    { intros s' C. apply HF. unfold same_cfg in *. intuition congruence. }
    specialize (IH s1 HN1 HF1).
    destruct (run s1 r) as [s2 outs]. cbn [snd fst] in *. constructor; auto.
Qed.

End Numeric.

(* IntEdit: digits only *)
Lemma int_filter_sound s0 : var s0 = VInt -> filter_sound_cfg int_alpha false s0.
Proof.
  intros Hv s C cs H. left. destruct C as [C _]. unfold Edit.valid_char in H. rewrite C, Hv in H.
  destruct cs as [|c [|c' r]]; try discriminate. injection H as H1.
  split; [cbn [forallb]; unfold int_alpha; rewrite H1; reflexivity|intros D; discriminate D].
Qed.

(* NumEdit / IntegerEdit / FloatEdit.  [code_alpha] is literally what NumEdit.valid_char tests of an
   accepted character: its upper-case form occurs in the allowed string and the character is that
   form or the lower-case form of it. *)
Definition code_alpha (allowed : list Z) (c : Z) : bool :=
  is_sub (upper c) allowed && (list_eqb [c] (upper c) || list_eqb [c] (lower (upper c))).

Lemma num_filter_sound s0 al tr ng :
  var s0 = VNum al tr ng -> filter_sound_cfg (code_alpha al) ng s0.
Proof.
  intros Hv s C cs H. destruct C as [C _]. unfold Edit.valid_char in H. rewrite C, Hv in H.
  destruct cs as [|c [|c' r]]; try discriminate. cbv zeta in H.
  destruct (is_sub (upper c) al && (list_eqb [c] (upper c) || list_eqb [c] (lower (upper c)))) eqn:E.
  - left. cbn [forallb]. unfold code_alpha. rewrite E. split; [reflexivity|]. intros _. injection H as H1. exact H1.
  - right. injection H as H1.
    apply andb_true_iff in H1. destruct H1 as [H1 H4].
    apply andb_true_iff in H1. destruct H1 as [H1 H3].
    apply andb_true_iff in H1. destruct H1 as [H1 H2].
    repeat split; auto.
    + f_equal. lia.
    + lia.
    + destruct (memz 45 (text s)); [discriminate|reflexivity].
Qed.

(* no hypothesis on upper / lower: every character of the text passed the test of the code *)
Theorem numeric_alphabet_num_code es s al tr ng :
  var s = VNum al tr ng -> allow_tab s = false -> multiline s = false ->
  num_ok (code_alpha al) ng (text s) = true -> Inv s ->
  Forall (fun o => num_ok (code_alpha al) ng (text (fst (fst o))) = true) (snd (run s es)).
Proof.
  intros Hv Ht Hm Hn HI. apply numeric_run.
  - unfold NumInv. auto.
  - apply (num_filter_sound s al tr ng); assumption.
Qed.

(* towards the ASCII alphabet: the only fact about str.upper / str.lower that is still needed *)
Definition lower_honest (allowed : list Z) : Prop :=
  forall c, is_sub (upper c) allowed = true -> lower (upper c) = [c] -> num_alpha allowed c = true.

Lemma code_alpha_num_alpha al : lower_honest al -> forall c, code_alpha al c = true -> num_alpha al c = true.
Proof.
  intros HL c H. unfold code_alpha in H.
  apply andb_true_iff in H. destruct H as [H1 H2].
  apply orb_true_iff in H2. destruct H2 as [H2|H2]; apply list_eqb_eq in H2.
  - rewrite <- H2 in H1. rewrite is_sub_single in H1. unfold num_alpha. rewrite H1. reflexivity.
  - apply HL; [exact H1|symmetry; exact H2].
Qed.

Lemma filter_sound_weaken (a b : Z -> bool) ng s0 :
  (forall c, a c = true -> b c = true) -> filter_sound_cfg a ng s0 -> filter_sound_cfg b ng s0.
Proof.
  intros W H s C cs V. destruct (H s C cs V) as [[A B]|R]; [left|right; exact R].
  split; [|exact B]. clear - W A. induction cs as [|c r IH]; [reflexivity|].
  cbn [forallb] in *. apply andb_true_iff in A. destruct A as [A1 A2]. rewrite (W c A1), (IH A2). reflexivity.
Qed.

Theorem numeric_alphabet_num es s al tr ng :
  var s = VNum al tr ng -> lower_honest al -> allow_tab s = false -> multiline s = false ->
  num_ok (num_alpha al) ng (text s) = true -> Inv s ->
  Forall (fun o => num_ok (num_alpha al) ng (text (fst (fst o))) = true) (snd (run s es)).
Proof.
  intros Hv HL Ht Hm Hn HI. apply numeric_run.
  - unfold NumInv. auto.
  - apply (filter_sound_weaken (code_alpha al)); [apply code_alpha_num_alpha; exact HL|].
    apply (num_filter_sound s al tr ng); assumption.
Qed.

Theorem numeric_alphabet_int es s :
  var s = VInt -> allow_tab s = false -> multiline s = false ->
  num_ok int_alpha false (text s) = true -> Inv s ->
  Forall (fun o => num_ok int_alpha false (text (fst (fst o))) = true) (snd (run s es)).
Proof.
  intros Hv Ht Hm Hn HI. apply numeric_run.
  - unfold NumInv. auto.
  - apply int_filter_sound; assumption.
Qed.

(* the leading-zero loop never runs out of fuel *)
Theorem trim_fuel s sg : Inv s -> exists r, trim_loop (Z.to_nat (pos s)) s sg = Ok r.
Proof.
  intros H. destruct (trim_loop_spec (Z.to_nat (pos s)) s sg H (le_n _)) as [sg' [E _]]. eauto.
Qed.

End Proofs.

(* ASCII-only case mapping satisfies the remaining hypothesis, for every allowed string; the harness
   checks it for the real str.upper / str.lower over all code points for the alphabets it uses *)
Lemma lower_honest_ascii lower al : lower_honest (fun c => [ascii_upper c]) lower al.
Proof.
  intros c H _. rewrite is_sub_single in H. unfold num_alpha. rewrite H. apply orb_true_r.
Qed.
