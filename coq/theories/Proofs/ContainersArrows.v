(* C08 - proofs, part 5: where an arrow key moves the focus of the container that handles it.
   These are the decision points of Pile.keypress, Columns.keypress, Columns.move_cursor_to_coords
   (also used for the rows of a GridFlow) and ListBox._keypress_up/_down: the child chosen is one
   whose selectable() was True when it was chosen. *)
From Coq Require Import ZArith List Bool Lia ZifyBool.
Import ListNotations.
From Urwid Require Import PyBase PyList c08_container_gen Containers ContainersBase ContainersProofs ContainersRouting ContainersPath.
From Urwid Require MonitoredList PyListFacts MonitoredListProofs.
Open Scope Z_scope.
Arguments Z.add : simpl never. Arguments Z.sub : simpl never. Arguments Z.mul : simpl never.
Arguments Z.ltb : simpl never. Arguments Z.leb : simpl never. Arguments Z.eqb : simpl never.

(* the validated setter either raises or really sets the focus to a position in range *)
Lemma w_focus_ok_inv h id j h' n :
  getn h id = Some n -> nk n = KPile \/ nk n = KCols \/ nk n = KGrid ->
  w_focus id j h = (h', ROk tt) ->
  0 <= j < nlen n /\ h' = setn h id (set_c n (MonitoredList.St (items n) j)) /\ focus_child h' id = nthz (items n) j.
Proof.
  intros G Hk H. unfold w_focus, mbind, rd in H. rewrite G in H.
  destruct (pos_invalid (nk n) j (nlen n)) eqn:E; [discriminate|].
  assert (Hr : 0 <= j < nlen n) by (apply (pos_invalid_spec (nk n)); assumption).
  assert (Hne : items n <> []) by (intros Hi; unfold nlen in Hr; rewrite Hi in Hr; cbn in Hr; lia).
  rewrite (w_listfocus_ok h id n j G Hne Hr) in H. injection H as <-. split; [exact Hr|]. split; [reflexivity|].
  unfold focus_child. rewrite getn_setn_same by (eapply getn_some_bounds; exact G).
  cbn [nk set_c]. unfold items at 1 2, nfocus. cbn [n_c set_c MonitoredList.items MonitoredList.focus_raw]. fold (items n).
  destruct Hk as [K|[K|K]]; rewrite K; destruct (items n); try contradiction; reflexivity.
Qed.

(* Columns.keypress left/right *)
Theorem cols_move_lands_on_selectable f id cands : forall h h' n,
  getn h id = Some n -> nk n = KCols -> cols_move f id cands h = (h', ROk true) ->
  exists j c, In j cands /\ nthz (items n) j = Some c /\ sel f h c = true /\ focus_child h' id = Some c.
Proof.
  induction cands as [|j r IH]; intros h h' n G K H; cbn [cols_move] in H.
  - apply ret_inv in H. destruct H as [_ H]. discriminate.
  - apply mbind_inv in H. destruct H as (h1 & n1 & Hr & H). apply rd_inv in Hr. destruct Hr as [-> G1].
    rewrite G in G1. injection G1 as <-.
    apply mbind_inv in H. destruct H as (h1 & hh & Hg & H). apply get_heap_inv in Hg. destruct Hg as [-> ->].
    destruct (nthz (items n) j) as [c|] eqn:En; [|exfalso; eapply raise_inv; exact H].
    destruct (sel f h c) eqn:Es.
    + apply mbind_inv in H. destruct H as (h2 & u & Hw & H). apply ret_inv in H. destruct H as [Hh _]. subst h'. destruct u.
      destruct (w_focus_ok_inv h id j h2 n G (or_intror (or_introl K)) Hw) as (_ & _ & Hf).
      exists j, c. split; [left; reflexivity|]. split; [exact En|]. split; [exact Es|]. rewrite Hf. exact En.
    + destruct (IH h h' n G K H) as (j' & c' & Hin & H'). exists j', c'. split; [right; exact Hin|exact H'].
Qed.

(* Pile.keypress up/down: the first selectable candidate gets the focus (then the cursor is moved inside it) *)
Theorem pile_move_lands_on_selectable f id up cands : forall h h' n,
  getn h id = Some n -> nk n = KPile -> pile_move f id up cands h = (h', ROk true) ->
  exists j c h1 h2, In j cands /\ nthz (items n) j = Some c /\ sel f h c = true /\
    upd_pref_from_focus f id h = (h1, ROk tt) /\ w_focus id j h1 = (h2, ROk tt).
Proof.
  induction cands as [|j r IH]; intros h h' n G K H; cbn [pile_move] in H.
  - apply ret_inv in H. destruct H as [_ H]. discriminate.
  - apply mbind_inv in H. destruct H as (h1 & n1 & Hr & H). apply rd_inv in Hr. destruct Hr as [-> G1].
    rewrite G in G1. injection G1 as <-.
    apply mbind_inv in H. destruct H as (h1 & hh & Hg & H). apply get_heap_inv in Hg. destruct Hg as [-> ->].
    destruct (nthz (items n) j) as [c|] eqn:En; [|exfalso; eapply raise_inv; exact H].
    destruct (sel f h c) eqn:Es; cbn [negb] in H.
    + apply mbind_inv in H. destruct H as (h1 & u & Hu & H). destruct u.
      apply mbind_inv in H. destruct H as (h2 & u & Hw & H). destruct u.
      exists j, c, h1, h2. split; [left; reflexivity|]. repeat split; assumption.
    + destruct (IH h h' n G K H) as (j' & c' & h1 & h2 & Hin & H'). exists j', c', h1, h2. split; [right; exact Hin|exact H'].
Qed.

(* Columns.move_cursor_to_coords (and the rows of a GridFlow): the column picked is a selectable one *)
Lemma cols_pick_go_sel l : forall i x dv col best j xx e,
  cols_pick_go l i x dv col best = Some (j, xx, e) ->
  best = Some (j, xx, e) \/ exists w, nth_error l (Z.to_nat (j - i)) = Some (w, true) /\ i <= j.
Proof.
  induction l as [|[width s] r IH]; intros i x dv col best j xx e H; cbn [cols_pick_go] in H.
  - left. exact H.
  - assert (Hrec : forall b, cols_pick_go r (i + 1) (x + width + dv) dv col b = Some (j, xx, e) ->
              b = Some (j, xx, e) \/ exists w, nth_error ((width, s) :: r) (Z.to_nat (j - i)) = Some (w, true) /\ i <= j).
    { intros b Hb. destruct (IH (i + 1) (x + width + dv) dv col b j xx e Hb) as [Hl|(w & Hn & Hle)];
        [left; exact Hl|]. right. exists w. split; [|lia].
      replace (Z.to_nat (j - i)) with (S (Z.to_nat (j - (i + 1)))) by lia. exact Hn. }
    destruct s.
    + assert (Hthis : Some (i, x, x + width) = Some (j, xx, e) ->
                exists w, nth_error ((width, true) :: r) (Z.to_nat (j - i)) = Some (w, true) /\ i <= j).
      { intros Hq. injection Hq as <- <- <-. exists width. rewrite Z.sub_diag. split; [reflexivity|lia]. }
      destruct best as [[[bj bx] be]|].
      * destruct (col_gt x col && match col with PInt c => c - be <? x - c | _ => false end); [left; exact H|].
        destruct (col_lt col (x + width)); [right; apply Hthis; exact H|].
        destruct (Hrec _ H) as [Hl|Hr]; [right; apply Hthis; exact Hl|right; exact Hr].
      * destruct (is_left col || col_gt x col); [right; apply Hthis; exact H|].
        destruct (col_lt col (x + width)); [right; apply Hthis; exact H|].
        destruct (Hrec _ H) as [Hl|Hr]; [right; apply Hthis; exact Hl|right; exact Hr].
    + apply Hrec. exact H.
Qed.

Theorem cols_pick_selectable l dv col j xx e :
  cols_pick l dv col = Some (j, xx, e) -> exists w, nthz l j = Some (w, true).
Proof.
  unfold cols_pick. intros H.
  destruct (cols_pick_go_sel l 0 0 dv col None j xx e H) as [Hl|(w & Hn & Hle)]; [discriminate|].
  exists w. unfold nthz. assert (E : j <? 0 = false) by lia. rewrite E. rewrite Z.sub_0_r in Hn. exact Hn.
Qed.

(* ListBox up/down and GridFlow left/right choose with [find]: the element found satisfies the test *)
Theorem find_selectable {A} (p : A -> bool) l x : find p l = Some x -> p x = true.
Proof. intros H. apply find_some in H. apply H. Qed.

(* ---------- never past a selectable child: the focus goes to the NEAREST selectable child in the direction ---------- *)
Lemma find_first {A} (p : A -> bool) l x :
  find p l = Some x -> exists pre post, l = pre ++ x :: post /\ p x = true /\ forall y, In y pre -> p y = false.
Proof.
  induction l as [|a r IH]; intros H; [discriminate|]. cbn [find] in H. destruct (p a) eqn:E.
  - injection H as <-. exists [], r. split; [reflexivity|]. split; [exact E|]. intros y [].
  - destruct (IH H) as (pre & post & -> & Hx & Hp). exists (a :: pre), post. split; [reflexivity|]. split; [exact Hx|].
    intros y [<-|Hy]; [exact E|apply Hp; exact Hy].
Qed.

Lemma seq_split n : forall s pre x post, seq s n = pre ++ x :: post -> pre = seq s (x - s) /\ (s <= x < s + n)%nat.
Proof.
  induction n as [|n IH]; intros s pre x post H; cbn [seq] in H; [destruct pre; discriminate|].
  destruct pre as [|p pre]; cbn [app] in H.
  - injection H as <- _. rewrite Nat.sub_diag. split; [reflexivity|lia].
  - injection H as <- H. destruct (IH _ _ _ _ H) as [-> Hr]. split; [|lia].
    replace (x - s)%nat with (S (x - S s)) by lia. reflexivity.
Qed.

Lemma range_up_split a b pre j post : range_up a b = pre ++ j :: post -> pre = range_up a j /\ a <= j < b.
Proof.
  unfold range_up, seq_z. rewrite map_map. intros H.
  apply map_eq_app in H. destruct H as (l1 & l2 & Hs & <- & H2).
  destruct l2 as [|k l2]; [discriminate|]. cbn [map] in H2. injection H2 as <- _.
  apply seq_split in Hs. destruct Hs as [-> Hr]. rewrite Nat.sub_0_r. rewrite map_map.
  replace (Z.to_nat (a + Z.of_nat k - a)) with k by lia. split; [reflexivity|lia].
Qed.

Lemma in_range_up a b i : In i (range_up a b) <-> a <= i < b.
Proof.
  unfold range_up, seq_z. rewrite map_map, in_map_iff. split.
  - intros (k & <- & Hk). apply in_seq in Hk. lia.
  - intros H. exists (Z.to_nat (i - a)). split; [lia|]. apply in_seq. lia.
Qed.

Lemma seq_add_map n1 : forall n2, seq n1 n2 = map (Nat.add n1) (seq 0 n2).
Proof.
  induction n1 as [|n1 IH]; intros n2; [symmetry; apply map_id|].
  rewrite <- seq_shift, IH, map_map. reflexivity.
Qed.

Lemma range_up_app a j b : a <= j <= b -> range_up a b = range_up a j ++ range_up j b.
Proof.
  intros H. unfold range_up, seq_z. rewrite !map_map.
  replace (Z.to_nat (b - a)) with (Z.to_nat (j - a) + Z.to_nat (b - j))%nat by lia.
  rewrite seq_app, map_app. f_equal. cbn [Nat.add]. rewrite seq_add_map, map_map. apply map_ext. intros k. lia.
Qed.

Lemma range_up_cons a b : a < b -> range_up a b = a :: range_up (a + 1) b.
Proof.
  intros H. rewrite (range_up_app a (a + 1) b) by lia.
  assert (E : range_up a (a + 1) = [a]).
  { unfold range_up, seq_z. replace (a + 1 - a) with 1 by lia. change (Z.to_nat 1) with 1%nat. cbn [seq map]. f_equal. change (Z.of_nat 0) with 0. lia. }
  rewrite E. reflexivity.
Qed.

Lemma range_down_is_rev a : range_down a = rev (range_up 0 a).
Proof.
  unfold range_down, range_up. f_equal. rewrite Z.sub_0_r. symmetry. rewrite <- (map_id (seq_z a)) at 2. apply map_ext. intros; lia.
Qed.

(* the candidates before the chosen one are exactly the positions between the old focus and it *)
Lemma range_down_split a pre j post : range_down a = pre ++ j :: post -> 0 <= j < a /\ pre = rev (range_up (j + 1) a).
Proof.
  rewrite range_down_is_rev. intros H.
  assert (Hr : range_up 0 a = rev post ++ j :: rev pre).
  { rewrite <- (rev_involutive (range_up 0 a)), H, rev_app_distr. cbn [rev]. rewrite <- app_assoc. reflexivity. }
  destruct (range_up_split _ _ _ _ _ Hr) as [Hp Hj]. split; [exact Hj|].
  rewrite (range_up_app 0 j a) in Hr by lia. rewrite (range_up_cons j a) in Hr by lia. rewrite Hp in Hr.
  apply app_inv_head in Hr. injection Hr as Hr. rewrite <- (rev_involutive pre), <- Hr. reflexivity.
Qed.

(* Columns.keypress left/right: no move exactly when no candidate is selectable; nothing is written *)
Theorem cols_move_false f id cands : forall h h' n,
  getn h id = Some n -> cols_move f id cands h = (h', ROk false) ->
  h' = h /\ forall j c, In j cands -> nthz (items n) j = Some c -> sel f h c = false.
Proof.
  induction cands as [|j r IH]; intros h h' n G H; cbn [cols_move] in H.
  - apply ret_inv in H. destruct H as [-> _]. split; [reflexivity|]. intros j c [].
  - apply mbind_inv in H. destruct H as (h1 & n1 & Hr & H). apply rd_inv in Hr. destruct Hr as [-> G1].
    rewrite G in G1. injection G1 as <-.
    apply mbind_inv in H. destruct H as (h1 & hh & Hg & H). apply get_heap_inv in Hg. destruct Hg as [-> ->].
    destruct (nthz (items n) j) as [c|] eqn:En; [|exfalso; eapply raise_inv; exact H].
    destruct (sel f h c) eqn:Es.
    + apply mbind_inv in H. destruct H as (h2 & u & _ & H). apply ret_inv in H. destruct H as [_ H]. discriminate.
    + destruct (IH h h' n G H) as [-> Hall]. split; [reflexivity|].
      intros j' c' [<-|Hj] Hc; [rewrite En in Hc; injection Hc as <-; exact Es|eapply Hall; eassumption].
Qed.

(* ... and when it moves, it moves to the FIRST selectable candidate *)
Theorem cols_move_first f id cands : forall h h' n,
  getn h id = Some n -> nk n = KCols -> cols_move f id cands h = (h', ROk true) ->
  exists pre j post c, cands = pre ++ j :: post /\ nthz (items n) j = Some c /\ sel f h c = true /\
    focus_child h' id = Some c /\ forall i ci, In i pre -> nthz (items n) i = Some ci -> sel f h ci = false.
Proof.
  induction cands as [|j r IH]; intros h h' n G K H; cbn [cols_move] in H.
  - apply ret_inv in H. destruct H as [_ H]. discriminate.
  - apply mbind_inv in H. destruct H as (h1 & n1 & Hr & H). apply rd_inv in Hr. destruct Hr as [-> G1].
    rewrite G in G1. injection G1 as <-.
    apply mbind_inv in H. destruct H as (h1 & hh & Hg & H). apply get_heap_inv in Hg. destruct Hg as [-> ->].
    destruct (nthz (items n) j) as [c|] eqn:En; [|exfalso; eapply raise_inv; exact H].
    destruct (sel f h c) eqn:Es.
    + apply mbind_inv in H. destruct H as (h2 & u & Hw & H). apply ret_inv in H. destruct H as [Hh _]. subst h'. destruct u.
      destruct (w_focus_ok_inv h id j h2 n G (or_intror (or_introl K)) Hw) as (_ & _ & Hf).
      exists [], j, r, c. split; [reflexivity|]. split; [exact En|]. split; [exact Es|]. split; [rewrite Hf; exact En|]. intros i ci [].
    + destruct (IH h h' n G K H) as (pre & j' & post & c' & -> & Hn & Hs & Hf & Hp).
      exists (j :: pre), j', post, c'. split; [reflexivity|]. split; [exact Hn|]. split; [exact Hs|]. split; [exact Hf|].
      intros i ci [<-|Hi] Hc; [rewrite En in Hc; injection Hc as <-; exact Es|eapply Hp; eassumption].
Qed.

(* 'right': the nearest selectable column to the right gets the focus *)
Theorem columns_right_nearest f id h h' n :
  getn h id = Some n -> nk n = KCols -> cols_move f id (range_up (nfocus n + 1) (nlen n)) h = (h', ROk true) ->
  exists j c, nfocus n < j < nlen n /\ nthz (items n) j = Some c /\ sel f h c = true /\ focus_child h' id = Some c /\
    forall i ci, nfocus n < i < j -> nthz (items n) i = Some ci -> sel f h ci = false.
Proof.
  intros G K H. destruct (cols_move_first _ _ _ _ _ _ G K H) as (pre & j & post & c & Hc & Hn & Hs & Hf & Hp).
  destruct (range_up_split _ _ _ _ _ Hc) as [-> Hj]. exists j, c. split; [lia|]. repeat split; try assumption.
  intros i ci Hi. apply Hp. apply in_range_up. lia.
Qed.

(* 'left': the nearest selectable column to the left *)
Theorem columns_left_nearest f id h h' n :
  getn h id = Some n -> nk n = KCols -> cols_move f id (range_down (nfocus n)) h = (h', ROk true) ->
  exists j c, 0 <= j < nfocus n /\ nthz (items n) j = Some c /\ sel f h c = true /\ focus_child h' id = Some c /\
    forall i ci, j < i < nfocus n -> nthz (items n) i = Some ci -> sel f h ci = false.
Proof.
  intros G K H. destruct (cols_move_first _ _ _ _ _ _ G K H) as (pre & j & post & c & Hc & Hn & Hs & Hf & Hp).
  destruct (range_down_split _ _ _ _ Hc) as [Hj ->]. exists j, c. split; [lia|]. repeat split; try assumption.
  intros i ci Hi. apply Hp. rewrite <- in_rev. apply in_range_up. lia.
Qed.

(* Pile.keypress up/down: the same for pile_move (the focus write is followed by the cursor move inside the child) *)
Theorem pile_move_false f id up cands : forall h h' n,
  getn h id = Some n -> pile_move f id up cands h = (h', ROk false) ->
  h' = h /\ forall j c, In j cands -> nthz (items n) j = Some c -> sel f h c = false.
Proof.
  induction cands as [|j r IH]; intros h h' n G H; cbn [pile_move] in H.
  - apply ret_inv in H. destruct H as [-> _]. split; [reflexivity|]. intros j c [].
  - apply mbind_inv in H. destruct H as (h1 & n1 & Hr & H). apply rd_inv in Hr. destruct Hr as [-> G1].
    rewrite G in G1. injection G1 as <-.
    apply mbind_inv in H. destruct H as (h1 & hh & Hg & H). apply get_heap_inv in Hg. destruct Hg as [-> ->].
    destruct (nthz (items n) j) as [c|] eqn:En; [|exfalso; eapply raise_inv; exact H].
    destruct (sel f h c) eqn:Es; cbn [negb] in H.
    + exfalso. apply mbind_inv in H. destruct H as (h2 & u & _ & H).
      apply mbind_inv in H. destruct H as (h3 & u2 & _ & H).
      apply mbind_inv in H. destruct H as (h4 & hh & _ & H).
      destruct (negb (has_mc hh j)); [|]. all: try (apply ret_inv in H; destruct H as [_ H]; discriminate).
      all: try (destruct (negb (has_mc hh c)); [apply ret_inv in H; destruct H as [_ H]; discriminate|];
                apply mbind_inv in H; destruct H as (h5 & u3 & _ & H); apply ret_inv in H; destruct H as [_ H]; discriminate).
    + destruct (IH h h' n G H) as [-> Hall]. split; [reflexivity|].
      intros j' c' [<-|Hj] Hc; [rewrite En in Hc; injection Hc as <-; exact Es|eapply Hall; eassumption].
Qed.

Theorem pile_move_first f id up cands : forall h h' n,
  getn h id = Some n -> nk n = KPile -> pile_move f id up cands h = (h', ROk true) ->
  exists pre j post c h1 h2, cands = pre ++ j :: post /\ nthz (items n) j = Some c /\ sel f h c = true /\
    upd_pref_from_focus f id h = (h1, ROk tt) /\ w_focus id j h1 = (h2, ROk tt) /\
    forall i ci, In i pre -> nthz (items n) i = Some ci -> sel f h ci = false.
Proof.
  induction cands as [|j r IH]; intros h h' n G K H; cbn [pile_move] in H.
  - apply ret_inv in H. destruct H as [_ H]. discriminate.
  - apply mbind_inv in H. destruct H as (h1 & n1 & Hr & H). apply rd_inv in Hr. destruct Hr as [-> G1].
    rewrite G in G1. injection G1 as <-.
    apply mbind_inv in H. destruct H as (h1 & hh & Hg & H). apply get_heap_inv in Hg. destruct Hg as [-> ->].
    destruct (nthz (items n) j) as [c|] eqn:En; [|exfalso; eapply raise_inv; exact H].
    destruct (sel f h c) eqn:Es; cbn [negb] in H.
    + apply mbind_inv in H. destruct H as (h1 & u & Hu & H). destruct u.
      apply mbind_inv in H. destruct H as (h2 & u & Hw & H). destruct u.
      exists [], j, r, c, h1, h2. split; [reflexivity|]. repeat split; try assumption. intros i ci [].
    + destruct (IH h h' n G K H) as (pre & j' & post & c' & h1 & h2 & -> & Hn & Hs & Hu & Hw & Hp).
      exists (j :: pre), j', post, c', h1, h2. split; [reflexivity|]. repeat split; try assumption.
      intros i ci [<-|Hi] Hc; [rewrite En in Hc; injection Hc as <-; exact Es|eapply Hp; eassumption].
Qed.
