(* C08 - proofs, part 5: where an arrow key moves the focus of the container that handles it.
   These are the decision points of Pile.keypress, Columns.keypress, Columns.move_cursor_to_coords
   (also used for the rows of a GridFlow) and ListBox._keypress_up/_down: the child chosen is one
   whose selectable() was True when it was chosen. *)
From Coq Require Import ZArith List Bool Lia ZifyBool.
Import ListNotations.
From Urwid Require Import PyBase PyList c08_container_gen Containers ContainersBase ContainersProofs ContainersRouting ContainersPath.
From Urwid Require MonitoredList PyListFacts MonitoredListProofs.
Open Scope Z_scope.
Arguments Z.add : simpl never. Arguments Z.sub : simpl never. Arguments Z.mul : simpl never.
Arguments Z.ltb : simpl never. Arguments Z.leb : simpl never. Arguments Z.eqb : simpl never.

(* the validated setter either raises or really sets the focus to a position in range *)
Lemma w_focus_ok_inv h id j h' n :
  getn h id = Some n -> nk n = KPile \/ nk n = KCols \/ nk n = KGrid ->
  w_focus id j h = (h', ROk tt) ->
  0 <= j < nlen n /\ h' = setn h id (set_c n (MonitoredList.St (items n) j)) /\ focus_child h' id = nthz (items n) j.
Proof.
  intros G Hk H. unfold w_focus, mbind, rd in H. rewrite G in H.
  destruct (pos_invalid (nk n) j (nlen n)) eqn:E; [discriminate|].
  assert (Hr : 0 <= j < nlen n) by (apply (pos_invalid_spec (nk n)); assumption).
  assert (Hne : items n <> []) by (intros Hi; unfold nlen in Hr; rewrite Hi in Hr; cbn in Hr; lia).
  rewrite (w_listfocus_ok h id n j G Hne Hr) in H. injection H as <-. split; [exact Hr|]. split; [reflexivity|].
  unfold focus_child. rewrite getn_setn_same by (eapply getn_some_bounds; exact G).
  cbn [nk set_c]. unfold items at 1 2, nfocus. cbn [n_c set_c MonitoredList.items MonitoredList.focus_raw]. fold (items n).
  destruct Hk as [K|[K|K]]; rewrite K; destruct (items n); try contradiction; reflexivity.
Qed.

(* Columns.keypress left/right *)
Theorem cols_move_lands_on_selectable f id cands : forall h h' n,
  getn h id = Some n -> nk n = KCols -> cols_move f id cands h = (h', ROk true) ->
  exists j c, In j cands /\ nthz (items n) j = Some c /\ sel f h c = true /\ focus_child h' id = Some c.
Proof.
  induction cands as [|j r IH]; intros h h' n G K H; cbn [cols_move] in H.
  - apply ret_inv in H. destruct H as [_ H]. discriminate.
  - apply mbind_inv in H. destruct H as (h1 & n1 & Hr & H). apply rd_inv in Hr. destruct Hr as [-> G1].
    rewrite G in G1. injection G1 as <-.
    apply mbind_inv in H. destruct H as (h1 & hh & Hg & H). apply get_heap_inv in Hg. destruct Hg as [-> ->].
    destruct (nthz (items n) j) as [c|] eqn:En; [|exfalso; eapply raise_inv; exact H].
    destruct (sel f h c) eqn:Es.
    + apply mbind_inv in H. destruct H as (h2 & u & Hw & H). apply ret_inv in H. destruct H as [Hh _]. subst h'. destruct u.
      destruct (w_focus_ok_inv h id j h2 n G (or_intror (or_introl K)) Hw) as (_ & _ & Hf).
      exists j, c. split; [left; reflexivity|]. split; [exact En|]. split; [exact Es|]. rewrite Hf. exact En.
    + destruct (IH h h' n G K H) as (j' & c' & Hin & H'). exists j', c'. split; [right; exact Hin|exact H'].
Qed.

(* Pile.keypress up/down: the first selectable candidate gets the focus (then the cursor is moved inside it) *)
Theorem pile_move_lands_on_selectable f id up cands : forall h h' n,
  getn h id = Some n -> nk n = KPile -> pile_move f id up cands h = (h', ROk true) ->
  exists j c h1 h2, In j cands /\ nthz (items n) j = Some c /\ sel f h c = true /\
    upd_pref_from_focus f id h = (h1, ROk tt) /\ w_focus id j h1 = (h2, ROk tt).
Proof.
  induction cands as [|j r IH]; intros h h' n G K H; cbn [pile_move] in H.
  - apply ret_inv in H. destruct H as [_ H]. discriminate.
  - apply mbind_inv in H. destruct H as (h1 & n1 & Hr & H). apply rd_inv in Hr. destruct Hr as [-> G1].
    rewrite G in G1. injection G1 as <-.
    apply mbind_inv in H. destruct H as (h1 & hh & Hg & H). apply get_heap_inv in Hg. destruct Hg as [-> ->].
    destruct (nthz (items n) j) as [c|] eqn:En; [|exfalso; eapply raise_inv; exact H].
    destruct (sel f h c) eqn:Es; cbn [negb] in H.
    + apply mbind_inv in H. destruct H as (h1 & u & Hu & H). destruct u.
      apply mbind_inv in H. destruct H as (h2 & u & Hw & H). destruct u.
      exists j, c, h1, h2. split; [left; reflexivity|]. repeat split; assumption.
    + destruct (IH h h' n G K H) as (j' & c' & h1 & h2 & Hin & H'). exists j', c', h1, h2. split; [right; exact Hin|exact H'].
Qed.

(* Columns.move_cursor_to_coords (and the rows of a GridFlow): the column picked is a selectable one *)
Lemma cols_pick_go_sel l : forall i x dv col best j xx e,
  cols_pick_go l i x dv col best = Some (j, xx, e) ->
  best = Some (j, xx, e) \/ exists w, nth_error l (Z.to_nat (j - i)) = Some (w, true) /\ i <= j.
Proof.
  induction l as [|[width s] r IH]; intros i x dv col best j xx e H; cbn [cols_pick_go] in H.
  - left. exact H.
  - assert (Hrec : forall b, cols_pick_go r (i + 1) (x + width + dv) dv col b = Some (j, xx, e) ->
              b = Some (j, xx, e) \/ exists w, nth_error ((width, s) :: r) (Z.to_nat (j - i)) = Some (w, true) /\ i <= j).
    { intros b Hb. destruct (IH (i + 1) (x + width + dv) dv col b j xx e Hb) as [Hl|(w & Hn & Hle)];
        [left; exact Hl|]. right. exists w. split; [|lia].
      replace (Z.to_nat (j - i)) with (S (Z.to_nat (j - (i + 1)))) by lia. exact Hn. }
    destruct s.
    + assert (Hthis : Some (i, x, x + width) = Some (j, xx, e) ->
                exists w, nth_error ((width, true) :: r) (Z.to_nat (j - i)) = Some (w, true) /\ i <= j).
      { intros Hq. injection Hq as <- <- <-. exists width. rewrite Z.sub_diag. split; [reflexivity|lia]. }
      destruct best as [[[bj bx] be]|].
      * destruct (col_gt x col && match col with PInt c => c - be <? x - c | _ => false end); [left; exact H|].
        destruct (col_lt col (x + width)); [right; apply Hthis; exact H|].
        destruct (Hrec _ H) as [Hl|Hr]; [right; apply Hthis; exact Hl|right; exact Hr].
      * destruct (is_left col || col_gt x col); [right; apply Hthis; exact H|].
        destruct (col_lt col (x + width)); [right; apply Hthis; exact H|].
        destruct (Hrec _ H) as [Hl|Hr]; [right; apply Hthis; exact Hl|right; exact Hr].
    + apply Hrec. exact H.
Qed.

Theorem cols_pick_selectable l dv col j xx e :
  cols_pick l dv col = Some (j, xx, e) -> exists w, nthz l j = Some (w, true).
Proof.
  unfold cols_pick. intros H.
  destruct (cols_pick_go_sel l 0 0 dv col None j xx e H) as [Hl|(w & Hn & Hle)]; [discriminate|].
  exists w. unfold nthz. assert (E : j <? 0 = false) by lia. rewrite E. rewrite Z.sub_0_r in Hn. exact Hn.
Qed.

(* ListBox up/down and GridFlow left/right choose with [find]: the element found satisfies the test *)
Theorem find_selectable {A} (p : A -> bool) l x : find p l = Some x -> p x = true.
Proof. intros H. apply find_some in H. apply H. Qed.
