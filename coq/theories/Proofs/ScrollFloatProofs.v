(* C20 - proofs about Model/ScrollFloat.v: the exact-rational model of binary64 rounding is monotone,
   fixes the integers below 2^53 and keeps positive numbers positive; from these (and nothing else
   about floats) the facts about the ScrollBar thumb arithmetic follow. *)
From Coq Require Import ZArith QArith Qround Qpower Lia Lqa Bool.
From Urwid Require Import ScrollFloat.
Open Scope Q_scope.

Lemma inject_Z_succ f : inject_Z (f + 1) == inject_Z f + 1.
Proof. rewrite inject_Z_plus. reflexivity. Qed.

Lemma floor_bounds x : inject_Z (Qfloor x) <= x /\ x < inject_Z (Qfloor x) + 1.
Proof. split; [apply Qfloor_le|]. rewrite <- inject_Z_succ. apply Qlt_floor. Qed.

Lemma rhe_cases x :
  let f := Qfloor x in
  (x - inject_Z f < 1#2 /\ rhe x = f) \/
  (1#2 < x - inject_Z f /\ rhe x = (f + 1)%Z) \/
  (x - inject_Z f == 1#2 /\ (rhe x = f \/ rhe x = (f + 1)%Z)).
Proof.
  intros f. unfold rhe. fold f.
  destruct (Qcompare_spec (x - inject_Z f) (1#2)) as [H|H|H].
  - right; right. split; [exact H|]. destruct (Z.even f); auto.
  - left. auto.
  - right; left. auto.
Qed.

Lemma rhe_floor x : (Qfloor x <= rhe x <= Qfloor x + 1)%Z.
Proof. destruct (rhe_cases x) as [[_ H]|[[_ H]|[_ [H|H]]]]; rewrite H; lia. Qed.

Lemma rhe_mono x y : x <= y -> (rhe x <= rhe y)%Z.
Proof.
  intros Hxy. pose proof (Qfloor_resp_le _ _ Hxy) as Hf.
  destruct (Z.eq_dec (Qfloor x) (Qfloor y)) as [E|N].
  - unfold rhe. rewrite E.
    destruct (Qcompare_spec (x - inject_Z (Qfloor y)) (1#2)) as [H|H|H];
    destruct (Qcompare_spec (y - inject_Z (Qfloor y)) (1#2)) as [H'|H'|H'];
    try lia; try (destruct (Z.even (Qfloor y)); lia); exfalso; lra.
  - pose proof (rhe_floor x). pose proof (rhe_floor y). lia.
Qed.

Lemma rhe_inject n : rhe (inject_Z n) = n.
Proof.
  unfold rhe. rewrite Qfloor_Z.
  destruct (Qcompare_spec (inject_Z n - inject_Z n) (1#2)) as [H|H|H]; try reflexivity; exfalso; lra.
Qed.

Lemma rhe_half x : x - (1#2) <= inject_Z (rhe x) <= x + (1#2).
Proof.
  pose proof (floor_bounds x) as [H1 H2].
  destruct (rhe_cases x) as [[H R]|[[H R]|[H [R|R]]]]; rewrite R; try rewrite inject_Z_succ; split; lra.
Qed.

(* ---------- powers of two, floor(log2) ---------- *)
Lemma two_ne0 : ~ 2 == 0. Proof. intro H. discriminate H. Qed.

Lemma pow2_pos k : 0 < pow2 k.
Proof. unfold pow2. apply Qpower_0_lt. reflexivity. Qed.

Lemma pow2_add a b : pow2 (a + b) == pow2 a * pow2 b.
Proof. unfold pow2. apply Qpower_plus. exact two_ne0. Qed.

Lemma pow2_mono a b : (a <= b)%Z -> pow2 a <= pow2 b.
Proof. intros. unfold pow2. apply Qpower_le_compat_l; [assumption|]. discriminate. Qed.

Lemma pow2_lt a b : (a < b)%Z -> pow2 a < pow2 b.
Proof. intros. unfold pow2. apply Qpower_lt_compat_l; [assumption|]. reflexivity. Qed.

Lemma pow2_lt_inv a b : pow2 a < pow2 b -> (a < b)%Z.
Proof. intros. unfold pow2 in *. apply Qpower_lt_compat_l_inv with (q := 2); [assumption|reflexivity]. Qed.

Lemma pow2_Z k : (0 <= k)%Z -> pow2 k == inject_Z (2 ^ k).
Proof. intros. unfold pow2. rewrite Zpower_Qpower by assumption. reflexivity. Qed.

Lemma pow2_succ k : pow2 (k + 1) == 2 * pow2 k.
Proof. rewrite pow2_add. assert (H : pow2 1 == 2) by reflexivity. rewrite H. lra. Qed.

(* x = num / den *)
Lemma Q_as_ratio (x : Q) : x * inject_Z (Zpos (Qden x)) == inject_Z (Qnum x).
Proof. destruct x as [n d]. unfold Qeq, Qmult, inject_Z. simpl. rewrite Pos.mul_1_r. ring. Qed.

Lemma qlog2_spec x : 0 < x -> pow2 (qlog2 x) <= x /\ x < pow2 (qlog2 x + 1).
Proof.
  intros Hx.
  assert (Hn : (0 < Qnum x)%Z).
  { destruct x as [n d]. unfold Qlt in Hx. simpl in *. lia. }
  set (p := Qnum x) in *. set (q := Zpos (Qden x)).
  assert (Hq : (0 < q)%Z) by (subst q; lia).
  pose proof (Q_as_ratio x) as Hr. fold p q in Hr.
  pose proof (Z.log2_spec p Hn) as [Hp1 Hp2].
  pose proof (Z.log2_spec q Hq) as [Hq1 Hq2].
  pose proof (Z.log2_nonneg p) as Hlp. pose proof (Z.log2_nonneg q) as Hlq.
  set (lp := Z.log2 p) in *. set (lq := Z.log2 q) in *.
  (* bounds on the rationals *)
  assert (P1 : pow2 lp <= inject_Z p) by (rewrite pow2_Z by assumption; rewrite <- Zle_Qle; assumption).
  assert (P2 : inject_Z p < pow2 (lp + 1)) by (rewrite pow2_Z by lia; rewrite <- Zlt_Qlt; replace (lp + 1)%Z with (Z.succ lp) by lia; assumption).
  assert (Q1 : pow2 lq <= inject_Z q) by (rewrite pow2_Z by assumption; rewrite <- Zle_Qle; assumption).
  assert (Q2 : inject_Z q < pow2 (lq + 1)) by (rewrite pow2_Z by lia; rewrite <- Zlt_Qlt; replace (lq + 1)%Z with (Z.succ lq) by lia; assumption).
  assert (Hqq : 0 < inject_Z q) by (rewrite Zlt_Qlt in Hq; exact Hq).
  set (d := (lp - lq)%Z).
  (* pow2 (d - 1) <= x < pow2 (d + 1) *)
  assert (U : x < pow2 (d + 1)).
  { apply Qmult_lt_r with (z := inject_Z q); [assumption|]. rewrite Hr.
    apply Qlt_le_trans with (y := pow2 (lp + 1)); [assumption|].
    replace (lp + 1)%Z with ((d + 1) + lq)%Z by (subst d; lia). rewrite pow2_add.
    apply Qmult_le_l; [apply pow2_pos|assumption]. }
  assert (L : pow2 (d - 1) <= x).
  { apply Qmult_le_r with (z := inject_Z q); [assumption|]. rewrite Hr.
    apply Qle_trans with (y := pow2 lp); [|assumption].
    assert (E : lp = ((d - 1) + (lq + 1))%Z) by (subst d; lia). rewrite E. rewrite pow2_add.
    apply Qmult_le_l; [apply pow2_pos|]. apply Qlt_le_weak. assumption. }
  unfold qlog2. fold p q lp lq d.
  destruct (Qle_bool (pow2 d) x) eqn:E.
  - apply Qle_bool_iff in E. split; assumption.
  - assert (~ pow2 d <= x) as N by (intro H; apply Qle_bool_iff in H; congruence).
    apply Qnot_le_lt in N. replace (d - 1 + 1)%Z with d by lia. split; assumption.
Qed.

(* ---------- rn: round to nearest even at 53 bits ---------- *)
Lemma rhe_comp x y : x == y -> rhe x = rhe y.
Proof. intros H. apply Z.le_antisymm; apply rhe_mono; rewrite H; apply Qle_refl. Qed.

Lemma pow2_0 : pow2 0 == 1. Proof. reflexivity. Qed.

Lemma pow2_inv k : pow2 k * pow2 (- k) == 1.
Proof. rewrite <- pow2_add. replace (k + - k)%Z with 0%Z by lia. apply pow2_0. Qed.

Lemma div_pow2 x k : x / pow2 k == x * pow2 (- k).
Proof.
  unfold Qdiv. apply Qmult_comp; [reflexivity|].
  pose proof (pow2_inv k) as H. pose proof (pow2_pos k) as Hp.
  apply Qmult_inj_l with (z := pow2 k); [lra|]. rewrite Qmult_inv_r by lra. rewrite H. reflexivity.
Qed.

(* the scaled mantissa of a positive x lies in [2^52, 2^53) *)
Lemma mantissa_bounds x : 0 < x ->
  let u := pow2 (qlog2 x - 52) in pow2 52 <= x / u /\ x / u < pow2 53.
Proof.
  intros Hx u. destruct (qlog2_spec x Hx) as [L U]. set (e := qlog2 x) in *.
  assert (Hu : 0 < u) by apply pow2_pos.
  split.
  - apply Qle_shift_div_l; [assumption|]. subst u. rewrite <- pow2_add.
    replace (52 + (e - 52))%Z with e by lia. assumption.
  - apply Qlt_shift_div_r; [assumption|]. subst u. rewrite <- pow2_add.
    replace (53 + (e - 52))%Z with (e + 1)%Z by lia. assumption.
Qed.

Lemma rn_pos_bounds x : 0 < x ->
  pow2 (qlog2 x) <= rn_pos x /\ rn_pos x <= pow2 (qlog2 x + 1).
Proof.
  intros Hx. destruct (mantissa_bounds x Hx) as [L U]. unfold rn_pos.
  set (e := qlog2 x) in *. set (u := pow2 (e - 52)) in *.
  assert (Hu : 0 < u) by apply pow2_pos.
  assert (A : (2 ^ 52 <= rhe (x / u))%Z).
  { rewrite <- (rhe_inject (2 ^ 52)). apply rhe_mono. rewrite <- pow2_Z by lia. assumption. }
  assert (B : (rhe (x / u) <= 2 ^ 53)%Z).
  { rewrite <- (rhe_inject (2 ^ 53)). apply rhe_mono. rewrite <- pow2_Z by lia. apply Qlt_le_weak. assumption. }
  rewrite Zle_Qle in A, B. rewrite <- pow2_Z in A, B by lia.
  split.
  - replace e with (52 + (e - 52))%Z at 1 by lia. rewrite pow2_add. fold u.
    apply Qmult_le_compat_r; [assumption|lra].
  - replace (e + 1)%Z with (53 + (e - 52))%Z by lia. rewrite pow2_add. fold u.
    apply Qmult_le_compat_r; [assumption|lra].
Qed.

Lemma qlog2_mono x y : 0 < x -> x <= y -> (qlog2 x <= qlog2 y)%Z.
Proof.
  intros Hx Hxy. assert (Hy : 0 < y) by lra.
  destruct (qlog2_spec x Hx) as [L _]. destruct (qlog2_spec y Hy) as [_ U].
  assert (H : pow2 (qlog2 x) < pow2 (qlog2 y + 1)) by lra.
  apply pow2_lt_inv in H. lia.
Qed.

Lemma rn_pos_mono x y : 0 < x -> x <= y -> rn_pos x <= rn_pos y.
Proof.
  intros Hx Hxy. assert (Hy : 0 < y) by lra.
  pose proof (qlog2_mono x y Hx Hxy) as He.
  destruct (Z.eq_dec (qlog2 x) (qlog2 y)) as [E|N].
  - unfold rn_pos. rewrite E. set (u := pow2 (qlog2 y - 52)).
    assert (Hu : 0 < u) by apply pow2_pos.
    apply Qmult_le_compat_r; [|lra]. rewrite <- Zle_Qle. apply rhe_mono.
    unfold Qdiv. apply Qmult_le_compat_r; [assumption|]. apply Qlt_le_weak. apply Qinv_lt_0_compat. assumption.
  - destruct (rn_pos_bounds x Hx) as [_ Ux]. destruct (rn_pos_bounds y Hy) as [Ly _].
    apply Qle_trans with (y := pow2 (qlog2 x + 1)); [assumption|].
    apply Qle_trans with (y := pow2 (qlog2 y)); [|assumption]. apply pow2_mono. lia.
Qed.

Lemma Qnum_sign x : (x == 0 <-> Qnum x = 0%Z) /\ (0 < x <-> (0 < Qnum x)%Z).
Proof. destruct x as [n d]. unfold Qeq, Qlt. simpl. split; split; lia. Qed.

Lemma rn_zero x : x == 0 -> rn x = 0.
Proof. intros H. apply Qnum_sign in H. unfold rn. rewrite H. reflexivity. Qed.

Lemma rn_of_pos x : 0 < x -> rn x = rn_pos x.
Proof. intros H. apply Qnum_sign in H. unfold rn. destruct (Qnum x); try lia. reflexivity. Qed.

Lemma rn_positive x : 0 < x -> 0 < rn x.
Proof.
  intros Hx. rewrite (rn_of_pos x Hx). destruct (rn_pos_bounds x Hx) as [L _].
  pose proof (pow2_pos (qlog2 x)). lra.
Qed.

Lemma rn_mono x y : 0 <= x -> x <= y -> rn x <= rn y.
Proof.
  intros Hx Hxy. destruct (Qlt_le_dec 0 x) as [Px|Zx].
  - assert (Py : 0 < y) by lra. rewrite (rn_of_pos x Px), (rn_of_pos y Py). apply rn_pos_mono; assumption.
  - assert (E : x == 0) by lra. rewrite (rn_zero x E).
    destruct (Qlt_le_dec 0 y) as [Py|Zy].
    + apply Qlt_le_weak. apply rn_positive. assumption.
    + assert (E' : y == 0) by lra. rewrite (rn_zero y E'). apply Qle_refl.
Qed.

Lemma rn_comp x y : 0 <= x -> x == y -> rn x == rn y.
Proof. intros Hx E. apply Qle_antisym; apply rn_mono; lra. Qed.

Lemma rn_nonneg x : 0 <= x -> 0 <= rn x.
Proof. intros Hx. change 0 with (rn 0) at 1. apply rn_mono; lra. Qed.

(* integers below 2^53 are floats *)
Lemma rn_inject n : (0 <= n < 2 ^ 53)%Z -> rn (inject_Z n) == inject_Z n.
Proof.
  intros [H0 H1]. destruct (Z.eq_dec n 0) as [->|Hn]; [reflexivity|].
  assert (Hx : 0 < inject_Z n) by (change 0 with (inject_Z 0); rewrite <- Zlt_Qlt; lia).
  rewrite (rn_of_pos _ Hx). destruct (qlog2_spec _ Hx) as [L _]. unfold rn_pos.
  set (e := qlog2 (inject_Z n)) in *.
  assert (He : (e < 53)%Z).
  { apply pow2_lt_inv. apply Qle_lt_trans with (y := inject_Z n); [assumption|].
    rewrite pow2_Z by lia. rewrite <- Zlt_Qlt. assumption. }
  set (k := (52 - e)%Z). assert (Hk : (0 <= k)%Z) by (subst k; lia).
  assert (M : inject_Z n / pow2 (e - 52) == inject_Z (n * 2 ^ k)).
  { rewrite div_pow2. replace (- (e - 52))%Z with k by (subst k; lia).
    rewrite pow2_Z by assumption. rewrite inject_Z_mult. reflexivity. }
  rewrite (rhe_comp _ _ M), rhe_inject. rewrite inject_Z_mult. rewrite <- pow2_Z by assumption.
  rewrite <- Qmult_assoc. replace (e - 52)%Z with (- k)%Z by (subst k; lia). rewrite pow2_inv. lra.
Qed.

(* ---------- ScrollBar thumb arithmetic ---------- *)

Definition th_of (h : Z) (tw : Q) : Z := Z.max 1 (rhe (f_mul tw (f_of_int h))).
Definition topw_of (pos pm : Z) : Q := f_div (f_of_int pos) (f_of_int (Z.max 1 pm)).
Definition top0_of (h th : Z) (tpw : Q) : Z := qtrunc (f_mul (f_of_int (h - th)) tpw).
Definition top_of (h th : Z) (tpw : Q) : Z :=
  let t0 := top0_of h th tpw in
  if (t0 =? 0)%Z && negb (Qle_bool tpw 0) then Z.min 1 (h - th) else t0.

Lemma thumb_geom_eq h pos pm tw :
  thumb_geom h pos pm tw =
    (top_of h (th_of h tw) (topw_of pos pm), th_of h tw, (h - th_of h tw - top_of h (th_of h tw) (topw_of pos pm))%Z).
Proof. unfold thumb_geom, top_of, top0_of, th_of, topw_of. cbv zeta. reflexivity. Qed.

Lemma inject_Z_nonneg n : (0 <= n)%Z -> 0 <= inject_Z n.
Proof. intros. change 0 with (inject_Z 0). rewrite <- Zle_Qle. assumption. Qed.

Lemma f_of_int_exact n : (0 <= n < 2 ^ 53)%Z -> f_of_int n == inject_Z n.
Proof. apply rn_inject. Qed.

Lemma th_of_range h tw : (1 <= h < 2 ^ 53)%Z -> 0 <= tw <= 1 -> (1 <= th_of h tw <= h)%Z.
Proof.
  intros Hh [T0 T1]. unfold th_of. split; [lia|]. apply Z.max_lub; [lia|].
  apply Z.le_trans with (m := rhe (inject_Z h)); [|rewrite rhe_inject; lia]. apply rhe_mono. unfold f_mul.
  assert (E : f_of_int h == inject_Z h) by (apply f_of_int_exact; lia).
  assert (Hn : 0 <= inject_Z h) by (apply inject_Z_nonneg; lia).
  apply Qle_trans with (y := f_of_int h); [|rewrite E; apply Qle_refl].
  unfold f_of_int at 2. apply rn_mono.
  - rewrite E. apply Qmult_le_0_compat; assumption.
  - rewrite E. rewrite <- (Qmult_1_l (inject_Z h)) at 2. apply Qmult_le_compat_r; assumption.
Qed.

Lemma topw_range pos pm : (0 <= pos <= Z.max 1 pm)%Z -> (Z.max 1 pm < 2 ^ 53)%Z ->
  0 <= topw_of pos pm <= 1 /\ ((0 < pos)%Z -> 0 < topw_of pos pm) /\ (pos = 0%Z -> topw_of pos pm == 0).
Proof.
  intros Hp Hm. unfold topw_of, f_div. set (m := Z.max 1 pm) in *.
  assert (Ep : f_of_int pos == inject_Z pos) by (apply f_of_int_exact; lia).
  assert (Em : f_of_int m == inject_Z m) by (apply f_of_int_exact; lia).
  assert (Hm0 : 0 < inject_Z m) by (change 0 with (inject_Z 0); rewrite <- Zlt_Qlt; lia).
  assert (Hp0 : 0 <= inject_Z pos) by (apply inject_Z_nonneg; lia).
  assert (Hle : inject_Z pos <= inject_Z m) by (rewrite <- Zle_Qle; lia).
  assert (Q0 : 0 <= f_of_int pos / f_of_int m).
  { rewrite Ep, Em. apply Qle_shift_div_l; [assumption|]. lra. }
  assert (Q1 : f_of_int pos / f_of_int m <= 1).
  { rewrite Ep, Em. apply Qle_shift_div_r; [assumption|]. lra. }
  split; [split|split].
  - apply rn_nonneg. assumption.
  - apply Qle_trans with (y := rn (inject_Z 1)); [apply rn_mono; assumption|].
    rewrite (rn_inject 1) by lia. apply Qle_refl.
  - intros Hpos. apply rn_positive. rewrite Ep, Em. apply Qlt_shift_div_l; [assumption|].
    assert (0 < inject_Z pos) by (change 0 with (inject_Z 0); rewrite <- Zlt_Qlt; lia). lra.
  - intros ->. rewrite rn_zero; [reflexivity|]. unfold f_of_int. change (rn (inject_Z 0)) with 0. unfold Qdiv. lra.
Qed.

Lemma top0_range h th tpw : (1 <= th <= h)%Z -> (h < 2 ^ 53)%Z -> 0 <= tpw <= 1 ->
  (0 <= top0_of h th tpw <= h - th)%Z.
Proof.
  intros Ht Hh [T0 T1]. unfold top0_of, f_mul.
  assert (E : f_of_int (h - th) == inject_Z (h - th)) by (apply f_of_int_exact; lia).
  assert (Hn : 0 <= inject_Z (h - th)) by (apply inject_Z_nonneg; lia).
  set (y := rn (f_of_int (h - th) * tpw)).
  assert (Y0 : 0 <= y).
  { apply rn_nonneg. rewrite E. apply Qmult_le_0_compat; assumption. }
  assert (Y1 : y <= inject_Z (h - th)).
  { apply Qle_trans with (y := f_of_int (h - th)); [|rewrite E; apply Qle_refl].
    subst y. unfold f_of_int at 2. apply rn_mono.
    - rewrite E. apply Qmult_le_0_compat; assumption.
    - rewrite E. rewrite <- (Qmult_1_r (inject_Z (h - th))) at 2.
      rewrite (Qmult_comm (inject_Z (h - th)) tpw), (Qmult_comm (inject_Z (h - th)) 1).
      apply Qmult_le_compat_r; assumption. }
  unfold qtrunc. assert (B : Qle_bool 0 y = true) by (apply Qle_bool_iff; assumption). rewrite B.
  split.
  - change 0%Z with (Qfloor 0). apply Qfloor_resp_le. assumption.
  - rewrite <- (Qfloor_Z (h - th)). apply Qfloor_resp_le. assumption.
Qed.
Lemma top_of_range h th tpw : (1 <= th <= h)%Z -> (h < 2 ^ 53)%Z -> 0 <= tpw <= 1 ->
  (0 <= top_of h th tpw <= h - th)%Z.
Proof.
  intros Ht Hh Hw. pose proof (top0_range h th tpw Ht Hh Hw). unfold top_of.
  destruct ((top0_of h th tpw =? 0)%Z && negb (Qle_bool tpw 0)); lia.
Qed.

Lemma Qle_bool_false x y : Qle_bool x y = false <-> y < x.
Proof.
  split; intros H.
  - apply Qnot_le_lt. intro N. apply Qle_bool_iff in N. congruence.
  - destruct (Qle_bool x y) eqn:E; [|reflexivity]. apply Qle_bool_iff in E. lra.
Qed.

(* the thumb leaves the top exactly when the position is positive - provided it has room to move *)
Lemma top_of_pos_iff h th tpw : (1 <= th <= h)%Z -> (h < 2 ^ 53)%Z -> 0 <= tpw <= 1 ->
  ((0 < top_of h th tpw)%Z <-> (0 < tpw /\ (th < h)%Z)).
Proof.
  intros Ht Hh Hw. pose proof (top0_range h th tpw Ht Hh Hw) as R. unfold top_of.
  destruct (Qle_bool tpw 0) eqn:E.
  - apply Qle_bool_iff in E. assert (Z0 : tpw == 0) by lra.
    assert (T : top0_of h th tpw = 0%Z).
    { unfold top0_of, f_mul. rewrite rn_zero; [reflexivity|]. rewrite Z0. lra. }
    rewrite T. cbn. split; [lia|]. intros [H _]. lra.
  - apply Qle_bool_false in E. cbn [negb]. rewrite andb_true_r.
    destruct (top0_of h th tpw =? 0)%Z eqn:E0; split; intros H; try (split; [assumption|]); lia.
Qed.

Lemma top0_mono h th a b : (1 <= th <= h)%Z -> (h < 2 ^ 53)%Z -> 0 <= a -> a <= b -> b <= 1 ->
  (top0_of h th a <= top0_of h th b)%Z.
Proof.
  intros Ht Hh A0 AB B1. unfold top0_of, f_mul.
  assert (E : f_of_int (h - th) == inject_Z (h - th)) by (apply f_of_int_exact; lia).
  assert (Hn : 0 <= inject_Z (h - th)) by (apply inject_Z_nonneg; lia).
  assert (M : rn (f_of_int (h - th) * a) <= rn (f_of_int (h - th) * b)).
  { apply rn_mono.
    - rewrite E. apply Qmult_le_0_compat; assumption.
    - rewrite E. rewrite (Qmult_comm _ a), (Qmult_comm _ b). apply Qmult_le_compat_r; assumption. }
  assert (P : 0 <= rn (f_of_int (h - th) * a)).
  { apply rn_nonneg. rewrite E. apply Qmult_le_0_compat; assumption. }
  unfold qtrunc.
  assert (B1' : Qle_bool 0 (rn (f_of_int (h - th) * a)) = true) by (apply Qle_bool_iff; assumption).
  assert (B2' : Qle_bool 0 (rn (f_of_int (h - th) * b)) = true) by (apply Qle_bool_iff; lra).
  rewrite B1', B2'. apply Qfloor_resp_le. assumption.
Qed.

(* ... and never moves up when the position increases *)
Lemma top_of_mono h th a b : (1 <= th <= h)%Z -> (h < 2 ^ 53)%Z -> 0 <= a -> a <= b -> b <= 1 ->
  (top_of h th a <= top_of h th b)%Z.
Proof.
  intros Ht Hh A0 AB B1.
  pose proof (top0_mono h th a b Ht Hh A0 AB B1) as M.
  assert (Ha : 0 <= a <= 1) by lra. assert (Hb : 0 <= b <= 1) by lra.
  pose proof (top0_range h th a Ht Hh Ha) as Ra. pose proof (top0_range h th b Ht Hh Hb) as Rb.
  unfold top_of.
  destruct (Qle_bool a 0) eqn:Ea; destruct (Qle_bool b 0) eqn:Eb; cbn [negb]; rewrite ?andb_false_r, ?andb_true_r;
  try (apply Qle_bool_iff in Ea); try (apply Qle_bool_iff in Eb);
  try (apply Qle_bool_false in Ea); try (apply Qle_bool_false in Eb); try (exfalso; lra);
  destruct (top0_of h th a =? 0)%Z eqn:?; destruct (top0_of h th b =? 0)%Z eqn:?; lia.
Qed.

Lemma topw_mono p1 p2 pm : (0 <= p1 <= p2)%Z -> (p2 <= Z.max 1 pm)%Z -> (Z.max 1 pm < 2 ^ 53)%Z ->
  topw_of p1 pm <= topw_of p2 pm.
Proof.
  intros Hp H2 Hm. unfold topw_of, f_div. set (m := Z.max 1 pm) in *.
  assert (E1 : f_of_int p1 == inject_Z p1) by (apply f_of_int_exact; lia).
  assert (E2 : f_of_int p2 == inject_Z p2) by (apply f_of_int_exact; lia).
  assert (Em : f_of_int m == inject_Z m) by (apply f_of_int_exact; lia).
  assert (Hm0 : 0 < inject_Z m) by (change 0 with (inject_Z 0); rewrite <- Zlt_Qlt; lia).
  assert (H1 : 0 <= inject_Z p1) by (apply inject_Z_nonneg; lia).
  assert (H12 : inject_Z p1 <= inject_Z p2) by (rewrite <- Zle_Qle; lia).
  apply rn_mono.
  - rewrite E1, Em. apply Qle_shift_div_l; [assumption|]. lra.
  - rewrite E1, E2, Em. unfold Qdiv. apply Qmult_le_compat_r; [assumption|].
    apply Qlt_le_weak. apply Qinv_lt_0_compat. assumption.
Qed.

(* ---------- the statements about thumb_geom ---------- *)

Lemma thumb_parts h pos pm tw :
  (1 <= h < 2 ^ 53)%Z -> 0 <= tw <= 1 -> (0 <= pos <= Z.max 1 pm)%Z -> (Z.max 1 pm < 2 ^ 53)%Z ->
  let '(top, th, bot) := thumb_geom h pos pm tw in
  (0 <= top /\ 1 <= th <= h /\ 0 <= bot /\ top + th + bot = h)%Z.
Proof.
  intros Hh Hw Hp Hm. rewrite thumb_geom_eq.
  pose proof (th_of_range h tw Hh Hw) as Ht.
  destruct (topw_range pos pm Hp Hm) as [Hr _].
  pose proof (top_of_range h (th_of h tw) (topw_of pos pm) Ht (proj2 Hh) Hr). lia.
Qed.

Lemma thumb_top_iff h pos pm tw :
  (1 <= h < 2 ^ 53)%Z -> 0 <= tw <= 1 -> (0 <= pos <= Z.max 1 pm)%Z -> (Z.max 1 pm < 2 ^ 53)%Z ->
  let '(top, th, bot) := thumb_geom h pos pm tw in
  ((0 < top)%Z <-> (0 < pos /\ th < h)%Z).
Proof.
  intros Hh Hw Hp Hm. rewrite thumb_geom_eq.
  pose proof (th_of_range h tw Hh Hw) as Ht.
  destruct (topw_range pos pm Hp Hm) as [Hr [Hpos Hzero]].
  rewrite (top_of_pos_iff h (th_of h tw) (topw_of pos pm) Ht (proj2 Hh) Hr).
  split; intros [A B]; split; try assumption.
  - destruct (Z.eq_dec pos 0) as [E|N]; [|lia]. rewrite (Hzero E) in A. lra.
  - apply Hpos. assumption.
Qed.

Lemma thumb_top_mono h p1 p2 pm tw :
  (1 <= h < 2 ^ 53)%Z -> 0 <= tw <= 1 -> (0 <= p1 <= p2)%Z -> (p2 <= Z.max 1 pm)%Z -> (Z.max 1 pm < 2 ^ 53)%Z ->
  (fst (fst (thumb_geom h p1 pm tw)) <= fst (fst (thumb_geom h p2 pm tw)))%Z.
Proof.
  intros Hh Hw Hp H2 Hm. rewrite !thumb_geom_eq. cbn [fst].
  pose proof (th_of_range h tw Hh Hw) as Ht.
  assert (Hp1 : (0 <= p1 <= Z.max 1 pm)%Z) by lia. assert (Hp2 : (0 <= p2 <= Z.max 1 pm)%Z) by lia.
  destruct (topw_range p1 pm Hp1 Hm) as [[A0 _] _]. destruct (topw_range p2 pm Hp2 Hm) as [[_ B1] _].
  apply top_of_mono; try assumption; try lia. apply topw_mono; assumption.
Qed.

Lemma f_min1_range x : 0 <= x -> 0 <= f_min1 x <= 1.
Proof.
  intros Hx. unfold f_min1. destruct (Qle_bool 1 x) eqn:E; [lra|]. apply Qle_bool_false in E. lra.
Qed.

Lemma f_min1_mono x y : x <= y -> f_min1 x <= f_min1 y.
Proof.
  intros H. unfold f_min1. destruct (Qle_bool 1 x) eqn:Ex; destruct (Qle_bool 1 y) eqn:Ey;
  try (apply Qle_bool_iff in Ex); try (apply Qle_bool_iff in Ey);
  try (apply Qle_bool_false in Ex); try (apply Qle_bool_false in Ey); lra.
Qed.

Lemma thumb_weight_range h r : (0 <= h)%Z -> 0 <= thumb_weight_of h r <= 1.
Proof.
  intros Hh. unfold thumb_weight_of, f_div_int_int. apply f_min1_range. apply rn_nonneg.
  assert (0 < inject_Z (Z.max 1 r)) by (change 0 with (inject_Z 0); rewrite <- Zlt_Qlt; lia).
  apply Qle_shift_div_l; [assumption|]. pose proof (inject_Z_nonneg h Hh). lra.
Qed.

(* more content rows -> the thumb does not grow *)
Lemma thumb_height_antitone h r1 r2 : (1 <= h < 2 ^ 53)%Z -> (1 <= r1 <= r2)%Z ->
  (th_of h (thumb_weight_of h r2) <= th_of h (thumb_weight_of h r1))%Z.
Proof.
  intros Hh Hr. unfold th_of. apply Z.max_le_compat_l. apply rhe_mono. unfold f_mul.
  assert (E : f_of_int h == inject_Z h) by (apply f_of_int_exact; lia).
  assert (Hn : 0 <= inject_Z h) by (apply inject_Z_nonneg; lia).
  pose proof (thumb_weight_range h r2 ltac:(lia)) as [W0 _].
  apply rn_mono.
  - rewrite E. apply Qmult_le_0_compat; assumption.
  - apply Qmult_le_compat_r; [|rewrite E; assumption].
    unfold thumb_weight_of. apply f_min1_mono. unfold f_div_int_int.
    replace (Z.max 1 r1) with r1 by lia. replace (Z.max 1 r2) with r2 by lia.
    assert (H1 : 0 < inject_Z r1) by (change 0 with (inject_Z 0); rewrite <- Zlt_Qlt; lia).
    assert (H2 : 0 < inject_Z r2) by (change 0 with (inject_Z 0); rewrite <- Zlt_Qlt; lia).
    assert (H12 : inject_Z r1 <= inject_Z r2) by (rewrite <- Zle_Qle; lia).
    apply rn_mono.
    + apply Qle_shift_div_l; [assumption|]. lra.
    + unfold Qdiv. rewrite (Qmult_comm _ (/ inject_Z r2)), (Qmult_comm _ (/ inject_Z r1)).
      apply Qmult_le_compat_r; [|assumption].
      apply Qle_shift_inv_l; [assumption|]. rewrite Qmult_comm.
      change (inject_Z r1 * / inject_Z r2) with (inject_Z r1 / inject_Z r2).
      apply Qle_shift_div_r; [assumption|]. lra.
Qed.

(* ---------- relative error of rn, and: a thumb always has room to move when the view has 2+ rows ---------- *)
Lemma pow2_m52 : pow2 (-52) == 2 * pow2 (-53).
Proof. replace (-52)%Z with (-53 + 1)%Z by lia. apply pow2_succ. Qed.

Lemma rn_rel_err x : 0 < x -> rn x <= x * (1 + pow2 (-53)).
Proof.
  intros Hx. rewrite (rn_of_pos x Hx). unfold rn_pos.
  destruct (qlog2_spec x Hx) as [L _]. set (e := qlog2 x) in *. set (u := pow2 (e - 52)).
  assert (Hu : 0 < u) by apply pow2_pos.
  pose proof (rhe_half (x / u)) as [_ Hh].
  assert (M : x / u * u == x) by (field; lra).
  assert (U : u <= x * pow2 (-52)).
  { subst u. replace (e - 52)%Z with (e + -52)%Z by lia. rewrite pow2_add.
    apply Qmult_le_compat_r; [assumption|]. apply Qlt_le_weak, pow2_pos. }
  apply Qle_trans with (y := (x / u + (1#2)) * u).
  - apply Qmult_le_compat_r; [assumption|lra].
  - rewrite pow2_m52 in U. pose proof (pow2_pos (-53)).
    assert (D : (x / u + (1 # 2)) * u == x + (1#2) * u) by (rewrite Qmult_plus_distr_l, M; reflexivity).
    rewrite D. lra.
Qed.

Lemma f_min1_le x : f_min1 x <= x.
Proof. unfold f_min1. destruct (Qle_bool 1 x) eqn:E; [apply Qle_bool_iff in E; assumption|apply Qle_refl]. Qed.

Lemma thumb_has_room h r : (2 <= h <= 2 ^ 49)%Z -> (h < r)%Z ->
  (th_of h (thumb_weight_of h r) < h)%Z.
Proof.
  intros Hh Hr.
  assert (Hh' : (1 <= h < 2 ^ 53)%Z) by lia.
  apply Z.le_lt_trans with (m := th_of h (thumb_weight_of h (h + 1))).
  { apply thumb_height_antitone; lia. }
  unfold th_of. apply Z.max_lub_lt; [lia|].
  set (tw := thumb_weight_of h (h + 1)).
  set (x := f_mul tw (f_of_int h)).
  set (H := inject_Z h).
  set (eps := pow2 (-53)).
  assert (H2 : 2 <= H) by (subst H; change 2 with (inject_Z 2); rewrite <- Zle_Qle; lia).
  assert (H49 : H <= inject_Z (2 ^ 49)) by (subst H; rewrite <- Zle_Qle; lia).
  assert (E : f_of_int h == H) by (apply f_of_int_exact; lia).
  destruct (thumb_weight_range h (h + 1) ltac:(lia)) as [T0 T1]. fold tw in T0, T1.
  (* tw <= a * (1 + eps), a = H / (H + 1) *)
  set (a := H / (H + 1)).
  assert (A1 : a * (H + 1) == H) by (subst a; field; lra).
  assert (A0 : 0 < a) by (subst a; apply Qlt_shift_div_l; lra).
  assert (A23 : 2#3 <= a) by (subst a; apply Qle_shift_div_l; lra).
  assert (Tw : tw <= a * (1 + eps)).
  { subst tw. unfold thumb_weight_of. apply Qle_trans with (y := f_div_int_int h (Z.max 1 (h + 1))); [apply f_min1_le|].
    unfold f_div_int_int. replace (Z.max 1 (h + 1)) with (h + 1)%Z by lia.
    assert (Ea : inject_Z h / inject_Z (h + 1) == a).
    { subst a H. rewrite inject_Z_plus. reflexivity. }
    apply Qle_trans with (y := inject_Z h / inject_Z (h + 1) * (1 + eps)).
    - apply rn_rel_err. rewrite Ea. assumption.
    - rewrite Ea. apply Qle_refl. }
  (* x <= tw * H * (1 + eps) *)
  assert (Heps : 0 < eps) by apply pow2_pos.
  assert (X : x <= tw * H * (1 + eps)).
  { subst x. unfold f_mul. destruct (Qlt_le_dec 0 (tw * f_of_int h)) as [P|Z].
    - apply Qle_trans with (y := tw * f_of_int h * (1 + eps)); [apply rn_rel_err; assumption|].
      rewrite E. apply Qle_refl.
    - assert (Z0 : tw * f_of_int h == 0).
      { apply Qle_antisym; [assumption|]. rewrite E. apply Qmult_le_0_compat; lra. }
      rewrite (rn_zero _ Z0). apply Qmult_le_0_compat; [apply Qmult_le_0_compat|]; lra. }
  (* so x <= a * H * (1+eps)^2 = (H - a) (1+eps)^2 <= (H - 2/3)(1+eps)^2 < H - 1/2 *)
  assert (X2 : x <= (a * (1 + eps)) * H * (1 + eps)).
  { apply Qle_trans with (y := tw * H * (1 + eps)); [assumption|].
    apply Qmult_le_compat_r; [|lra]. apply Qmult_le_compat_r; [assumption|lra]. }
  assert (AH : a * H == H - a) by lra.
  assert (X3 : x <= (H - a) * ((1 + eps) * (1 + eps))).
  { rewrite <- AH. apply Qle_trans with (y := a * (1 + eps) * H * (1 + eps)); [assumption|].
    apply Qle_lteq. right. ring. }
  assert (X4 : x <= (H - (2#3)) * ((1 + eps) * (1 + eps))).
  { apply Qle_trans with (y := (H - a) * ((1 + eps) * (1 + eps))); [assumption|].
    apply Qmult_le_compat_r; [lra|]. apply Qmult_le_0_compat; lra. }
  assert (C : (H - (2#3)) * ((1 + eps) * (1 + eps)) < H - (1#2)).
  { assert (Ee : eps == 1 # 9007199254740992) by (subst eps; vm_compute; reflexivity).
    assert (H49' : H <= 562949953421312 # 1) by exact H49.
    rewrite Ee. lra. }
  (* rhe x <= x + 1/2 < H *)
  pose proof (rhe_half x) as [_ R].
  assert (F : inject_Z (rhe x) < H) by lra.
  subst H. rewrite <- Zlt_Qlt in F. assumption.
Qed.
