(* C15 - simulation, continued (see Proofs/VTermSim.v).
   C15 - simulation of the reference VT100 (Model/VT100Ref.v) by the emulator model (Model/VTerm.v) fed with
   the byte encoding of the reference's commands: the relation R, one lemma per command, composition. *)
From Coq Require Import ZArith List Bool Lia ZifyBool.
Import ListNotations.
From Urwid Require Import PyBase PyList vterm_csi_gen VTerm VT100Ref VTermRefine VTermListFacts VTermProofs VTermParse VTermSim VTermSimB.
Open Scope Z_scope.

Arguments Z.mul : simpl never.
Arguments Z.add : simpl never.
Arguments Z.sub : simpl never.
Arguments Z.div : simpl never.
Arguments Z.modulo : simpl never.
Arguments Z.ltb : simpl never.
Arguments Z.leb : simpl never.
Arguments Z.eqb : simpl never.
Arguments Z.min : simpl never.
Arguments Z.max : simpl never.
Arguments Z.pow : simpl never.
Arguments Z.to_nat : simpl never.
Arguments Z.of_nat : simpl never.


(* ---------- erasing ---------- *)
Lemma set_range_n_eq n : forall (r : row) x v, 0 <= x -> x + Z.of_nat n <= zlen r ->
  set_range_n n r x v = Ok (takez x r ++ repeat v n ++ dropz (x + Z.of_nat n) r).
Proof.
  induction n; intros r x v Hx Hl.
  - cbn [set_range_n repeat app]. replace (x + Z.of_nat 0) with x by lia. rewrite takez_dropz. reflexivity.
  - cbn [set_range_n]. rewrite set_index_eq by lia. cbn [bind].
    rewrite IHn; [|lia|rewrite zlen_upd; lia].
    rewrite takez_upd by lia. replace (x + 1 + Z.of_nat n) with (x + 1 + Z.of_nat n) by lia.
    rewrite dropz_upd by lia. rewrite <- app_assoc. cbn [app repeat].
    replace (x + Z.of_nat (S n)) with (x + 1 + Z.of_nat n) by lia. reflexivity.
Qed.

Definition erased_row (t : st) (y a b : Z) : row :=
  let r := rowz (term t) y in takez a r ++ repeatz (empty_char t [32]) (b - a) ++ dropz b r.

Lemma set_cells_eq t y a b :
  Inv t -> 0 <= y < height t -> 0 <= a < b -> b <= width t ->
  set_cells t y a b = Ok (with_term t (takez y (term t) ++ erased_row t y a b :: dropz (y + 1) (term t))).
Proof.
  intros I Hy Ha Hb. unfold set_cells. replace (b <=? a) with false by lia.
  pose proof (i_rows t I) as Lt.
  destruct (nthz_some (term t) y ltac:(lia)) as (r & Er & _).
  assert (rowz (term t) y = r) as Rr by (unfold rowz; rewrite Er; reflexivity).
  pose proof (rowz_len t y I Hy) as Lr. rewrite Rr in Lr.
  assert (0 <= y) as Hy0 by lia. rewrite (get_index_nthz _ _ _ Hy0 Er). cbn [bind].
  unfold set_range. rewrite set_range_n_eq by lia. cbn [bind].
  rewrite set_index_eq by lia. cbn [bind].
  unfold erased_row, repeatz. cbv zeta. rewrite Rr. replace (a + Z.of_nat (Z.to_nat (b - a))) with b by lia. reflexivity.
Qed.

Lemma erased_row_rel t v y a b :
  Rg t v -> 0 <= y < v_h v ->
  Forall2 cell_rel (erased_row t y a b) (let r := nth_row (v_g v) y in takez a r ++ blanks (b - a) ++ dropz b r).
Proof.
  intros H Hy. pose proof H as []. unfold erased_row. cbv zeta.
  destruct (rowz_rel (term t) (v_g v) y g_grid) as (_ & _ & Rr); [rewrite (i_rows t g_inv), g_h; lia|].
  apply Forall2_app; [apply Forall2_takez; exact Rr|].
  apply Forall2_app; [apply blank_rel|apply Forall2_dropz; exact Rr].
Qed.

(* same state except the grid *)
Lemma Rg_with_term t v T g1 :
  Rg t v -> Inv (with_term t T) -> grid_rel T g1 -> Rg (with_term t T) (with_g v g1).
Proof. intros H I G. eapply Rg_upd; [exact H|exact I|..]; try reflexivity. exact G. Qed.

Lemma set_cells_Rg t v y a b :
  Rg t v -> 0 <= y < v_h v -> 0 <= a < b -> b <= v_w v ->
  exists T, set_cells t y a b = Ok (with_term t T) /\ Rg (with_term t T) (erase_cells v y a b).
Proof.
  intros H Hy Ha Hb. pose proof H as [].
  pose proof (set_cells_Keeps t y a b g_inv ltac:(lia) ltac:(lia) ltac:(lia)) as Kp.
  rewrite set_cells_eq in * by (auto; lia). apply K_Inv in Kp.
  eexists. split; [reflexivity|]. unfold erase_cells. cbv zeta.
  apply Rg_with_term; [assumption|exact Kp|].
  apply grid_set_row; [assumption|]. apply (erased_row_rel t v y a b H Hy).
Qed.

Lemma blank_line_Rg t v y :
  Rg t v -> 0 <= y < v_h v ->
  exists T, blank_line t y = Ok (with_term t T) /\ Rg (with_term t T) (erase_cells v y 0 (v_w v)).
Proof.
  intros H Hy. pose proof (Rg_bounds t v H) as B. pose proof H as [].
  pose proof (blank_line_Keeps t y g_inv ltac:(lia)) as Kp.
  unfold blank_line in *. rewrite set_index_eq in * by (rewrite (i_rows t g_inv); lia). cbn [bind] in *. apply K_Inv in Kp.
  eexists. split; [reflexivity|]. unfold erase_cells. cbv zeta.
  apply Rg_with_term; [assumption|exact Kp|].
  apply grid_set_row; [assumption|].
  destruct (rowz_rel (term t) (v_g v) y g_grid) as (_ & N2 & Rr); [rewrite (i_rows t g_inv), g_h; lia|].
  pose proof (Forall2_zlen _ _ _ Rr) as Lr. rewrite (rowz_len t y g_inv ltac:(lia)) in Lr.
  rewrite takez_nonpos by lia. rewrite (dropz_all' (nth_row (v_g v) y)) by lia. rewrite app_nil_r. cbn [app].
  replace (v_w v - 0) with (v_w v) by lia. apply (blank_line_rel t v H).
Qed.

Lemma cd_erase X args q c :
  csi_dispatch X c args q =
  (if c =? 75 then csi_erase_line X (arg args 0)
   else if c =? 74 then csi_erase_display X (arg args 0)
   else csi_dispatch X c args q).
Proof.
  destruct (c =? 75) eqn:E1; [apply Z.eqb_eq in E1; subst; unfold csi_dispatch; destruct (cur X); reflexivity|].
  destruct (c =? 74) eqn:E2; [apply Z.eqb_eq in E2; subst; unfold csi_dispatch; destruct (cur X); reflexivity|].
  reflexivity.
Qed.

Lemma erase_eq t v p q :
  Rg t v ->
  erase t p q =
  (let sx := clamp (fst p) (v_w v) in let sy := clamp (snd p) (v_h v) in
   let ex := clamp (fst q) (v_w v) in let ey := clamp (snd q) (v_h v) in
   if sy =? ey then set_cells t sy sx (ex + 1)
   else VTerm.erase_rows (Z.to_nat (ey - sy + 1)) t sy sx sy ex ey).
Proof.
  intros []. unfold erase. rewrite !constrain_plain1. rewrite g_w, g_h. reflexivity.
Qed.

(* from Rg of the result back to R0 when only the grid changed *)
Lemma R0_grid X v T v' :
  R0 X v -> Rg (with_term X T) v' -> v_pend v' = v_pend v -> v_x v' = v_x v -> v_w v' = v_w v ->
  R0 (with_term X T) v'.
Proof.
  intros [] H P Ex Ew. apply Rg_R0; [exact H|cbn [rotten with_term]; congruence|]. rewrite P, Ex, Ew. assumption.
Qed.

Lemma sim_el s v m : R s v -> m <= 2 -> small m ->
  exists s', addbytes s (enc_cmd (CEl m)) = Ok s' /\ R s' (exec v (CEl m)).
Proof.
  intros HR Hm Hs. cbn [enc_cmd].
  eapply (sim_csi s v [m] 75 1 0 75); [assumption|repeat constructor; assumption|reflexivity|unfold plain_byte; lia|].
  intros X HX. rewrite cd_erase. replace (75 =? 75) with true by reflexivity.
  rewrite csi_args_1. cbn [arg nth]. rewrite dflt_zero.
  pose proof (R0_bounds X v HX) as B. pose proof (R0_Rg X v HX) as G. pose proof HX as [].
  unfold csi_erase_line. rewrite r_cur. cbn [exec]. rewrite r_w.
  destruct (m <=? 0) eqn:C0.
  - replace (Z.max m 0 =? 0) with true by lia.
    rewrite (erase_eq X v _ _ G). cbn [fst snd]. cbv zeta. rewrite !clamp_in by lia.
    replace (v_y v =? v_y v) with true by lia. replace (v_w v - 1 + 1) with (v_w v) by lia.
    destruct (set_cells_Rg X v (v_y v) (v_x v) (v_w v) G) as (T & E & H'); try lia.
    rewrite E. eexists. split; [reflexivity|]. apply (R0_grid X v T _ HX H'); reflexivity.
  - replace (Z.max m 0 =? 0) with false by lia.
    destruct (m =? 1) eqn:C1.
    + replace (Z.max m 0 =? 1) with true by lia.
      rewrite (erase_eq X v _ _ G). cbn [fst snd]. cbv zeta. rewrite !clamp_in by lia.
      replace (v_y v =? v_y v) with true by lia.
      destruct (set_cells_Rg X v (v_y v) 0 (v_x v + 1) G) as (T & E & H'); try lia.
      rewrite E. eexists. split; [reflexivity|]. apply (R0_grid X v T _ HX H'); reflexivity.
    + replace (Z.max m 0 =? 1) with false by lia. replace (m =? 2) with true by lia. replace (Z.max m 0 =? 2) with true by lia.
      destruct (blank_line_Rg X v (v_y v) G) as (T & E & H'); try lia.
      rewrite E. eexists. split; [reflexivity|]. apply (R0_grid X v T _ HX H'); reflexivity.
Qed.

(* ---------- erase in display: the row loop ---------- *)
Definition erase_step (t : st) (y sx sy ex ey : Z) : result st :=
  if y =? sy then set_cells t y sx (width t) else if y =? ey then set_cells t y 0 (ex + 1) else blank_line t y.

Lemma erase_rows_S k t y sx sy ex ey :
  VTerm.erase_rows (S k) t y sx sy ex ey = bind (erase_step t y sx sy ex ey) (fun s' => VTerm.erase_rows k s' (y + 1) sx sy ex ey).
Proof. reflexivity. Qed.

Lemma bind_assoc {A B C} (r : result A) (f : A -> result B) (g : B -> result C) :
  bind (bind r f) g = bind r (fun a => bind (f a) g).
Proof. destruct r; reflexivity. Qed.

Lemma erase_rows_snoc n : forall t y sx sy ex ey,
  VTerm.erase_rows (S n) t y sx sy ex ey =
  bind (VTerm.erase_rows n t y sx sy ex ey) (fun t' => erase_step t' (y + Z.of_nat n) sx sy ex ey).
Proof.
  induction n; intros t y sx sy ex ey.
  - rewrite erase_rows_S. cbn [VTerm.erase_rows bind]. replace (y + Z.of_nat 0) with y by lia.
    destruct (erase_step t y sx sy ex ey); reflexivity.
  - rewrite erase_rows_S. rewrite (erase_rows_S n). rewrite bind_assoc.
    destruct (erase_step t y sx sy ex ey) as [s1|]; [|reflexivity]. cbn [bind].
    rewrite IHn. replace (y + 1 + Z.of_nat n) with (y + Z.of_nat (S n)) by lia. reflexivity.
Qed.

Definition blankish (w : Z) (r : row) : Prop := Forall2 cell_rel r (blanks w).

Lemma erase_step_full t y sx sy ex ey :
  Inv t -> 0 <= y < height t -> (y = sy -> sx = 0) -> (y <> sy -> y = ey -> ex + 1 = width t) ->
  exists row1, erase_step t y sx sy ex ey = Ok (with_term t (takez y (term t) ++ row1 :: dropz (y + 1) (term t))) /\
               Inv (with_term t (takez y (term t) ++ row1 :: dropz (y + 1) (term t))) /\ blankish (width t) row1.
Proof.
  intros I Hy H1 H2. pose proof (i_w t I) as Hw. unfold erase_step.
  assert (forall b, b = width t -> exists row1, set_cells t y 0 b = Ok (with_term t (takez y (term t) ++ row1 :: dropz (y + 1) (term t))) /\
               Inv (with_term t (takez y (term t) ++ row1 :: dropz (y + 1) (term t))) /\ blankish (width t) row1) as Hfull.
  { intros b ->. pose proof (set_cells_Keeps t y 0 (width t) I Hy ltac:(lia) ltac:(lia)) as Kp.
    rewrite set_cells_eq in * by (auto; lia). apply K_Inv in Kp.
    eexists. split; [reflexivity|]. split; [exact Kp|].
    unfold blankish, erased_row. cbv zeta. pose proof (rowz_len t y I Hy) as Lr.
    rewrite takez_nonpos by lia. rewrite (dropz_all' (rowz (term t) y)) by lia. rewrite app_nil_r. cbn [app].
    replace (width t - 0) with (width t) by lia. apply blank_rel. }
  destruct (y =? sy) eqn:C1.
  - rewrite (H1 ltac:(lia)). apply Hfull. reflexivity.
  - destruct (y =? ey) eqn:C2.
    + apply Hfull. apply H2; lia.
    + pose proof (blank_line_Keeps t y I Hy) as Kp. unfold blank_line in *.
      rewrite set_index_eq in * by (rewrite (i_rows t I); lia). cbn [bind] in *. apply K_Inv in Kp.
      eexists. split; [reflexivity|]. split; [exact Kp|]. unfold blankish, empty_line. apply blank_rel.
Qed.

Lemma erase_rows_full n : forall t y0 sx sy ex ey,
  Inv t -> 0 <= y0 -> y0 + Z.of_nat n <= height t ->
  (forall yy, y0 <= yy < y0 + Z.of_nat n -> (yy = sy -> sx = 0) /\ (yy <> sy -> yy = ey -> ex + 1 = width t)) ->
  exists rows', VTerm.erase_rows n t y0 sx sy ex ey =
                  Ok (with_term t (takez y0 (term t) ++ rows' ++ dropz (y0 + Z.of_nat n) (term t))) /\
                Inv (with_term t (takez y0 (term t) ++ rows' ++ dropz (y0 + Z.of_nat n) (term t))) /\
                length rows' = n /\ Forall (blankish (width t)) rows'.
Proof.
  induction n; intros t y0 sx sy ex ey I Hy Hn Hf.
  - exists []. cbn [VTerm.erase_rows app length]. replace (y0 + Z.of_nat 0) with y0 by lia. rewrite takez_dropz.
    assert (with_term t (term t) = t) as E by (destruct t; reflexivity). rewrite E. auto.
  - rewrite erase_rows_S.
    destruct (Hf y0 ltac:(lia)) as (F1 & F2).
    destruct (erase_step_full t y0 sx sy ex ey I ltac:(lia) F1 F2) as (row1 & E1 & I1 & B1).
    rewrite E1. cbn [bind]. set (T1 := takez y0 (term t) ++ row1 :: dropz (y0 + 1) (term t)) in *.
    destruct (IHn (with_term t T1) (y0 + 1) sx sy ex ey I1 ltac:(lia) ltac:(cbn [height with_term]; lia)) as (rows2 & E2 & I2 & L2 & B2).
    { intros yy Hyy. cbn [width with_term]. apply Hf. lia. }
    exists (row1 :: rows2). pose proof (i_rows t I) as Lt.
    cbn [term with_term width] in E2, I2, B2.
    assert (takez (y0 + 1) T1 ++ rows2 ++ dropz (y0 + 1 + Z.of_nat n) T1
            = takez y0 (term t) ++ (row1 :: rows2) ++ dropz (y0 + Z.of_nat (S n)) (term t)) as ET.
    { subst T1. rewrite takez_upd by lia. rewrite dropz_upd by lia. rewrite <- app_assoc. cbn [app].
      replace (y0 + 1 + Z.of_nat n) with (y0 + Z.of_nat (S n)) by lia. reflexivity. }
    rewrite ET in E2, I2. split; [exact E2|]. split; [exact I2|]. split; [cbn [length]; lia|]. constructor; assumption.
Qed.

Lemma blank_rows_rel w rows' : Forall (blankish w) rows' -> Forall2 (Forall2 cell_rel) rows' (blank_rows w (Z.of_nat (length rows'))).
Proof.
  intros H. unfold blank_rows. rewrite Nat2Z.id. apply Forall2_repeat_r. exact H.
Qed.

Lemma with_term_id t : with_term t (term t) = t.
Proof. destruct t; reflexivity. Qed.

Lemma sim_ed s v m : R s v -> m <= 2 -> small m ->
  exists s', addbytes s (enc_cmd (CEd m)) = Ok s' /\ R s' (exec v (CEd m)).
Proof.
  intros HR Hm Hs. cbn [enc_cmd].
  eapply (sim_csi s v [m] 74 1 0 74); [assumption|repeat constructor; assumption|reflexivity|unfold plain_byte; lia|].
  intros X HX. rewrite cd_erase. replace (74 =? 75) with false by reflexivity. replace (74 =? 74) with true by reflexivity.
  rewrite csi_args_1. cbn [arg nth]. rewrite dflt_zero.
  pose proof (R0_bounds X v HX) as B. pose proof (R0_Rg X v HX) as G. pose proof HX as [].
  pose proof (Rg_bounds X v G) as (_ & _ & _ & _ & _ & _ & _ & Lg).
  pose proof (i_rows X r_inv) as Lt.
  unfold csi_erase_display. cbn [exec].
  destruct (m <=? 0) eqn:C0.
  - (* from the cursor to the end of the display *)
    replace (Z.max m 0 =? 0) with true by lia. replace (Z.max m 0 =? 1) with false by lia.
    replace (Z.max m 0 =? 2) with false by lia.
    rewrite (erase_eq X v _ _ G). rewrite r_cur, r_w, r_h. cbn [fst snd]. cbv zeta. rewrite !clamp_in by lia.
    replace (v_w v - 1 + 1) with (v_w v) by lia.
    destruct (set_cells_Rg X v (v_y v) (v_x v) (v_w v) G) as (T1 & E1 & H1); try lia.
    set (v1 := erase_cells v (v_y v) (v_x v) (v_w v)) in *.
    pose proof (Rg_bounds _ v1 H1) as (_ & _ & _ & _ & _ & _ & _ & Lg1). change (v_h v1) with (v_h v) in Lg1.
    destruct (v_y v =? v_h v - 1) eqn:C1.
    + rewrite E1. cbn [bind]. eexists. split; [reflexivity|].
      apply (R0_grid X v T1 _ HX); try reflexivity.
      unfold VT100Ref.erase_rows. replace (v_y v + 1) with (v_h v) by lia.
      apply (Rg_with_term (with_term X T1) v1 T1 _ H1); [apply H1|].
      rewrite (takez_all' (v_g v1)) by lia. rewrite (dropz_all' (v_g v1)) by lia.
      replace (v_h v - v_h v) with 0 by lia. cbn [blank_rows repeat app]. rewrite app_nil_r. apply H1.
    + replace (Z.to_nat (v_h v - 1 - v_y v + 1)) with (S (Z.to_nat (v_h v - 1 - v_y v))) by lia.
      rewrite erase_rows_S. unfold erase_step. replace (v_y v =? v_y v) with true by lia. rewrite r_w. rewrite E1. cbn [bind].
      set (t1 := with_term X T1) in *. set (k := Z.to_nat (v_h v - 1 - v_y v)).
      destruct (erase_rows_full k t1 (v_y v + 1) (v_x v) (v_y v) (v_w v - 1) (v_h v - 1) (g_inv _ _ H1))
        as (rows' & E2 & I2 & L2 & B2); [lia|cbn [height t1 with_term]; lia| |].
      { intros yy Hyy. split; [lia|]. intros _ _. cbn [width t1 with_term]. lia. }
      rewrite E2. cbn [bind]. eexists. split; [reflexivity|].
      apply (R0_grid X v _ _ HX); try reflexivity.
      unfold VT100Ref.erase_rows. apply (Rg_with_term t1 v1 _ _ H1 I2).
      cbn [term t1 with_term].
      replace (v_y v + 1 + Z.of_nat k) with (v_h v) by lia.
      apply Forall2_app; [apply Forall2_takez; apply H1|].
      apply Forall2_app; [|apply Forall2_dropz; apply H1].
      replace (v_h v - (v_y v + 1)) with (Z.of_nat (length rows')) by lia.
      apply blank_rows_rel. cbn [width t1 with_term] in B2. rewrite r_w in B2. exact B2.
  - replace (Z.max m 0 =? 0) with false by lia. cbn [bind].
    destruct (m =? 1) eqn:C1.
    + (* from the start of the display through the cursor *)
      replace (Z.max m 0 =? 1) with true by lia.
      rewrite (erase_eq X v _ _ G). rewrite r_cur. cbn [fst snd]. cbv zeta. rewrite !clamp_in by lia.
      destruct (0 =? v_y v) eqn:C2.
      * replace (v_y v) with 0 by lia.
        destruct (set_cells_Rg X v 0 0 (v_x v + 1) G) as (T1 & E1 & H1); try lia.
        rewrite E1. eexists. split; [reflexivity|].
        apply (R0_grid X v T1 _ HX); try reflexivity.
        replace (v_y v) with 0 in H1 by lia. exact H1.
      * replace (Z.to_nat (v_y v - 0 + 1)) with (S (Z.to_nat (v_y v))) by lia.
        rewrite erase_rows_snoc. set (k := Z.to_nat (v_y v)).
        destruct (erase_rows_full k X 0 0 0 (v_x v) (v_y v) r_inv) as (rows' & E2 & I2 & L2 & B2); [lia|lia| |].
        { intros yy Hyy. split; [reflexivity|]. intros _ Hy. lia. }
        rewrite E2. cbn [bind]. set (T1 := takez 0 (term X) ++ rows' ++ dropz (0 + Z.of_nat k) (term X)) in *.
        set (t1 := with_term X T1) in *.
        assert (Rg t1 (VT100Ref.erase_rows v 0 (v_y v))) as H1.
        { unfold VT100Ref.erase_rows. apply Rg_with_term; [exact G|exact I2|]. subst T1.
          replace (0 + Z.of_nat k) with (v_y v) by lia.
          apply Forall2_app; [apply Forall2_takez; exact r_grid|].
          apply Forall2_app; [|apply Forall2_dropz; exact r_grid].
          replace (v_y v - 0) with (Z.of_nat (length rows')) by lia.
          apply blank_rows_rel. rewrite r_w in B2. exact B2. }
        unfold erase_step. replace (0 + Z.of_nat k) with (v_y v) by lia.
        replace (v_y v =? 0) with false by lia. replace (v_y v =? v_y v) with true by lia.
        destruct (set_cells_Rg t1 _ (v_y v) 0 (v_x v + 1) H1) as (T2 & E3 & H3); cbn [VT100Ref.erase_rows with_g v_h v_w]; try lia.
        rewrite E3. eexists. split; [reflexivity|].
        change (with_term t1 T2) with (with_term X T2) in *.
        apply (R0_grid X v T2 _ HX H3); reflexivity.
    + replace (Z.max m 0 =? 1) with false by lia. replace (m =? 2) with true by lia. replace (Z.max m 0 =? 2) with true by lia.
      (* the whole display; the cursor stays *)
      eexists. split; [reflexivity|].
      unfold clear. rewrite r_cur.
      set (T1 := repeatz (empty_line X [32]) (height X)).
      assert (Rg (with_term X T1) (VT100Ref.erase_rows v 0 (v_h v))) as H1.
      { pose proof (clear_K X (Some (cur X)) r_inv) as Kc. unfold VT100Ref.erase_rows.
        apply Rg_with_term; [exact G| |].
        - apply with_term_K; [assumption|]. subst T1. split; [apply zlen_repeatz; lia|].
          apply Forall_repeat. apply zlen_empty_line. lia.
        - subst T1. rewrite takez_nonpos by lia. rewrite (dropz_all' (v_g v)) by lia. rewrite app_nil_r. cbn [app].
          unfold blank_rows, repeatz. rewrite r_h. replace (v_h v - 0) with (v_h v) by lia.
          apply Forall2_repeat'. apply (blank_line_rel X v G). }
      pose proof (Rg_stay _ _ H1) as H2. cbn [VT100Ref.erase_rows with_g v_x v_y] in H2.
      destruct (stc_frame (with_term X T1) (v_x v) (v_y v)) as (_ & _ & Fr & _).
      apply Rg_R0; [exact H2|rewrite Fr; exact r_pend|exact r_pendx].
Qed.

