(* C05 - the headline statement for whole streams: a stream made of recognised items (table keys,
   X10 and SGR mouse reports, cursor position reports, printable ASCII, well-formed UTF-8 characters,
   double-byte characters) is decoded into exactly one event per item, in order, with the documented
   name / coordinates - delivered whole or cut into successive reads at arbitrary points. *)
From Coq Require Import ZArith List Bool Lia.
Import ListNotations.
From Urwid Require Import PyBase escape_table_gen KeyInput KeyInputProofs KeyInputSgr KeyInputTrie KeyInputWide.
Open Scope Z_scope.

(* ---------- sequences the table does not know ---------- *)
Definition table_blind (k : list Z) : bool :=
  forallb (fun e => negb (is_prefix (fst e) k) && negb (pprefix k (fst e))) input_sequences.

Lemma is_prefix_app_l k rest : is_prefix k (k ++ rest) = true.
Proof. apply is_prefix_app. Qed.

Lemma trie_blind k rest more : table_blind k = true -> k <> [] ->
  get_recurse input_trie (k ++ rest) more = OOk None.
Proof.
  intros Hb Hne. unfold table_blind in Hb. rewrite forallb_forall in Hb.
  destruct (trie_lookup_is_table_lookup_gen _ _ input_trie_built) as [_ G].
  destruct (G (k ++ rest) more) as [_ [G2 _]].
  assert (Hk : forall s n, In (s, n) input_sequences -> is_prefix s k = false /\ pprefix k s = false).
  { intros s n Hin. specialize (Hb _ Hin). cbn [fst] in Hb. apply andb_true_iff in Hb.
    destruct Hb as [H1 H2]. apply negb_true_iff in H1, H2. split; assumption. }
  assert (Hcmp : forall s n, In (s, n) input_sequences -> is_prefix k s = false).
  { intros s n Hin. destruct (Hk s n Hin) as [H1 H2]. destruct (is_prefix k s) eqn:E; [|reflexivity].
    destruct (is_prefix_eq_or_proper _ _ E) as [->|Hp]; [rewrite is_prefix_refl in H1; discriminate|congruence]. }
  rewrite G2.
  - assert (E : existsb (fun e => pprefix (k ++ rest) (fst e)) input_sequences = false).
    { apply not_true_is_false. intros Hex. apply existsb_exists in Hex. destruct Hex as [[s n] [Hin Hp]].
      cbn [fst] in Hp. apply pprefix_is_prefix in Hp.
      pose proof (Hcmp s n Hin) as Hc. rewrite (is_prefix_trans _ _ _ (is_prefix_app_l k rest) Hp) in Hc. discriminate Hc. }
    rewrite E. destruct k; [congruence|reflexivity].
  - intros s n Hin. destruct (is_prefix s (k ++ rest)) eqn:E; [|reflexivity].
    destruct (is_prefix_comparable _ _ _ E (is_prefix_app_l k rest)) as [H|H].
    + destruct (Hk s n Hin); congruence.
    + rewrite (Hcmp s n Hin) in H. discriminate.
Qed.

(* ---------- items ---------- *)
Inductive item :=
  | IKey (s name : list Z)                 (* a table entry: ESC s *)
  | IX10 (b x y : Z)                       (* ESC [ M b x y *)
  | ISgr (bs xs ys : list Z) (t : Z)       (* ESC [ < b ; x ; y M|m *)
  | ICpr (ys xs : list Z)                  (* ESC [ y ; x R *)
  | IAscii (c : Z)
  | IUtf8 (code : Z) (conts : list Z) (cp : Z)
  | IDouble (a b : Z).

Definition item_bytes (i : item) : list Z :=
  match i with
  | IKey s _ => 27 :: s
  | IX10 b x y => [27; 91; 77; b; x; y]
  | ISgr bs xs ys t => 27 :: 91 :: 60 :: bs ++ 59 :: xs ++ 59 :: ys ++ [t]
  | ICpr ys xs => 27 :: 91 :: ys ++ 59 :: xs ++ [82]
  | IAscii c => [c]
  | IUtf8 code conts _ => code :: conts
  | IDouble a b => [a; b]
  end.

Definition item_event (i : item) : event :=
  match i with
  | IKey _ name => Key name
  | IX10 b x y => x10_event b x y
  | ISgr bs xs ys t => sgr_doc_event (digits_val bs) (digits_val xs) (digits_val ys) t
  | ICpr ys xs => CursorPos (digits_val xs - 1) (digits_val ys - 1)
  | IAscii c => Key [c]
  | IUtf8 _ _ cp => Key [cp]
  | IDouble a b => Key [a; b]
  end.

Definition item_ok (em : encoding) (i : item) : Prop :=
  match i with
  | IKey s name => In (s, name) input_sequences /\ zs_eqb name str_mouse = false /\ zs_eqb name str_sgrmouse = false
  | IX10 _ _ _ => True
  | ISgr bs xs ys t => digits bs /\ digits xs /\ digits ys /\ (t = 77 \/ t = 109) /\
                       (length bs <= 4300)%nat /\ (length xs <= 4300)%nat /\ (length ys <= 4300)%nat
  | ICpr ys xs => numeral ys = true /\ numeral xs = true /\ table_blind (91 :: ys ++ 59 :: xs ++ [82]) = true
  | IAscii c => 32 <= c <= 126
  | IUtf8 code conts cp =>
      em = Utf8 /\ 127 < code < 256 /\ utf8_check (length conts) conts = U8Good /\
      utf8_decode code (length conts) conts = Some cp /\
      (Z.land code 224 =? 192) = (length conts =? 1)%nat /\ (Z.land code 240 =? 224) = (length conts =? 2)%nat /\
      (Z.land code 248 =? 240) = (length conts =? 3)%nat
  | IDouble a b => em = Wide /\ 128 <= a < 256 /\ 0 <= b < 256 /\ dbcs_trail a b = true
  end.

Lemma utf8_check_app n : forall conts rest, utf8_check n conts = U8Good -> utf8_check n (conts ++ rest) = U8Good.
Proof.
  intros conts rest H. rewrite utf8_check_ext; [exact H|congruence].
Qed.

(* each item alone: exactly one event, the documented one, what follows untouched *)
Lemma item_decodes em i : item_ok em i ->
  item_bytes i <> [] /\
  forall rest more, process_keyqueue em (item_bytes i ++ rest) more = OOk ([item_event i], rest).
Proof.
  destruct i as [s name|b x y|bs xs ys t|ys xs|c|code conts cp|a b]; cbn [item_ok item_bytes item_event];
    intros H; (split; [discriminate|]); intros rest more.
  - destruct H as [Hin [Hm Hs]]. cbn [app]. apply table_entries_decode_proof; assumption.
  - cbn [app]. apply x10_mouse_decodes_proof.
  - destruct H as [Hb [Hx [Hy [Ht [Lb [Lx Ly]]]]]].
    replace ((27 :: 91 :: 60 :: bs ++ 59 :: xs ++ 59 :: ys ++ [t]) ++ rest)
      with (27 :: 91 :: 60 :: bs ++ 59 :: xs ++ 59 :: ys ++ t :: rest)
      by (cbn [app]; repeat (rewrite <- app_assoc; cbn [app]); reflexivity).
    apply sgr_mouse_decodes_proof; assumption.
  - destruct H as [Hy [Hx Hbl]].
    replace ((27 :: 91 :: ys ++ 59 :: xs ++ [82]) ++ rest) with (27 :: 91 :: ys ++ 59 :: xs ++ 82 :: rest)
      by (cbn [app]; repeat (rewrite <- app_assoc; cbn [app]); reflexivity).
    apply cursor_position_decodes_proof; [exact Hy|exact Hx|].
    replace (91 :: ys ++ 59 :: xs ++ 82 :: rest) with ((91 :: ys ++ 59 :: xs ++ [82]) ++ rest)
      by (cbn [app]; repeat (rewrite <- app_assoc; cbn [app]); reflexivity).
    apply trie_blind; [exact Hbl|discriminate].
  - cbn [app]. rewrite process_eq.
    assert (E : (32 <=? c) && (c <=? 126) = true) by (apply andb_true_iff; split; apply Z.leb_le; lia).
    rewrite E. reflexivity.
  - destruct H as [-> [Hc [Hchk [Hdec [H1 [H2 H3]]]]]]. cbn [app].
    apply (utf8_char_decodes_proof code (length conts) conts cp rest more); auto.
    apply utf8_check_app; exact Hchk.
  - destruct H as [-> [Ha [Hb Ht]]]. cbn [app]. rewrite (wide_pair_decodes_proof a b rest more Ha Hb), Ht. reflexivity.
Qed.

(* ---------- streams ---------- *)
Lemma decode_items em more : forall items,
  Forall (item_ok em) items ->
  decode em (flat_map item_bytes items) more = PDone (map item_event items).
Proof.
  induction items as [|i items IH]; intros H; [reflexivity|].
  inversion H as [|? ? Hi His]; subst. destruct (item_decodes em i Hi) as [Hne Hd].
  cbn [flat_map map]. rewrite decode_cons.
  - rewrite Hd, (IH His). reflexivity.
  - destruct (item_bytes i); [congruence|discriminate].
Qed.

(* delivered in one read, or cut anywhere into successive reads: the same events, nothing pending *)
Lemma recognised_stream_fragmented em items pieces :
  Forall (item_ok em) items -> concat pieces = flat_map item_bytes items ->
  exists calls, run em [] (map Feed pieces) = (calls, [], None) /\
    keys_of calls = map item_event items /\ raw_of calls = flat_map item_bytes items.
Proof.
  intros Hok Hc.
  pose proof (feeds_against_whole em pieces [] (or_introl eq_refl)) as H. cbn [app] in H.
  rewrite Hc, (decode_items em true items Hok) in H. exact H.
Qed.

(* non-vacuity of item_ok *)
Definition example_items_utf8 : list item :=
  [IKey [91; 49; 59; 53; 65] [99; 116; 114; 108; 32; 117; 112]; IX10 32 43 53; ISgr [48] [49; 50] [51] 77;
   ICpr [50; 52] [56; 48]; IAscii 97; IUtf8 228 [184; 150] 19990].
Definition example_items_wide : list item := [IDouble 176 161; IAscii 97; IDouble 129 64].

Lemma in_table_up : In ([91; 49; 59; 53; 65], [99; 116; 114; 108; 32; 117; 112]) input_sequences.
Proof.
  assert (H : existsb (fun e => zs_eqb (fst e) [91; 49; 59; 53; 65] && zs_eqb (snd e) [99; 116; 114; 108; 32; 117; 112])
                input_sequences = true) by (vm_compute; reflexivity).
  apply existsb_exists in H. destruct H as [[s n] [Hin H]]. cbn [fst snd] in H.
  apply andb_true_iff in H. destruct H as [H1 H2]. apply zs_eqb_eq in H1, H2. subst. exact Hin.
Qed.

Lemma example_items_ok : Forall (item_ok Utf8) example_items_utf8 /\ Forall (item_ok Wide) example_items_wide.
Proof.
  split.
  - constructor; [cbn [item_ok]; split; [exact in_table_up|split; reflexivity]|].
    constructor; [exact I|].
    constructor.
    { cbn [item_ok]. repeat split; try discriminate; try reflexivity; try (cbn; lia); try (left; reflexivity). }
    constructor; [cbn [item_ok]; repeat split; vm_compute; reflexivity|].
    constructor; [cbn [item_ok]; lia|].
    constructor; [|constructor].
    cbn [item_ok]. repeat split; try reflexivity; try lia.
  - constructor; [cbn [item_ok]; repeat split; try reflexivity; lia|].
    constructor; [cbn [item_ok]; lia|].
    constructor; [cbn [item_ok]; repeat split; try reflexivity; lia|constructor].
Qed.
